import Driver.Proto
import GoMailModel.Eml.Body
/-
  emlbody <charset> <encoding> ENT
    ENT := ctypes disps ctes cid #status mediatype charset? boundary? #cd cdmedia cdfilename? cddecoded?
           body? qp? b64stream? b64str? #nkids #endOk ENT*nkids
    (`x?` = `!` for absent, otherwise a byte string token)
  reply: `err` or
    `ok charset encoding #np (ctype charset enc content)*np #na (name data cid?)*na #ne (name data cid?)*ne`
-/
namespace EmlOps
open GoMail GoMail.Proto GoMail.Eml

def decOpt (t : String) : Option (Option Bytes) :=
  if t == "!" then some none else (decBytes t).map some

partial def parseEnt : List String → Option (VEnt × List String)
  | cts :: dis :: ces :: cid :: st :: med :: cs :: bd :: cdp :: cdm :: cdf :: cdd :: body :: qp :: b64s :: b64d :: nk :: eo :: rest => do
    let ctypes ← decList cts
    let disps ← decList dis
    let ctes ← decList ces
    let cid ← decBytes cid
    let status ← decNat st
    let mediatype ← decBytes med
    let charset ← decOpt cs
    let boundary ← decOpt bd
    let cdPresent ← decNat cdp
    let cdmedia ← decBytes cdm
    let cdfilename ← decOpt cdf
    let cddecoded ← decOpt cdd
    let body ← decOpt body
    let qp ← decOpt qp
    let b64stream ← decOpt b64s
    let b64str ← decOpt b64d
    let nkids ← decNat nk
    let endOk ← decNat eo
    let rec kidsLoop (n : Nat) (toks : List String) (acc : List VEnt) : Option (List VEnt × List String) :=
      match n with
      | 0 => some (acc.reverse, toks)
      | n + 1 => do
        let (k, toks') ← parseEnt toks
        kidsLoop n toks' (k :: acc)
    let (kids, rest') ← kidsLoop nkids rest []
    let cd : Option CD := if cdPresent == 1 then some { mediatype := cdmedia, filename := cdfilename, decoded := cddecoded } else none
    some (VEnt.mk ctypes disps ctes cid { status := status, mediatype := mediatype, charset := charset, boundary := boundary } cd
      body qp b64stream b64str kids (endOk == 1), rest')
  | _ => none

def encOpt : Option Bytes → String
  | none => "!"
  | some b => encBytes b

def showSt (st : ESt) : String :=
  let parts := st.parts.map (fun p => s!"{encBytes p.ctype} {encBytes p.charset} {encBytes p.enc} {encBytes p.content}")
  let files := fun (l : List EFile) => l.map (fun f => s!"{encBytes f.name} {encBytes f.data} {encOpt f.cid}")
  " ".intercalate (["ok", encBytes st.charset, encBytes st.enc, encNat st.parts.length] ++ parts ++
    [encNat st.atts.length] ++ files st.atts ++ [encNat st.embeds.length] ++ files st.embeds)

def handle : List String → String
  | cs :: enc :: rest =>
    match decBytes cs, decBytes enc, parseEnt rest with
    | some cs, some enc, some (top, []) =>
      (match parseBody top { charset := cs, enc := enc } with
       | .ok st => showSt st
       | .error _ => "err")
    | _, _, _ => "bad-arg"
  | _ => "bad-arg"

end EmlOps
