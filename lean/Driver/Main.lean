import Driver.Proto
import GoMailModel.Mime.Addr
import GoMailModel.Codec.LineBreaker
import GoMailModel.Codec.EncodedWord
import GoMailModel.Mime.Fold
import GoMailModel.Mime.Body
import Driver.MsgOps
import Driver.SmtpOps
import Driver.EmlOps
import GoMailModel.Eml.Params
/-
  gmdriver: one operation per input line, one reply line per operation.
  Every reply is computed by the executable model definitions the theorems are about.
-/
open GoMail GoMail.Proto

def handle (toks : List String) : String :=
  match toks with
  | "msg" :: ops => MsgOps.handle ops
  | "smtp" :: ops => SmtpOps.handle ops
  | "emlbody" :: ops => EmlOps.handle ops
  | ["mph", v] =>
    match decBytes v with
    | some b =>
      let (h, opts) := Eml.parseMultiPartHeader b
      -- a Go map: keep the last assignment per key, print sorted by key
      let keys := (opts.map (·.1)).eraseDups
      let kvs := keys.filterMap (fun k => (Eml.optGet opts k).map (fun val => k ++ [61] ++ val))
      let sorted := kvs.toArray.qsort (fun a b => Mime.bytesLt a b) |>.toList
      encBytes h ++ " " ++ encList sorted
    | none => "bad-arg"
  | ["envaddr", a] =>
    match decBytes a with
    | some v => encBytes (GoMail.Smtp.envelopeAddress v)
    | none => "bad-arg"
  | ["lb", chunks] =>
    match decList chunks with
    | some cs => encBytes (LineBreaker.close (LineBreaker.writeAll [] [] (by decide) cs))
    | none => "bad-arg"
  | ["fold", key, values] =>
    match decBytes key, decList values with
    | some k, some vs => let r := Fold.writeHeader k vs; encBytes r.1 ++ " " ++ encNat r.2
    | _, _ => "bad-arg"
  | ["body", enc, chunks] =>
    match decNat enc, decList chunks with
    | some e, some cs =>
      let cte : Body.CTE := match e with | 0 => .qp | 1 => .b64 | 2 => .raw | 3 => .raw | _ => .other
      encBytes (Body.encodeChunks cte cs)
    | _, _ => "bad-arg"
  | ["encw", enc, charset, s] =>
    match decNat enc, decBytes charset, decBytes s with
    | some e, some cs, some v => encBytes (EncodedWord.wordEncode (if e == 0 then .q else .b) cs v)
    | _, _, _ => "bad-arg"
  | ["fmtaddr", n, a] =>
    match decBytes n, decBytes a with
    | some n, some a => encBytes (GoMail.Addr.formatAddress n a)
    | _, _ => "bad-arg"
  | ["addrstr", n, st, sp] =>
    match decBytes n, decBytes st, decBytes sp with
    | some n, some st, some sp => encBytes (GoMail.Addr.addressString n st sp)
    | _, _, _ => "bad-arg"
  | ["sanit", s] =>
    match decBytes s with
    | some v => encBytes (Body.sanitizeFilename v)
    | none => "bad-arg"
  | _ => "bad-op"

partial def loop (hin : IO.FS.Stream) (hout : IO.FS.Stream) : IO Unit := do
  let line ← hin.getLine
  if line.isEmpty then return ()
  hout.putStrLn (handle (tokens line))
  loop hin hout

def main : IO Unit := do
  let hin ← IO.getStdin
  let hout ← IO.getStdout
  loop hin hout
  hout.flush
