import Driver.Proto
import GoMailModel.Mime.Exec
import GoMailModel.Eml.View
import Driver.EmlOps
/-
  `msg` protocol line: a sequence of builder / render / query operations applied to one Msg.
  Builder ops change the state silently, render and query ops append tokens to the reply.
-/
open GoMail GoMail.Proto GoMail.Mime

namespace MsgOps

def kindOf : Nat → AddrKind
  | 0 => .from_ | 1 => .envFrom | 2 => .to | 3 => .cc | 4 => .bcc | _ => .replyTo

def optOf (l : List Bytes) : Option Bytes := l.head?

def parsedList (oks strs bares : List Bytes) : List Parsed :=
  (oks.zip (strs.zip bares)).map (fun (o, s, b) => if o == [49] then some { str := s, bare := b } else none)

structure St where
  s      : MsgState := {}
  out    : List String := []
  signed : Option Bytes := none
  bad    : Bool := false

def emit (st : St) (t : String) : St := { st with out := st.out ++ [t] }

partial def run (st : St) : List String → St
  | [] => st
  | "charset" :: c :: rest =>
    match decBytes c with
    | some c => run { st with s := { st.s with charset := c } } rest
    | none => { st with bad := true }
  | "encoding" :: e :: rest =>
    match decBytes e with
    | some e => run { st with s := { st.s with encoding := e } } rest
    | none => { st with bad := true }
  | "boundary" :: b :: rest =>
    match decBytes b with
    | some b => run { st with s := { st.s with boundary := b } } rest
    | none => { st with bad := true }
  | "noua" :: rest => run { st with s := { st.s with noDefaultUA := true } } rest
  | "smime" :: rest => run { st with s := { st.s with smime := true } } rest
  | "gen" :: k :: vs :: rest =>
    match decBytes k, decList vs with
    | some k, some vs => run { st with s := setGenHeader st.s k vs } rest
    | _, _ => { st with bad := true }
  | "genraw" :: k :: vs :: rest =>
    match decBytes k, decList vs with
    | some k, some vs => run { st with s := setGenRaw st.s k vs } rest
    | _, _ => { st with bad := true }
  | "pre" :: k :: v :: rest =>
    match decBytes k, decBytes v with
    | some k, some v => run { st with s := setPreformatted st.s k v } rest
    | _, _ => { st with bad := true }
  | "addr" :: kind :: oks :: strs :: bares :: rest =>
    match decNat kind, decList oks, decList strs, decList bares with
    | some k, some o, some s, some b =>
      let r := setAddrHeader st.s (kindOf k) (parsedList o s b)
      run (emit { st with s := r.1 } (encBool r.2)) rest
    | _, _, _, _ => { st with bad := true }
  | "addrign" :: kind :: oks :: strs :: bares :: rest =>
    match decNat kind, decList oks, decList strs, decList bares with
    | some k, some o, some s, some b =>
      run { st with s := setAddrHeaderIgnoreInvalid st.s (kindOf k) (parsedList o s b) } rest
    | _, _, _, _ => { st with bad := true }
  | "addradd" :: kind :: oks :: strs :: bares :: rest =>
    match decNat kind, decList oks, decList strs, decList bares with
    | some k, some o, some s, some b =>
      let r := addAddr st.s (kindOf k) ((parsedList o s b).headD none)
      run (emit { st with s := r.1 } (encBool r.2)) rest
    | _, _, _, _ => { st with bad := true }
  | "sender" :: rest =>
    run (emit st (match getSender st.s with | some b => encBytes b | none => "!")) rest
  | "rcpts" :: rest => run (emit st (encList (getRecipients st.s))) rest
  | "fileprod" :: isA :: idx :: content :: rest =>
    -- the content producer of one file changes between renders (a source that failed once and now works)
    match decNat isA, decNat idx, decBytes content with
    | some a, some i, some c =>
      let upd (l : List FileM) : List FileM := l.mapIdx (fun j f => if j == i then { f with prod := { content := c, fails := false } } else f)
      run { st with s := if a != 0 then { st.s with attachments := upd st.s.attachments } else { st.s with embeds := upd st.s.embeds } } rest
    | _, _, _ => { st with bad := true }
  | "isview" :: rest =>
    -- isview ENT : does the standard library's view of the real rendering match the entity tree of the
    -- model state (Eml.matchTop), and does the EML body logic store what Eml.effects says for it?
    match EmlOps.parseEnt rest with
    | some (v, []) =>
      match Eml.xtreeOf st.s with
      | none => emit st "unsupported"
      | some x =>
        if !Eml.okTop x then emit st "unsupported"
        else
          let m := Eml.matchTop x v
          let exp := Eml.effects x
          let r := match Eml.parseBody v { charset := sb "UTF-8", enc := Eml.eQP } with
            | .ok got => got.parts == (match x with | .part p => [{ Eml.storedPart p with charset := p.charset }] | _ => exp.parts)
                         && got.atts == exp.atts && got.embeds == exp.embeds
            | .error _ => false
          emit st (encBool m ++ " " ++ encBool r)
    | _ => { st with bad := true }
  | "delpart" :: idx :: rest =>
    -- Part.Delete() on the idx-th part of the message
    match decNat idx with
    | some i => run { st with s := { st.s with parts := st.s.parts.mapIdx (fun j p => if j == i then { p with deleted := true } else p) } } rest
    | none => { st with bad := true }
  | "nest" :: rest =>
    run (emit st (encBool (hasMixed st.s) ++ " " ++ encBool (hasRelated st.s) ++ " " ++ encBool (hasAlt st.s))) rest
  | "signed" :: rest =>
    run (emit st (match st.signed with | some b => encBytes b | none => "!")) rest
  | op :: ctype :: charset :: enc :: desc :: content :: fails :: rest =>
    if op == "body" || op == "alt" then
      match decBytes ctype, decList charset, decList enc, decBytes desc, decBytes content, decNat fails with
      | some ct, some cs, some en, some d, some c, some f =>
        let p := newPart st.s ct (optOf cs) (optOf en) d { content := c, fails := f != 0 }
        run { st with s := if op == "body" then setBody st.s p else addAlternative st.s p } rest
      | _, _, _, _, _, _ => { st with bad := true }
    else if op == "file" then
      -- file isAttach name ctype desc enc cid typeByExt content fails  (9 args: three more than body)
      match rest with
      | typeByExt :: content2 :: fails2 :: rest' =>
        -- here: ctype=isAttach charset=name enc=ctype desc=desc content=enc fails=cid
        match decNat ctype, decBytes charset, decBytes enc, decBytes desc, decBytes content, decList fails,
              decBytes typeByExt, decBytes content2, decNat fails2 with
        | some isA, some name, some ct, some d, some en, some cid, some tbe, some c, some f =>
          let hdr : HeaderMap := match cid.head? with
            | some v => [(hContentID, v)]
            | none => []
          let fm : FileM := { name := name, ctype := ct, desc := d, enc := en, header := hdr, typeByExt := tbe,
                              prod := { content := c, fails := f != 0 } }
          run { st with s := if isA != 0 then attach st.s fm else embed st.s fm } rest'
        | _, _, _, _, _, _, _, _, _ => { st with bad := true }
      | _ => { st with bad := true }
    else if op == "writeto" then
      -- writeto date msgid bm br ba bs sig limit
      match rest with
      | sig :: limit :: rest' =>
        match decBytes ctype, decBytes charset, decBytes enc, decBytes desc, decBytes content, decBytes fails,
              decBytes sig with
        | some date, some msgid, some bm, some br, some ba, some bs, some sg =>
          let e : Entropy := { date := date, msgid := msgid, bMixed := bm, bRelated := br, bAlt := ba, bSigned := bs, signature := sg }
          let lim := decNat limit
          match writeTo st.s e lim with
          | none => run (emit st "early-error") rest'
          | some (acc, n, err, s') =>
            let sg := (renderPlan st.s e).bind (·.signed)
            run (emit { st with s := s', signed := sg } (encBytes acc ++ " " ++ encNat n ++ " " ++ encBool err)) rest'
        | _, _, _, _, _, _, _ => { st with bad := true }
      | _ => { st with bad := true }
    else if op == "sweep" then
      -- sweep date msgid bm br ba bs sig : every sink limit k in [0, L]; reply: L and the list of k
      -- at which NOT (k < L → err ∧ n = k ∧ accepted = first k bytes) ∧ (k = L → ¬err ∧ n = L)
      match rest with
      | sig :: rest' =>
        match decBytes ctype, decBytes charset, decBytes enc, decBytes desc, decBytes content, decBytes fails,
              decBytes sig with
        | some date, some msgid, some bm, some br, some ba, some bs, some sg =>
          let e : Entropy := { date := date, msgid := msgid, bMixed := bm, bRelated := br, bAlt := ba, bSigned := bs, signature := sg }
          match writeTo st.s e none with
          | none => run (emit st "early-error") rest'
          | some (full, _, _, _) =>
            let L := full.length
            let bad := (List.range (L + 1)).filter (fun k =>
              match writeTo st.s e (some k) with
              | none => true
              | some (acc, n, err, _) =>
                if k < L then !(err && n == k && acc == full.take k) else !(!err && n == L && acc == full))
            run (emit st (encNat L ++ " " ++ encList (bad.map natToDec))) rest'
        | _, _, _, _, _, _, _ => { st with bad := true }
      | _ => { st with bad := true }
    else { st with bad := true }
  | _ => { st with bad := true }

def handle (toks : List String) : String :=
  let st := run {} toks
  if st.bad then "bad-op" else " ".intercalate st.out

end MsgOps
