import GoMailModel.Basic.Bytes
/-
  Line protocol between the Go harness and the model driver.
  A line is `op arg arg ...` separated by single blanks. Arguments:
    `#123`         decimal natural number
    `.`            empty byte string
    `4142`         hex byte string
    `-`            empty list
    `41,.,4243`    list of byte strings (comma separated, each `.` or hex)
  Replies use the same token syntax.
-/
namespace GoMail.Proto
open GoMail

def tokens (line : String) : List String :=
  ((line.trimAscii.toString).splitOn " ").filter (· ≠ "")

def decBytes (t : String) : Option Bytes :=
  if t == "." then some [] else fromHex t.toUTF8.toList

def decList (t : String) : Option (List Bytes) :=
  if t == "-" then some [] else (t.splitOn ",").mapM decBytes

def decNat (t : String) : Option Nat :=
  if t.startsWith "#" then (t.drop 1).toNat? else none

def encBytes (b : Bytes) : String :=
  if b.isEmpty then "." else String.fromUTF8! (ByteArray.mk (toHex b).toArray)

def encList (l : List Bytes) : String :=
  if l.isEmpty then "-" else ",".intercalate (l.map encBytes)

def encNat (n : Nat) : String := "#" ++ toString n

def encBool (b : Bool) : String := if b then "#1" else "#0"

end GoMail.Proto
