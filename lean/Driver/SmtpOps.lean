import Driver.Proto
import GoMailModel.Smtp.Judge
open GoMail GoMail.Proto GoMail.Smtp

namespace SmtpOps

def parseAct (b : Bytes) : Option Act :=
  match b with
  | [111] => some .ok
  | [100] => some .drop
  | [115] => some .stall
  | [103] => some .garbage
  | [116] => some .tlsBad
  | [102] => some .deaf
  | 114 :: a :: b' :: c :: 32 :: text =>
    if isDigit a && isDigit b' && isDigit c then
      some (.reply ((a.toNat - 48) * 100 + (b'.toNat - 48) * 10 + (c.toNat - 48)) text)
    else none
  | [114, a, b', c] =>
    if isDigit a && isDigit b' && isDigit c then
      some (.reply ((a.toNat - 48) * 100 + (b'.toNat - 48) * 10 + (c.toNat - 48)) [])
    else none
  | _ => none

def verbName : Verb → String
  | .greeting => "greeting" | .ehlo => "EHLO" | .helo => "HELO" | .mail => "MAIL" | .rcpt => "RCPT" | .data => "DATA"
  | .eod => "eod" | .rset => "RSET" | .noop => "NOOP" | .quit => "QUIT" | .starttls => "STARTTLS" | .auth => "AUTH" | .other => "?"
  | .handshake => "handshake" | .authStep => "auth-step" | .authAbort => "auth-abort"

def evBytes : Ev → Option Bytes
  | .connect => some (sb "connect")
  | .cmd _ line => some (sb "cmd " ++ line)
  | .content _ _ => none
  | .eod => some (sb "eod")
  | .reply code => some (sb ("reply " ++ toString code))
  | .garbage => some (sb "garbage")
  | .drop => some (sb "drop")
  | .close => some (sb "close")
  | .deadline => some (sb "deadline")
  | .stall a => some (sb (if a then "stall-armed" else "stall-unarmed"))
  | .tlsOn => some (sb "tls-on")
  | .tlsFail => some (sb "tls-fail")

def errTag : Option Err → String
  | none => "-"
  | some (.reply code _) => "reply" ++ toString code
  | some .eof => "eof" | some .proto => "proto" | some .timeout => "timeout" | some .blocked => "blocked"
  | some .closed => "closed" | some .invalidLine => "invalid" | some .noConn => "noconn"
  | some .deadlineFailed => "deadline" | some .noSender => "nosender" | some .noRcpts => "norcpts"
  | some .noUnencoded => "nounenc" | some .render => "render"
  | some .tls => "tls" | some (.mech t) => "mech" ++ toString t | some .noAuthSupport => "noauth"
  | some .authNotSupported => "authunsupported" | some .noStartTLS => "nostarttls"

def sendErrStr (e : SendErr) : String :=
  encNat e.reason.toNat ++ " " ++ encBool e.isTemp ++ " " ++ encNat e.code ++ " " ++ encBytes e.esc ++ " " ++
    encList e.rcpts ++ " " ++ encNat e.nerrs

def msgOutStr (o : MsgOut) : String :=
  encBool o.delivered ++ " " ++ (match o.err with | none => "noerr" | some e => "err " ++ sendErrStr e)

partial def parseMsgs : List String → Option (List MsgIn)
  | [] => some []
  | "m" :: eb :: sender :: rcpts :: rok :: big :: rest =>
    match decNat eb, decList sender, decList rcpts, decNat rok, decNat big, parseMsgs rest with
    | some e, some s, some r, some k, some bg, some ms =>
      some ({ eightBit := e != 0, sender := s.head?, rcpts := r, renderOK := k != 0, big := bg != 0 } :: ms)
    | _, _, _, _, _, _ => none
  | _ => none

def upperB (b : Bytes) : Bytes := b.map (fun c => if 97 ≤ c && c ≤ 122 then c - 32 else c)

/-- the verb of a command line as the harness judge reads it (first word, case-insensitive) -/
def verbOfLine (inAuth : Bool) (line : Bytes) : Verb :=
  if line == [42] then .authAbort
  else
    let w := upperB ((splitOn 32 line).headD [])
    if w == sb "EHLO" then .ehlo else if w == sb "HELO" then .helo else if w == sb "MAIL" then .mail
    else if w == sb "RCPT" then .rcpt else if w == sb "DATA" then .data else if w == sb "RSET" then .rset
    else if w == sb "NOOP" then .noop else if w == sb "QUIT" then .quit else if w == sb "STARTTLS" then .starttls
    else if w == sb "AUTH" then .auth else if inAuth then .authStep else .other

/-- one event of a recorded trace (harness vocabulary) -/
def parseTraceEv (inAuth : Bool) (b : Bytes) : Option Ev × Bool :=
  if b == sb "connect" then (some .connect, false)
  else if hasPrefix b (sb "cmd ") then
    let v := verbOfLine inAuth (b.drop 4)
    (some (.cmd v (b.drop 4)), v == .auth || v == .authStep)
  else if b == sb "eod" then (some .eod, false)
  else if hasPrefix b (sb "reply ") then
    ((decNat (String.mk ((35 :: b.drop 6).map (fun c => Char.ofNat c.toNat)))).map Ev.reply, inAuth)
  else if b == sb "garbage" then (some .garbage, inAuth)
  else if b == sb "drop" then (some .drop, inAuth)
  else if b == sb "close" then (some .close, inAuth)
  else if b == sb "deadline" then (some .deadline, inAuth)
  else if b == sb "stall-armed" then (some (.stall true), inAuth)
  else if b == sb "stall-unarmed" then (some (.stall false), inAuth)
  else if b == sb "tls-on" then (some .tlsOn, inAuth)
  else if b == sb "tls-fail" then (some .tlsFail, inAuth)
  else (none, inAuth)

def parseTrace : Bool → List Bytes → List Ev
  | _, [] => []
  | a, b :: rest =>
    match parseTraceEv a b with
    -- the server saw a complete DATA payload before the end-of-data marker
    | (some .eod, a') => .content 0 true :: .eod :: parseTrace a' rest
    | (some e, a') => e :: parseTrace a' rest
    | (none, a') => parseTrace a' rest

/-- smtp dialsend <caps> <script> <helo> #noNoop #requestDSN <dsnReturn> <dsnNotify> #policy m ... -/
def handle (toks : List String) : String :=
  match toks with
  | "dialsend" :: caps :: script :: helo :: nn :: rd :: dr :: dn :: pol :: msgs =>
    match decList caps, decList script, decBytes helo, decNat nn, decNat rd, decBytes dr, decBytes dn, decNat pol, parseMsgs msgs with
    | some caps, some sc, some helo, some nn, some rd, some dr, some dn, some pol, some ms =>
      match sc.mapM parseAct with
      | none => "bad-script"
      | some acts =>
        let policy : TLSPolicy := if pol == 0 then .mandatory else if pol == 1 then .opportunistic else .noTLS
        let cfg : DialCfg := { helo := helo, policy := policy, send := { noNoop := nn != 0, requestDSN := rd != 0, dsnReturn := dr, dsnNotify := dn } }
        let o := dialAndSend cfg acts caps ms
        let tr := encList (o.conn.trace.filterMap evBytes)
        let res := " ".intercalate (o.msgs.map msgOutStr)
        tr ++ " dial=" ++ errTag o.dialErr ++ " senderr=" ++ encBool o.sendErr ++
          " check=" ++ (match o.checkErr with | none => "-" | some e => sendErrStr e) ++
          " close=" ++ errTag o.closeErr ++ " open=" ++ encBool o.conn.cliOpen ++ " | " ++ res
    | _, _, _, _, _, _, _, _, _ => "bad-arg"
  | op :: caps :: script :: helo :: host :: policy :: implicit :: usessl :: atype :: user :: pass :: debug :: logauth ::
      suser :: spass :: cnonce :: tls13 :: cbs :: crypto :: hmacs :: thenReset :: [] =>
    if op != "dial" && op != "authfirst" && op != "tlsauth" then "bad-op" else
    match decList caps, decList script, decBytes helo, decBytes host, decNat policy, decNat implicit, decNat usessl,
          decBytes atype, decBytes user, decBytes pass, decNat debug, decNat logauth with
    | some caps, some sc, some helo, some host, some pol, some imp, some ssl, some atyp, some user, some pass, some dbg, some la =>
      match decList suser, decList spass, decList cnonce, decNat tls13, decList cbs, decList crypto, decList hmacs, sc.mapM parseAct with
      | some su, some sp, some cn, some t13, some cb, some cr, some hm, some acts =>
        let rec table5 : List Bytes → List (Bytes × Bytes × Bytes × Bytes × Bytes)
          | a :: b :: c :: d :: e :: rest => (a, b, c, d, e) :: table5 rest
          | _ => []
        let rec table2 : List Bytes → List (Bytes × Bytes)
          | a :: b :: rest => (a, b) :: table2 rest
          | _ => []
        let ct := table5 cr
        let ht := table2 hm
        let crypto (salt : Bytes) (iter : Int) (am : Bytes) : Bytes × Bytes :=
          match ct.find? (fun (s, i, m, _, _) => s == salt && i == sb (toString iter) && m == am) with
          | some (_, _, _, p, v) => (p, v)
          | none => ([], [])
        let hmacHex (_ : Bytes) (ch : Bytes) : Bytes := match ht.find? (·.1 == ch) with | some (_, d) => d | none => []
        let atype : AuthType := ([AuthType.noAuth, .autoDiscover, .cramMD5, .custom, .login, .loginNoEnc, .plain, .plainNoEnc,
            .scramSHA1, .scramSHA1Plus, .scramSHA256, .scramSHA256Plus, .xoauth2].find? (fun t => sb t.name == atyp)).getD .noAuth
        let policy : TLSPolicy := if pol == 0 then .mandatory else if pol == 1 then .opportunistic else .noTLS
        let scramEnv : ScramEnv := { algorithm := [], user := su.head?, pass := sp.head?, cnonces := cn, tls13 := t13 != 0, tlsUnique := (cb.head?).getD [], exporter := (cb.drop 1).head?, crypto := crypto }
        let cfg : DialCfg := { helo := helo, host := host, policy := policy, implicitTLS := imp != 0, useSSL := ssl != 0, authType := atype, user := user, pass := pass, debug := dbg != 0, logAuthData := la != 0, hmacHex := hmacHex, scram := scramEnv }
        -- "authfirst": smtp.NewClient followed directly by Client.Auth (the implicit EHLO happens inside Auth)
        -- "tlsauth": smtp.NewClient, Client.StartTLS (its result is ignored: a caller that carries on), Client.Auth, Client.Close
        let (c, e) := if op == "dial" then dial cfg acts caps
          else match newClient cfg acts caps with
            | (c, some e) => (c, some e)
            | (c, none) =>
              let c := { c with debug := cfg.debug, logAuthData := cfg.logAuthData }
              if op == "tlsauth" then
                let r := runMech cfg c.startTLS.1 atype
                (r.1.close, r.2)
              else runMech cfg c atype
        -- optionally Client.Reset() on the established connection (traffic after the AUTH window)
        let (c, re) := if thenReset == "#1" && e.isNone then resetWith cfg.send c else (c, none)
        let logs := c.logs.map (fun r => (if r.c2s then sb "C " else sb ("S " ++ toString r.code ++ " ")) ++ r.text)
        encList (c.trace.filterMap evBytes) ++ " dial=" ++ errTag e ++ " open=" ++ encBool c.cliOpen ++ " logs=" ++ encList logs ++ " reset=" ++ errTag re
      | _, _, _, _, _, _, _, _ => "bad-arg2"
    | _, _, _, _, _, _, _, _, _, _, _, _ => "bad-arg"
  | ["judge", tr] =>
    -- the reference automaton of C04 (Smtp/Judge.lean) on a recorded trace
    match decList tr with
    | some evs => "legal=" ++ encBool (!(judge (parseTrace false evs)).bad)
    | none => "bad-arg"
  | _ => "bad-op"

end SmtpOps
