import Driver.Proto
import GoMailModel.Smtp.Dial
open GoMail GoMail.Proto GoMail.Smtp

namespace SmtpOps

def parseAct (b : Bytes) : Option Act :=
  match b with
  | [111] => some .ok
  | [100] => some .drop
  | [115] => some .stall
  | [103] => some .garbage
  | 114 :: a :: b' :: c :: 32 :: text =>
    if isDigit a && isDigit b' && isDigit c then
      some (.reply ((a.toNat - 48) * 100 + (b'.toNat - 48) * 10 + (c.toNat - 48)) text)
    else none
  | [114, a, b', c] =>
    if isDigit a && isDigit b' && isDigit c then
      some (.reply ((a.toNat - 48) * 100 + (b'.toNat - 48) * 10 + (c.toNat - 48)) [])
    else none
  | _ => none

def verbName : Verb → String
  | .greeting => "greeting" | .ehlo => "EHLO" | .helo => "HELO" | .mail => "MAIL" | .rcpt => "RCPT" | .data => "DATA"
  | .eod => "eod" | .rset => "RSET" | .noop => "NOOP" | .quit => "QUIT" | .starttls => "STARTTLS" | .auth => "AUTH" | .other => "?"

def evBytes : Ev → Option Bytes
  | .connect => some (sb "connect")
  | .cmd _ line => some (sb "cmd " ++ line)
  | .content _ _ => none
  | .eod => some (sb "eod")
  | .reply code => some (sb ("reply " ++ toString code))
  | .garbage => some (sb "garbage")
  | .drop => some (sb "drop")
  | .close => some (sb "close")
  | .deadline => some (sb "deadline")
  | .stall a => some (sb (if a then "stall-armed" else "stall-unarmed"))

def errTag : Option Err → String
  | none => "-"
  | some (.reply code _) => "reply" ++ toString code
  | some .eof => "eof" | some .proto => "proto" | some .timeout => "timeout" | some .blocked => "blocked"
  | some .closed => "closed" | some .invalidLine => "invalid" | some .noConn => "noconn"
  | some .deadlineFailed => "deadline" | some .noSender => "nosender" | some .noRcpts => "norcpts"
  | some .noUnencoded => "nounenc" | some .render => "render"

def sendErrStr (e : SendErr) : String :=
  encNat e.reason.toNat ++ " " ++ encBool e.isTemp ++ " " ++ encNat e.code ++ " " ++ encBytes e.esc ++ " " ++
    encList e.rcpts ++ " " ++ encNat e.nerrs

def msgOutStr (o : MsgOut) : String :=
  encBool o.delivered ++ " " ++ (match o.err with | none => "noerr" | some e => "err " ++ sendErrStr e)

partial def parseMsgs : List String → Option (List MsgIn)
  | [] => some []
  | "m" :: eb :: sender :: rcpts :: rok :: rest =>
    match decNat eb, decList sender, decList rcpts, decNat rok, parseMsgs rest with
    | some e, some s, some r, some k, some ms =>
      some ({ eightBit := e != 0, sender := s.head?, rcpts := r, renderOK := k != 0 } :: ms)
    | _, _, _, _, _ => none
  | _ => none

/-- smtp dialsend <caps> <script> <helo> #noNoop #requestDSN <dsnReturn> <dsnNotify> m ... -/
def handle (toks : List String) : String :=
  match toks with
  | "dialsend" :: caps :: script :: helo :: nn :: rd :: dr :: dn :: msgs =>
    match decList caps, decList script, decBytes helo, decNat nn, decNat rd, decBytes dr, decBytes dn, parseMsgs msgs with
    | some caps, some sc, some helo, some nn, some rd, some dr, some dn, some ms =>
      match sc.mapM parseAct with
      | none => "bad-script"
      | some acts =>
        let cfg : DialCfg := { helo := helo, send := { noNoop := nn != 0, requestDSN := rd != 0, dsnReturn := dr, dsnNotify := dn } }
        let o := dialAndSend cfg acts caps ms
        let tr := encList (o.conn.trace.filterMap evBytes)
        let res := " ".intercalate (o.msgs.map msgOutStr)
        tr ++ " dial=" ++ errTag o.dialErr ++ " senderr=" ++ encBool o.sendErr ++
          " check=" ++ (match o.checkErr with | none => "-" | some e => sendErrStr e) ++
          " close=" ++ errTag o.closeErr ++ " open=" ++ encBool o.conn.cliOpen ++ " | " ++ res
    | _, _, _, _, _, _, _, _ => "bad-arg"
  | _ => "bad-op"

end SmtpOps
