import GoMailModel.Basic.Bytes
