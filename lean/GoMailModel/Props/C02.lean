import GoMailModel.Proofs.EncodedWord
import GoMailModel.Proofs.Fold
import GoMailModel.Mime.Render
import GoMailModel.Proofs.Addr
import GoMailModel.Proofs.EncodedWordRT
/-
  C02 — No caller-supplied text can alter the header block.
  Core: whatever bytes a caller passes to a text-accepting setter, the stored header value is
  printable ASCII / TAB (never CR or LF), and writeHeader turns such values into exactly one field.
-/
namespace GoMail.Props.C02
open GoMail GoMail.Mime GoMail.EncodedWord

/-- Msg.encodeString (SetGenHeader, Subject, Organization, User-Agent, ...): for EVERY input byte
    string the stored value contains nothing but printable ASCII and TAB. -/
theorem stored_value_safe (s : MsgState) (raw : Bytes) (hcs : AllSafe s.charset) :
    AllSafe (encodeString s raw) :=
  wordEncode_safe _ _ _ hcs

theorem stored_value_no_crlf (s : MsgState) (raw : Bytes) (hcs : AllSafe s.charset) :
    ∀ b ∈ encodeString s raw, b ≠ 13 ∧ b ≠ 10 :=
  wordEncode_no_crlf _ _ _ hcs

/-- the same encoder is applied to file names, file descriptions and part descriptions (addFiles,
    writePart): the parameter text of every synthesised part header is CR/LF-free as well -/
theorem part_text_no_crlf (enc : EncLabel) (charset raw : Bytes) (hcs : AllSafe charset) :
    ∀ b ∈ wordEncode (encoderOf enc) charset raw, b ≠ 13 ∧ b ≠ 10 :=
  wordEncode_no_crlf _ _ _ hcs

/-- **Each free-text value decodes to the string that was set.** What Msg.encodeString stores for a
    subject, a generic header value, an organisation, a user agent, a description or a (sanitised) file
    name is either the value itself - when it consists of printable ASCII and TAB only - or a sequence
    of RFC 2047 encoded-words which an RFC 2047 reader written from the grammar
    (Codec/EncodedWordDec.lean: "Q" and "B", adjacent words joined) decodes to exactly the bytes that
    were set: for EVERY byte string, both encodings, however the encoder splits the text into words,
    every charset label without '?'. (The other case, a printable value that itself looks like an
    encoded-word, is the known finding c02-encoded-word-lookalike.) -/
theorem stored_value_decodes (e : Enc) (charset raw : Bytes) (hcs : ∀ c ∈ charset, c ≠ 63) :
    (needsEncoding raw = true → decodeWords (wordEncode e charset raw) = some raw) ∧
    (needsEncoding raw = false → wordEncode e charset raw = raw) := by
  constructor
  · intro h
    unfold wordEncode
    rw [if_pos h]
    exact decodeWords_encodeWord e charset raw hcs
  · intro h
    unfold wordEncode
    simp [h]

/-- non-vacuity: a subject that needs two encoded-words -/
example : decodeWords (wordEncode .q (sb "UTF-8") (sb "Grüße aus Köln, Grüße aus Köln, Grüße aus Köln, Grüße aus Köln")) =
    some (sb "Grüße aus Köln, Grüße aus Köln, Grüße aus Köln, Grüße aus Köln") :=
  (stored_value_decodes .q (sb "UTF-8") _ (by decide)).1 (by decide)

theorem sanitize_byte : ∀ b : UInt8,
    let c := Body.sanitizeByte b
    32 ≤ c ∧ c ≠ 127 ∧ c ≠ 34 ∧ c ≠ 92 ∧ c ≠ 47 ∧ c ≠ 58 ∧ c ≠ 60 ∧ c ≠ 62 ∧ c ≠ 63 ∧ c ≠ 124 := by
  apply forall_uint8; decide +kernel

/-- sanitizeFilename (byte set regenerated from the source): no control character, quote, backslash
    or path character survives, for every file name -/
theorem sanitized_name (name : Bytes) :
    ∀ c ∈ Body.sanitizeFilename name, 32 ≤ c ∧ c ≠ 127 ∧ c ≠ 34 ∧ c ≠ 92 ∧ c ≠ 47 := by
  intro c hc
  obtain ⟨b, _, rfl⟩ := List.mem_map.mp hc
  have := sanitize_byte b
  exact ⟨this.1, this.2.1, this.2.2.1, this.2.2.2.1, this.2.2.2.2.1⟩

theorem joinValues_no_crlf (values : List Bytes) (h : ∀ v ∈ values, ∀ b ∈ v, b ≠ 13 ∧ b ≠ 10) :
    Fold.NoCRLF (Fold.joinValues values) := by
  unfold Fold.joinValues
  induction values with
  | nil => intro b hb; simp [joinWith] at hb
  | cons v rest ih =>
    cases rest with
    | nil => intro b hb; simp only [joinWith] at hb; exact h v (by simp) b hb
    | cons v2 vs =>
      intro b hb
      simp only [joinWith] at hb
      rcases List.mem_append.mp hb with h1 | h1
      · rcases List.mem_append.mp h1 with h2 | h2
        · exact h v (by simp) b h2
        · simp at h2; rcases h2 with rfl | rfl <;> decide
      · exact ih (fun x hx => h x (by simp [hx])) b h1

/-- No header injection through generic header values: for ANY raw values, the bytes writeHeader
    emits for the stored (encoded) values are CRLF-joined lines whose continuation lines all start
    with a blank — a strict RFC 5322 reader sees exactly one field named `key` — and removing the
    folds gives back "key: v1, v2, ..." of the stored values. -/
theorem one_field_per_header (s : MsgState) (key : Bytes) (raw : List Bytes)
    (hk : Fold.NoSp key) (hcs : AllSafe s.charset) :
    ∃ lines : List Bytes, lines ≠ [] ∧
      Fold.bufferString key (raw.map (encodeString s)) = joinCRLF lines ∧
      lines.flatten = key ++ [58, 32] ++ Fold.joinValues (raw.map (encodeString s)) ∧
      (∀ l ∈ lines.tail, l.head? = some 32) := by
  have hv : Fold.NoCRLF (Fold.joinValues (raw.map (encodeString s))) := by
    apply joinValues_no_crlf
    intro v hv
    obtain ⟨r, _, rfl⟩ := List.mem_map.mp hv
    exact stored_value_no_crlf s r hcs
  obtain ⟨lines, h1, h2, h3, h4, _⟩ := Fold.bufferString_structure key _ hk hv
  exact ⟨lines, h1, h2, h3, h4⟩

/-- Display names set through the *Format helpers: the name-addr that formatAddress hands to the
    address parser reads back (RFC 5322 quoted-string: `\\x` is x, an unescaped quote ends it) to
    exactly the name and the address that were given — for EVERY name, whatever quotes, backslashes,
    angle brackets or commas it contains. A name can therefore never smuggle a second address. -/
theorem format_name_roundtrip (name addr : Bytes) :
    Addr.readNameAddr (Addr.formatAddress name addr) = some (name, addr) :=
  Addr.readNameAddr_format name addr

/-- Rendering of an address whose display name has a backslash and needs RFC 2047 encoding: the
    phrase consists of B encoded-words made of phrase-safe bytes only (no backslash, quote, angle
    bracket, parenthesis, comma, colon, semicolon, at-sign, CR, LF); every other address is rendered by
    net/mail's Address.String (taken as given). -/
theorem address_phrase_safe (name std spec : Bytes)
    (h : (name.contains 92 && EncodedWord.needsEncoding name) = true) :
    ∃ phrase, Addr.addressString name std spec = phrase ++ [32] ++ spec ∧
      ∀ c ∈ phrase, c ≠ 92 ∧ c ≠ 34 ∧ c ≠ 60 ∧ c ≠ 62 ∧ c ≠ 40 ∧ c ≠ 41 ∧ c ≠ 44 ∧ c ≠ 59 ∧ c ≠ 58 ∧ c ≠ 64 ∧ c ≠ 13 ∧ c ≠ 10 :=
  Addr.addressString_phrase name std spec h

example : Addr.readNameAddr (Addr.formatAddress (sb "a\" <evil@example.org>, \"b\\") (sb "u@example.com"))
    = some (sb "a\" <evil@example.org>, \"b\\", sb "u@example.com") := by decide

/-- non-vacuity: the classic injection attempt is neutralised -/
example : AllSafe (sb "UTF-8") := by decide

end GoMail.Props.C02
