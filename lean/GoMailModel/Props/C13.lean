import GoMailModel.Conc.Interleave
import GoMailModel.Generated.Locks
/-
  C13 — Concurrent use of one Client is safe (PARTIAL: the part a lock model can carry).
  Proved: the lock structure of the source (regenerated facts) puts every Send call's whole dialogue
  inside one critical section of sendMutex, and for such programs EVERY schedule of ANY number of
  goroutines produces a trace that is a sequence of whole per-call blocks.
  Not proved (named in DESIGN.md / evidence): the Go memory model, races inside the standard library,
  that the syntactic extraction sees every lock operation. The race detector runs in the harness.
-/
namespace GoMail.Props.C13
open GoMail GoMail.Conc

/-- Fact regenerated from client.go: Client.Send is `sendMutex.Lock(); defer sendMutex.Unlock();
    return c.SendWithSMTPClient(...)` and nothing else. -/
theorem send_holds_sendMutex :
    ("client.go", "Client.Send", ["Lock c.sendMutex", "defer Unlock c.sendMutex", "call c.SendWithSMTPClient"])
      ∈ Generated.lockEvents := by decide

/-- Fact: DialAndSendWithContext works on a connection of its own (the client returned by its own
    dial), it never touches the shared c.smtpClient. -/
theorem dialAndSend_private_connection :
    ∀ e ∈ Generated.lockEvents, e.2.1 = "Client.DialAndSendWithContext" → False := by decide

/-- Fact regenerated from client.go / client_120.go: the functions every message of a DialAndSend and
    of a SendWithSMTPClient passes through (DialAndSendWithContext, SendWithSMTPClient, sendSingleMsg)
    never mention the shared connection `c.smtpClient`, never call a method of Client that reaches it
    (closure `sharedConnMethods`: Close, Reset, Send, DialWithContext, ...) and never pass the receiver
    on as a value - they work on the connection handed to them only. `Client.Send`, the one entry point
    that reads `c.smtpClient`, does so under sendMutex (`send_holds_sendMutex`). -/
theorem send_path_stays_on_its_connection :
    ∀ e ∈ Generated.recvUses, e.1 ≠ "Client.Send" →
      ∀ u ∈ e.2, u ≠ "c.smtpClient" ∧ u ≠ "<c>" ∧ u ∉ Generated.sharedConnMethods := by decide

/-- ... and these are the functions in question (the inventory is not empty) -/
theorem send_path_inventory :
    Generated.recvUses.map (·.1) = ["Client.DialAndSendWithContext", "Client.Send", "Client.sendSingleMsg", "Client.SendWithSMTPClient"] ∧
    "c.Reset" ∈ Generated.sharedConnMethods ∧ "c.Send" ∈ Generated.sharedConnMethods := by decide

/-- Fact: smtp.Client.cmd writes the command and reads its reply inside one critical section of the
    connection mutex (Lock ... Text.Cmd ... Text.ReadResponse ... Unlock). -/
theorem cmd_is_one_critical_section :
    Generated.lockEvents.any (fun e =>
      e.1 == "smtp/smtp.go" && e.2.1 == "Client.cmd" && e.2.2.head? == some "Lock c.mutex" &&
      e.2.2.getLast? == some "Unlock c.mutex" && e.2.2.contains "call c.Text.Cmd" &&
      e.2.2.contains "call c.Text.ReadResponse") = true := by decide

/-- For ANY number of goroutines, ANY dialogues `body i` (the command/reply events of the i-th Send
    call: whatever the session model assigns to it) and ANY schedule: what the shared connection sees
    is a concatenation of whole dialogues, plus a prefix of the dialogue of the call that currently
    holds sendMutex. Transactions of different calls never interleave. -/
theorem sends_never_interleave {ev : Type} (body : Nat → List ev) (sched : List Nat) (s' : St ev)
    (h : exec sched ⟨full body, none, []⟩ = some s') :
    ∃ done part, s'.trace = blocks body done ++ part ∧ (s'.holder = none → part = []) ∧
      (∀ hd, s'.holder = some hd → ∃ k, part = tag hd ((body hd).take k)) :=
  atomic_blocks body sched s' h

/-- non-vacuity: two goroutines; thread 1 can only start after thread 0 released the lock -/
example : (exec [0, 0, 0, 0, 1, 1] ⟨full (fun i => [i * 10, i * 10 + 1]), none, []⟩).map (·.trace) =
    some [(0, 0), (0, 1), (1, 10)] := by decide
example : (exec [0, 0, 1] ⟨full (fun i => [i * 10, i * 10 + 1]), none, []⟩).map (·.trace) = none := by decide


/-- Fact regenerated from client.go, client_120.go, smtp/smtp.go, smtp/smtp_ehlo.go by a path-sensitive
    walk over every function body (`lockFlow` in tools/extract): no path returns, or reaches the end
    of the body, while a mutex it took is still held without a pending deferred unlock; no path
    unlocks what it does not hold or locks what it already holds; the branches of every if / switch /
    select join with the same locks held; no loop body changes the locks held; and no lock call sits at
    a place the walk does not follow. So every function gives back, on every path, the locks it took:
    no caller is left blocked for good by an early return. -/
theorem every_path_gives_back_the_locks_it_took : Generated.lockFlowProblems = [] := rfl

end GoMail.Props.C13
