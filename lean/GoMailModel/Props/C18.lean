import GoMailModel.Mime.Body
import GoMailModel.Mime.Fold
import GoMailModel.Proofs.Wrap
import GoMailModel.Proofs.Fold
import GoMailModel.Proofs.QPLines
import GoMailModel.Generated.Const
import GoMailModel.Mime.Render
/-
  C18 — Generated output obeys Internet-message line discipline.
  Property theorems only; helper lemmas live in GoMailModel/Proofs.
-/
namespace GoMail.Props.C18
open GoMail LineBreaker

/-- The 76-column constant the models use is the one in the source (regenerated fact). -/
theorem limits_from_source : Generated.maxBodyLength = LineBreaker.maxBody ∧
    (Generated.maxHeaderLength : Int) = Fold.maxHeaderLength := by decide

/-- base64LineBreaker: for EVERY way of splitting the encoder's output into Write calls, Close yields
    the 76-column wrapping of the concatenated data. -/
theorem linebreaker_any_chunking (chunks : List Bytes) :
    close (writeAll [] [] (by decide) chunks) = wrap76 chunks.flatten := by
  simpa using writeAll_spec [] [] (by decide) chunks

/-- ... and a carried-over partial line never breaks the termination invariant of the recursion. -/
theorem linebreaker_invariant (line out data : Bytes) (h : line.length < 76) :
    (write line out data h).line.length < 76 := write_line_lt line out data h

/-- Every base64 body the writer emits is a sequence of non-empty lines of at most 76 base64-alphabet
    characters (hence free of CR and LF), each terminated by CRLF, and the lines concatenate to the
    base64 encoding of the content. -/
theorem b64_body_lines (content : Bytes) :
    ∃ ls : List Bytes, Body.encodeBody .b64 content = (ls.map (· ++ crlf)).flatten ∧
      ls.flatten = Base64.encode content ∧
      ∀ l ∈ ls, 0 < l.length ∧ l.length ≤ 76 ∧ ∀ c ∈ l, c ≠ 13 ∧ c ≠ 10 := by
  obtain ⟨ls, h1, h2, h3⟩ := wrap76_lines (Base64.encode content)
  refine ⟨ls, ?_, h2, ?_⟩
  · show close (writeAll [] [] _ [Base64.encode content]) = _
    rw [writeAll_spec]; simpa using h1
  · intro l hl
    refine ⟨(h3 l hl).1, (h3 l hl).2, ?_⟩
    intro c hc
    apply Base64.alpha_not_crlf
    apply Base64.encode_alpha content
    rw [← h2]
    exact List.mem_flatten.mpr ⟨l, hl, hc⟩

/-- Every quoted-printable body the writer emits (also for parts with an unknown encoding label):
    whole lines of at most 76 bytes free of CR and LF, each terminated by CRLF, followed by a last
    unterminated line of at most 75 such bytes — for EVERY content, whatever its line lengths,
    trailing blanks or stray CR / LF bytes. -/
theorem qp_body_lines (content : Bytes) :
    ∃ (ls : List Bytes) (last : Bytes),
      Body.encodeBody .qp content = (ls.map (· ++ [13, 10])).flatten ++ last ∧
      Body.encodeBody .other content = Body.encodeBody .qp content ∧
      (∀ l ∈ ls, l.length ≤ 76 ∧ ∀ c ∈ l, c ≠ 13 ∧ c ≠ 10) ∧
      last.length ≤ 75 ∧ ∀ c ∈ last, c ≠ 13 ∧ c ≠ 10 := by
  obtain ⟨o, l, e, ho, hc, hn⟩ := QP.encodeBytes_lines content
  obtain ⟨ls, eo, hall⟩ := ho.lines
  exact ⟨ls, l, by rw [← eo]; exact e, rfl, hall, hn, hc⟩

/-- The encoded body does not depend on how the content producer chunks its writes. -/
theorem body_chunk_independent (e : Body.CTE) (chunks : List Bytes) :
    Body.encodeChunks e chunks = Body.encodeBody e chunks.flatten := rfl

/-- Header folding (writeHeader): for a blank-free key and CR/LF-free values the emitted field is a
    list of CRLF-joined lines such that (1) every continuation line starts with a blank, (2) deleting
    the CRLFs — unfolding — gives back exactly "key: v1, v2, ...", and (3) every line has at most 76
    bytes or consists of a single token without blanks. Holds for all word lengths and blank patterns. -/
theorem header_fold (key : Bytes) (values : List Bytes) (hk : Fold.NoSp key)
    (hv : Fold.NoCRLF (Fold.joinValues values)) :
    ∃ lines : List Bytes, lines ≠ [] ∧ Fold.bufferString key values = joinCRLF lines ∧
      lines.flatten = key ++ [58, 32] ++ Fold.joinValues values ∧
      (∀ l ∈ lines.tail, l.head? = some 32) ∧
      (∀ l ∈ lines, l.length ≤ 76 ∨ ∀ b ∈ l.drop 1, b ≠ 32) :=
  Fold.bufferString_structure key values hk hv

/-- non-vacuity: a 100-byte content really produces two lines -/
example : wrap76 (List.replicate 80 65) = List.replicate 76 65 ++ crlf ++ (List.replicate 4 65 ++ crlf) := by
  unfold wrap76; simp; unfold wrap76; simp

/-- non-vacuity: 100 literal bytes give a soft-broken 76-byte line and a rest -/
example : QP.encodeBytes (List.replicate 100 65) =
    List.replicate 75 65 ++ [61, 13, 10] ++ List.replicate 25 65 := by decide +kernel

/-- the header line `startMP` writes for the outermost layer of an S/MIME signed message, up to its
    first CRLF -/
def signedContentTypeLine : Bytes := sb "Content-Type: multipart/" ++ Mime.mimeSigned ++ sb ";"

/-- **KNOWN FINDING `c18-signed-content-type-line`** (the property is false of the code here, and of
    the model): at depth 0 the model's `startMP` - like the source's - writes the Content-Type field of
    the signed layer itself, not through `writeHeader`: whatever the boundary, the write is the line
    below, CRLF, and the folded boundary parameter ... -/
theorem signed_layer_write (given fresh : Bytes) (p : Mime.PW) (h : p.stack = []) :
    ∃ pre bnd, (p.startMP Mime.mimeSigned given fresh).1.acts =
      p.acts ++ [.w pre (signedContentTypeLine ++ crlf ++ sb " boundary=" ++ bnd)] := by
  refine ⟨if given.isEmpty then none else some (!Mime.validBoundary given),
    if given.isEmpty then fresh else if Mime.validBoundary given then given else fresh, ?_⟩
  have hd : p.depth = 0 := by simp [Mime.PW.depth, h]
  have hb : sb "Content-Type: " ++ (sb "multipart/" ++ Mime.mimeSigned ++ sb ";\r\n boundary=") =
      signedContentTypeLine ++ crlf ++ sb " boundary=" := by decide
  simp only [Mime.PW.startMP, hd, beq_self_eq_true, if_true]
  rw [← hb]
  simp [List.append_assoc]

/-- ... and that line has 87 bytes and contains blanks: longer than 78 and not a single token. This is
    the line every signed rendering carries (the harness reproduces it on every run: suite `c18-signed`). -/
theorem counterexample_signed_content_type_line :
    signedContentTypeLine.length = 87 ∧ (32 : UInt8) ∈ signedContentTypeLine ∧
    signedContentTypeLine =
      sb "Content-Type: multipart/signed; protocol=\"application/pkcs7-signature\"; micalg=sha-256;" := by
  decide

end GoMail.Props.C18
