import GoMailModel.Proofs.Armed
import GoMailModel.Proofs.Legal6
/-
  C04 — The SMTP dialogue stays legal and in step under every reply script.
  The session-level theorem: the event trace of DialAndSend (and of DialWithContext) is accepted by
  the RFC 5321 reference automaton `Smtp.judge` (Smtp/Judge.lean: 60 lines, the Lean twin of the
  harness judge in oracle_smtp.go) for EVERY configuration, server script, capability list and batch -
  `session_is_legal`. Then the local facts about ESMTP parameters. Each run also feeds the traces of
  the real client to both judges (Lean and Go) and compares their verdicts.
-/
namespace GoMail.Props.C04
open GoMail GoMail.Smtp

/-- An 8bit message is refused locally when the (already negotiated) extension set lacks 8BITMIME:
    nothing is sent, the connection state is unchanged, the message carries the error. -/
theorem eightbit_refused_locally (cfg : SendCfg) (c : Conn) (idx : Nat) (m : MsgIn) (wd : Bool)
    (hh : c.didHello = true) (he : c.helloErr = none) (h8 : m.eightBit = true) (hx : c.hasExt "8BITMIME" = false) :
    (sendOne cfg c idx m wd).1 = c ∧ (sendOne cfg c idx m wd).2.err = some { reason := .noUnencoded, nerrs := 0 } := by
  have hext : ∀ k, c.extension k = (c, c.hasExt k) := by
    intro k; unfold Conn.extension Conn.hello; simp [hh, he]
  unfold sendOne
  simp [hext, h8, hx]

/-- ESMTP parameters on MAIL only for advertised extensions: without 8BITMIME, SMTPUTF8 and DSN in
    the latest EHLO reply (or after a HELO fallback, where no extension is known) the command is the
    bare `MAIL FROM:<path>`; each parameter appears only with its extension. -/
theorem mail_line_parameters (c : Conn) (sender : Bytes) :
    c.mailLine sender = sb "MAIL FROM:<" ++ sender ++ sb ">" ++
      (if c.hasExt "8BITMIME" then sb " BODY=8BITMIME" else []) ++
      (if c.hasExt "SMTPUTF8" then sb " SMTPUTF8" else []) ++
      (if c.hasExt "DSN" && !c.dsnmrtype.isEmpty then sb " RET=" ++ c.dsnmrtype else []) := rfl

theorem mail_without_extensions_is_bare (c : Conn) (sender : Bytes)
    (h8 : c.hasExt "8BITMIME" = false) (hu : c.hasExt "SMTPUTF8" = false) (hd : c.hasExt "DSN" = false) :
    c.mailLine sender = sb "MAIL FROM:<" ++ sender ++ sb ">" := by
  simp [Conn.mailLine, h8, hu, hd]

/-- no extension is known when the extension map is absent (HELO fallback) -/
theorem no_ext_after_helo (c : Conn) (h : c.ext = none) (k : String) : c.hasExt k = false := by
  simp [Conn.hasExt, h]

/-- RCPT carries NOTIFY only when DSN was advertised. -/
theorem rcpt_without_dsn_is_bare (c : Conn) (to : Bytes) (hd : c.hasExt "DSN" = false) :
    c.rcptLine to = sb "RCPT TO:<" ++ to ++ sb ">" := by
  simp [Conn.rcptLine, hd]

/-- a command line built from arguments that passed validateLine has no CR / LF / control byte
    (sender shown; the keywords are literals) -/
theorem mail_line_single (c : Conn) (sender : Bytes) (hs : containsCRLF sender = false)
    (hr : containsCRLF c.dsnmrtype = false) : containsCRLF (c.mailLine sender) = false := by
  unfold Conn.mailLine containsCRLF at *
  simp only [List.any_append, Bool.or_eq_false_iff]
  refine ⟨⟨⟨⟨⟨by decide, hs⟩, by decide⟩, ?_⟩, ?_⟩, ?_⟩
  · split <;> decide
  · split <;> decide
  · split
    · simp only [List.any_append, Bool.or_eq_false_iff]; exact ⟨by decide, hr⟩
    · rfl

/-- **The dialogue is legal under every reply script.** For every configuration (TLS policy, auth type,
    HELO name, DSN options, NOOP check on or off), every server script - any mix of expected replies,
    4yz, 5yz, bytes that are no reply, disconnects and stalls at any position -, every capability list
    and every batch of messages, the commands DialAndSend emits form a legal RFC 5321 session:
    nothing before the 220 greeting; MAIL only after an accepted EHLO/HELO and outside an open
    transaction; RCPT only after an accepted MAIL; DATA only when at least one recipient of the
    message was accepted and none was refused; the end-of-data marker only after 354; STARTTLS and
    AUTH only outside a transaction; no command while a reply is outstanding (in step), none after the
    server closed the connection. After a failed message the next one starts with no transaction open
    or the connection is closed (that is the invariant `Between` the proof carries). -/
theorem session_is_legal (cfg : DialCfg) (script : List Act) (caps : List Bytes) (ms : List MsgIn) :
    Legal (dialAndSend cfg script caps ms).conn.trace ∧ Legal (dial cfg script caps).1.trace :=
  ⟨dialAndSend_legal cfg script caps ms, dial_legal cfg script caps⟩

/-- the judge is not vacuous: it rejects MAIL inside an open transaction, DATA after a refused
    recipient, and a command before the greeting -/
example : (judge [.connect, .reply 220, .cmd .ehlo [], .reply 250, .cmd .mail [], .reply 250, .cmd .mail []]).bad = true := by decide
example : (judge [.connect, .reply 220, .cmd .ehlo [], .reply 250, .cmd .mail [], .reply 250, .cmd .rcpt [], .reply 550,
    .cmd .rcpt [], .reply 250, .cmd .data []]).bad = true := by decide
example : (judge [.connect, .cmd .ehlo []]).bad = true := by decide
example : (judge [.connect, .reply 220, .cmd .ehlo [], .reply 250, .cmd .mail [], .reply 250, .cmd .rcpt [], .reply 250,
    .cmd .data [], .reply 354, .content 0 true, .eod, .reply 250, .cmd .rset [], .reply 250, .cmd .quit [], .reply 221, .close]).bad = false := by decide
/-- ... and the end-of-data marker behind a rendering that failed half-way -/
example : (judge [.connect, .reply 220, .cmd .ehlo [], .reply 250, .cmd .mail [], .reply 250, .cmd .rcpt [], .reply 250,
    .cmd .data [], .reply 354, .content 0 false, .eod]).bad = true := by decide

end GoMail.Props.C04
