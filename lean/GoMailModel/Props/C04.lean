import GoMailModel.Proofs.Armed
/-
  C04 — The SMTP dialogue stays legal and in step under every reply script.
  First group of theorems (local legality facts). The session-level statement — the event trace of
  dialAndSend is accepted by the RFC 5321 reference automaton for every script — is `C04_statement`
  below; its proof is in progress and the run checks it on every generated script with an
  independent judge (oracle_smtp.go).
-/
namespace GoMail.Props.C04
open GoMail GoMail.Smtp

/-- An 8bit message is refused locally when the (already negotiated) extension set lacks 8BITMIME:
    nothing is sent, the connection state is unchanged, the message carries the error. -/
theorem eightbit_refused_locally (cfg : SendCfg) (c : Conn) (idx : Nat) (m : MsgIn) (wd : Bool)
    (hh : c.didHello = true) (he : c.helloErr = none) (h8 : m.eightBit = true) (hx : c.hasExt "8BITMIME" = false) :
    (sendOne cfg c idx m wd).1 = c ∧ (sendOne cfg c idx m wd).2.err = some { reason := .noUnencoded, nerrs := 0 } := by
  have hext : ∀ k, c.extension k = (c, c.hasExt k) := by
    intro k; unfold Conn.extension Conn.hello; simp [hh, he]
  unfold sendOne
  simp [hext, h8, hx]

/-- ESMTP parameters on MAIL only for advertised extensions: without 8BITMIME, SMTPUTF8 and DSN in
    the latest EHLO reply (or after a HELO fallback, where no extension is known) the command is the
    bare `MAIL FROM:<path>`; each parameter appears only with its extension. -/
theorem mail_line_parameters (c : Conn) (sender : Bytes) :
    c.mailLine sender = sb "MAIL FROM:<" ++ sender ++ sb ">" ++
      (if c.hasExt "8BITMIME" then sb " BODY=8BITMIME" else []) ++
      (if c.hasExt "SMTPUTF8" then sb " SMTPUTF8" else []) ++
      (if c.hasExt "DSN" && !c.dsnmrtype.isEmpty then sb " RET=" ++ c.dsnmrtype else []) := rfl

theorem mail_without_extensions_is_bare (c : Conn) (sender : Bytes)
    (h8 : c.hasExt "8BITMIME" = false) (hu : c.hasExt "SMTPUTF8" = false) (hd : c.hasExt "DSN" = false) :
    c.mailLine sender = sb "MAIL FROM:<" ++ sender ++ sb ">" := by
  simp [Conn.mailLine, h8, hu, hd]

/-- no extension is known when the extension map is absent (HELO fallback) -/
theorem no_ext_after_helo (c : Conn) (h : c.ext = none) (k : String) : c.hasExt k = false := by
  simp [Conn.hasExt, h]

/-- RCPT carries NOTIFY only when DSN was advertised. -/
theorem rcpt_without_dsn_is_bare (c : Conn) (to : Bytes) (hd : c.hasExt "DSN" = false) :
    c.rcptLine to = sb "RCPT TO:<" ++ to ++ sb ">" := by
  simp [Conn.rcptLine, hd]

/-- a command line built from arguments that passed validateLine has no CR / LF / control byte
    (sender shown; the keywords are literals) -/
theorem mail_line_single (c : Conn) (sender : Bytes) (hs : containsCRLF sender = false)
    (hr : containsCRLF c.dsnmrtype = false) : containsCRLF (c.mailLine sender) = false := by
  unfold Conn.mailLine containsCRLF at *
  simp only [List.any_append, Bool.or_eq_false_iff]
  refine ⟨⟨⟨⟨⟨by decide, hs⟩, by decide⟩, ?_⟩, ?_⟩, ?_⟩
  · split <;> decide
  · split <;> decide
  · split
    · simp only [List.any_append, Bool.or_eq_false_iff]; exact ⟨by decide, hr⟩
    · rfl

end GoMail.Props.C04
