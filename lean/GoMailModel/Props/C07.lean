import GoMailModel.Smtp.Dial
/-
  C07 — TLS policy and credential confidentiality hold against any server (PARTIAL: the TLS handshake
  and certificate validation are crypto/tls's; they enter the model as a script position).
-/
namespace GoMail.Props.C07
open GoMail GoMail.Smtp

/-- Auto-discovery on an unencrypted connection never selects a mechanism that reveals the password:
    for EVERY advertised mechanism list. The preference lists are regenerated from client.go. -/
theorem autodiscover_unencrypted_is_safe (supported : Bytes) (t : AuthType)
    (h : autoDiscover supported false = some t) :
    t ≠ .plain ∧ t ≠ .login ∧ t ≠ .plainNoEnc ∧ t ≠ .loginNoEnc ∧ t ≠ .xoauth2 := by
  unfold autoDiscover at h
  split at h
  · cases h
  · simp only [Bool.false_eq_true, if_false] at h
    -- whichever entry of the unencrypted preference list is found, it is one of the challenge-response mechanisms
    have key : ∀ n ∈ Generated.preferUnencrypted, ∀ t, AuthType.ofName n = some t →
        t ≠ .plain ∧ t ≠ .login ∧ t ≠ .plainNoEnc ∧ t ≠ .loginNoEnc ∧ t ≠ .xoauth2 := by decide
    split at h
    · rename_i n hn
      exact key n (List.mem_of_find?_eq_some hn) t h
    · cases h

/-- the unencrypted preference list of the source, as a fact -/
theorem unencrypted_preferences : Generated.preferUnencrypted = ["SCRAM-SHA-256", "SCRAM-SHA-1", "CRAM-MD5"] := by decide

/-- Fact regenerated from smtp/auth.go: "a localhost server" is decided by comparing the configured
    server name with exactly these three strings (the function body is one `==` / `||` chain over its
    parameter): no prefix, suffix or address-range test that a remote name could satisfy. -/
theorem localhost_is_exactly_three_names :
    Generated.localhostIsEqChain = true ∧ Generated.localhostNames = ["localhost", "127.0.0.1", "::1"] := by decide

/-- PLAIN refuses to start on a connection that is not TLS, unless the server is localhost or the caller
    chose PLAIN-NOENC: no response (which would carry the password) is produced. -/
theorem plain_refuses_cleartext (identity user pass host name : Bytes) (auth : List Bytes)
    (hl : isLocalhost name = false) :
    ((plainMech identity user pass host false).start () ⟨name, false, auth⟩).2 = .error errUnencrypted := by
  simp [plainMech, hl]

/-- LOGIN likewise -/
theorem login_refuses_cleartext (user pass host name : Bytes) (auth : List Bytes) (hl : isLocalhost name = false) :
    ((loginMech user pass host false).start 0 ⟨name, false, auth⟩).2 = .error errUnencrypted := by
  simp [loginMech, hl]

/-- Mandatory TLS and no STARTTLS in the EHLO reply: the dial fails without sending anything further. -/
theorem mandatory_without_starttls_sends_nothing (cfg : DialCfg) (c : Conn) (enc : Bool)
    (hp : cfg.policy = .mandatory) (hs : cfg.useSSL = false) (hh : c.didHello = true) (he : c.helloErr = none)
    (hx : c.hasExt "STARTTLS" = false) :
    clientTLS cfg c enc = (c, enc, some .noStartTLS) := by
  unfold clientTLS
  simp only [hs, hp, Bool.false_or]
  have : c.extension "STARTTLS" = (c, false) := by
    unfold Conn.extension Conn.hello
    simp [hh, he, hx]
  simp [this]

/-- non-vacuity -/
example : autoDiscover (sb "PLAIN LOGIN CRAM-MD5") false = some .cramMD5 := by decide
example : autoDiscover (sb "PLAIN LOGIN") false = none := by decide
example : autoDiscover (sb "PLAIN LOGIN") true = some .plain := by decide

end GoMail.Props.C07
