import GoMailModel.Smtp.Dial
import GoMailModel.Proofs.TlsFlag
/-
  C07 — TLS policy and credential confidentiality hold against any server (PARTIAL: the TLS handshake
  and certificate validation are crypto/tls's; they enter the model as a script position).
-/
namespace GoMail.Props.C07
open GoMail GoMail.Smtp

/-- Auto-discovery on an unencrypted connection never selects a mechanism that reveals the password:
    for EVERY advertised mechanism list. The preference lists are regenerated from client.go. -/
theorem autodiscover_unencrypted_is_safe (supported : Bytes) (t : AuthType)
    (h : autoDiscover supported false = some t) :
    t ≠ .plain ∧ t ≠ .login ∧ t ≠ .plainNoEnc ∧ t ≠ .loginNoEnc ∧ t ≠ .xoauth2 := by
  unfold autoDiscover at h
  split at h
  · cases h
  · simp only [Bool.false_eq_true, if_false] at h
    -- whichever entry of the unencrypted preference list is found, it is one of the challenge-response mechanisms
    have key : ∀ n ∈ Generated.preferUnencrypted, ∀ t, AuthType.ofName n = some t →
        t ≠ .plain ∧ t ≠ .login ∧ t ≠ .plainNoEnc ∧ t ≠ .loginNoEnc ∧ t ≠ .xoauth2 := by decide
    split at h
    · rename_i n hn
      exact key n (List.mem_of_find?_eq_some hn) t h
    · cases h

/-- the unencrypted preference list of the source, as a fact -/
theorem unencrypted_preferences : Generated.preferUnencrypted = ["SCRAM-SHA-256", "SCRAM-SHA-1", "CRAM-MD5"] := by decide

/-- Fact regenerated from smtp/auth.go: "a localhost server" is decided by comparing the configured
    server name with exactly these three strings (the function body is one `==` / `||` chain over its
    parameter): no prefix, suffix or address-range test that a remote name could satisfy. -/
theorem localhost_is_exactly_three_names :
    Generated.localhostIsEqChain = true ∧ Generated.localhostNames = ["localhost", "127.0.0.1", "::1"] := by decide

/-- PLAIN refuses to start on a connection that is not TLS, unless the server is localhost or the caller
    chose PLAIN-NOENC: no response (which would carry the password) is produced. -/
theorem plain_refuses_cleartext (identity user pass host name : Bytes) (auth : List Bytes)
    (hl : isLocalhost name = false) :
    ((plainMech identity user pass host false).start () ⟨name, false, auth⟩).2 = .error errUnencrypted := by
  simp [plainMech, hl]

/-- LOGIN likewise -/
theorem login_refuses_cleartext (user pass host name : Bytes) (auth : List Bytes) (hl : isLocalhost name = false) :
    ((loginMech user pass host false).start 0 ⟨name, false, auth⟩).2 = .error errUnencrypted := by
  simp [loginMech, hl]

/-- Mandatory TLS and no STARTTLS in the EHLO reply: the dial fails without sending anything further. -/
theorem mandatory_without_starttls_sends_nothing (cfg : DialCfg) (c : Conn) (enc : Bool)
    (hp : cfg.policy = .mandatory) (hs : cfg.useSSL = false) (hh : c.didHello = true) (he : c.helloErr = none)
    (hx : c.hasExt "STARTTLS" = false) :
    clientTLS cfg c enc = (c, enc, some .noStartTLS) := by
  unfold clientTLS
  simp only [hs, hp, Bool.false_or]
  have : c.extension "STARTTLS" = (c, false) := by
    unfold Conn.extension Conn.hello
    simp [hh, he, hx]
  simp [this]


/-! ### the smtp package used directly: StartTLS refused, the caller authenticates anyway -/

/-- What `Client.Auth` does with a mechanism whose `Start` refuses: the error is the mechanism's (or the
    error of the implicit EHLO); `Next` is never asked for a response. -/
theorem authWith_start_error {σ} (c : Conn) (a : Mech σ) (t : Nat)
    (h : ∀ c' : Conn, c'.tls = c.tls → c'.serverName = c.serverName → (a.start a.init ⟨c'.serverName, c'.tls, c'.auth⟩).2 = .error t) :
    (c.authWith a).2.2 = some (.mech t) ∨ ∃ e, c.hello.2 = some e ∧ (c.authWith a).2.2 = some e := by
  unfold Conn.authWith
  have hh := ts_hello c
  rcases hr : c.hello with ⟨c1, r⟩
  rw [hr] at hh
  cases r with
  | some e => right; exact ⟨e, rfl, rfl⟩
  | none =>
    left
    simp only []
    have h1 : ∀ c2 : Conn, c2 = (if !c1.logAuthData then { c1 with authActive := true } else c1) →
        (a.start a.init ⟨c2.serverName, c2.tls, c2.auth⟩).2 = .error t := by
      intro c2 hc2
      apply h
      · rw [hc2]; split <;> exact hh.1
      · rw [hc2]; split <;> exact hh.2
    have h2 := h1 _ rfl
    split
    · rename_i st t' heq
      rw [heq] at h2
      simp only [Except.error.injEq] at h2
      subst h2
      rfl
    · rename_i st mech resp heq
      rw [heq] at h2
      simp at h2

/-- **A refused STARTTLS does not unlock the password.** smtp.Client used directly, any connection that
    is not TLS, any server script: if the server did not answer the STARTTLS command with 220 (a 4yz or
    5yz reply, garbage, a disconnect, silence, a failed implicit EHLO) and the caller goes on to
    `Auth(PlainAuth(...))` for a server that is not localhost, Auth returns the mechanism's
    "unencrypted connection" error (or the EHLO error) and no SASL response is ever produced. -/
theorem refused_starttls_does_not_unlock_plain (c : Conn) (identity user pass host : Bytes)
    (h0 : c.tls = false) (hl : isLocalhost c.serverName = false)
    (hrefused : ∀ r, (c.hello.1.cmd .starttls (sb "STARTTLS") 220).2 ≠ .ok r) :
    (c.startTLS.1.authWith (plainMech identity user pass host false)).2.2 = some (.mech errUnencrypted) ∨
    ∃ e, c.startTLS.1.hello.2 = some e ∧ (c.startTLS.1.authWith (plainMech identity user pass host false)).2.2 = some e := by
  have hflag : c.startTLS.1.tls = false := by
    cases hf : c.startTLS.1.tls with
    | false => rfl
    | true =>
      obtain ⟨_, r, hr⟩ := startTLS_sets_flag_only_after_220 c h0 hf
      exact absurd hr (hrefused r)
  apply authWith_start_error
  intro c' ht hn
  rw [ht, hn, hflag, startTLS_serverName]
  exact plain_refuses_cleartext identity user pass host c.serverName c'.auth hl

/-- LOGIN likewise -/
theorem refused_starttls_does_not_unlock_login (c : Conn) (user pass host : Bytes)
    (h0 : c.tls = false) (hl : isLocalhost c.serverName = false)
    (hrefused : ∀ r, (c.hello.1.cmd .starttls (sb "STARTTLS") 220).2 ≠ .ok r) :
    (c.startTLS.1.authWith (loginMech user pass host false)).2.2 = some (.mech errUnencrypted) ∨
    ∃ e, c.startTLS.1.hello.2 = some e ∧ (c.startTLS.1.authWith (loginMech user pass host false)).2.2 = some e := by
  have hflag : c.startTLS.1.tls = false := by
    cases hf : c.startTLS.1.tls with
    | false => rfl
    | true =>
      obtain ⟨_, r, hr⟩ := startTLS_sets_flag_only_after_220 c h0 hf
      exact absurd hr (hrefused r)
  apply authWith_start_error
  intro c' ht hn
  rw [ht, hn, hflag, startTLS_serverName]
  exact login_refuses_cleartext user pass host c.serverName c'.auth hl

/-- **`isEncrypted` tells the truth.** What Client.tls reports to Client.auth as "the connection is
    encrypted" (the flag auto-discovery relies on) is true only if the connection's `tls` flag is set -
    provided the flag it starts from is (the dial passes "the library's own TLS dialer was used").
    In particular `WithSSL` alone (`useSSL`), on a connection the caller's dial function handed out
    without TLS, does not make it true. -/
theorem isEncrypted_only_with_tls (cfg : DialCfg) (c : Conn) (e : Bool) (h0 : e = true → c.tls = true)
    (hn : (clientTLS cfg c e).2.2 = none) (he : (clientTLS cfg c e).2.1 = true) :
    (clientTLS cfg c e).1.tls = true := by
  revert hn he
  unfold clientTLS
  simp only []
  repeat' split
  all_goals (intro hn he; first | exact h0 he | (simp at hn; done) | (simp at he; done) | simp_all)

/-- the connection smtp.NewClient is given carries the flag of the dial: set exactly when the library's
    TLS dialer made the connection (`implicitTLS`), not when `WithSSL` was merely switched on -/
theorem newClient_tls_flag (cfg : DialCfg) (script : List Act) (caps : List Bytes) :
    (newClient cfg script caps).1.tls = cfg.implicitTLS := by
  unfold newClient
  have h1 : (freshConn cfg script caps).updateDeadline.1.tls = cfg.implicitTLS := by
    unfold Conn.updateDeadline freshConn
    split <;> rfl
  have h2 := ts_serverTurn (freshConn cfg script caps).updateDeadline.1 .greeting 220
  rcases hr : (freshConn cfg script caps).updateDeadline.1.serverTurn .greeting 220 with ⟨c1, r⟩
  rw [hr] at h2
  cases r with
  | error e => exact ((ts_close c1).1.trans h2.1).trans h1
  | ok v => exact h2.1.trans h1

/-- non-vacuity / the case of the ninth round: WithSSL on a caller's clear-text connection, a server that
    offers only PLAIN and LOGIN: auto-discovery finds nothing it may use, no AUTH command is sent -/
example :
    (dial { host := sb "localhost", useSSL := true, implicitTLS := false, authType := .autoDiscover, user := sb "u", pass := sb "secret" }
      [.ok, .ok, .ok] [sb "AUTH PLAIN LOGIN"]).2 = some .authNotSupported := by decide

/-- non-vacuity: STARTTLS answered 454, then Auth(PlainAuth) for mail.example: refused, nothing but the
    EHLO, STARTTLS and QUIT dialogue on the wire -/
example :
    ((newClient { host := sb "mail.example" } [.ok, .ok, .reply 454 (sb "4.7.0 no TLS now"), .ok, .ok]
        [sb "STARTTLS", sb "AUTH PLAIN LOGIN"]).1.startTLS.1.authWith
      (plainMech [] (sb "u") (sb "secret") (sb "mail.example") false)).2.2 = some (.mech errUnencrypted) := by decide

/-- non-vacuity -/
example : autoDiscover (sb "PLAIN LOGIN CRAM-MD5") false = some .cramMD5 := by decide
example : autoDiscover (sb "PLAIN LOGIN") false = none := by decide
example : autoDiscover (sb "PLAIN LOGIN") true = some .plain := by decide

end GoMail.Props.C07
