import GoMailModel.Smtp.Auth
import GoMailModel.Proofs.Split
/-
  C14 — SASL mechanisms interoperate with conforming servers (PARTIAL: "accepted only when the
  credentials are right" needs collision-freeness of the hash / HMAC, which is assumed, not proved).
  The message algebra is proved with the cryptographic primitives abstract.
-/
namespace GoMail.Props.C14
open GoMail GoMail.Smtp

/-- PLAIN (RFC 4616): an RFC reader that splits the message at NUL recovers exactly authzid, authcid
    and password, for all NUL-free strings. -/
theorem plain_message_parses (identity user pass host : Bytes) (allow : Bool) (si : ServerInfo)
    (hi : ∀ x ∈ identity, x ≠ 0) (hu : ∀ x ∈ user, x ≠ 0) (hp : ∀ x ∈ pass, x ≠ 0)
    (mech msg : Bytes) (h : ((plainMech identity user pass host allow).start () si).2 = .ok (mech, some msg)) :
    mech = sb "PLAIN" ∧ splitOn 0 msg = [identity, user, pass] := by
  simp only [plainMech] at h
  split at h
  · cases h
  · split at h
    · cases h
    · simp only [Except.ok.injEq, Prod.mk.injEq, Option.some.injEq] at h
      refine ⟨h.1.symm, ?_⟩
      rw [← h.2]
      have := splitOn_three 0 identity user pass hi hu hp
      simpa [List.append_assoc] using this

/-- LOGIN: the first challenge is answered with the user name, the second with the password, a third is refused. -/
theorem login_sequence (user pass host : Bytes) (allow : Bool) (c1 c2 c3 : Bytes) :
    let m := loginMech user pass host allow
    (m.next 0 c1 true) = (1, .ok (some user)) ∧ (m.next 1 c2 true) = (2, .ok (some pass)) ∧
    (m.next 2 c3 true).2 = .error errUnexpectedResponse := by
  simp [loginMech]

/-- XOAUTH2: the initial response has the documented form. -/
theorem xoauth2_message (user token : Bytes) (si : ServerInfo) :
    ((xoauth2Mech user token).start () si).2 =
      .ok (sb "XOAUTH2", some (sb "user=" ++ user ++ [1] ++ sb "auth=Bearer " ++ token ++ [1, 1])) := rfl

/-- CRAM-MD5 (RFC 2195): the response is `user SP hex(HMAC-MD5(secret, challenge))`. -/
theorem cram_response (user secret challenge : Bytes) (hmacHex : Bytes → Bytes → Bytes) :
    ((cramMech user secret hmacHex).next () challenge true).2 = .ok (some (user ++ [32] ++ hmacHex secret challenge)) := rfl

/-- SCRAM client-first-message (RFC 5802 §7): gs2-header "n,," then "n=" user ",r=" nonce, with the
    nonce of THIS attempt. -/
theorem scram_client_first (env : ScramEnv) (st : ScramSt) (user : Bytes) (hu : env.user = some user) (hp : env.plus = false) :
    (scramFirst env st).2 = .ok (some (sb "n,," ++ sb "n=" ++ user ++ sb ",r=" ++ (env.cnonces.drop st.attempt).headD [])) ∧
    (scramFirst env st).1.attempt = st.attempt + 1 := by
  unfold scramFirst
  simp [hu, hp, List.append_assoc]

/-- Every client-first message of one Auth object takes the next entry of the nonce source: a retry
    (second empty challenge) never re-uses the nonce of the previous attempt. -/
theorem scram_retry_uses_next_nonce (env : ScramEnv) (st : ScramSt) (user : Bytes) (hu : env.user = some user)
    (hp : env.plus = false) :
    let st1 := (scramFirst env st).1
    st1.nonce = (env.cnonces.drop st.attempt).headD [] ∧
    (scramFirst env (scramReset st1)).1.nonce = (env.cnonces.drop (st.attempt + 1)).headD [] := by
  unfold scramFirst scramReset
  simp [hu, hp]

/-- Channel binding (RFC 5929 / 9266): tls-unique below TLS 1.3 when the TLS stack provides it,
    tls-exporter otherwise; the gs2 header names the type that was used. -/
theorem channel_binding_choice (env : ScramEnv) (st : ScramSt) (user cb : Bytes) (hu : env.user = some user)
    (hp : env.plus = true) (he : env.exporter = some cb) :
    (scramFirst env st).2 = .ok (some (
      (if env.tlsUnique.isEmpty || env.tls13 then sb "p=tls-exporter,," else sb "p=tls-unique,,") ++
      sb "n=" ++ user ++ sb ",r=" ++ (env.cnonces.drop st.attempt).headD [])) := by
  unfold scramFirst
  simp only [hu, hp, if_true]
  by_cases hx : (env.tlsUnique.isEmpty || env.tls13) = true
  · simp [hx, he, sb, List.append_assoc]
  · simp [hx, sb, List.append_assoc]

/-- client-final-message: when the server-first message is accepted, the response is
    `c=<binding>,r=<nonce>,p=<proof>` and the auth message the proof is computed over is exactly
    client-first-bare "," server-first "," client-final-without-proof — the three wire messages a
    server sees. A verifier that recomputes the proof from the messages on the wire gets the same value. -/
theorem scram_client_final (env : ScramEnv) (st st' : ScramSt) (fromServer resp : Bytes)
    (h : scramServerFirst env st fromServer = (st', .ok (some resp))) :
    ∃ woProof, resp = woProof ++ sb ",p=" ++ (env.crypto st'.salt st'.iter st'.authMessage).1 ∧
      st'.authMessage = st.firstBare ++ [44] ++ fromServer ++ [44] ++ woProof ∧ st'.salted = true := by
  unfold scramServerFirst at h
  simp only [] at h
  repeat' split at h
  all_goals first
    | (cases h; done)
    | (simp only [Prod.mk.injEq, Except.ok.injEq, Option.some.injEq] at h
       obtain ⟨h1, h2⟩ := h
       subst h1
       exact ⟨_, h2.symm, rfl, rfl⟩)

end GoMail.Props.C14
