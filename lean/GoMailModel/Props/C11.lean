import GoMailModel.Mime.Exec
import GoMailModel.Props.C08
/-
  C11 — Rendering is repeatable and all output paths agree (PARTIAL).
  Proved: what a render leaves behind in the Msg never touches content (parts, producers, file names,
  encodings); the encoding applied to a file's body never depends on the header cache (the repaired
  defect); a cached boundary is reused whatever the random source yields. The full statement
  "second render = first render, byte for byte" is checked by the run on histories of 2..5 renders
  over every output path, with the model threading the state.
-/
namespace GoMail.Props.C11
open GoMail GoMail.Mime

theorem fileHeaders_keeps (s : MsgState) (a : Bool) (f : FileM) :
    (fileHeaders s a f).name = f.name ∧ (fileHeaders s a f).enc = f.enc ∧ (fileHeaders s a f).prod = f.prod ∧
    (fileHeaders s a f).ctype = f.ctype ∧ (fileHeaders s a f).desc = f.desc := by
  unfold fileHeaders
  exact ⟨rfl, rfl, rfl, rfl, rfl⟩

/-- A render does not consume or alter the content: body parts are untouched, files keep their name,
    encoding choice, content and producer. -/
theorem render_preserves_content (s : MsgState) (e : Entropy) (outer signing : Bool) :
    let s' := (writeMsg s e outer signing).2
    s'.parts = s.parts ∧ s'.charset = s.charset ∧ s'.encoding = s.encoding ∧
    s'.embeds.map (fun f => (f.name, f.enc, f.prod)) = s.embeds.map (fun f => (f.name, f.enc, f.prod)) ∧
    s'.attachments.map (fun f => (f.name, f.enc, f.prod)) = s.attachments.map (fun f => (f.name, f.enc, f.prod)) := by
  unfold writeMsg stageOpen defaultHeaders
  simp only [List.map_map]
  refine ⟨trivial, trivial, trivial, ?_, ?_⟩ <;>
  · apply List.map_congr_left
    intro f _
    simp [Function.comp, (fileHeaders_keeps _ _ f).1, (fileHeaders_keeps _ _ f).2.1, (fileHeaders_keeps _ _ f).2.2.1]

/-- The transfer encoding applied to a file body is a function of File.Enc alone — whatever the header
    cache holds (first render or tenth). -/
theorem file_body_encoding_ignores_cache (p : PW) (f : FileM) (h : HeaderMap) :
    ((p.addFile { f with header := h }).acts.getLast?) =
      some (.body ((if p.depth == 0 then ((h.foldl (fun p kv => p.partHeader kv.1 [kv.2]) p).str crlf) else p.newPart none h).depth == 0)
        (Body.encodeBody (cteOf (if f.enc.isEmpty then encB64 else f.enc)) f.prod.content) f.prod.fails) := by
  simp [PW.addFile, PW.body]

/-- A valid cached boundary is reused on every later render, whatever the random source yields. -/
theorem cached_boundary_reused (p : PW) (mt given fresh1 fresh2 : Bytes) (hv : validBoundary given = true) :
    (p.startMP mt given fresh1).2 = (p.startMP mt given fresh2).2 := by
  have := GoMail.Props.C08.cached_boundary_reused p mt given fresh1 fresh2 hv
  rw [this.1, this.2]

end GoMail.Props.C11
