import GoMailModel.Mime.Exec
import GoMailModel.Props.C08
import GoMailModel.Proofs.Idem
/-
  C11 — Rendering is repeatable and all output paths agree.
  Proved: (1) `state_is_fixpoint`: everything a render writes into the Msg - generic header defaults
  (Date, Message-ID, MIME-Version, User-Agent / X-Mailer), the boundary cache, the header cache of
  every file - is left unchanged by the next render, whatever clock and random source yield then;
  (2) `second_render_equals_first`: the bytes of the second render are the bytes of the first (every
  message without deleted parts, no S/MIME); (3) a render never touches content; the encoding applied to a file body never
  depends on the header cache (the repaired defect); a cached boundary is reused. The different
  output paths (Write, Reader, files, Send) all go through WriteTo; that they agree byte for byte, and
  S/MIME re-renders, are checked by the run on histories of 2..5 renders.
-/
namespace GoMail.Props.C11
open GoMail GoMail.Mime

theorem fileHeaders_keeps (s : MsgState) (a : Bool) (f : FileM) :
    (fileHeaders s a f).name = f.name ∧ (fileHeaders s a f).enc = f.enc ∧ (fileHeaders s a f).prod = f.prod ∧
    (fileHeaders s a f).ctype = f.ctype ∧ (fileHeaders s a f).desc = f.desc := by
  unfold fileHeaders
  exact ⟨rfl, rfl, rfl, rfl, rfl⟩

/-- A render does not consume or alter the content: body parts are untouched, files keep their name,
    encoding choice, content and producer. -/
theorem render_preserves_content (s : MsgState) (e : Entropy) (outer signing : Bool) :
    let s' := (writeMsg s e outer signing).2
    s'.parts = s.parts ∧ s'.charset = s.charset ∧ s'.encoding = s.encoding ∧
    s'.embeds.map (fun f => (f.name, f.enc, f.prod)) = s.embeds.map (fun f => (f.name, f.enc, f.prod)) ∧
    s'.attachments.map (fun f => (f.name, f.enc, f.prod)) = s.attachments.map (fun f => (f.name, f.enc, f.prod)) := by
  unfold writeMsg stageOpen defaultHeaders
  simp only [List.map_map]
  refine ⟨trivial, trivial, trivial, ?_, ?_⟩ <;>
  · apply List.map_congr_left
    intro f _
    simp [Function.comp, (fileHeaders_keeps _ _ f).1, (fileHeaders_keeps _ _ f).2.1, (fileHeaders_keeps _ _ f).2.2.1]

/-- The transfer encoding applied to a file body is a function of File.Enc alone — whatever the header
    cache holds (first render or tenth). -/
theorem file_body_encoding_ignores_cache (p : PW) (f : FileM) (h : HeaderMap) :
    ((p.addFile { f with header := h }).acts.getLast?) =
      some (.body ((if p.depth == 0 then ((h.foldl (fun p kv => p.partHeader kv.1 [kv.2]) p).str crlf) else p.newPart none h).depth == 0)
        (Body.encodeBody (cteOf (if f.enc.isEmpty then encB64 else f.enc)) f.prod.content) f.prod.fails) := by
  simp [PW.addFile, PW.body]

/-- A valid cached boundary is reused on every later render, whatever the random source yields. -/
theorem cached_boundary_reused (p : PW) (mt given fresh1 fresh2 : Bytes) (hv : validBoundary given = true) :
    (p.startMP mt given fresh1).2 = (p.startMP mt given fresh2).2 := by
  have := GoMail.Props.C08.cached_boundary_reused p mt given fresh1 fresh2 hv
  rw [this.1, this.2]

/-- **A render leaves a fixpoint behind** (all message shapes). -/
theorem state_is_fixpoint (s : MsgState) (e1 e2 : Entropy) (h : RenderOK s e1) :
    (writeMsg (writeMsg s e1 false).2 e2 false).2.gen = (writeMsg s e1 false).2.gen ∧
    (writeMsg (writeMsg s e1 false).2 e2 false).2.bMixed = (writeMsg s e1 false).2.bMixed ∧
    (writeMsg (writeMsg s e1 false).2 e2 false).2.bRelated = (writeMsg s e1 false).2.bRelated ∧
    (writeMsg (writeMsg s e1 false).2 e2 false).2.bAlt = (writeMsg s e1 false).2.bAlt ∧
    (writeMsg (writeMsg s e1 false).2 e2 false).2.embeds = (writeMsg s e1 false).2.embeds ∧
    (writeMsg (writeMsg s e1 false).2 e2 false).2.attachments = (writeMsg s e1 false).2.attachments :=
  render_state_fixpoint s e1 e2 h

/-- **The second render produces the bytes of the first** (every message without deleted parts, single
    part or multipart, no S/MIME): whatever Date, Message-ID and boundaries the second render would draw. -/
theorem second_render_equals_first (s : MsgState) (e1 e2 : Entropy)
    (hp : ∀ p ∈ s.parts, p.deleted = false ∧ p.smime = false) (h : RenderOK s e1) :
    planBytes (writeMsg (writeMsg s e1 false).2 e2 false).1.acts = planBytes (writeMsg s e1 false).1.acts :=
  render_idempotent_all s e1 e2 hp h

/-- **A message that changes its shape between two renders keeps distinct boundaries.** The user's
    boundary belongs to the outermost multipart of every render. A layer that was the outermost one in an
    earlier render (and remembers the user's boundary) and is nested now - an attachment was added - gets
    a boundary of its own: whatever the cache holds, below a multipart/mixed that carries the user's
    boundary the related and alternative layers never carry it too. (Before the repair `fix: a nested
    multipart kept the user provided boundary ...` both layers were written with the same boundary and the
    rendering could not be read.) -/
theorem nested_layers_never_share_the_user_boundary (s : MsgState) (e : Entropy)
    (hu : s.boundary.isEmpty = false) (hM : hasMixed s = true)
    (hR : e.bRelated ≠ s.boundary) (hA : e.bAlt ≠ s.boundary) :
    (hasRelated s = true → (writeMsg s e false).2.bRelated ≠ s.boundary) ∧
    (hasAlt s = true → (writeMsg s e false).2.bAlt ≠ s.boundary) := by
  obtain ⟨_, _, _, _, _, _, _, _, _, _, bR, bA⟩ := writeMsg_state s e
  constructor
  · intro h
    rw [bR]
    simp only [h, if_true, hM, hu, Bool.not_true, Bool.not_false, Bool.and_true]
    exact nested_bnd_ne_user _ _ _ hR
  · intro h
    rw [bA]
    simp only [h, if_true, hM, hu, Bool.not_true, Bool.not_false, Bool.and_true, Bool.false_and, Bool.true_or]
    exact nested_bnd_ne_user _ _ _ hA

/-- the hypotheses are satisfiable: a fresh message with two parts and an attachment, 30-character
    random boundaries -/
example : RenderOK { parts := [⟨sb "text/plain", [], [], encQP, ⟨sb "a", false⟩, false, false⟩, ⟨sb "text/html", [], [], encQP, ⟨sb "b", false⟩, false, false⟩],
                     attachments := [⟨sb "f.txt", [], [], [], [], [], ⟨sb "x", false⟩⟩] }
    { bMixed := sb "0123456789abcdef0123456789abcd", bRelated := sb "1123456789abcdef0123456789abcd", bAlt := sb "2123456789abcdef0123456789abcd" } :=
  { user := Or.inl rfl, cM := Or.inl rfl, cR := Or.inl rfl, cA := Or.inl rfl,
    fM := by decide, fR := by decide, fA := by decide, nR := by decide, nA := by decide,
    hdrE := fun f hf => (by cases hf),
    hdrA := fun f hf => (by
      have : f.header = [] := by
        simp only [List.mem_singleton] at hf; rw [hf]
      unfold HSorted; rw [this]; exact List.Pairwise.nil) }

end GoMail.Props.C11
