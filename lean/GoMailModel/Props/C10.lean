import GoMailModel.Proofs.EmlRT
import GoMailModel.Proofs.QP
/-
  C10 — Render → parse → render preserves the message (PARTIAL).

  Modelled: the body logic of the EML parser (Eml/Body.lean: parseEMLBodyParts, parseEMLBodyPlain,
  parseEMLMultipart, parseEMLAttachmentEmbed, message encoding and charset) over the standard
  library's view of the input, compared with eml.go on every run (suite c10-eml-logic).

  Proved: for every message within the parser's feature set and EVERY view of its rendering that has
  the form `Eml.matchTop` describes, the body logic stores exactly the rendered body parts (type,
  charset, encoding, content as the transfer decoder reads it), the embeds and the attachments (name,
  bytes, kind, Content-ID), each list in the caller's order, and nothing else - whatever multipart
  layers the writer used. That the REAL view of a REAL rendering has that form is evaluated by the
  driver on every rendering of suite c10-eml-view (it is a statement about net/mail,
  mime.ParseMediaType, mime/multipart and the transfer decoders, which are not modelled).

  Not modelled: parseEMLHeaders (subject, addresses, date); the second rendering. Both are covered by
  the field-by-field oracle of suite c10-roundtrip only.
-/
namespace GoMail.Props.C10
open GoMail GoMail.Eml

/-- The writer emits `<type>; charset=<cs>` for every body part (msgWriter.writePart); the EML parser's
    parseMultiPartHeader recovers exactly the type and the charset from it, for every media type and
    charset string that does not itself contain ';'. -/
theorem part_header_reads_back (ct cs : Bytes) (h1 : ∀ b ∈ ct, b ≠ 59) (h2 : ∀ b ∈ cs, b ≠ 59) :
    parseMultiPartHeader (ct ++ sb "; charset=" ++ cs) = (ct, [(sb "charset", cs)]) :=
  pmh_part ct cs h1 h2

/-- non-vacuity -/
example : parseMultiPartHeader (sb "text/plain; charset=UTF-8") = (sb "text/plain", [(sb "charset", sb "UTF-8")]) := by decide

/-- **Parsing a rendering stores the message's content.** `s` any message state, `x` its entity tree
    (`xtreeOf`: the three layer decisions regenerated from msg.go, parts / embeds / attachments in
    order), `v` any view of the rendering of the form `matchTop` describes. Then the EML body logic
    accepts, and the Msg it fills holds exactly: one part per rendered body part (same type, charset,
    encoding label, content), one embed per embed and one attachment per attachment (sanitised name,
    bytes, Content-ID), in the caller's order - for every number of parts and files, every content,
    every nesting. -/
theorem parse_stores_the_rendered_content (s : Mime.MsgState) (x : XEnt) (v : VEnt) (cs enc : Bytes)
    (hx : xtreeOf s = some x) (hok : okTop x = true) (hm : matchTop x v = true) :
    ∃ st, parseBody v { charset := cs, enc := enc } = .ok st ∧
      st.parts = (keptParts s).map (fun p => storedPart (xPartOf s p)) ∧
      st.embeds = s.embeds.map (fun f => storedFile (xFileOf s false f)) ∧
      st.atts = s.attachments.map (fun f => storedFile (xFileOf s true f)) :=
  parse_of_render s x v cs enc hx hok hm

/-- ... where the stored content of a part or file is the caller's content, for quoted-printable with
    its line breaks made CRLF (and exactly the content when it has CRLF line breaks only, `C01.qp_canon_lf`) -/
theorem stored_content (enc content : Bytes) :
    asRead enc content = if eqFold enc eQP then QP.canon false content else content := by
  unfold asRead
  split
  · exact QP.roundtrip content
  · rfl

/-- the nesting does not matter to the parser: any tree of multipart/related and multipart/alternative
    layers over the same leaves stores the same content (one iteration of the part loop per entity) -/
theorem nested_layers_are_flattened (x : XEnt) (v : VEnt) (st : ESt) (hok : okEnt x = true) (hm : matchEnt x v = true) :
    onePart v st = .ok (st.add (effects x)) :=
  onePart_ent x v st hok hm

/-- non-vacuity: a concrete two-part message with an attachment and the view of its rendering -/
def exPart1 : XPart := { ctype := sb "text/plain", charset := sb "UTF-8", enc := sb "8bit", content := sb "hello" }
def exPart2 : XPart := { ctype := sb "text/html", charset := sb "UTF-8", enc := sb "base64", content := sb "<b>hi</b>" }
def exFile : XFile := { attach := true, name := sb "a.txt", enc := sb "base64", content := sb "data", cid := [] }
def exTree : XEnt := .multi (sb "mixed") [.multi (sb "alternative") [.part exPart1, .part exPart2], .file exFile]
def exMT (m : Bytes) (cs b : Option Bytes) : MT := { status := 0, mediatype := m, charset := cs, boundary := b }
def exView : VEnt :=
  .mk [sb "multipart/mixed; boundary=M"] [] [] [] (exMT (sb "multipart/mixed") none (some (sb "M"))) none (some (sb "...")) none none none
    [ .mk [sb "multipart/alternative; boundary=A"] [] [] [] (exMT (sb "multipart/alternative") none (some (sb "A"))) none (some (sb "...")) none none none
        [ .mk [sb "text/plain; charset=UTF-8"] [] [sb "8bit"] [] (exMT (sb "text/plain") (some (sb "UTF-8")) none) none (some (sb "hello")) none none none [] false,
          .mk [sb "text/html; charset=UTF-8"] [] [sb "base64"] [] (exMT (sb "text/html") (some (sb "UTF-8")) none) none (some (sb "PGI+aGk8L2I+")) none none (some (sb "<b>hi</b>")) [] false ] true,
      .mk [sb "text/plain; name=\"a.txt\""] [sb "attachment; filename=\"a.txt\""] [sb "base64"] [] (exMT (sb "text/plain") none none)
        (some { mediatype := sb "attachment", filename := some (sb "a.txt"), decoded := some (sb "a.txt") }) (some (sb "ZGF0YQ==")) none (some (sb "data")) none [] false ] true

example : okTop exTree = true ∧ matchTop exTree exView = true := by decide
/-- ... so the theorem applies to it (the hypotheses are satisfiable); the harness evaluates the same
    two predicates on the real view of every real rendering of suite c10-eml-view -/
example : parseBody exView { charset := sb "UTF-8", enc := eQP } =
    .ok (({ charset := sb "UTF-8", enc := eQP } : ESt).add (effectsL [.multi (sb "alternative") [.part exPart1, .part exPart2], .file exFile])) :=
  parse_multipart_top (sb "mixed") _ exView _ (by decide) (by decide)

end GoMail.Props.C10
