import GoMailModel.Eml.Params
import GoMailModel.Mime.Render
import GoMailModel.Proofs.Fold
import GoMailModel.Proofs.Split
/-
  C10 — Render → parse → render preserves the message (PARTIAL).
  Proved here: the hand-written header parameter parser of eml.go reads back what the message
  writer emits for a body part header ("type; charset=cs"). The comparison of whole messages across
  build → render → parse → render is carried by the harness run (field-by-field oracle and the
  independent MIME reader); the EML body logic over net/mail / mime/multipart views is not modelled.
-/
namespace GoMail.Props.C10
open GoMail GoMail.Eml

theorem splitEq2_at (k v : Bytes) (h : ∀ x ∈ k, x ≠ 61) : splitEq2 (k ++ 61 :: v) = [k, v] := by
  induction k with
  | nil => simp [splitEq2]
  | cons x xs ih =>
    have hx : (x == 61) = false := by simpa using h x (by simp)
    simp only [List.cons_append, splitEq2, hx, Bool.false_eq_true, if_false]
    rw [ih (fun y hy => h y (by simp [hy]))]

/-- The writer emits `<type>; charset=<cs>` for every body part (msgWriter.writePart); the EML parser's
    parseMultiPartHeader recovers exactly the type and the charset from it, for every media type and
    charset string that does not itself contain ';'. -/
theorem part_header_reads_back (ct cs : Bytes) (h1 : ∀ b ∈ ct, b ≠ 59) (h2 : ∀ b ∈ cs, b ≠ 59) :
    parseMultiPartHeader (ct ++ sb "; charset=" ++ cs) = (ct, [(sb "charset", cs)]) := by
  unfold parseMultiPartHeader splitOn
  have e : ct ++ sb "; charset=" ++ cs = ct ++ 59 :: (sb " charset=" ++ cs) := by
    simp [sb]
  rw [e, splitOnAux_at_sep 59 [] ct _ h1]
  have hrest : ∀ b ∈ sb " charset=" ++ cs, b ≠ 59 := by
    intro b hb
    rcases List.mem_append.mp hb with h | h
    · have key : ∀ x ∈ sb " charset=", x ≠ 59 := by decide
      exact key b h
    · exact h2 b h
  rw [splitOnAux_no_sep 59 [] _ hrest]
  simp only [List.reverse_nil, List.nil_append, List.filterMap_cons, List.filterMap_nil]
  have ht : trimLeftSp (sb " charset=" ++ cs) = sb "charset" ++ 61 :: cs := by
    simp [trimLeftSp, sb, List.dropWhile]
  rw [ht, splitEq2_at _ _ (by decide)]

/-- non-vacuity -/
example : parseMultiPartHeader (sb "text/plain; charset=UTF-8") = (sb "text/plain", [(sb "charset", sb "UTF-8")]) := by decide

end GoMail.Props.C10
