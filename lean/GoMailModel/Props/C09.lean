import GoMailModel.Eml.Params
import GoMailModel.Generated.Eml
import GoMailModel.Generated.Narrow
/-
  C09 — EML parsing is total. The part of eml.go that indexes and slices by hand is modelled with
  Go's slice semantics (out of range = panic); the rest of the parser only consumes what net/mail,
  mime/multipart and mime.ParseMediaType return (contract: they return or fail, they do not panic).
-/
namespace GoMail.Props.C09
open GoMail GoMail.Eml

/-- the file name extraction never slices out of range, for EVERY parameter value -/
theorem filename_never_panics (name : Bytes) : ∃ r, filenameOf name = .ok r := by
  unfold filenameOf
  split
  · rename_i h
    unfold goSlice
    have : (0 : Int) ≤ 1 ∧ (1 : Int) ≤ (name.length : Int) - 1 ∧ (name.length : Int) - 1 ≤ name.length := by omega
    simp [this]
  · exact ⟨name, rfl⟩

/-- ... and for a quoted value it returns exactly what is between the quotes -/
theorem filename_quoted (inner : Bytes) : filenameOf ([34] ++ inner ++ [34]) = .ok inner := by
  unfold filenameOf goSlice
  have h1 : ([34] ++ inner ++ [34] : Bytes).length ≥ 2 := by simp
  have h2 : ([34] ++ inner ++ [34] : Bytes).head? = some 34 := by simp
  have h3 : ([34] ++ inner ++ [34] : Bytes).getLast? = some 34 := by
    rw [List.getLast?_append]; simp
  simp only [h1, h2, h3, and_self, if_true]
  have : (0 : Int) ≤ 1 ∧ (1 : Int) ≤ (([34] ++ inner ++ [34] : Bytes).length : Int) - 1 ∧
      (([34] ++ inner ++ [34] : Bytes).length : Int) - 1 ≤ ([34] ++ inner ++ [34] : Bytes).length := by
    simp; omega
  simp only [this, and_self, if_true]
  simp

/-- the slice as it was written before the repair does panic: the witnesses of the defect -/
theorem unguarded_panics_on_empty : ∃ e, filenameUnguarded [] = .error e := ⟨_, rfl⟩
theorem unguarded_panics_on_one_byte : ∃ e, filenameUnguarded [120] = .error e := ⟨_, rfl⟩

/-- parseMultiPartHeader is total by construction (structural recursion only): it returns for every input -/
theorem parseMultiPartHeader_total (v : Bytes) : ∃ h opts, parseMultiPartHeader v = (h, opts) := ⟨_, _, rfl⟩

/-- Every integer index / slice expression of eml.go (inventory regenerated from the source on every
    run) is one of the expressions whose range safety is accounted for:
    * guarded by an enclosing length check (`contentTypeSlice[0]`, `optSplit[0|1]`, `name[0]`, the file name slice),
    * applied to the result of strings.Split, which has at least one element (`headerSplit[0]`, `headerSplit[1:]`),
    * applied to a textproto header value list, non-empty by contract, or to the literal default
      (`multiPartContentType[0]`, `mutliPartTransferEnc[0]`, `contentDisposition[0]`).
    A new or changed expression makes this theorem fail. -/
def accountedFor : List (String × String × List String) := [
  ("parseEMLMultipart", "contentTypeSlice[0]", ["ok && len(contentTypeSlice) == 1"]),
  ("parseEMLMultipart", "multiPartContentType[0]", []),
  ("parseEMLMultipart", "mutliPartTransferEnc[0]", []),
  ("parseMultiPartHeader", "headerSplit[0]", []),
  ("parseMultiPartHeader", "headerSplit[1:]", []),
  ("parseMultiPartHeader", "optSplit[0]", ["len(optSplit) == 2"]),
  ("parseMultiPartHeader", "optSplit[1]", ["len(optSplit) == 2"]),
  ("parseEMLAttachmentEmbed", "contentDisposition[0]", []),
  ("parseEMLAttachmentEmbed", "name[0]", ["ok"]),
  ("parseEMLAttachmentEmbed", "name[1 : len(name)-1]",
    ["ok", "len(name) >= 2 && name[0] == '\"' && name[len(name)-1] == '\"'"])]

theorem indexing_accounted_for : ∀ e ∈ Generated.emlIndexing, e ∈ accountedFor := by decide


/-- Fact regenerated from the sources: the only integers narrower than `int` in the library are the nesting
    depth of the multipart writer (at most four layers) and the step counter of LOGIN (at most two steps). No
    count of parts, recipients, refusals, header fields, parameters or bytes is kept in a type that wraps at 128,
    256 or 65536 - the theorems of this file quantify over all sizes, and this is the part of the tie that says the
    code does not silently stop doing so. -/
theorem no_narrow_counters :
    Generated.narrowInts = ["msgwriter.go: int8", "smtp/auth_login.go: uint8"] := by decide

end GoMail.Props.C09
