import GoMailModel.Smtp.Auth
/-
  C15 — SCRAM authenticates the server.
  The unchanged code violates the property in one way that cannot be repaired without breaking the
  project's own test suite (its test server answers AUTH with a bare 235): `Next(_, more=false)`
  returns success unconditionally. That is proved here as a counterexample, recorded as a known
  finding, and the property is proved for everything else.
-/
namespace GoMail.Props.C15
open GoMail GoMail.Smtp

theorem first_reply_nonempty (env : ScramEnv) (st : ScramSt) (r : Bytes)
    (h : (scramFirst env st).2 = .ok (some r)) : r ≠ [] := by
  unfold scramFirst at h
  cases hu : env.user with
  | none => simp [hu] at h
  | some user =>
    simp only [hu] at h
    by_cases hp : env.plus = true
    · simp only [hp, if_true] at h
      split at h
      · cases h
      · simp only [Except.ok.injEq, Option.some.injEq] at h
        rw [← h]; simp [sb]
    · simp only [hp, if_false, Bool.false_eq_true] at h
      simp only [Except.ok.injEq, Option.some.injEq] at h
      rw [← h]; simp [sb]

theorem serverFirst_reply_nonempty (env : ScramEnv) (st : ScramSt) (m r : Bytes)
    (h : (scramServerFirst env st m).2 = .ok (some r)) : r ≠ [] := by
  unfold scramServerFirst at h
  simp only [] at h
  repeat' split at h
  all_goals first
    | (cases h; done)
    | (simp only [Except.ok.injEq, Option.some.injEq] at h; rw [← h]; simp [sb])

theorem serverFinal_ok (env : ScramEnv) (st : ScramSt) (m r : Bytes)
    (h : (scramServerFinal env st m).2 = .ok (some r)) :
    st.salted = true ∧ st.authMessage ≠ [] ∧ m.drop 2 = (env.crypto st.salt st.iter st.authMessage).2 := by
  unfold scramServerFinal at h
  by_cases hs : (!st.salted || st.authMessage.isEmpty) = true
  · simp [hs] at h
  · simp only [hs, if_false, Bool.false_eq_true] at h
    split at h
    · rename_i heq
      simp only [Bool.or_eq_true, Bool.not_eq_eq_eq_not, Bool.not_true, not_or] at hs
      refine ⟨by simpa using hs.1, ?_, by simpa using heq⟩
      intro hc; simp [hc] at hs
    · cases h

/-- The client acknowledges a server-final message (sends the empty response) ONLY when an exchange is
    running (a nonce-extending server-first was processed: `salted`, non-empty auth message) and the
    message carries exactly the ServerSignature computed over THIS exchange's auth message. -/
theorem ack_only_valid_signature (env : ScramEnv) (st : ScramSt) (msg : Bytes)
    (h : ((scramMech env).next st msg true).2 = .ok (some [])) :
    hasPrefix msg (sb "v=") = true ∧ st.salted = true ∧ st.authMessage ≠ [] ∧
      msg.drop 2 = (env.crypto st.salt st.iter st.authMessage).2 := by
  simp only [scramMech, if_true] at h
  by_cases he : msg.isEmpty = true
  · simp only [he, if_true] at h
    exact absurd rfl (first_reply_nonempty env _ [] h)
  · simp only [he, if_false, Bool.false_eq_true] at h
    by_cases hr : hasPrefix msg (sb "r=") = true
    · simp only [hr, if_true] at h
      exact absurd rfl (serverFirst_reply_nonempty env st msg [] h)
    · simp only [hr, if_false, Bool.false_eq_true] at h
      by_cases hv : hasPrefix msg (sb "v=") = true
      · simp only [hv, if_true] at h
        obtain ⟨a, b, c⟩ := serverFinal_ok env st msg [] h
        exact ⟨hv, a, b, c⟩
      · simp [hv] at h

/-- A server-final message before any server-first (empty state) is refused — the repaired defect. -/
theorem final_before_first_refused (env : ScramEnv) (msg : Bytes) (att : Nat) :
    ((scramMech env).next { attempt := att } (sb "v=" ++ msg) true).2 = .error errScram := by
  have hp : hasPrefix (sb "v=" ++ msg) (sb "v=") = true := by simp [sb, hasPrefix]
  have hr : hasPrefix (sb "v=" ++ msg) (sb "r=") = false := by simp [sb, hasPrefix]
  have he : (sb "v=" ++ msg).isEmpty = false := by simp [sb]
  simp only [scramMech, if_true, he, hr, hp, Bool.false_eq_true, if_false]
  simp [scramServerFinal]

/-- **A new exchange starts from nothing.** Whatever state an earlier exchange on the same Auth value has
    left behind (a completed exchange leaves `salted`, the auth message, the nonce): after `Start`, a
    server-final message - in particular the replayed ServerSignature of that earlier exchange - is
    refused, for every state and every message. (The repaired defect `c00da92`: `Start` passed the state on.) -/
theorem replay_on_a_new_exchange_refused (env : ScramEnv) (st : ScramSt) (si : ServerInfo) (msg : Bytes) :
    ((scramMech env).next ((scramMech env).start st si).1 (sb "v=" ++ msg) true).2 = .error errScram := by
  have h : ((scramMech env).start st si).1 = { attempt := st.attempt } := rfl
  rw [h]
  exact final_before_first_refused env msg st.attempt

/-- ... and the other mechanisms: `Start` does not look at the state at all. -/
theorem start_forgets_plain (identity user pass host : Bytes) (allow : Bool) (st : Unit) (si : ServerInfo) :
    (plainMech identity user pass host allow).start st si = (plainMech identity user pass host allow).start () si := rfl
theorem start_forgets_login (user pass host : Bytes) (allow : Bool) (st : Nat) (si : ServerInfo) :
    (loginMech user pass host allow).start st si = (loginMech user pass host allow).start 0 si := rfl

/-- A server-first message whose nonce does not extend the client's nonce is refused. -/
theorem foreign_nonce_refused (env : ScramEnv) (st : ScramSt) (p0 p1 p2 : Bytes) (rest : List Bytes) (fromServer : Bytes)
    (hs : splitOnByte 44 fromServer = p0 :: p1 :: p2 :: rest)
    (hn : hasPrefix (p0.drop 2) st.nonce = false) :
    (scramServerFirst env st fromServer).2 = .error errScram := by
  unfold scramServerFirst
  rw [hs]
  simp only []
  split
  · rfl
  · simp [hn]

/-- KNOWN FINDING (c15-success-without-server-signature): a bare success reply is accepted in every
    state. `Next(_, false)` returns (nil, nil): the Auth loop ends without error although no
    ServerSignature was ever verified. -/
theorem counterexample_bare_success (env : ScramEnv) (st : ScramSt) (msg : Bytes) :
    (scramMech env).next st msg false = (st, .ok none) := rfl

end GoMail.Props.C15
