import GoMailModel.Smtp.Send
import GoMailModel.Proofs.Legal6
import GoMailModel.Proofs.AcksDial
/-
  C03 — The server only ever commits complete messages; IsDelivered tells the truth.
  (First group: what sendSingleMsg reports. The trace-level statement — every end-of-data marker is
   preceded by a complete rendering — is part of the session legality theorem, see Props/C04.)
-/
namespace GoMail.Props.C03
open GoMail GoMail.Smtp

/-- A message whose rendering fails is never reported delivered and always carries a SendError,
    whatever the configuration, the connection state and the server script are. -/
theorem failed_render_is_reported (cfg : SendCfg) (c : Conn) (idx : Nat) (m : MsgIn) (h : m.renderOK = false) :
    (sendOne cfg c idx m false).2.delivered = false ∧ (sendOne cfg c idx m false).2.err.isSome = true := by
  unfold sendOne
  simp only [h, Bool.not_false, if_true]
  repeat' split
  all_goals simp

/-- IsDelivered is set only on the path on which the end-of-data marker was acknowledged with 250:
    if the model reports `delivered`, the rendering was complete. -/
theorem delivered_requires_complete_render (cfg : SendCfg) (c : Conn) (idx : Nat) (m : MsgIn)
    (h : (sendOne cfg c idx m false).2.delivered = true) : m.renderOK = true := by
  cases hr : m.renderOK with
  | true => rfl
  | false =>
    have := (failed_render_is_reported cfg c idx m hr).1
    rw [this] at h
    cases h

/-- A message without error is a delivered message. -/
theorem no_error_means_delivered (cfg : SendCfg) (c : Conn) (idx : Nat) (m : MsgIn)
    (h : (sendOne cfg c idx m false).2.err = none) : (sendOne cfg c idx m false).2.delivered = true := by
  revert h
  unfold sendOne
  simp only []
  repeat' split
  all_goals simp

/-! ### trace level: the end-of-data marker is only ever sent behind a complete rendering -/

theorem bad_mono (j : J) (e : Ev) (h : j.bad = true) : (j.step e).bad = true := by
  unfold J.step
  split
  · exact h
  · cases e <;> simp only [] <;> first
      | exact h
      | (rw [onReply_bad]; exact h)
      | (split <;> first | exact h | (simp [h]; done))
      | (simp [h]; done)

theorem foldl_bad (b : List Ev) (j : J) (h : (b.foldl J.step j).bad = false) : j.bad = false := by
  induction b generalizing j with
  | nil => exact h
  | cons e rest ih =>
    have h1 := ih (j.step e) h
    cases hb : j.bad with
    | false => rfl
    | true => rw [bad_mono _ e hb] at h1; cases h1

theorem judge_bad_prefix (a b : List Ev) (h : (judge (a ++ b)).bad = false) : (judge a).bad = false := by
  unfold judge at h
  rw [List.foldl_append] at h
  exact foldl_bad b _ h

/-- **Only complete messages reach end-of-data.** In the trace of DialAndSend - for every configuration,
    server script, capability list and batch - wherever the end-of-data marker occurs, the reference
    automaton is in state `full`: DATA was answered 354 and a COMPLETE rendering of the message was
    handed to the DATA stream since (a failed render never gets there: the connection is dropped
    instead, so the server cannot commit a fragment). -/
theorem eod_only_behind_complete_content (cfg : DialCfg) (script : List Act) (caps : List Bytes) (ms : List MsgIn)
    (pre post : List Ev) (h : (dialAndSend cfg script caps ms).conn.trace = pre ++ .eod :: post) :
    (judge pre).stopped = true ∨ (judge pre).tx = .full := by
  have hl := dialAndSend_legal cfg script caps ms
  unfold Legal at hl
  rw [h, show pre ++ Ev.eod :: post = (pre ++ [Ev.eod]) ++ post by simp] at hl
  have h1 := judge_bad_prefix _ _ hl
  rw [judge_snoc] at h1
  cases hs : (judge pre).stopped with
  | true => left; rfl
  | false =>
    right
    simp only [J.step, hs, Bool.false_eq_true, if_false, Bool.or_eq_false_iff] at h1
    cases htx : (judge pre).tx <;> simp [htx] at h1
    rfl


/-! ### IsDelivered if and only if acknowledged; each message at most once

`acks` (Proofs/Acks.lean) reads the event trace a second time, independently of the legality
automaton: it remembers which message's COMPLETE content was handed to the DATA stream last and
records that message when the end-of-data marker that follows is answered 250 (the only reply
`dataCloser.Close` accepts: textproto's ReadResponse(250)). -/

/-- sendSingleMsg, any configuration, any connection state without an unanswered end-of-data marker,
    any server script: the message is reported delivered if and only if the server acknowledged
    ITS end-of-data marker during this call - and then exactly once. -/
theorem delivered_iff_acknowledged (cfg : SendCfg) (c : Conn) (idx : Nat) (m : MsgIn)
    (hp : (acks c.trace).pend = false) :
    ((sendOne cfg c idx m false).2.delivered = true ↔
      (acks (sendOne cfg c idx m false).1.trace).acked = (acks c.trace).acked ++ [idx]) ∧
    ((sendOne cfg c idx m false).2.delivered = false ↔
      (acks (sendOne cfg c idx m false).1.trace).acked = (acks c.trace).acked) := by
  have h := (sendOne_acks cfg c idx m hp).2
  cases hd : (sendOne cfg c idx m false).2.delivered
  · rw [hd] at h
    simp only [Bool.false_eq_true, if_false, List.append_nil] at h
    refine ⟨⟨fun x => (by cases x), fun x => ?_⟩, ⟨fun _ => h, fun _ => rfl⟩⟩
    rw [h] at x
    have := congrArg List.length x
    simp at this
  · rw [hd] at h
    simp only [if_true] at h
    refine ⟨⟨fun _ => h, fun _ => rfl⟩, ⟨fun x => (by cases x), fun x => ?_⟩⟩
    rw [h] at x
    have := congrArg List.length x
    simp at this

/-- **DialAndSend: the acknowledged messages are exactly the delivered ones.** For every
    configuration (TLS policy, authentication, DSN, NOOP check), every server script (expected
    replies, 4yz, 5yz, garbage, disconnects, stalls, a server that stops reading - at any position),
    every capability list and every batch: the list of messages whose end-of-data marker the server
    answered with 250 is the list of batch positions reported IsDelivered, in batch order. -/
theorem acknowledged_are_the_delivered (cfg : DialCfg) (script : List Act) (caps : List Bytes) (ms : List MsgIn) :
    (acks (dialAndSend cfg script caps ms).conn.trace).acked = deliveredIdx 0 (dialAndSend cfg script caps ms).msgs :=
  dialAndSend_acks cfg script caps ms

/-- ... so batch position k was acknowledged if and only if the k-th message reports IsDelivered ... -/
theorem acknowledged_iff_delivered (cfg : DialCfg) (script : List Act) (caps : List Bytes) (ms : List MsgIn) (k : Nat) :
    k ∈ (acks (dialAndSend cfg script caps ms).conn.trace).acked ↔
      ∃ o, (dialAndSend cfg script caps ms).msgs[k]? = some o ∧ o.delivered = true := by
  rw [acknowledged_are_the_delivered, mem_deliveredIdx]
  simp

/-- ... and no message is committed twice in one call: the acknowledged positions are strictly increasing. -/
theorem committed_at_most_once (cfg : DialCfg) (script : List Act) (caps : List Bytes) (ms : List MsgIn) :
    (acks (dialAndSend cfg script caps ms).conn.trace).acked.Pairwise (· < ·) := by
  rw [acknowledged_are_the_delivered]
  exact deliveredIdx_pairwise 0 _

/-- non-vacuity: a batch of two; the only recipient of the first message is refused (550), the second
    message goes through. One end-of-data marker is acknowledged, and it is the second message's. -/
example :
    (acks (dialAndSend {} [.ok, .ok, .ok, .ok, .reply 550 (sb "no"), .ok, .ok, .ok, .ok, .ok, .ok, .ok, .ok, .ok, .ok] []
      [{ sender := some (sb "a@b.c"), rcpts := [sb "x@y.z"] }, { sender := some (sb "a@b.c"), rcpts := [sb "x@y.z"] }]).conn.trace).acked = [1] := by
  decide

end GoMail.Props.C03
