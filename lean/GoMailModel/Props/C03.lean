import GoMailModel.Smtp.Send
/-
  C03 — The server only ever commits complete messages; IsDelivered tells the truth.
  (First group: what sendSingleMsg reports. The trace-level statement — every end-of-data marker is
   preceded by a complete rendering — is part of the session legality theorem, see Props/C04.)
-/
namespace GoMail.Props.C03
open GoMail GoMail.Smtp

/-- A message whose rendering fails is never reported delivered and always carries a SendError,
    whatever the configuration, the connection state and the server script are. -/
theorem failed_render_is_reported (cfg : SendCfg) (c : Conn) (idx : Nat) (m : MsgIn) (h : m.renderOK = false) :
    (sendOne cfg c idx m false).2.delivered = false ∧ (sendOne cfg c idx m false).2.err.isSome = true := by
  unfold sendOne
  simp only [h, Bool.not_false, if_true]
  repeat' split
  all_goals simp

/-- IsDelivered is set only on the path on which the end-of-data marker was acknowledged with 250:
    if the model reports `delivered`, the rendering was complete. -/
theorem delivered_requires_complete_render (cfg : SendCfg) (c : Conn) (idx : Nat) (m : MsgIn)
    (h : (sendOne cfg c idx m false).2.delivered = true) : m.renderOK = true := by
  cases hr : m.renderOK with
  | true => rfl
  | false =>
    have := (failed_render_is_reported cfg c idx m hr).1
    rw [this] at h
    cases h

/-- A message without error is a delivered message. -/
theorem no_error_means_delivered (cfg : SendCfg) (c : Conn) (idx : Nat) (m : MsgIn)
    (h : (sendOne cfg c idx m false).2.err = none) : (sendOne cfg c idx m false).2.delivered = true := by
  revert h
  unfold sendOne
  simp only []
  repeat' split
  all_goals simp

end GoMail.Props.C03
