import GoMailModel.Smtp.Send
import GoMailModel.Proofs.Legal6
/-
  C03 — The server only ever commits complete messages; IsDelivered tells the truth.
  (First group: what sendSingleMsg reports. The trace-level statement — every end-of-data marker is
   preceded by a complete rendering — is part of the session legality theorem, see Props/C04.)
-/
namespace GoMail.Props.C03
open GoMail GoMail.Smtp

/-- A message whose rendering fails is never reported delivered and always carries a SendError,
    whatever the configuration, the connection state and the server script are. -/
theorem failed_render_is_reported (cfg : SendCfg) (c : Conn) (idx : Nat) (m : MsgIn) (h : m.renderOK = false) :
    (sendOne cfg c idx m false).2.delivered = false ∧ (sendOne cfg c idx m false).2.err.isSome = true := by
  unfold sendOne
  simp only [h, Bool.not_false, if_true]
  repeat' split
  all_goals simp

/-- IsDelivered is set only on the path on which the end-of-data marker was acknowledged with 250:
    if the model reports `delivered`, the rendering was complete. -/
theorem delivered_requires_complete_render (cfg : SendCfg) (c : Conn) (idx : Nat) (m : MsgIn)
    (h : (sendOne cfg c idx m false).2.delivered = true) : m.renderOK = true := by
  cases hr : m.renderOK with
  | true => rfl
  | false =>
    have := (failed_render_is_reported cfg c idx m hr).1
    rw [this] at h
    cases h

/-- A message without error is a delivered message. -/
theorem no_error_means_delivered (cfg : SendCfg) (c : Conn) (idx : Nat) (m : MsgIn)
    (h : (sendOne cfg c idx m false).2.err = none) : (sendOne cfg c idx m false).2.delivered = true := by
  revert h
  unfold sendOne
  simp only []
  repeat' split
  all_goals simp

/-! ### trace level: the end-of-data marker is only ever sent behind a complete rendering -/

theorem bad_mono (j : J) (e : Ev) (h : j.bad = true) : (j.step e).bad = true := by
  unfold J.step
  split
  · exact h
  · cases e <;> simp only [] <;> first
      | exact h
      | (rw [onReply_bad]; exact h)
      | (split <;> first | exact h | (simp [h]; done))
      | (simp [h]; done)

theorem foldl_bad (b : List Ev) (j : J) (h : (b.foldl J.step j).bad = false) : j.bad = false := by
  induction b generalizing j with
  | nil => exact h
  | cons e rest ih =>
    have h1 := ih (j.step e) h
    cases hb : j.bad with
    | false => rfl
    | true => rw [bad_mono _ e hb] at h1; cases h1

theorem judge_bad_prefix (a b : List Ev) (h : (judge (a ++ b)).bad = false) : (judge a).bad = false := by
  unfold judge at h
  rw [List.foldl_append] at h
  exact foldl_bad b _ h

/-- **Only complete messages reach end-of-data.** In the trace of DialAndSend - for every configuration,
    server script, capability list and batch - wherever the end-of-data marker occurs, the reference
    automaton is in state `full`: DATA was answered 354 and a COMPLETE rendering of the message was
    handed to the DATA stream since (a failed render never gets there: the connection is dropped
    instead, so the server cannot commit a fragment). -/
theorem eod_only_behind_complete_content (cfg : DialCfg) (script : List Act) (caps : List Bytes) (ms : List MsgIn)
    (pre post : List Ev) (h : (dialAndSend cfg script caps ms).conn.trace = pre ++ .eod :: post) :
    (judge pre).stopped = true ∨ (judge pre).tx = .full := by
  have hl := dialAndSend_legal cfg script caps ms
  unfold Legal at hl
  rw [h, show pre ++ Ev.eod :: post = (pre ++ [Ev.eod]) ++ post by simp] at hl
  have h1 := judge_bad_prefix _ _ hl
  rw [judge_snoc] at h1
  cases hs : (judge pre).stopped with
  | true => left; rfl
  | false =>
    right
    simp only [J.step, hs, Bool.false_eq_true, if_false, Bool.or_eq_false_iff] at h1
    cases htx : (judge pre).tx <;> simp [htx] at h1
    rfl

end GoMail.Props.C03
