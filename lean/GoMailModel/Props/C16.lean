import GoMailModel.Proofs.LogFrame
/-
  C16 — Authentication secrets never reach the debug log.
-/
namespace GoMail.Props.C16
open GoMail GoMail.Smtp

theorem logs_replied (c : Conn) (v : Verb) (n code : Nat) (t : Bytes) : (c.replied v n code t).1.logs = c.logs := by
  unfold Conn.replied; simp only []; split <;> split <;> rfl

theorem logs_serverTurn (c : Conn) (v : Verb) (n : Nat) : (c.serverTurn v n).1.logs = c.logs := by
  unfold Conn.serverTurn
  split
  · rfl
  · split
    · rfl
    · have hp : c.pop.2.logs = c.logs := by unfold Conn.pop; split <;> rfl
      rw [← hp]
      cases c.pop.1 <;> simp only [Conn.applyAct] <;> first | exact logs_replied _ _ _ _ _ | rfl

theorem logs_send (c : Conn) (v : Verb) (l : Bytes) : (c.send v l).logs = c.logs := by
  unfold Conn.send; split <;> rfl

/-- While an AUTH exchange is active (auth-data logging not enabled), what `cmd` hands to the logger
    for a command is the redaction marker — whatever the command line (a SASL response) is — and for a
    3xx reply (a challenge) the marker instead of its text. The records are
    [client→server: marker] and [server→client: code, marker-or-text]. -/
theorem records_while_auth_active (c : Conn) (v : Verb) (line : Bytes) (n : Nat)
    (ha : c.authActive = true) (hd : c.debug = true) (ho : c.cliOpen = true) :
    ∃ code text, (c.cmd v line n).1.logs =
      c.logs ++ [{ c2s := true, text := redacted },
                 { c2s := false, code := code, text := if 300 ≤ code ∧ code ≤ 400 then redacted else text }] := by
  unfold Conn.cmd
  simp only [ho, Bool.not_true, Bool.false_eq_true, if_false]
  have hsw := ((sw_log c { c2s := true, text := if c.authActive then redacted else line }).trans
    (sw_send _ v line)).trans (sw_serverTurn _ v n)
  refine ⟨(replyOf ((c.logC2S line).send v line |>.serverTurn v n).2).1,
          (replyOf ((c.logC2S line).send v line |>.serverTurn v n).2).2, ?_⟩
  unfold Conn.logS2C Conn.log
  have hdbg : (((c.logC2S line).send v line).serverTurn v n).1.debug = true := by
    have := hsw.2.2; unfold Conn.logC2S; rw [this, hd]
  have hact : (((c.logC2S line).send v line).serverTurn v n).1.authActive = true := by
    have := hsw.1; unfold Conn.logC2S; rw [this, ha]
  simp only [hdbg, if_true, hact, Bool.true_and]
  rw [logs_serverTurn, logs_send]
  unfold Conn.logC2S Conn.log
  simp only [hd, if_true, ha, List.append_assoc, List.cons_append, List.nil_append]
  congr 2
  simp [Bool.and_eq_true, decide_eq_true_eq]

/-- the same command line with ANOTHER payload produces the same records: the log is a function of
    the shape of the exchange, not of the secrets -/
theorem records_independent_of_payload (c : Conn) (v : Verb) (l1 l2 : Bytes) (n : Nat)
    (ha : c.authActive = true) (ho : c.cliOpen = true) :
    (c.logC2S l1).logs = (c.logC2S l2).logs := by
  unfold Conn.logC2S; simp [ha]

/-- The window closes: on EVERY path through smtp.Client.Auth (success, 535 at any step, malformed or
    unexpected challenge, disconnect) the redaction flag is off again when Auth returns, so later
    traffic is logged verbatim. -/
theorem window_closes {σ} (c : Conn) (a : Mech σ) (h : c.authActive = false) :
    (c.authWith a).1.authActive = false :=
  authWith_closes_window c a h

/-- ... and outside the window `cmd` logs the command line verbatim -/
theorem verbatim_outside_window (c : Conn) (line : Bytes) (ha : c.authActive = false) (hd : c.debug = true) :
    (c.logC2S line).logs = c.logs ++ [{ c2s := true, text := line }] := by
  unfold Conn.logC2S Conn.log; simp [ha, hd]

end GoMail.Props.C16
