import GoMailModel.Proofs.Armed
import GoMailModel.Generated.Locks
/-
  C17 — Every network operation is bounded by the configured timeout (PARTIAL: time is virtual).
  In the model every point at which the client waits for the server is an event; when the server is
  silent at that point the event is `stall armed`, where `armed` says whether a connection deadline
  was set. The theorems say: no reachable wait is unarmed. That an armed kernel deadline fires, and
  scheduling slack, are the runtime's.
-/
namespace GoMail.Props.C17
open GoMail GoMail.Smtp

/-- DialWithContext: for EVERY configuration (TLS policy, auth type, credentials) and EVERY server
    script — in particular a server that falls silent before the greeting, after EHLO, at STARTTLS, in
    the TLS handshake, at any AUTH step — the client never waits without a deadline. -/
theorem dial_never_waits_unbounded (cfg : DialCfg) (script : List Act) (caps : List Bytes) :
    ∀ e ∈ (dial cfg script caps).1.trace, e ≠ .stall false :=
  (good_dial cfg script caps).2.1

/-- DialAndSend: the same for the whole dial + send + quit dialogue of any batch. -/
theorem dialAndSend_never_waits_unbounded (cfg : DialCfg) (script : List Act) (caps : List Bytes) (ms : List MsgIn) :
    ∀ e ∈ (dialAndSend cfg script caps ms).conn.trace, e ≠ .stall false :=
  (good_dialAndSend cfg script caps ms).2.1

/-- Send and Reset on an established connection (any connection state reached without an unarmed wait). -/
theorem send_never_waits_unbounded (cfg : SendCfg) (c : Conn) (ms : List MsgIn) (h : Good c) :
    ∀ e ∈ (sendBatch cfg c ms).1.trace, e ≠ .stall false :=
  (good_sendBatch cfg c ms h).2.1

theorem reset_never_waits_unbounded (cfg : SendCfg) (c : Conn) (h : Good c) :
    ∀ e ∈ (resetWith cfg c).1.trace, e ≠ .stall false :=
  (good_resetWith cfg c h).2.1

/-- The deadline is armed before the first byte is read: the trace of a dial starts with
    connect (and the implicit-TLS marker), then `deadline`. -/
theorem dial_arms_first (cfg : DialCfg) (script : List Act) (caps : List Bytes) :
    (freshConn cfg script caps).updateDeadline.1.trace =
      (if cfg.implicitTLS then [.connect, .tlsOn] else [.connect]) ++ [.deadline] := by
  simp [freshConn, Conn.updateDeadline, Conn.ev]

/-- non-vacuity: a server that is silent at the greeting does produce a wait, and it is armed -/
example : (dial {} [.stall] []).1.trace = [.connect, .deadline, .stall true, .close] := by decide

/-- Waiting for a mutex has no deadline at all, so a lock that is not given back blocks the next caller
    for good. Fact regenerated from the source (path-sensitive walk, see `C13.every_path_gives_back_the_locks_it_took`):
    no function of client.go, client_120.go, smtp/smtp.go, smtp/smtp_ehlo.go leaves a mutex held on any path. -/
theorem no_path_keeps_a_lock : Generated.lockFlowProblems = [] := rfl

/-- The connection attempt itself is bounded too. Fact regenerated from client.go: in
    `DialToSMTPClientWithContext` the context `ctx` is derived from the caller's with the configured
    timeout as deadline, and EVERY call of the dial function - the one for the configured port and the
    one for the fallback port - is given that `ctx`, not the caller's context. -/
theorem every_connection_attempt_gets_the_bounded_context :
    Generated.dialCtxDerivation = "context.WithDeadline(ctxDial, time.Now().Add(c.connTimeout))" ∧
    Generated.dialCtxArgs ≠ [] ∧ ∀ a ∈ Generated.dialCtxArgs, a = "ctx" := by decide

/-- how many times a trace waited a FULL timeout: an armed wait on a silent server counts when the
    deadline had been armed afresh since the previous wait (an expired deadline that nobody re-armed
    makes every further operation fail at once) -/
def fullWaits (tr : List Ev) : Nat :=
  (tr.foldl (fun (st : Bool × Nat) e => match e with
     | .deadline => (true, st.2)
     | .stall true => (false, if st.1 then st.2 + 1 else st.2)
     | _ => st) (true, 0)).2

/-- **KNOWN FINDING `c17-dialandsend-twice-the-timeout`** (false of the code, and of the model): the
    theorems above bound every single wait; they do not bound their number. When the server falls
    silent at the NOOP of the connection check (first line), at end-of-data (third line) or at the RSET
    after a message, the send gives up after one timeout, the connection still counts as usable, and
    the deferred close arms a new deadline for its QUIT and waits once more: DialAndSend returns after
    twice the configured timeout. A silent server at MAIL costs one timeout (second line). Reproduced
    against the real code in real time (DESIGN.md section 11) and by suite `c17-send-stall` every run. -/
theorem counterexample_dialAndSend_waits_twice :
    fullWaits (dialAndSend {} [.ok, .ok, .stall] [] [{ sender := some (sb "a@b.c"), rcpts := [sb "x@y.z"] }]).conn.trace = 2 ∧
    fullWaits (dialAndSend {} [.ok, .ok, .ok, .stall] [] [{ sender := some (sb "a@b.c"), rcpts := [sb "x@y.z"] }]).conn.trace = 1 ∧
    fullWaits (dialAndSend {} [.ok, .ok, .ok, .ok, .ok, .ok, .stall] [] [{ sender := some (sb "a@b.c"), rcpts := [sb "x@y.z"] }]).conn.trace = 2 := by
  decide

end GoMail.Props.C17
