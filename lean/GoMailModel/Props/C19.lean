import GoMailModel.Smtp.Dial
import GoMailModel.Proofs.Armed
/-
  C19 — No connection outlives a failed operation.
-/
namespace GoMail.Props.C19
open GoMail GoMail.Smtp

theorem close_closes (c : Conn) : c.close.cliOpen = false ∧ c.close.isConnected = false := by
  unfold Conn.close; split <;> simp_all [Conn.ev]

/-- smtp.NewClient: when the greeting is not a 220 (any other reply, garbage, disconnect, silence)
    the connection has been closed when the error is returned. -/
theorem newClient_error_closed (cfg : DialCfg) (script : List Act) (caps : List Bytes) (e : Err)
    (h : (newClient cfg script caps).2 = some e) : (newClient cfg script caps).1.cliOpen = false := by
  unfold newClient at h ⊢
  split
  · exact (close_closes _).1
  · rename_i heq
    rw [heq] at h
    cases h

/-- DialToSMTPClientWithContext: for EVERY configuration (TLS policy, auth type, credentials) and EVERY
    server script, whenever the dial returns an error the connection is closed. -/
theorem dial_error_closed (cfg : DialCfg) (script : List Act) (caps : List Bytes) (e : Err)
    (h : (dial cfg script caps).2 = some e) : (dial cfg script caps).1.cliOpen = false := by
  unfold dial at h ⊢
  rcases hn : newClient cfg script caps with ⟨c0, e0⟩
  (try rw [hn] at h); (try rw [hn])
  cases e0 with
  | some e' =>
    have := newClient_error_closed cfg script caps e' (by rw [hn])
    rw [hn] at this
    exact this
  | none =>
    simp only [] at h ⊢
    rcases hh : Conn.Hello { c0 with debug := cfg.debug, logAuthData := cfg.logAuthData } cfg.helo with ⟨c1, e1⟩
    (try rw [hh] at h); (try rw [hh])
    cases e1 with
    | some _ => exact (close_closes _).1
    | none =>
      simp only [] at h ⊢
      rcases ht : clientTLS cfg c1 cfg.implicitTLS with ⟨c2, enc, e2⟩
      (try rw [ht] at h); (try rw [ht])
      cases e2 with
      | some _ => exact (close_closes _).1
      | none =>
        simp only [] at h ⊢
        rcases ha : clientAuth cfg c2 enc with ⟨c3, e3⟩
        (try rw [ha] at h); (try rw [ha])
        cases e3 with
        | some _ => exact (close_closes _).1
        | none => simp at h

/-- CloseWithSMTPClient on a connection it considers open: whatever the server answers to QUIT
    (221, anything else, garbage, nothing), the connection is closed afterwards. -/
theorem closeWith_closes (c : Conn) (h : c.isConnected = true) : (closeWith c).1.cliOpen = false := by
  unfold closeWith
  simp only [h, Bool.not_true, Bool.false_eq_true, if_false]
  split
  · exact (close_closes _).1
  · rename_i c' heq
    -- QUIT acknowledged with 221: Conn.quit closed it itself
    unfold Conn.quit at heq
    simp only [] at heq
    split at heq
    · cases heq
    · cases heq
      exact (close_closes _).1

theorem closeWith_closed_of_good (c : Conn) (h : Good c) : (closeWith c).1.cliOpen = false := by
  cases hc : c.isConnected with
  | true => exact closeWith_closes c hc
  | false =>
    unfold closeWith
    simp only [hc, Bool.not_false, if_true]
    exact h.2.2 hc

/-- DialAndSend, every configuration, every batch, every server script: when the call returns —
    with or without error — the connection is closed. -/
theorem dialAndSend_always_closed (cfg : DialCfg) (script : List Act) (caps : List Bytes) (ms : List MsgIn) :
    (dialAndSend cfg script caps ms).conn.cliOpen = false := by
  unfold dialAndSend
  have h0 := good_dial cfg script caps
  rcases hd : dial cfg script caps with ⟨c0, e0⟩
  cases e0 with
  | some e =>
    have := dial_error_closed cfg script caps e (by rw [hd])
    rw [hd] at this
    exact this
  | none =>
    rw [hd] at h0
    simp only []
    have h1 := good_sendBatch cfg.send c0 ms h0
    rcases hs : sendBatch cfg.send c0 ms with ⟨c1, outs, ce⟩
    rw [hs] at h1
    cases outs with
    | none => exact closeWith_closed_of_good c1 h1
    | some outs =>
      simp only []
      split
      · exact closeWith_closed_of_good c1 h1
      · exact closeWith_closed_of_good _ (good_closeWith c1 h1)

/-- A successful DialAndSend ended with QUIT acknowledged by 221 (otherwise `closeErr` is set). -/
theorem success_means_quit_acknowledged (c : Conn) (h : c.isConnected = true) (hq : (closeWith c).2 = none) :
    ∃ c', c.updateDeadline.1.quit = (c', none) := by
  unfold closeWith at hq
  simp only [h, Bool.not_true, Bool.false_eq_true, if_false] at hq
  rcases hr : c.updateDeadline.1.quit with ⟨c2, e⟩
  rw [hr] at hq
  cases e with
  | some e => simp at hq
  | none => exact ⟨c2, rfl⟩

/-- non-vacuity: QUIT answered with 451 -/
example : (dialAndSend {} [.ok, .ok, .ok, .reply 451 (sb "not now")] [] []).conn.cliOpen = false := by decide

end GoMail.Props.C19
