import GoMailModel.Smtp.Send
/-
  C05 — Envelope addresses and command lines cannot be smuggled.
-/
namespace GoMail.Props.C05
open GoMail GoMail.Smtp

/-- RFC 5321 Quoted-string reader for a local part: `"` then qtextSMTP or quoted-pairSMTP, then `"`.
    Written from the grammar (§4.1.2), not from the writer. Returns the denoted local part and the rest. -/
def readQuotedBody : Bytes → Option (Bytes × Bytes)
  | [] => none                                   -- unterminated
  | 34 :: rest => some ([], rest)                -- closing quote
  | 92 :: c :: rest =>                           -- quoted-pair
    (readQuotedBody rest).map (fun (l, r) => (c :: l, r))
  | [92] => none
  | c :: rest => (readQuotedBody rest).map (fun (l, r) => (c :: l, r))

def readQuoted : Bytes → Option (Bytes × Bytes)
  | 34 :: rest => readQuotedBody rest
  | _ => none

theorem rqb_lit (b : UInt8) (rest : Bytes) (h1 : b ≠ 34) (h2 : b ≠ 92) :
    readQuotedBody (b :: rest) = (readQuotedBody rest).map (fun (l, r) => (b :: l, r)) := by
  rw [readQuotedBody.eq_def]
  split <;> simp_all

theorem readQuotedBody_quote (l rest : Bytes) :
    readQuotedBody ((l.map (fun b => if b == 92 || b == 34 then [92, b] else [b])).flatten ++ 34 :: rest) = some (l, rest) := by
  induction l with
  | nil => simp [readQuotedBody]
  | cons b bs ih =>
    simp only [List.map_cons, List.flatten_cons, List.append_assoc]
    by_cases h : (b == 92 || b == 34) = true
    · simp only [h, if_true, List.cons_append, List.nil_append]
      rw [readQuotedBody, ih]; rfl
    · simp only [h, if_false, List.cons_append, List.nil_append, Bool.false_eq_true]
      have h1 : b ≠ 34 := by intro hc; simp [hc] at h
      have h2 : b ≠ 92 := by intro hc; simp [hc] at h
      rw [rqb_lit b _ h1 h2, ih]; rfl

/-- Quoting round trip: whatever the local part is, a strict RFC 5321 reader applied to the quoted
    form written by envelopeAddress reads back exactly that local part, and stops right after it
    (so `@domain>` follows: no extra argument, no extra parameter can be introduced). -/
theorem quoted_local_reads_back (l rest : Bytes) : readQuoted (quoteLocal l ++ rest) = some (l, rest) := by
  unfold quoteLocal readQuoted
  simp only [List.cons_append, List.nil_append, List.append_assoc]
  exact readQuotedBody_quote l rest

/-- What envelopeAddress does, by cases: the address is left alone when it has no '@' or its local
    part (everything before the LAST '@') is a Dot-string; otherwise exactly the local part is quoted. -/
theorem envelope_cases (addr : Bytes) :
    (envelopeAddress addr = addr ∧ (lastIndexAt addr = none ∨ ∃ k, lastIndexAt addr = some k ∧ isDotString (addr.take k) = true)) ∨
    (∃ k, lastIndexAt addr = some k ∧ isDotString (addr.take k) = false ∧
      envelopeAddress addr = quoteLocal (addr.take k) ++ addr.drop k) := by
  unfold envelopeAddress
  cases h : lastIndexAt addr with
  | none => exact Or.inl ⟨rfl, Or.inl rfl⟩
  | some k =>
    simp only []
    cases hd : isDotString (addr.take k) with
    | true => exact Or.inl ⟨by simp, Or.inr ⟨k, rfl, hd⟩⟩
    | false => exact Or.inr ⟨k, rfl, hd, by simp⟩

theorem dotStringAux_bytes (prev : UInt8) (l : Bytes) (h : dotStringAux prev l = true) :
    ∀ b ∈ l, isAtext b = true ∨ b = 46 := by
  induction l generalizing prev with
  | nil => intro b hb; cases hb
  | cons c cs ih =>
    intro b hb
    unfold dotStringAux at h
    by_cases hc : isAtext c = true
    · simp only [hc, if_true] at h
      rcases List.mem_cons.mp hb with rfl | hb
      · exact Or.inl hc
      · exact ih c h b hb
    · simp only [hc, if_false, Bool.false_eq_true] at h
      split at h
      · rename_i hdot
        rcases List.mem_cons.mp hb with rfl | hb
        · right; simp at hdot; exact hdot.1.1
        · exact ih c h b hb
      · cases h

/-- A local part that is sent unquoted consists of atext characters and single inner dots only: none
    of space, '<', '>', '@', ',', ';', ':', '\\', '"' or a control character can occur in it. -/
theorem unquoted_local_is_harmless (l : Bytes) (h : isDotString l = true) :
    ∀ b ∈ l, b ≠ 32 ∧ b ≠ 60 ∧ b ≠ 62 ∧ b ≠ 64 ∧ b ≠ 44 ∧ b ≠ 59 ∧ b ≠ 58 ∧ b ≠ 92 ∧ b ≠ 34 ∧ 32 < b ∧ b ≠ 127 := by
  have key : ∀ b : UInt8, (isAtext b = true ∨ b = 46) →
      b ≠ 32 ∧ b ≠ 60 ∧ b ≠ 62 ∧ b ≠ 64 ∧ b ≠ 44 ∧ b ≠ 59 ∧ b ≠ 58 ∧ b ≠ 92 ∧ b ≠ 34 ∧ 32 < b ∧ b ≠ 127 := by
    apply forall_uint8; decide +kernel
  intro b hb
  apply key
  cases l with
  | nil => cases hb
  | cons c cs =>
    unfold isDotString at h
    simp only [Bool.and_eq_true] at h
    rcases List.mem_cons.mp hb with rfl | hb
    · exact Or.inl h.1
    · exact dotStringAux_bytes c cs h.2 b hb

theorem not_ctl : ∀ x : UInt8, ¬ (x < 32 || x == 127) = true → 32 ≤ x ∧ x ≠ 127 := by
  apply forall_uint8; decide +kernel

/-- validateLine: an argument that passes contains no CR, LF or other control character -/
theorem validated_has_no_control (b : Bytes) (h : containsCRLF b = false) : ∀ x ∈ b, 32 ≤ x ∧ x ≠ 127 := by
  intro x hx
  unfold containsCRLF at h
  exact not_ctl x ((List.any_eq_false.mp h) x hx)

/-- non-vacuity: the smuggling attempt of the property text -/
example : envelopeAddress (sb "a b>c@example.com") = sb "\"a b>c\"@example.com" := by decide

end GoMail.Props.C05
