import GoMailModel.Proofs.Plan
/-
  C12 — Render failures are reported: never a panic, never silent success.
  The model is total (no partial function, no `panic` branch): what Go could dereference after a
  failed CreatePart is behind the same guard as in msgwriter.go and the interpreter skips it.
-/
namespace GoMail.Props.C12
open GoMail GoMail.Mime

/-- the rendering of an unsigned message on a destination that never fails -/
def rendering (s : MsgState) (e : Entropy) : Bytes := planBytes (writeMsg s e false false).1.acts

/-- Byte accounting, for EVERY plan and EVERY destination limit (also failing producers, invalid
    boundaries, re-renders): the count WriteTo returns is the number of bytes the destination accepted. -/
theorem count_is_accepted (plan : List WAct) (limit : Option Nat) :
    (exec plan { sink := { limit := limit } }).n = (exec plan { sink := { limit := limit } }).sink.acc.length :=
  exec_counted plan _ rfl

/-- Generic plan theorem: the destination accepts `k` bytes and then fails (short write at the
    boundary); if the plan has more than `k` bytes and no other error source, the error is set, the
    count is exactly `k` and exactly the first `k` bytes were delivered. -/
theorem plan_sink_failure (plan : List WAct) (k : Nat) (hs : ∀ a ∈ plan, SinkOnly a)
    (hk : k < (planBytes plan).length) :
    let m := exec plan { sink := { limit := some k } }
    m.err = true ∧ m.n = k ∧ m.sink.acc = (planBytes plan).take k := by
  intro m
  have h0 : FailInv ({ sink := { limit := some k } } : MW) k [] :=
    ⟨⟨rfl, Nat.zero_le _⟩, rfl, fun _ => rfl, fun h => by cases h⟩
  have h := exec_failinv plan _ k [] hs h0
  simp only [List.nil_append] at h
  have hc : Counted m := exec_counted plan _ rfl
  have herr : m.err = true := by
    cases he : m.err with
    | true => rfl
    | false =>
      have := h.noerr_all he
      have hw := h.within.2
      rw [this] at hw
      omega
  obtain ⟨hlen, _⟩ := h.err_full herr
  refine ⟨herr, ?_, ?_⟩
  · rw [hc]; exact hlen
  · have := h.acc_prefix; rw [hlen] at this; exact this

/-- C12 for messages, every offset: an unsigned message whose producers do not fail and whose
    boundaries are valid, rendered to a destination failing at ANY offset k below the output length. -/
theorem sink_failure_reported (s : MsgState) (e : Entropy) (k : Nat)
    (hp : NoFailingProducers s) (hb : GoodBoundaries s) (hk : k < (rendering s e).length) :
    let m := exec (writeMsg s e false false).1.acts { sink := { limit := some k } }
    m.err = true ∧ m.n = k ∧ m.sink.acc = (rendering s e).take k :=
  plan_sink_failure _ k (writeMsg_ok s e hp hb) hk

/-- ... and on a destination that never fails: no error, the count is the length of the output. -/
theorem success_count (s : MsgState) (e : Entropy) (hp : NoFailingProducers s) (hb : GoodBoundaries s) :
    let m := exec (writeMsg s e false false).1.acts {}
    m.err = false ∧ m.sink.acc = rendering s e ∧ m.n = (rendering s e).length := by
  intro m
  have := exec_unlimited (writeMsg s e false false).1.acts {}
    (fun a ha => sinkOnly_noFault a (writeMsg_ok s e hp hb a ha)) rfl rfl
  simpa [rendering] using this

/-- A failing producer is reported (first render: no `mw.err = SetBoundary(..)` assignment can clear it).
    Partial: re-renders with cached boundaries are covered by the correspondence run only. -/
theorem producer_failure_reported_partial (plan : List WAct) (limit : Option Nat)
    (hnoclear : ∀ a ∈ plan, ∀ b, a ≠ .w (some false) b)
    (hfail : ∃ d b, WAct.body d b true ∈ plan) :
    (exec plan { sink := { limit := limit } }).err = true := by
  -- the error never goes back to false without a clearing action, and a failing producer sets it
  have mono : ∀ (m : MW) (a : WAct), (∀ b, a ≠ .w (some false) b) → m.err = true → (step m a).err = true := by
    intro m a hna he
    cases a with
    | w pre b =>
      cases pre with
      | none => simp [step, MW.guarded, he]
      | some v =>
        cases v with
        | false => exact absurd rfl (hna b)
        | true => simp [step, MW.guarded, MW.setErr]
    | body d b pf => simp [step, he]
  have sets : ∀ (m : MW) d b, (step m (.body d b true)).err = true := by
    intro m d b
    cases he : m.err with
    | true => simp [step, he]
    | false => cases d <;> simp [step, he, MW.setErr, MW.guarded, MW.put]
  obtain ⟨d, b, hmem⟩ := hfail
  have gen : ∀ (plan : List WAct) (m : MW), (∀ a ∈ plan, ∀ b, a ≠ .w (some false) b) →
      (m.err = true ∨ WAct.body d b true ∈ plan) → (exec plan m).err = true := by
    intro plan
    induction plan with
    | nil => intro m _ h; rcases h with h | h; exact h; cases h
    | cons a as ih =>
      intro m hn h
      unfold exec; simp only [List.foldl_cons]
      apply ih (step m a) (fun x hx => hn x (by simp [hx]))
      rcases h with h | h
      · exact Or.inl (mono m a (hn a (by simp)) h)
      · rcases List.mem_cons.mp h with h | h
        · subst h; exact Or.inl (sets m d b)
        · exact Or.inr h
  exact gen plan _ hnoclear (Or.inr hmem)

/-- non-vacuity: a two-part message satisfies the hypotheses and has output to cut -/
example : NoFailingProducers ({ parts := [{ ctype := sb "text/plain", charset := [], desc := [], enc := encQP, prod := { content := sb "hi" } }] } : MsgState) ∧
    GoodBoundaries ({} : MsgState) := by
  refine ⟨⟨?_, ?_, ?_⟩, ?_⟩ <;> simp [GoodBoundaries, GoodGiven]

end GoMail.Props.C12
