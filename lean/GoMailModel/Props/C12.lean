import GoMailModel.Proofs.Plan
import GoMailModel.Proofs.PlanOrder
import GoMailModel.Generated.Narrow
/-
  C12 — Render failures are reported: never a panic, never silent success.
  The model is total (no partial function, no `panic` branch): what Go could dereference after a
  failed CreatePart is behind the same guard as in msgwriter.go and the interpreter skips it.
-/
namespace GoMail.Props.C12
open GoMail GoMail.Mime

/-- the rendering of an unsigned message on a destination that never fails -/
def rendering (s : MsgState) (e : Entropy) : Bytes := planBytes (writeMsg s e false false).1.acts

/-- Byte accounting, for EVERY plan and EVERY destination limit (also failing producers, invalid
    boundaries, re-renders): the count WriteTo returns is the number of bytes the destination accepted. -/
theorem count_is_accepted (plan : List WAct) (limit : Option Nat) :
    (exec plan { sink := { limit := limit } }).n = (exec plan { sink := { limit := limit } }).sink.acc.length :=
  exec_counted plan _ rfl

/-- Generic plan theorem: the destination accepts `k` bytes and then fails (short write at the
    boundary); if the plan has more than `k` bytes and no other error source, the error is set, the
    count is exactly `k` and exactly the first `k` bytes were delivered. -/
theorem plan_sink_failure (plan : List WAct) (k : Nat) (hs : ∀ a ∈ plan, SinkOnly a)
    (hk : k < (planBytes plan).length) :
    let m := exec plan { sink := { limit := some k } }
    m.err = true ∧ m.n = k ∧ m.sink.acc = (planBytes plan).take k := by
  intro m
  have h0 : FailInv ({ sink := { limit := some k } } : MW) k [] :=
    ⟨⟨rfl, Nat.zero_le _⟩, rfl, fun _ => rfl, fun h => by cases h⟩
  have h := exec_failinv plan _ k [] hs h0
  simp only [List.nil_append] at h
  have hc : Counted m := exec_counted plan _ rfl
  have herr : m.err = true := by
    cases he : m.err with
    | true => rfl
    | false =>
      have := h.noerr_all he
      have hw := h.within.2
      rw [this] at hw
      omega
  obtain ⟨hlen, _⟩ := h.err_full herr
  refine ⟨herr, ?_, ?_⟩
  · rw [hc]; exact hlen
  · have := h.acc_prefix; rw [hlen] at this; exact this

/-- C12 for messages, every offset: an unsigned message whose producers do not fail and whose
    boundaries are valid, rendered to a destination failing at ANY offset k below the output length. -/
theorem sink_failure_reported (s : MsgState) (e : Entropy) (k : Nat)
    (hp : NoFailingProducers s) (hb : GoodBoundaries s) (hk : k < (rendering s e).length) :
    let m := exec (writeMsg s e false false).1.acts { sink := { limit := some k } }
    m.err = true ∧ m.n = k ∧ m.sink.acc = (rendering s e).take k :=
  plan_sink_failure _ k (writeMsg_ok s e hp hb) hk

/-- ... and on a destination that never fails: no error, the count is the length of the output. -/
theorem success_count (s : MsgState) (e : Entropy) (hp : NoFailingProducers s) (hb : GoodBoundaries s) :
    let m := exec (writeMsg s e false false).1.acts {}
    m.err = false ∧ m.sink.acc = rendering s e ∧ m.n = (rendering s e).length := by
  intro m
  have := exec_unlimited (writeMsg s e false false).1.acts {}
    (fun a ha => sinkOnly_noFault a (writeMsg_ok s e hp hb a ha)) rfl rfl
  simpa [rendering] using this

/-- A failing producer is reported, for every plan in which no `mw.err = SetBoundary(..)` assignment
    follows (the only action that can take an error back). -/
theorem producer_failure_reported_plan (plan : List WAct) (limit : Option Nat)
    (hnoclear : ∀ a ∈ plan, ∀ b, a ≠ .w (some false) b)
    (hfail : ∃ d b, WAct.body d b true ∈ plan) :
    (exec plan { sink := { limit := limit } }).err = true :=
  exec_err_of_fail plan _ hnoclear (Or.inr hfail)

/-- **A producer fails at any point -> WriteTo returns a non-nil error.** For EVERY message state
    (any number of parts and files, any boundaries - caller-chosen, cached from an earlier render,
    valid or not -, with or without the S/MIME wrapper, first render or a later one), every entropy
    and every destination (healthy, or failing at any offset): if the producer of a rendered body
    part, of an embed or of an attachment fails - before or after it emitted data - the error of the
    render is set when it ends. The reason is structural: every multipart is opened before the first
    producer runs (`stageContent_ext`), so nothing after a producer can clear the error. -/
theorem producer_failure_reported (s : MsgState) (e : Entropy) (outer signing : Bool) (limit : Option Nat)
    (hfail : (∃ x ∈ s.parts.filter (fun x => !x.deleted && !x.smime), x.prod.fails = true) ∨
      (∃ f ∈ s.embeds, f.prod.fails = true) ∨ (∃ f ∈ s.attachments, f.prod.fails = true)) :
    (exec (writeMsg s e outer signing).1.acts { sink := { limit := limit } }).err = true :=
  writeMsg_reports_producer_failure s e outer signing _ hfail

/-- ... in terms of Msg.WriteTo on an unsigned message: the error flag of the result is set -/
theorem writeTo_reports_producer_failure (s : MsgState) (e : Entropy) (limit : Option Nat) (hs : s.smime = false)
    (hfail : (∃ x ∈ s.parts.filter (fun x => !x.deleted && !x.smime), x.prod.fails = true) ∨
      (∃ f ∈ s.embeds, f.prod.fails = true) ∨ (∃ f ∈ s.attachments, f.prod.fails = true)) :
    ∃ acc n st, writeTo s e limit = some (acc, n, true, st) := by
  have h := producer_failure_reported s e false false limit hfail
  unfold writeTo renderPlan
  simp only [hs, Bool.false_eq_true, if_false]
  exact ⟨_, _, _, by rw [h]⟩

/-- non-vacuity: a message whose second part fails after emitting data -/
example : ∃ acc n st, writeTo ({ parts := [
      { ctype := sb "text/plain", charset := [], desc := [], enc := encQP, prod := { content := sb "hi" } },
      { ctype := sb "text/html", charset := [], desc := [], enc := encB64, prod := { content := sb "<b>partial", fails := true } }] } : MsgState)
    { date := sb "d", msgid := sb "m", bMixed := sb "M", bRelated := sb "R", bAlt := sb "A", bSigned := sb "S", signature := [] } (some 100) =
    some (acc, n, true, st) :=
  writeTo_reports_producer_failure _ _ _ rfl (Or.inl ⟨{ ctype := sb "text/html", charset := [], desc := [], enc := encB64, prod := { content := sb "<b>partial", fails := true } }, by simp, rfl⟩)

/-- non-vacuity: a two-part message satisfies the hypotheses and has output to cut -/
example : NoFailingProducers ({ parts := [{ ctype := sb "text/plain", charset := [], desc := [], enc := encQP, prod := { content := sb "hi" } }] } : MsgState) ∧
    GoodBoundaries ({} : MsgState) := by
  refine ⟨⟨?_, ?_, ?_⟩, ?_⟩ <;> simp [GoodBoundaries, GoodGiven]


/-- Fact regenerated from the sources: the only integers narrower than `int` in the library are the nesting
    depth of the multipart writer (at most four layers) and the step counter of LOGIN (at most two steps). No
    count of parts, recipients, refusals, header fields, parameters or bytes is kept in a type that wraps at 128,
    256 or 65536 - the theorems of this file quantify over all sizes, and this is the part of the tie that says the
    code does not silently stop doing so. -/
theorem no_narrow_counters :
    Generated.narrowInts = ["msgwriter.go: int8", "smtp/auth_login.go: uint8"] := by decide

end GoMail.Props.C12
