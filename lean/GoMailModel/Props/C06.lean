import GoMailModel.Mime.Exec
/-
  C06 — Recipients are exactly To+Cc+Bcc, and Bcc stays hidden.
-/
namespace GoMail.Props.C06
open GoMail GoMail.Mime

/-- Envelope recipients: the addresses of To, then Cc, then Bcc, one entry per occurrence. -/
theorem recipients_are_to_cc_bcc (s : MsgState) :
    getRecipients s =
      ((addrGet s .to).getD []).map (·.bare) ++ ((addrGet s .cc).getD []).map (·.bare) ++
      ((addrGet s .bcc).getD []).map (·.bare) := by
  simp [getRecipients]

/-- Envelope sender: the envelope-from address when one is set, the From address otherwise. -/
theorem sender_is_envfrom_else_from (s : MsgState) :
    getSender s = match addrGet s .envFrom with
      | some (a :: _) => some a.bare
      | _ => match addrGet s .from_ with
        | some (a :: _) => some a.bare
        | _ => none := rfl

/-- the header defaults a render adds do not look at the Bcc slot and do not change it -/
theorem defaultHeaders_bcc (s : MsgState) (b : Option (List Addr)) (e : Entropy) :
    defaultHeaders { s with aBcc := b } e = { defaultHeaders s e with aBcc := b } := by
  rfl

/-- Non-interference: whatever the Bcc slot holds, the write plan — hence every rendered byte, on any
    destination, at any later render — is the same. Bcc addresses cannot appear in the output. -/
theorem bcc_never_rendered (s : MsgState) (b1 b2 : Option (List Addr)) (e : Entropy) (outer signing : Bool) :
    (writeMsg { s with aBcc := b1 } e outer signing).1.acts = (writeMsg { s with aBcc := b2 } e outer signing).1.acts := by
  unfold writeMsg
  simp only [defaultHeaders_bcc]
  rfl

/-- ... in particular for the setter: Bcc(...) does not change what is rendered -/
theorem set_bcc_invisible (s : MsgState) (bcc : List Addr) (e : Entropy) :
    (writeMsg (addrSet s .bcc bcc) e false false).1.acts = (writeMsg s e false false).1.acts := by
  have := bcc_never_rendered s (some bcc) s.aBcc e false false
  simpa [addrSet] using this

/-- non-vacuity -/
example : getRecipients ({ aTo := some [⟨sb "<a@b>", sb "a@b"⟩], aBcc := some [⟨sb "<x@y>", sb "x@y"⟩] } : MsgState) = [sb "a@b", sb "x@y"] := by
  decide

end GoMail.Props.C06
