import GoMailModel.Mime.Exec
import GoMailModel.Proofs.Wire
/-
  C06 — Recipients are exactly To+Cc+Bcc, and Bcc stays hidden.
-/
namespace GoMail.Props.C06
open GoMail GoMail.Mime

/-- Envelope recipients: the addresses of To, then Cc, then Bcc, one entry per occurrence. -/
theorem recipients_are_to_cc_bcc (s : MsgState) :
    getRecipients s =
      ((addrGet s .to).getD []).map (·.bare) ++ ((addrGet s .cc).getD []).map (·.bare) ++
      ((addrGet s .bcc).getD []).map (·.bare) := by
  simp [getRecipients]

/-- Envelope sender: the envelope-from address when one is set, the From address otherwise. -/
theorem sender_is_envfrom_else_from (s : MsgState) :
    getSender s = match addrGet s .envFrom with
      | some (a :: _) => some a.bare
      | _ => match addrGet s .from_ with
        | some (a :: _) => some a.bare
        | _ => none := rfl

/-- the header defaults a render adds do not look at the Bcc slot and do not change it -/
theorem defaultHeaders_bcc (s : MsgState) (b : Option (List Addr)) (e : Entropy) :
    defaultHeaders { s with aBcc := b } e = { defaultHeaders s e with aBcc := b } := by
  rfl

/-- Non-interference: whatever the Bcc slot holds, the write plan — hence every rendered byte, on any
    destination, at any later render — is the same. Bcc addresses cannot appear in the output. -/
theorem bcc_never_rendered (s : MsgState) (b1 b2 : Option (List Addr)) (e : Entropy) (outer signing : Bool) :
    (writeMsg { s with aBcc := b1 } e outer signing).1.acts = (writeMsg { s with aBcc := b2 } e outer signing).1.acts := by
  unfold writeMsg
  simp only [defaultHeaders_bcc]
  rfl

/-- ... in particular for the setter: Bcc(...) does not change what is rendered -/
theorem set_bcc_invisible (s : MsgState) (bcc : List Addr) (e : Entropy) :
    (writeMsg (addrSet s .bcc bcc) e false false).1.acts = (writeMsg s e false false).1.acts := by
  have := bcc_never_rendered s (some bcc) s.aBcc e false false
  simpa [addrSet] using this

/-- non-vacuity -/
example : getRecipients ({ aTo := some [⟨sb "<a@b>", sb "a@b"⟩], aBcc := some [⟨sb "<x@y>", sb "x@y"⟩] } : MsgState) = [sb "a@b", sb "x@y"] := by
  decide

open GoMail.Smtp in
/-- **One RCPT per occurrence, on the wire.** The RCPT loop of Client.sendSingleMsg over any recipient
    list (the harness hands it `GetRecipients`, which `recipients_are_to_cc_bcc` ties to To, Cc, Bcc):
    if the connection is still live when the loop ends, the server has received - in addition to what it
    had received before - exactly one `RCPT TO:<address>` line per entry of the list, in the order of the
    list, every one with the NOTIFY parameter in force when the loop began; an address that occurs twice
    gets two lines, whatever the server answered to the first. Addresses with control characters are
    refused locally by smtp.Client.Rcpt (C05) and are excluded by hypothesis. -/
theorem one_rcpt_per_occurrence (esc : Bool) (c : Conn) (rs : List Bytes) (se : SendErr) (bad : Bool)
    (hend : live (rcptLoop esc c rs se bad).1)
    (hok : ∀ r ∈ rs, containsCRLF (envelopeAddress r) = false) :
    rcptsOf (rcptLoop esc c rs se bad).1.trace =
      rcptsOf c.trace ++ rs.map (fun r => c.rcptLine (envelopeAddress r)) := by
  have h := rcptLoop_wire esc c rs se bad hend
  have hs : sendable rs = rs := by
    unfold sendable
    apply List.filter_eq_self.2
    intro r hr
    simp [hok r hr]
  rw [hs] at h
  exact h

open GoMail.Smtp in
/-- ... and in general (control characters allowed): one line per sendable entry, nothing else. -/
theorem rcpt_lines_are_the_sendable_recipients (esc : Bool) (c : Conn) (rs : List Bytes) (se : SendErr) (bad : Bool)
    (hend : live (rcptLoop esc c rs se bad).1) :
    rcptsOf (rcptLoop esc c rs se bad).1.trace =
      rcptsOf c.trace ++ (sendable rs).map (fun r => c.rcptLine (envelopeAddress r)) :=
  rcptLoop_wire esc c rs se bad hend

open GoMail.Smtp in
/-- non-vacuity: bob is in To and in Bcc, the client asks for NOTIFY=SUCCESS, the server offers DSN, refuses
    carol and accepts the rest: four lines, bob twice, the connection live at the end -/
example :
    let c : Conn := { script := [.ok, .reply 550 (sb "no"), .ok, .ok], ext := some [(sb "DSN", [])], dsnrntype := sb "SUCCESS" }
    let out := rcptLoop false c [sb "bob@x.y", sb "carol@x.y", sb "dave@x.y", sb "bob@x.y"] { reason := .getSender } false
    rcptsOf out.1.trace = [sb "RCPT TO:<bob@x.y> NOTIFY=SUCCESS", sb "RCPT TO:<carol@x.y> NOTIFY=SUCCESS",
      sb "RCPT TO:<dave@x.y> NOTIFY=SUCCESS", sb "RCPT TO:<bob@x.y> NOTIFY=SUCCESS"] ∧
    out.1.cliOpen = true ∧ out.1.srvGone = false ∧ out.1.srvSilent = false ∧ out.2.2 = true := by
  decide

end GoMail.Props.C06
