import GoMailModel.Mime.Exec
/-
  C08 — S/MIME signatures verify for every message shape (PARTIAL: the cryptography is trusted).
  The logical core is that the octets handed to the signer are the first body part exactly as it is
  emitted later, one level deeper, inside multipart/signed. Proved here: the local facts this rests
  on — a body part / file rendered at the top level by the signing pre-render is byte-identical to
  the same part created by multipart.CreatePart, minus the delimiter line; a cached boundary is
  reused. The global statement is checked on every generated shape by the run (model's signed octets
  vs. the SHA-256 in the signature; independent CMS verification).
-/
namespace GoMail.Props.C08
open GoMail GoMail.Mime

/-- bytes appended to the plan by an operation -/
def added (p p' : PW) : Bytes := planBytes (p'.acts.drop p.acts.length)

theorem planBytes_append (a b : List WAct) : planBytes (a ++ b) = planBytes a ++ planBytes b := by
  simp [planBytes]

/-- msgWriter.writePartHeader in the signing pre-render writes exactly the line CreatePart writes. -/
theorem raw_part_header_line (p : PW) (key v : Bytes) (h : p.rawPartHeaders = true) :
    (p.partHeader key [v]).acts = p.acts ++ [.w none (key ++ [58, 32] ++ v ++ crlf)] := by
  simp [PW.partHeader, h, PW.str]

/-- A body part written by the signing pre-render at the top level and the same part created inside
    a multipart by CreatePart differ exactly by the delimiter line: same header lines (same order,
    unfolded), same blank line, same encoded body. -/
theorem part_toplevel_equals_nested (s : MsgState) (part : Part) (p0 p1 : PW) (b : Bytes) (last : Bool)
    (rest : List (Bytes × Bool))
    (h0 : p0.stack = []) (hr : p0.rawPartHeaders = true) (h1 : p1.stack = (b, last) :: rest) :
    planBytes ((p1.writePart s part).acts.drop p1.acts.length) =
      ((if last then crlf else []) ++ [45, 45] ++ b ++ crlf) ++
      planBytes ((p0.writePart s part).acts.drop p0.acts.length) := by
  have d0 : p0.depth = 0 := by simp [PW.depth, h0]
  have d1 : p1.depth ≠ 0 := by simp [PW.depth, h1]
  by_cases hd : part.desc.isEmpty = true
  · simp [PW.writePart, d0, d1, hd, PW.partHeader, hr, PW.str, PW.newPart, h1, PW.body, planBytes,
      WAct.bytes, hCTE, hContentType, List.append_assoc, PW.depth, h0]
  · simp [PW.writePart, d0, d1, hd, PW.partHeader, hr, PW.str, PW.newPart, h1, PW.body, planBytes,
      WAct.bytes, hCTE, hContentType, hContentDesc, List.append_assoc, PW.depth, h0]

/-- A boundary that is cached (valid) is the boundary in effect: the final render of a signed message
    uses the inner boundaries of the pre-render, whatever the random source yields the second time. -/
theorem cached_boundary_reused (p : PW) (mt given fresh1 fresh2 : Bytes) (hv : validBoundary given = true) :
    (p.startMP mt given fresh1).2 = given ∧ (p.startMP mt given fresh2).2 = given := by
  have hne : given.isEmpty = false := by
    cases given with
    | nil => simp [validBoundary] at hv
    | cons a as => rfl
  simp [PW.startMP, hv, hne]

/-- the signature part is a base64 body of the signer's output, typed application/pkcs7-signature -/
theorem signature_part_shape : typeSMIMESigned = sb "application/pkcs7-signature; name=\"smime.p7s\"" ∧
    mimeSigned = sb "signed; protocol=\"application/pkcs7-signature\"; micalg=sha-256" := ⟨rfl, rfl⟩

end GoMail.Props.C08
