import GoMailModel.Mime.Exec
import GoMailModel.Proofs.Tree
/-
  C08 — S/MIME signatures verify for every message shape (PARTIAL: the cryptography is trusted).
  The logical core is that the octets handed to the signer are the first body part exactly as it is
  emitted later, one level deeper, inside multipart/signed. Proved here: the local facts this rests
  on — a body part / file rendered at the top level by the signing pre-render is byte-identical to
  the same part created by multipart.CreatePart, minus the delimiter line; a cached boundary is
  reused. The global statement is checked on every generated shape by the run (model's signed octets
  vs. the SHA-256 in the signature; independent CMS verification).
-/
namespace GoMail.Props.C08
open GoMail GoMail.Mime

/-- bytes appended to the plan by an operation -/
def added (p p' : PW) : Bytes := planBytes (p'.acts.drop p.acts.length)

theorem planBytes_append (a b : List WAct) : planBytes (a ++ b) = planBytes a ++ planBytes b := by
  simp [planBytes]

/-- msgWriter.writePartHeader in the signing pre-render writes exactly the line CreatePart writes. -/
theorem raw_part_header_line (p : PW) (key v : Bytes) (h : p.rawPartHeaders = true) :
    (p.partHeader key [v]).acts = p.acts ++ [.w none (key ++ [58, 32] ++ v ++ crlf)] := by
  simp [PW.partHeader, h, PW.str]

/-- A body part written by the signing pre-render at the top level and the same part created inside
    a multipart by CreatePart differ exactly by the delimiter line: same header lines (same order,
    unfolded), same blank line, same encoded body. -/
theorem part_toplevel_equals_nested (s : MsgState) (part : Part) (p0 p1 : PW) (b : Bytes) (last : Bool)
    (rest : List (Bytes × Bool))
    (h0 : p0.stack = []) (hr : p0.rawPartHeaders = true) (h1 : p1.stack = (b, last) :: rest) :
    planBytes ((p1.writePart s part).acts.drop p1.acts.length) =
      ((if last then crlf else []) ++ [45, 45] ++ b ++ crlf) ++
      planBytes ((p0.writePart s part).acts.drop p0.acts.length) := by
  have d0 : p0.depth = 0 := by simp [PW.depth, h0]
  have d1 : p1.depth ≠ 0 := by simp [PW.depth, h1]
  by_cases hd : part.desc.isEmpty = true
  · simp [PW.writePart, d0, d1, hd, PW.partHeader, hr, PW.str, PW.newPart, h1, PW.body, planBytes,
      WAct.bytes, hCTE, hContentType, List.append_assoc, PW.depth, h0]
  · simp [PW.writePart, d0, d1, hd, PW.partHeader, hr, PW.str, PW.newPart, h1, PW.body, planBytes,
      WAct.bytes, hCTE, hContentType, hContentDesc, List.append_assoc, PW.depth, h0]

/-- A boundary that is cached (valid) is the boundary in effect: the final render of a signed message
    uses the inner boundaries of the pre-render, whatever the random source yields the second time. -/
theorem cached_boundary_reused (p : PW) (mt given fresh1 fresh2 : Bytes) (hv : validBoundary given = true) :
    (p.startMP mt given fresh1).2 = given ∧ (p.startMP mt given fresh2).2 = given := by
  have hne : given.isEmpty = false := by
    cases given with
    | nil => simp [validBoundary] at hv
    | cons a as => rfl
  simp [PW.startMP, hv, hne]

/-- the signature part is a base64 body of the signer's output, typed application/pkcs7-signature -/
theorem signature_part_shape : typeSMIMESigned = sb "application/pkcs7-signature; name=\"smime.p7s\"" ∧
    mimeSigned = sb "signed; protocol=\"application/pkcs7-signature\"; micalg=sha-256" := ⟨rfl, rfl⟩

/-- **Structure of the signed render.** After the message header, the final render of a signed
    message writes exactly ONE entity: multipart/signed (protocol application/pkcs7-signature,
    micalg sha-256), whose children are the message tree - alternative / related / mixed layers as the
    message needs them, the same `contentTree` the unsigned render writes - followed by the signature
    part, opened and closed with one boundary; for every message shape, header state and entropy. -/
theorem signed_render_is_tree (s : MsgState) (e : Entropy) (p : PW) (embeds attachments : List FileM) (h0 : p.stack = []) :
    (stageContent s true (stageOpen s e true p).1 embeds attachments).out =
      p.out ++ (Ent.multi mimeSigned (p.startMP mimeSigned e.bSigned e.bSigned).2
        (contentTree s (stageOpen s e true p).2.bMixed (stageOpen s e true p).2.bRelated (stageOpen s e true p).2.bAlt embeds attachments ++
          (s.parts.filter (·.smime)).map (leafOfPart s))).ser ∧
    (stageContent s true (stageOpen s e true p).1 embeds attachments).stack = [] :=
  signed_refines s e p embeds attachments h0

/-- The entity that is signed and the first child of multipart/signed are serialisations of the same
    tree: inside an open multipart (here: the S/MIME wrapper) the layer and content stages write
    `serList` of `contentTree`, i.e. behind the first delimiter exactly `Ent.ser` of the tree the
    pre-render wrote at the top level (`C01.render_is_tree`), provided the two renders see the same
    parts, file headers and boundaries (`cached_boundary_reused`, C11). -/
theorem nested_content_is_tree (s : MsgState) (e : Entropy) (p0 : PW) (embeds attachments : List FileM)
    (b0 : Bytes) (l0 : Bool) (rest : List (Bytes × Bool)) (h0 : p0.stack = (b0, l0) :: rest) :
    (stageContent s false (stageOpen s e false p0).1 embeds attachments).out =
      p0.out ++ serList b0 l0 (contentTree s (stageOpen s e false p0).2.bMixed (stageOpen s e false p0).2.bRelated
        (stageOpen s e false p0).2.bAlt embeds attachments) :=
  (nested_refines s e p0 embeds attachments b0 l0 rest h0).1

end GoMail.Props.C08
