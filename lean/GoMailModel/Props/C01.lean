import GoMailModel.Mime.Exec
import GoMailModel.Proofs.Wrap
import GoMailModel.Proofs.QP
import GoMailModel.Proofs.B64RT
import GoMailModel.Proofs.Tree
import GoMailModel.Proofs.ReaderInv
import GoMailModel.Generated.Nesting
import GoMailModel.Generated.Narrow
/-
  C01 — Rendered MIME carries exactly the content the caller supplied.
  Theorems: the nesting decisions as regenerated from msg.go; the transfer encodings and their
  inverses (quoted-printable and base64 decoders written from the RFCs give the content back, for
  every content); the refinement of the imperative multipart writer to the RFC 2046 serialisation of
  the message TREE (`render_is_tree`). What is not proved: that an RFC 2046 *reader* inverts that
  serialisation (it does whenever no delimiter line occurs inside a leaf; the boundaries are random) -
  this last step is carried by the correspondence run with the harness' own MIME reader.
-/
namespace GoMail.Props.C01
open GoMail GoMail.Mime

theorem alpha_not_dash : ∀ c : UInt8, Base64.isAlpha c = true → c ≠ 45 := by
  apply forall_uint8; decide +kernel

/-- The three layer decisions, as regenerated from the Go source, are exactly the rule of the
    property: alternative iff more than one body part; related iff there are embeds and something to
    relate them to; mixed iff there are attachments and something to mix them with. Counts: `np` body
    parts (none deleted, none a signature part), `ne` embeds, `na` attachments. -/
theorem nesting_exact (np ne na : Nat) :
    (Generated.hasAlt 0 np np ne na (decide (np > 0)) = true ↔ np > 1) ∧
    (Generated.hasRelated 0 np np ne na (decide (np > 0)) = true ↔ (ne > 0 ∧ (np > 0 ∨ ne > 1))) ∧
    (Generated.hasMixed 0 np np ne na (decide (np > 0)) = true ↔ (na > 0 ∧ (np > 0 ∨ ne > 0 ∨ na > 1))) := by
  unfold Generated.hasAlt Generated.hasRelated Generated.hasMixed
  simp only [Bool.and_eq_true, Bool.or_eq_true, decide_eq_true_eq, true_and, and_true]
  refine ⟨?_, ?_⟩ <;> constructor <;> intro h <;> omega

/-- The same decisions on a message state built through the builder API (no deleted parts, no
    signature part): they only look at the three counts. -/
theorem nesting_of_state (s : MsgState) (h : ∀ p ∈ s.parts, p.deleted = false ∧ p.smime = false) :
    (hasAlt s = true ↔ s.parts.length > 1) ∧
    (hasRelated s = true ↔ (s.embeds.length > 0 ∧ (s.parts.length > 0 ∨ s.embeds.length > 1))) ∧
    (hasMixed s = true ↔ (s.attachments.length > 0 ∧ (s.parts.length > 0 ∨ s.embeds.length > 0 ∨ s.attachments.length > 1))) := by
  have hc : countBodyParts s = s.parts.length := by
    unfold countBodyParts
    congr 1
    apply List.filter_eq_self.mpr
    intro p hp; simp [(h p hp).1, (h p hp).2]
  have hb : hasBodyParts s = decide (s.parts.length > 0) := by
    unfold hasBodyParts
    cases hps : s.parts with
    | nil => simp
    | cons p ps =>
      have := (h p (by simp [hps])).2
      simp [this]
  unfold hasAlt hasRelated hasMixed
  rw [hc, hb]
  exact nesting_exact s.parts.length s.embeds.length s.attachments.length

/-- base64 bodies: removing the line structure gives back the base64 encoding of the content, and
    the alphabet keeps boundary delimiters (which start with "--") out of every line. -/
theorem b64_body_is_encoding (content : Bytes) :
    ∃ ls : List Bytes, Body.encodeBody .b64 content = (ls.map (· ++ crlf)).flatten ∧
      ls.flatten = Base64.encode content ∧ ∀ l ∈ ls, ∀ c ∈ l, c ≠ 45 := by
  obtain ⟨ls, h1, h2, _⟩ := wrap76_lines (Base64.encode content)
  refine ⟨ls, ?_, h2, ?_⟩
  · show LineBreaker.close (LineBreaker.writeAll [] [] _ [Base64.encode content]) = _
    rw [LineBreaker.writeAll_spec]; simpa using h1
  · intro l hl c hc
    have : Base64.isAlpha c = true := by
      apply Base64.encode_alpha content
      rw [← h2]; exact List.mem_flatten.mpr ⟨l, hl, hc⟩
    exact alpha_not_dash c this

/-- LF -> CRLF canonicalisation of text that has no CR of its own -/
def lfToCRLF (xs : Bytes) : Bytes := (xs.map (fun b => if b == 10 then [13, 10] else [b])).flatten

/-- quoted-printable bodies (and the bodies of parts with an unknown encoding label, which take
    the same writer): an RFC 2045 decoder gives back the content with its line breaks made CRLF,
    for EVERY content. `QP.canon` is the writer's reading of its input: CR, LF and CRLF are each
    one line break. -/
theorem qp_body_roundtrip (content : Bytes) :
    QP.decode (Body.encodeBody .qp content) = QP.canon false content ∧
    QP.decode (Body.encodeBody .other content) = QP.canon false content :=
  ⟨QP.roundtrip content, QP.roundtrip content⟩

/-- ... and for content without CR this is exactly the LF -> CRLF canonicalisation of the property. -/
theorem qp_canon_lf (content : Bytes) (h : ∀ b ∈ content, b ≠ 13) :
    QP.canon false content = lfToCRLF content := by
  induction content with
  | nil => rfl
  | cons b r ih =>
    have hb : b ≠ 13 := h b (by simp)
    have hr := ih (fun x hx => h x (by simp [hx]))
    have hb' : (b == 13) = false := by simp [hb]
    unfold QP.canon lfToCRLF
    simp only [List.map_cons, List.flatten_cons]
    by_cases h10 : b = 10
    · subst h10
      have : QP.emit false 10 = ([13, 10], false) := by decide
      rw [this]; simp only []; rw [hr]; rfl
    · have h10' : (b == 10) = false := by simp [h10]
      have : QP.emit false b = ([b], false) := by
        unfold QP.emit; simp [h10', hb']
      rw [this]; simp only [h10']; rw [hr]; rfl

/-- ... and an RFC 4648 decoder applied to the joined lines gives the content back, for EVERY content. -/
theorem b64_body_roundtrip (content : Bytes) :
    ∃ ls : List Bytes, Body.encodeBody .b64 content = (ls.map (· ++ crlf)).flatten ∧
      Base64.decode ls.flatten = some content := by
  obtain ⟨ls, h1, h2, _⟩ := b64_body_is_encoding content
  exact ⟨ls, h1, by rw [h2]; exact Base64.decode_encode content⟩

/-- **The rendered body is the serialisation of the message tree.** For every message without deleted
    parts that needs a multipart layer (no S/MIME), every header state and every entropy: the bytes of
    a complete render are the message header fields followed by `Ent.ser` of ONE entity, and that
    entity is `contentTree`: multipart/mixed [ multipart/related [ multipart/alternative [body parts] ,
    embeds ] , attachments ] with exactly the layers `hasMixed / hasRelated / hasAlt` ask for, the
    leaves in the order parts, embeds, attachments, every multipart opened with the boundary it is
    closed with. `Ent.ser` / `serList` (Proofs/Tree.lean) are RFC 2046 §5.1.1 in twelve lines. -/
theorem render_is_tree (s : MsgState) (e : Entropy)
    (hp : ∀ p ∈ s.parts, p.deleted = false ∧ p.smime = false)
    (hl : hasMixed s = true ∨ hasRelated s = true ∨ hasAlt s = true) :
    ∃ top, contentTree (defaultHeaders s e) (writeMsg s e false).2.bMixed (writeMsg s e false).2.bRelated (writeMsg s e false).2.bAlt
        (writeMsg s e false).2.embeds (writeMsg s e false).2.attachments = [top] ∧
      planBytes (writeMsg s e false).1.acts = (stageHeaders (defaultHeaders s e) {}).out ++ top.ser :=
  writeMsg_refines s e hp hl

/-- The same for EVERY message without deleted parts (no S/MIME), including those that need no
    multipart layer: header fields, then the tree - and a message without layers is its single leaf
    at the top level (`Ent.serTop`: header fields folded by writeHeader, empty line, encoded body) or
    has no content at all. -/
theorem render_is_tree_all (s : MsgState) (e : Entropy)
    (hp : ∀ p ∈ s.parts, p.deleted = false ∧ p.smime = false) :
    planBytes (writeMsg s e false).1.acts = (stageHeaders (defaultHeaders s e) {}).out ++
      ((contentTree (defaultHeaders s e) (writeMsg s e false).2.bMixed (writeMsg s e false).2.bRelated (writeMsg s e false).2.bAlt
        (writeMsg s e false).2.embeds (writeMsg s e false).2.attachments).map Ent.serTop).flatten :=
  writeMsg_refines_all s e hp

/-- **Every boundary delimits what it announces.** An RFC 2046 §5.1.1 body splitter written from the
    grammar (`Reader.splitParts`: cut at every CRLF "--" boundary, the last delimiter must be the
    closing one) applied to the body of a multipart entity as the writer serialises it returns exactly
    the serialisations of the children, in order - for every boundary, every subtype and every list
    of children in which the delimiter does not occur (freshness of the boundary). Together with
    `render_is_tree_all` (the render IS the tree) and `tree_leaves` this is the structural half of the
    property for every message; the leaf half is `qp_body_roundtrip` / `b64_body_roundtrip`. -/
theorem boundary_delimits_children (st b : Bytes) (cs : List Ent) (hne : cs ≠ [])
    (hf : ∀ c ∈ cs, Reader.Fresh (Reader.dl b) ([13, 10] ++ c.ser)) :
    (Ent.multi st b cs).ser = multiHead st b ++ Reader.frame b (cs.map Ent.ser) ∧
    Reader.splitParts b (Reader.frame b (cs.map Ent.ser)) = some (cs.map Ent.ser) :=
  Reader.multipart_body_splits st b cs hne hf

/-- non-vacuity: two leaves behind a boundary are found again; a part that contains the delimiter is not fresh -/
example : Reader.splitParts (sb "XyZ") (Reader.frame (sb "XyZ") [sb "A: 1\r\n\r\nbody one", sb "B: 2\r\n\r\n--not-the-boundary"]) =
    some [sb "A: 1\r\n\r\nbody one", sb "B: 2\r\n\r\n--not-the-boundary"] := by decide
example : Reader.freshb (Reader.dl (sb "XyZ")) (sb "\r\nA: 1\r\n\r\nline\r\n--XyZ inside") = false := by decide

/-- ... and whatever layers are present, the leaves of that tree are, in order: one per body part, one
    per embed, one per attachment. -/
theorem tree_leaves (s : MsgState) (bM bR bA : Bytes) (embeds attachments : List FileM) :
    leavesL (contentTree s bM bR bA embeds attachments) =
      (s.parts.filter (fun x => !x.deleted && !x.smime)).map (leafOfPart s) ++ embeds.map leafOfFile ++ attachments.map leafOfFile :=
  contentTree_leaves s bM bR bA embeds attachments

/-- 8bit / 7bit bodies are the content itself -/
theorem raw_body_is_content (content : Bytes) : Body.encodeBody .raw content = content := rfl

example : QP.decode (QP.encodeBytes (sb "a=b \n\tü ")) = sb "a=b \r\n\tü " := by decide

example : (Generated.hasMixed 0 1 1 0 1 true = true) ∧ (Generated.hasAlt 0 1 1 0 1 true = false) := by decide


/-- Fact regenerated from the sources: the only integers narrower than `int` in the library are the nesting
    depth of the multipart writer (at most four layers) and the step counter of LOGIN (at most two steps). No
    count of parts, recipients, refusals, header fields, parameters or bytes is kept in a type that wraps at 128,
    256 or 65536 - the theorems of this file quantify over all sizes, and this is the part of the tie that says the
    code does not silently stop doing so. -/
theorem no_narrow_counters :
    Generated.narrowInts = ["msgwriter.go: int8", "smtp/auth_login.go: uint8"] := by decide

end GoMail.Props.C01
