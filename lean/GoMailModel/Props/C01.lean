import GoMailModel.Mime.Exec
import GoMailModel.Proofs.Wrap
import GoMailModel.Generated.Nesting
/-
  C01 — Rendered MIME carries exactly the content the caller supplied.
  (First group of theorems: the nesting decisions as regenerated from msg.go, and the transfer
   encodings. The multipart inverse theorem is stated in `C01_statement` and still open.)
-/
namespace GoMail.Props.C01
open GoMail GoMail.Mime

theorem alpha_not_dash : ∀ c : UInt8, Base64.isAlpha c = true → c ≠ 45 := by
  apply forall_uint8; decide +kernel

/-- The three layer decisions, as regenerated from the Go source, are exactly the rule of the
    property: alternative iff more than one body part; related iff there are embeds and something to
    relate them to; mixed iff there are attachments and something to mix them with. Counts: `np` body
    parts (none deleted, none a signature part), `ne` embeds, `na` attachments. -/
theorem nesting_exact (np ne na : Nat) :
    (Generated.hasAlt 0 np np ne na (decide (np > 0)) = true ↔ np > 1) ∧
    (Generated.hasRelated 0 np np ne na (decide (np > 0)) = true ↔ (ne > 0 ∧ (np > 0 ∨ ne > 1))) ∧
    (Generated.hasMixed 0 np np ne na (decide (np > 0)) = true ↔ (na > 0 ∧ (np > 0 ∨ ne > 0 ∨ na > 1))) := by
  unfold Generated.hasAlt Generated.hasRelated Generated.hasMixed
  simp only [Bool.and_eq_true, Bool.or_eq_true, decide_eq_true_eq, true_and, and_true]
  refine ⟨?_, ?_⟩ <;> constructor <;> intro h <;> omega

/-- The same decisions on a message state built through the builder API (no deleted parts, no
    signature part): they only look at the three counts. -/
theorem nesting_of_state (s : MsgState) (h : ∀ p ∈ s.parts, p.deleted = false ∧ p.smime = false) :
    (hasAlt s = true ↔ s.parts.length > 1) ∧
    (hasRelated s = true ↔ (s.embeds.length > 0 ∧ (s.parts.length > 0 ∨ s.embeds.length > 1))) ∧
    (hasMixed s = true ↔ (s.attachments.length > 0 ∧ (s.parts.length > 0 ∨ s.embeds.length > 0 ∨ s.attachments.length > 1))) := by
  have hc : countBodyParts s = s.parts.length := by
    unfold countBodyParts
    congr 1
    apply List.filter_eq_self.mpr
    intro p hp; simp [(h p hp).1, (h p hp).2]
  have hb : hasBodyParts s = decide (s.parts.length > 0) := by
    unfold hasBodyParts
    cases hps : s.parts with
    | nil => simp
    | cons p ps =>
      have := (h p (by simp [hps])).2
      simp [this]
  unfold hasAlt hasRelated hasMixed
  rw [hc, hb]
  exact nesting_exact s.parts.length s.embeds.length s.attachments.length

/-- base64 bodies: removing the line structure gives back the base64 encoding of the content, and
    the alphabet keeps boundary delimiters (which start with "--") out of every line. -/
theorem b64_body_is_encoding (content : Bytes) :
    ∃ ls : List Bytes, Body.encodeBody .b64 content = (ls.map (· ++ crlf)).flatten ∧
      ls.flatten = Base64.encode content ∧ ∀ l ∈ ls, ∀ c ∈ l, c ≠ 45 := by
  obtain ⟨ls, h1, h2, _⟩ := wrap76_lines (Base64.encode content)
  refine ⟨ls, ?_, h2, ?_⟩
  · show LineBreaker.close (LineBreaker.writeAll [] [] _ [Base64.encode content]) = _
    rw [LineBreaker.writeAll_spec]; simpa using h1
  · intro l hl c hc
    have : Base64.isAlpha c = true := by
      apply Base64.encode_alpha content
      rw [← h2]; exact List.mem_flatten.mpr ⟨l, hl, hc⟩
    exact alpha_not_dash c this

/-- 8bit / 7bit bodies are the content itself -/
theorem raw_body_is_content (content : Bytes) : Body.encodeBody .raw content = content := rfl

example : (Generated.hasMixed 0 1 1 0 1 true = true) ∧ (Generated.hasAlt 0 1 1 0 1 true = false) := by decide

end GoMail.Props.C01
