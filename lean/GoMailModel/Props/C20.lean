import GoMailModel.Smtp.Send
import GoMailModel.Generated.SendErr
import GoMailModel.Generated.Narrow
/-
  C20 — SendError reflects the server's verdict.
-/
namespace GoMail.Props.C20
open GoMail GoMail.Smtp

/-- The numbering of the failing step used by the model is the order of the SendErrReason constants
    in senderror.go (regenerated fact). -/
theorem reason_numbering :
    Generated.sendErrReasons = ["ErrGetSender", "ErrGetRcpts", "ErrSMTPMailFrom", "ErrSMTPRcptTo", "ErrSMTPData",
      "ErrSMTPDataClose", "ErrSMTPReset", "ErrWriteContent", "ErrConnCheck", "ErrNoUnencoded", "ErrAmbiguous"] ∧
    Reason.mailFrom.toNat = 2 ∧ Reason.rcptTo.toNat = 3 ∧ Reason.data.toNat = 4 ∧ Reason.dataClose.toNat = 5 ∧
    Reason.reset.toNat = 6 := by decide

/-- the hand-written matcher of the model is for the expression that is in the source -/
theorem esc_regex_is_anchored : Generated.escRegex = "^\\d{3} ([245]\\.\\d{1,3}\\.\\d{1,3})\\b" := by decide

/-- For every reply code 400..599 and every text: the error built from it carries that code, is
    temporary exactly for 4yz, and names the step it was built for. -/
theorem reply_classification (r : Reason) (code : Nat) (text : Bytes) (esc : Bool) (h : 400 ≤ code ∧ code ≤ 599) :
    (mkErr r (.reply code text) esc).code = code ∧
    ((mkErr r (.reply code text) esc).isTemp = true ↔ code / 100 = 4) ∧
    (mkErr r (.reply code text) esc).reason = r := by
  simp only [mkErr, Err.code, Err.isTemp]
  refine ⟨by simp [h.1, h.2], ?_, trivial⟩
  simp only [Bool.and_eq_true, decide_eq_true_eq]
  omega

/-- Errors that are not a server reply (disconnect, garbage, timeout, local refusals) are never
    temporary and carry no code. -/
theorem non_reply_classification (r : Reason) (e : Err) (esc : Bool) (h : ∀ c t, e ≠ .reply c t) :
    (mkErr r e esc).code = 0 ∧ (mkErr r e esc).isTemp = false ∧ (mkErr r e esc).esc = [] := by
  cases e <;> simp_all [mkErr, Err.code, Err.isTemp, Err.esc]

/-- The enhanced status code is exposed only if the extension was advertised ... -/
theorem esc_requires_extension (r : Reason) (e : Err) : (mkErr r e false).esc = [] := by
  simp [mkErr, Err.esc]

theorem digitRuns_split (x : Bytes) : ∀ p ∈ digitRuns x, x = p.1 ++ p.2 := by
  intro p hp
  match x, hp with
  | [], hp => simp [digitRuns] at hp
  | [a], hp =>
    simp only [digitRuns] at hp
    split at hp <;> simp at hp
    subst hp; rfl
  | [a, b], hp =>
    simp only [digitRuns, List.mem_append] at hp
    rcases hp with hp | hp <;> (split at hp <;> simp at hp) <;> (subst hp; rfl)
  | a :: b :: c :: rest, hp =>
    simp only [digitRuns, List.mem_append] at hp
    rcases hp with (hp | hp) | hp <;> (split at hp <;> simp at hp) <;> (subst hp; rfl)

theorem escTail_some (pre d2 r3 e : Bytes) (h : escTail pre d2 r3 = some e) : e = pre ++ d2 := by
  unfold escTail at h
  split at h
  · cases h; rfl
  · split at h
    · cases h
    · cases h; rfl

theorem escSecond_some (pre r2 e : Bytes) (h : escSecond pre r2 = some e) : ∃ rest, pre ++ r2 = e ++ rest := by
  unfold escSecond at h
  obtain ⟨p, hp, h1⟩ := List.exists_of_findSome?_eq_some h
  have e2 := digitRuns_split r2 p hp
  have := escTail_some pre p.1 p.2 e h1
  exact ⟨p.2, by rw [this, e2]; simp⟩

theorem escFirst_some (c : UInt8) (d1 r1 e : Bytes) (h : escFirst c d1 r1 = some e) :
    ∃ rest, [c, 46] ++ d1 ++ r1 = e ++ rest := by
  unfold escFirst at h
  split at h
  · rename_i r2
    obtain ⟨rest, hr⟩ := escSecond_some _ r2 e h
    exact ⟨rest, by rw [← hr]; simp⟩
  · cases h

/-- ... and only if the reply text begins with it: whatever is exposed is a prefix of the text. -/
theorem esc_is_prefix_of_text (text e : Bytes) (h : escPrefix text = some e) : ∃ rest, text = e ++ rest := by
  unfold escPrefix at h
  split at h
  · rename_i c rest
    split at h
    · obtain ⟨p1, hp1, h1⟩ := List.exists_of_findSome?_eq_some h
      have e1 := digitRuns_split rest p1 hp1
      obtain ⟨r, hr⟩ := escFirst_some c p1.1 p1.2 e h1
      exact ⟨r, by rw [← hr, e1]; simp⟩
    · cases h
  · cases h

/-- non-vacuity: the two replies of the property's discussion -/
example : escPrefix (sb "5.1.1 User unknown") = some (sb "5.1.1") := by decide
example : escPrefix (sb "blocked client 2.3.4.5 sorry") = none := by decide


/-- Fact regenerated from the sources: the only integers narrower than `int` in the library are the nesting
    depth of the multipart writer (at most four layers) and the step counter of LOGIN (at most two steps). No
    count of parts, recipients, refusals, header fields, parameters or bytes is kept in a type that wraps at 128,
    256 or 65536 - the theorems of this file quantify over all sizes, and this is the part of the tie that says the
    code does not silently stop doing so. -/
theorem no_narrow_counters :
    Generated.narrowInts = ["msgwriter.go: int8", "smtp/auth_login.go: uint8"] := by decide

end GoMail.Props.C20
