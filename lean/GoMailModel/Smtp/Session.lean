import GoMailModel.Basic.Bytes
/-
  The SMTP client of go-mail (smtp/smtp.go, smtp/smtp_ehlo.go, client.go, client_120.go) as
  functions over a connection state that consume a server script and record the events a peer,
  a tracking net.Conn and the caller can observe.

  A script is the list of server actions, one per position: position 0 is the greeting, then one
  per command line and one per end-of-data. Exhaustion of the script = the server drops the connection.
-/
namespace GoMail.Smtp
open GoMail

/-- one server action -/
inductive Act
  | ok                                  -- the well-behaved reply to whatever arrived
  | reply (code : Nat) (text : Bytes)   -- this reply (text lines separated by LF)
  | drop                                -- close the connection without reply
  | stall                               -- stay silent forever, connection open
  | garbage                             -- bytes that are not an SMTP reply
  | tlsBad                              -- (handshake position only) certificate the client must reject
  | deaf                                -- the well-behaved reply, then the server neither reads nor writes any more
deriving Repr, DecidableEq

inductive Verb
  | greeting | ehlo | helo | mail | rcpt | data | eod | rset | noop | quit | starttls | auth | other
  | handshake | authStep | authAbort
deriving Repr, DecidableEq

/-- what the client gets back from one command / read -/
inductive Err
  | reply (code : Nat) (text : Bytes)   -- *textproto.Error: unexpected reply code
  | eof                                 -- connection dropped by the server
  | proto                               -- textproto.ProtocolError (garbage)
  | tls                                 -- TLS handshake failed
  | mech (tag : Nat)                    -- error returned by the SASL mechanism (Start / Next)
  | noAuthSupport | authNotSupported    -- server does not advertise AUTH / the mechanism
  | noStartTLS                          -- mandatory STARTTLS not offered
  | timeout                             -- deadline exceeded while the server was silent
  | blocked                             -- the read had no deadline: the call would block forever
  | closed                              -- write on a connection the client already closed
  | invalidLine                         -- validateLine: CR or LF in an argument
  | noConn | deadlineFailed             -- ErrNoActiveConnection / ErrDeadlineExtendFailed
  | noSender | noRcpts | noUnencoded | render
deriving Repr, DecidableEq

/-- observable events, in order -/
inductive Ev
  | connect
  | cmd (v : Verb) (line : Bytes)       -- a command line as received by the server
  | content (msg : Nat) (complete : Bool)  -- message content of batch entry `msg` handed to the DATA stream
  | eod                                 -- end-of-data marker received
  | reply (code : Nat)                  -- reply sent by the server
  | garbage
  | drop                                -- server closed the connection
  | close                               -- client closed the connection
  | deadline                            -- client armed / extended the connection deadline
  | stall (armed : Bool)                -- client waited on a silent server, with / without deadline
  | tlsOn                               -- TLS handshake completed: everything after this is encrypted
  | tlsFail                             -- TLS handshake failed (client side rejects / garbage)
deriving Repr, DecidableEq

/-- a record handed to the logger: direction (true = client to server), reply code, payload -/
structure LogRec where
  c2s  : Bool
  code : Nat := 0
  text : Bytes
deriving Repr, DecidableEq

def redacted : Bytes := sb "<SMTP auth data redacted>"

structure Conn where
  script   : List Act
  caps     : List Bytes := []           -- capability lines of the server's default EHLO reply
  trace    : List Ev := []
  cliOpen  : Bool := true               -- the client has not closed its end
  srvGone  : Bool := false              -- server dropped the connection (or said 221)
  srvSilent : Bool := false             -- server stalled
  srvDeaf  : Bool := false              -- server stopped reading: writes beyond the transport's buffers wait
  armed    : Bool := false
  inData   : Bool := false              -- server is collecting message content
  -- smtp.Client
  isConnected : Bool := true
  didHello : Bool := false
  helloErr : Option Err := none
  ext      : Option (List (Bytes × Bytes)) := none
  localName : Bytes := sb "localhost"
  dsnmrtype : Bytes := []
  dsnrntype : Bytes := []
  serverName : Bytes := []
  tls      : Bool := false              -- the connection is a *tls.Conn
  broken   : Option Err := none         -- the TLS handshake failed (the server is out of reach: srvGone): the tls.Conn reports this error for every further write
  auth     : List Bytes := []           -- mechanisms of the latest EHLO's AUTH line
  -- debug logging
  debug    : Bool := false
  logAuthData : Bool := false
  authActive : Bool := false
  logs     : List LogRec := []
deriving Repr

def Conn.ev (c : Conn) (e : Ev) : Conn := { c with trace := c.trace ++ [e] }

def joinLF : List Bytes → Bytes := joinWith [10]

def defaultReply (caps : List Bytes) : Verb → Nat × Bytes
  | .greeting => (220, sb "verif.example ESMTP ready")
  | .ehlo => (250, joinLF (sb "verif.example greets you" :: caps))
  | .helo => (250, sb "verif.example")
  | .mail | .rcpt | .rset | .noop => (250, sb "2.0.0 OK")
  | .data => (354, sb "End data with <CR><LF>.<CR><LF>")
  | .eod => (250, sb "2.0.0 OK: queued")
  | .quit => (221, sb "2.0.0 Bye")
  | .starttls => (220, sb "2.0.0 Ready to start TLS")
  | .auth => (235, sb "2.7.0 Authentication successful")
  | .other => (500, sb "5.5.2 Error: command not recognized")
  | .handshake => (0, [])
  | .authStep => (235, sb "2.7.0 Authentication successful")
  | .authAbort => (501, sb "5.0.0 Authentication aborted")

/-- textproto's expected-code rule -/
def codeMatches (expect code : Nat) : Bool :=
  if expect == 0 then true
  else if expect < 10 then code / 100 == expect
  else if expect < 100 then code / 10 == expect
  else code == expect

/-- take the next action of the script; an exhausted script means the server drops the connection -/
def Conn.pop (c : Conn) : Act × Conn :=
  match c.script with
  | [] => (.drop, c)
  | a :: rest => (a, { c with script := rest })

/-- the server sent reply `code text` to `v`; the client was expecting `expect` -/
def Conn.replied (c : Conn) (v : Verb) (expect code : Nat) (text : Bytes) : Conn × Except Err (Nat × Bytes) :=
  let c1 := c.ev (.reply code)
  -- server side effects of the reply it just gave
  let c2 := if v == .data && code == 354 then { c1 with inData := true } else c1
  let c3 := if v == .quit && code == 221 then { c2 with srvGone := true } else c2
  (c3, if codeMatches expect code then .ok (code, text) else .error (.reply code text))

/-- the client waits on a server that stays silent -/
def Conn.waitSilent (c : Conn) : Conn × Except Err (Nat × Bytes) :=
  (c.ev (.stall c.armed), .error (if c.armed then .timeout else .blocked))

def Conn.applyAct (c : Conn) (v : Verb) (expect : Nat) : Act → Conn × Except Err (Nat × Bytes)
  | .drop => ({ c.ev .drop with srvGone := true }, .error .eof)
  | .stall => ({ c with srvSilent := true }).waitSilent
  | .garbage => (c.ev .garbage, .error .proto)
  | .tlsBad => (c.ev .garbage, .error .proto)       -- only meaningful at a handshake position
  | .ok => c.replied v expect (defaultReply c.caps v).1 (defaultReply c.caps v).2
  | .reply code text => c.replied v expect code text
  | .deaf => ({ (c.replied v expect (defaultReply c.caps v).1 (defaultReply c.caps v).2).1 with srvSilent := true, srvDeaf := true },
              (c.replied v expect (defaultReply c.caps v).1 (defaultReply c.caps v).2).2)

/-- The server takes its next action for `v`; the client then reads one reply expecting `expect`. -/
def Conn.serverTurn (c : Conn) (v : Verb) (expect : Nat) : Conn × Except Err (Nat × Bytes) :=
  if c.srvGone then (c, .error (c.broken.getD .eof))
  else if c.srvSilent then c.waitSilent
  else c.pop.2.applyAct v expect c.pop.1

def Conn.log (c : Conn) (r : LogRec) : Conn := if c.debug then { c with logs := c.logs ++ [r] } else c

/-- debugLog(client to server): the command, or the redaction marker while an AUTH exchange is active -/
def Conn.logC2S (c : Conn) (line : Bytes) : Conn :=
  c.log { c2s := true, text := if c.authActive then redacted else line }

/-- code and text as `cmd` hands them to the logger -/
def replyOf : Except Err (Nat × Bytes) → Nat × Bytes
  | .ok (code, text) => (code, text)
  | .error (.reply code text) => (code, text)
  | .error _ => (0, [])

/-- debugLog(server to client): code and text; 3xx replies are redacted while AUTH is active -/
def Conn.logS2C (c : Conn) (r : Except Err (Nat × Bytes)) : Conn :=
  c.log { c2s := false, code := (replyOf r).1,
          text := if c.authActive && 300 ≤ (replyOf r).1 && (replyOf r).1 ≤ 400 then redacted else (replyOf r).2 }

/-- a command line reaches the server only while it is still there and listening -/
def Conn.send (c : Conn) (v : Verb) (line : Bytes) : Conn :=
  if c.srvGone || c.srvSilent then c else c.ev (.cmd v line)

def Conn.cmd (c : Conn) (v : Verb) (line : Bytes) (expect : Nat) : Conn × Except Err (Nat × Bytes) :=
  if !c.cliOpen then (c.logC2S line, .error .closed)
  else
    (((c.logC2S line).send v line).serverTurn v expect |>.1.logS2C (((c.logC2S line).send v line).serverTurn v expect).2,
     (((c.logC2S line).send v line).serverTurn v expect).2)

/-- smtp.Client.Close / textproto.Conn.Close -/
def Conn.close (c : Conn) : Conn :=
  if c.cliOpen then { c.ev .close with cliOpen := false, isConnected := false }
  else { c with isConnected := false }

/-- parse the EHLO reply like smtp_ehlo.go: drop the first line, cut every other line at the first blank -/
def cutSpace : Bytes → Bytes × Bytes
  | [] => ([], [])
  | b :: rest => if b == 32 then ([], rest) else let (k, v) := cutSpace rest; (b :: k, v)

def parseExt (msg : Bytes) : List (Bytes × Bytes) :=
  match splitOn 10 msg with
  | [] => []
  | _ :: lines => lines.map cutSpace

def extGet (ext : List (Bytes × Bytes)) (k : Bytes) : Option Bytes :=
  -- a Go map: the last assignment wins
  (ext.reverse.find? (·.1 == k)).map (·.2)

def Conn.hasExt (c : Conn) (k : String) : Bool :=
  match c.ext with
  | none => false
  | some e => (extGet e (sb k)).isSome

def Conn.ehlo (c : Conn) : Conn × Option Err :=
  match c.cmd .ehlo (sb "EHLO " ++ c.localName) 250 with
  | (c, .error e) => (c, some e)
  | (c, .ok (_, msg)) =>
    let ext := parseExt msg
    let c := match extGet ext (sb "AUTH") with
      | some mechs => { c with auth := splitOn 32 mechs }
      | none => c
    ({ c with ext := some ext }, none)

def Conn.helo (c : Conn) : Conn × Option Err :=
  let c := { c with ext := none }
  match c.cmd .helo (sb "HELO " ++ c.localName) 250 with
  | (c, .error e) => (c, some e)
  | (c, .ok _) => (c, none)

/-- smtp.Client.hello: EHLO once, HELO as fallback; the result is remembered -/
def Conn.hello (c : Conn) : Conn × Option Err :=
  if c.didHello then (c, c.helloErr)
  else
    let c := { c with didHello := true }
    match c.ehlo with
    | (c, none) => (c, c.helloErr)
    | (c, some _) =>
      let (c, r) := c.helo
      ({ c with helloErr := r }, r)

/-- validateLine: CR, LF or any other control character -/
def containsCRLF (b : Bytes) : Bool := b.any (fun x => x < 32 || x == 127)

/-- smtp.Client.Hello -/
def Conn.Hello (c : Conn) (name : Bytes) : Conn × Option Err :=
  if containsCRLF name then (c, some .invalidLine)
  else if c.didHello then (c, some .invalidLine)      -- "Hello called after other methods"
  else ({ c with localName := name }).hello

/-- smtp.Client.Extension -/
def Conn.extension (c : Conn) (k : String) : Conn × Bool :=
  match c.hello with
  | (c, some _) => (c, false)
  | (c, none) => (c, c.hasExt k)

/-- the MAIL command line: ESMTP parameters only for extensions of the latest EHLO reply -/
def Conn.mailLine (c : Conn) (sender : Bytes) : Bytes :=
  sb "MAIL FROM:<" ++ sender ++ sb ">" ++
    (if c.hasExt "8BITMIME" then sb " BODY=8BITMIME" else []) ++
    (if c.hasExt "SMTPUTF8" then sb " SMTPUTF8" else []) ++
    (if c.hasExt "DSN" && !c.dsnmrtype.isEmpty then sb " RET=" ++ c.dsnmrtype else [])

/-- smtp.Client.Mail -/
def Conn.mail (c : Conn) (sender : Bytes) : Conn × Option Err :=
  if containsCRLF sender then (c, some .invalidLine)
  else match c.hello with
    | (c, some e) => (c, some e)
    | (c, none) =>
      match c.cmd .mail (c.mailLine sender) 250 with
      | (c, .error e) => (c, some e)
      | (c, .ok _) => (c, none)

/-- the RCPT command line -/
def Conn.rcptLine (c : Conn) (to : Bytes) : Bytes :=
  sb "RCPT TO:<" ++ to ++ sb ">" ++
    (if c.hasExt "DSN" && !c.dsnrntype.isEmpty then sb " NOTIFY=" ++ c.dsnrntype else [])

/-- smtp.Client.Rcpt -/
def Conn.rcpt (c : Conn) (to : Bytes) : Conn × Option Err :=
  if containsCRLF to then (c, some .invalidLine)
  else
    match c.cmd .rcpt (c.rcptLine to) 25 with
    | (c, .error e) => (c, some e)
    | (c, .ok _) => (c, none)

def Conn.simple (c : Conn) (v : Verb) (line : String) (expect : Nat) : Conn × Option Err :=
  match c.hello with
  | (c, some e) => (c, some e)
  | (c, none) =>
    match c.cmd v (sb line) expect with
    | (c, .error e) => (c, some e)
    | (c, .ok _) => (c, none)

def Conn.reset (c : Conn) : Conn × Option Err := c.simple .rset "RSET" 250
def Conn.noop (c : Conn) : Conn × Option Err := c.simple .noop "NOOP" 250

/-- smtp.Client.Data: no hello() here -/
def Conn.data (c : Conn) : Conn × Option Err :=
  match c.cmd .data (sb "DATA") 354 with
  | (c, .error e) => (c, some e)
  | (c, .ok _) => (c, none)

/-- smtp.Client.Quit -/
def Conn.quit (c : Conn) : Conn × Option Err :=
  let (c, _) := c.hello
  match c.cmd .quit (sb "QUIT") 221 with
  | (c, .error e) => (c, some e)
  | (c, .ok _) => (c.close, none)

/-- smtp.Client.UpdateDeadline -/
def Conn.updateDeadline (c : Conn) : Conn × Bool :=
  if !c.cliOpen then (c, false) else ({ c.ev .deadline with armed := true }, true)

/-- dataCloser.Close: end-of-data marker, then read the reply expecting 250 -/
def Conn.endData (c : Conn) : Conn × Option Err :=
  if !c.cliOpen then (c, some .closed)
  else
    let c := if c.srvGone || c.srvSilent then c else { c.ev .eod with inData := false }
    match c.serverTurn .eod 250 with
    | (c, .error e) => (c, some e)
    | (c, .ok _) => (c, none)

end GoMail.Smtp
