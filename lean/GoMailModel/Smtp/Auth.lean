import GoMailModel.Smtp.Send
import GoMailModel.Codec.Base64
import GoMailModel.Generated.AuthPrefs
/-
  smtp.Client.Auth (the 334/235 loop with base64 framing, abort with "*", QUIT on failure, the
  redaction window for debug logging) over an abstract SASL mechanism, and the concrete mechanisms
  of smtp/auth_*.go. Cryptographic primitives (HMAC-MD5 for CRAM-MD5; PBKDF2 / HMAC / hash / xor for
  SCRAM) are parameters.
-/
namespace GoMail.Smtp
open GoMail

structure ServerInfo where
  name : Bytes
  tls  : Bool
  auth : List Bytes
deriving Repr

/-- a SASL mechanism as smtp.Auth: Start, and Next over an explicit state -/
structure Mech (σ : Type) where
  init  : σ
  start : σ → ServerInfo → σ × Except Nat (Bytes × Option Bytes)      -- mechanism name, initial response (nil or bytes)
  next  : σ → Bytes → Bool → σ × Except Nat (Option Bytes)            -- response (nil = done) or error

def trimSpace (b : Bytes) : Bytes :=
  let isSp (x : UInt8) : Bool := x == 32 || x == 9 || x == 10 || x == 13 || x == 11 || x == 12
  ((b.dropWhile isSp).reverse.dropWhile isSp).reverse

/-- The exchange after the AUTH command was answered; `fuel` bounds the loop (every round consumes
    a script position or ends). Returns the connection, the mechanism state and the error. -/
def authLoop {σ} (a : Mech σ) (mechName : Bytes) :
    Nat → Conn → σ → Except Err (Nat × Bytes) → Conn × σ × Option Err
  | 0, c, st, r => (c, st, match r with | .error e => some e | .ok _ => none)
  | fuel + 1, c, st, r =>
    match r with
    | .error e => (c, st, some e)
    | .ok (code, msg64) =>
      -- decode the challenge / classify the reply
      let dec : Except Err Bytes :=
        if code == 334 then
          match Base64.decode msg64 with
          | some m => .ok m
          | none => .error .proto            -- base64.CorruptInputError
        else if code == 235 then .ok msg64
        else .error (.reply code msg64)
      let (st, res) : σ × Except Err (Option Bytes) := match dec with
        | .error e => (st, .error e)
        | .ok m =>
          let (st, r) := a.next st m (code == 334)
          (st, match r with | .ok x => .ok x | .error t => .error (.mech t))
      match res with
      | .error e =>
        -- abort: "*" unless XOAUTH2, then QUIT; both results are ignored
        let c := if mechName != sb "XOAUTH2" then (c.cmd .authAbort (sb "*") 501).1 else c
        let (c, _) := c.quit
        (c, st, some e)
      | .ok none => (c, st, none)
      | .ok (some resp) =>
        let (c, r) := c.cmd .authStep (Base64.encode resp) 0
        authLoop a mechName fuel c st r

/-- smtp.Client.Auth -/
def Conn.authWith {σ} (c : Conn) (a : Mech σ) : Conn × σ × Option Err :=
  match c.hello with
  | (c, some e) => (c, a.init, some e)
  | (c, none) =>
    let c := if !c.logAuthData then { c with authActive := true } else c
    let done (c : Conn) : Conn := if !c.logAuthData then { c with authActive := false } else c
    match a.start a.init ⟨c.serverName, c.tls, c.auth⟩ with
    | (st, .error t) =>
      let (c, _) := c.quit
      (done c, st, some (.mech t))
    | (st, .ok (mech, resp)) =>
      let resp64 := match resp with | some r => Base64.encode r | none => []
      let line := trimSpace (sb "AUTH " ++ mech ++ [32] ++ resp64)
      let (c, r) := c.cmd .auth line 0
      let (c, st, e) := authLoop a mech (c.script.length + 2) c st r
      (done c, st, e)

/-! ### mechanisms -/

def errUnencrypted : Nat := 1
def errWrongHost : Nat := 2
def errUnexpectedChallenge : Nat := 3
def errUnexpectedResponse : Nat := 4
def errScram : Nat := 5

def isLocalhost (name : Bytes) : Bool := Generated.localhostNames.any (fun n => sb n == name)

/-- smtp/auth_plain.go -/
def plainMech (identity user pass host : Bytes) (allowUnenc : Bool) : Mech Unit :=
  { init := (),
    start := fun _ si =>
      if !allowUnenc && !si.tls && !isLocalhost si.name then ((), .error errUnencrypted)
      else if si.name != host then ((), .error errWrongHost)
      else ((), .ok (sb "PLAIN", some (identity ++ [0] ++ user ++ [0] ++ pass))),
    next := fun _ _ more => if more then ((), .error errUnexpectedChallenge) else ((), .ok none) }

/-- smtp/auth_login.go: state = respStep -/
def loginMech (user pass host : Bytes) (allowUnenc : Bool) : Mech Nat :=
  { init := 0,
    start := fun _ si =>
      if !allowUnenc && !si.tls && !isLocalhost si.name then (0, .error errUnencrypted)
      else if si.name != host then (0, .error errWrongHost)
      else (0, .ok (sb "LOGIN", none)),
    next := fun step _ more =>
      if more then
        match step with
        | 0 => (1, .ok (some user))
        | 1 => (2, .ok (some pass))
        | n => (n, .error errUnexpectedResponse)
      else (step, .ok none) }

/-- smtp/auth_cram_md5.go; `hmacHex secret challenge` = lower-case hex of HMAC-MD5 -/
def cramMech (user secret : Bytes) (hmacHex : Bytes → Bytes → Bytes) : Mech Unit :=
  { init := (),
    start := fun _ _ => ((), .ok (sb "CRAM-MD5", none)),
    next := fun _ fromServer more =>
      if more then ((), .ok (some (user ++ [32] ++ hmacHex secret fromServer))) else ((), .ok none) }

/-- smtp/auth_xoauth2.go -/
def xoauth2Mech (user token : Bytes) : Mech Unit :=
  { init := (),
    start := fun _ _ => ((), .ok (sb "XOAUTH2", some (sb "user=" ++ user ++ [1] ++ sb "auth=Bearer " ++ token ++ [1, 1]))),
    next := fun _ _ more => if more then ((), .ok (some [])) else ((), .ok none) }

/-- SCRAM client state (smtp/auth_scram.go) -/
structure ScramSt where
  nonce : Bytes := []
  firstBare : Bytes := []
  salted : Bool := false          -- saltedPwd is set (non-empty)
  salt : Bytes := []
  iter : Int := 0
  authMessage : Bytes := []
  bindData : Bytes := []
  attempt : Nat := 0              -- how many client-first messages this Auth object has produced (selects the nonce)
deriving Repr, DecidableEq

/-- the parts of SCRAM the model takes as given -/
structure ScramEnv where
  algorithm : Bytes
  user : Option Bytes             -- normalizeUsername result (escaping + PRECIS), none = error
  pass : Option Bytes             -- normalizeString(password), none = error
  cnonces : List Bytes            -- base64 of the 24 random bytes drawn for the 1st, 2nd, ... client-first message
  plus : Bool := false
  tls13 : Bool := false           -- connState.Version >= tls.VersionTLS13
  tlsUnique : Bytes := []         -- connState.TLSUnique (empty = nil)
  exporter : Option Bytes := none -- ExportKeyingMaterial("EXPORTER-Channel-Binding", nil, 32); none = error
  /-- (salt, iterations, authMessage) ↦ (base64 client proof, base64 server signature) -/
  crypto : Bytes → Int → Bytes → Bytes × Bytes

def splitOnByte (sep : UInt8) (b : Bytes) : List Bytes := splitOn sep b

/-- strconv.Atoi restricted to what matters here: optional sign, decimal digits -/
def atoi (b : Bytes) : Option Int :=
  let (neg, ds) := match b with
    | 45 :: r => (true, r)
    | 43 :: r => (false, r)
    | r => (false, r)
  if ds.isEmpty || !ds.all isDigit || ds.length > 18 then none
  else
    let n : Nat := ds.foldl (fun acc d => acc * 10 + (d.toNat - 48)) 0
    some (if neg then -(n : Int) else n)

/-- scramAuth.reset: everything but the (model-only) attempt counter -/
def scramReset (st : ScramSt) : ScramSt := { attempt := st.attempt }

def scramFirst (env : ScramEnv) (st0 : ScramSt) : ScramSt × Except Nat (Option Bytes) :=
  match env.user with
  | none => (scramReset st0, .error errScram)
  | some user =>
    let cnonce := (env.cnonces.drop st0.attempt).headD []
    let firstBare := sb "n=" ++ user ++ sb ",r=" ++ cnonce
    let st : ScramSt := { nonce := cnonce, firstBare := firstBare, attempt := st0.attempt + 1 }
    if env.plus then
      -- tls-unique below TLS 1.3 when present, tls-exporter otherwise
      let useExporter := env.tlsUnique.isEmpty || env.tls13
      let cb : Option Bytes := if useExporter then env.exporter else some env.tlsUnique
      match cb with
      | none => (st, .error errScram)
      | some cb =>
        let hdr := sb "p=" ++ (if useExporter then sb "tls-exporter" else sb "tls-unique") ++ sb ",,"
        ({ st with bindData := Base64.encode (hdr ++ cb) }, .ok (some (hdr ++ firstBare)))
    else (st, .ok (some (sb "n,," ++ firstBare)))

def scramServerFirst (env : ScramEnv) (st : ScramSt) (fromServer : Bytes) : ScramSt × Except Nat (Option Bytes) :=
  match splitOnByte 44 fromServer with
  | p0 :: p1 :: p2 :: _ =>
    if !hasPrefix p0 (sb "r=") || !hasPrefix p1 (sb "s=") || !hasPrefix p2 (sb "i=") then (scramReset st, .error errScram)
    else
      let combined := p0.drop 2
      if st.nonce.isEmpty || !hasPrefix combined st.nonce then (scramReset st, .error errScram)
      else
        match Base64.decode (p1.drop 2), atoi (p2.drop 2), env.pass with
        | some salt, some iter, some _ =>
          let woProof := (if env.plus then sb "c=" ++ st.bindData else sb "c=biws") ++ sb ",r=" ++ combined
          let am := st.firstBare ++ [44] ++ fromServer ++ [44] ++ woProof
          let st' : ScramSt := { st with nonce := combined, salted := true, salt := salt, iter := iter, authMessage := am }
          (st', .ok (some (woProof ++ sb ",p=" ++ (env.crypto salt iter am).1)))
        | _, _, _ => (scramReset st, .error errScram)
  | _ => (scramReset st, .error errScram)

def scramServerFinal (env : ScramEnv) (st : ScramSt) (fromServer : Bytes) : ScramSt × Except Nat (Option Bytes) :=
  if !st.salted || st.authMessage.isEmpty then (scramReset st, .error errScram)
  else if fromServer.drop 2 == (env.crypto st.salt st.iter st.authMessage).2 then (st, .ok (some []))
  else (scramReset st, .error errScram)

def scramMech (env : ScramEnv) : Mech ScramSt :=
  { init := {},
    start := fun st _ => (scramReset st, .ok (env.algorithm, none)),   -- Start begins a new exchange: nothing of an earlier one survives
    next := fun st fromServer more =>
      if more then
        if fromServer.isEmpty then scramFirst env (scramReset st)
        else if hasPrefix fromServer (sb "r=") then scramServerFirst env st fromServer
        else if hasPrefix fromServer (sb "v=") then scramServerFinal env st fromServer
        else (scramReset st, .error errUnexpectedResponse)
      else (st, .ok none) }

end GoMail.Smtp
