import GoMailModel.Smtp.Session
/-
  mail.Client's send path: checkConn, sendSingleMsg, SendWithSMTPClient, ResetWithSMTPClient,
  CloseWithSMTPClient, and the SendError classification (senderror.go).
-/
namespace GoMail.Smtp
open GoMail

/-- SendErrReason, in the order of the const block (checked against the regenerated list) -/
inductive Reason
  | getSender | getRcpts | mailFrom | rcptTo | data | dataClose | reset | writeContent | connCheck | noUnencoded | ambiguous
deriving Repr, DecidableEq

def Reason.toNat : Reason → Nat
  | .getSender => 0 | .getRcpts => 1 | .mailFrom => 2 | .rcptTo => 3 | .data => 4 | .dataClose => 5
  | .reset => 6 | .writeContent => 7 | .connCheck => 8 | .noUnencoded => 9 | .ambiguous => 10

def isDigit (b : UInt8) : Bool := 48 ≤ b && b ≤ 57
def isWordByte (b : UInt8) : Bool := isDigit b || (65 ≤ b && b ≤ 90) || (97 ≤ b && b ≤ 122) || b == 95

/-- 1 to 3 digits, greedy like the regexp engine's leftmost-first match needs here:
    returns the possible splits (digits taken, rest), longest first -/
def digitRuns : Bytes → List (Bytes × Bytes)
  | a :: b :: c :: rest =>
    (if isDigit a && isDigit b && isDigit c then [([a, b, c], rest)] else []) ++
    (if isDigit a && isDigit b then [([a, b], c :: rest)] else []) ++
    (if isDigit a then [([a], b :: c :: rest)] else [])
  | [a, b] =>
    (if isDigit a && isDigit b then [([a, b], [])] else []) ++ (if isDigit a then [([a], [b])] else [])
  | [a] => if isDigit a then [([a], [])] else []
  | [] => []

/-- `\b` after the last digit: the next byte must not be a word character -/
def escTail (pre d2 r3 : Bytes) : Option Bytes :=
  match r3 with
  | [] => some (pre ++ d2)
  | x :: _ => if isWordByte x then none else some (pre ++ d2)

/-- `\d{1,3}\b`, longest first -/
def escSecond (pre r2 : Bytes) : Option Bytes := (digitRuns r2).findSome? (fun p => escTail pre p.1 p.2)

/-- `\d{1,3}\.` then the second number -/
def escFirst (c : UInt8) (d1 r1 : Bytes) : Option Bytes :=
  match r1 with
  | 46 :: r2 => escSecond ([c, 46] ++ d1 ++ [46]) r2
  | _ => none

/-- hand-written matcher for `^\d{3} ([245]\.\d{1,3}\.\d{1,3})\b` applied to "%03d %s" (the part after "ddd ") -/
def escPrefix (text : Bytes) : Option Bytes :=
  match text with
  | c :: 46 :: rest =>
    if c == 50 || c == 52 || c == 53 then (digitRuns rest).findSome? (fun p => escFirst c p.1 p.2) else none
  | _ => none

/-- isTempError on the unwrapped error: first character of its text is '4' -/
def Err.isTemp : Err → Bool
  | .reply code _ => 400 ≤ code && code ≤ 499
  | _ => false

/-- errorCode -/
def Err.code : Err → Nat
  | .reply code _ => if 400 ≤ code && code ≤ 599 then code else 0
  | _ => 0

/-- enhancedStatusCode -/
def Err.esc (e : Err) (supported : Bool) : Bytes :=
  if !supported then []
  else match e with
    | .reply code text =>
      if (200 ≤ code && code ≤ 299) || (400 ≤ code && code ≤ 599) then (escPrefix text).getD [] else []
    | _ => []

structure SendErr where
  reason : Reason
  isTemp : Bool := false
  code   : Nat := 0
  esc    : Bytes := []
  rcpts  : List Bytes := []
  nerrs  : Nat := 1           -- length of errlist
deriving Repr, DecidableEq

def mkErr (r : Reason) (e : Err) (esc : Bool) : SendErr :=
  { reason := r, isTemp := e.isTemp, code := e.code, esc := e.esc esc }

/-- the configuration of mail.Client the send path reads -/
structure SendCfg where
  noNoop     : Bool := false
  requestDSN : Bool := false
  dsnReturn  : Bytes := []
  dsnNotify  : Bytes := []          -- strings.Join(c.dsnRcptNotifyType, ",")
deriving Repr

/-- a message as the send path sees it -/
structure MsgIn where
  eightBit : Bool := false           -- message.encoding == NoEncoding
  sender   : Option Bytes := none    -- GetSender(false), none = ErrNoFromAddress
  rcpts    : List Bytes := []        -- GetRecipients
  renderOK : Bool := true            -- Msg.WriteTo succeeds; false = it fails after a prefix
  big      : Bool := false           -- the content exceeds what the transport buffers while nobody reads
deriving Repr

structure MsgOut where
  delivered : Bool := false
  err       : Option SendErr := none
deriving Repr, DecidableEq

/-- client.go envelopeAddress: quote the local part when it is not a Dot-string -/
def isAtext (b : UInt8) : Bool :=
  (97 ≤ b && b ≤ 122) || (65 ≤ b && b ≤ 90) || (48 ≤ b && b ≤ 57) || (sb "!#$%&'*+-/=?^_`{|}~").contains b || b ≥ 128

def lastIndexAt : Bytes → Option Nat
  | [] => none
  | b :: rest => match lastIndexAt rest with
    | some i => some (i + 1)
    | none => if b == 64 then some 0 else none

def dotStringAux : UInt8 → Bytes → Bool    -- previous byte, rest
  | _, [] => true
  | prev, b :: rest =>
    if isAtext b then dotStringAux b rest
    else if b == 46 && prev != 46 && !rest.isEmpty then dotStringAux b rest
    else false

def isDotString (l : Bytes) : Bool :=
  match l with
  | [] => false
  | b :: rest => isAtext b && dotStringAux b rest

def quoteLocal (l : Bytes) : Bytes :=
  [34] ++ (l.map (fun b => if b == 92 || b == 34 then [92, b] else [b])).flatten ++ [34]

def envelopeAddress (addr : Bytes) : Bytes :=
  match lastIndexAt addr with
  | none => addr
  | some at_ =>
    let l := addr.take at_
    if isDotString l then addr else quoteLocal l ++ addr.drop at_

/-- Client.checkConn -/
def checkConn (cfg : SendCfg) (c : Conn) : Conn × Option Err :=
  if !c.isConnected then (c, some .noConn)
  else
    match c.updateDeadline with
    | (c, false) => (c, some .deadlineFailed)
    | (c, true) =>
      if cfg.noNoop then (c, none)
      else match c.noop with
        | (c, some _) => (c, some .noConn)
        | (c, none) => (c, none)

/-- Client.ResetWithSMTPClient -/
def resetWith (cfg : SendCfg) (c : Conn) : Conn × Option Err :=
  match checkConn cfg c with
  | (c, some e) => (c, some e)
  | (c, none) => c.reset

/-- RSET after a refused MAIL/RCPT/DATA; the connection is closed when the RSET is not acknowledged -/
def abortTx (c : Conn) (se : SendErr) : Conn × SendErr :=
  match c.reset with
  | (c, some _) => (c.close, { se with nerrs := se.nerrs + 1 })
  | (c, none) => (c, se)

/-- RCPT loop -/
def rcptLoop (esc : Bool) : Conn → List Bytes → SendErr → Bool → Conn × SendErr × Bool
  | c, [], se, bad => (c, se, bad)
  | c, r :: rs, se, bad =>
    match c.rcpt (envelopeAddress r) with
    | (c, none) => rcptLoop esc c rs se bad
    | (c, some e) =>
      rcptLoop esc c rs { se with reason := .rcptTo, isTemp := e.isTemp, code := e.code, esc := e.esc esc,
                                   rcpts := se.rcpts ++ [r], nerrs := se.nerrs + 1 } true

/-- Client.sendSingleMsg. `idx` only labels the content event. -/
def sendOne (cfg : SendCfg) (c : Conn) (idx : Nat) (m : MsgIn) (wasDelivered : Bool) : Conn × MsgOut :=
  let (c, esc) := c.extension "ENHANCEDSTATUSCODES"
  let fail (c : Conn) (se : SendErr) : Conn × MsgOut := (c, { delivered := wasDelivered, err := some se })
  let (c, ok8) := if m.eightBit then c.extension "8BITMIME" else (c, true)
  if !ok8 then fail c { reason := .noUnencoded, nerrs := 0 }
  else match m.sender with
  | none => fail c { reason := .getSender }
  | some sender =>
    if m.rcpts.isEmpty then fail c { reason := .getRcpts }
    else
      let c := if cfg.requestDSN && !cfg.dsnReturn.isEmpty then { c with dsnmrtype := cfg.dsnReturn } else c
      match c.mail (envelopeAddress sender) with
      | (c, some e) =>
        let (c, se) := abortTx c (mkErr .mailFrom e esc)
        fail c se
      | (c, none) =>
        let c := { c with dsnrntype := cfg.dsnNotify }
        let (c, se, bad) := rcptLoop esc c m.rcpts { reason := .getSender, nerrs := 0 } false
        if bad then
          let (c, se) := abortTx c se
          fail c se
        else match c.data with
        | (c, some e) =>
          let (c, se) := abortTx c (mkErr .data e esc)
          fail c se
        | (c, none) =>
          if !m.renderOK then
            -- a prefix of the content went into the DATA stream; the connection is dropped
            let c := (c.ev (.content idx false)).close
            fail c { reason := .writeContent }
          else if c.srvDeaf && m.big then
            -- nobody reads and the content does not fit into the transport's buffers: the write waits
            -- for the connection deadline (a wait like any other); WriteTo fails, the connection is dropped
            let c := ((c.ev (.content idx false)).ev (.stall c.armed)).close
            fail c { reason := .writeContent }
          else
            let c := c.ev (.content idx true)
            match c.endData with
            | (c, some e) => fail c (mkErr .dataClose e esc)
            | (c, none) =>
              match resetWith cfg c with
              | (c, some e) => (c, { delivered := true, err := some (mkErr .reset e esc) })
              | (c, none) => (c, { delivered := true, err := none })

/-- the per-message loop of SendWithSMTPClient -/
def sendLoop (cfg : SendCfg) : Conn → Nat → List MsgIn → Conn × List MsgOut
  | c, _, [] => (c, [])
  | c, i, m :: ms =>
    let (c, o) := sendOne cfg c i m false
    let (c, os) := sendLoop cfg c (i + 1) ms
    (c, o :: os)

/-- Client.SendWithSMTPClient: connection check, then every message; `none` = the check failed -/
def sendBatch (cfg : SendCfg) (c : Conn) (ms : List MsgIn) : Conn × Option (List MsgOut) × Option SendErr :=
  let (c, esc) := c.extension "ENHANCEDSTATUSCODES"
  match checkConn cfg c with
  | (c, some e) => (c, none, some (mkErr .connCheck e esc))
  | (c, none) =>
    let (c, outs) := sendLoop cfg c 0 ms
    (c, some outs, none)

/-- Client.CloseWithSMTPClient -/
def closeWith (c : Conn) : Conn × Option Err :=
  if !c.isConnected then (c, none)
  else
    let (c, _) := c.updateDeadline
    match c.quit with
    | (c, some e) => (c.close, some e)
    | (c, none) => (c, none)

end GoMail.Smtp
