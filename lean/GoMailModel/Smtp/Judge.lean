import GoMailModel.Smtp.Dial
/-
  A strict RFC 5321 §4.1.4 reference automaton over the event trace a session leaves behind: the
  server-side view of which commands are legal when. It is the Lean twin of the harness judge
  (harness/oracle_smtp.go `judgeDialogue`), and the specification of C04's "the commands the client
  emits form a legal session": `(judge trace).bad = false`. It also carries C03's "only complete
  messages are committed": the end-of-data marker is legal only in state `full`, which is entered
  only when a complete rendering was handed to the DATA stream after the 354.
-/
namespace GoMail.Smtp
open GoMail

/-- `full`: inside DATA, and the client has handed over a COMPLETE rendering of the message -/
inductive Tx | idle | mail | rcpt | data | full
deriving Repr, DecidableEq

structure J where
  greeted  : Bool := false
  hello    : Bool := false            -- an EHLO / HELO was accepted
  closed   : Bool := false            -- the server closed the connection (drop, or 221 to QUIT)
  stopped  : Bool := false            -- the client closed the connection: nothing after that is looked at
  tx       : Tx := .idle
  accepted : Nat := 0                 -- recipients of the open transaction the server accepted
  rejected : Nat := 0                 -- ... and rejected
  pending  : Option Verb := none      -- the command (or greeting / end-of-data) whose reply is outstanding
  bad      : Bool := false            -- an illegal command was seen
deriving Repr, DecidableEq

def ok2 (code : Nat) : Bool := 200 ≤ code && code < 300

/-- is command `v` legal now? -/
def J.cmdOk (j : J) (v : Verb) : Bool :=
  !j.closed && j.pending.isNone && j.greeted &&
  (match v with
   | .ehlo | .helo | .rset | .noop | .quit | .authStep | .authAbort => true
   | .mail => j.hello && j.tx == .idle
   | .rcpt => j.tx == .mail || j.tx == .rcpt
   | .data => j.tx == .rcpt && j.accepted > 0 && j.rejected == 0
   | .starttls | .auth => j.tx == .idle
   | .greeting | .eod | .handshake | .other => false)

/-- effect of the reply `code` (0 for bytes that are not a reply) to the outstanding command -/
def J.onReply (j : J) (code : Nat) : J :=
  match j.pending with
  | some .greeting => { j with greeted := code == 220, pending := none }
  | some .ehlo => if ok2 code then { j with hello := true, tx := .idle, pending := none } else { j with pending := none }
  | some .helo => if ok2 code then { j with hello := true, tx := .idle, pending := none } else { j with pending := none }
  | some .mail => if ok2 code then { j with tx := .mail, accepted := 0, rejected := 0, pending := none } else { j with pending := none }
  | some .rcpt => if ok2 code then { j with tx := .rcpt, accepted := j.accepted + 1, pending := none }
                  else { j with rejected := j.rejected + 1, pending := none }
  | some .data => if code == 354 then { j with tx := .data, pending := none } else { j with pending := none }
  | some .eod => { j with tx := .idle, pending := none }
  | some .rset => if ok2 code then { j with tx := .idle, pending := none } else { j with pending := none }
  | some .quit => if code == 221 then { j with closed := true, pending := none } else { j with pending := none }
  | _ => { j with pending := none }

def J.step (j : J) (e : Ev) : J :=
  if j.stopped then j
  else match e with
    | .connect => { j with pending := some .greeting }
    | .cmd v _ => { j with bad := j.bad || !j.cmdOk v, pending := some v }
    | .eod => { j with bad := j.bad || !(j.tx == .full), pending := some .eod }
    | .reply code => j.onReply code
    | .garbage => j.onReply 0
    | .drop => { j with closed := true, pending := none }
    | .close => { j with stopped := true }
    | .content _ complete => if complete && j.tx == .data then { j with tx := .full } else j
    | .deadline | .stall _ | .tlsOn | .tlsFail => j

def judge (t : List Ev) : J := t.foldl J.step {}

/-- C04: the session is legal -/
def Legal (t : List Ev) : Prop := (judge t).bad = false

end GoMail.Smtp
