import GoMailModel.Smtp.Send
/-
  Client.DialToSMTPClientWithContext and DialAndSendWithContext (client.go), first without TLS and
  AUTH (policy NoTLS, SMTPAuthNoAuth); `DialTLS.lean` adds the TLS policies and authentication.
-/
namespace GoMail.Smtp
open GoMail

structure DialCfg where
  helo : Bytes := sb "localhost"
  send : SendCfg := {}
deriving Repr

/-- connection established by the dial function; smtp.NewClient reads the greeting -/
def newClient (script : List Act) (caps : List Bytes) : Conn × Option Err :=
  let c : Conn := { script := script, caps := caps, trace := [.connect] }
  -- DialToSMTPClientWithContext arms the connection deadline before anything is read
  let (c, _) := c.updateDeadline
  match c.serverTurn .greeting 220 with
  | (c, .error e) => (c.close, some e)
  | (c, .ok _) => (c, none)

def dialPlain (cfg : DialCfg) (script : List Act) (caps : List Bytes) : Conn × Option Err :=
  match newClient script caps with
  | (c, some e) => (c, some e)
  | (c, none) =>
    match c.Hello cfg.helo with
    | (c, some e) => (c.close, some e)
    | (c, none) => (c, none)

structure Outcome where
  conn : Conn
  dialErr : Option Err := none
  sendErr : Bool := false              -- Send returned a non-nil error
  checkErr : Option SendErr := none
  msgs : List MsgOut := []
  closeErr : Option Err := none

/-- Client.DialAndSendWithContext -/
def dialAndSend (cfg : DialCfg) (script : List Act) (caps : List Bytes) (ms : List MsgIn) : Outcome :=
  match dialPlain cfg script caps with
  | (c, some e) => { conn := c, dialErr := some e }
  | (c, none) =>
    match sendBatch cfg.send c ms with
    | (c, none, ce) =>
      let (c, _) := closeWith c            -- the deferred CloseWithSMTPClient
      { conn := c, sendErr := true, checkErr := ce }
    | (c, some outs, _) =>
      if outs.any (·.err.isSome) then
        let (c, _) := closeWith c
        { conn := c, sendErr := true, msgs := outs }
      else
        let (c, ce) := closeWith c
        let (c, _) := closeWith c          -- deferred one: a no-op once the connection is closed
        { conn := c, msgs := outs, closeErr := ce }

end GoMail.Smtp
