import GoMailModel.Smtp.Auth
/-
  Client.DialToSMTPClientWithContext (hello → TLS policy → auth), Client.tls, Client.auth with the
  auto-discovery preference lists regenerated from client.go, and DialAndSendWithContext.
-/
namespace GoMail.Smtp
open GoMail

inductive TLSPolicy | mandatory | opportunistic | noTLS
deriving Repr, DecidableEq

inductive AuthType
  | noAuth | autoDiscover | cramMD5 | custom | login | loginNoEnc | plain | plainNoEnc
  | scramSHA1 | scramSHA1Plus | scramSHA256 | scramSHA256Plus | xoauth2
deriving Repr, DecidableEq

def AuthType.name : AuthType → String
  | .noAuth => "NOAUTH" | .autoDiscover => "AUTODISCOVER" | .cramMD5 => "CRAM-MD5" | .custom => "CUSTOM"
  | .login => "LOGIN" | .loginNoEnc => "LOGIN-NOENC" | .plain => "PLAIN" | .plainNoEnc => "PLAIN-NOENC"
  | .scramSHA1 => "SCRAM-SHA-1" | .scramSHA1Plus => "SCRAM-SHA-1-PLUS" | .scramSHA256 => "SCRAM-SHA-256"
  | .scramSHA256Plus => "SCRAM-SHA-256-PLUS" | .xoauth2 => "XOAUTH2"

def AuthType.ofName (n : String) : Option AuthType :=
  [AuthType.cramMD5, .login, .plain, .scramSHA1, .scramSHA1Plus, .scramSHA256, .scramSHA256Plus, .xoauth2].find? (fun t => t.name == n)

structure DialCfg where
  helo : Bytes := sb "localhost"
  host : Bytes := sb "verif.example"
  policy : TLSPolicy := .noTLS
  implicitTLS : Bool := false           -- WithSSL and the default dialer: the connection is TLS from the start
  useSSL : Bool := false                -- c.useSSL (skips the STARTTLS logic)
  authType : AuthType := .noAuth
  user : Bytes := []
  pass : Bytes := []
  debug : Bool := false
  logAuthData : Bool := false
  hmacHex : Bytes → Bytes → Bytes := fun _ _ => []
  scram : ScramEnv := { algorithm := [], user := none, pass := none, cnonces := [], crypto := fun _ _ _ => ([], []) }
  send : SendCfg := {}

/-- the connection as the dial function returns it -/
def freshConn (cfg : DialCfg) (script : List Act) (caps : List Bytes) : Conn :=
  { script := script, caps := caps, trace := if cfg.implicitTLS then [.connect, .tlsOn] else [.connect],
    serverName := cfg.host, tls := cfg.implicitTLS }

/-- connection established by the dial function; smtp.NewClient reads the greeting -/
def newClient (cfg : DialCfg) (script : List Act) (caps : List Bytes) : Conn × Option Err :=
  -- DialToSMTPClientWithContext arms the connection deadline before anything is read
  match (freshConn cfg script caps).updateDeadline.1.serverTurn .greeting 220 with
  | (c, .error e) => (c.close, some e)
  | (c, .ok _) => (c, none)

/-- smtp.Client.StartTLS; the handshake happens when the EHLO over the new tls.Conn is written -/
def Conn.startTLS (c : Conn) : Conn × Option Err :=
  match c.hello with
  | (c, some e) => (c, some e)
  | (c, none) =>
    match c.cmd .starttls (sb "STARTTLS") 220 with
    | (c, .error e) => (c, some e)
    | (c, .ok _) =>
      let c := { c with tls := true }
      -- the handshake consumes one script position
      if c.srvGone then (c, some .eof)
      else if c.srvSilent then (c.waitSilent.1, some (if c.armed then .timeout else .blocked))
      else
        let c' := c.pop.2
        match c.pop.1 with
        | .ok => (c'.ev .tlsOn).ehlo
        | .drop => ({ c'.ev .drop with srvGone := true }, some .eof)
        | .stall => (({ c' with srvSilent := true }).waitSilent.1, some (if c'.armed then .timeout else .blocked))
        | _ => ({ c'.ev .tlsFail with srvGone := true, broken := some .tls }, some .tls)

/-- Client.tls: the policy decision; returns isEncrypted -/
def clientTLS (cfg : DialCfg) (c : Conn) (isEnc : Bool) : Conn × Bool × Option Err :=
  if cfg.useSSL || cfg.policy == .noTLS then (c, isEnc, none)
  else
    let (c, ext) := c.extension "STARTTLS"
    if cfg.policy == .mandatory && !ext then (c, isEnc, some .noStartTLS)
    else
      let want := cfg.policy == .mandatory || ext
      let (c, e) := if want then c.startTLS else (c, none)
      match e with
      | some e => (c, isEnc, some e)
      | none =>
        -- GetTLSConnectionState
        if !c.isConnected then (c, isEnc, some .noConn)
        else if !c.tls then (c, false, none)
        else (c, true, none)

def containsName (mechs : Bytes) (n : String) : Bool := containsSub (sb n) mechs

/-- Client.authTypeAutoDiscover with the preference lists of the source -/
def autoDiscover (supported : Bytes) (isEnc : Bool) : Option AuthType :=
  if supported.isEmpty then none
  else
    let prefer := if isEnc then Generated.preferEncrypted else Generated.preferUnencrypted
    let mechs := splitOn 32 supported
    match prefer.find? (fun n => mechs.contains (sb n)) with
    | some n => AuthType.ofName n
    | none => none

/-- what Client.auth does for a concrete (non-custom) type once the mechanism is chosen -/
def runMech (cfg : DialCfg) (c : Conn) (t : AuthType) : Conn × Option Err :=
  let r3 {σ} (x : Conn × σ × Option Err) : Conn × Option Err := (x.1, x.2.2)
  match t with
  | .plain => r3 (c.authWith (plainMech [] cfg.user cfg.pass cfg.host false))
  | .plainNoEnc => r3 (c.authWith (plainMech [] cfg.user cfg.pass cfg.host true))
  | .login => r3 (c.authWith (loginMech cfg.user cfg.pass cfg.host false))
  | .loginNoEnc => r3 (c.authWith (loginMech cfg.user cfg.pass cfg.host true))
  | .cramMD5 => r3 (c.authWith (cramMech cfg.user cfg.pass cfg.hmacHex))
  | .xoauth2 => r3 (c.authWith (xoauth2Mech cfg.user cfg.pass))
  | .scramSHA1 => r3 (c.authWith (scramMech { cfg.scram with algorithm := sb "SCRAM-SHA-1", plus := false }))
  | .scramSHA256 => r3 (c.authWith (scramMech { cfg.scram with algorithm := sb "SCRAM-SHA-256", plus := false }))
  | .scramSHA1Plus =>
    if !c.isConnected then (c, some .noConn) else if !c.tls then (c, some .tls)
    else r3 (c.authWith (scramMech { cfg.scram with algorithm := sb "SCRAM-SHA-1-PLUS", plus := true }))
  | .scramSHA256Plus =>
    if !c.isConnected then (c, some .noConn) else if !c.tls then (c, some .tls)
    else r3 (c.authWith (scramMech { cfg.scram with algorithm := sb "SCRAM-SHA-256-PLUS", plus := true }))
  | _ => (c, some .authNotSupported)

/-- the name whose presence in the advertised list Client.auth checks with strings.Contains -/
def AuthType.checkName : AuthType → String
  | .plainNoEnc => "PLAIN" | .loginNoEnc => "LOGIN" | t => t.name

/-- Client.auth (`.custom` without a mechanism set ends in the "unsupported SMTP AUTH type" error) -/
def clientAuth (cfg : DialCfg) (c : Conn) (isEnc : Bool) : Conn × Option Err :=
  match cfg.authType with
  | .noAuth => (c, none)
  | t =>
    let (c, has) := c.extension "AUTH"
    if !has then (c, some .noAuthSupport)
    else
      let mechs := match c.ext with
        | some e => (extGet e (sb "AUTH")).getD []
        | none => []
      let chosen : Option AuthType := if t == .autoDiscover then autoDiscover mechs isEnc else some t
      match chosen with
      | none => (c, some .authNotSupported)
      | some t' =>
        if !containsName mechs t'.checkName then (c, some .authNotSupported)
        else runMech cfg c t'

/-- Client.DialToSMTPClientWithContext -/
def dial (cfg : DialCfg) (script : List Act) (caps : List Bytes) : Conn × Option Err :=
  match newClient cfg script caps with
  | (c, some e) => (c, some e)
  | (c, none) =>
    let c := { c with debug := cfg.debug, logAuthData := cfg.logAuthData }
    match c.Hello cfg.helo with
    | (c, some e) => (c.close, some e)
    | (c, none) =>
      match clientTLS cfg c cfg.implicitTLS with
      | (c, _, some e) => (c.close, some e)
      | (c, isEnc, none) =>
        match clientAuth cfg c isEnc with
        | (c, some e) => (c.close, some e)
        | (c, none) => (c, none)

structure Outcome where
  conn : Conn
  dialErr : Option Err := none
  sendErr : Bool := false              -- Send returned a non-nil error
  checkErr : Option SendErr := none
  msgs : List MsgOut := []
  closeErr : Option Err := none

/-- Client.DialAndSendWithContext -/
def dialAndSend (cfg : DialCfg) (script : List Act) (caps : List Bytes) (ms : List MsgIn) : Outcome :=
  match dial cfg script caps with
  | (c, some e) => { conn := c, dialErr := some e }
  | (c, none) =>
    match sendBatch cfg.send c ms with
    | (c, none, ce) =>
      let (c, _) := closeWith c            -- the deferred CloseWithSMTPClient
      { conn := c, sendErr := true, checkErr := ce }
    | (c, some outs, _) =>
      if outs.any (·.err.isSome) then
        let (c, _) := closeWith c
        { conn := c, sendErr := true, msgs := outs }
      else
        let (c, ce) := closeWith c
        let (c, _) := closeWith c          -- deferred one: a no-op once the connection is closed
        { conn := c, msgs := outs, closeErr := ce }

end GoMail.Smtp
