import GoMailModel.Mime.Render
/-
  Refinement of the imperative multipart writer (a stack of open multipart.Writers, `startMP`,
  `newPart`, `stopMP`, the `if hasX` blocks of writeMsg) to the RFC 2046 serialisation of an entity
  TREE. The tree and its serialisation are the specification: a dozen lines that can be read
  against RFC 2046 §5.1.1; the theorem says the bytes the plan writes after the message header
  are exactly that serialisation, for every message shape.
-/
namespace GoMail.Mime
open GoMail

/-- a MIME entity: a leaf with its header fields and (encoded) body, or a multipart -/
inductive Ent
  | leaf (hdr : HeaderMap) (body : Bytes)
  | multi (subtype boundary : Bytes) (children : List Ent)

def hdrLines (h : HeaderMap) : Bytes := (h.map (fun kv => kv.1 ++ [58, 32] ++ kv.2 ++ crlf)).flatten

/-- "--" boundary CRLF, preceded by the CRLF that belongs to the delimiter unless it is the first one -/
def delim (b : Bytes) (notFirst : Bool) : Bytes := (if notFirst then crlf else []) ++ [45, 45] ++ b ++ crlf
def closeDelim (b : Bytes) : Bytes := crlf ++ [45, 45] ++ b ++ [45, 45] ++ crlf
def multiHead (subtype bnd : Bytes) : Bytes :=
  sb "Content-Type: " ++ (sb "multipart/" ++ subtype ++ sb ";\r\n boundary=" ++ bnd) ++ crlf ++ crlf

mutual
/-- an entity as it stands behind a delimiter line (or behind the message header): header fields,
    empty line, content -/
def Ent.ser : Ent → Bytes
  | .leaf h body => hdrLines h ++ crlf ++ body
  | .multi st b cs => multiHead st b ++ serList b false cs ++ closeDelim b
/-- the body parts of a multipart, each behind its delimiter -/
def serList (b : Bytes) : Bool → List Ent → Bytes
  | _, [] => []
  | nf, c :: cs => delim b nf ++ c.ser ++ serList b true cs
end

def PW.out (p : PW) : Bytes := planBytes p.acts

theorem planBytes_append (a b : List WAct) : planBytes (a ++ b) = planBytes a ++ planBytes b := by
  simp [planBytes]

theorem serList_append (b : Bytes) (nf : Bool) (xs ys : List Ent) :
    serList b nf (xs ++ ys) = serList b nf xs ++ serList b (nf || !xs.isEmpty) ys := by
  induction xs generalizing nf with
  | nil => simp [serList]
  | cons x xs ih => simp [serList, ih, List.append_assoc]

/-! ### effect of the primitive operations on the bytes written and on the stack -/

theorem newPart_out (p : PW) (pre : Option Bool) (h : HeaderMap) (b : Bytes) (last : Bool) (rest : List (Bytes × Bool))
    (hs : p.stack = (b, last) :: rest) :
    (p.newPart pre h).out = p.out ++ delim b last ++ hdrLines h ++ crlf ∧
    (p.newPart pre h).stack = (b, true) :: rest := by
  unfold PW.newPart PW.out
  rw [hs]
  simp [planBytes, WAct.bytes, delim, hdrLines, List.append_assoc]

theorem body_out (p : PW) (enc : EncLabel) (prod : Producer) :
    (p.body enc prod).out = p.out ++ Body.encodeBody (cteOf enc) prod.content ∧ (p.body enc prod).stack = p.stack := by
  unfold PW.body PW.out
  simp [planBytes, WAct.bytes]

theorem stopMP_out (p : PW) (b : Bytes) (last : Bool) (rest : List (Bytes × Bool)) (hs : p.stack = (b, last) :: rest) :
    p.stopMP.out = p.out ++ closeDelim b ∧ p.stopMP.stack = rest := by
  unfold PW.stopMP PW.out
  rw [hs]
  simp [planBytes, WAct.bytes, closeDelim, List.append_assoc]

/-- the leaf a nested body part becomes -/
def leafOfPart (s : MsgState) (part : Part) : Ent :=
  let charset := if part.charset.isEmpty then s.charset else part.charset
  let contentType := if part.smime then part.ctype else part.ctype ++ sb "; charset=" ++ charset
  let desc := if part.desc.isEmpty then [] else EncodedWord.wordEncode (encoderOf s.encoding) s.charset part.desc
  .leaf ((if part.desc.isEmpty then [] else [(hContentDesc, desc)]) ++ [(hCTE, part.enc), (hContentType, contentType)])
    (Body.encodeBody (cteOf part.enc) part.prod.content)

/-- the leaf a nested file (with its cached header map) becomes -/
def leafOfFile (f : FileM) : Ent :=
  .leaf f.header (Body.encodeBody (cteOf (if f.enc.isEmpty then encB64 else f.enc)) f.prod.content)

theorem writePart_out (p : PW) (s : MsgState) (part : Part) (b : Bytes) (last : Bool) (rest : List (Bytes × Bool))
    (hs : p.stack = (b, last) :: rest) :
    (p.writePart s part).out = p.out ++ delim b last ++ (leafOfPart s part).ser ∧
    (p.writePart s part).stack = (b, true) :: rest := by
  have hd : (p.depth == 0) = false := by simp [PW.depth, hs]
  unfold PW.writePart
  simp only [hd, Bool.false_eq_true, if_false]
  obtain ⟨h1, h2⟩ := newPart_out p none
    ((if part.desc.isEmpty then [] else [(hContentDesc, if part.desc.isEmpty then [] else EncodedWord.wordEncode (encoderOf s.encoding) s.charset part.desc)]) ++
      [(hCTE, part.enc), (hContentType, if part.smime then part.ctype else part.ctype ++ sb "; charset=" ++ (if part.charset.isEmpty then s.charset else part.charset))])
    b last rest hs
  obtain ⟨h3, h4⟩ := body_out (p.newPart none
    ((if part.desc.isEmpty then [] else [(hContentDesc, if part.desc.isEmpty then [] else EncodedWord.wordEncode (encoderOf s.encoding) s.charset part.desc)]) ++
      [(hCTE, part.enc), (hContentType, if part.smime then part.ctype else part.ctype ++ sb "; charset=" ++ (if part.charset.isEmpty then s.charset else part.charset))]))
    part.enc part.prod
  refine ⟨?_, by rw [h4, h2]⟩
  rw [h3, h1]
  simp [leafOfPart, Ent.ser, List.append_assoc]

theorem addFile_out (p : PW) (f : FileM) (b : Bytes) (last : Bool) (rest : List (Bytes × Bool))
    (hs : p.stack = (b, last) :: rest) :
    (p.addFile f).out = p.out ++ delim b last ++ (leafOfFile f).ser ∧ (p.addFile f).stack = (b, true) :: rest := by
  have hd : (p.depth == 0) = false := by simp [PW.depth, hs]
  unfold PW.addFile
  simp only [hd, Bool.false_eq_true, if_false]
  obtain ⟨h1, h2⟩ := newPart_out p none f.header b last rest hs
  obtain ⟨h3, h4⟩ := body_out (p.newPart none f.header) (if f.enc.isEmpty then encB64 else f.enc) f.prod
  refine ⟨?_, by rw [h4, h2]⟩
  rw [h3, h1]
  simp [leafOfFile, Ent.ser, List.append_assoc]

/-- a list of leaves written into the open multipart -/
theorem foldl_leaves {α} (f : PW → α → PW) (leaf : α → Ent)
    (hf : ∀ (p : PW) (x : α) (b : Bytes) (last : Bool) (rest : List (Bytes × Bool)), p.stack = (b, last) :: rest →
      (f p x).out = p.out ++ delim b last ++ (leaf x).ser ∧ (f p x).stack = (b, true) :: rest)
    (xs : List α) (p : PW) (b : Bytes) (last : Bool) (rest : List (Bytes × Bool)) (hs : p.stack = (b, last) :: rest) :
    (xs.foldl f p).out = p.out ++ serList b last (xs.map leaf) ∧
    (xs.foldl f p).stack = (b, last || !xs.isEmpty) :: rest := by
  induction xs generalizing p last with
  | nil => simp [serList, hs]
  | cons x xs ih =>
    obtain ⟨h1, h2⟩ := hf p x b last rest hs
    obtain ⟨h3, h4⟩ := ih (f p x) true h2
    simp only [List.foldl_cons, List.map_cons]
    refine ⟨?_, by rw [h4]; simp⟩
    rw [h3, h1]
    simp [serList, List.append_assoc]

end GoMail.Mime

namespace GoMail.Mime
open GoMail

/-! ### the writer as an abstract machine over (bytes written, stack of open multiparts) -/

abbrev View := Bytes × List (Bytes × Bool)

inductive Op
  | opn (subtype bnd : Bytes)
  | lf (e : Ent)
  | cls

def tstep (v : View) : Op → View
  | .opn st b =>
    match v.2 with
    | [] => (v.1 ++ multiHead st b, [(b, false)])
    | (b0, l0) :: rest => (v.1 ++ delim b0 l0 ++ multiHead st b, (b, false) :: (b0, true) :: rest)
  | .lf e =>
    match v.2 with
    | [] => v
    | (b0, l0) :: rest => (v.1 ++ delim b0 l0 ++ e.ser, (b0, true) :: rest)
  | .cls =>
    match v.2 with
    | [] => v
    | (b0, _) :: rest => (v.1 ++ closeDelim b0, rest)

def trun (ops : List Op) (v : View) : View := ops.foldl tstep v

def PW.view (p : PW) : View := (p.out, p.stack)

theorem view_stopMP (p : PW) : p.stopMP.view = tstep p.view .cls := by
  unfold PW.view tstep
  cases hs : p.stack with
  | nil => simp [PW.stopMP, hs, PW.out]
  | cons x rest =>
    obtain ⟨b, l⟩ := x
    obtain ⟨h1, h2⟩ := stopMP_out p b l rest hs
    simp [h1, h2]

theorem str_out (p : PW) (b : Bytes) : (p.str b).out = p.out ++ b ∧ (p.str b).stack = p.stack := by
  unfold PW.str PW.out; simp [planBytes, WAct.bytes]

theorem startMP_nested (p : PW) (mt given fresh : Bytes) (b : Bytes) (l : Bool) (rest : List (Bytes × Bool))
    (hs : p.stack = (b, l) :: rest) :
    (p.startMP mt given fresh).1.out = p.out ++ delim b l ++ multiHead mt (p.startMP mt given fresh).2 ∧
    (p.startMP mt given fresh).1.stack = ((p.startMP mt given fresh).2, false) :: (b, true) :: rest := by
  have hd : (p.depth == 0) = false := by simp [PW.depth, hs]
  unfold PW.startMP
  simp only [hd, Bool.false_eq_true, if_false]
  constructor
  · show (p.newPart _ _).out = _
    rw [(newPart_out p _ _ b l rest hs).1]
    have hct : sb "Content-Type: " = sb "Content-Type" ++ [58, 32] := by decide
    simp [hdrLines, multiHead, List.append_assoc, hct]
  · show _ :: (p.newPart _ _).stack = _
    rw [(newPart_out p _ _ b l rest hs).2]

theorem startMP_top (p : PW) (mt given fresh : Bytes) (hs : p.stack = []) :
    (p.startMP mt given fresh).1.out = p.out ++ sb "Content-Type: " ++
      (sb "multipart/" ++ mt ++ sb ";\r\n boundary=" ++ (p.startMP mt given fresh).2) ∧
    (p.startMP mt given fresh).1.stack = [((p.startMP mt given fresh).2, false)] := by
  have hd : (p.depth == 0) = true := by simp [PW.depth, hs]
  unfold PW.startMP
  simp only [hd, if_true]
  constructor
  · simp [PW.out, planBytes, WAct.bytes, List.append_assoc]
  · simp [hs]

theorem markUser_out (s : MsgState) (p : PW) : (markUser s p).out = p.out := by
  unfold PW.out; simp

theorem view_openLayer (s : MsgState) (p : PW) (mt cached fresh : Bytes) :
    (openLayer s p mt cached fresh).1.view = tstep p.view (.opn mt (openLayer s p mt cached fresh).2) := by
  unfold openLayer
  simp only []
  cases hs : p.stack with
  | nil =>
    have hq : (markUser s p).stack = [] := by simp [hs]
    obtain ⟨h1, h2⟩ := startMP_top (markUser s p) mt (givenBoundary s p cached) fresh hq
    have hdep : (((markUser s p).startMP mt (givenBoundary s p cached) fresh).1.depth == 1) = true := by simp [PW.depth, h2]
    simp only [hdep, if_true]
    obtain ⟨h3, h4⟩ := str_out ((markUser s p).startMP mt (givenBoundary s p cached) fresh).1 (crlf ++ crlf)
    simp only [PW.view, tstep, hs, h3, h4, h1, h2, markUser_out]
    simp [multiHead, List.append_assoc]
  | cons x rest =>
    obtain ⟨b, l⟩ := x
    have hq : (markUser s p).stack = (b, l) :: rest := by simp [hs]
    obtain ⟨h1, h2⟩ := startMP_nested (markUser s p) mt (givenBoundary s p cached) fresh b l rest hq
    have hdep : (((markUser s p).startMP mt (givenBoundary s p cached) fresh).1.depth == 1) = false := by simp [PW.depth, h2]
    simp only [hdep, Bool.false_eq_true, if_false]
    simp only [PW.view, tstep, hs, h1, h2, markUser_out]

theorem trun_append (a b : List Op) (v : View) : trun (a ++ b) v = trun b (trun a v) := by
  simp [trun, List.foldl_append]

theorem tstep_lf_nonempty (v : View) (e : Ent) (h : v.2 ≠ []) : (tstep v (.lf e)).2 ≠ [] := by
  unfold tstep
  cases hv : v.2 with
  | nil => exact absurd hv h
  | cons x rest => obtain ⟨b, l⟩ := x; simp

theorem view_foldl {α} (f : PW → α → PW) (leaf : α → Ent)
    (hf : ∀ (p : PW) (x : α) (b : Bytes) (last : Bool) (rest : List (Bytes × Bool)), p.stack = (b, last) :: rest →
      (f p x).out = p.out ++ delim b last ++ (leaf x).ser ∧ (f p x).stack = (b, true) :: rest)
    (xs : List α) (p : PW) (h : xs = [] ∨ p.stack ≠ []) :
    (xs.foldl f p).view = trun (xs.map (fun x => Op.lf (leaf x))) p.view := by
  induction xs generalizing p with
  | nil => simp [trun]
  | cons x xs ih =>
    have hne : p.stack ≠ [] := by
      rcases h with h | h
      · cases h
      · exact h
    cases hs : p.stack with
    | nil => exact absurd hs hne
    | cons y rest =>
      obtain ⟨b, l⟩ := y
      obtain ⟨h1, h2⟩ := hf p x b l rest hs
      have hstep : (f p x).view = tstep p.view (.lf (leaf x)) := by
        simp [PW.view, tstep, hs, h1, h2]
      simp only [List.foldl_cons, List.map_cons, trun]
      rw [ih (f p x) (Or.inr (by rw [h2]; simp)), hstep]
      rfl

end GoMail.Mime

namespace GoMail.Mime
open GoMail

/-! ### the message tree and the refinement theorem -/

/-- the entity tree of a message: alternative around the body parts, related around that and the
    embeds, mixed around that and the attachments - each layer only if the message needs it -/
def contentTree (s : MsgState) (bM bR bA : Bytes) (embeds attachments : List FileM) : List Ent :=
  let parts := (s.parts.filter (fun x => !x.deleted && !x.smime)).map (leafOfPart s)
  let alt := if hasAlt s then [Ent.multi (sb "alternative") bA parts] else parts
  let rel := if hasRelated s then [Ent.multi (sb "related") bR (alt ++ embeds.map leafOfFile)] else alt ++ embeds.map leafOfFile
  if hasMixed s then [Ent.multi (sb "mixed") bM (rel ++ attachments.map leafOfFile)] else rel ++ attachments.map leafOfFile

/-- no deleted parts, no signature part: the three decisions read the plain counts -/
def Plain (s : MsgState) : Prop := ∀ p ∈ s.parts, p.deleted = false ∧ p.smime = false

theorem plain_counts (s : MsgState) (h : Plain s) :
    countBodyParts s = s.parts.length ∧ hasBodyParts s = decide (s.parts.length > 0) ∧
    s.parts.filter (fun x => !x.deleted && !x.smime) = s.parts := by
  have hf : s.parts.filter (fun x => !x.deleted && !x.smime) = s.parts := by
    apply List.filter_eq_self.mpr
    intro p hp; simp [(h p hp).1, (h p hp).2]
  refine ⟨by unfold countBodyParts; rw [hf], ?_, hf⟩
  unfold hasBodyParts
  cases hps : s.parts with
  | nil => simp
  | cons p ps =>
    have := (h p (by simp [hps])).2
    simp [this]

theorem trun_nil (v : View) : trun [] v = v := rfl
theorem trun_cons (o : Op) (os : List Op) (v : View) : trun (o :: os) v = trun os (tstep v o) := rfl

/-- leaves behind delimiters of the open multipart `b` -/
theorem trun_leaves (es : List Ent) (out : Bytes) (b : Bytes) (l : Bool) (rest : List (Bytes × Bool)) :
    trun (es.map Op.lf) (out, (b, l) :: rest) = (out ++ serList b l es, (b, l || !es.isEmpty) :: rest) := by
  induction es generalizing out l with
  | nil => simp [trun, serList]
  | cons e es ih =>
    simp only [List.map_cons, trun_cons, tstep]
    rw [ih]
    simp [serList, List.append_assoc]

theorem map_lf (f : α → Ent) (xs : List α) : xs.map (fun x => Op.lf (f x)) = (xs.map f).map Op.lf := by
  simp

end GoMail.Mime

namespace GoMail.Mime
open GoMail

def partOps (s : MsgState) : List Op :=
  ((s.parts.filter (fun x => !x.deleted && !x.smime)).map (leafOfPart s)).map Op.lf
def fileOps (fs : List FileM) : List Op := (fs.map leafOfFile).map Op.lf
def clsIf (c : Bool) : List Op := if c then [Op.cls] else []

theorem view_clsIf (c : Bool) (p : PW) : (if c = true then p.stopMP else p).view = trun (clsIf c) p.view := by
  cases c <;> simp [clsIf, trun, view_stopMP]

/-- stageContent (no S/MIME wrapper) as a trun of the abstract machine -/
theorem content_view (s : MsgState) (p : PW) (embeds attachments : List FileM)
    (h1 : partOps s = [] ∨ p.stack ≠ [])
    (h2 : embeds = [] ∨ (trun (partOps s ++ clsIf (hasAlt s)) p.view).2 ≠ [])
    (h3 : attachments = [] ∨ (trun (partOps s ++ clsIf (hasAlt s) ++ fileOps embeds ++ clsIf (hasRelated s)) p.view).2 ≠ []) :
    (stageContent s false p embeds attachments).view =
      trun (partOps s ++ clsIf (hasAlt s) ++ fileOps embeds ++ clsIf (hasRelated s) ++ fileOps attachments ++ clsIf (hasMixed s)) p.view := by
  unfold stageContent
  simp only [Bool.false_eq_true, if_false]
  have e1 : ((s.parts.filter (fun x => !x.deleted && !x.smime)).foldl (fun p x => p.writePart s x) p).view = trun (partOps s) p.view := by
    have := view_foldl (fun p x => p.writePart s x) (leafOfPart s) (fun p x b l rest hs => writePart_out p s x b l rest hs)
      (s.parts.filter (fun x => !x.deleted && !x.smime)) p (by
        rcases h1 with h | h
        · left; simpa [partOps] using h
        · right; exact h)
    rw [this, map_lf]; rfl
  have e2 := view_clsIf (hasAlt s) ((s.parts.filter (fun x => !x.deleted && !x.smime)).foldl (fun p x => p.writePart s x) p)
  rw [e1, ← trun_append] at e2
  have e3 := view_foldl PW.addFile leafOfFile (fun p x b l rest hs => addFile_out p x b l rest hs) embeds
    (if hasAlt s = true then ((s.parts.filter (fun x => !x.deleted && !x.smime)).foldl (fun p x => p.writePart s x) p).stopMP
      else (s.parts.filter (fun x => !x.deleted && !x.smime)).foldl (fun p x => p.writePart s x) p) (by
      rcases h2 with h | h
      · left; exact h
      · right
        have : (if hasAlt s = true then ((s.parts.filter (fun x => !x.deleted && !x.smime)).foldl (fun p x => p.writePart s x) p).stopMP
          else (s.parts.filter (fun x => !x.deleted && !x.smime)).foldl (fun p x => p.writePart s x) p).view.2 ≠ [] := by rw [e2]; exact h
        exact this)
  rw [e2, map_lf, ← trun_append] at e3
  have e4 := view_clsIf (hasRelated s) (embeds.foldl PW.addFile
    (if hasAlt s = true then ((s.parts.filter (fun x => !x.deleted && !x.smime)).foldl (fun p x => p.writePart s x) p).stopMP
      else (s.parts.filter (fun x => !x.deleted && !x.smime)).foldl (fun p x => p.writePart s x) p))
  rw [e3, ← trun_append] at e4
  have e5 := view_foldl PW.addFile leafOfFile (fun p x b l rest hs => addFile_out p x b l rest hs) attachments
    (if hasRelated s = true then (embeds.foldl PW.addFile
      (if hasAlt s = true then ((s.parts.filter (fun x => !x.deleted && !x.smime)).foldl (fun p x => p.writePart s x) p).stopMP
        else (s.parts.filter (fun x => !x.deleted && !x.smime)).foldl (fun p x => p.writePart s x) p)).stopMP
     else embeds.foldl PW.addFile
      (if hasAlt s = true then ((s.parts.filter (fun x => !x.deleted && !x.smime)).foldl (fun p x => p.writePart s x) p).stopMP
        else (s.parts.filter (fun x => !x.deleted && !x.smime)).foldl (fun p x => p.writePart s x) p)) (by
      rcases h3 with h | h
      · left; exact h
      · right
        have : (if hasRelated s = true then (embeds.foldl PW.addFile
            (if hasAlt s = true then ((s.parts.filter (fun x => !x.deleted && !x.smime)).foldl (fun p x => p.writePart s x) p).stopMP
              else (s.parts.filter (fun x => !x.deleted && !x.smime)).foldl (fun p x => p.writePart s x) p)).stopMP
           else embeds.foldl PW.addFile
            (if hasAlt s = true then ((s.parts.filter (fun x => !x.deleted && !x.smime)).foldl (fun p x => p.writePart s x) p).stopMP
              else (s.parts.filter (fun x => !x.deleted && !x.smime)).foldl (fun p x => p.writePart s x) p)).view.2 ≠ [] := by
          rw [e4]; simpa [fileOps, List.append_assoc] using h
        exact this)
  rw [e4, map_lf, ← trun_append] at e5
  have e6 := view_clsIf (hasMixed s) (attachments.foldl PW.addFile
    (if hasRelated s = true then (embeds.foldl PW.addFile
      (if hasAlt s = true then ((s.parts.filter (fun x => !x.deleted && !x.smime)).foldl (fun p x => p.writePart s x) p).stopMP
        else (s.parts.filter (fun x => !x.deleted && !x.smime)).foldl (fun p x => p.writePart s x) p)).stopMP
     else embeds.foldl PW.addFile
      (if hasAlt s = true then ((s.parts.filter (fun x => !x.deleted && !x.smime)).foldl (fun p x => p.writePart s x) p).stopMP
        else (s.parts.filter (fun x => !x.deleted && !x.smime)).foldl (fun p x => p.writePart s x) p)))
  rw [e5, ← trun_append] at e6
  simpa [fileOps, List.append_assoc] using e6

end GoMail.Mime

namespace GoMail.Mime
open GoMail

def opnIf (c : Bool) (mt b : Bytes) : List Op := if c then [Op.opn mt b] else []

theorem layer_view (c : Bool) (s : MsgState) (p : PW) (mt cached fresh : Bytes) :
    (if c = true then openLayer s p mt cached fresh else (p, cached)).1.view =
      trun (opnIf c mt (if c = true then openLayer s p mt cached fresh else (p, cached)).2) p.view := by
  cases c <;> simp [opnIf, trun, view_openLayer]

/-- stageOpen (no S/MIME wrapper) as a trun of the abstract machine; the boundaries are the ones
    the render leaves in the boundary cache -/
theorem open_view (s : MsgState) (e : Entropy) (p : PW) :
    (stageOpen s e false p).1.view =
      trun (opnIf (hasMixed s) (sb "mixed") (stageOpen s e false p).2.bMixed ++
           opnIf (hasRelated s) (sb "related") (stageOpen s e false p).2.bRelated ++
           opnIf (hasAlt s) (sb "alternative") (stageOpen s e false p).2.bAlt) p.view := by
  unfold stageOpen
  simp only [Bool.false_eq_true, if_false]
  rw [trun_append, trun_append]
  rw [layer_view (hasAlt s), layer_view (hasRelated s), layer_view (hasMixed s)]

theorem stageOpen_decisions (s : MsgState) (e : Entropy) (p : PW) :
    hasAlt (stageOpen s e false p).2 = hasAlt s ∧ hasRelated (stageOpen s e false p).2 = hasRelated s ∧
    hasMixed (stageOpen s e false p).2 = hasMixed s := ⟨rfl, rfl, rfl⟩

end GoMail.Mime

namespace GoMail.Mime
open GoMail

def treeOf (hM hR hA : Bool) (bM bR bA : Bytes) (parts embeds atts : List Ent) : List Ent :=
  let alt := if hA then [Ent.multi (sb "alternative") bA parts] else parts
  let rel := if hR then [Ent.multi (sb "related") bR (alt ++ embeds)] else alt ++ embeds
  if hM then [Ent.multi (sb "mixed") bM (rel ++ atts)] else rel ++ atts

def openOps (hM hR hA : Bool) (bM bR bA : Bytes) : List Op :=
  opnIf hM (sb "mixed") bM ++ opnIf hR (sb "related") bR ++ opnIf hA (sb "alternative") bA

/-- The abstract machine trun over the operation sequence of a message is the serialisation of the
    message tree; the side conditions say that leaves are only written while a multipart is open. -/
theorem machine_spec (hM hR hA : Bool) (bM bR bA out : Bytes) (parts embeds atts : List Ent)
    (hany : hM = true ∨ hR = true ∨ hA = true)
    (he : hA = true → hR = false → embeds = [])
    (ha : (hA = true ∨ hR = true) → hM = false → atts = []) :
    (trun (openOps hM hR hA bM bR bA) (out, [])).2 ≠ [] ∧
    (embeds = [] ∨ (trun (parts.map Op.lf ++ clsIf hA) (trun (openOps hM hR hA bM bR bA) (out, []))).2 ≠ []) ∧
    (atts = [] ∨ (trun (parts.map Op.lf ++ clsIf hA ++ embeds.map Op.lf ++ clsIf hR) (trun (openOps hM hR hA bM bR bA) (out, []))).2 ≠ []) ∧
    ∃ top, treeOf hM hR hA bM bR bA parts embeds atts = [top] ∧
      trun (parts.map Op.lf ++ clsIf hA ++ embeds.map Op.lf ++ clsIf hR ++ atts.map Op.lf ++ clsIf hM)
        (trun (openOps hM hR hA bM bR bA) (out, [])) = (out ++ top.ser, []) := by
  cases hM <;> cases hR <;> cases hA
  · simp at hany
  all_goals simp only [openOps, opnIf, clsIf, treeOf, if_true, if_false, Bool.false_eq_true, List.nil_append, List.append_nil,
      trun_append, trun_cons, trun_nil, tstep, trun_leaves, List.cons_append]
  -- only alternative
  · have e1 := he rfl rfl
    have e2 := ha (Or.inl rfl) rfl
    subst e1; subst e2
    refine ⟨by simp, Or.inl rfl, Or.inl rfl, _, rfl, ?_⟩
    simp [trun, Ent.ser, serList, List.append_assoc]
  -- only related
  · have e2 := ha (Or.inr rfl) rfl
    subst e2
    refine ⟨by simp, Or.inr (by simp), Or.inl rfl, _, rfl, ?_⟩
    simp [trun, Ent.ser, serList, serList_append, List.append_assoc]
  -- related + alternative
  · have e2 := ha (Or.inl rfl) rfl
    subst e2
    refine ⟨by simp, Or.inr (by simp), Or.inl rfl, _, rfl, ?_⟩
    simp [trun, Ent.ser, serList, serList_append, List.append_assoc]
  -- only mixed
  · refine ⟨by simp, Or.inr (by simp), Or.inr (by simp), _, rfl, ?_⟩
    simp [trun, Ent.ser, serList, serList_append, List.append_assoc]
  -- mixed + alternative
  · have e1 := he rfl rfl
    subst e1
    refine ⟨by simp, Or.inl rfl, Or.inr (by simp), _, rfl, ?_⟩
    simp [trun, Ent.ser, serList, serList_append, List.append_assoc]
  -- mixed + related
  · refine ⟨by simp, Or.inr (by simp), Or.inr (by simp), _, rfl, ?_⟩
    simp [trun, Ent.ser, serList, serList_append, List.append_assoc]
  -- all three
  · refine ⟨by simp, Or.inr (by simp), Or.inr (by simp), _, rfl, ?_⟩
    simp [trun, Ent.ser, serList, serList_append, List.append_assoc]

end GoMail.Mime

namespace GoMail.Mime
open GoMail

theorem contentTree_eq (s : MsgState) (bM bR bA : Bytes) (embeds attachments : List FileM) :
    contentTree s bM bR bA embeds attachments =
      treeOf (hasMixed s) (hasRelated s) (hasAlt s) bM bR bA
        ((s.parts.filter (fun x => !x.deleted && !x.smime)).map (leafOfPart s)) (embeds.map leafOfFile) (attachments.map leafOfFile) := rfl

/-- which lists are empty when a layer is not needed (plain messages) -/
theorem plain_empty (s : MsgState) (h : Plain s) :
    (hasAlt s = true → hasRelated s = false → s.embeds.length = 0) ∧
    ((hasAlt s = true ∨ hasRelated s = true) → hasMixed s = false → s.attachments.length = 0) := by
  obtain ⟨hc, hb, _⟩ := plain_counts s h
  unfold hasAlt hasRelated hasMixed
  rw [hc, hb]
  unfold Generated.hasAlt Generated.hasRelated Generated.hasMixed
  simp only [Bool.and_eq_true, Bool.or_eq_true, decide_eq_true_eq, true_and, and_true, Bool.and_eq_false_iff,
    Bool.or_eq_false_iff, decide_eq_false_iff_not]
  constructor
  · intro h1 h2; simp only [not_true_eq_false, false_or] at h2; omega
  · intro h1 h2; simp only [not_true_eq_false, false_or] at h2; omega

/-- **Refinement.** For a message without deleted / signature parts that needs at least one multipart
    layer: after the message header (stack empty), the layer-opening stage followed by the content stage
    of writeMsg writes exactly the RFC 2046 serialisation of the message tree - alternative around the
    body parts, related around that and the embeds, mixed around that and the attachments, with the
    boundaries the render leaves in the cache - and closes every multipart it opened. -/
theorem multipart_refines (s : MsgState) (e : Entropy) (p0 : PW) (embeds attachments : List FileM)
    (hp : Plain s) (h0 : p0.stack = [])
    (hne : embeds.length = s.embeds.length) (hna : attachments.length = s.attachments.length)
    (hl : hasMixed s = true ∨ hasRelated s = true ∨ hasAlt s = true) :
    ∃ top, contentTree s (stageOpen s e false p0).2.bMixed (stageOpen s e false p0).2.bRelated (stageOpen s e false p0).2.bAlt
        embeds attachments = [top] ∧
      (stageContent s false (stageOpen s e false p0).1 embeds attachments).out = p0.out ++ top.ser ∧
      (stageContent s false (stageOpen s e false p0).1 embeds attachments).stack = [] := by
  obtain ⟨pe1, pe2⟩ := plain_empty s hp
  have he : hasAlt s = true → hasRelated s = false → embeds.map leafOfFile = [] := by
    intro a b
    have := pe1 a b
    have : embeds = [] := List.eq_nil_of_length_eq_zero (by omega)
    simp [this]
  have ha : (hasAlt s = true ∨ hasRelated s = true) → hasMixed s = false → attachments.map leafOfFile = [] := by
    intro a b
    have := pe2 a b
    have : attachments = [] := List.eq_nil_of_length_eq_zero (by omega)
    simp [this]
  have hv0 : p0.view = (p0.out, []) := by simp [PW.view, h0]
  have hopen := open_view s e p0
  rw [hv0] at hopen
  obtain ⟨m1, m2, m3, top, mt, mrun⟩ := machine_spec (hasMixed s) (hasRelated s) (hasAlt s)
    (stageOpen s e false p0).2.bMixed (stageOpen s e false p0).2.bRelated (stageOpen s e false p0).2.bAlt p0.out
    ((s.parts.filter (fun x => !x.deleted && !x.smime)).map (leafOfPart s)) (embeds.map leafOfFile) (attachments.map leafOfFile)
    hl he ha
  have hcv := content_view s (stageOpen s e false p0).1 embeds attachments
    (Or.inr (by
      have : (stageOpen s e false p0).1.view.2 ≠ [] := by rw [hopen]; exact m1
      exact this))
    (by
      rcases m2 with h | h
      · left; cases embeds with
        | nil => rfl
        | cons x xs => simp at h
      · right; rw [hopen]; exact h)
    (by
      rcases m3 with h | h
      · left; cases attachments with
        | nil => rfl
        | cons x xs => simp at h
      · right; rw [hopen]; exact h)
  rw [hopen] at hcv
  refine ⟨top, by rw [contentTree_eq]; exact mt, ?_, ?_⟩
  · have : (stageContent s false (stageOpen s e false p0).1 embeds attachments).view.1 = p0.out ++ top.ser := by
      rw [hcv]; unfold partOps fileOps; unfold openOps at mrun; rw [mrun]
    exact this
  · have : (stageContent s false (stageOpen s e false p0).1 embeds attachments).view.2 = [] := by
      rw [hcv]; unfold partOps fileOps; unfold openOps at mrun; rw [mrun]
    exact this

end GoMail.Mime

namespace GoMail.Mime
open GoMail

theorem header_stack (p : PW) (c : Bool) (k : Bytes) (vs : List Bytes) : (p.header c k vs).stack = p.stack := by
  unfold PW.header; split <;> rfl

theorem foldl_stack {α} (f : PW → α → PW) (hf : ∀ p x, (f p x).stack = p.stack) (l : List α) (p : PW) :
    (l.foldl f p).stack = p.stack := by
  induction l generalizing p with
  | nil => rfl
  | cons x xs ih => simp only [List.foldl_cons]; rw [ih, hf]

theorem stageHeaders_stack (s : MsgState) (p : PW) : (stageHeaders s p).stack = p.stack := by
  unfold stageHeaders
  simp only []
  rw [foldl_stack _ (by
    intro p kn
    split
    · exact header_stack _ _ _ _
    · rfl)]
  split
  · rw [header_stack, foldl_stack _ (by intro p kv; rfl), foldl_stack _ (by intro p kv; exact header_stack _ _ _ _)]
  · rw [foldl_stack _ (by intro p kv; rfl), foldl_stack _ (by intro p kv; exact header_stack _ _ _ _)]

/-- **C01, structure.** A complete render (no S/MIME) of a message without deleted parts that needs a
    multipart layer is: the message header fields, then the serialisation of the message tree. -/
theorem writeMsg_refines (s : MsgState) (e : Entropy) (hp : Plain s)
    (hl : hasMixed s = true ∨ hasRelated s = true ∨ hasAlt s = true) :
    ∃ top, contentTree (defaultHeaders s e) (writeMsg s e false).2.bMixed (writeMsg s e false).2.bRelated (writeMsg s e false).2.bAlt
        (writeMsg s e false).2.embeds (writeMsg s e false).2.attachments = [top] ∧
      planBytes (writeMsg s e false).1.acts = (stageHeaders (defaultHeaders s e) {}).out ++ top.ser := by
  have hp' : Plain (defaultHeaders s e) := hp
  have h0 : (stageHeaders (defaultHeaders s e) {}).stack = [] := by rw [stageHeaders_stack]
  obtain ⟨top, h1, h2, _⟩ := multipart_refines (defaultHeaders s e) e (stageHeaders (defaultHeaders s e) {})
    ((stageOpen (defaultHeaders s e) e false (stageHeaders (defaultHeaders s e) {})).2.embeds.map
      (fileHeaders (stageOpen (defaultHeaders s e) e false (stageHeaders (defaultHeaders s e) {})).2 false))
    ((stageOpen (defaultHeaders s e) e false (stageHeaders (defaultHeaders s e) {})).2.attachments.map
      (fileHeaders (stageOpen (defaultHeaders s e) e false (stageHeaders (defaultHeaders s e) {})).2 true))
    hp' h0 (by simp [stageOpen]) (by simp [stageOpen]) hl
  exact ⟨top, h1, h2⟩

end GoMail.Mime

namespace GoMail.Mime
open GoMail

mutual
/-- the leaves of an entity, in document order -/
def Ent.leaves : Ent → List Ent
  | .leaf h b => [.leaf h b]
  | .multi _ _ cs => leavesL cs
def leavesL : List Ent → List Ent
  | [] => []
  | c :: cs => c.leaves ++ leavesL cs
end

theorem leavesL_append (a b : List Ent) : leavesL (a ++ b) = leavesL a ++ leavesL b := by
  induction a with
  | nil => simp [leavesL]
  | cons x xs ih => simp [leavesL, ih, List.append_assoc]

def IsLeaf : Ent → Prop
  | .leaf _ _ => True
  | .multi _ _ _ => False

theorem leavesL_of_leaves (l : List Ent) (h : ∀ e ∈ l, IsLeaf e) : leavesL l = l := by
  induction l with
  | nil => simp [leavesL]
  | cons x xs ih =>
    have hx := h x (by simp)
    cases x with
    | leaf hd b => simp [leavesL, Ent.leaves, ih (fun e he => h e (by simp [he]))]
    | multi a b c => exact absurd hx (by simp [IsLeaf])

theorem treeOf_leaves (hM hR hA : Bool) (bM bR bA : Bytes) (parts embeds atts : List Ent)
    (h1 : ∀ e ∈ parts, IsLeaf e) (h2 : ∀ e ∈ embeds, IsLeaf e) (h3 : ∀ e ∈ atts, IsLeaf e) :
    leavesL (treeOf hM hR hA bM bR bA parts embeds atts) = parts ++ embeds ++ atts := by
  have l1 := leavesL_of_leaves parts h1
  have l2 := leavesL_of_leaves embeds h2
  have l3 := leavesL_of_leaves atts h3
  cases hM <;> cases hR <;> cases hA <;>
    simp [treeOf, leavesL, Ent.leaves, leavesL_append, l1, l2, l3, List.append_assoc]

theorem contentTree_leaves (s : MsgState) (bM bR bA : Bytes) (embeds attachments : List FileM) :
    leavesL (contentTree s bM bR bA embeds attachments) =
      (s.parts.filter (fun x => !x.deleted && !x.smime)).map (leafOfPart s) ++ embeds.map leafOfFile ++ attachments.map leafOfFile := by
  rw [contentTree_eq]
  apply treeOf_leaves
  · intro e he; obtain ⟨x, _, rfl⟩ := List.mem_map.mp he; simp [leafOfPart, IsLeaf]
  · intro e he; obtain ⟨x, _, rfl⟩ := List.mem_map.mp he; simp [leafOfFile, IsLeaf]
  · intro e he; obtain ⟨x, _, rfl⟩ := List.mem_map.mp he; simp [leafOfFile, IsLeaf]

end GoMail.Mime

namespace GoMail.Mime
open GoMail

/-! ### inside an already open multipart (the S/MIME wrapper): no side conditions at all -/

theorem machine_nested (hM hR hA : Bool) (bM bR bA out b0 : Bytes) (l0 : Bool) (rest : List (Bytes × Bool))
    (parts embeds atts : List Ent) :
    (trun (openOps hM hR hA bM bR bA) (out, (b0, l0) :: rest)).2 ≠ [] ∧
    (trun (parts.map Op.lf ++ clsIf hA) (trun (openOps hM hR hA bM bR bA) (out, (b0, l0) :: rest))).2 ≠ [] ∧
    (trun (parts.map Op.lf ++ clsIf hA ++ embeds.map Op.lf ++ clsIf hR) (trun (openOps hM hR hA bM bR bA) (out, (b0, l0) :: rest))).2 ≠ [] ∧
    trun (parts.map Op.lf ++ clsIf hA ++ embeds.map Op.lf ++ clsIf hR ++ atts.map Op.lf ++ clsIf hM)
        (trun (openOps hM hR hA bM bR bA) (out, (b0, l0) :: rest)) =
      (out ++ serList b0 l0 (treeOf hM hR hA bM bR bA parts embeds atts),
       (b0, l0 || !(treeOf hM hR hA bM bR bA parts embeds atts).isEmpty) :: rest) := by
  cases hM <;> cases hR <;> cases hA
  all_goals simp only [openOps, opnIf, clsIf, treeOf, if_true, if_false, Bool.false_eq_true, List.nil_append, List.append_nil,
      trun_append, trun_cons, trun_nil, tstep, trun_leaves, List.cons_append]
  all_goals simp [Ent.ser, serList, serList_append, List.append_assoc]
  cases parts <;> cases embeds <;> cases atts <;> simp

/-- the layer-opening and content stages of writeMsg inside an open multipart (stack not empty):
    they write the message tree behind delimiters of that multipart -/
theorem nested_refines (s : MsgState) (e : Entropy) (p0 : PW) (embeds attachments : List FileM)
    (b0 : Bytes) (l0 : Bool) (rest : List (Bytes × Bool)) (h0 : p0.stack = (b0, l0) :: rest) :
    (stageContent s false (stageOpen s e false p0).1 embeds attachments).out =
      p0.out ++ serList b0 l0 (contentTree s (stageOpen s e false p0).2.bMixed (stageOpen s e false p0).2.bRelated
        (stageOpen s e false p0).2.bAlt embeds attachments) ∧
    (stageContent s false (stageOpen s e false p0).1 embeds attachments).stack =
      (b0, l0 || !(contentTree s (stageOpen s e false p0).2.bMixed (stageOpen s e false p0).2.bRelated
        (stageOpen s e false p0).2.bAlt embeds attachments).isEmpty) :: rest := by
  have hv0 : p0.view = (p0.out, (b0, l0) :: rest) := by simp [PW.view, h0]
  have hopen := open_view s e p0
  rw [hv0] at hopen
  obtain ⟨m1, m2, m3, mrun⟩ := machine_nested (hasMixed s) (hasRelated s) (hasAlt s)
    (stageOpen s e false p0).2.bMixed (stageOpen s e false p0).2.bRelated (stageOpen s e false p0).2.bAlt p0.out b0 l0 rest
    ((s.parts.filter (fun x => !x.deleted && !x.smime)).map (leafOfPart s)) (embeds.map leafOfFile) (attachments.map leafOfFile)
  have hcv := content_view s (stageOpen s e false p0).1 embeds attachments
    (Or.inr (by
      have : (stageOpen s e false p0).1.view.2 ≠ [] := by rw [hopen]; exact m1
      exact this))
    (Or.inr (by rw [hopen]; exact m2))
    (Or.inr (by rw [hopen]; exact m3))
  rw [hopen] at hcv
  unfold openOps at mrun
  constructor
  · rw [contentTree_eq]
    show (stageContent s false (stageOpen s e false p0).1 embeds attachments).view.1 = _
    rw [hcv]; unfold partOps fileOps; rw [mrun]
  · rw [contentTree_eq]
    show (stageContent s false (stageOpen s e false p0).1 embeds attachments).view.2 = _
    rw [hcv]; unfold partOps fileOps; rw [mrun]

end GoMail.Mime

namespace GoMail.Mime
open GoMail

theorem stageOpen_outer (s : MsgState) (e : Entropy) (p : PW) :
    stageOpen s e true p = stageOpen s e false (((p.startMP mimeSigned e.bSigned e.bSigned).1).str (crlf ++ crlf)) := by
  unfold stageOpen; simp

theorem stageContent_outer (s : MsgState) (p : PW) (embeds attachments : List FileM) :
    stageContent s true p embeds attachments =
      ((s.parts.filter (·.smime)).foldl (fun p x => p.writePart s x) (stageContent s false p embeds attachments)).stopMP := by
  unfold stageContent; simp

/-- **The signed render is a multipart/signed around the message tree and the signature part.**
    After the message header (stack empty), the stages of writeMsg with the S/MIME wrapper write
    exactly the serialisation of ONE entity: multipart/signed (protocol, micalg) whose children are
    the message tree followed by the signature part(s), closed with the boundary it was opened with. -/
theorem signed_refines (s : MsgState) (e : Entropy) (p : PW) (embeds attachments : List FileM) (h0 : p.stack = []) :
    (stageContent s true (stageOpen s e true p).1 embeds attachments).out =
      p.out ++ (Ent.multi mimeSigned (p.startMP mimeSigned e.bSigned e.bSigned).2
        (contentTree s (stageOpen s e true p).2.bMixed (stageOpen s e true p).2.bRelated (stageOpen s e true p).2.bAlt embeds attachments ++
          (s.parts.filter (·.smime)).map (leafOfPart s))).ser ∧
    (stageContent s true (stageOpen s e true p).1 embeds attachments).stack = [] := by
  obtain ⟨t1, t2⟩ := startMP_top p mimeSigned e.bSigned e.bSigned h0
  obtain ⟨u1, u2⟩ := str_out (p.startMP mimeSigned e.bSigned e.bSigned).1 (crlf ++ crlf)
  have hst : (((p.startMP mimeSigned e.bSigned e.bSigned).1).str (crlf ++ crlf)).stack =
      [((p.startMP mimeSigned e.bSigned e.bSigned).2, false)] := by rw [u2, t2]
  have hout : (((p.startMP mimeSigned e.bSigned e.bSigned).1).str (crlf ++ crlf)).out =
      p.out ++ multiHead mimeSigned (p.startMP mimeSigned e.bSigned e.bSigned).2 := by
    rw [u1, t1]; simp [multiHead, List.append_assoc]
  rw [stageOpen_outer, stageContent_outer]
  obtain ⟨n1, n2⟩ := nested_refines s e (((p.startMP mimeSigned e.bSigned e.bSigned).1).str (crlf ++ crlf)) embeds attachments
    (p.startMP mimeSigned e.bSigned e.bSigned).2 false [] hst
  obtain ⟨f1, f2⟩ := foldl_leaves (fun p x => p.writePart s x) (leafOfPart s) (fun p x b l rest hs => writePart_out p s x b l rest hs)
    (s.parts.filter (·.smime)) _ _ _ _ n2
  obtain ⟨c1, c2⟩ := stopMP_out _ _ _ _ f2
  refine ⟨?_, c2⟩
  rw [c1, f1, n1, hout]
  simp [Ent.ser, serList_append, List.append_assoc]

end GoMail.Mime

namespace GoMail.Mime
open GoMail

/-! ### messages without any multipart layer: one leaf at the top level, its headers folded -/

/-- header lines as msgWriter.writeHeader writes them (folded at blanks), one field per entry -/
def foldedLines (h : HeaderMap) : Bytes := (h.map (fun kv => Fold.bufferString kv.1 [kv.2] ++ crlf)).flatten

/-- a leaf as it stands at the top level of a message: folded header fields, empty line, body -/
def Ent.serTop : Ent → Bytes
  | .leaf h body => foldedLines h ++ crlf ++ body
  | .multi st b cs => (Ent.multi st b cs).ser

theorem header_out (p : PW) (c : Bool) (k v : Bytes) :
    (p.header c k [v]).out = p.out ++ Fold.bufferString k [v] ++ crlf ∧ (p.header c k [v]).stack = p.stack ∧
    (p.header c k [v]).rawPartHeaders = p.rawPartHeaders := by
  unfold PW.header PW.out
  simp [planBytes, WAct.bytes, List.append_assoc]

theorem partHeader_out (p : PW) (k v : Bytes) (hr : p.rawPartHeaders = false) :
    (p.partHeader k [v]).out = p.out ++ Fold.bufferString k [v] ++ crlf ∧ (p.partHeader k [v]).stack = p.stack ∧
    (p.partHeader k [v]).rawPartHeaders = false := by
  unfold PW.partHeader
  simp only [hr, Bool.false_eq_true, if_false]
  obtain ⟨a, b, c⟩ := header_out p false k v
  exact ⟨a, b, by rw [c, hr]⟩

theorem foldl_partHeader_out (h : HeaderMap) (p : PW) (hr : p.rawPartHeaders = false) :
    (h.foldl (fun p kv => p.partHeader kv.1 [kv.2]) p).out = p.out ++ foldedLines h ∧
    (h.foldl (fun p kv => p.partHeader kv.1 [kv.2]) p).stack = p.stack := by
  induction h generalizing p with
  | nil => simp [foldedLines]
  | cons x xs ih =>
    obtain ⟨a, b, c⟩ := partHeader_out p x.1 x.2 hr
    obtain ⟨i1, i2⟩ := ih (p.partHeader x.1 [x.2]) c
    simp only [List.foldl_cons]
    refine ⟨?_, by rw [i2, b]⟩
    rw [i1, a]
    simp [foldedLines, List.append_assoc]

/-- a body part written at the top level (no multipart open, not the signing pre-render) -/
theorem writePart_top (p : PW) (s : MsgState) (part : Part) (h0 : p.stack = []) (hr : p.rawPartHeaders = false) :
    (p.writePart s part).out = p.out ++ (leafOfPart s part).serTop ∧ (p.writePart s part).stack = [] := by
  have hd : (p.depth == 0) = true := by simp [PW.depth, h0]
  unfold PW.writePart
  simp only [hd, if_true]
  by_cases hde : part.desc.isEmpty = true
  · simp only [hde, if_true]
    obtain ⟨a1, b1, c1⟩ := partHeader_out p hCTE part.enc hr
    obtain ⟨a2, b2, c2⟩ := partHeader_out (p.partHeader hCTE [part.enc]) hContentType
      (if part.smime then part.ctype else part.ctype ++ sb "; charset=" ++ (if part.charset.isEmpty then s.charset else part.charset)) c1
    obtain ⟨a3, b3⟩ := str_out ((p.partHeader hCTE [part.enc]).partHeader hContentType
      [if part.smime then part.ctype else part.ctype ++ sb "; charset=" ++ (if part.charset.isEmpty then s.charset else part.charset)]) crlf
    obtain ⟨a4, b4⟩ := body_out (((p.partHeader hCTE [part.enc]).partHeader hContentType
      [if part.smime then part.ctype else part.ctype ++ sb "; charset=" ++ (if part.charset.isEmpty then s.charset else part.charset)]).str crlf)
      part.enc part.prod
    refine ⟨?_, by rw [b4, b3, b2, b1, h0]⟩
    rw [a4, a3, a2, a1]
    simp [leafOfPart, Ent.serTop, foldedLines, hde, List.append_assoc]
  · simp only [hde, Bool.false_eq_true, if_false]
    obtain ⟨a0, b0, c0⟩ := partHeader_out p hContentDesc (EncodedWord.wordEncode (encoderOf s.encoding) s.charset part.desc) hr
    obtain ⟨a1, b1, c1⟩ := partHeader_out _ hCTE part.enc c0
    obtain ⟨a2, b2, c2⟩ := partHeader_out _ hContentType
      (if part.smime then part.ctype else part.ctype ++ sb "; charset=" ++ (if part.charset.isEmpty then s.charset else part.charset)) c1
    obtain ⟨a3, b3⟩ := str_out (((p.partHeader hContentDesc [EncodedWord.wordEncode (encoderOf s.encoding) s.charset part.desc]).partHeader hCTE [part.enc]).partHeader hContentType
      [if part.smime then part.ctype else part.ctype ++ sb "; charset=" ++ (if part.charset.isEmpty then s.charset else part.charset)]) crlf
    obtain ⟨a4, b4⟩ := body_out ((((p.partHeader hContentDesc [EncodedWord.wordEncode (encoderOf s.encoding) s.charset part.desc]).partHeader hCTE [part.enc]).partHeader hContentType
      [if part.smime then part.ctype else part.ctype ++ sb "; charset=" ++ (if part.charset.isEmpty then s.charset else part.charset)]).str crlf)
      part.enc part.prod
    refine ⟨?_, by rw [b4, b3, b2, b1, b0, h0]⟩
    rw [a4, a3, a2, a1, a0]
    simp [leafOfPart, Ent.serTop, foldedLines, hde, List.append_assoc]

/-- a file written at the top level -/
theorem addFile_top (p : PW) (f : FileM) (h0 : p.stack = []) (hr : p.rawPartHeaders = false) :
    (p.addFile f).out = p.out ++ (leafOfFile f).serTop ∧ (p.addFile f).stack = [] := by
  have hd : (p.depth == 0) = true := by simp [PW.depth, h0]
  unfold PW.addFile
  simp only [hd, if_true]
  obtain ⟨a1, b1⟩ := foldl_partHeader_out f.header p hr
  obtain ⟨a2, b2⟩ := str_out (f.header.foldl (fun p kv => p.partHeader kv.1 [kv.2]) p) crlf
  obtain ⟨a3, b3⟩ := body_out ((f.header.foldl (fun p kv => p.partHeader kv.1 [kv.2]) p).str crlf)
    (if f.enc.isEmpty then encB64 else f.enc) f.prod
  refine ⟨?_, by rw [b3, b2, b1, h0]⟩
  rw [a3, a2, a1]
  simp [leafOfFile, Ent.serTop, List.append_assoc]

end GoMail.Mime

namespace GoMail.Mime
open GoMail

/-- without any layer a plain message has at most one leaf -/
theorem plain_nolayer (s : MsgState) (h : Plain s) (hM : hasMixed s = false) (hR : hasRelated s = false) (hA : hasAlt s = false) :
    s.parts.length + s.embeds.length + s.attachments.length ≤ 1 := by
  obtain ⟨hc, hb, _⟩ := plain_counts s h
  unfold hasAlt at hA; unfold hasRelated at hR; unfold hasMixed at hM
  rw [hc, hb] at hA hR hM
  unfold Generated.hasAlt at hA; unfold Generated.hasRelated at hR; unfold Generated.hasMixed at hM
  simp only [Bool.and_eq_false_iff, Bool.or_eq_false_iff, decide_eq_false_iff_not, Bool.and_eq_true, Bool.or_eq_true,
    decide_eq_true_eq, not_true_eq_false, false_or, not_and, not_or] at hA hR hM
  simp only [or_false] at hA
  omega

/-- **Messages without a multipart layer**: the content stage writes the single leaf (body part, embed or
    attachment) at the top level - its header fields folded by writeHeader, an empty line, the encoded
    body - or nothing at all. -/
theorem single_refines (s : MsgState) (e : Entropy) (p : PW) (embeds attachments : List FileM)
    (hp : Plain s) (h0 : p.stack = []) (hr : p.rawPartHeaders = false)
    (hne : embeds.length = s.embeds.length) (hna : attachments.length = s.attachments.length)
    (hM : hasMixed s = false) (hR : hasRelated s = false) (hA : hasAlt s = false) :
    (stageContent s false (stageOpen s e false p).1 embeds attachments).out =
      p.out ++ ((contentTree s (stageOpen s e false p).2.bMixed (stageOpen s e false p).2.bRelated (stageOpen s e false p).2.bAlt
        embeds attachments).map Ent.serTop).flatten ∧
    (contentTree s (stageOpen s e false p).2.bMixed (stageOpen s e false p).2.bRelated (stageOpen s e false p).2.bAlt
        embeds attachments).length ≤ 1 := by
  have hlen := plain_nolayer s hp hM hR hA
  obtain ⟨_, _, hf⟩ := plain_counts s hp
  have hopen : (stageOpen s e false p).1 = p := by unfold stageOpen; simp [hM, hR, hA]
  rw [hopen]
  unfold stageContent contentTree
  simp only [hM, hR, hA, Bool.false_eq_true, if_false, hf]
  -- at most one of the three lists has an element
  match hps : s.parts, hes : embeds, has : attachments with
  | [], [], [] => simp
  | [x], [], [] =>
    obtain ⟨a, _⟩ := writePart_top p s x h0 hr
    simp [a]
  | [], [f], [] =>
    obtain ⟨a, _⟩ := addFile_top p f h0 hr
    simp [a]
  | [], [], [f] =>
    obtain ⟨a, _⟩ := addFile_top p f h0 hr
    simp [a]
  | _ :: _ :: _, _, _ => (exfalso; (try rw [hps] at hlen); simp only [List.length_cons, List.length_nil] at hlen hne hna; omega)
  | _ :: _, _ :: _, _ => (exfalso; (try rw [hps] at hlen); simp only [List.length_cons, List.length_nil] at hlen hne hna; omega)
  | _ :: _, _, _ :: _ => (exfalso; (try rw [hps] at hlen); simp only [List.length_cons, List.length_nil] at hlen hne hna; omega)
  | _, _ :: _ :: _, _ => (exfalso; (try rw [hps] at hlen); simp only [List.length_cons, List.length_nil] at hlen hne hna; omega)
  | _, _ :: _, _ :: _ => (exfalso; (try rw [hps] at hlen); simp only [List.length_cons, List.length_nil] at hlen hne hna; omega)
  | _, _, _ :: _ :: _ => (exfalso; (try rw [hps] at hlen); simp only [List.length_cons, List.length_nil] at hlen hne hna; omega)

end GoMail.Mime

namespace GoMail.Mime
open GoMail

theorem header_raw (p : PW) (c : Bool) (k : Bytes) (vs : List Bytes) : (p.header c k vs).rawPartHeaders = p.rawPartHeaders := by
  unfold PW.header; split <;> rfl

theorem foldl_raw {α} (f : PW → α → PW) (hf : ∀ p x, (f p x).rawPartHeaders = p.rawPartHeaders) (l : List α) (p : PW) :
    (l.foldl f p).rawPartHeaders = p.rawPartHeaders := by
  induction l generalizing p with
  | nil => rfl
  | cons x xs ih => simp only [List.foldl_cons]; rw [ih, hf]

theorem stageHeaders_raw (s : MsgState) (p : PW) : (stageHeaders s p).rawPartHeaders = p.rawPartHeaders := by
  unfold stageHeaders
  simp only []
  rw [foldl_raw _ (by
    intro p kn
    split
    · exact header_raw _ _ _ _
    · rfl)]
  split
  · rw [header_raw, foldl_raw _ (by intro p kv; rfl), foldl_raw _ (by intro p kv; exact header_raw _ _ _ _)]
  · rw [foldl_raw _ (by intro p kv; rfl), foldl_raw _ (by intro p kv; exact header_raw _ _ _ _)]

theorem treeOf_top_multi (hM hR hA : Bool) (bM bR bA : Bytes) (parts embeds atts : List Ent) (top : Ent)
    (hl : hM = true ∨ hR = true ∨ hA = true) (h : treeOf hM hR hA bM bR bA parts embeds atts = [top])
    (he : hA = true → hR = false → embeds = []) (ha : (hA = true ∨ hR = true) → hM = false → atts = []) :
    top.serTop = top.ser := by
  cases hM <;> cases hR <;> cases hA
  · simp at hl
  · have e1 := he rfl rfl; have e2 := ha (Or.inl rfl) rfl
    subst e1; subst e2
    simp [treeOf] at h; subst h; rfl
  · have e2 := ha (Or.inr rfl) rfl
    subst e2
    simp [treeOf] at h; subst h; rfl
  · have e2 := ha (Or.inl rfl) rfl
    subst e2
    simp [treeOf] at h; subst h; rfl
  all_goals (simp [treeOf] at h; subst h; rfl)

/-- **Every render (no S/MIME) of a message without deleted parts**: the message header fields, then the
    message tree - one multipart entity when a layer is needed, else the single leaf at the top level
    with its header fields folded, or nothing. -/
theorem writeMsg_refines_all (s : MsgState) (e : Entropy) (hp : Plain s) :
    planBytes (writeMsg s e false).1.acts = (stageHeaders (defaultHeaders s e) {}).out ++
      ((contentTree (defaultHeaders s e) (writeMsg s e false).2.bMixed (writeMsg s e false).2.bRelated (writeMsg s e false).2.bAlt
        (writeMsg s e false).2.embeds (writeMsg s e false).2.attachments).map Ent.serTop).flatten := by
  by_cases hl : hasMixed s = true ∨ hasRelated s = true ∨ hasAlt s = true
  · obtain ⟨top, t1, b1⟩ := writeMsg_refines s e hp hl
    rw [b1, t1]
    obtain ⟨pe1, pe2⟩ := plain_empty s hp
    have : top.serTop = top.ser := by
      rw [contentTree_eq] at t1
      refine treeOf_top_multi _ _ _ _ _ _ _ _ _ top hl t1 ?_ ?_
      · intro a b
        have := pe1 a b
        have h0 : (writeMsg s e false).2.embeds = [] := by
          apply List.eq_nil_of_length_eq_zero
          show (List.map _ _).length = 0
          simp [stageOpen, defaultHeaders]; exact List.eq_nil_of_length_eq_zero this
        rw [h0]; rfl
      · intro a b
        have := pe2 a b
        have h0 : (writeMsg s e false).2.attachments = [] := by
          apply List.eq_nil_of_length_eq_zero
          show (List.map _ _).length = 0
          simp [stageOpen, defaultHeaders]; exact List.eq_nil_of_length_eq_zero this
        rw [h0]; rfl
    simp [this]
  · have hM : hasMixed s = false := by cases h : hasMixed s <;> simp_all
    have hR : hasRelated s = false := by cases h : hasRelated s <;> simp_all
    have hA : hasAlt s = false := by cases h : hasAlt s <;> simp_all
    have h0 : (stageHeaders (defaultHeaders s e) {}).stack = [] := by rw [stageHeaders_stack]
    have hr : (stageHeaders (defaultHeaders s e) {}).rawPartHeaders = false := by rw [stageHeaders_raw]
    have hp' : Plain (defaultHeaders s e) := hp
    obtain ⟨a, _⟩ := single_refines (defaultHeaders s e) e (stageHeaders (defaultHeaders s e) {})
      ((stageOpen (defaultHeaders s e) e false (stageHeaders (defaultHeaders s e) {})).2.embeds.map
        (fileHeaders (stageOpen (defaultHeaders s e) e false (stageHeaders (defaultHeaders s e) {})).2 false))
      ((stageOpen (defaultHeaders s e) e false (stageHeaders (defaultHeaders s e) {})).2.attachments.map
        (fileHeaders (stageOpen (defaultHeaders s e) e false (stageHeaders (defaultHeaders s e) {})).2 true))
      hp' h0 hr (by simp [stageOpen]) (by simp [stageOpen]) hM hR hA
    exact a

end GoMail.Mime
