import GoMailModel.Basic.Bytes
/- strings.Split on one separator byte: concatenations -/
namespace GoMail

theorem splitOnAux_no_sep (sep : UInt8) (acc xs : Bytes) (h : ∀ b ∈ xs, b ≠ sep) :
    splitOnAux sep acc xs = [acc.reverse ++ xs] := by
  induction xs generalizing acc with
  | nil => simp [splitOnAux]
  | cons b rest ih =>
    have hb : (b == sep) = false := by simpa using h b (by simp)
    simp only [splitOnAux, hb, Bool.false_eq_true, if_false]
    rw [ih (b :: acc) (fun x hx => h x (by simp [hx]))]
    simp

theorem splitOnAux_at_sep (sep : UInt8) (acc a b : Bytes) (h : ∀ x ∈ a, x ≠ sep) :
    splitOnAux sep acc (a ++ sep :: b) = (acc.reverse ++ a) :: splitOnAux sep [] b := by
  induction a generalizing acc with
  | nil => simp [splitOnAux]
  | cons x xs ih =>
    have hx : (x == sep) = false := by simpa using h x (by simp)
    simp only [List.cons_append, splitOnAux, hx, Bool.false_eq_true, if_false]
    rw [ih (x :: acc) (fun y hy => h y (by simp [hy]))]
    simp

theorem splitOn_three (sep : UInt8) (a b c : Bytes) (ha : ∀ x ∈ a, x ≠ sep) (hb : ∀ x ∈ b, x ≠ sep)
    (hc : ∀ x ∈ c, x ≠ sep) : splitOn sep (a ++ sep :: (b ++ sep :: c)) = [a, b, c] := by
  unfold splitOn
  rw [splitOnAux_at_sep sep [] a _ ha, splitOnAux_at_sep sep [] b _ hb, splitOnAux_no_sep sep [] c hc]
  simp

end GoMail
