import GoMailModel.Smtp.Dial
/-
  Invariant "the connection deadline is armed and no wait on a silent server happened without one",
  preserved by every operation of the session model.
-/
namespace GoMail.Smtp
open GoMail

def Good (c : Conn) : Prop :=
  c.armed = true ∧ (∀ e ∈ c.trace, e ≠ .stall false) ∧ (c.isConnected = false → c.cliOpen = false)

theorem good_ev (c : Conn) (e : Ev) (h : Good c) (he : e ≠ .stall false) : Good (c.ev e) := by
  refine ⟨h.1, ?_, h.2.2⟩
  intro x hx
  simp only [Conn.ev, List.mem_append, List.mem_singleton] at hx
  rcases hx with hx | hx
  · exact h.2.1 x hx
  · subst hx; exact he

theorem good_log (c : Conn) (r : LogRec) (h : Good c) : Good (c.log r) := by
  unfold Conn.log; split <;> exact h

/-- a state that agrees on `armed`, `trace`, `isConnected` and `cliOpen` is as good -/
theorem good_of_eq (c c' : Conn) (h : Good c) (ha : c'.armed = c.armed) (ht : c'.trace = c.trace)
    (hi : c'.isConnected = c.isConnected := by rfl) (ho : c'.cliOpen = c.cliOpen := by rfl) : Good c' := by
  unfold Good; rw [ha, ht, hi, ho]; exact h

theorem good_close (c : Conn) (h : Good c) : Good c.close := by
  unfold Conn.close
  split
  · have hg := good_ev c .close h (by simp)
    exact ⟨hg.1, hg.2.1, fun _ => rfl⟩
  · rename_i ho
    exact ⟨h.1, h.2.1, fun _ => by simpa using ho⟩

theorem good_pop (c : Conn) (h : Good c) : Good c.pop.2 := by
  unfold Conn.pop; split
  · exact h
  · exact good_of_eq c _ h rfl rfl

theorem good_waitSilent (c : Conn) (h : Good c) : Good c.waitSilent.1 := by
  unfold Conn.waitSilent
  exact good_ev c _ h (by rw [h.1]; simp)

theorem good_replied (c : Conn) (v : Verb) (n code : Nat) (t : Bytes) (h : Good c) : Good (c.replied v n code t).1 := by
  unfold Conn.replied
  simp only []
  have h1 : Good (c.ev (.reply code)) := good_ev c _ h (by simp)
  split <;> split <;> first | exact h1 | exact good_of_eq _ _ h1 rfl rfl

theorem good_applyAct (c : Conn) (v : Verb) (n : Nat) (a : Act) (h : Good c) : Good (c.applyAct v n a).1 := by
  cases a with
  | ok => exact good_replied c v n _ _ h
  | reply code text => exact good_replied c v n code text h
  | drop => exact good_of_eq (c.ev .drop) _ (good_ev c _ h (by simp)) rfl rfl
  | stall => exact good_waitSilent _ (good_of_eq c _ h rfl rfl)
  | garbage => exact good_ev c _ h (by simp)
  | tlsBad => exact good_ev c _ h (by simp)
  | deaf => exact good_of_eq _ _ (good_replied c v n _ _ h) rfl rfl

theorem good_serverTurn (c : Conn) (v : Verb) (n : Nat) (h : Good c) : Good (c.serverTurn v n).1 := by
  unfold Conn.serverTurn
  split
  · exact h
  · split
    · exact good_waitSilent c h
    · exact good_applyAct _ v n _ (good_pop c h)

theorem good_send (c : Conn) (v : Verb) (line : Bytes) (h : Good c) : Good (c.send v line) := by
  unfold Conn.send; split
  · exact h
  · exact good_ev c _ h (by simp)

theorem good_cmd (c : Conn) (v : Verb) (line : Bytes) (n : Nat) (h : Good c) : Good (c.cmd v line n).1 := by
  unfold Conn.cmd
  split
  · exact good_log _ _ h
  · exact good_log _ _ (good_serverTurn _ v n (good_send _ v line (good_log _ _ h)))

theorem good_updateDeadline (c : Conn) : c.cliOpen = true → (∀ e ∈ c.trace, e ≠ .stall false) →
    (c.isConnected = false → False) → Good c.updateDeadline.1 := by
  intro ho ht hj
  unfold Conn.updateDeadline
  simp only [ho, Bool.not_true, Bool.false_eq_true, if_false]
  refine ⟨rfl, ?_, fun hc => absurd hc (by intro hx; exact hj hx)⟩
  intro x hx
  simp only [Conn.ev, List.mem_append, List.mem_singleton] at hx
  rcases hx with hx | hx
  · exact ht x hx
  · subst hx; simp

theorem good_updateDeadline' (c : Conn) (h : Good c) : Good c.updateDeadline.1 := by
  unfold Conn.updateDeadline
  split
  · exact h
  · have hg := good_ev c .deadline h (by simp)
    exact ⟨rfl, hg.2.1, h.2.2⟩

end GoMail.Smtp

namespace GoMail.Smtp
open GoMail

theorem good_ehlo (c : Conn) (h : Good c) : Good c.ehlo.1 := by
  unfold Conn.ehlo
  have hc := good_cmd c .ehlo (sb "EHLO " ++ c.localName) 250 h
  rcases hr : c.cmd .ehlo (sb "EHLO " ++ c.localName) 250 with ⟨c1, r⟩
  rw [hr] at hc
  cases r with
  | error e => exact hc
  | ok v =>
    simp only []
    split <;> exact good_of_eq c1 _ hc rfl rfl

theorem good_helo (c : Conn) (h : Good c) : Good c.helo.1 := by
  unfold Conn.helo
  simp only []
  have hc := good_cmd { c with ext := none } .helo (sb "HELO " ++ c.localName) 250 (good_of_eq c _ h rfl rfl)
  rcases hr : Conn.cmd { c with ext := none } .helo (sb "HELO " ++ c.localName) 250 with ⟨c1, r⟩
  rw [hr] at hc
  cases r <;> exact hc

theorem good_hello (c : Conn) (h : Good c) : Good c.hello.1 := by
  unfold Conn.hello
  split
  · exact h
  · simp only []
    have h1 := good_ehlo { c with didHello := true } (good_of_eq c _ h rfl rfl)
    rcases hr : Conn.ehlo { c with didHello := true } with ⟨c1, r⟩
    rw [hr] at h1
    cases r with
    | none => exact h1
    | some e =>
      simp only []
      have h2 := good_helo c1 h1
      rcases hr2 : c1.helo with ⟨c2, r2⟩
      rw [hr2] at h2
      exact good_of_eq c2 _ h2 rfl rfl

theorem good_Hello (c : Conn) (name : Bytes) (h : Good c) : Good (c.Hello name).1 := by
  unfold Conn.Hello
  split
  · exact h
  · split
    · exact h
    · exact good_hello _ (good_of_eq c _ h rfl rfl)

theorem good_extension (c : Conn) (k : String) (h : Good c) : Good (c.extension k).1 := by
  unfold Conn.extension
  have h1 := good_hello c h
  rcases hr : c.hello with ⟨c1, r⟩
  rw [hr] at h1
  cases r <;> exact h1

/-- the common shape: hello, then one command -/
theorem good_after_hello (c : Conn) (h : Good c) (k : Conn → Conn × Option Err)
    (hk : ∀ c, Good c → Good (k c).1) :
    Good (match c.hello with | (c, some e) => (c, some e) | (c, none) => k c).1 := by
  have h1 := good_hello c h
  rcases hr : c.hello with ⟨c1, r⟩
  rw [hr] at h1
  cases r with
  | some e => exact h1
  | none => exact hk c1 h1

theorem good_cmd_opt (c : Conn) (v : Verb) (line : Bytes) (n : Nat) (h : Good c) :
    Good (match c.cmd v line n with | (c, .error e) => (c, some e) | (c, .ok _) => (c, (none : Option Err))).1 := by
  have hc := good_cmd c v line n h
  rcases hr : c.cmd v line n with ⟨c1, r⟩
  rw [hr] at hc
  cases r <;> exact hc

theorem good_mail (c : Conn) (s : Bytes) (h : Good c) : Good (c.mail s).1 := by
  unfold Conn.mail
  split
  · exact h
  · exact good_after_hello c h _ (fun c hc => good_cmd_opt c _ _ _ hc)

theorem good_rcpt (c : Conn) (s : Bytes) (h : Good c) : Good (c.rcpt s).1 := by
  unfold Conn.rcpt
  split
  · exact h
  · exact good_cmd_opt c _ _ _ h

theorem good_simple (c : Conn) (v : Verb) (l : String) (n : Nat) (h : Good c) : Good (c.simple v l n).1 := by
  unfold Conn.simple
  exact good_after_hello c h _ (fun c hc => good_cmd_opt c _ _ _ hc)

theorem good_reset (c : Conn) (h : Good c) : Good c.reset.1 := good_simple c _ _ _ h
theorem good_noop (c : Conn) (h : Good c) : Good c.noop.1 := good_simple c _ _ _ h

theorem good_data (c : Conn) (h : Good c) : Good c.data.1 := by
  unfold Conn.data
  exact good_cmd_opt c _ _ _ h

theorem good_quit (c : Conn) (h : Good c) : Good c.quit.1 := by
  unfold Conn.quit
  simp only []
  have h1 := good_hello c h
  have hc := good_cmd c.hello.1 .quit (sb "QUIT") 221 h1
  rcases hr : c.hello.1.cmd .quit (sb "QUIT") 221 with ⟨c1, r⟩
  rw [hr] at hc
  cases r with
  | error e => exact hc
  | ok v => exact good_close c1 hc

theorem good_endData (c : Conn) (h : Good c) : Good c.endData.1 := by
  unfold Conn.endData
  split
  · exact h
  · simp only []
    have h0 : Good (if c.srvGone || c.srvSilent then c else { c.ev .eod with inData := false }) := by
      split
      · exact h
      · exact good_of_eq (c.ev .eod) _ (good_ev c _ h (by simp)) rfl rfl
    have hs := good_serverTurn _ .eod 250 h0
    rcases hr : Conn.serverTurn (if c.srvGone || c.srvSilent then c else { c.ev .eod with inData := false }) .eod 250 with ⟨c1, r⟩
    rw [hr] at hs
    cases r <;> exact hs

end GoMail.Smtp

namespace GoMail.Smtp
open GoMail

theorem good_checkConn (cfg : SendCfg) (c : Conn) (h : Good c) : Good (checkConn cfg c).1 := by
  unfold checkConn
  split
  · exact h
  · have h1 := good_updateDeadline' c h
    rcases hr : c.updateDeadline with ⟨c1, b⟩
    rw [hr] at h1
    cases b with
    | false => exact h1
    | true =>
      simp only []
      split
      · exact h1
      · have h2 := good_noop c1 h1
        rcases hr2 : c1.noop with ⟨c2, r2⟩
        rw [hr2] at h2
        cases r2 <;> exact h2

theorem good_resetWith (cfg : SendCfg) (c : Conn) (h : Good c) : Good (resetWith cfg c).1 := by
  unfold resetWith
  have h1 := good_checkConn cfg c h
  rcases hr : checkConn cfg c with ⟨c1, r⟩
  rw [hr] at h1
  cases r with
  | some e => exact h1
  | none => exact good_reset c1 h1

theorem good_abortTx (c : Conn) (se : SendErr) (h : Good c) : Good (abortTx c se).1 := by
  unfold abortTx
  have h1 := good_reset c h
  rcases hr : c.reset with ⟨c1, r⟩
  rw [hr] at h1
  cases r with
  | some e => exact good_close c1 h1
  | none => exact h1

theorem good_rcptLoop (esc : Bool) (c : Conn) (rs : List Bytes) (se : SendErr) (bad : Bool) (h : Good c) :
    Good (rcptLoop esc c rs se bad).1 := by
  induction rs generalizing c se bad with
  | nil => exact h
  | cons r rest ih =>
    unfold rcptLoop
    have h1 := good_rcpt c (envelopeAddress r) h
    rcases hr : c.rcpt (envelopeAddress r) with ⟨c1, e⟩
    rw [hr] at h1
    cases e with
    | none => exact ih c1 se bad h1
    | some e => exact ih c1 _ true h1

theorem good_sendOne (cfg : SendCfg) (c : Conn) (idx : Nat) (m : MsgIn) (wd : Bool) (h : Good c) :
    Good (sendOne cfg c idx m wd).1 := by
  unfold sendOne
  simp only []
  have h1 := good_extension c "ENHANCEDSTATUSCODES" h
  rcases hx : c.extension "ENHANCEDSTATUSCODES" with ⟨c1, esc⟩
  rw [hx] at h1
  simp only []
  have h2 : Good (if m.eightBit then c1.extension "8BITMIME" else (c1, true)).1 := by
    split
    · exact good_extension c1 _ h1
    · exact h1
  rcases hy : (if m.eightBit then c1.extension "8BITMIME" else (c1, true)) with ⟨c2, ok8⟩
  rw [hy] at h2
  simp only []
  split
  · exact h2
  · split
    · exact h2
    · split
      · exact h2
      · -- MAIL
        have h3 : Good (if cfg.requestDSN && !cfg.dsnReturn.isEmpty then { c2 with dsnmrtype := cfg.dsnReturn } else c2) := by
          split
          · exact good_of_eq c2 _ h2 rfl rfl
          · exact h2
        rename_i sender _ _
        have h4 := good_mail _ (envelopeAddress sender) h3
        rcases hm : Conn.mail (if cfg.requestDSN && !cfg.dsnReturn.isEmpty then { c2 with dsnmrtype := cfg.dsnReturn } else c2)
          (envelopeAddress sender) with ⟨c3, e3⟩
        rw [hm] at h4
        cases e3 with
        | some e => exact good_abortTx c3 _ h4
        | none =>
          simp only []
          have h5 := good_rcptLoop esc { c3 with dsnrntype := cfg.dsnNotify } m.rcpts { reason := .getSender, nerrs := 0 } false
            (good_of_eq c3 _ h4 rfl rfl)
          rcases hl : rcptLoop esc { c3 with dsnrntype := cfg.dsnNotify } m.rcpts { reason := .getSender, nerrs := 0 } false with ⟨c4, se, bad⟩
          rw [hl] at h5
          simp only []
          split
          · exact good_abortTx c4 _ h5
          · have h6 := good_data c4 h5
            rcases hd : c4.data with ⟨c5, e5⟩
            rw [hd] at h6
            cases e5 with
            | some e => exact good_abortTx c5 _ h6
            | none =>
              simp only []
              split
              · exact good_close _ (good_ev c5 _ h6 (by simp))
              · split
                · -- the blocked content write: a wait under the armed deadline
                  exact good_close _ (good_ev _ _ (good_ev c5 _ h6 (by simp)) (by rw [h6.1]; simp))
                · skip
                  have h7 := good_endData _ (good_ev c5 (.content idx true) h6 (by simp))
                  rcases he : (c5.ev (.content idx true)).endData with ⟨c6, e6⟩
                  rw [he] at h7
                  cases e6 with
                  | some e => exact h7
                  | none =>
                    simp only []
                    have h8 := good_resetWith cfg c6 h7
                    rcases hw : resetWith cfg c6 with ⟨c7, e7⟩
                    rw [hw] at h8
                    cases e7 <;> exact h8

end GoMail.Smtp

namespace GoMail.Smtp
open GoMail

theorem good_sendLoop (cfg : SendCfg) (c : Conn) (i : Nat) (ms : List MsgIn) (h : Good c) :
    Good (sendLoop cfg c i ms).1 := by
  induction ms generalizing c i with
  | nil => exact h
  | cons m rest ih =>
    unfold sendLoop
    simp only []
    exact ih _ _ (good_sendOne cfg c i m false h)

theorem good_sendBatch (cfg : SendCfg) (c : Conn) (ms : List MsgIn) (h : Good c) : Good (sendBatch cfg c ms).1 := by
  unfold sendBatch
  simp only []
  have h1 := good_extension c "ENHANCEDSTATUSCODES" h
  have h2 := good_checkConn cfg (c.extension "ENHANCEDSTATUSCODES").1 h1
  rcases hr : checkConn cfg (c.extension "ENHANCEDSTATUSCODES").1 with ⟨c2, e⟩
  rw [hr] at h2
  cases e with
  | some e => exact h2
  | none => exact good_sendLoop cfg c2 0 ms h2

theorem good_closeWith (c : Conn) (h : Good c) : Good (closeWith c).1 := by
  unfold closeWith
  split
  · exact h
  · simp only []
    have h1 := good_updateDeadline' c h
    have h2 := good_quit c.updateDeadline.1 h1
    rcases hr : c.updateDeadline.1.quit with ⟨c2, e⟩
    rw [hr] at h2
    cases e with
    | some e => exact good_close c2 h2
    | none => exact h2

theorem good_startTLS (c : Conn) (h : Good c) : Good c.startTLS.1 := by
  unfold Conn.startTLS
  have h1 := good_hello c h
  rcases hr : c.hello with ⟨c1, r⟩
  rw [hr] at h1
  cases r with
  | some e => exact h1
  | none =>
    simp only []
    have h2 := good_cmd c1 .starttls (sb "STARTTLS") 220 h1
    rcases hc : c1.cmd .starttls (sb "STARTTLS") 220 with ⟨c2, r2⟩
    rw [hc] at h2
    cases r2 with
    | error e => exact h2
    | ok v =>
      simp only []
      have h3 : Good { c2 with tls := true } := good_of_eq c2 _ h2 rfl rfl
      split
      · exact h3
      · split
        · exact good_waitSilent _ h3
        · have h4 := good_pop _ h3
          split
          · exact good_ehlo _ (good_ev _ _ h4 (by simp))
          · exact good_of_eq (Conn.ev _ .drop) _ (good_ev _ _ h4 (by simp)) rfl rfl
          · exact good_waitSilent _ (good_of_eq _ _ h4 rfl rfl)
          · exact good_ev _ _ h4 (by simp)

theorem good_authLoop {σ} (a : Mech σ) (mech : Bytes) (fuel : Nat) (c : Conn) (st : σ)
    (r : Except Err (Nat × Bytes)) (h : Good c) : Good (authLoop a mech fuel c st r).1 := by
  induction fuel generalizing c st r with
  | zero => unfold authLoop; exact h
  | succ n ih =>
    unfold authLoop
    cases r with
    | error e => exact h
    | ok v =>
      simp only []
      split
      · -- error: abort and quit
        have h1 : Good (if mech != sb "XOAUTH2" then (c.cmd .authAbort (sb "*") 501).1 else c) := by
          split
          · exact good_cmd c _ _ _ h
          · exact h
        exact good_quit _ h1
      · exact h
      · exact ih _ _ _ (good_cmd c _ _ _ h)

theorem good_authWith {σ} (c : Conn) (a : Mech σ) (h : Good c) : Good (c.authWith a).1 := by
  unfold Conn.authWith
  have h1 := good_hello c h
  rcases hr : c.hello with ⟨c1, r⟩
  rw [hr] at h1
  cases r with
  | some e => exact h1
  | none =>
    simp only []
    have h2 : Good (if !c1.logAuthData then { c1 with authActive := true } else c1) := by
      split
      · exact good_of_eq c1 _ h1 rfl rfl
      · exact h1
    have hdone : ∀ c : Conn, Good c → Good (if !c.logAuthData then { c with authActive := false } else c) := by
      intro c hc
      split
      · exact good_of_eq c _ hc rfl rfl
      · exact hc
    split
    · exact hdone _ (good_quit _ h2)
    · exact hdone _ (good_authLoop a _ _ _ _ _ (good_cmd _ _ _ _ h2))

theorem good_runMech (cfg : DialCfg) (c : Conn) (t : AuthType) (h : Good c) : Good (runMech cfg c t).1 := by
  unfold runMech
  simp only []
  cases t
  all_goals simp only []
  all_goals first
    | exact good_authWith c _ h
    | exact h
    | (split
       · exact h
       · split
         · exact h
         · exact good_authWith c _ h)

theorem good_clientAuth (cfg : DialCfg) (c : Conn) (enc : Bool) (h : Good c) : Good (clientAuth cfg c enc).1 := by
  unfold clientAuth
  split
  · exact h
  · simp only []
    have h1 := good_extension c "AUTH" h
    rcases hr : c.extension "AUTH" with ⟨c1, has⟩
    rw [hr] at h1
    simp only []
    repeat' split
    all_goals first
      | exact h1
      | exact good_runMech cfg c1 _ h1

theorem good_clientTLS (cfg : DialCfg) (c : Conn) (enc : Bool) (h : Good c) : Good (clientTLS cfg c enc).1 := by
  unfold clientTLS
  split
  · exact h
  · simp only []
    have h1 := good_extension c "STARTTLS" h
    rcases hr : c.extension "STARTTLS" with ⟨c1, ext⟩
    rw [hr] at h1
    simp only []
    split
    · exact h1
    · have h2 : Good (if (cfg.policy == .mandatory || ext) = true then c1.startTLS else (c1, none)).1 := by
        split
        · exact good_startTLS c1 h1
        · exact h1
      rcases hs : (if (cfg.policy == .mandatory || ext) = true then c1.startTLS else (c1, none)) with ⟨c2, e⟩
      rw [hs] at h2
      cases e with
      | some e => exact h2
      | none =>
        simp only []
        split
        · exact h2
        · split <;> exact h2

theorem good_newClient (cfg : DialCfg) (script : List Act) (caps : List Bytes) :
    Good (newClient cfg script caps).1 := by
  unfold newClient
  have h0 : Good (freshConn cfg script caps).updateDeadline.1 := by
    apply good_updateDeadline
    · rfl
    · intro e he
      simp only [freshConn] at he
      split at he <;> simp at he <;> rcases he with rfl | rfl <;> simp
    · intro hc; simp [freshConn] at hc
  have h1 := good_serverTurn _ .greeting 220 h0
  rcases hr : Conn.serverTurn (freshConn cfg script caps).updateDeadline.1 .greeting 220 with ⟨c1, r⟩
  rw [hr] at h1
  cases r with
  | error e => exact good_close c1 h1
  | ok v => exact h1

theorem good_dial (cfg : DialCfg) (script : List Act) (caps : List Bytes) : Good (dial cfg script caps).1 := by
  unfold dial
  have h0 := good_newClient cfg script caps
  rcases hn : newClient cfg script caps with ⟨c0, e0⟩
  rw [hn] at h0
  cases e0 with
  | some e => exact h0
  | none =>
    simp only []
    have h1 := good_Hello { c0 with debug := cfg.debug, logAuthData := cfg.logAuthData } cfg.helo (good_of_eq c0 _ h0 rfl rfl)
    rcases hh : Conn.Hello { c0 with debug := cfg.debug, logAuthData := cfg.logAuthData } cfg.helo with ⟨c1, e1⟩
    rw [hh] at h1
    cases e1 with
    | some e => exact good_close c1 h1
    | none =>
      simp only []
      have h2 := good_clientTLS cfg c1 cfg.implicitTLS h1
      rcases ht : clientTLS cfg c1 cfg.implicitTLS with ⟨c2, enc, e2⟩
      rw [ht] at h2
      cases e2 with
      | some e => exact good_close c2 h2
      | none =>
        simp only []
        have h3 := good_clientAuth cfg c2 enc h2
        rcases ha : clientAuth cfg c2 enc with ⟨c3, e3⟩
        rw [ha] at h3
        cases e3 with
        | some e => exact good_close c3 h3
        | none => exact h3

theorem good_dialAndSend (cfg : DialCfg) (script : List Act) (caps : List Bytes) (ms : List MsgIn) :
    Good (dialAndSend cfg script caps ms).conn := by
  unfold dialAndSend
  have h0 := good_dial cfg script caps
  rcases hd : dial cfg script caps with ⟨c0, e0⟩
  rw [hd] at h0
  cases e0 with
  | some e => exact h0
  | none =>
    simp only []
    have h1 := good_sendBatch cfg.send c0 ms h0
    rcases hs : sendBatch cfg.send c0 ms with ⟨c1, outs, ce⟩
    rw [hs] at h1
    cases outs with
    | none => exact good_closeWith c1 h1
    | some outs =>
      simp only []
      split
      · exact good_closeWith c1 h1
      · exact good_closeWith _ (good_closeWith c1 h1)

end GoMail.Smtp
