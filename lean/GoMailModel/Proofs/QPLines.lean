import GoMailModel.Codec.QP
/-
  Line discipline of Go's quotedprintable.Writer (byte-exact model, Codec/QP.lean), for EVERY input:
  the output is a sequence of lines of at most 76 bytes without CR or LF, each terminated by CRLF,
  followed by a last (possibly empty) unterminated line of at most 75 such bytes.
-/
namespace GoMail.QP
open GoMail

def Clean (l : Bytes) : Prop := ∀ c ∈ l, c ≠ 13 ∧ c ≠ 10

/-- flushed output: whole lines only -/
inductive LinesOK : Bytes → Prop
  | nil : LinesOK []
  | snoc (o l : Bytes) : LinesOK o → Clean l → l.length ≤ 76 → LinesOK (o ++ (l ++ [13, 10]))

def Inv (w : W) : Prop := LinesOK w.out ∧ Clean w.line ∧ w.line.length ≤ 75

theorem enc3_clean : ∀ b : UInt8, ∀ c ∈ enc3 b, c ≠ 13 ∧ c ≠ 10 := by
  apply forall_uint8; decide +kernel

theorem Clean.append {a b : Bytes} (ha : Clean a) (hb : Clean b) : Clean (a ++ b) := by
  intro c hc
  rcases List.mem_append.mp hc with h | h
  · exact ha c h
  · exact hb c h

theorem Clean.dropLast {a : Bytes} (ha : Clean a) : Clean a.dropLast :=
  fun c hc => ha c (List.dropLast_subset a hc)

theorem clean_nil : Clean [] := by intro c hc; cases hc

theorem clean_one {b : UInt8} (h1 : b ≠ 13) (h2 : b ≠ 10) : Clean [b] := by
  intro c hc; simp at hc; subst hc; exact ⟨h1, h2⟩

theorem insertCRLF_inv (w : W) (hl : LinesOK w.out) (hc : Clean w.line) (hn : w.line.length ≤ 76) :
    Inv (insertCRLF w) := by
  unfold insertCRLF flush Inv
  simp only []
  exact ⟨LinesOK.snoc _ _ hl hc hn, clean_nil, by simp⟩

theorem insertSoft_inv (w : W) (h : Inv w) : Inv (insertSoftLineBreak w) ∧ (insertSoftLineBreak w).line = [] := by
  obtain ⟨hl, hc, hn⟩ := h
  refine ⟨?_, by simp [insertSoftLineBreak, insertCRLF, flush]⟩
  unfold insertSoftLineBreak
  apply insertCRLF_inv
  · exact hl
  · exact hc.append (clean_one (by decide) (by decide))
  · simp only [List.length_append, List.length_cons, List.length_nil]; omega

theorem encode_inv (w : W) (b : UInt8) (h : Inv w) : Inv (encode w b) := by
  unfold encode
  simp only []
  split
  · obtain ⟨⟨hl, hc, _⟩, he⟩ := insertSoft_inv w h
    refine ⟨hl, ?_, ?_⟩
    · simp only [he, List.nil_append]; exact enc3_clean b
    · simp [he, enc3]
  · rename_i hlt
    obtain ⟨hl, hc, hn⟩ := h
    refine ⟨hl, hc.append (enc3_clean b), ?_⟩
    simp only [lineMaxLen] at hlt
    simp only [List.length_append, enc3, List.length_cons, List.length_nil]
    omega

theorem checkLastByte_inv (w : W) (h : Inv w) : Inv (checkLastByte w) := by
  unfold checkLastByte
  split
  · exact h
  · split
    · apply encode_inv
      obtain ⟨hl, hc, hn⟩ := h
      exact ⟨hl, hc.dropLast, by simp only [List.length_dropLast]; omega⟩
    · exact h

theorem step_inv (w : W) (b : UInt8) (h : Inv w) : Inv (step w b) := by
  unfold step
  split
  · unfold write1
    split
    · split
      · exact h
      · have hw : Inv (if b == 13 then { w with cr := true } else w) := by split <;> exact h
        obtain ⟨hl, hc, hn⟩ := checkLastByte_inv _ hw
        exact insertCRLF_inv _ hl hc (by omega)
    · rename_i hnl
      simp only [Bool.or_eq_true, beq_iff_eq, not_or] at hnl
      simp only []
      split
      · obtain ⟨⟨hl, hc, _⟩, he⟩ := insertSoft_inv w h
        refine ⟨hl, ?_, ?_⟩
        · simp only [he, List.nil_append]; exact clean_one hnl.2 hnl.1
        · simp [he]
      · rename_i hlen
        obtain ⟨hl, hc, hn⟩ := h
        refine ⟨hl, hc.append (clean_one hnl.2 hnl.1), ?_⟩
        simp only [lineMaxLen, beq_iff_eq] at hlen
        simp only [List.length_append, List.length_cons, List.length_nil]
        omega
  · exact encode_inv w b h

theorem fold_inv (xs : Bytes) (w : W) (h : Inv w) : Inv (xs.foldl step w) := by
  induction xs generalizing w with
  | nil => exact h
  | cons b r ih => exact ih _ (step_inv w b h)

/-- Every quoted-printable body: whole lines of ≤ 76 CR/LF-free bytes, each followed by CRLF, then a
    last unterminated line of ≤ 75 CR/LF-free bytes. -/
theorem encodeBytes_lines (xs : Bytes) :
    ∃ o l, encodeBytes xs = o ++ l ∧ LinesOK o ∧ Clean l ∧ l.length ≤ 75 := by
  have h0 : Inv ⟨[], [], false⟩ := ⟨LinesOK.nil, clean_nil, by simp⟩
  obtain ⟨hl, hc, hn⟩ := checkLastByte_inv _ (fold_inv xs _ h0)
  exact ⟨_, _, rfl, hl, hc, hn⟩

/-- LinesOK in list-of-lines form -/
theorem LinesOK.lines {o : Bytes} (h : LinesOK o) :
    ∃ ls : List Bytes, o = (ls.map (· ++ [13, 10])).flatten ∧ ∀ l ∈ ls, l.length ≤ 76 ∧ Clean l := by
  induction h with
  | nil => exact ⟨[], rfl, by intro l hl; cases hl⟩
  | snoc o l _ hc hn ih =>
    obtain ⟨ls, e, hall⟩ := ih
    refine ⟨ls ++ [l], by simp [e], ?_⟩
    intro l' hl'
    rcases List.mem_append.mp hl' with h | h
    · exact hall l' h
    · simp at h; subst h; exact ⟨hn, hc⟩

end GoMail.QP
