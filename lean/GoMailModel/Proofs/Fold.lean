import GoMailModel.Mime.Fold
/-
  msgWriter.writeHeader: the folded header is one field whose continuation lines start with a
  blank, it unfolds to exactly "key: value", and no line is longer than 76 bytes unless it is a
  single token.
-/
namespace GoMail.Fold
open GoMail

def pat : Bytes := [32, 13, 10]

def NoSp (w : Bytes) : Prop := ∀ b ∈ w, b ≠ 32
def NoCRLF (w : Bytes) : Prop := ∀ b ∈ w, b ≠ 13 ∧ b ≠ 10

/-! ### strings.ReplaceAll(" \r\n", "\r\n") on the shapes the loop produces -/

theorem replaceAll_nil : replaceAll pat [13, 10] [] = [] := by
  unfold replaceAll; rfl

theorem replaceAll_skip (b : UInt8) (rest : Bytes) (h : b ≠ 32) :
    replaceAll pat [13, 10] (b :: rest) = b :: replaceAll pat [13, 10] rest := by
  rw [replaceAll]
  have : hasPrefix (b :: rest) pat = false := by
    simp [hasPrefix, pat, h]
  simp [this]

theorem replaceAll_word (w rest : Bytes) (h : NoSp w) :
    replaceAll pat [13, 10] (w ++ rest) = w ++ replaceAll pat [13, 10] rest := by
  induction w with
  | nil => rfl
  | cons b bs ih =>
    have hb : b ≠ 32 := h b (by simp)
    simp only [List.cons_append]
    rw [replaceAll_skip b _ hb, ih (fun x hx => h x (by simp [hx]))]

theorem replaceAll_hit (rest : Bytes) :
    replaceAll pat [13, 10] (32 :: 13 :: 10 :: rest) = 13 :: 10 :: replaceAll pat [13, 10] rest := by
  rw [replaceAll]
  simp [hasPrefix, pat]

theorem replaceAll_sp (rest : Bytes) (h : hasPrefix rest [13, 10] = false) :
    replaceAll pat [13, 10] (32 :: rest) = 32 :: replaceAll pat [13, 10] rest := by
  rw [replaceAll]
  have : hasPrefix (32 :: rest) pat = false := by
    simp only [hasPrefix, pat, beq_self_eq_true, Bool.true_and]
    exact h
  simp [this]

/-! ### the direct form of the loop output: separator *before* each word -/

def sep (brk : Bool) : Bytes := if brk then crlf ++ [32] else [32]

def direct : List Bytes → Int → Bytes
  | [], _ => []
  | [w], cl => sep (decide (cl - w.length ≤ 1)) ++ w
  | w :: w2 :: ws, cl =>
    let brk := decide (cl - w.length ≤ 1)
    let cl := if brk then maxHeaderLength - 3 else cl
    sep brk ++ w ++ direct (w2 :: ws) (cl - 1 - w.length)

theorem hasPrefix_crlf_of_head (w rest : Bytes) (h : NoCRLF w) :
    hasPrefix (w ++ 32 :: rest) [13, 10] = false := by
  cases w with
  | nil => simp [hasPrefix]
  | cons b bs =>
    have := (h b (by simp)).1
    simp [hasPrefix, this]

theorem hasPrefix_crlf_word (w : Bytes) (h : NoCRLF w) : hasPrefix w [13, 10] = false := by
  cases w with
  | nil => simp [hasPrefix]
  | cons b bs =>
    have := (h b (by simp)).1
    simp [hasPrefix, this]

/-- the ReplaceAll post-processing turns "blank, then an inserted fold" into the fold alone -/
theorem replace_loop (ws : List Bytes) (cl : Int) (hne : ws ≠ [])
    (hsp : ∀ w ∈ ws, NoSp w) (hcr : ∀ w ∈ ws, NoCRLF w) :
    replaceAll pat [13, 10] (32 :: loop ws cl) = direct ws cl := by
  induction ws generalizing cl with
  | nil => exact absurd rfl hne
  | cons w rest ih =>
    have hw1 := hsp w (by simp)
    have hw2 := hcr w (by simp)
    cases rest with
    | nil =>
      simp only [loop, direct, sep]
      by_cases hb : cl - (w.length : Int) ≤ 1
      · simp only [hb, if_true, decide_true, crlf, List.cons_append, List.nil_append]
        rw [replaceAll_hit, replaceAll_sp _ (hasPrefix_crlf_word w hw2)]
        have := replaceAll_word w [] hw1
        simp only [List.append_nil] at this
        rw [this, replaceAll_nil]; simp
      · simp only [hb, if_false, decide_false, List.nil_append, Bool.false_eq_true]
        rw [replaceAll_sp _ (hasPrefix_crlf_word w hw2)]
        have := replaceAll_word w [] hw1
        simp only [List.append_nil] at this
        rw [this, replaceAll_nil]; simp
    | cons w2 ws =>
      have ih' := fun cl => ih cl (by simp) (fun x hx => hsp x (by simp [hx])) (fun x hx => hcr x (by simp [hx]))
      simp only [loop, direct, sep]
      by_cases hb : cl - (w.length : Int) ≤ 1
      · simp only [hb, if_true, decide_true, crlf, List.cons_append, List.nil_append, List.append_assoc]
        rw [replaceAll_hit, replaceAll_sp _ (hasPrefix_crlf_of_head w _ hw2), replaceAll_word w _ hw1]
        rw [ih']
      · simp only [hb, if_false, decide_false, List.nil_append, List.append_assoc, Bool.false_eq_true,
          List.cons_append]
        rw [replaceAll_sp _ (hasPrefix_crlf_of_head w _ hw2), replaceAll_word w _ hw1]
        rw [ih']

/-! ### the line structure -/

/-- a line is within the limit, or it has no blank after its first byte (a single token) -/
def Bound (l : Bytes) : Prop := l.length ≤ 76 ∨ NoSp (l.drop 1)

/-- lines produced when the current line so far is `cur`; the current line is the last element -/
def foldLines : List Bytes → Int → Bytes → List Bytes
  | [], _, cur => [cur]
  | [w], cl, cur =>
    if cl - w.length ≤ 1 then [cur, 32 :: w] else [cur ++ 32 :: w]
  | w :: w2 :: ws, cl, cur =>
    if cl - w.length ≤ 1 then cur :: foldLines (w2 :: ws) (maxHeaderLength - 3 - 1 - w.length) (32 :: w)
    else foldLines (w2 :: ws) (cl - 1 - w.length) (cur ++ 32 :: w)

theorem joinCRLF_cons (a : Bytes) (l : List Bytes) (h : l ≠ []) : joinCRLF (a :: l) = a ++ crlf ++ joinCRLF l := by
  cases l with
  | nil => exact absurd rfl h
  | cons b bs => simp [joinCRLF, joinWith]

theorem foldLines_ne (ws : List Bytes) (cl : Int) (cur : Bytes) : foldLines ws cl cur ≠ [] := by
  fun_cases foldLines ws cl cur <;> simp_all [foldLines]
  all_goals (try exact foldLines_ne _ _ _)
termination_by ws.length

theorem foldLines_join (ws : List Bytes) (cl : Int) (cur : Bytes) :
    joinCRLF (foldLines ws cl cur) = cur ++ direct ws cl := by
  induction ws generalizing cl cur with
  | nil => simp [foldLines, direct, joinCRLF, joinWith]
  | cons w rest ih =>
    cases rest with
    | nil =>
      simp only [foldLines, direct, sep]
      by_cases hb : cl - (w.length : Int) ≤ 1
      · simp [hb, joinCRLF, joinWith, crlf]
      · simp [hb, joinCRLF, joinWith, crlf]
    | cons w2 ws =>
      simp only [foldLines, direct, sep]
      by_cases hb : cl - (w.length : Int) ≤ 1
      · simp only [hb, if_true, decide_true]
        rw [joinCRLF_cons _ _ (foldLines_ne _ _ _), ih]
        simp [crlf, List.append_assoc, maxHeaderLength]
      · simp only [hb, if_false, decide_false, Bool.false_eq_true]
        rw [ih]
        simp [List.append_assoc]

theorem foldLines_flatten (ws : List Bytes) (cl : Int) (cur : Bytes) :
    (foldLines ws cl cur).flatten = cur ++ ((ws.map (fun w => 32 :: w)).flatten) := by
  induction ws generalizing cl cur with
  | nil => simp [foldLines]
  | cons w rest ih =>
    cases rest with
    | nil => simp only [foldLines]; split <;> simp
    | cons w2 ws =>
      simp only [foldLines]
      split
      · simp only [List.flatten_cons, ih]; simp
      · rw [ih]; simp

/-- every continuation line starts with a blank -/
theorem foldLines_tail (ws : List Bytes) (cl : Int) (cur : Bytes) :
    ∀ l ∈ (foldLines ws cl cur).tail, l.head? = some 32 := by
  induction ws generalizing cl cur with
  | nil => simp [foldLines]
  | cons w rest ih =>
    cases rest with
    | nil => simp only [foldLines]; split <;> simp
    | cons w2 ws =>
      simp only [foldLines]
      split
      · intro l hl
        simp only [List.tail_cons] at hl
        -- the lines after `cur` are foldLines started with the line " w"
        have hne := foldLines_ne (w2 :: ws) (maxHeaderLength - 3 - 1 - ↑w.length) (32 :: w)
        cases hf : foldLines (w2 :: ws) (maxHeaderLength - 3 - 1 - ↑w.length) (32 :: w) with
        | nil => exact absurd hf hne
        | cons x xs =>
          rw [hf] at hl
          rcases List.mem_cons.mp hl with rfl | hx
          · -- x is the head line: it starts with " w..." since the current line only grows at its end
            have := foldLines_flatten (w2 :: ws) (maxHeaderLength - 3 - 1 - ↑w.length) (32 :: w)
            rw [hf] at this
            -- a direct argument: the head of foldLines always has `cur` as prefix
            exact headPrefix _ _ _ _ _ hf
          · have := ih (maxHeaderLength - 3 - 1 - ↑w.length) (32 :: w)
            rw [hf] at this
            exact this l (by simpa using hx)
      · exact ih _ _
where
  headPrefix (ws : List Bytes) (cl : Int) (w : Bytes) (x : Bytes) (xs : List Bytes)
      (h : foldLines ws cl (32 :: w) = x :: xs) : x.head? = some 32 := by
    induction ws generalizing cl w x xs with
    | nil => simp [foldLines] at h; rw [← h.1]; rfl
    | cons v rest ih =>
      cases rest with
      | nil =>
        simp only [foldLines] at h
        split at h <;> (simp at h; rw [← h.1]; rfl)
      | cons v2 vs =>
        simp only [foldLines] at h
        split at h
        · simp at h; rw [← h.1]; rfl
        · exact ih _ _ _ _ h

end GoMail.Fold

namespace GoMail.Fold
open GoMail

theorem foldLines_bound (ws : List Bytes) (cl : Int) (cur : Bytes) (hsp : ∀ w ∈ ws, NoSp w)
    (hinv : (cur.length : Int) + 1 + cl = 74) (hcur : Bound cur) : ∀ l ∈ foldLines ws cl cur, Bound l := by
  induction ws generalizing cl cur with
  | nil => intro l hl; simp [foldLines] at hl; subst hl; exact hcur
  | cons w rest ih =>
    have hw := hsp w (by simp)
    have single : Bound (32 :: w) := Or.inr (by simpa using hw)
    cases rest with
    | nil =>
      simp only [foldLines]
      by_cases hb : cl - (w.length : Int) ≤ 1
      · simp only [hb, if_true]
        intro l hl; simp at hl; rcases hl with rfl | rfl
        · exact hcur
        · exact single
      · simp only [hb, if_false]
        intro l hl; simp at hl; subst hl
        left; simp only [List.length_append, List.length_cons]; omega
    | cons w2 ws =>
      simp only [foldLines]
      by_cases hb : cl - (w.length : Int) ≤ 1
      · simp only [hb, if_true]
        intro l hl
        rcases List.mem_cons.mp hl with rfl | hl
        · exact hcur
        · refine ih _ _ (fun x hx => hsp x (by simp [hx])) ?_ single l hl
          simp only [List.length_cons, maxHeaderLength]; omega
      · simp only [hb, if_false]
        refine ih _ _ (fun x hx => hsp x (by simp [hx])) ?_ ?_
        · simp only [List.length_append, List.length_cons]; omega
        · left; simp only [List.length_append, List.length_cons]; omega

/-! ### strings.Split / strings.Join on one blank -/

theorem splitOnAux_ne (sep : UInt8) (acc xs : Bytes) : splitOnAux sep acc xs ≠ [] := by
  induction xs generalizing acc with
  | nil => simp [splitOnAux]
  | cons b rest ih =>
    simp only [splitOnAux]
    split
    · simp
    · exact ih _

theorem splitOnAux_join (sep : UInt8) (acc xs : Bytes) :
    joinWith [sep] (splitOnAux sep acc xs) = acc.reverse ++ xs := by
  induction xs generalizing acc with
  | nil => simp [splitOnAux, joinWith]
  | cons b rest ih =>
    simp only [splitOnAux]
    split
    · rename_i hb
      have hb' : b = sep := by simpa using hb
      have hne : splitOnAux sep [] rest ≠ [] := splitOnAux_ne sep [] rest
      cases hs : splitOnAux sep [] rest with
      | nil => exact absurd hs hne
      | cons y ys =>
        have := ih []
        rw [hs] at this
        simp only [joinWith]
        rw [this]; simp [hb']
    · rw [ih]; simp

theorem splitOn_join (v : Bytes) : joinWith [32] (splitOn 32 v) = v := by
  unfold splitOn; simpa using splitOnAux_join 32 [] v

theorem splitOnAux_mem (sep : UInt8) (acc xs : Bytes) (P : UInt8 → Prop)
    (hacc : ∀ b ∈ acc, P b ∧ b ≠ sep) (hxs : ∀ b ∈ xs, P b) :
    ∀ w ∈ splitOnAux sep acc xs, ∀ b ∈ w, P b ∧ b ≠ sep := by
  induction xs generalizing acc with
  | nil =>
    intro w hw b hb
    simp [splitOnAux] at hw; subst hw
    exact hacc b (by simpa using hb)
  | cons c rest ih =>
    simp only [splitOnAux]
    split
    · intro w hw b hb
      rcases List.mem_cons.mp hw with rfl | hw
      · exact hacc b (by simpa using hb)
      · exact ih [] (by intro x hx; cases hx) (fun x hx => hxs x (by simp [hx])) w hw b hb
    · rename_i hc
      apply ih
      · intro x hx
        rcases List.mem_cons.mp hx with rfl | hx
        · exact ⟨hxs x (by simp), by simpa using hc⟩
        · exact hacc x hx
      · exact fun x hx => hxs x (by simp [hx])

theorem splitOn_ne (v : Bytes) : splitOn 32 v ≠ [] := splitOnAux_ne 32 [] v

theorem map_sp_flatten (ws : List Bytes) (h : ws ≠ []) :
    (ws.map (fun w => 32 :: w)).flatten = 32 :: joinWith [32] ws := by
  induction ws with
  | nil => exact absurd rfl h
  | cons w rest ih =>
    cases rest with
    | nil => simp [joinWith]
    | cons w2 ws =>
      have := ih (by simp)
      simp only [List.map_cons, List.flatten_cons] at this ⊢
      rw [this]; simp [joinWith]

/-- The folded header produced by writeHeader for a blank-free key and CR/LF-free values:
    CRLF-joined lines; every continuation line starts with a blank (so it is ONE field); deleting
    the CRLFs gives exactly "key: v1, v2, ..."; every line has at most 76 bytes or is a single token. -/
theorem bufferString_structure (key : Bytes) (values : List Bytes) (hk : NoSp key)
    (hv : NoCRLF (joinValues values)) :
    ∃ lines : List Bytes, lines ≠ [] ∧ bufferString key values = joinCRLF lines ∧
      lines.flatten = key ++ [58, 32] ++ joinValues values ∧
      (∀ l ∈ lines.tail, l.head? = some 32) ∧ (∀ l ∈ lines, Bound l) := by
  let ws := splitOn 32 (joinValues values)
  let cl : Int := maxHeaderLength - 2 - key.length - 2
  have hmem := splitOnAux_mem 32 [] (joinValues values) (fun b => b ≠ 13 ∧ b ≠ 10)
    (by intro x hx; cases hx) hv
  have hsp : ∀ w ∈ ws, NoSp w := fun w hw b hb => (hmem w hw b hb).2
  have hcr : ∀ w ∈ ws, NoCRLF w := fun w hw b hb => (hmem w hw b hb).1
  have hne : ws ≠ [] := splitOn_ne _
  refine ⟨foldLines ws cl (key ++ [58]), foldLines_ne _ _ _, ?_, ?_, foldLines_tail _ _ _, ?_⟩
  · rw [foldLines_join]
    unfold bufferString
    simp only [crlf]
    have hk58 : NoSp (key ++ [58]) := by
      intro b hb
      rcases List.mem_append.mp hb with h | h
      · exact hk b h
      · simp at h; subst h; decide
    have e : key ++ [58, 32] ++ loop (splitOn 32 (joinValues values)) (maxHeaderLength - 2 - ↑key.length - 2) =
        (key ++ [58]) ++ (32 :: loop ws cl) := by simp [ws, cl]
    show replaceAll ([32] ++ [13, 10]) [13, 10] _ = _
    rw [e]
    have := replaceAll_word (key ++ [58]) (32 :: loop ws cl) hk58
    simp only [pat] at this
    rw [show ([32] ++ [13, 10] : Bytes) = [32, 13, 10] from rfl, this]
    have r := replace_loop ws cl hne hsp hcr
    simp only [pat] at r
    rw [r]
  · rw [foldLines_flatten, map_sp_flatten ws hne, splitOn_join]
    simp
  · apply foldLines_bound ws cl (key ++ [58]) hsp
    · simp only [List.length_append, List.length_cons, List.length_nil, cl, maxHeaderLength]; omega
    · right
      intro b hb
      cases key with
      | nil => simp at hb
      | cons k ks =>
        simp at hb
        rcases hb with h | h
        · exact hk b (by simp [h])
        · subst h; decide

end GoMail.Fold
