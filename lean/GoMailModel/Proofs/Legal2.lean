import GoMailModel.Proofs.Legal1
/-
  Session legality, part 2: the invariant and the command lemma.
-/
namespace GoMail.Smtp
open GoMail

/-- the verb-specific part of `J.cmdOk` -/
def J.vOk (j : J) : Verb → Bool
  | .ehlo | .helo | .rset | .noop | .quit | .authStep | .authAbort => true
  | .mail => j.hello && j.tx == .idle
  | .rcpt => j.tx == .mail || j.tx == .rcpt
  | .data => j.tx == .rcpt && j.accepted > 0 && j.rejected == 0
  | .starttls | .auth => j.tx == .idle
  | .greeting | .eod | .handshake | .other => false

theorem cmdOk_eq (j : J) (v : Verb) : j.cmdOk v = (!j.closed && j.pending.isNone && j.greeted && j.vOk v) := by
  cases v <;> rfl

/-- what holds between any two operations of the client -/
structure JI (c : Conn) : Prop where
  nbad : (judge c.trace).bad = false
  stop : (judge c.trace).stopped = !c.cliOpen
  ready : live c → (judge c.trace).greeted = true ∧ (judge c.trace).pending = none ∧ (judge c.trace).closed = false

/-- a remembered successful hello() means the judge saw an accepted EHLO / HELO -/
def HelloRel (c : Conn) : Prop := c.didHello = true → c.helloErr = none → (judge c.trace).hello = true

theorem cmd_trace_live (c : Conn) (v : Verb) (line : Bytes) (n : Nat) (hl : live c) :
    SrvDid (c.ev (.cmd v line)) (c.cmd v line n).1 n (c.cmd v line n).2 v ∧ Frame c (c.cmd v line n).1 := by
  obtain ⟨ho, hg, hs⟩ := hl
  unfold Conn.cmd
  simp only [ho, Bool.not_true, Bool.false_eq_true, if_false]
  obtain ⟨lt, lf, lg, ls⟩ := logC2S_facts c line
  have hsend : ((c.logC2S line).send v line) = (c.logC2S line).ev (.cmd v line) := by
    unfold Conn.send
    simp [lg, ls, hg, hs]
  rw [hsend]
  have hg1 : ((c.logC2S line).ev (.cmd v line)).srvGone = false := by simp [Conn.ev, lg, hg]
  have hs1 : ((c.logC2S line).ev (.cmd v line)).srvSilent = false := by simp [Conn.ev, ls, hs]
  obtain ⟨d, f⟩ := serverTurn_live ((c.logC2S line).ev (.cmd v line)) v n hg1 hs1
  have ht : ((c.logC2S line).ev (.cmd v line)).trace = (c.ev (.cmd v line)).trace := by
    simp [Conn.ev, lt]
  have fr : Frame c ((c.logC2S line).ev (.cmd v line)) := lf
  obtain ⟨st, sf, sg, ss⟩ := logS2C_facts (((c.logC2S line).ev (.cmd v line)).serverTurn v n).1
    (((c.logC2S line).ev (.cmd v line)).serverTurn v n).2
  constructor
  · cases d with
    | reply code text h1 h2 h3 => exact SrvDid.reply code text h1 (by rw [st, h2, ht]) (by rw [sg, h3])
    | garbage h1 h2 h3 h4 => exact SrvDid.garbage h1 (by rw [st, h2, ht]) (by rw [sg, h3]) (by rw [ss, h4])
    | drop h1 h2 h3 => exact SrvDid.drop h1 (by rw [st, h2, ht]) (by rw [sg, h3])
    | stall a h1 h2 h3 => exact SrvDid.stall a h1 (by rw [st, h2, ht]) (by rw [ss, h3])
  · exact (fr.trans f).trans sf

/-! ### facts about `onReply` -/

theorem onReply_bad (j : J) (code : Nat) : (j.onReply code).bad = j.bad := by
  unfold J.onReply; repeat' split
  all_goals rfl
theorem onReply_stopped (j : J) (code : Nat) : (j.onReply code).stopped = j.stopped := by
  unfold J.onReply; repeat' split
  all_goals rfl
theorem onReply_pending (j : J) (code : Nat) : (j.onReply code).pending = none := by
  unfold J.onReply; repeat' split
  all_goals rfl
theorem onReply_hello (j : J) (code : Nat) (h : j.hello = true) : (j.onReply code).hello = true := by
  unfold J.onReply; repeat' split
  all_goals first | exact h | rfl
theorem onReply_greeted (j : J) (code : Nat) (h : j.pending ≠ some .greeting) : (j.onReply code).greeted = j.greeted := by
  unfold J.onReply; repeat' split
  all_goals first | rfl | (rename_i hp; exact absurd hp h)
theorem onReply_closed (j : J) (code : Nat) :
    (j.onReply code).closed = (j.closed || (j.pending == some .quit && code == 221)) := by
  unfold J.onReply
  repeat' split
  all_goals simp_all

/-- the judge after the command event -/
def J.sent (j : J) (v : Verb) : J := { j with bad := j.bad || !j.cmdOk v, pending := some v }

theorem step_cmd (j : J) (v : Verb) (l : Bytes) (h : j.stopped = false) : j.step (.cmd v l) = j.sent v := by
  simp [J.step, h, J.sent]
theorem step_reply (j : J) (code : Nat) (h : j.stopped = false) : j.step (.reply code) = j.onReply code := by
  simp [J.step, h]
theorem step_garbage (j : J) (h : j.stopped = false) : j.step .garbage = j.onReply 0 := by
  simp [J.step, h]
theorem step_stall (j : J) (a : Bool) : j.step (.stall a) = j := by
  simp [J.step]

/-- a command on a connection that is not live reaches nobody -/
theorem cmd_dead (c : Conn) (v : Verb) (line : Bytes) (n : Nat) (h : ¬ live c) :
    judge (c.cmd v line n).1.trace = judge c.trace ∧ Frame c (c.cmd v line n).1 ∧ ¬ live (c.cmd v line n).1 ∧
    ∃ e, (c.cmd v line n).2 = .error e := by
  unfold Conn.cmd
  obtain ⟨lt, lf, lg, ls⟩ := logC2S_facts c line
  cases ho : c.cliOpen with
  | false =>
    simp only [Bool.not_false, if_true]
    refine ⟨by rw [lt], lf, ?_, _, rfl⟩
    intro hl; have h1 := hl.1; rw [lf.1, ho] at h1; cases h1
  | true =>
    simp only [Bool.not_true, Bool.false_eq_true, if_false]
    have hgs : c.srvGone = true ∨ c.srvSilent = true := by
      cases hg : c.srvGone with
      | true => left; rfl
      | false =>
        cases hs : c.srvSilent with
        | true => right; rfl
        | false => exact absurd ⟨ho, hg, hs⟩ h
    have hsend : ((c.logC2S line).send v line) = c.logC2S line := by
      unfold Conn.send
      rcases hgs with h1 | h1 <;> simp [lg, ls, h1]
    rw [hsend]
    obtain ⟨st, sf, sg, ss⟩ := logS2C_facts ((c.logC2S line).serverTurn v n).1 ((c.logC2S line).serverTurn v n).2
    cases hg : c.srvGone with
    | true =>
      have e1 : (c.logC2S line).serverTurn v n = (c.logC2S line, .error ((c.logC2S line).broken.getD .eof)) := by
        unfold Conn.serverTurn; simp [lg, hg]
      rw [e1] at st sf sg ss ⊢
      refine ⟨by rw [st, lt], lf.trans sf, ?_, _, rfl⟩
      intro hl; have h1 := hl.2.1; simp only [sg, lg, hg] at h1; cases h1
    | false =>
      have hs : c.srvSilent = true := by rcases hgs with h1 | h1; (rw [hg] at h1; cases h1); exact h1
      have e1 : (c.logC2S line).serverTurn v n = (c.logC2S line).waitSilent := by
        unfold Conn.serverTurn; simp [lg, ls, hg, hs]
      rw [e1] at st sf sg ss ⊢
      refine ⟨?_, lf.trans (Frame.trans ⟨rfl, rfl, rfl, rfl, rfl, rfl⟩ sf), ?_, ?_⟩
      · rw [st]
        show judge ((c.logC2S line).ev _).trace = _
        rw [judge_ev, step_stall, lt]
      · intro hl
        have h1 := hl.2.2
        have : (c.logC2S line).waitSilent.1.srvSilent = true := by simp [Conn.waitSilent, Conn.ev, ls, hs]
        rw [ss, this] at h1; cases h1
      · simp only [Conn.waitSilent]
        exact ⟨_, rfl⟩

theorem ji_not_stopped (c : Conn) (h : JI c) (hl : live c) : (judge c.trace).stopped = false := by
  rw [h.stop, hl.1]; rfl

/-- what a command on a live connection does to the judge, by what the server did -/
theorem cmd_judge_live (c : Conn) (v : Verb) (line : Bytes) (n : Nat) (h : JI c) (hl : live c) :
    Frame c (c.cmd v line n).1 ∧
    ((∃ code text, (c.cmd v line n).2 = (if codeMatches n code then .ok (code, text) else .error (.reply code text)) ∧
        judge (c.cmd v line n).1.trace = ((judge c.trace).sent v).onReply code ∧
        (c.cmd v line n).1.srvGone = (v == .quit && code == 221))
     ∨ ((c.cmd v line n).2 = .error .proto ∧ judge (c.cmd v line n).1.trace = ((judge c.trace).sent v).onReply 0 ∧
        (c.cmd v line n).1.srvGone = false ∧ (c.cmd v line n).1.srvSilent = false)
     ∨ ((c.cmd v line n).2 = .error .eof ∧ (c.cmd v line n).1.srvGone = true ∧
        judge (c.cmd v line n).1.trace = { (judge c.trace).sent v with closed := true, pending := none })
     ∨ (((c.cmd v line n).2 = .error .timeout ∨ (c.cmd v line n).2 = .error .blocked) ∧ (c.cmd v line n).1.srvSilent = true ∧
        judge (c.cmd v line n).1.trace = (judge c.trace).sent v)) := by
  have hs := ji_not_stopped c h hl
  obtain ⟨d, f⟩ := cmd_trace_live c v line n hl
  refine ⟨f, ?_⟩
  have hsent : judge (c.ev (.cmd v line)).trace = (judge c.trace).sent v := by rw [judge_ev, step_cmd _ _ _ hs]
  have hs2 : ((judge c.trace).sent v).stopped = false := hs
  cases d with
  | reply code text h1 h2 h3 =>
    left
    exact ⟨code, text, h1, by rw [h2, judge_snoc, hsent, step_reply _ _ hs2], h3⟩
  | garbage h1 h2 h3 h4 =>
    right; left
    exact ⟨h1, by rw [h2, judge_snoc, hsent, step_garbage _ hs2], h3, h4⟩
  | drop h1 h2 h3 =>
    right; right; left
    refine ⟨h1, h3, ?_⟩
    rw [h2, judge_snoc, hsent]
    simp [J.step, hs2]
  | stall a h1 h2 h3 =>
    right; right; right
    exact ⟨h1, h3, by rw [h2, judge_snoc, hsent, step_stall]⟩

theorem sent_fields (j : J) (v : Verb) :
    (j.sent v).stopped = j.stopped ∧ (j.sent v).hello = j.hello ∧ (j.sent v).greeted = j.greeted ∧
    (j.sent v).closed = j.closed ∧ (j.sent v).tx = j.tx ∧ (j.sent v).pending = some v ∧
    (j.sent v).accepted = j.accepted ∧ (j.sent v).rejected = j.rejected := ⟨rfl, rfl, rfl, rfl, rfl, rfl, rfl, rfl⟩

/-- **Every command keeps the invariant**, provided the verb-specific condition holds when the command
    really reaches the server. -/
theorem ji_cmd (c : Conn) (v : Verb) (line : Bytes) (n : Nat) (h : JI c)
    (hv : live c → (judge c.trace).vOk v = true) : JI (c.cmd v line n).1 := by
  by_cases hl : live c
  · obtain ⟨f, cases⟩ := cmd_judge_live c v line n h hl
    have hs := ji_not_stopped c h hl
    obtain ⟨rg, rp, rc⟩ := h.ready hl
    have hok : (judge c.trace).cmdOk v = true := by
      rw [cmdOk_eq, rc, rp, rg, hv hl]; rfl
    have hbad : ((judge c.trace).sent v).bad = false := by simp [J.sent, h.nbad, hok]
    have hvg : v ≠ .greeting := by
      intro e; subst e; have := hv hl; simp [J.vOk] at this
    have hpg : ((judge c.trace).sent v).pending ≠ some .greeting := by
      simp [J.sent]; exact hvg
    rcases cases with ⟨code, text, _, hj, hg⟩ | ⟨_, hj, hg, hsil⟩ | ⟨_, hg, hj⟩ | ⟨_, hsil, hj⟩
    · refine ⟨by rw [hj, onReply_bad]; exact hbad, by rw [hj, onReply_stopped, f.1]; exact h.stop, ?_⟩
      intro hl'
      refine ⟨by rw [hj, onReply_greeted _ _ hpg]; exact rg, by rw [hj, onReply_pending], ?_⟩
      rw [hj, onReply_closed]
      have : (c.cmd v line n).1.srvGone = false := hl'.2.1
      rw [hg] at this
      simp [J.sent, rc, this]
    · refine ⟨by rw [hj, onReply_bad]; exact hbad, by rw [hj, onReply_stopped, f.1]; exact h.stop, ?_⟩
      intro _
      refine ⟨by rw [hj, onReply_greeted _ _ hpg]; exact rg, by rw [hj, onReply_pending], ?_⟩
      rw [hj, onReply_closed]; simp [J.sent, rc]
    · refine ⟨by rw [hj]; exact hbad, by rw [hj, f.1]; exact h.stop, ?_⟩
      intro hl'; have := hl'.2.1; rw [hg] at this; cases this
    · refine ⟨by rw [hj]; exact hbad, by rw [hj, f.1]; exact h.stop, ?_⟩
      intro hl'; have := hl'.2.2; rw [hsil] at this; cases this
  · obtain ⟨hj, f, hnl, _⟩ := cmd_dead c v line n hl
    exact ⟨by rw [hj]; exact h.nbad, by rw [hj, f.1]; exact h.stop, fun hl' => absurd hl' hnl⟩

/-- the judge never forgets an accepted hello -/
theorem hello_mono_cmd (c : Conn) (v : Verb) (line : Bytes) (n : Nat) (h : JI c)
    (hh : (judge c.trace).hello = true) : (judge (c.cmd v line n).1.trace).hello = true := by
  by_cases hl : live c
  · obtain ⟨_, cases⟩ := cmd_judge_live c v line n h hl
    rcases cases with ⟨code, text, _, hj, _⟩ | ⟨_, hj, _, _⟩ | ⟨_, _, hj⟩ | ⟨_, _, hj⟩
    · rw [hj]; exact onReply_hello _ _ hh
    · rw [hj]; exact onReply_hello _ _ hh
    · rw [hj]; exact hh
    · rw [hj]; exact hh
  · rw [(cmd_dead c v line n hl).1]; exact hh

end GoMail.Smtp
