import GoMailModel.Mime.Addr
import GoMailModel.Proofs.Wrap
namespace GoMail.Addr
open GoMail

theorem escapeName_cons (b : UInt8) (r : Bytes) : escapeName (b :: r) = escByte b ++ escapeName r := by
  simp [escapeName]

theorem readQuoted_lit (b : UInt8) (rest : Bytes) (h1 : b ≠ 34) (h2 : b ≠ 92) :
    readQuoted (b :: rest) = (readQuoted rest).map (fun (c, r) => (b :: c, r)) := by
  rw [readQuoted.eq_def]
  split
  · rename_i heq; cases heq
  · rename_i heq; simp only [List.cons.injEq] at heq; exact absurd heq.1 h1
  · rename_i heq; simp only [List.cons.injEq] at heq; exact absurd heq.1 h2
  · rename_i heq; simp only [List.cons.injEq] at heq; exact absurd heq.1 h2
  · rename_i heq
    simp only [List.cons.injEq] at heq
    obtain ⟨hb, hr⟩ := heq
    subst hb; subst hr; rfl

theorem readQuoted_escape (name rest : Bytes) :
    readQuoted (escapeName name ++ 34 :: rest) = some (name, rest) := by
  induction name with
  | nil => simp [escapeName, readQuoted]
  | cons b r ih =>
    rw [escapeName_cons, List.append_assoc]
    by_cases h92 : b = 92
    · subst h92
      have : escByte 92 = [92, 92] := by decide
      rw [this]
      simp only [List.cons_append, List.nil_append]
      rw [readQuoted, ih]; rfl
    · by_cases h34 : b = 34
      · subst h34
        have : escByte 34 = [92, 34] := by decide
        rw [this]
        simp only [List.cons_append, List.nil_append]
        rw [readQuoted, ih]; rfl
      · have : escByte b = [b] := by simp [escByte, h92, h34]
        rw [this]
        simp only [List.cons_append, List.nil_append]
        rw [readQuoted_lit b _ h34 h92, ih]; rfl

/-- the display name and the address come back exactly, for EVERY name (any bytes, including
    quotes, backslashes, angle brackets) and every address -/
theorem readNameAddr_format (name addr : Bytes) :
    readNameAddr (formatAddress name addr) = some (name, addr) := by
  unfold formatAddress readNameAddr
  simp only [List.cons_append, List.nil_append, List.append_assoc]
  rw [readQuoted_escape]
  simp

/-! ### the B-encoded phrase of addressString consists of phrase-safe bytes only -/
open EncodedWord

/-- bytes allowed in an encoded-word inside a phrase plus the blank between words:
    base64 alphabet incl. '=', '?', '-' and blank -/
def PW (c : UInt8) : Prop := Base64.isAlpha c = true ∨ c = 63 ∨ c = 32 ∨ c = 45
def AllPW (l : Bytes) : Prop := ∀ c ∈ l, PW c

theorem allPW_append {a b : Bytes} (ha : AllPW a) (hb : AllPW b) : AllPW (a ++ b) := by
  intro c hc
  rcases List.mem_append.mp hc with h | h
  · exact ha c h
  · exact hb c h

theorem pw_clean : ∀ c : UInt8, (Base64.isAlpha c = true ∨ c = 63 ∨ c = 32 ∨ c = 45) →
    c ≠ 92 ∧ c ≠ 34 ∧ c ≠ 60 ∧ c ≠ 62 ∧ c ≠ 40 ∧ c ≠ 41 ∧ c ≠ 44 ∧ c ≠ 59 ∧ c ≠ 58 ∧ c ≠ 64 ∧ c ≠ 13 ∧ c ≠ 10 := by
  apply forall_uint8; decide +kernel

theorem utf8_pw : AllPW (sb "utf-8") := by
  intro c hc
  have : c = 117 ∨ c = 116 ∨ c = 102 ∨ c = 45 ∨ c = 56 := by simpa [sb] using hc
  rcases this with rfl | rfl | rfl | rfl | rfl <;> (unfold PW; decide)

theorem b64_pw (x : Bytes) : AllPW (Base64.encode x) :=
  fun c hc => Or.inl (Base64.encode_alpha x c hc)

theorem openWordB_pw : AllPW (openWord .b (sb "utf-8")) := by
  unfold openWord
  apply allPW_append
  · apply allPW_append
    · intro x hx; simp at hx; rcases hx with rfl | rfl <;> (unfold PW; decide)
    · exact utf8_pw
  · intro x hx
    simp at hx; rcases hx with rfl | rfl | rfl <;> (unfold PW; decide)

theorem closeWord_pw : AllPW closeWord := by
  intro x hx; simp [closeWord] at hx; rcases hx with rfl | rfl <;> (unfold PW; decide)

theorem splitWordB_pw : AllPW (splitWord .b (sb "utf-8")) := by
  unfold splitWord
  apply allPW_append
  · apply allPW_append closeWord_pw
    intro x hx; simp at hx; subst hx; unfold PW; decide
  · exact openWordB_pw

theorem bLoop_pw (pending s : Bytes) (cur : Nat) : AllPW (bLoop (sb "utf-8") pending s cur) := by
  fun_induction bLoop (sb "utf-8") pending s cur with
  | case1 pending _ => exact b64_pw _
  | case2 pending b rest cur rl hle ih => exact ih
  | case3 pending b rest cur rl hle ih =>
    apply allPW_append
    · exact allPW_append (b64_pw _) splitWordB_pw
    · exact ih

/-- When addressString takes its own branch, the display-name part is made of encoded-words whose
    bytes are all legal in a phrase: no backslash, quote, angle bracket, parenthesis, comma, colon,
    semicolon, at-sign, CR or LF - whatever the name is. -/
theorem addressString_phrase (name std spec : Bytes)
    (h : (name.contains 92 && needsEncoding name) = true) :
    ∃ phrase, addressString name std spec = phrase ++ [32] ++ spec ∧
      ∀ c ∈ phrase, c ≠ 92 ∧ c ≠ 34 ∧ c ≠ 60 ∧ c ≠ 62 ∧ c ≠ 40 ∧ c ≠ 41 ∧ c ≠ 44 ∧ c ≠ 59 ∧ c ≠ 58 ∧ c ≠ 64 ∧ c ≠ 13 ∧ c ≠ 10 := by
  refine ⟨wordEncode .b (sb "utf-8") name, by unfold addressString; rw [if_pos h], ?_⟩
  have hn : needsEncoding name = true := by
    simp only [Bool.and_eq_true] at h; exact h.2
  intro c hc
  apply pw_clean c
  have : AllPW (wordEncode .b (sb "utf-8") name) := by
    unfold wordEncode
    simp only [hn, if_true]
    unfold encodeWord
    apply allPW_append
    · apply allPW_append openWordB_pw
      simp only [bEncode]
      split
      · exact b64_pw name
      · exact bLoop_pw [] name 0
    · exact closeWord_pw
  exact this c hc

/-- ... and otherwise the rendering is net/mail's -/
theorem addressString_std (name std spec : Bytes) (h : (name.contains 92 && needsEncoding name) = false) :
    addressString name std spec = std := by
  unfold addressString; rw [if_neg (by rw [h]; exact Bool.false_ne_true)]

end GoMail.Addr
