import GoMailModel.Codec.LineBreaker
import GoMailModel.Codec.Base64
/-
  Helper lemmas: the line structure of `wrap76`, and the alphabet of base64 output.
-/
namespace GoMail
open LineBreaker

/-- `wrap76 x` is a sequence of non-empty lines of at most 76 bytes, each followed by CRLF,
    whose concatenation is `x`. -/
theorem wrap76_lines (x : Bytes) :
    ∃ ls : List Bytes, wrap76 x = (ls.map (· ++ crlf)).flatten ∧ ls.flatten = x ∧
      ∀ l ∈ ls, 0 < l.length ∧ l.length ≤ 76 := by
  fun_induction wrap76 x with
  | case1 x h hp =>
    exact ⟨[x], by simp, by simp, by intro l hl; simp at hl; subst hl; omega⟩
  | case2 x h hp =>
    refine ⟨[], by simp, ?_, by simp⟩
    have : x.length = 0 := by omega
    simpa using (List.length_eq_zero_iff.mp this).symm
  | case3 x h ih =>
    obtain ⟨ls, h1, h2, h3⟩ := ih
    refine ⟨x.take 76 :: ls, ?_, ?_, ?_⟩
    · simp [h1, List.append_assoc]
    · simp [h2]
    · intro l hl
      simp only [List.mem_cons] at hl
      rcases hl with rfl | hl
      · simp [List.length_take]; omega
      · exact h3 l hl

namespace Base64

def isAlpha (c : UInt8) : Bool :=
  (65 ≤ c && c ≤ 90) || (97 ≤ c && c ≤ 122) || (48 ≤ c && c ≤ 57) || c == 43 || c == 47 || c == 61

theorem char_alpha : ∀ n : UInt8, isAlpha (char n) = true := by
  apply forall_uint8; decide +kernel

theorem encode_alpha (x : Bytes) : ∀ c ∈ encode x, isAlpha c = true := by
  fun_induction encode x with
  | case1 => simp
  | case2 a => intro c hc; simp at hc; rcases hc with rfl | rfl | rfl | rfl <;> first | exact char_alpha _ | decide
  | case3 a b => intro c hc; simp at hc; rcases hc with rfl | rfl | rfl | rfl <;> first | exact char_alpha _ | decide
  | case4 a b c rest ih =>
    intro d hd; simp at hd
    rcases hd with rfl | rfl | rfl | rfl | hd
    · exact char_alpha _
    · exact char_alpha _
    · exact char_alpha _
    · exact char_alpha _
    · exact ih d hd

theorem alpha_not_crlf (c : UInt8) (h : isAlpha c = true) : c ≠ 13 ∧ c ≠ 10 := by
  revert h; revert c; apply forall_uint8; decide +kernel

end Base64
end GoMail
