import GoMailModel.Proofs.Legal3
/-
  Session legality, part 4: RSET / NOOP / QUIT / close / deadline, and the mail transaction
  (MAIL, RCPT loop, DATA, end-of-data).
-/
namespace GoMail.Smtp
open GoMail

theorem cmd_frame (c : Conn) (v : Verb) (line : Bytes) (n : Nat) (h : JI c) : Frame c (c.cmd v line n).1 := by
  by_cases hl : live c
  · exact (cmd_judge_live c v line n h hl).1
  · exact (cmd_dead c v line n hl).2.1

/-- events the judge does not look at -/
theorem sess_ev_neutral (c : Conn) (e : Ev) (h : Sess c) (he : ∀ j : J, j.step e = j) :
    Sess (c.ev e) ∧ (Idle c → Idle (c.ev e)) ∧ judge (c.ev e).trace = judge c.trace := by
  have hj : judge (c.ev e).trace = judge c.trace := by rw [judge_ev, he]
  refine ⟨⟨⟨by rw [hj]; exact h.ji.nbad, by rw [hj]; exact h.ji.stop, fun hl => by rw [hj]; exact h.ji.ready hl⟩,
    fun a b => by rw [hj]; exact h.hello a b⟩, fun hi hl => by rw [hj]; exact hi hl, hj⟩

theorem step_content_partial (i : Nat) (j : J) : j.step (.content i false) = j := by simp [J.step]

/-- a complete rendering handed over inside DATA -/
theorem sess_content_full (c : Conn) (i : Nat) (h : Sess c) (hp : live c → (judge c.trace).tx = .data) :
    Sess (c.ev (.content i true)) ∧ (live (c.ev (.content i true)) → (judge (c.ev (.content i true)).trace).tx = .full) := by
  have hj : judge (c.ev (.content i true)).trace =
      if (judge c.trace).stopped then judge c.trace
      else if (judge c.trace).tx == .data then { judge c.trace with tx := .full } else judge c.trace := by
    rw [judge_ev]; simp [J.step]
  have hb : (judge (c.ev (.content i true)).trace).bad = (judge c.trace).bad := by rw [hj]; split <;> (try split) <;> rfl
  have hs : (judge (c.ev (.content i true)).trace).stopped = (judge c.trace).stopped := by rw [hj]; split <;> (try split) <;> rfl
  have hh : (judge (c.ev (.content i true)).trace).hello = (judge c.trace).hello := by rw [hj]; split <;> (try split) <;> rfl
  have hg : (judge (c.ev (.content i true)).trace).greeted = (judge c.trace).greeted := by rw [hj]; split <;> (try split) <;> rfl
  have hpd : (judge (c.ev (.content i true)).trace).pending = (judge c.trace).pending := by rw [hj]; split <;> (try split) <;> rfl
  have hc : (judge (c.ev (.content i true)).trace).closed = (judge c.trace).closed := by rw [hj]; split <;> (try split) <;> rfl
  refine ⟨⟨⟨by rw [hb]; exact h.ji.nbad, by rw [hs]; exact h.ji.stop, fun hl => ?_⟩, fun a b => by rw [hh]; exact h.hello a b⟩, ?_⟩
  · obtain ⟨a, b, d⟩ := h.ji.ready hl
    exact ⟨by rw [hg]; exact a, by rw [hpd]; exact b, by rw [hc]; exact d⟩
  · intro hl
    have hst := ji_not_stopped c h.ji hl
    have := hp hl
    rw [hj]; simp [hst, this]
theorem step_deadline (j : J) : j.step .deadline = j := by simp [J.step]
theorem step_tlsOn (j : J) : j.step .tlsOn = j := by simp [J.step]
theorem step_tlsFail (j : J) : j.step .tlsFail = j := by simp [J.step]

theorem close_facts (c : Conn) (h : Sess c) : Sess c.close ∧ Idle c.close ∧ ¬ live c.close := by
  unfold Conn.close
  split
  · rename_i ho
    have hs : (judge c.trace).stopped = false := by rw [h.ji.stop, ho]; rfl
    have hj : judge (c.ev .close).trace = { judge c.trace with stopped := true } := by
      rw [judge_ev]; simp [J.step, hs]
    have nl : ¬ live { c.ev .close with cliOpen := false, isConnected := false } := fun hl => by cases hl.1
    refine ⟨⟨⟨?_, ?_, fun hl => absurd hl nl⟩, ?_⟩, fun hl => absurd hl nl, nl⟩
    · show (judge (c.ev .close).trace).bad = false
      rw [hj]; exact h.ji.nbad
    · show (judge (c.ev .close).trace).stopped = _
      rw [hj]; rfl
    · intro a b
      show (judge (c.ev .close).trace).hello = true
      rw [hj]; exact h.hello a b
  · rename_i ho
    have ho' : c.cliOpen = false := by simpa using ho
    have nl : ¬ live { c with isConnected := false } := fun hl => by have := hl.1; simp [ho'] at this
    exact ⟨⟨ji_of_eq c _ h.ji rfl, hellorel_of_eq c _ h.hello rfl⟩, fun hl => absurd hl nl, nl⟩

theorem updateDeadline_facts (c : Conn) (h : Sess c) :
    Sess c.updateDeadline.1 ∧ (Idle c → Idle c.updateDeadline.1) := by
  unfold Conn.updateDeadline
  split
  · exact ⟨h, id⟩
  · obtain ⟨a, b, hj⟩ := sess_ev_neutral c .deadline h step_deadline
    exact ⟨⟨ji_of_eq _ _ a.ji rfl, hellorel_of_eq _ _ a.hello rfl⟩, fun hi => idle_of_eq _ _ (b hi) rfl⟩

/-- hello, then one always-legal command (RSET, NOOP) -/
theorem simple_facts (c : Conn) (v : Verb) (l : String) (n : Nat) (h : Sess c)
    (hv : v = .rset ∨ v = .noop) :
    Sess (c.simple v l n).1 ∧ (Idle c → Idle (c.simple v l n).1) ∧
    (v = .rset → n = 250 → (c.simple v l n).2 = none → Idle (c.simple v l n).1) := by
  unfold Conn.simple
  obtain ⟨a, b, _⟩ := hello_facts c h
  rcases hr : c.hello with ⟨c1, r⟩
  rw [hr] at a b
  cases r with
  | some e => exact ⟨a, b, fun _ _ x => by cases x⟩
  | none =>
    simp only []
    have hvok : live c1 → (judge c1.trace).vOk v = true := by
      intro _; rcases hv with rfl | rfl <;> rfl
    have s1 := sess_cmd c1 v (sb l) n a hvok
    have i1 := idle_cmd c1 v (sb l) n a.ji
    have hok := cmd_ok c1 v (sb l) n
    rcases hc : c1.cmd v (sb l) n with ⟨c2, r2⟩
    rw [hc] at s1 i1 hok
    cases r2 with
    | error e =>
      exact ⟨s1, fun hi => i1 (b hi) (by rcases hv with rfl | rfl <;> decide), fun _ _ x => by cases x⟩
    | ok val =>
      obtain ⟨code, text⟩ := val
      refine ⟨s1, fun hi => i1 (b hi) (by rcases hv with rfl | rfl <;> decide), ?_⟩
      intro hrset hn _
      subst hrset; subst hn
      obtain ⟨_, hcm, hjj, _⟩ := hok code text a.ji rfl
      have : code = 250 := by simpa [codeMatches] using hcm
      subst this
      intro _
      rw [hjj]; simp [J.onReply, J.sent, ok2]

theorem reset_facts (c : Conn) (h : Sess c) :
    Sess c.reset.1 ∧ (Idle c → Idle c.reset.1) ∧ (c.reset.2 = none → Idle c.reset.1) := by
  obtain ⟨a, b, d⟩ := simple_facts c .rset "RSET" 250 h (Or.inl rfl)
  exact ⟨a, b, d rfl rfl⟩

theorem noop_facts (c : Conn) (h : Sess c) : Sess c.noop.1 ∧ (Idle c → Idle c.noop.1) := by
  obtain ⟨a, b, _⟩ := simple_facts c .noop "NOOP" 250 h (Or.inr rfl)
  exact ⟨a, b⟩

theorem quit_facts (c : Conn) (h : Sess c) : Sess c.quit.1 ∧ (Idle c → Idle c.quit.1) := by
  unfold Conn.quit
  simp only []
  obtain ⟨a, b, _⟩ := hello_facts c h
  have s1 := sess_cmd c.hello.1 .quit (sb "QUIT") 221 a (fun _ => rfl)
  have i1 := idle_cmd c.hello.1 .quit (sb "QUIT") 221 a.ji
  rcases hc : c.hello.1.cmd .quit (sb "QUIT") 221 with ⟨c2, r2⟩
  rw [hc] at s1 i1
  cases r2 with
  | error e => exact ⟨s1, fun hi => i1 (b hi) (by decide)⟩
  | ok val => exact ⟨(close_facts c2 s1).1, fun _ => (close_facts c2 s1).2.1⟩

/-! ### the mail transaction -/

/-- MAIL was accepted: the transaction is open and has no recipients yet -/
def MailOpen (c : Conn) : Prop :=
  live c → (judge c.trace).tx = .mail ∧ (judge c.trace).accepted = 0 ∧ (judge c.trace).rejected = 0

/-- inside the RCPT loop: `ok` = no recipient was refused so far (client's view), `some` = at least one was sent -/
def RPhase (c : Conn) (ok some : Bool) : Prop :=
  live c → (((judge c.trace).tx = .mail ∨ (judge c.trace).tx = .rcpt) ∧
    (ok = true → (judge c.trace).rejected = 0 ∧ (some = true → (judge c.trace).tx = .rcpt ∧ (judge c.trace).accepted > 0)))

theorem mail_facts (c : Conn) (sender : Bytes) (h : Sess c) (hi : Idle c) :
    Sess (c.mail sender).1 ∧ ((c.mail sender).2 = none → MailOpen (c.mail sender).1) := by
  unfold Conn.mail
  split
  · exact ⟨h, fun x => by cases x⟩
  · obtain ⟨a, b, d⟩ := hello_facts c h
    rcases hr : c.hello with ⟨c1, r⟩
    rw [hr] at a b d
    cases r with
    | some e => exact ⟨a, fun x => by cases x⟩
    | none =>
      simp only []
      have hvok : live c1 → (judge c1.trace).vOk .mail = true := by
        intro hl; simp [J.vOk, d rfl, b hi hl]
      have s1 := sess_cmd c1 .mail (c1.mailLine sender) 250 a hvok
      have hok := cmd_ok c1 .mail (c1.mailLine sender) 250
      rcases hc : c1.cmd .mail (c1.mailLine sender) 250 with ⟨c2, r2⟩
      rw [hc] at s1 hok
      cases r2 with
      | error e => exact ⟨s1, fun x => by cases x⟩
      | ok val =>
        obtain ⟨code, text⟩ := val
        refine ⟨s1, fun _ => ?_⟩
        obtain ⟨_, hcm, hjj, _⟩ := hok code text a.ji rfl
        have : code = 250 := by simpa [codeMatches] using hcm
        subst this
        intro _
        rw [hjj]; simp [J.onReply, J.sent, ok2]

theorem rphase_of_mailOpen (c : Conn) (h : MailOpen c) : RPhase c true false := by
  intro hl
  obtain ⟨a, _, d⟩ := h hl
  exact ⟨Or.inl a, fun _ => ⟨d, fun x => by cases x⟩⟩

theorem rphase_weaken (c : Conn) (ok some : Bool) (h : RPhase c ok some) : RPhase c false some :=
  fun hl => ⟨(h hl).1, fun x => by cases x⟩

theorem rcpt_facts (c : Conn) (to : Bytes) (ok some : Bool) (h : Sess c) (hp : RPhase c ok some) :
    Sess (c.rcpt to).1 ∧ ((c.rcpt to).2 = none → RPhase (c.rcpt to).1 ok true) ∧
    RPhase (c.rcpt to).1 false true := by
  unfold Conn.rcpt
  split
  · exact ⟨h, fun x => (by cases x), fun hl => ⟨(hp hl).1, fun x => by cases x⟩⟩
  · have hvok : live c → (judge c.trace).vOk .rcpt = true := by
      intro hl
      rcases (hp hl).1 with e | e <;> simp [J.vOk, e]
    have s1 := sess_cmd c .rcpt (c.rcptLine to) 25 h hvok
    -- the transaction state after the command, whatever the server did
    have hany : RPhase (c.cmd .rcpt (c.rcptLine to) 25).1 false true := by
      intro hl'
      refine ⟨?_, fun x => by cases x⟩
      by_cases hl : live c
      · have htx := (hp hl).1
        obtain ⟨_, cases⟩ := cmd_judge_live c .rcpt (c.rcptLine to) 25 h.ji hl
        rcases cases with ⟨code, text, _, hj, _⟩ | ⟨_, hj, _, _⟩ | ⟨_, hg, _⟩ | ⟨_, hs, _⟩
        · rw [hj]; simp only [J.onReply, J.sent]; split <;> simp_all
        · rw [hj]; simp only [J.onReply, J.sent]; split <;> simp_all
        · have := hl'.2.1; rw [hg] at this; cases this
        · have := hl'.2.2; rw [hs] at this; cases this
      · exact absurd hl' (cmd_dead c _ _ _ hl).2.2.1
    have hok := cmd_ok c .rcpt (c.rcptLine to) 25
    rcases hc : c.cmd .rcpt (c.rcptLine to) 25 with ⟨c2, r2⟩
    rw [hc] at s1 hok hany
    cases r2 with
    | error e => exact ⟨s1, fun x => (by cases x), hany⟩
    | ok val =>
      obtain ⟨code, text⟩ := val
      refine ⟨s1, fun _ => ?_, hany⟩
      obtain ⟨hl, hcm, hjj, _⟩ := hok code text h.ji rfl
      have hc2 : ok2 code = true := by
        simp only [codeMatches] at hcm
        have : code / 10 = 25 := by simpa using hcm
        simp only [ok2, Bool.and_eq_true, decide_eq_true_eq]; omega
      intro _
      obtain ⟨_, hok'⟩ := hp hl
      rw [hjj]
      simp only [J.onReply, J.sent, hc2, if_true]
      refine ⟨by simp, fun hk => ⟨(hok' hk).1, fun _ => ⟨by simp, by omega⟩⟩⟩

theorem rcptLoop_facts (esc : Bool) (rs : List Bytes) (c : Conn) (se : SendErr) (bad some : Bool)
    (h : Sess c) (hp : RPhase c (!bad) some) :
    Sess (rcptLoop esc c rs se bad).1 ∧
    RPhase (rcptLoop esc c rs se bad).1 (!(rcptLoop esc c rs se bad).2.2) (some || !rs.isEmpty) := by
  induction rs generalizing c se bad some with
  | nil => simpa [rcptLoop] using ⟨h, hp⟩
  | cons r rest ih =>
    unfold rcptLoop
    obtain ⟨s1, p1, p2⟩ := rcpt_facts c (envelopeAddress r) (!bad) some h hp
    rcases hr : c.rcpt (envelopeAddress r) with ⟨c1, e⟩
    rw [hr] at s1 p1 p2
    cases e with
    | none =>
      have := ih c1 se bad true s1 (p1 rfl)
      simpa using this
    | some err =>
      have := ih c1 { se with reason := .rcptTo, isTemp := err.isTemp, code := err.code, esc := err.esc esc,
                              rcpts := se.rcpts ++ [r], nerrs := se.nerrs + 1 } true true s1 (by simpa using p2)
      simpa using this

theorem data_facts (c : Conn) (h : Sess c)
    (hp : live c → (judge c.trace).tx = .rcpt ∧ (judge c.trace).accepted > 0 ∧ (judge c.trace).rejected = 0) :
    Sess c.data.1 ∧ (c.data.2 = none → live c.data.1 → (judge c.data.1.trace).tx = .data) := by
  unfold Conn.data
  have hvok : live c → (judge c.trace).vOk .data = true := by
    intro hl; obtain ⟨a, b, d⟩ := hp hl; simp [J.vOk, a, b, d]
  have s1 := sess_cmd c .data (sb "DATA") 354 h hvok
  have hok := cmd_ok c .data (sb "DATA") 354
  rcases hc : c.cmd .data (sb "DATA") 354 with ⟨c2, r2⟩
  rw [hc] at s1 hok
  cases r2 with
  | error e => exact ⟨s1, fun x => by cases x⟩
  | ok val =>
    obtain ⟨code, text⟩ := val
    refine ⟨s1, fun _ _ => ?_⟩
    obtain ⟨_, hcm, hjj, _⟩ := hok code text h.ji rfl
    have : code = 354 := by simpa [codeMatches] using hcm
    subst this
    rw [hjj]; simp [J.onReply, J.sent]

end GoMail.Smtp
