import GoMailModel.Smtp.Send
/-
  Which messages did the server acknowledge? A second reading of the event trace, independent of the
  legality automaton: remember the message whose COMPLETE content was handed to the DATA stream last,
  remember that an end-of-data marker awaits its reply, and record the message when that reply is 250.

  `Q c c'`: c' continues the trace of c by events that are neither an end-of-data marker nor message
  content. Every operation of the session model except the content hand-over and dataCloser.Close is
  quiet in this sense; that is what makes `acks` change only where sendOne reports `delivered`.
-/
namespace GoMail.Smtp
open GoMail

structure AckSt where
  last  : Option Nat := none     -- the message whose complete content was handed to DATA last
  pend  : Bool := false          -- an end-of-data marker awaits its reply
  acked : List Nat := []         -- messages whose end-of-data marker was answered 250, in order
deriving Repr, DecidableEq

def AckSt.step (s : AckSt) : Ev → AckSt
  | .content i true => { s with last := some i }
  | .content _ false => { s with last := none }
  | .eod => { s with pend := true }
  | .reply code =>
    if s.pend then { s with pend := false, acked := if code == 250 then s.acked ++ s.last.toList else s.acked }
    else s
  | .garbage | .drop | .close | .stall _ => { s with pend := false }
  | .connect | .cmd _ _ | .deadline | .tlsOn | .tlsFail => s

def acks (t : List Ev) : AckSt := t.foldl AckSt.step {}

theorem acks_snoc (t : List Ev) (e : Ev) : acks (t ++ [e]) = (acks t).step e := by
  simp [acks, List.foldl_append]

theorem acks_append (t ext : List Ev) : acks (t ++ ext) = ext.foldl AckSt.step (acks t) := by
  simp [acks, List.foldl_append]

def quietEv : Ev → Bool
  | .eod | .content _ _ => false
  | _ => true

theorem step_quiet (s : AckSt) (e : Ev) (hp : s.pend = false) (hq : quietEv e = true) : s.step e = s := by
  cases s with
  | mk l p a =>
    simp only at hp
    subst hp
    cases e <;> simp_all [AckSt.step, quietEv]

theorem foldl_quiet (ext : List Ev) (s : AckSt) (hp : s.pend = false) (hq : ∀ e ∈ ext, quietEv e = true) :
    ext.foldl AckSt.step s = s := by
  induction ext with
  | nil => rfl
  | cons e rest ih =>
    simp only [List.foldl_cons]
    rw [step_quiet s e hp (hq e (by simp))]
    exact ih (fun x hx => hq x (by simp [hx]))

/-- c' continues the trace of c quietly -/
def Q (c c' : Conn) : Prop := ∃ ext, c'.trace = c.trace ++ ext ∧ ∀ e ∈ ext, quietEv e = true

theorem Q.refl (c : Conn) : Q c c := ⟨[], by simp, by simp⟩

theorem Q.trans {a b c : Conn} (h1 : Q a b) (h2 : Q b c) : Q a c := by
  obtain ⟨e1, t1, q1⟩ := h1
  obtain ⟨e2, t2, q2⟩ := h2
  refine ⟨e1 ++ e2, by rw [t2, t1, List.append_assoc], ?_⟩
  intro e he
  rcases List.mem_append.mp he with h | h
  · exact q1 e h
  · exact q2 e h

/-- a state with the same trace -/
theorem Q.of_trace {c c' : Conn} (h : c'.trace = c.trace) : Q c c' := ⟨[], by simp [h], by simp⟩

theorem Q.acks {c c' : Conn} (h : Q c c') (hp : (acks c.trace).pend = false) : acks c'.trace = acks c.trace := by
  obtain ⟨ext, ht, hq⟩ := h
  rw [ht, acks_append]
  exact foldl_quiet ext _ hp hq

theorem q_ev (c : Conn) (e : Ev) (he : quietEv e = true) : Q c (c.ev e) :=
  ⟨[e], rfl, by intro x hx; simp at hx; subst hx; exact he⟩

theorem q_log (c : Conn) (r : LogRec) : Q c (c.log r) := by
  unfold Conn.log; split
  · exact Q.of_trace rfl
  · exact Q.refl c

theorem q_close (c : Conn) : Q c c.close := by
  unfold Conn.close; split
  · exact (q_ev c .close rfl).trans (Q.of_trace rfl)
  · exact Q.of_trace rfl

theorem q_pop (c : Conn) : Q c c.pop.2 := by
  unfold Conn.pop; split
  · exact Q.refl c
  · exact Q.of_trace rfl

theorem q_waitSilent (c : Conn) : Q c c.waitSilent.1 := by
  unfold Conn.waitSilent
  exact q_ev c _ rfl

theorem q_replied (c : Conn) (v : Verb) (n code : Nat) (t : Bytes) : Q c (c.replied v n code t).1 := by
  unfold Conn.replied
  simp only []
  have h1 : Q c (c.ev (.reply code)) := q_ev c _ rfl
  split <;> split <;> first | exact h1 | exact h1.trans (Q.of_trace rfl)

theorem q_applyAct (c : Conn) (v : Verb) (n : Nat) (a : Act) : Q c (c.applyAct v n a).1 := by
  cases a with
  | ok => exact q_replied c v n _ _
  | reply code text => exact q_replied c v n code text
  | drop => exact (q_ev c .drop rfl).trans (Q.of_trace rfl)
  | stall => exact (Q.of_trace (c := c) (c' := { c with srvSilent := true }) rfl).trans (q_waitSilent _)
  | garbage => exact q_ev c _ rfl
  | tlsBad => exact q_ev c _ rfl
  | deaf => exact (q_replied c v n _ _).trans (Q.of_trace rfl)

theorem q_serverTurn (c : Conn) (v : Verb) (n : Nat) : Q c (c.serverTurn v n).1 := by
  unfold Conn.serverTurn
  split
  · exact Q.refl c
  · split
    · exact q_waitSilent c
    · exact (q_pop c).trans (q_applyAct _ v n _)

theorem q_send (c : Conn) (v : Verb) (line : Bytes) : Q c (c.send v line) := by
  unfold Conn.send; split
  · exact Q.refl c
  · exact q_ev c _ rfl

theorem q_cmd (c : Conn) (v : Verb) (line : Bytes) (n : Nat) : Q c (c.cmd v line n).1 := by
  unfold Conn.cmd
  split
  · exact q_log _ _
  · exact (((q_log c _).trans (q_send _ v line)).trans (q_serverTurn _ v n)).trans (q_log _ _)

theorem q_updateDeadline (c : Conn) : Q c c.updateDeadline.1 := by
  unfold Conn.updateDeadline
  split
  · exact Q.refl c
  · exact (q_ev c .deadline rfl).trans (Q.of_trace rfl)

theorem q_ehlo (c : Conn) : Q c c.ehlo.1 := by
  unfold Conn.ehlo
  have hc := q_cmd c .ehlo (sb "EHLO " ++ c.localName) 250
  rcases hr : c.cmd .ehlo (sb "EHLO " ++ c.localName) 250 with ⟨c1, r⟩
  rw [hr] at hc
  cases r with
  | error e => exact hc
  | ok v =>
    simp only []
    split <;> exact hc.trans (Q.of_trace rfl)

theorem q_helo (c : Conn) : Q c c.helo.1 := by
  unfold Conn.helo
  simp only []
  have hc := q_cmd { c with ext := none } .helo (sb "HELO " ++ c.localName) 250
  rcases hr : Conn.cmd { c with ext := none } .helo (sb "HELO " ++ c.localName) 250 with ⟨c1, r⟩
  rw [hr] at hc
  have h0 : Q c { c with ext := none } := Q.of_trace rfl
  cases r <;> exact h0.trans hc

theorem q_hello (c : Conn) : Q c c.hello.1 := by
  unfold Conn.hello
  split
  · exact Q.refl c
  · simp only []
    have h0 : Q c { c with didHello := true } := Q.of_trace rfl
    have h1 := q_ehlo { c with didHello := true }
    rcases hr : Conn.ehlo { c with didHello := true } with ⟨c1, r⟩
    rw [hr] at h1
    cases r with
    | none => exact h0.trans h1
    | some e =>
      simp only []
      have h2 := q_helo c1
      rcases hr2 : c1.helo with ⟨c2, r2⟩
      rw [hr2] at h2
      exact ((h0.trans h1).trans h2).trans (Q.of_trace rfl)

theorem q_extension (c : Conn) (k : String) : Q c (c.extension k).1 := by
  unfold Conn.extension
  have h1 := q_hello c
  rcases hr : c.hello with ⟨c1, r⟩
  rw [hr] at h1
  cases r <;> exact h1

theorem q_after_hello (c : Conn) (k : Conn → Conn × Option Err) (hk : ∀ c, Q c (k c).1) :
    Q c (match c.hello with | (c, some e) => (c, some e) | (c, none) => k c).1 := by
  have h1 := q_hello c
  rcases hr : c.hello with ⟨c1, r⟩
  rw [hr] at h1
  cases r with
  | some e => exact h1
  | none => exact h1.trans (hk c1)

theorem q_cmd_opt (c : Conn) (v : Verb) (line : Bytes) (n : Nat) :
    Q c (match c.cmd v line n with | (c, .error e) => (c, some e) | (c, .ok _) => (c, (none : Option Err))).1 := by
  have hc := q_cmd c v line n
  rcases hr : c.cmd v line n with ⟨c1, r⟩
  rw [hr] at hc
  cases r <;> exact hc

theorem q_mail (c : Conn) (s : Bytes) : Q c (c.mail s).1 := by
  unfold Conn.mail
  split
  · exact Q.refl c
  · exact q_after_hello c _ (fun c => q_cmd_opt c _ _ _)

theorem q_rcpt (c : Conn) (s : Bytes) : Q c (c.rcpt s).1 := by
  unfold Conn.rcpt
  split
  · exact Q.refl c
  · exact q_cmd_opt c _ _ _

theorem q_simple (c : Conn) (v : Verb) (l : String) (n : Nat) : Q c (c.simple v l n).1 := by
  unfold Conn.simple
  exact q_after_hello c _ (fun c => q_cmd_opt c _ _ _)

theorem q_reset (c : Conn) : Q c c.reset.1 := q_simple c _ _ _
theorem q_noop (c : Conn) : Q c c.noop.1 := q_simple c _ _ _

theorem q_data (c : Conn) : Q c c.data.1 := by
  unfold Conn.data
  exact q_cmd_opt c _ _ _

theorem q_checkConn (cfg : SendCfg) (c : Conn) : Q c (checkConn cfg c).1 := by
  unfold checkConn
  split
  · exact Q.refl c
  · have h1 := q_updateDeadline c
    rcases hr : c.updateDeadline with ⟨c1, b⟩
    rw [hr] at h1
    cases b with
    | false => exact h1
    | true =>
      simp only []
      split
      · exact h1
      · have h2 := q_noop c1
        rcases hr2 : c1.noop with ⟨c2, r2⟩
        rw [hr2] at h2
        cases r2 <;> exact h1.trans h2

theorem q_resetWith (cfg : SendCfg) (c : Conn) : Q c (resetWith cfg c).1 := by
  unfold resetWith
  have h1 := q_checkConn cfg c
  rcases hr : checkConn cfg c with ⟨c1, r⟩
  rw [hr] at h1
  cases r with
  | some e => exact h1
  | none => exact h1.trans (q_reset c1)

theorem q_abortTx (c : Conn) (se : SendErr) : Q c (abortTx c se).1 := by
  unfold abortTx
  have h1 := q_reset c
  rcases hr : c.reset with ⟨c1, r⟩
  rw [hr] at h1
  cases r with
  | some e => exact h1.trans (q_close c1)
  | none => exact h1

theorem q_rcptLoop (esc : Bool) (c : Conn) (rs : List Bytes) (se : SendErr) (bad : Bool) :
    Q c (rcptLoop esc c rs se bad).1 := by
  induction rs generalizing c se bad with
  | nil => exact Q.refl c
  | cons r rest ih =>
    unfold rcptLoop
    have h1 := q_rcpt c (envelopeAddress r)
    rcases hr : c.rcpt (envelopeAddress r) with ⟨c1, e⟩
    rw [hr] at h1
    cases e with
    | none => exact h1.trans (ih c1 se bad)
    | some e => exact h1.trans (ih c1 _ true)


/-! ### the two places that are not quiet: the content hand-over and dataCloser.Close -/

/-- what the server did when it was handed an end-of-data marker on behalf of the message recorded in `last` -/
theorem serverTurn_eod (c : Conn) (hp : (acks c.trace).pend = true) :
    (∀ r, (c.serverTurn .eod 250).2 = .ok r →
        acks (c.serverTurn .eod 250).1.trace =
          { acks c.trace with pend := false, acked := (acks c.trace).acked ++ (acks c.trace).last.toList } ∧
        c.srvGone = false ∧ c.srvSilent = false) ∧
    (∀ e, (c.serverTurn .eod 250).2 = .error e →
        (c.srvGone = false → c.srvSilent = false →
          (acks (c.serverTurn .eod 250).1.trace).pend = false ∧
          (acks (c.serverTurn .eod 250).1.trace).acked = (acks c.trace).acked)) := by
  unfold Conn.serverTurn
  by_cases hg : c.srvGone = true
  · simp [hg]
  · by_cases hs : c.srvSilent = true
    · simp [hg, hs, Conn.waitSilent]
    · simp only [hg, hs, Bool.false_eq_true, if_false]
      have hpop : c.pop.2.trace = c.trace := by unfold Conn.pop; split <;> rfl
      have hp' : (acks c.pop.2.trace).pend = true := by rw [hpop]; exact hp
      generalize c.pop.1 = a
      rw [← hpop]
      generalize c.pop.2 = d at hp' ⊢
      have hrep : ∀ code text,
          (∀ r, (d.replied .eod 250 code text).2 = .ok r →
            acks (d.replied .eod 250 code text).1.trace =
              { acks d.trace with pend := false, acked := (acks d.trace).acked ++ (acks d.trace).last.toList }) ∧
          (∀ e, (d.replied .eod 250 code text).2 = .error e →
            (acks (d.replied .eod 250 code text).1.trace).pend = false ∧
            (acks (d.replied .eod 250 code text).1.trace).acked = (acks d.trace).acked) := by
        intro code text
        have ht : (d.replied .eod 250 code text).1.trace = d.trace ++ [.reply code] := by
          unfold Conn.replied; simp [Conn.ev]
        have h2 : (d.replied .eod 250 code text).2 =
            if codeMatches 250 code then .ok (code, text) else .error (.reply code text) := by
          unfold Conn.replied; simp
        rw [ht, acks_snoc, h2]
        by_cases hc : code = 250
        · subst hc
          simp [codeMatches, AckSt.step, hp']
        · have : codeMatches 250 code = false := by simp [codeMatches, hc]
          simp [this, AckSt.step, hp', hc]
      cases a with
      | ok => exact ⟨fun r h => ⟨(hrep _ _).1 r h, by simp, by simp⟩, fun e h _ _ => (hrep _ _).2 e h⟩
      | reply code text => exact ⟨fun r h => ⟨(hrep _ _).1 r h, by simp, by simp⟩, fun e h _ _ => (hrep _ _).2 e h⟩
      | deaf =>
        refine ⟨fun r h => ⟨?_, by simp, by simp⟩, fun e h _ _ => ?_⟩
        · exact (hrep _ _).1 r h
        · exact (hrep _ _).2 e h
      | drop => simp [Conn.applyAct, Conn.ev, acks_snoc, AckSt.step]
      | stall => simp [Conn.applyAct, Conn.waitSilent, Conn.ev, acks_snoc, AckSt.step]
      | garbage => simp [Conn.applyAct, Conn.ev, acks_snoc, AckSt.step]
      | tlsBad => simp [Conn.applyAct, Conn.ev, acks_snoc, AckSt.step]


theorem serverTurn_gone_or_silent (c : Conn) (v : Verb) (n : Nat) (h : (c.srvGone || c.srvSilent) = true) :
    ∃ e, (c.serverTurn v n).2 = .error e := by
  unfold Conn.serverTurn
  by_cases hg : c.srvGone = true
  · exact ⟨c.broken.getD .eof, by simp [hg]⟩
  · have hs : c.srvSilent = true := by simpa [hg] using h
    exact ⟨if c.armed then .timeout else .blocked, by simp [hg, hs, Conn.waitSilent]⟩

/-- dataCloser.Close: the message recorded in `last` is acknowledged exactly when Close returns no error -/
theorem endData_acks (c : Conn) (hp : (acks c.trace).pend = false) :
    (c.endData.2 = none →
      acks c.endData.1.trace = { acks c.trace with acked := (acks c.trace).acked ++ (acks c.trace).last.toList }) ∧
    (∀ e, c.endData.2 = some e →
      (acks c.endData.1.trace).pend = false ∧ (acks c.endData.1.trace).acked = (acks c.trace).acked) := by
  unfold Conn.endData
  by_cases ho : c.cliOpen = true
  · simp only [ho, Bool.not_true, Bool.false_eq_true, if_false]
    by_cases hq : (c.srvGone || c.srvSilent) = true
    · simp only [hq, if_true]
      obtain ⟨e, he⟩ := serverTurn_gone_or_silent c .eod 250 hq
      have hQ := (q_serverTurn c .eod 250).acks hp
      rcases hr : c.serverTurn .eod 250 with ⟨c1, r⟩
      rw [hr] at he hQ
      simp only at he
      subst he
      simp only [reduceCtorEq, false_implies, true_and]
      intro e' _
      simp only at hQ
      rw [hQ]
      exact ⟨hp, rfl⟩
    · simp only [hq, Bool.false_eq_true, if_false]
      have hgs : c.srvGone = false ∧ c.srvSilent = false := by
        cases hg : c.srvGone <;> cases hs : c.srvSilent <;> simp_all
      have ht : ({ c.ev .eod with inData := false } : Conn).trace = c.trace ++ [.eod] := rfl
      have hp1 : (acks ({ c.ev .eod with inData := false } : Conn).trace).pend = true := by
        rw [ht, acks_snoc]; rfl
      have hmain := serverTurn_eod { c.ev .eod with inData := false } hp1
      have ha : acks ({ c.ev .eod with inData := false } : Conn).trace = { acks c.trace with pend := true } := by
        rw [ht, acks_snoc]; rfl
      rcases hr : Conn.serverTurn { c.ev .eod with inData := false } .eod 250 with ⟨c1, r⟩
      rw [hr] at hmain
      cases r with
      | ok v =>
        simp only [reduceCtorEq, false_implies, implies_true, and_true, true_implies]
        have := (hmain.1 v rfl).1
        simp only at this
        rw [this, ha]
        cases hA : acks c.trace
        simp only [hA] at hp
        simp [hp]
      | error e =>
        simp only [reduceCtorEq, false_implies, true_and, Option.some.injEq]
        intro e' _
        have := hmain.2 e rfl (by exact hgs.1) (by exact hgs.2)
        simp only at this
        rw [ha] at this
        exact this
  · have ho' : c.cliOpen = false := by simpa using ho
    simp [ho', hp]


/-- c' continues c without a new acknowledgement (and without an end-of-data marker left pending) -/
def R (c c' : Conn) : Prop :=
  (acks c.trace).pend = false → (acks c'.trace).pend = false ∧ (acks c'.trace).acked = (acks c.trace).acked

theorem Q.toR {c c' : Conn} (h : Q c c') : R c c' := by
  intro hp; rw [h.acks hp]; exact ⟨hp, rfl⟩

theorem R.trans {a b c : Conn} (h1 : R a b) (h2 : R b c) : R a c := by
  intro hp
  have := h1 hp
  have h3 := h2 this.1
  exact ⟨h3.1, h3.2.trans this.2⟩

theorem r_content (c : Conn) (i : Nat) (b : Bool) : R c (c.ev (.content i b)) := by
  intro hp
  have : (c.ev (.content i b)).trace = c.trace ++ [.content i b] := rfl
  rw [this, acks_snoc]
  cases b <;> exact ⟨hp, rfl⟩

theorem r_stall (c : Conn) (a : Bool) : R c (c.ev (.stall a)) := (q_ev c _ rfl).toR

/-- **sendSingleMsg and the acknowledgements.** Whatever the configuration, the connection state and
    the server script: the list of acknowledged messages grows by exactly this message when the model
    reports `delivered`, and not at all otherwise; no end-of-data marker is left pending. -/
theorem sendOne_acks (cfg : SendCfg) (c : Conn) (idx : Nat) (m : MsgIn) (hp : (acks c.trace).pend = false) :
    (acks (sendOne cfg c idx m false).1.trace).pend = false ∧
    (acks (sendOne cfg c idx m false).1.trace).acked =
      (acks c.trace).acked ++ (if (sendOne cfg c idx m false).2.delivered then [idx] else []) := by
  -- the failing paths: R c c' and delivered = false
  have fin : ∀ (c' : Conn) (o : MsgOut), R c c' → o.delivered = false →
      (acks c'.trace).pend = false ∧ (acks c'.trace).acked = (acks c.trace).acked ++ (if o.delivered then [idx] else []) := by
    intro c' o hr hd
    have := hr hp
    rw [hd]
    simpa using this
  unfold sendOne
  simp only []
  have h1 := q_extension c "ENHANCEDSTATUSCODES"
  rcases hx : c.extension "ENHANCEDSTATUSCODES" with ⟨c1, esc⟩
  rw [hx] at h1
  simp only []
  have h2 : Q c1 (if m.eightBit then c1.extension "8BITMIME" else (c1, true)).1 := by
    split
    · exact q_extension c1 _
    · exact Q.refl c1
  rcases hy : (if m.eightBit then c1.extension "8BITMIME" else (c1, true)) with ⟨c2, ok8⟩
  rw [hy] at h2
  have q2 : Q c c2 := h1.trans h2
  simp only []
  split
  · exact fin _ _ q2.toR rfl
  · split
    · exact fin _ _ q2.toR rfl
    · split
      · exact fin _ _ q2.toR rfl
      · rename_i sender _ _
        have h3 : Q c2 (if cfg.requestDSN && !cfg.dsnReturn.isEmpty then { c2 with dsnmrtype := cfg.dsnReturn } else c2) := by
          split
          · exact Q.of_trace rfl
          · exact Q.refl c2
        have h4 := q_mail (if cfg.requestDSN && !cfg.dsnReturn.isEmpty then { c2 with dsnmrtype := cfg.dsnReturn } else c2)
          (envelopeAddress sender)
        rcases hm : Conn.mail (if cfg.requestDSN && !cfg.dsnReturn.isEmpty then { c2 with dsnmrtype := cfg.dsnReturn } else c2)
          (envelopeAddress sender) with ⟨c3, e3⟩
        rw [hm] at h4
        have q3 : Q c c3 := (q2.trans h3).trans h4
        cases e3 with
        | some e => exact fin _ _ (q3.trans (q_abortTx c3 _)).toR rfl
        | none =>
          simp only []
          have h5 := q_rcptLoop esc { c3 with dsnrntype := cfg.dsnNotify } m.rcpts { reason := .getSender, nerrs := 0 } false
          have q4 := (q3.trans (Q.of_trace rfl)).trans h5
          split
          · exact fin _ _ (q4.trans (q_abortTx _ _)).toR rfl
          · have h6 := q_data (rcptLoop esc { c3 with dsnrntype := cfg.dsnNotify } m.rcpts { reason := .getSender, nerrs := 0 } false).1
            rcases hd : (rcptLoop esc { c3 with dsnrntype := cfg.dsnNotify } m.rcpts { reason := .getSender, nerrs := 0 } false).1.data with ⟨c5, e5⟩
            rw [hd] at h6
            have q5 : Q c c5 := q4.trans h6
            cases e5 with
            | some e => exact fin _ _ (q5.trans (q_abortTx c5 _)).toR rfl
            | none =>
              simp only []
              split
              · exact fin _ _ ((q5.toR.trans (r_content c5 idx false)).trans (q_close _).toR) rfl
              · split
                · exact fin _ _ (((q5.toR.trans (r_content c5 idx false)).trans (r_stall _ _)).trans (q_close _).toR) rfl
                · -- the complete content, then dataCloser.Close
                  have r6 : R c (c5.ev (.content idx true)) := q5.toR.trans (r_content c5 idx true)
                  have hp6 := (r6 hp).1
                  have hl6 : (acks (c5.ev (.content idx true)).trace).last = some idx := by
                    have : (c5.ev (.content idx true)).trace = c5.trace ++ [.content idx true] := rfl
                    rw [this, acks_snoc]; rfl
                  have hE := endData_acks (c5.ev (.content idx true)) hp6
                  rcases he : (c5.ev (.content idx true)).endData with ⟨c7, e7⟩
                  rw [he] at hE
                  cases e7 with
                  | some e =>
                    have := hE.2 e rfl
                    simp only at this
                    exact fin c7 _ (fun _ => ⟨this.1, this.2.trans (r6 hp).2⟩) rfl
                  | none =>
                    have h7 := hE.1 rfl
                    simp only at h7
                    have hp7 : (acks c7.trace).pend = false := by rw [h7]; exact hp6
                    have h8 := (q_resetWith cfg c7).acks hp7
                    have key : (acks (resetWith cfg c7).1.trace).pend = false ∧
                        (acks (resetWith cfg c7).1.trace).acked = (acks c.trace).acked ++ [idx] := by
                      rw [h8, h7]
                      refine ⟨hp6, ?_⟩
                      simp only [hl6, Option.toList]
                      rw [(r6 hp).2]
                    simp only []
                    split
                    · split
                      · rename_i c8 e8 heq
                        rw [heq] at key
                        simpa using key
                      · rename_i c8 heq
                        rw [heq] at key
                        simpa using key
                    · rename_i hnd
                      exfalso
                      apply hnd
                      split <;> rfl


/-- the batch positions of the messages reported delivered -/
def deliveredIdx : Nat → List MsgOut → List Nat
  | _, [] => []
  | i, o :: os => (if o.delivered then [i] else []) ++ deliveredIdx (i + 1) os

theorem sendLoop_acks (cfg : SendCfg) (c : Conn) (i : Nat) (ms : List MsgIn) (hp : (acks c.trace).pend = false) :
    (acks (sendLoop cfg c i ms).1.trace).pend = false ∧
    (acks (sendLoop cfg c i ms).1.trace).acked = (acks c.trace).acked ++ deliveredIdx i (sendLoop cfg c i ms).2 := by
  induction ms generalizing c i with
  | nil => simp [sendLoop, deliveredIdx, hp]
  | cons m rest ih =>
    unfold sendLoop
    simp only []
    have h1 := sendOne_acks cfg c i m hp
    have h2 := ih (sendOne cfg c i m false).1 (i + 1) h1.1
    refine ⟨h2.1, ?_⟩
    rw [h2.2, h1.2]
    simp [deliveredIdx, List.append_assoc]

theorem sendBatch_acks (cfg : SendCfg) (c : Conn) (ms : List MsgIn) (hp : (acks c.trace).pend = false) :
    (acks (sendBatch cfg c ms).1.trace).pend = false ∧
    (acks (sendBatch cfg c ms).1.trace).acked =
      (acks c.trace).acked ++ (match (sendBatch cfg c ms).2.1 with | some outs => deliveredIdx 0 outs | none => []) := by
  unfold sendBatch
  simp only []
  have h1 := q_extension c "ENHANCEDSTATUSCODES"
  have h2 := q_checkConn cfg (c.extension "ENHANCEDSTATUSCODES").1
  have q2 := h1.trans h2
  rcases hr : checkConn cfg (c.extension "ENHANCEDSTATUSCODES").1 with ⟨c2, e⟩
  rw [hr] at q2
  have hq := q2.acks hp
  have hp2 : (acks c2.trace).pend = false := by rw [hq]; exact hp
  cases e with
  | some e => simp [hq, hp]
  | none =>
    simp only []
    have h3 := sendLoop_acks cfg c2 0 ms hp2
    refine ⟨h3.1, ?_⟩
    rw [h3.2, hq]

/-- positions come out in increasing order, each at most once -/
theorem deliveredIdx_ge (i : Nat) (os : List MsgOut) : ∀ k ∈ deliveredIdx i os, i ≤ k := by
  induction os generalizing i with
  | nil => simp [deliveredIdx]
  | cons o rest ih =>
    intro k hk
    simp only [deliveredIdx, List.mem_append] at hk
    rcases hk with hk | hk
    · split at hk
      · simp at hk; omega
      · simp at hk
    · have := ih (i + 1) k hk; omega

theorem deliveredIdx_pairwise (i : Nat) (os : List MsgOut) : (deliveredIdx i os).Pairwise (· < ·) := by
  induction os generalizing i with
  | nil => simp [deliveredIdx]
  | cons o rest ih =>
    simp only [deliveredIdx]
    rw [List.pairwise_append]
    refine ⟨by split <;> simp, ih (i + 1), ?_⟩
    intro a ha b hb
    have := deliveredIdx_ge (i + 1) rest b hb
    split at ha
    · simp at ha; omega
    · simp at ha

/-- position k is listed exactly when the k-th output says delivered -/
theorem mem_deliveredIdx (i : Nat) (os : List MsgOut) (k : Nat) :
    k ∈ deliveredIdx i os ↔ ∃ o, os[k - i]? = some o ∧ i ≤ k ∧ o.delivered = true := by
  induction os generalizing i with
  | nil => simp [deliveredIdx]
  | cons o rest ih =>
    simp only [deliveredIdx, List.mem_append, ih (i + 1)]
    constructor
    · rintro (h | ⟨o', h1, h2, h3⟩)
      · split at h
        · rename_i hd
          simp at h; subst h
          exact ⟨o, by simp, Nat.le_refl _, hd⟩
        · simp at h
      · refine ⟨o', ?_, by omega, h3⟩
        have : k - i = (k - (i + 1)) + 1 := by omega
        rw [this]; simpa using h1
    · rintro ⟨o', h1, h2, h3⟩
      by_cases hk : k = i
      · subst hk
        left
        simp at h1; subst h1
        simp [h3]
      · right
        refine ⟨o', ?_, by omega, h3⟩
        have : k - i = (k - (i + 1)) + 1 := by omega
        rw [this] at h1; simpa using h1

end GoMail.Smtp
