import GoMailModel.Smtp.Dial
/-
  Which operations touch the `tls` flag of smtp.Client (what PLAIN and LOGIN look at before they hand
  out the password) and the server name: none but StartTLS, and StartTLS only after the server has
  answered the command with 220.
-/
namespace GoMail.Smtp
open GoMail

/-- the flag and the server name are untouched -/
def TS (c c' : Conn) : Prop := c'.tls = c.tls ∧ c'.serverName = c.serverName

theorem TS.refl (c : Conn) : TS c c := ⟨rfl, rfl⟩
theorem TS.trans {a b c : Conn} (h1 : TS a b) (h2 : TS b c) : TS a c := ⟨h2.1.trans h1.1, h2.2.trans h1.2⟩

theorem ts_ev (c : Conn) (e : Ev) : TS c (c.ev e) := ⟨rfl, rfl⟩

theorem ts_log (c : Conn) (r : LogRec) : TS c (c.log r) := by
  unfold Conn.log; split <;> exact ⟨rfl, rfl⟩

theorem ts_close (c : Conn) : TS c c.close := by
  unfold Conn.close; split <;> exact ⟨rfl, rfl⟩

theorem ts_pop (c : Conn) : TS c c.pop.2 := by
  unfold Conn.pop; split <;> exact ⟨rfl, rfl⟩

theorem ts_waitSilent (c : Conn) : TS c c.waitSilent.1 := ⟨rfl, rfl⟩

theorem ts_replied (c : Conn) (v : Verb) (n code : Nat) (t : Bytes) : TS c (c.replied v n code t).1 := by
  unfold Conn.replied
  simp only []
  split <;> split <;> exact ⟨rfl, rfl⟩

theorem ts_applyAct (c : Conn) (v : Verb) (n : Nat) (a : Act) : TS c (c.applyAct v n a).1 := by
  cases a with
  | ok => exact ts_replied c v n _ _
  | reply code text => exact ts_replied c v n code text
  | drop => exact ⟨rfl, rfl⟩
  | stall => exact ⟨rfl, rfl⟩
  | garbage => exact ⟨rfl, rfl⟩
  | tlsBad => exact ⟨rfl, rfl⟩
  | deaf => exact (ts_replied c v n _ _).trans ⟨rfl, rfl⟩

theorem ts_serverTurn (c : Conn) (v : Verb) (n : Nat) : TS c (c.serverTurn v n).1 := by
  unfold Conn.serverTurn
  split
  · exact TS.refl c
  · split
    · exact ts_waitSilent c
    · exact (ts_pop c).trans (ts_applyAct _ v n _)

theorem ts_send (c : Conn) (v : Verb) (line : Bytes) : TS c (c.send v line) := by
  unfold Conn.send; split
  · exact TS.refl c
  · exact ts_ev c _

theorem ts_cmd (c : Conn) (v : Verb) (line : Bytes) (n : Nat) : TS c (c.cmd v line n).1 := by
  unfold Conn.cmd
  split
  · exact ts_log _ _
  · exact (((ts_log c _).trans (ts_send _ v line)).trans (ts_serverTurn _ v n)).trans (ts_log _ _)

theorem ts_ehlo (c : Conn) : TS c c.ehlo.1 := by
  unfold Conn.ehlo
  have hc := ts_cmd c .ehlo (sb "EHLO " ++ c.localName) 250
  rcases hr : c.cmd .ehlo (sb "EHLO " ++ c.localName) 250 with ⟨c1, r⟩
  rw [hr] at hc
  cases r with
  | error e => exact hc
  | ok v =>
    simp only []
    split <;> exact hc.trans ⟨rfl, rfl⟩

theorem ts_helo (c : Conn) : TS c c.helo.1 := by
  unfold Conn.helo
  simp only []
  have hc := ts_cmd { c with ext := none } .helo (sb "HELO " ++ c.localName) 250
  rcases hr : Conn.cmd { c with ext := none } .helo (sb "HELO " ++ c.localName) 250 with ⟨c1, r⟩
  rw [hr] at hc
  have h0 : TS c { c with ext := none } := ⟨rfl, rfl⟩
  cases r <;> exact h0.trans hc

theorem ts_hello (c : Conn) : TS c c.hello.1 := by
  unfold Conn.hello
  split
  · exact TS.refl c
  · simp only []
    have h0 : TS c { c with didHello := true } := ⟨rfl, rfl⟩
    have h1 := ts_ehlo { c with didHello := true }
    rcases hr : Conn.ehlo { c with didHello := true } with ⟨c1, r⟩
    rw [hr] at h1
    cases r with
    | none => exact h0.trans h1
    | some e =>
      simp only []
      have h2 := ts_helo c1
      rcases hr2 : c1.helo with ⟨c2, r2⟩
      rw [hr2] at h2
      exact ((h0.trans h1).trans h2).trans ⟨rfl, rfl⟩

/-- **StartTLS and the flag.** On a connection that is not TLS, StartTLS leaves the `tls` flag set only
    if the implicit EHLO succeeded AND the server answered the STARTTLS command with 220 - whatever
    the script is. A refused, garbled or unanswered STARTTLS leaves the connection marked as clear text. -/
theorem startTLS_sets_flag_only_after_220 (c : Conn) (h0 : c.tls = false) (h1 : c.startTLS.1.tls = true) :
    c.hello.2 = none ∧ ∃ r, (c.hello.1.cmd .starttls (sb "STARTTLS") 220).2 = .ok r := by
  unfold Conn.startTLS at h1
  have hh := ts_hello c
  rcases hr : c.hello with ⟨c1, r⟩
  rw [hr] at h1 hh
  cases r with
  | some e =>
    simp only at h1
    rw [hh.1, h0] at h1; cases h1
  | none =>
    simp only at h1 ⊢
    have hc := ts_cmd c1 .starttls (sb "STARTTLS") 220
    rcases hcm : c1.cmd .starttls (sb "STARTTLS") 220 with ⟨c2, r2⟩
    rw [hcm] at h1 hc
    cases r2 with
    | error e =>
      simp only at h1
      rw [hc.1, hh.1, h0] at h1; cases h1
    | ok v => exact ⟨by simp, v, rfl⟩

/-- the server name StartTLS leaves behind is the one it found -/
theorem startTLS_serverName (c : Conn) : c.startTLS.1.serverName = c.serverName := by
  unfold Conn.startTLS
  have hh := ts_hello c
  rcases hr : c.hello with ⟨c1, r⟩
  rw [hr] at hh
  cases r with
  | some e => exact hh.2
  | none =>
    simp only []
    have hc := ts_cmd c1 .starttls (sb "STARTTLS") 220
    rcases hcm : c1.cmd .starttls (sb "STARTTLS") 220 with ⟨c2, r2⟩
    rw [hcm] at hc
    have h2 : c2.serverName = c.serverName := hc.2.trans hh.2
    cases r2 with
    | error e => exact h2
    | ok v =>
      simp only []
      split
      · exact h2
      · split
        · exact h2
        · have hp := ts_pop ({ c2 with tls := true } : Conn)
          split
          · exact ((ts_ehlo _).2.trans rfl).trans (hp.2.trans h2)
          · exact hp.2.trans h2
          · exact hp.2.trans h2
          · exact hp.2.trans h2

end GoMail.Smtp
