import GoMailModel.Mime.Reader
import GoMailModel.Proofs.Tree
/-
  The RFC 2046 splitter inverts the framing the writer produces, provided the delimiter does not occur
  inside a part ("freshness": the boundary was chosen so that it does not appear in the content).
-/
namespace GoMail.Reader
open GoMail

/-- no occurrence of `sep` starts inside `p` when `p` is followed by `sep` -/
def Fresh (sep p : Bytes) : Prop := ∀ i, i < p.length → hasPrefix ((p ++ sep).drop i) sep = false
/-- no occurrence of `sep` anywhere in `t` -/
def NoSep (sep t : Bytes) : Prop := ∀ i, hasPrefix (t.drop i) sep = false

theorem hasPrefix_append (a rest sep : Bytes) (h : sep.length ≤ a.length) :
    hasPrefix (a ++ rest) sep = hasPrefix a sep := by
  induction sep generalizing a with
  | nil => cases a <;> simp [hasPrefix]
  | cons s ss ih =>
    cases a with
    | nil => simp at h
    | cons x xs =>
      simp only [List.cons_append, hasPrefix]
      rw [ih xs (by simpa using h)]

theorem hasPrefix_self_append (sep rest : Bytes) : hasPrefix (sep ++ rest) sep = true := by
  induction sep with
  | nil => cases rest <;> simp [hasPrefix]
  | cons s ss ih => simp [hasPrefix, ih]

theorem splitSub_skip (sep acc xs rest : Bytes) :
    splitSub sep acc xs.length (xs ++ rest) = splitSub sep acc 0 rest := by
  induction xs with
  | nil => rfl
  | cons x xs ih =>
    show splitSub sep acc (xs.length + 1) (x :: (xs ++ rest)) = _
    rw [splitSub]
    exact ih

theorem fresh_tail (sep : Bytes) (x : UInt8) (p : Bytes) (h : Fresh sep (x :: p)) : Fresh sep p := by
  intro i hi
  have := h (i + 1) (by simp; omega)
  simpa using this

/-- scanning through a fresh piece up to and over the separator behind it -/
theorem splitSub_piece (sep : Bytes) (hne : sep ≠ []) (p acc rest : Bytes) (hf : Fresh sep p) :
    splitSub sep acc 0 (p ++ sep ++ rest) = (acc ++ p) :: splitSub sep [] 0 rest := by
  induction p generalizing acc with
  | nil =>
    cases hs : sep with
    | nil => exact absurd hs hne
    | cons s ss =>
      have hp : hasPrefix ((s :: ss) ++ rest) (s :: ss) = true := hasPrefix_self_append _ _
      simp only [List.nil_append, List.cons_append, splitSub]
      simp only [List.cons_append] at hp
      simp only [hp, List.isEmpty_cons, Bool.not_false, Bool.and_self, if_true, List.length_cons, Nat.add_sub_cancel, List.append_nil]
      rw [splitSub_skip]
  | cons x p ih =>
    have h0 := hf 0 (by simp)
    simp only [List.drop_zero] at h0
    have hlen : sep.length ≤ ((x :: p) ++ sep).length := by simp only [List.length_append, List.length_cons]; omega
    have hp : hasPrefix ((x :: p) ++ sep ++ rest) sep = false := by
      rw [hasPrefix_append _ _ _ hlen]; exact h0
    simp only [List.cons_append] at hp ⊢
    simp only [splitSub, hp, Bool.false_and, Bool.false_eq_true, if_false]
    have := ih (acc ++ [x]) (fresh_tail sep x p hf)
    rw [this]
    simp

/-- the piece behind the last separator -/
theorem splitSub_last (sep t acc : Bytes) (h : NoSep sep t) : splitSub sep acc 0 t = [acc ++ t] := by
  induction t generalizing acc with
  | nil => simp [splitSub]
  | cons x xs ih =>
    have h0 := h 0
    simp only [List.drop_zero] at h0
    simp only [splitSub, h0, Bool.false_and, Bool.false_eq_true, if_false]
    rw [ih (acc ++ [x]) (fun i => by have := h (i + 1); simpa using this)]
    simp

/-- the multipart body the writer produces for raw parts `ps`: each part behind a delimiter line, then
    the closing delimiter (this is `serList` / `closeDelim` of Proofs/Tree.lean on raw bytes) -/
def frameAux (b : Bytes) : Bool → List Bytes → Bytes
  | _, [] => []
  | nf, p :: ps => Mime.delim b nf ++ p ++ frameAux b true ps
def frame (b : Bytes) (ps : List Bytes) : Bytes := frameAux b false ps ++ Mime.closeDelim b

theorem frameAux_true (b : Bytes) (ps : List Bytes) :
    frameAux b true ps = (ps.map (fun p => dl b ++ ([13, 10] ++ p))).flatten := by
  induction ps with
  | nil => rfl
  | cons p ps ih => simp [frameAux, ih, Mime.delim, dl, crlf, List.append_assoc]

theorem crlf_frame (b : Bytes) (ps : List Bytes) (hne : ps ≠ []) :
    [13, 10] ++ frame b ps = (ps.map (fun p => dl b ++ ([13, 10] ++ p))).flatten ++ (dl b ++ [45, 45, 13, 10]) := by
  unfold frame
  cases ps with
  | nil => exact absurd rfl hne
  | cons p ps =>
    simp [frameAux, frameAux_true, Mime.delim, Mime.closeDelim, dl, crlf, List.append_assoc]

theorem nosep_close (b : Bytes) : NoSep (dl b) [45, 45, 13, 10] := by
  intro i
  match i with
  | 0 => simp [dl, hasPrefix]
  | 1 => simp [dl, hasPrefix]
  | 2 => simp [dl, hasPrefix]
  | 3 => simp [dl, hasPrefix]
  | n + 4 => simp [dl, hasPrefix]

theorem splitSub_frame (b : Bytes) (ps : List Bytes) (acc : Bytes)
    (hf : ∀ p ∈ ps, Fresh (dl b) ([13, 10] ++ p)) :
    splitSub (dl b) acc 0 ((ps.map (fun p => dl b ++ ([13, 10] ++ p))).flatten ++ (dl b ++ [45, 45, 13, 10])) =
      acc :: (ps.map (fun p => [13, 10] ++ p) ++ [[45, 45, 13, 10]]) := by
  have hne : dl b ≠ [] := by simp [dl]
  induction ps generalizing acc with
  | nil =>
    have := splitSub_piece (dl b) hne [] acc [45, 45, 13, 10] (by intro i hi; simp at hi)
    simp only [List.nil_append, List.append_nil] at this
    simp only [List.map_nil, List.flatten_nil, List.nil_append]
    rw [this, splitSub_last _ _ _ (nosep_close b)]
    simp
  | cons p ps ih =>
    have h1 := splitSub_piece (dl b) hne [] acc
      (([13, 10] ++ p) ++ ((ps.map (fun p => dl b ++ ([13, 10] ++ p))).flatten ++ (dl b ++ [45, 45, 13, 10])))
      (by intro i hi; simp at hi)
    simp only [List.nil_append, List.append_nil] at h1
    have h2 := ih [] (fun q hq => hf q (List.mem_cons_of_mem _ hq))
    -- after the first delimiter: the piece CRLF p, scanned up to the next delimiter
    have h3 : splitSub (dl b) [] 0
        (([13, 10] ++ p) ++ ((ps.map (fun p => dl b ++ ([13, 10] ++ p))).flatten ++ (dl b ++ [45, 45, 13, 10]))) =
        ([13, 10] ++ p) :: (ps.map (fun p => [13, 10] ++ p) ++ [[45, 45, 13, 10]]) := by
      cases ps with
      | nil =>
        have := splitSub_piece (dl b) hne ([13, 10] ++ p) [] [45, 45, 13, 10] (hf p (by simp))
        simp only [List.map_nil, List.flatten_nil, List.nil_append, List.append_assoc] at this ⊢
        rw [this, splitSub_last _ _ _ (nosep_close b)]
        simp
      | cons q qs =>
        have := splitSub_piece (dl b) hne ([13, 10] ++ p) []
          (([13, 10] ++ q) ++ ((qs.map (fun p => dl b ++ ([13, 10] ++ p))).flatten ++ (dl b ++ [45, 45, 13, 10]))) (hf p (by simp))
        simp only [List.map_cons, List.flatten_cons, List.nil_append, List.append_assoc] at this h2 ⊢
        rw [this]
        have h4 := splitSub_piece (dl b) hne [] []
          (([13, 10] ++ q) ++ ((qs.map (fun p => dl b ++ ([13, 10] ++ p))).flatten ++ (dl b ++ [45, 45, 13, 10])))
          (by intro i hi; simp at hi)
        simp only [List.nil_append, List.append_assoc] at h4
        rw [h4] at h2
        have := List.cons.inj h2
        rw [this.2]
    simp only [List.map_cons, List.flatten_cons, List.append_assoc] at h1 h3 ⊢
    rw [h1, h3]
    simp

/-- **The splitter inverts the framing.** For every boundary and every list of raw parts in which the
    delimiter CRLF "--" boundary does not occur (freshness), splitting the framed body gives back
    exactly the parts, in order (a multipart has at least one part). -/
theorem splitParts_frame (b : Bytes) (ps : List Bytes) (hne : ps ≠ []) (hf : ∀ p ∈ ps, Fresh (dl b) ([13, 10] ++ p)) :
    splitParts b (frame b ps) = some ps := by
  unfold splitParts
  rw [crlf_frame b ps hne, splitSub_frame b ps [] hf]
  simp only []
  have hl : (ps.map (fun p => [13, 10] ++ p) ++ [[45, 45, 13, 10]]).getLast? = some [45, 45, 13, 10] := by simp
  rw [hl]
  simp only [hasPrefix, beq_self_eq_true, Bool.and_self, Bool.not_true, Bool.false_eq_true, if_false, List.dropLast_concat]
  have hall : (ps.map (fun p => [13, 10] ++ p)).all (fun p => hasPrefix p [13, 10]) = true := by
    simp [List.all_eq_true, hasPrefix]
  simp only [hall, if_true, List.map_map]
  congr 1
  conv => rhs; rw [← List.map_id ps]
  apply List.map_congr_left
  intro p _; simp

theorem serList_frameAux (b : Bytes) (nf : Bool) (cs : List Mime.Ent) :
    Mime.serList b nf cs = frameAux b nf (cs.map Mime.Ent.ser) := by
  induction cs generalizing nf with
  | nil => simp [Mime.serList, frameAux]
  | cons c cs ih => simp [Mime.serList, frameAux, ih]

/-- **Every boundary delimits what it announces.** The body of a multipart entity as the writer
    serialises it (after the "Content-Type: multipart/...; boundary=b" header and the empty line) is
    split by the RFC 2046 reader into exactly the serialisations of its children, in order - provided
    the delimiter of this multipart does not occur inside a child (which holds for base64 leaves
    outright, and for the others whenever the random boundary does not occur in the content). -/
theorem multipart_body_splits (st b : Bytes) (cs : List Mime.Ent) (hne : cs ≠ [])
    (hf : ∀ c ∈ cs, Fresh (dl b) ([13, 10] ++ c.ser)) :
    (Mime.Ent.multi st b cs).ser = Mime.multiHead st b ++ frame b (cs.map Mime.Ent.ser) ∧
    splitParts b (frame b (cs.map Mime.Ent.ser)) = some (cs.map Mime.Ent.ser) := by
  refine ⟨by simp [Mime.Ent.ser, frame, serList_frameAux, List.append_assoc], ?_⟩
  apply splitParts_frame
  · intro h; exact hne (List.map_eq_nil_iff.mp h)
  · intro p hp
    obtain ⟨c, hc, rfl⟩ := List.mem_map.mp hp
    exact hf c hc

/-- freshness as a computation -/
def freshb (sep p : Bytes) : Bool := (List.range p.length).all (fun i => !hasPrefix ((p ++ sep).drop i) sep)

theorem fresh_of_freshb (sep p : Bytes) (h : freshb sep p = true) : Fresh sep p := by
  intro i hi
  unfold freshb at h
  have := (List.all_eq_true.mp h) i (List.mem_range.mpr hi)
  simpa using this

end GoMail.Reader
