import GoMailModel.Proofs.Legal2
/-
  Session legality, part 3: hello / EHLO / HELO, the transaction commands and their effect on the
  judge's transaction state.
-/
namespace GoMail.Smtp
open GoMail

/-- no transaction is open (as far as a live server is concerned) -/
def Idle (c : Conn) : Prop := live c → (judge c.trace).tx = .idle

theorem live_of_eq {c c' : Conn} (ho : c'.cliOpen = c.cliOpen) (hg : c'.srvGone = c.srvGone) (hs : c'.srvSilent = c.srvSilent) :
    live c' ↔ live c := by unfold live; rw [ho, hg, hs]

theorem ji_of_eq (c c' : Conn) (h : JI c) (ht : c'.trace = c.trace) (ho : c'.cliOpen = c.cliOpen := by rfl)
    (hg : c'.srvGone = c.srvGone := by rfl) (hs : c'.srvSilent = c.srvSilent := by rfl) : JI c' :=
  ⟨by rw [ht]; exact h.nbad, by rw [ht, ho]; exact h.stop, fun hl => by rw [ht]; exact h.ready ((live_of_eq ho hg hs).mp hl)⟩

theorem idle_of_eq (c c' : Conn) (h : Idle c) (ht : c'.trace = c.trace) (ho : c'.cliOpen = c.cliOpen := by rfl)
    (hg : c'.srvGone = c.srvGone := by rfl) (hs : c'.srvSilent = c.srvSilent := by rfl) : Idle c' :=
  fun hl => by rw [ht]; exact h ((live_of_eq ho hg hs).mp hl)

/-- a successful command: the server was there and answered with a matching code -/
theorem cmd_ok (c : Conn) (v : Verb) (line : Bytes) (n code : Nat) (text : Bytes) (h : JI c)
    (hr : (c.cmd v line n).2 = .ok (code, text)) :
    live c ∧ codeMatches n code = true ∧ judge (c.cmd v line n).1.trace = ((judge c.trace).sent v).onReply code ∧
    (c.cmd v line n).1.srvGone = (v == .quit && code == 221) := by
  by_cases hl : live c
  · obtain ⟨_, cases⟩ := cmd_judge_live c v line n h hl
    rcases cases with ⟨code', text', hr', hj, hg⟩ | ⟨hr', _⟩ | ⟨hr', _⟩ | ⟨hr', _⟩
    · rw [hr] at hr'
      by_cases hm : codeMatches n code' = true
      · simp only [hm, if_true] at hr'
        cases hr'
        exact ⟨hl, hm, hj, hg⟩
      · simp only [hm] at hr'; cases hr'
    · rw [hr] at hr'; cases hr'
    · rw [hr] at hr'; cases hr'
    · rw [hr] at hr'; rcases hr' with h1 | h1 <;> cases h1
  · obtain ⟨_, _, _, e, he⟩ := cmd_dead c v line n hl
    rw [hr] at he; cases he

/-- the transaction state after a command whose verb does not belong to a mail transaction -/
theorem idle_cmd (c : Conn) (v : Verb) (line : Bytes) (n : Nat) (h : JI c) (hi : Idle c)
    (hv : v ≠ .mail ∧ v ≠ .rcpt ∧ v ≠ .data ∧ v ≠ .eod) : Idle (c.cmd v line n).1 := by
  intro hl'
  by_cases hl : live c
  · have hidle := hi hl
    obtain ⟨_, cases⟩ := cmd_judge_live c v line n h hl
    rcases cases with ⟨code, text, _, hj, _⟩ | ⟨_, hj, _, _⟩ | ⟨_, hg, _⟩ | ⟨_, hs, _⟩
    · rw [hj]
      cases v <;> simp [J.onReply, J.sent, hidle] at hv ⊢ <;> (try split) <;> simp_all
    · rw [hj]
      cases v <;> simp [J.onReply, J.sent, hidle] at hv ⊢ <;> (try split) <;> simp_all
    · have := hl'.2.1; rw [hg] at this; cases this
    · have := hl'.2.2; rw [hs] at this; cases this
  · exact absurd hl' (cmd_dead c v line n hl).2.2.1

/-- the bundle that every "neutral" operation preserves -/
structure Sess (c : Conn) : Prop where
  ji : JI c
  hello : HelloRel c

theorem hellorel_of_eq (c c' : Conn) (h : HelloRel c) (ht : c'.trace = c.trace)
    (hd : c'.didHello = c.didHello := by rfl) (he : c'.helloErr = c.helloErr := by rfl) : HelloRel c' :=
  fun a b => by rw [ht]; rw [hd] at a; rw [he] at b; exact h a b

/-- a command, as seen by the bundle: the verb condition is only needed when the server is reached -/
theorem sess_cmd (c : Conn) (v : Verb) (line : Bytes) (n : Nat) (h : Sess c)
    (hv : live c → (judge c.trace).vOk v = true) : Sess (c.cmd v line n).1 := by
  refine ⟨ji_cmd c v line n h.ji hv, ?_⟩
  have f : Frame c (c.cmd v line n).1 := by
    by_cases hl : live c
    · exact (cmd_judge_live c v line n h.ji hl).1
    · exact (cmd_dead c v line n hl).2.1
  intro a b
  rw [f.2.1] at a; rw [f.2.2.1] at b
  exact hello_mono_cmd c v line n h.ji (h.hello a b)

theorem ehlo_facts (c : Conn) (h : JI c) :
    JI c.ehlo.1 ∧ (Idle c → Idle c.ehlo.1) ∧ c.ehlo.1.didHello = c.didHello ∧ c.ehlo.1.helloErr = c.helloErr ∧
    ((judge c.trace).hello = true → (judge c.ehlo.1.trace).hello = true) ∧
    (c.ehlo.2 = none → (judge c.ehlo.1.trace).hello = true) := by
  unfold Conn.ehlo
  have hj := ji_cmd c .ehlo (sb "EHLO " ++ c.localName) 250 h (fun _ => rfl)
  have hm := hello_mono_cmd c .ehlo (sb "EHLO " ++ c.localName) 250 h
  have hid := idle_cmd c .ehlo (sb "EHLO " ++ c.localName) 250 h
  have hf : Frame c (c.cmd .ehlo (sb "EHLO " ++ c.localName) 250).1 := by
    by_cases hl : live c
    · exact (cmd_judge_live c _ _ _ h hl).1
    · exact (cmd_dead c _ _ _ hl).2.1
  have hok := cmd_ok c .ehlo (sb "EHLO " ++ c.localName) 250
  rcases hr : c.cmd .ehlo (sb "EHLO " ++ c.localName) 250 with ⟨c1, r⟩
  rw [hr] at hj hm hid hf hok
  cases r with
  | error e =>
    exact ⟨hj, fun hi => hid hi (by decide), hf.2.1, hf.2.2.1, hm, by intro x; cases x⟩
  | ok val =>
    obtain ⟨code, text⟩ := val
    obtain ⟨_, hcm, hjj, _⟩ := hok code text h rfl
    have hcode : ok2 code = true := by
      simp only [codeMatches] at hcm
      have : code = 250 := by simpa using hcm
      subst this; decide
    have hhello : (judge c1.trace).hello = true := by
      rw [hjj]; simp [J.onReply, J.sent, hcode]
    simp only []
    refine ⟨?_, ?_, ?_, ?_, fun _ => ?_, fun _ => ?_⟩
    · split <;> exact ji_of_eq c1 _ hj rfl
    · intro hi; split <;> exact idle_of_eq c1 _ (hid hi (by decide)) rfl
    · split <;> exact hf.2.1
    · split <;> exact hf.2.2.1
    · split <;> exact hhello
    · split <;> exact hhello

theorem helo_facts (c : Conn) (h : JI c) :
    JI c.helo.1 ∧ (Idle c → Idle c.helo.1) ∧ c.helo.1.didHello = c.didHello ∧ c.helo.1.helloErr = c.helloErr ∧
    ((judge c.trace).hello = true → (judge c.helo.1.trace).hello = true) ∧
    (c.helo.2 = none → (judge c.helo.1.trace).hello = true) := by
  unfold Conn.helo
  simp only []
  have h0 : JI { c with ext := none } := ji_of_eq c _ h rfl
  have hj := ji_cmd { c with ext := none } .helo (sb "HELO " ++ c.localName) 250 h0 (fun _ => rfl)
  have hm := hello_mono_cmd { c with ext := none } .helo (sb "HELO " ++ c.localName) 250 h0
  have hid := idle_cmd { c with ext := none } .helo (sb "HELO " ++ c.localName) 250 h0
  have hf : Frame { c with ext := none } (Conn.cmd { c with ext := none } .helo (sb "HELO " ++ c.localName) 250).1 := by
    by_cases hl : live { c with ext := none }
    · exact (cmd_judge_live _ _ _ _ h0 hl).1
    · exact (cmd_dead _ _ _ _ hl).2.1
  have hok := cmd_ok { c with ext := none } .helo (sb "HELO " ++ c.localName) 250
  rcases hr : Conn.cmd { c with ext := none } .helo (sb "HELO " ++ c.localName) 250 with ⟨c1, r⟩
  rw [hr] at hj hm hid hf hok
  cases r with
  | error e =>
    exact ⟨hj, fun hi => hid (idle_of_eq c _ hi rfl) (by decide), hf.2.1, hf.2.2.1, hm, by intro x; cases x⟩
  | ok val =>
    obtain ⟨code, text⟩ := val
    obtain ⟨_, hcm, hjj, _⟩ := hok code text h0 rfl
    have hcode : ok2 code = true := by
      simp only [codeMatches] at hcm
      have : code = 250 := by simpa using hcm
      subst this; decide
    have hhello : (judge c1.trace).hello = true := by
      rw [hjj]; simp [J.onReply, J.sent, hcode]
    exact ⟨hj, fun hi => hid (idle_of_eq c _ hi rfl) (by decide), hf.2.1, hf.2.2.1, fun _ => hhello, fun _ => hhello⟩

/-- smtp.Client.hello keeps the bundle, keeps an idle transaction idle, and a `nil` result means the
    judge saw an accepted EHLO / HELO -/
theorem hello_facts (c : Conn) (h : Sess c) :
    Sess c.hello.1 ∧ (Idle c → Idle c.hello.1) ∧ (c.hello.2 = none → (judge c.hello.1.trace).hello = true) := by
  unfold Conn.hello
  split
  · rename_i hd
    exact ⟨h, id, fun he => h.hello hd he⟩
  · rename_i hd
    simp only []
    have h0 : JI { c with didHello := true } := ji_of_eq c _ h.ji rfl
    obtain ⟨e1, e2, e3, e4, e5, e6⟩ := ehlo_facts { c with didHello := true } h0
    rcases hr : Conn.ehlo { c with didHello := true } with ⟨c1, r⟩
    rw [hr] at e1 e2 e3 e4 e5 e6
    cases r with
    | none =>
      simp only []
      refine ⟨⟨e1, fun _ _ => e6 rfl⟩, fun hi => e2 (idle_of_eq c _ hi rfl), fun _ => e6 rfl⟩
    | some err =>
      simp only []
      obtain ⟨g1, g2, g3, g4, g5, g6⟩ := helo_facts c1 e1
      rcases hr2 : c1.helo with ⟨c2, r2⟩
      rw [hr2] at g1 g2 g3 g4 g5 g6
      refine ⟨⟨ji_of_eq c2 _ g1 rfl, ?_⟩, fun hi => idle_of_eq c2 _ (g2 (e2 (idle_of_eq c _ hi rfl))) rfl, ?_⟩
      · intro _ b
        have : r2 = none := b
        subst this
        exact g6 rfl
      · intro b
        have : r2 = none := b
        subst this
        exact g6 rfl

theorem Hello_facts (c : Conn) (name : Bytes) (h : Sess c) :
    Sess (c.Hello name).1 ∧ (Idle c → Idle (c.Hello name).1) := by
  unfold Conn.Hello
  split
  · exact ⟨h, id⟩
  · split
    · exact ⟨h, id⟩
    · have h0 : Sess { c with localName := name } := ⟨ji_of_eq c _ h.ji rfl, hellorel_of_eq c _ h.hello rfl⟩
      obtain ⟨a, b, _⟩ := hello_facts _ h0
      exact ⟨a, fun hi => b (idle_of_eq c _ hi rfl)⟩

theorem extension_facts (c : Conn) (k : String) (h : Sess c) :
    Sess (c.extension k).1 ∧ (Idle c → Idle (c.extension k).1) := by
  unfold Conn.extension
  obtain ⟨a, b, _⟩ := hello_facts c h
  rcases hr : c.hello with ⟨c1, r⟩
  rw [hr] at a b
  cases r <;> exact ⟨a, b⟩

end GoMail.Smtp
