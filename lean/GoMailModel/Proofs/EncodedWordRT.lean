import GoMailModel.Codec.EncodedWordDec
import GoMailModel.Proofs.QP
import GoMailModel.Proofs.B64RT
/-
  RFC 2047 round trip: the reader of Codec/EncodedWordDec applied to what mime.WordEncoder (model:
  Codec/EncodedWord) emits gives back the text, for EVERY byte string, both encodings, every charset
  label without '?', however the encoder splits the text into words.
-/
namespace GoMail.EncodedWord
open GoMail

theorem dec_charset (cs r : Bytes) (h : ∀ c ∈ cs, c ≠ 63) : dec .charset (cs ++ 63 :: r) = dec .encoding r := by
  induction cs with
  | nil => simp [dec]
  | cons c cs ih =>
    have hc : (c == 63) = false := by simpa using h c (by simp)
    simp only [List.cons_append, dec, hc, Bool.false_eq_true, if_false]
    exact ih (fun x hx => h x (by simp [hx]))

theorem dec_openQ (st : DS) (cs r : Bytes) (h : ∀ c ∈ cs, c ≠ 63) :
    dec .open0 (openWord .q cs ++ r) = dec .q r := by
  simp only [openWord, List.cons_append, List.nil_append, List.append_assoc, dec, beq_self_eq_true, if_true]
  rw [dec_charset cs _ h]
  simp [dec]

theorem dec_openB (cs r : Bytes) (h : ∀ c ∈ cs, c ≠ 63) :
    dec .open0 (openWord .b cs ++ r) = dec (.b []) r := by
  simp only [openWord, List.cons_append, List.nil_append, List.append_assoc, dec, beq_self_eq_true, if_true]
  rw [dec_charset cs _ h]
  simp [dec]

/-- the word separator the encoder writes ("?=", one blank, "=?charset?q?") is not part of the text -/
theorem dec_splitQ (cs r : Bytes) (h : ∀ c ∈ cs, c ≠ 63) : dec .q (splitWord .q cs ++ r) = dec .q r := by
  have := dec_openQ .q cs r h
  simp only [openWord, List.cons_append, List.nil_append, List.append_assoc, dec, beq_self_eq_true, if_true] at this
  simp only [splitWord, closeWord, openWord, List.cons_append, List.nil_append, List.append_assoc, dec,
    beq_self_eq_true, if_true, Bool.true_or]
  simp only [show ((32 : UInt8) == 32 || (32 : UInt8) == 9 || (32 : UInt8) == 13 || (32 : UInt8) == 10) = true by decide,
    show ((61 : UInt8) == 32 || (61 : UInt8) == 9 || (61 : UInt8) == 13 || (61 : UInt8) == 10) = false by decide,
    if_true, Bool.false_eq_true, if_false]
  exact this

theorem dec_qByte : ∀ b : UInt8, ∀ r : Bytes, dec .q (qByte b ++ r) = (dec .q r).map (b :: ·) := by
  intro b r
  have key : ∀ b : UInt8,
      (b = 32 ∧ qByte b = [95]) ∨
      ((b == 63) = false ∧ (b == 61) = false ∧ (b == 95) = false ∧ (b == 32) = false ∧ qByte b = [b]) ∨
      (qByte b = [61, hexDigitU (b >>> 4), hexDigitU (b &&& 15)]) := by
    apply forall_uint8; decide +kernel
  rcases key b with ⟨h1, h2⟩ | ⟨h1, h2, h3, h4, h5⟩ | h
  · subst h1; rw [h2]; simp [dec]
  · rw [h5]; simp [dec, h1, h2, h3, h4]
  · rw [h]
    obtain ⟨u1, u2, u3, _⟩ := QP.unhex_hexU b
    simp [dec, u1, u2, u3]

theorem dec_qString (xs r : Bytes) : dec .q (qString xs ++ r) = (dec .q r).map (xs ++ ·) := by
  induction xs with
  | nil => simp [qString]
  | cons b xs ih =>
    have : qString (b :: xs) ++ r = qByte b ++ (qString xs ++ r) := by simp [qString, List.append_assoc]
    rw [this, dec_qByte, ih]
    cases dec .q r <;> simp

theorem dec_closeQ : dec .q closeWord = some [] := by decide

theorem dec_qLoop (cs : Bytes) (h : ∀ c ∈ cs, c ≠ 63) (s : Bytes) (cur : Nat) :
    dec .q (qLoop cs s cur ++ closeWord) = some s := by
  fun_induction qLoop cs s cur with
  | case1 => simp [dec_closeQ]
  | case2 b rest cur plain rl encLen pre cur' ih =>
    have hs : (b :: rest).take rl ++ (b :: rest).drop rl = b :: rest := List.take_append_drop _ _
    have e : pre ++ qString ((b :: rest).take rl) ++ qLoop cs ((b :: rest).drop rl) (cur' + encLen) ++ closeWord =
        pre ++ (qString ((b :: rest).take rl) ++ (qLoop cs ((b :: rest).drop rl) (cur' + encLen) ++ closeWord)) := by
      simp [List.append_assoc]
    rw [e]
    have hpre : dec .q (pre ++ (qString ((b :: rest).take rl) ++ (qLoop cs ((b :: rest).drop rl) (cur' + encLen) ++ closeWord))) =
        dec .q (qString ((b :: rest).take rl) ++ (qLoop cs ((b :: rest).drop rl) (cur' + encLen) ++ closeWord)) := by
      simp only [pre]
      split
      · exact dec_splitQ cs _ h
      · simp
    rw [hpre, dec_qString, ih]
    simp [hs]


theorem char_ne_q : ∀ n : UInt8, Base64.char n ≠ 63 := by
  apply forall_uint8; decide +kernel

/-- base64 text never contains '?' -/
theorem encode_no_q : ∀ xs : Bytes, ∀ c ∈ Base64.encode xs, c ≠ 63
  | [], c, hc => by simp [Base64.encode] at hc
  | [a], c, hc => by
    simp only [Base64.encode, List.mem_cons, List.mem_nil_iff, or_false] at hc
    rcases hc with h | h | h | h <;> subst h <;> first | exact char_ne_q _ | decide
  | [a, b], c, hc => by
    simp only [Base64.encode, List.mem_cons, List.mem_nil_iff, or_false] at hc
    rcases hc with h | h | h | h <;> subst h <;> first | exact char_ne_q _ | decide
  | a :: b :: c' :: rest, c, hc => by
    simp only [Base64.encode, List.mem_cons] at hc
    rcases hc with h | h | h | h | h
    · subst h; exact char_ne_q _
    · subst h; exact char_ne_q _
    · subst h; exact char_ne_q _
    · subst h; exact char_ne_q _
    · exact encode_no_q rest c h

theorem dec_b_text (acc xs r : Bytes) (h : ∀ c ∈ xs, c ≠ 63) : dec (.b acc) (xs ++ r) = dec (.b (acc ++ xs)) r := by
  induction xs generalizing acc with
  | nil => simp
  | cons c xs ih =>
    have hc : (c == 63) = false := by simpa using h c (by simp)
    simp only [List.cons_append, dec, hc, Bool.false_eq_true, if_false]
    rw [ih _ (fun x hx => h x (by simp [hx]))]
    simp [List.append_assoc]

/-- one B word up to and including its "?=" -/
theorem dec_b_word (p r : Bytes) : dec (.b []) (Base64.encode p ++ closeWord ++ r) = (dec .between r).map (p ++ ·) := by
  rw [List.append_assoc, dec_b_text [] _ _ (encode_no_q p)]
  simp [closeWord, dec, Base64.decode_encode]

theorem dec_between_splitB (cs r : Bytes) (h : ∀ c ∈ cs, c ≠ 63) :
    dec .between ([32] ++ openWord .b cs ++ r) = dec (.b []) r := by
  have := dec_openB cs r h
  simp only [openWord, List.cons_append, List.nil_append, List.append_assoc, dec, beq_self_eq_true, if_true] at this
  simp only [openWord, List.cons_append, List.nil_append, List.append_assoc, dec, beq_self_eq_true, if_true, Bool.true_or]
  simp only [show ((61 : UInt8) == 32 || (61 : UInt8) == 9 || (61 : UInt8) == 13 || (61 : UInt8) == 10) = false by decide,
    Bool.false_eq_true, if_false]
  exact this

theorem dec_bLoop (cs : Bytes) (h : ∀ c ∈ cs, c ≠ 63) (pending s : Bytes) (cur : Nat) :
    dec (.b []) (bLoop cs pending s cur ++ closeWord) = some (pending ++ s) := by
  fun_induction bLoop cs pending s cur with
  | case1 pending cur =>
    have := dec_b_word pending []
    simpa [dec] using this
  | case2 pending b rest cur rl hle ih =>
    rw [ih]
    have hs : (b :: rest).take rl ++ (b :: rest).drop rl = b :: rest := List.take_append_drop _ _
    simp [List.append_assoc, hs]
  | case3 pending b rest cur rl hgt ih =>
    have hs : (b :: rest).take rl ++ (b :: rest).drop rl = b :: rest := List.take_append_drop _ _
    have e : Base64.encode pending ++ splitWord .b cs ++ bLoop cs ((b :: rest).take rl) ((b :: rest).drop rl) rl ++ closeWord =
        Base64.encode pending ++ closeWord ++ ([32] ++ openWord .b cs ++ (bLoop cs ((b :: rest).take rl) ((b :: rest).drop rl) rl ++ closeWord)) := by
      simp [splitWord, List.append_assoc]
    rw [e, dec_b_word, dec_between_splitB cs _ h, ih]
    simp [hs]

/-- **RFC 2047 round trip.** For every text, both encodings and every charset label without '?': the
    reader gives back exactly the text from the encoded-words the encoder emits. -/
theorem decodeWords_encodeWord (e : Enc) (cs s : Bytes) (h : ∀ c ∈ cs, c ≠ 63) :
    decodeWords (encodeWord e cs s) = some s := by
  unfold decodeWords encodeWord
  cases e with
  | q =>
    simp only []
    rw [List.append_assoc, dec_openQ .q cs _ h]
    unfold qEncode
    by_cases hu : (!isUTF8 cs) = true
    · simp only [hu, if_true]
      rw [dec_qString, dec_closeQ]; simp
    · simp only [hu, Bool.false_eq_true, if_false]
      exact dec_qLoop cs h s 0
  | b =>
    simp only []
    rw [List.append_assoc, dec_openB cs _ h]
    unfold bEncode
    by_cases hu : (!isUTF8 cs || decide (Base64.encodedLen s.length ≤ maxContentLen)) = true
    · simp only [hu, if_true]
      have := dec_b_word s []
      simpa [dec] using this
    · simp only [hu, Bool.false_eq_true, if_false]
      have := dec_bLoop cs h [] s 0
      simpa using this

end GoMail.EncodedWord
