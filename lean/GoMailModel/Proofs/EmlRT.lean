import GoMailModel.Eml.View
import GoMailModel.Proofs.Split
/-
  The EML body logic applied to a view that matches the writer's entity tree stores exactly the
  content of that tree (Eml.effects): parts, embeds and attachments, in order, nothing added.
-/
namespace GoMail.Eml
open GoMail

theorem splitEq2_at (k v : Bytes) (h : ∀ x ∈ k, x ≠ 61) : splitEq2 (k ++ 61 :: v) = [k, v] := by
  induction k with
  | nil => simp [splitEq2]
  | cons x xs ih =>
    have hx : (x == 61) = false := by simpa using h x (by simp)
    simp only [List.cons_append, splitEq2, hx, Bool.false_eq_true, if_false]
    rw [ih (fun y hy => h y (by simp [hy]))]

/-- parseMultiPartHeader reads back `type; charset=cs` -/
theorem pmh_part (ct cs : Bytes) (h1 : ∀ b ∈ ct, b ≠ 59) (h2 : ∀ b ∈ cs, b ≠ 59) :
    parseMultiPartHeader (ct ++ sb "; charset=" ++ cs) = (ct, [(sb "charset", cs)]) := by
  unfold parseMultiPartHeader splitOn
  have e : ct ++ sb "; charset=" ++ cs = ct ++ 59 :: (sb " charset=" ++ cs) := by
    simp [sb]
  rw [e, splitOnAux_at_sep 59 [] ct _ h1]
  have hrest : ∀ b ∈ sb " charset=" ++ cs, b ≠ 59 := by
    intro b hb
    rcases List.mem_append.mp hb with h | h
    · have key : ∀ x ∈ sb " charset=", x ≠ 59 := by decide
      exact key b h
    · exact h2 b h
  rw [splitOnAux_no_sep 59 [] _ hrest]
  simp only [List.reverse_nil, List.nil_append, List.filterMap_cons, List.filterMap_nil]
  have ht : trimLeftSp (sb " charset=" ++ cs) = sb "charset" ++ 61 :: cs := by
    simp [trimLeftSp, sb, List.dropWhile]
  rw [ht, splitEq2_at _ _ (by decide)]

/-- a value without ';' is its own first piece and has no options -/
theorem pmh_plain (v : Bytes) (h : ∀ b ∈ v, b ≠ 59) : parseMultiPartHeader v = (v, []) := by
  unfold parseMultiPartHeader splitOn
  rw [splitOnAux_no_sep 59 [] _ h]
  simp

theorem eqFold_excl (s c1 c2 : Bytes) (h : eqFold s c1 = true)
    (hne : (c1.map lowerAscii == c2.map lowerAscii) = false) : eqFold s c2 = false := by
  unfold eqFold at *
  have h1 : foldNorm s = c1.map lowerAscii := by simpa using h
  rw [h1]; exact hne

theorem mem59_foldNorm (s : Bytes) : 59 ∈ s → 59 ∈ foldNorm s := by
  fun_induction foldNorm s with
  | case1 rest ih =>
    intro h
    have : 59 ∈ rest := by simpa using h
    simp [ih this]
  | case2 rest ih =>
    intro h
    have : 59 ∈ rest := by simpa using h
    simp [ih this]
  | case3 b rest _ _ ih =>
    intro h
    rcases List.mem_cons.mp h with h | h
    · subst h; simp [lowerAscii]
    · simp [ih h]
  | case4 => intro h; simp at h

theorem eqFold_no59 (s c : Bytes) (h : eqFold s c = true) (hc : ∀ b ∈ c.map lowerAscii, b ≠ 59) : ∀ b ∈ s, b ≠ 59 := by
  intro b hb hb59
  subst hb59
  have := mem59_foldNorm s hb
  unfold eqFold at h
  have h1 : foldNorm s = c.map lowerAscii := by simpa using h
  rw [h1] at this
  exact hc 59 this rfl

def ESt.add (st : ESt) (x : Stored) : ESt :=
  { st with parts := st.parts ++ x.parts, atts := st.atts ++ x.atts, embeds := st.embeds ++ x.embeds }

theorem ESt.add_add (st : ESt) (a b : Stored) : (st.add a).add b = st.add (a.append b) := by
  simp [ESt.add, Stored.append, List.append_assoc]

theorem ESt.add_empty (st : ESt) : st.add {} = st := by
  simp [ESt.add]

theorem okPart_facts (p : XPart) (h : okPart p = true) :
    (p.ctype = tTextPlain ∨ p.ctype = tTextHTML) ∧ (∀ b ∈ p.charset, b ≠ 59) ∧
    (eqFold p.enc eQP = true ∨ isB64 p.enc = true ∨ isRaw p.enc = true) := by
  unfold okPart at h
  simp only [Bool.and_eq_true, Bool.or_eq_true, beq_iff_eq, Bool.not_eq_true'] at h
  refine ⟨h.1.1, ?_, by rcases h.2 with (h2 | h2) | h2 <;> simp [h2]⟩
  intro b hb hb59
  subst hb59
  have := h.1.2
  simp [List.contains_iff_mem] at this
  exact this hb

theorem ctype_facts (ct : Bytes) (h : ct = tTextPlain ∨ ct = tTextHTML) :
    (∀ b ∈ ct, b ≠ 59) ∧ isRelOrAlt ct = false := by
  rcases h with h | h <;> subst h <;> exact ⟨by decide, by decide⟩

theorem enc_qp (e : Bytes) (h : eqFold e eQP = true) :
    eqFold e e7bit = false ∧ eqFold e e8bit = false ∧ eqFold e eB64 = false :=
  ⟨eqFold_excl _ _ _ h (by decide), eqFold_excl _ _ _ h (by decide), eqFold_excl _ _ _ h (by decide)⟩
theorem enc_b64 (e : Bytes) (h : eqFold e eB64 = true) :
    eqFold e e7bit = false ∧ eqFold e e8bit = false ∧ eqFold e eQP = false :=
  ⟨eqFold_excl _ _ _ h (by decide), eqFold_excl _ _ _ h (by decide), eqFold_excl _ _ _ h (by decide)⟩
theorem enc_7 (e : Bytes) (h : eqFold e e7bit = true) :
    eqFold e e8bit = false ∧ eqFold e eB64 = false ∧ eqFold e eQP = false :=
  ⟨eqFold_excl _ _ _ h (by decide), eqFold_excl _ _ _ h (by decide), eqFold_excl _ _ _ h (by decide)⟩
theorem enc_8 (e : Bytes) (h : eqFold e e8bit = true) :
    eqFold e e7bit = false ∧ eqFold e eB64 = false ∧ eqFold e eQP = false :=
  ⟨eqFold_excl _ _ _ h (by decide), eqFold_excl _ _ _ h (by decide), eqFold_excl _ _ _ h (by decide)⟩

/-- one iteration of the multipart loop on a body part stores that part -/
theorem onePart_part (p : XPart) (v : VEnt) (st : ESt) (hok : okPart p = true) (hm : matchPart p v = true) :
    onePart v st = .ok (st.add { parts := [storedPart p] }) := by
  obtain ⟨hct, hcs, henc⟩ := okPart_facts p hok
  obtain ⟨hct59, hrel⟩ := ctype_facts p.ctype hct
  cases v with
  | mk ctypes disps ctes cid mt cd body qp b64stream b64str kids endOk =>
  simp only [matchPart, VEnt.ctypes, VEnt.disps, VEnt.ctes, VEnt.body, VEnt.b64str, Bool.and_eq_true, beq_iff_eq] at hm
  obtain ⟨⟨hcty, hdisp⟩, hrest⟩ := hm
  subst hcty hdisp
  have hpmh := pmh_part p.ctype p.charset hct59 hcs
  simp only [onePart, nestedOf, hpmh, hrel, Bool.false_eq_true, if_false, ne_eq, not_true_eq_false, leafPart, VEnt.ctypes, VEnt.ctes]
  have hopt : optGet [(sb "charset", p.charset)] (sb "charset") = some p.charset := by simp [optGet]
  have c1 : eqFold eQP e7bit = false := by decide
  have c2 : eqFold eQP e8bit = false := by decide
  have c3 : eqFold eQP eB64 = false := by decide
  have c4 : eqFold eQP eQP = true := by decide
  by_cases hq : eqFold p.enc eQP = true
  · obtain ⟨q1, q2, q3⟩ := enc_qp _ hq
    simp only [hq, if_true, Bool.and_eq_true, beq_iff_eq] at hrest
    obtain ⟨h1, h2⟩ := hrest
    subst h1 h2
    simp [hopt, c1, c2, c3, c4, storedPart, encLabel, q1, q2, q3, ESt.add]
  · have hq' : eqFold p.enc eQP = false := by simpa using hq
    by_cases hb : isB64 p.enc = true
    · have hb' : eqFold p.enc eB64 = true := hb
      obtain ⟨q1, q2, _⟩ := enc_b64 _ hb'
      simp only [hq', Bool.false_eq_true, if_false, hb, if_true, Bool.and_eq_true, beq_iff_eq] at hrest
      obtain ⟨⟨h1, h2⟩, h3⟩ := hrest
      subst h1 h3
      obtain ⟨d, hd⟩ := Option.isSome_iff_exists.mp h2
      subst hd
      simp [hopt, storedPart, encLabel, q1, q2, hb', hq', ESt.add, asRead, VEnt.b64str]
    · have hb' : isB64 p.enc = false := by simpa using hb
      have hr : isRaw p.enc = true := by
        rcases henc with h | h | h
        · exact absurd h hq
        · exact absurd h hb
        · exact h
      simp only [hq', Bool.false_eq_true, if_false, hb', hr, if_true, Bool.and_eq_true, beq_iff_eq] at hrest
      obtain ⟨h1, h2⟩ := hrest
      subst h1 h2
      have hb'' : eqFold p.enc eB64 = false := hb'
      unfold isRaw at hr
      by_cases h7 : eqFold p.enc e7bit = true
      · simp [hopt, storedPart, encLabel, h7, ESt.add, asRead, hq']
      · have h7' : eqFold p.enc e7bit = false := by simpa using h7
        have h8 : eqFold p.enc e8bit = true := by simpa [h7'] using hr
        simp [hopt, storedPart, encLabel, h7', h8, ESt.add, asRead, hq']

/-- one iteration of the multipart loop on an attachment / embed stores that file -/
theorem onePart_file (f : XFile) (v : VEnt) (st : ESt) (hm : matchFile f v = true) :
    onePart v st = .ok (st.add (effects (.file f))) := by
  cases v with
  | mk ctypes disps ctes cid mt cd body qp b64stream b64str kids endOk =>
  simp only [matchFile, VEnt.ctypes, VEnt.disps, VEnt.ctes, VEnt.body, VEnt.b64stream, VEnt.cd, VEnt.cid,
    Bool.and_eq_true, beq_iff_eq, bne_iff_ne, ne_eq] at hm
  obtain ⟨⟨⟨⟨hdisp, hcd⟩, hcid⟩, hcty⟩, henc⟩ := hm
  subst hcid
  match cd, hcd with
  | some c, hcd =>
  simp only [Bool.and_eq_true, beq_iff_eq] at hcd
  obtain ⟨⟨hmed, hfn⟩, hdec⟩ := hcd
  obtain ⟨n, hn'⟩ := Option.isSome_iff_exists.mp hfn
  have hname : fileNameAndType (VEnt.mk ctypes disps ctes f.cid mt (some c) body qp b64stream b64str kids endOk) =
      (Body.sanitizeFilename f.name, if f.attach = true then sb "attachment" else sb "inline") := by
    simp [fileNameAndType, VEnt.cd, hn', hdec, hmed]
  have hl1 : lowerNorm (sb "attachment") = sb "attachment" := by decide
  have hl2 : lowerNorm (sb "inline") = sb "inline" := by decide
  have hl3 : (sb "inline" == sb "attachment") = false := by decide
  simp only [onePart, ne_eq, hdisp, not_false_eq_true, if_true, attachEmbed, hname]
  have hn : nestedOf ctypes = false := by simpa using hcty
  simp only [hn]
  simp only [Bool.false_eq_true, if_false, VEnt.ctes, VEnt.b64stream, VEnt.body, VEnt.cid]
  have hdata : (if eqFold (parseMultiPartHeader (ctes.headD [])).1 eB64 = true then b64stream else body) =
      some (asRead f.enc f.content) := by
    by_cases hq : eqFold f.enc eQP = true
    · simp only [hq, if_true, Bool.and_eq_true, beq_iff_eq] at henc
      obtain ⟨h1, h2⟩ := henc
      subst h1
      have : eqFold (parseMultiPartHeader []).1 eB64 = false := by decide
      simp [this, h2]
    · have hq' : eqFold f.enc eQP = false := by simpa using hq
      by_cases hb : isB64 f.enc = true
      · have hb' : eqFold f.enc eB64 = true := hb
        simp only [hq', Bool.false_eq_true, if_false, hb, if_true, Bool.and_eq_true, beq_iff_eq] at henc
        obtain ⟨⟨h1, _⟩, h3⟩ := henc
        subst h1
        have h59 := eqFold_no59 f.enc eB64 hb' (by decide)
        simp [pmh_plain f.enc h59, hb', h3, asRead, hq']
      · have hb' : isB64 f.enc = false := by simpa using hb
        have hb'' : eqFold f.enc eB64 = false := hb'
        simp only [hq', Bool.false_eq_true, if_false, hb', Bool.and_eq_true, beq_iff_eq, Bool.not_eq_true'] at henc
        obtain ⟨⟨h1, h2⟩, h3⟩ := henc
        subst h1
        have h59 : ∀ b ∈ f.enc, b ≠ 59 := by
          intro b hb hb59
          subst hb59
          simp [List.contains_iff_mem] at h2
          exact h2 hb
        simp [pmh_plain f.enc h59, hb'', h3, asRead, hq']
  rw [hdata]
  cases ha : f.attach
  · simp [hl2, hl3, effects, ha, storedFile, ESt.add]
  · simp [hl1, effects, ha, storedFile, ESt.add]

theorem relalt_sub (sub : Bytes) (h : (sub == sb "related" || sub == sb "alternative") = true) :
    isRelOrAlt (sb "multipart/" ++ sub) = true ∧ eqFold (sb "multipart/" ++ sub) tTextPlain = false ∧
    eqFold (sb "multipart/" ++ sub) tTextHTML = false ∧
    (eqFold (sb "multipart/" ++ sub) tAlt || eqFold (sb "multipart/" ++ sub) tMixed || eqFold (sb "multipart/" ++ sub) tRelated) = true := by
  simp only [Bool.or_eq_true, beq_iff_eq] at h
  rcases h with h | h <;> subst h <;> decide

mutual
/-- one iteration of the multipart loop on any entity the writer nests -/
theorem onePart_ent : (x : XEnt) → (v : VEnt) → (st : ESt) → okEnt x = true → matchEnt x v = true →
    onePart v st = .ok (st.add (effects x))
  | .part p, v, st, hok, hm => by
    have := onePart_part p v st (by simpa [okEnt] using hok) (by simpa [matchEnt] using hm)
    simpa [effects] using this
  | .file f, v, st, _, hm => onePart_file f v st (by simpa [matchEnt] using hm)
  | .multi sub kids, v, st, hok, hm => by
    cases v with
    | mk ctypes disps ctes cid mt cd body qp b64stream b64str vkids endOk =>
    simp only [okEnt, Bool.and_eq_true] at hok
    obtain ⟨hsub, hkids⟩ := hok
    obtain ⟨hrel, hp, hh, hm3⟩ := relalt_sub sub hsub
    simp only [matchEnt, VEnt.ctypes, VEnt.disps, VEnt.mt, VEnt.body, VEnt.endOk, VEnt.kids, Bool.and_eq_true, beq_iff_eq] at hm
    obtain ⟨⟨⟨⟨⟨⟨⟨⟨hct, hdisp⟩, hst⟩, hmed⟩, hcs⟩, hbd⟩, hbody⟩, hend⟩, hmk⟩ := hm
    subst hdisp hend
    match ctypes, hct with
    | [ct0], hct =>
    have hct' : (parseMultiPartHeader ct0).1 = sb "multipart/" ++ sub := by simpa using hct
    obtain ⟨data, hdata⟩ := Option.isSome_iff_exists.mp hbody
    obtain ⟨bnd, hbnd⟩ := Option.isSome_iff_exists.mp hbd
    subst hdata
    have ih := multipart_list kids vkids st hkids hmk
    have hs0 : (mt.status ≥ 2) = False := by simp [hst]
    have hs1 : (mt.status == 1) = false := by simp [hst]
    simp only [onePart, nestedOf, hct', hrel, if_true, bodyPartsCore, VEnt.mt, VEnt.body, hs0, if_false, hs1, Bool.false_eq_true,
      hcs, hmed, hp, hh, Bool.or_self, hm3, hbnd, ih, ne_eq, not_true_eq_false, leafPart, VEnt.ctypes]
    simp [effects]
  termination_by structural x => x

/-- parseEMLMultipart over the parts of a multipart the writer produced -/
theorem multipart_list : (xs : List XEnt) → (vs : List VEnt) → (st : ESt) → okList xs = true → matchList xs vs = true →
    multipart vs true st = .ok (st.add (effectsL xs))
  | [], [], st, _, _ => by simp [multipart, effectsL, ESt.add_empty]
  | x :: xs, v :: vs, st, hok, hm => by
    simp only [okList, matchList, Bool.and_eq_true] at hok hm
    rw [multipart, onePart_ent x v st hok.1 hm.1]
    simp only
    rw [multipart_list xs vs _ hok.2 hm.2, ESt.add_add]
    simp [effectsL]
  | [], _ :: _, _, _, hm => by simp [matchList] at hm
  | _ :: _, [], _, _, hm => by simp [matchList] at hm
  termination_by structural xs => xs
end


theorem top_sub (sub : Bytes) (h : (sub == sb "mixed" || sub == sb "related" || sub == sb "alternative") = true) :
    eqFold (sb "multipart/" ++ sub) tTextPlain = false ∧ eqFold (sb "multipart/" ++ sub) tTextHTML = false ∧
    (eqFold (sb "multipart/" ++ sub) tAlt || eqFold (sb "multipart/" ++ sub) tMixed || eqFold (sb "multipart/" ++ sub) tRelated) = true := by
  simp only [Bool.or_eq_true, beq_iff_eq] at h
  rcases h with (h | h) | h <;> subst h <;> decide

/-- a multipart message: the body logic stores the flattened content of the tree and leaves the
    message charset and encoding alone -/
theorem parse_multipart_top (sub : Bytes) (kids : List XEnt) (v : VEnt) (st0 : ESt)
    (hok : okTop (.multi sub kids) = true) (hm : matchTop (.multi sub kids) v = true) :
    parseBody v st0 = .ok (st0.add (effectsL kids)) := by
  cases v with
  | mk ctypes disps ctes cid mt cd body qp b64stream b64str vkids endOk =>
  simp only [okTop, Bool.and_eq_true] at hok
  obtain ⟨hsub, hkids⟩ := hok
  obtain ⟨hp, hh, hm3⟩ := top_sub sub hsub
  simp only [matchTop, VEnt.ctypes, VEnt.ctes, VEnt.mt, VEnt.body, VEnt.endOk, VEnt.kids, Bool.and_eq_true, beq_iff_eq] at hm
  obtain ⟨⟨⟨⟨⟨⟨⟨⟨hcte, hct⟩, hst⟩, hmed⟩, hcs⟩, hbd⟩, hbody⟩, hend⟩, hmk⟩ := hm
  subst hcte hend
  match ctypes, hct with
  | [ct0], hct =>
  have hct' : optGet (parseMultiPartHeader ct0).2 (sb "charset") = none := by simpa using hct
  obtain ⟨data, hdata⟩ := Option.isSome_iff_exists.mp hbody
  obtain ⟨bnd, hbnd⟩ := Option.isSome_iff_exists.mp hbd
  subst hdata
  have ih := multipart_list kids vkids st0 hkids hmk
  have hs0 : (mt.status ≥ 2) = False := by simp [hst]
  have hs1 : (mt.status == 1) = false := by simp [hst]
  simp only [parseBody, VEnt.ctes, VEnt.ctypes, List.headD_nil, List.headD_cons, beq_self_eq_true, if_true, hct', bodyParts, bodyPartsCore,
    VEnt.mt, VEnt.body, VEnt.kids, VEnt.endOk, hs0, if_false, hs1, Bool.false_eq_true, hcs, hmed, hp, hh, Bool.or_self, hm3, hbnd, ih]
  split <;> exact ih

/-- a single-part message: one part with the type, charset, encoding and content of the rendered one -/
theorem parse_single_top (p : XPart) (v : VEnt) (st0 : ESt)
    (hok : okPart p = true) (hm : matchTop (.part p) v = true) :
    parseBody v st0 = .ok { st0 with charset := p.charset, enc := encLabel p.enc, parts := [storedPart p] } := by
  obtain ⟨hct, hcs, henc⟩ := okPart_facts p hok
  obtain ⟨hct59, hrel⟩ := ctype_facts p.ctype hct
  cases v with
  | mk ctypes disps ctes cid mt cd body qp b64stream b64str vkids endOk =>
  simp only [matchTop, VEnt.ctypes, VEnt.ctes, VEnt.mt, VEnt.body, VEnt.qp, VEnt.b64stream, Bool.and_eq_true, beq_iff_eq] at hm
  obtain ⟨⟨⟨⟨⟨⟨hcty, hcte⟩, hst⟩, hmed⟩, hmcs⟩, hbody⟩, hrest⟩ := hm
  subst hcty hcte
  obtain ⟨data, hdata⟩ := Option.isSome_iff_exists.mp hbody
  subst hdata
  have hpmh := pmh_part p.ctype p.charset hct59 hcs
  have hopt : optGet [(sb "charset", p.charset)] (sb "charset") = some p.charset := by simp [optGet]
  have hne : (p.ctype ++ sb "; charset=" ++ p.charset == []) = false := by
    rcases hct with h | h <;> rw [h] <;> simp [tTextPlain, tTextHTML, sb]
  have hs0 : (mt.status ≥ 2) = False := by simp [hst]
  have hs1 : (mt.status == 1) = false := by simp [hst]
  have hplain : (eqFold p.ctype tTextPlain || eqFold p.ctype tTextHTML) = true := by
    rcases hct with h | h <;> rw [h] <;> decide
  have hne2 : (p.enc == []) = false := by
    cases h : p.enc with
    | nil => rw [h] at henc; revert henc; decide
    | cons a b => simp
  have hpmh' : parseMultiPartHeader (p.ctype ++ (sb "; charset=" ++ p.charset)) = (p.ctype, [(sb "charset", p.charset)]) := by
    rw [← List.append_assoc]; exact hpmh
  have hsb : ¬ (sb "; charset=" = []) := by decide
  by_cases hq : eqFold p.enc eQP = true
  · obtain ⟨q1, q2, q3⟩ := enc_qp _ hq
    simp only [hq, if_true, beq_iff_eq] at hrest
    subst hrest
    simp [parseBody, VEnt.ctypes, hsb, hpmh', hopt, bodyParts, bodyPartsCore, VEnt.mt, VEnt.body, hs1, hst, hmcs, hmed, hplain, bodyPlain, VEnt.ctes, VEnt.qp, hne2, hq, q1, q2, q3, setBody, storedPart, encLabel]
  · have hq' : eqFold p.enc eQP = false := by simpa using hq
    by_cases hb : isB64 p.enc = true
    · have hb' : eqFold p.enc eB64 = true := hb
      obtain ⟨q1, q2, _⟩ := enc_b64 _ hb'
      simp only [hq', Bool.false_eq_true, if_false, hb, if_true, beq_iff_eq] at hrest
      subst hrest
      simp [parseBody, VEnt.ctypes, hsb, hpmh', hopt, bodyParts, bodyPartsCore, VEnt.mt, VEnt.body, hs1, hst, hmcs, hmed, hplain, bodyPlain, VEnt.ctes, VEnt.b64stream, hne2, hq', q1, q2, hb', setBody, storedPart, encLabel, asRead]
    · have hb' : isB64 p.enc = false := by simpa using hb
      have hb'' : eqFold p.enc eB64 = false := hb'
      have hr : isRaw p.enc = true := by
        rcases henc with h | h | h
        · exact absurd h hq
        · exact absurd h hb
        · exact h
      simp only [hq', Bool.false_eq_true, if_false, hb', hr, if_true, beq_iff_eq, Option.some.injEq] at hrest
      subst hrest
      unfold isRaw at hr
      by_cases h7 : eqFold p.enc e7bit = true
      · simp [parseBody, VEnt.ctypes, hsb, hpmh', hopt, bodyParts, bodyPartsCore, VEnt.mt, VEnt.body, hs1, hst, hmcs, hmed, hplain, bodyPlain, VEnt.ctes, hne2, hq', hb'', h7, setBody, storedPart, encLabel, asRead]
      · have h7' : eqFold p.enc e7bit = false := by simpa using h7
        have h8 : eqFold p.enc e8bit = true := by simpa [h7'] using hr
        simp [parseBody, VEnt.ctypes, hsb, hpmh', hopt, bodyParts, bodyPartsCore, VEnt.mt, VEnt.body, hs1, hst, hmcs, hmed, hplain, bodyPlain, VEnt.ctes, hne2, hq', hb'', h7', h8, setBody, storedPart, encLabel, asRead]


theorem Stored.append_empty (a : Stored) : a.append {} = a := by simp [Stored.append]
theorem Stored.empty_append (a : Stored) : Stored.append {} a = a := by simp [Stored.append]

theorem effectsL_append (a b : List XEnt) : effectsL (a ++ b) = (effectsL a).append (effectsL b) := by
  induction a with
  | nil => simp [effectsL, Stored.empty_append]
  | cons x xs ih => simp [effectsL, ih, Stored.append, List.append_assoc]

theorem effectsL_multi (sub : Bytes) (l : List XEnt) : effectsL [XEnt.multi sub l] = effectsL l := by
  simp [effectsL, effects, Stored.append_empty]

theorem effects_multi (sub : Bytes) (l : List XEnt) : effects (XEnt.multi sub l) = effectsL l := by
  simp [effects]

theorem effectsL_multi_cons (sub : Bytes) (l rest : List XEnt) :
    effectsL (XEnt.multi sub l :: rest) = (effectsL l).append (effectsL rest) := by
  simp [effectsL, effects]

theorem effectsL_parts (l : List XPart) : effectsL (l.map XEnt.part) = { parts := l.map storedPart } := by
  induction l with
  | nil => simp [effectsL]
  | cons x xs ih => simp [effectsL, effects, ih, Stored.append]

theorem effectsL_embeds (l : List XFile) (h : ∀ f ∈ l, f.attach = false) :
    effectsL (l.map XEnt.file) = { embeds := l.map storedFile } := by
  induction l with
  | nil => simp [effectsL]
  | cons x xs ih =>
    have hx := h x (by simp)
    simp [effectsL, effects, hx, ih (fun f hf => h f (by simp [hf])), Stored.append]

theorem effectsL_atts (l : List XFile) (h : ∀ f ∈ l, f.attach = true) :
    effectsL (l.map XEnt.file) = { atts := l.map storedFile } := by
  induction l with
  | nil => simp [effectsL]
  | cons x xs ih =>
    have hx := h x (by simp)
    simp [effectsL, effects, hx, ih (fun f hf => h f (by simp [hf])), Stored.append]

/-- whatever layers the message has, the content of its tree is: the rendered body parts, the embeds,
    the attachments, each list in the caller's order -/
theorem effects_xtop (s : Mime.MsgState) :
    effectsL (xtop s) = { parts := (keptParts s).map (fun p => storedPart (xPartOf s p)),
                          embeds := s.embeds.map (fun f => storedFile (xFileOf s false f)),
                          atts := s.attachments.map (fun f => storedFile (xFileOf s true f)) } := by
  have hp : effectsL ((keptParts s).map (fun p => XEnt.part (xPartOf s p))) =
      { parts := (keptParts s).map (fun p => storedPart (xPartOf s p)) } := by
    have := effectsL_parts ((keptParts s).map (xPartOf s))
    simpa [List.map_map, Function.comp_def] using this
  have he : effectsL (s.embeds.map (fun f => XEnt.file (xFileOf s false f))) =
      { embeds := s.embeds.map (fun f => storedFile (xFileOf s false f)) } := by
    have := effectsL_embeds (s.embeds.map (xFileOf s false)) (by
      intro f hf; obtain ⟨g, _, rfl⟩ := List.mem_map.mp hf; rfl)
    simpa [List.map_map, Function.comp_def] using this
  have ha : effectsL (s.attachments.map (fun f => XEnt.file (xFileOf s true f))) =
      { atts := s.attachments.map (fun f => storedFile (xFileOf s true f)) } := by
    have := effectsL_atts (s.attachments.map (xFileOf s true)) (by
      intro f hf; obtain ⟨g, _, rfl⟩ := List.mem_map.mp hf; rfl)
    simpa [List.map_map, Function.comp_def] using this
  unfold xtop
  cases Mime.hasAlt s <;> cases Mime.hasRelated s <;> cases Mime.hasMixed s <;>
    simp [effectsL_append, effectsL_multi_cons, effectsL_multi, effects_multi, hp, he, ha, Stored.append, effectsL]

/-- **The EML body logic reads back what the writer rendered.** -/
theorem parse_of_render (s : Mime.MsgState) (x : XEnt) (v : VEnt) (cs enc : Bytes)
    (hx : xtreeOf s = some x) (hok : okTop x = true) (hm : matchTop x v = true) :
    ∃ st, parseBody v { charset := cs, enc := enc } = .ok st ∧
      st.parts = (keptParts s).map (fun p => storedPart (xPartOf s p)) ∧
      st.embeds = s.embeds.map (fun f => storedFile (xFileOf s false f)) ∧
      st.atts = s.attachments.map (fun f => storedFile (xFileOf s true f)) := by
  have htop : xtop s = [x] := by
    unfold xtreeOf at hx
    split at hx
    · rename_i t ht; simp at hx; rw [ht, hx]
    · simp at hx
  have heff : effects x = effectsL (xtop s) := by
    rw [htop]; simp [effectsL, Stored.append_empty]
  have hE := effects_xtop s
  rw [← heff] at hE
  match x, hok, hm, hE with
  | .multi sub kids, hok, hm, hE =>
    rw [effects_multi] at hE
    refine ⟨_, parse_multipart_top sub kids v _ hok hm, ?_, ?_, ?_⟩ <;>
      simp [ESt.add, hE]
  | .part p, hok, hm, hE =>
    have h1 := congrArg Stored.parts hE
    have h2 := congrArg Stored.embeds hE
    have h3 := congrArg Stored.atts hE
    simp only [effects] at h1 h2 h3
    exact ⟨_, parse_single_top p v _ (by simpa [okTop] using hok) hm, h1, h2, h3⟩
  | .file f, hok, _, _ => simp [okTop] at hok

end GoMail.Eml
