import GoMailModel.Proofs.Legal5
/-
  Session legality, part 6: the dial phase (greeting, hello, STARTTLS, AUTH) and the whole
  DialAndSend; the C04 theorem.
-/
namespace GoMail.Smtp
open GoMail

theorem between_of_eq (c c' : Conn) (h : Between c) (ht : c'.trace = c.trace) (ho : c'.cliOpen = c.cliOpen := by rfl)
    (hg : c'.srvGone = c.srvGone := by rfl) (hs : c'.srvSilent = c.srvSilent := by rfl)
    (hd : c'.didHello = c.didHello := by rfl) (he : c'.helloErr = c.helloErr := by rfl) : Between c' :=
  ⟨⟨ji_of_eq c c' h.sess.ji ht ho hg hs, hellorel_of_eq c c' h.sess.hello ht hd he⟩, idle_of_eq c c' h.idle ht ho hg hs⟩

theorem between_ev (c : Conn) (e : Ev) (h : Between c) (he : ∀ j : J, j.step e = j) : Between (c.ev e) := by
  obtain ⟨a, b, _⟩ := sess_ev_neutral c e h.sess he
  exact ⟨a, b h.idle⟩

theorem between_close (c : Conn) (h : Between c) : Between c.close :=
  ⟨(close_facts c h.sess).1, (close_facts c h.sess).2.1⟩

theorem between_waitSilent (c : Conn) (h : Between c) : Between c.waitSilent.1 := by
  unfold Conn.waitSilent
  exact between_ev c _ h (fun j => step_stall j _)

theorem between_pop (c : Conn) (h : Between c) : Between c.pop.2 := by
  unfold Conn.pop; split
  · exact h
  · exact between_of_eq c _ h rfl

/-- the server falls silent outside any command -/
theorem between_silent (c : Conn) (h : Between c) : Between { c with srvSilent := true } := by
  have nl : ¬ live ({ c with srvSilent := true } : Conn) := fun hl => by cases hl.2.2
  exact ⟨⟨⟨h.sess.ji.nbad, h.sess.ji.stop, fun hl => absurd hl nl⟩, h.sess.hello⟩, fun hl => absurd hl nl⟩

/-- the transport breaks outside any command (a failed TLS handshake): the server is out of reach -/
theorem between_gone (c : Conn) (e : Option Err) (h : Between c) : Between { c with srvGone := true, broken := e } := by
  have nl : ¬ live ({ c with srvGone := true, broken := e } : Conn) := fun hl => by cases hl.2.1
  exact ⟨⟨⟨h.sess.ji.nbad, h.sess.ji.stop, fun hl => absurd hl nl⟩, h.sess.hello⟩, fun hl => absurd hl nl⟩

/-- the server drops the connection outside any command -/
theorem between_drop (c : Conn) (h : Between c) : Between { c.ev .drop with srvGone := true } := by
  have nl : ¬ live ({ c.ev .drop with srvGone := true } : Conn) := fun hl => by cases hl.2.1
  have hj : judge ({ c.ev .drop with srvGone := true } : Conn).trace = (judge c.trace).step .drop := judge_ev c .drop
  have hb : ((judge c.trace).step .drop).bad = (judge c.trace).bad := by
    unfold J.step; split <;> rfl
  have hst : ((judge c.trace).step .drop).stopped = (judge c.trace).stopped := by
    unfold J.step; split <;> rfl
  have hh : ((judge c.trace).step .drop).hello = (judge c.trace).hello := by
    unfold J.step; split <;> rfl
  refine ⟨⟨⟨by rw [hj, hb]; exact h.sess.ji.nbad, by rw [hj, hst]; exact h.sess.ji.stop, fun hl => absurd hl nl⟩, ?_⟩,
    fun hl => absurd hl nl⟩
  intro a b
  rw [hj, hh]; exact h.sess.hello a b

/-- commands that are legal whenever no transaction is open -/
def neutralVerb (v : Verb) : Bool :=
  match v with
  | .ehlo | .helo | .rset | .noop | .quit | .authStep | .authAbort | .starttls | .auth => true
  | _ => false

theorem between_cmd (c : Conn) (v : Verb) (line : Bytes) (n : Nat) (h : Between c) (hv : neutralVerb v = true) :
    Between (c.cmd v line n).1 := by
  have hvok : live c → (judge c.trace).vOk v = true := by
    intro hl
    have := h.idle hl
    cases v <;> simp [neutralVerb] at hv <;> simp [J.vOk, this]
  refine ⟨sess_cmd c v line n h.sess hvok, idle_cmd c v line n h.sess.ji h.idle ?_⟩
  cases v <;> simp [neutralVerb] at hv <;> decide

theorem between_hello (c : Conn) (h : Between c) : Between c.hello.1 := by
  obtain ⟨a, b, _⟩ := hello_facts c h.sess
  exact ⟨a, b h.idle⟩

theorem between_Hello (c : Conn) (n : Bytes) (h : Between c) : Between (c.Hello n).1 := by
  obtain ⟨a, b⟩ := Hello_facts c n h.sess
  exact ⟨a, b h.idle⟩

theorem between_extension (c : Conn) (k : String) (h : Between c) : Between (c.extension k).1 := by
  obtain ⟨a, b⟩ := extension_facts c k h.sess
  exact ⟨a, b h.idle⟩

theorem between_quit (c : Conn) (h : Between c) : Between c.quit.1 := by
  obtain ⟨a, b⟩ := quit_facts c h.sess
  exact ⟨a, b h.idle⟩

theorem between_ehlo (c : Conn) (h : Between c) : Between c.ehlo.1 := by
  obtain ⟨e1, e2, e3, e4, e5, _⟩ := ehlo_facts c h.sess.ji
  refine ⟨⟨e1, ?_⟩, e2 h.idle⟩
  intro a b; rw [e3] at a; rw [e4] at b; exact e5 (h.sess.hello a b)

theorem between_startTLS (c : Conn) (h : Between c) : Between c.startTLS.1 := by
  unfold Conn.startTLS
  have h1 := between_hello c h
  rcases hr : c.hello with ⟨c1, r⟩
  rw [hr] at h1
  cases r with
  | some e => exact h1
  | none =>
    simp only []
    have h2 := between_cmd c1 .starttls (sb "STARTTLS") 220 h1 rfl
    rcases hc : c1.cmd .starttls (sb "STARTTLS") 220 with ⟨c2, r2⟩
    rw [hc] at h2
    cases r2 with
    | error e => exact h2
    | ok v =>
      simp only []
      have h3 : Between { c2 with tls := true } := between_of_eq c2 _ h2 rfl
      split
      · exact h3
      · split
        · exact between_waitSilent _ h3
        · have h4 := between_pop _ h3
          split
          · exact between_ehlo _ (between_ev _ _ h4 step_tlsOn)
          · exact between_drop _ h4
          · exact between_waitSilent _ (between_silent _ h4)
          · exact between_gone _ _ (between_ev _ _ h4 step_tlsFail)

theorem between_authLoop {σ} (a : Mech σ) (mech : Bytes) (fuel : Nat) (c : Conn) (st : σ)
    (r : Except Err (Nat × Bytes)) (h : Between c) : Between (authLoop a mech fuel c st r).1 := by
  induction fuel generalizing c st r with
  | zero => unfold authLoop; exact h
  | succ n ih =>
    unfold authLoop
    cases r with
    | error e => exact h
    | ok v =>
      simp only []
      split
      · have h1 : Between (if mech != sb "XOAUTH2" then (c.cmd .authAbort (sb "*") 501).1 else c) := by
          split
          · exact between_cmd c _ _ _ h rfl
          · exact h
        exact between_quit _ h1
      · exact h
      · exact ih _ _ _ (between_cmd c _ _ _ h rfl)

theorem between_authWith {σ} (c : Conn) (a : Mech σ) (h : Between c) : Between (c.authWith a).1 := by
  unfold Conn.authWith
  have h1 := between_hello c h
  rcases hr : c.hello with ⟨c1, r⟩
  rw [hr] at h1
  cases r with
  | some e => exact h1
  | none =>
    simp only []
    have h2 : Between (if !c1.logAuthData then { c1 with authActive := true } else c1) := by
      split
      · exact between_of_eq c1 _ h1 rfl
      · exact h1
    have hdone : ∀ c : Conn, Between c → Between (if !c.logAuthData then { c with authActive := false } else c) := by
      intro c hc
      split
      · exact between_of_eq c _ hc rfl
      · exact hc
    split
    · exact hdone _ (between_quit _ h2)
    · exact hdone _ (between_authLoop a _ _ _ _ _ (between_cmd _ _ _ _ h2 rfl))

theorem between_runMech (cfg : DialCfg) (c : Conn) (t : AuthType) (h : Between c) : Between (runMech cfg c t).1 := by
  unfold runMech
  simp only []
  cases t
  all_goals simp only []
  all_goals first
    | exact between_authWith c _ h
    | exact h
    | (split
       · exact h
       · split
         · exact h
         · exact between_authWith c _ h)

theorem between_clientAuth (cfg : DialCfg) (c : Conn) (enc : Bool) (h : Between c) : Between (clientAuth cfg c enc).1 := by
  unfold clientAuth
  split
  · exact h
  · simp only []
    have h1 := between_extension c "AUTH" h
    rcases hr : c.extension "AUTH" with ⟨c1, has⟩
    rw [hr] at h1
    simp only []
    repeat' split
    all_goals first
      | exact h1
      | exact between_runMech cfg c1 _ h1

theorem between_clientTLS (cfg : DialCfg) (c : Conn) (enc : Bool) (h : Between c) : Between (clientTLS cfg c enc).1 := by
  unfold clientTLS
  split
  · exact h
  · simp only []
    have h1 := between_extension c "STARTTLS" h
    rcases hr : c.extension "STARTTLS" with ⟨c1, ext⟩
    rw [hr] at h1
    simp only []
    split
    · exact h1
    · have h2 : Between (if (cfg.policy == .mandatory || ext) = true then c1.startTLS else (c1, none)).1 := by
        split
        · exact between_startTLS c1 h1
        · exact h1
      rcases hs : (if (cfg.policy == .mandatory || ext) = true then c1.startTLS else (c1, none)) with ⟨c2, e⟩
      rw [hs] at h2
      cases e with
      | some e => exact h2
      | none =>
        simp only []
        split
        · exact h2
        · split <;> exact h2

/-- after the greeting was read: a usable connection between two messages, or a closed one -/
theorem between_newClient (cfg : DialCfg) (script : List Act) (caps : List Bytes) :
    Between (newClient cfg script caps).1 := by
  unfold newClient
  -- the judge before the greeting is read
  have hj0 : judge (freshConn cfg script caps).updateDeadline.1.trace = { pending := some .greeting } := by
    cases hi : cfg.implicitTLS <;> simp [freshConn, Conn.updateDeadline, hi, Conn.ev, judge, J.step]
  have hg0 : (freshConn cfg script caps).updateDeadline.1.srvGone = false := by simp [freshConn, Conn.updateDeadline, Conn.ev]
  have hs0 : (freshConn cfg script caps).updateDeadline.1.srvSilent = false := by simp [freshConn, Conn.updateDeadline, Conn.ev]
  have ho0 : (freshConn cfg script caps).updateDeadline.1.cliOpen = true := by simp [freshConn, Conn.updateDeadline, Conn.ev]
  have hd0 : (freshConn cfg script caps).updateDeadline.1.didHello = false := by simp [freshConn, Conn.updateDeadline, Conn.ev]
  obtain ⟨d, f⟩ := serverTurn_live (freshConn cfg script caps).updateDeadline.1 .greeting 220 hg0 hs0
  -- whatever the server did: not bad, not stopped, hello relation vacuous; closing gives `Between`
  have hclose : ∀ c1 : Conn, (judge c1.trace).bad = false → (judge c1.trace).stopped = !c1.cliOpen → c1.didHello = false →
      Between c1.close := by
    intro c1 hb hst hdh
    unfold Conn.close
    split
    · rename_i ho
      have hs : (judge c1.trace).stopped = false := by rw [hst, ho]; rfl
      have hj : judge (c1.ev .close).trace = { judge c1.trace with stopped := true } := by
        rw [judge_ev]; simp [J.step, hs]
      have nl : ¬ live ({ c1.ev .close with cliOpen := false, isConnected := false } : Conn) := fun hl => by cases hl.1
      refine ⟨⟨⟨?_, ?_, fun hl => absurd hl nl⟩, ?_⟩, fun hl => absurd hl nl⟩
      · show (judge (c1.ev .close).trace).bad = false
        rw [hj]; exact hb
      · show (judge (c1.ev .close).trace).stopped = _
        rw [hj]; rfl
      · intro a _
        have : c1.didHello = true := a
        rw [hdh] at this; cases this
    · rename_i ho
      have ho' : c1.cliOpen = false := by simpa using ho
      have nl : ¬ live ({ c1 with isConnected := false } : Conn) := fun hl => by have := hl.1; simp [ho'] at this
      refine ⟨⟨⟨hb, by rw [hst, ho'], fun hl => absurd hl nl⟩, ?_⟩, fun hl => absurd hl nl⟩
      intro a _
      have : c1.didHello = true := a
      rw [hdh] at this; cases this
  have hs2 : ({ pending := some .greeting } : J).stopped = false := rfl
  cases d with
  | reply code text h1 h2 h3 =>
    have hj : judge ((freshConn cfg script caps).updateDeadline.1.serverTurn .greeting 220).1.trace =
        { greeted := code == 220 } := by
      rw [h2, judge_snoc, hj0, step_reply _ _ hs2]; simp [J.onReply]
    rcases hr : (freshConn cfg script caps).updateDeadline.1.serverTurn .greeting 220 with ⟨c1, r⟩
    rw [hr] at h1 hj f h3
    have hb : (judge c1.trace).bad = false := by rw [hj]
    have hst : (judge c1.trace).stopped = !c1.cliOpen := by rw [hj, f.1, ho0]; rfl
    have hdh : c1.didHello = false := by rw [f.2.1, hd0]
    cases r with
    | error e => exact hclose c1 hb hst hdh
    | ok val =>
      simp only []
      have hcode : code = 220 := by
        by_cases hm : codeMatches 220 code = true
        · simpa [codeMatches] using hm
        · simp only [hm] at h1; cases h1
      subst hcode
      refine ⟨⟨⟨hb, hst, fun _ => by rw [hj]; exact ⟨rfl, rfl, rfl⟩⟩, ?_⟩, fun _ => by rw [hj]⟩
      intro a _; rw [hdh] at a; cases a
  | garbage h1 h2 h3 h4 =>
    have hj : judge ((freshConn cfg script caps).updateDeadline.1.serverTurn .greeting 220).1.trace = { greeted := false } := by
      rw [h2, judge_snoc, hj0, step_garbage _ hs2]; simp [J.onReply]
    rcases hr : (freshConn cfg script caps).updateDeadline.1.serverTurn .greeting 220 with ⟨c1, r⟩
    rw [hr] at h1 hj f
    subst h1
    exact hclose c1 (by rw [hj]) (by rw [hj, f.1, ho0]; rfl) (by rw [f.2.1, hd0])
  | drop h1 h2 h3 =>
    have hj : judge ((freshConn cfg script caps).updateDeadline.1.serverTurn .greeting 220).1.trace = { closed := true } := by
      rw [h2, judge_snoc, hj0]; simp [J.step]
    rcases hr : (freshConn cfg script caps).updateDeadline.1.serverTurn .greeting 220 with ⟨c1, r⟩
    rw [hr] at h1 hj f
    subst h1
    exact hclose c1 (by rw [hj]) (by rw [hj, f.1, ho0]; rfl) (by rw [f.2.1, hd0])
  | stall a1 h1 h2 h3 =>
    have hj : judge ((freshConn cfg script caps).updateDeadline.1.serverTurn .greeting 220).1.trace = { pending := some .greeting } := by
      rw [h2, judge_snoc, hj0, step_stall]
    rcases hr : (freshConn cfg script caps).updateDeadline.1.serverTurn .greeting 220 with ⟨c1, r⟩
    rw [hr] at h1 hj f
    have hcl := hclose c1 (by rw [hj]) (by rw [hj, f.1, ho0]; rfl) (by rw [f.2.1, hd0])
    rcases h1 with h1 | h1 <;> (subst h1; exact hcl)

theorem between_dial (cfg : DialCfg) (script : List Act) (caps : List Bytes) : Between (dial cfg script caps).1 := by
  unfold dial
  have h0 := between_newClient cfg script caps
  rcases hn : newClient cfg script caps with ⟨c0, e0⟩
  rw [hn] at h0
  cases e0 with
  | some e => exact h0
  | none =>
    simp only []
    have h1 := between_Hello { c0 with debug := cfg.debug, logAuthData := cfg.logAuthData } cfg.helo (between_of_eq c0 _ h0 rfl)
    rcases hh : Conn.Hello { c0 with debug := cfg.debug, logAuthData := cfg.logAuthData } cfg.helo with ⟨c1, e1⟩
    rw [hh] at h1
    cases e1 with
    | some e => exact between_close c1 h1
    | none =>
      simp only []
      have h2 := between_clientTLS cfg c1 cfg.implicitTLS h1
      rcases ht : clientTLS cfg c1 cfg.implicitTLS with ⟨c2, enc, e2⟩
      rw [ht] at h2
      cases e2 with
      | some e => exact between_close c2 h2
      | none =>
        simp only []
        have h3 := between_clientAuth cfg c2 enc h2
        rcases ha : clientAuth cfg c2 enc with ⟨c3, e3⟩
        rw [ha] at h3
        cases e3 with
        | some e => exact between_close c3 h3
        | none => exact h3

theorem between_dialAndSend (cfg : DialCfg) (script : List Act) (caps : List Bytes) (ms : List MsgIn) :
    Between (dialAndSend cfg script caps ms).conn := by
  unfold dialAndSend
  have h0 := between_dial cfg script caps
  rcases hd : dial cfg script caps with ⟨c0, e0⟩
  rw [hd] at h0
  cases e0 with
  | some e => exact h0
  | none =>
    simp only []
    have h1 := sendBatch_between cfg.send c0 ms h0
    rcases hs : sendBatch cfg.send c0 ms with ⟨c1, outs, ce⟩
    rw [hs] at h1
    cases outs with
    | none => exact closeWith_between c1 h1
    | some outs =>
      simp only []
      split
      · exact closeWith_between c1 h1
      · exact closeWith_between _ (closeWith_between c1 h1)

/-- **C04.** For every configuration, every server script (expected replies, 4yz, 5yz, garbage,
    disconnects, stalls at any position), every capability list and every batch of messages, the
    commands DialAndSend emits form a legal RFC 5321 session: nothing before the greeting, MAIL only
    after an accepted EHLO/HELO and outside an open transaction, RCPT only after an accepted MAIL,
    DATA only when at least one recipient was accepted and none refused, end-of-data only after 354,
    no command while a reply is outstanding or after the server closed. -/
theorem dialAndSend_legal (cfg : DialCfg) (script : List Act) (caps : List Bytes) (ms : List MsgIn) :
    Legal (dialAndSend cfg script caps ms).conn.trace :=
  (between_dialAndSend cfg script caps ms).sess.ji.nbad

theorem dial_legal (cfg : DialCfg) (script : List Act) (caps : List Bytes) : Legal (dial cfg script caps).1.trace :=
  (between_dial cfg script caps).sess.ji.nbad

end GoMail.Smtp
