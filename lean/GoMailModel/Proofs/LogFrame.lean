import GoMailModel.Smtp.Auth
/-
  Frame lemmas: the operations used inside smtp.Client.Auth do not touch the redaction switches
  (authActive, logAuthData, debug).
-/
namespace GoMail.Smtp
open GoMail

def SameSw (c c' : Conn) : Prop :=
  c'.authActive = c.authActive ∧ c'.logAuthData = c.logAuthData ∧ c'.debug = c.debug

theorem SameSw.refl (c : Conn) : SameSw c c := ⟨rfl, rfl, rfl⟩
theorem SameSw.trans {a b c : Conn} (h1 : SameSw a b) (h2 : SameSw b c) : SameSw a c :=
  ⟨h2.1.trans h1.1, h2.2.1.trans h1.2.1, h2.2.2.trans h1.2.2⟩

theorem sw_ev (c : Conn) (e : Ev) : SameSw c (c.ev e) := ⟨rfl, rfl, rfl⟩
theorem sw_log (c : Conn) (r : LogRec) : SameSw c (c.log r) := by unfold Conn.log; split <;> exact ⟨rfl, rfl, rfl⟩
theorem sw_close (c : Conn) : SameSw c c.close := by unfold Conn.close; split <;> exact ⟨rfl, rfl, rfl⟩
theorem sw_pop (c : Conn) : SameSw c c.pop.2 := by unfold Conn.pop; split <;> exact ⟨rfl, rfl, rfl⟩
theorem sw_waitSilent (c : Conn) : SameSw c c.waitSilent.1 := ⟨rfl, rfl, rfl⟩

theorem sw_replied (c : Conn) (v : Verb) (n code : Nat) (t : Bytes) : SameSw c (c.replied v n code t).1 := by
  unfold Conn.replied; simp only []
  split <;> split <;> exact ⟨rfl, rfl, rfl⟩

theorem sw_applyAct (c : Conn) (v : Verb) (n : Nat) (a : Act) : SameSw c (c.applyAct v n a).1 := by
  cases a with
  | ok => exact sw_replied c v n _ _
  | reply code text => exact sw_replied c v n code text
  | drop => exact ⟨rfl, rfl, rfl⟩
  | stall => exact ⟨rfl, rfl, rfl⟩
  | garbage => exact ⟨rfl, rfl, rfl⟩
  | tlsBad => exact ⟨rfl, rfl, rfl⟩
  | deaf => exact (sw_replied c v n _ _).trans ⟨rfl, rfl, rfl⟩

theorem sw_serverTurn (c : Conn) (v : Verb) (n : Nat) : SameSw c (c.serverTurn v n).1 := by
  unfold Conn.serverTurn
  split
  · exact SameSw.refl c
  · split
    · exact sw_waitSilent c
    · exact (sw_pop c).trans (sw_applyAct _ v n _)

theorem sw_send (c : Conn) (v : Verb) (l : Bytes) : SameSw c (c.send v l) := by
  unfold Conn.send; split
  · exact SameSw.refl c
  · exact sw_ev c _

theorem sw_cmd (c : Conn) (v : Verb) (l : Bytes) (n : Nat) : SameSw c (c.cmd v l n).1 := by
  unfold Conn.cmd
  split
  · exact sw_log c _
  · exact (((sw_log c _).trans (sw_send _ v l)).trans (sw_serverTurn _ v n)).trans (sw_log _ _)

theorem sw_ehlo (c : Conn) : SameSw c c.ehlo.1 := by
  unfold Conn.ehlo
  have h := sw_cmd c .ehlo (sb "EHLO " ++ c.localName) 250
  rcases hr : c.cmd .ehlo (sb "EHLO " ++ c.localName) 250 with ⟨c1, r⟩
  rw [hr] at h
  cases r with
  | error e => exact h
  | ok v => simp only []; split <;> exact ⟨h.1, h.2.1, h.2.2⟩

theorem sw_helo (c : Conn) : SameSw c c.helo.1 := by
  unfold Conn.helo
  simp only []
  have h := sw_cmd { c with ext := none } .helo (sb "HELO " ++ c.localName) 250
  rcases hr : Conn.cmd { c with ext := none } .helo (sb "HELO " ++ c.localName) 250 with ⟨c1, r⟩
  rw [hr] at h
  cases r <;> exact ⟨h.1, h.2.1, h.2.2⟩

theorem sw_hello (c : Conn) : SameSw c c.hello.1 := by
  unfold Conn.hello
  split
  · exact SameSw.refl c
  · simp only []
    have h1 := sw_ehlo { c with didHello := true }
    rcases hr : Conn.ehlo { c with didHello := true } with ⟨c1, r⟩
    rw [hr] at h1
    cases r with
    | none => exact ⟨h1.1, h1.2.1, h1.2.2⟩
    | some e =>
      simp only []
      have h2 := sw_helo c1
      rcases hr2 : c1.helo with ⟨c2, r2⟩
      rw [hr2] at h2
      exact ⟨h2.1.trans h1.1, h2.2.1.trans h1.2.1, h2.2.2.trans h1.2.2⟩

theorem sw_quit (c : Conn) : SameSw c c.quit.1 := by
  unfold Conn.quit
  simp only []
  have h1 := sw_hello c
  have h2 := sw_cmd c.hello.1 .quit (sb "QUIT") 221
  rcases hr : c.hello.1.cmd .quit (sb "QUIT") 221 with ⟨c1, r⟩
  rw [hr] at h2
  cases r with
  | error e => exact h1.trans h2
  | ok v => exact (h1.trans h2).trans (sw_close c1)

theorem sw_authLoop {σ} (a : Mech σ) (mech : Bytes) (fuel : Nat) (c : Conn) (st : σ) (r : Except Err (Nat × Bytes)) :
    SameSw c (authLoop a mech fuel c st r).1 := by
  induction fuel generalizing c st r with
  | zero => unfold authLoop; exact SameSw.refl c
  | succ n ih =>
    unfold authLoop
    cases r with
    | error e => exact SameSw.refl c
    | ok v =>
      simp only []
      split
      · have h1 : SameSw c (if mech != sb "XOAUTH2" then (c.cmd .authAbort (sb "*") 501).1 else c) := by
          split
          · exact sw_cmd c _ _ _
          · exact SameSw.refl c
        exact h1.trans (sw_quit _)
      · exact SameSw.refl c
      · exact (sw_cmd c _ _ _).trans (ih _ _ _)

/-- smtp.Client.Auth: the redaction window is closed again when Auth returns — on success, on a 535
    at any step, on a malformed or unexpected challenge, on a disconnect: on EVERY path. -/
theorem authWith_closes_window {σ} (c : Conn) (a : Mech σ) (h : c.authActive = false) :
    (c.authWith a).1.authActive = false := by
  unfold Conn.authWith
  have h1 := sw_hello c
  rcases hr : c.hello with ⟨c1, r⟩
  rw [hr] at h1
  cases r with
  | some e => simp only []; rw [h1.1]; exact h
  | none =>
    simp only []
    have hdone : ∀ (c0 x : Conn), SameSw c0 x → (c0.logAuthData = true → c0.authActive = false) →
        (if !x.logAuthData then { x with authActive := false } else x).authActive = false := by
      intro c0 x hs hl
      split
      · rfl
      · rename_i hx
        have : x.logAuthData = true := by simpa using hx
        rw [hs.1]; exact hl (by rw [← hs.2.1]; exact this)
    -- the state the exchange starts from
    have hstart : (if !c1.logAuthData then { c1 with authActive := true } else c1).logAuthData = true →
        (if !c1.logAuthData then { c1 with authActive := true } else c1).authActive = false := by
      intro hl
      split
      · rename_i hx
        simp only [hx] at hl
        simp at hl hx
        rw [hx] at hl; cases hl
      · rw [h1.1]; exact h
    split
    · exact hdone _ _ (sw_quit _) hstart
    · exact hdone _ _ ((sw_cmd _ _ _ _).trans (sw_authLoop a _ _ _ _ _)) hstart

end GoMail.Smtp
