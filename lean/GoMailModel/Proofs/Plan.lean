import GoMailModel.Proofs.Exec
/-
  Every action of the write plan of a message whose producers do not fail and whose given
  boundaries are valid is `SinkOnly` (and `NoFault`): the generic interpreter theorems apply to
  every such message.
-/
namespace GoMail.Mime
open GoMail

def PW.Ok (p : PW) : Prop := ∀ a ∈ p.acts, SinkOnly a

theorem sinkOnly_noFault (a : WAct) (h : SinkOnly a) : NoFault a := by
  cases a with
  | w pre b => cases pre with
    | none => trivial
    | some v => exact h.1
  | body d b pf => exact h

theorem ok_append (p : PW) (l : List WAct) (h : p.Ok) (hl : ∀ a ∈ l, SinkOnly a) :
    ∀ a ∈ p.acts ++ l, SinkOnly a := by
  intro a ha
  rcases List.mem_append.mp ha with h1 | h1
  · exact h a h1
  · exact hl a h1

theorem foldl_ok {α} (f : PW → α → PW) (l : List α) (p : PW) (h : p.Ok)
    (hf : ∀ p x, p.Ok → (f p x).Ok) : (l.foldl f p).Ok := by
  induction l generalizing p with
  | nil => exact h
  | cons x xs ih => exact ih (f p x) (hf p x h)

theorem str_ok (p : PW) (b : Bytes) (h : p.Ok) : (p.str b).Ok := by
  unfold PW.str PW.Ok
  exact ok_append p _ h (by intro a ha; simp at ha; subst ha; trivial)

theorem header_ok (p : PW) (c : Bool) (k : Bytes) (vs : List Bytes) (h : p.Ok) : (p.header c k vs).Ok := by
  unfold PW.header
  split
  · exact h
  · exact ok_append p _ h (by intro a ha; simp at ha; rcases ha with rfl | rfl <;> trivial)

theorem partHeader_ok (p : PW) (k : Bytes) (vs : List Bytes) (h : p.Ok) : (p.partHeader k vs).Ok := by
  unfold PW.partHeader
  split
  · exact foldl_ok _ vs p h (fun p v hp => str_ok p _ hp)
  · exact header_ok p false k vs h

/-- a `pre` that cannot fault: absent, or "cleared" -/
def GoodPre : Option Bool → Prop
  | none => True
  | some v => v = false

theorem newPart_ok (p : PW) (pre : Option Bool) (hd : HeaderMap) (h : p.Ok) (hp : GoodPre pre) :
    (p.newPart pre hd).Ok := by
  unfold PW.newPart
  split
  · exact h
  · refine ok_append p _ h ?_
    intro a ha; simp at ha; subst ha
    cases pre with
    | none => trivial
    | some v => exact ⟨hp, by simp [crlf]⟩

theorem stopMP_ok (p : PW) (h : p.Ok) : p.stopMP.Ok := by
  unfold PW.stopMP
  split
  · exact h
  · exact ok_append p _ h (by intro a ha; simp at ha; subst ha; trivial)

theorem body_ok (p : PW) (enc : EncLabel) (pr : Producer) (h : p.Ok) (hf : pr.fails = false) :
    (p.body enc pr).Ok := by
  unfold PW.body
  exact ok_append p _ h (by intro a ha; simp at ha; subst ha; exact hf)

theorem w_sinkOnly (pre : Option Bool) (b : Bytes) (hp : GoodPre pre) (hb : b ≠ []) : SinkOnly (.w pre b) := by
  cases pre with
  | none => trivial
  | some v => exact ⟨hp, hb⟩

/-- the boundary handed to startMP is either absent or valid -/
def GoodGiven (b : Bytes) : Prop := b.isEmpty = true ∨ validBoundary b = true

theorem startMP_ok (p : PW) (mt given fresh : Bytes) (h : p.Ok) (hg : GoodGiven given) :
    (p.startMP mt given fresh).1.Ok := by
  have hpre : GoodPre (if given.isEmpty then none else some (!validBoundary given)) := by
    rcases hg with h1 | h1
    · simp [h1, GoodPre]
    · split
      · trivial
      · simp [GoodPre, h1]
  unfold PW.startMP
  simp only []
  split
  · refine ok_append p _ h ?_
    intro a ha
    have := List.mem_singleton.mp ha
    subst this
    exact w_sinkOnly _ _ hpre (by simp [sb])
  · exact newPart_ok p _ _ h hpre

theorem writePart_ok (p : PW) (s : MsgState) (part : Part) (h : p.Ok) (hf : part.prod.fails = false) :
    (p.writePart s part).Ok := by
  unfold PW.writePart
  simp only []
  apply body_ok _ _ _ _ hf
  split
  · apply str_ok
    apply partHeader_ok
    apply partHeader_ok
    split
    · exact h
    · exact partHeader_ok p _ _ h
  · exact newPart_ok p none _ h trivial

theorem addFile_ok (p : PW) (f : FileM) (h : p.Ok) (hf : f.prod.fails = false) : (p.addFile f).Ok := by
  unfold PW.addFile
  simp only []
  apply body_ok _ _ _ _ hf
  split
  · apply str_ok
    exact foldl_ok _ f.header p h (fun p kv hp => partHeader_ok p _ _ hp)
  · exact newPart_ok p none _ h trivial

theorem stageHeaders_ok (s : MsgState) (p : PW) (h : p.Ok) : (stageHeaders s p).Ok := by
  unfold stageHeaders
  simp only []
  apply foldl_ok
  · split
    · apply header_ok
      apply foldl_ok
      · exact foldl_ok _ _ p h (fun p kv hp => header_ok p _ _ _ hp)
      · intro p kv hp
        have := str_ok p (kv.1 ++ [58, 32] ++ kv.2 ++ crlf) hp
        exact this
    · apply foldl_ok
      · exact foldl_ok _ _ p h (fun p kv hp => header_ok p _ _ _ hp)
      · intro p kv hp
        have := str_ok p (kv.1 ++ [58, 32] ++ kv.2 ++ crlf) hp
        exact this
  · intro p kn hp
    split
    · exact header_ok p _ _ _ hp
    · exact hp

/-- producers of the message never fail -/
def NoFailingProducers (s : MsgState) : Prop :=
  (∀ x ∈ s.parts, x.prod.fails = false) ∧ (∀ f ∈ s.embeds, f.prod.fails = false) ∧
  (∀ f ∈ s.attachments, f.prod.fails = false)

/-- the user boundary and the cached boundaries are absent or valid -/
def GoodBoundaries (s : MsgState) : Prop :=
  GoodGiven s.boundary ∧ GoodGiven s.bMixed ∧ GoodGiven s.bRelated ∧ GoodGiven s.bAlt

theorem givenBoundary_good (s : MsgState) (p : PW) (cached : Bytes) (hb : GoodGiven s.boundary)
    (hc : GoodGiven cached) : GoodGiven (givenBoundary s p cached) := by
  unfold givenBoundary
  split
  · assumption
  · split
    · exact Or.inl rfl
    · assumption

theorem openLayer_ok (s : MsgState) (p : PW) (mt cached fresh : Bytes) (h : p.Ok)
    (hb : GoodGiven s.boundary) (hc : GoodGiven cached) : (openLayer s p mt cached fresh).1.Ok := by
  unfold openLayer
  have hm : (markUser s p).Ok := by
    unfold PW.Ok at h ⊢
    simpa using h
  have := startMP_ok (markUser s p) mt (givenBoundary s p cached) fresh hm (givenBoundary_good s p cached hb hc)
  simp only []
  split
  · exact str_ok _ _ this
  · exact this

end GoMail.Mime

namespace GoMail.Mime
open GoMail

theorem stageOpen_ok (s : MsgState) (e : Entropy) (p : PW) (h : p.Ok) (hb : GoodBoundaries s) :
    (stageOpen s e false p).1.Ok := by
  obtain ⟨h0, h1, h2, h3⟩ := hb
  unfold stageOpen
  simp only [Bool.false_eq_true, if_false]
  have k1 : (if hasMixed s then openLayer s p (sb "mixed") s.bMixed e.bMixed else (p, s.bMixed)).1.Ok := by
    split
    · exact openLayer_ok s p _ _ _ h h0 h1
    · exact h
  have k2 : (if hasRelated s then openLayer s (if hasMixed s then openLayer s p (sb "mixed") s.bMixed e.bMixed else (p, s.bMixed)).1
      (sb "related") s.bRelated e.bRelated else ((if hasMixed s then openLayer s p (sb "mixed") s.bMixed e.bMixed else (p, s.bMixed)).1, s.bRelated)).1.Ok := by
    split
    · exact openLayer_ok s _ _ _ _ k1 h0 h2
    · exact k1
  split
  · exact openLayer_ok s _ _ _ _ k2 h0 h3
  · exact k2

theorem ite_stop_ok (c : Bool) (p : PW) (h : p.Ok) : (if c = true then p.stopMP else p).Ok := by
  split
  · exact stopMP_ok p h
  · exact h

theorem stageContent_ok (s : MsgState) (p : PW) (embeds attachments : List FileM) (h : p.Ok)
    (hp : ∀ x ∈ s.parts, x.prod.fails = false) (he : ∀ f ∈ embeds, f.prod.fails = false)
    (ha : ∀ f ∈ attachments, f.prod.fails = false) : (stageContent s false p embeds attachments).Ok := by
  unfold stageContent
  simp only [Bool.false_eq_true, if_false]
  have foldFiles : ∀ (l : List FileM) (p : PW), p.Ok → (∀ f ∈ l, f.prod.fails = false) → (l.foldl PW.addFile p).Ok := by
    intro l
    induction l with
    | nil => intro p hp _; exact hp
    | cons f fs ih =>
      intro p hp hf
      exact ih _ (addFile_ok p f hp (hf f (by simp))) (fun g hg => hf g (by simp [hg]))
  have foldParts : ∀ (l : List Part) (p : PW), p.Ok → (∀ x ∈ l, x.prod.fails = false) →
      (l.foldl (fun p x => p.writePart s x) p).Ok := by
    intro l
    induction l with
    | nil => intro p hp _; exact hp
    | cons x xs ih =>
      intro p hp hf
      exact ih _ (writePart_ok p s x hp (hf x (by simp))) (fun g hg => hf g (by simp [hg]))
  apply ite_stop_ok
  apply foldFiles _ _ _ ha
  apply ite_stop_ok
  apply foldFiles _ _ _ he
  apply ite_stop_ok
  exact foldParts _ p h (fun x hx => hp x (List.mem_filter.mp hx).1)

theorem fileHeaders_prod (s : MsgState) (a : Bool) (f : FileM) : (fileHeaders s a f).prod = f.prod := by
  unfold fileHeaders; rfl

/-- the plan of an unsigned message with well-behaved producers and valid boundaries -/
theorem writeMsg_ok (s : MsgState) (e : Entropy) (hp : NoFailingProducers s) (hb : GoodBoundaries s) :
    (writeMsg s e false false).1.Ok := by
  unfold writeMsg
  simp only []
  have hd : ∀ s : MsgState, (defaultHeaders s e).parts = s.parts ∧ (defaultHeaders s e).embeds = s.embeds ∧
      (defaultHeaders s e).attachments = s.attachments ∧ (defaultHeaders s e).boundary = s.boundary ∧
      (defaultHeaders s e).bMixed = s.bMixed ∧ (defaultHeaders s e).bRelated = s.bRelated ∧
      (defaultHeaders s e).bAlt = s.bAlt := by
    intro s
    exact ⟨rfl, rfl, rfl, rfl, rfl, rfl, rfl⟩
  obtain ⟨d1, d2, d3, d4, d5, d6, d7⟩ := hd s
  have hb' : GoodBoundaries (defaultHeaders s e) := by
    unfold GoodBoundaries; rw [d4, d5, d6, d7]; exact hb
  have h0 : (stageHeaders (defaultHeaders s e) { rawPartHeaders := false }).Ok :=
    stageHeaders_ok _ _ (by intro a ha; cases ha)
  have h1 := stageOpen_ok (defaultHeaders s e) e _ h0 hb'
  obtain ⟨p1, p2, p3⟩ := hp
  apply stageContent_ok
  · exact h1
  · intro x hx
    have : (stageOpen (defaultHeaders s e) e false (stageHeaders (defaultHeaders s e) { rawPartHeaders := false })).2.parts = s.parts := by
      unfold stageOpen; simp only []; exact d1
    rw [this] at hx; exact p1 x hx
  · intro f hf
    obtain ⟨g, hg, rfl⟩ := List.mem_map.mp hf
    rw [fileHeaders_prod]
    have : (stageOpen (defaultHeaders s e) e false (stageHeaders (defaultHeaders s e) { rawPartHeaders := false })).2.embeds = s.embeds := by
      unfold stageOpen; simp only []; exact d2
    rw [this] at hg; exact p2 g hg
  · intro f hf
    obtain ⟨g, hg, rfl⟩ := List.mem_map.mp hf
    rw [fileHeaders_prod]
    have : (stageOpen (defaultHeaders s e) e false (stageHeaders (defaultHeaders s e) { rawPartHeaders := false })).2.attachments = s.attachments := by
      unfold stageOpen; simp only []; exact d3
    rw [this] at hg; exact p3 g hg

end GoMail.Mime
