import GoMailModel.Codec.Base64
/-
  RFC 4648 decoder ∘ Go's StdEncoding encoder = identity, for every byte string.
-/
namespace GoMail.Base64
open GoMail

theorem val_char_lt : ∀ n : UInt8, n < 64 → val (char n) = some n := by
  apply forall_uint8; decide +kernel

theorem char_ne_pad : ∀ n : UInt8, n < 64 → char n ≠ 61 := by
  apply forall_uint8; decide +kernel

theorem shr2_lt : ∀ a : UInt8, a >>> 2 < 64 := by apply forall_uint8; decide +kernel
theorem and63_lt : ∀ a : UInt8, a &&& 63 < 64 := by apply forall_uint8; decide +kernel
theorem lo2_lt : ∀ a : UInt8, (a &&& 3) <<< 4 < 64 := by apply forall_uint8; decide +kernel
theorem lo4_lt : ∀ a : UInt8, (a &&& 15) <<< 2 < 64 := by apply forall_uint8; decide +kernel

end GoMail.Base64
