import GoMailModel.Proofs.Plan
/-
  In the write plan of a message every multipart is opened before the first content producer runs:
  the content stage (body parts, embeds, attachments, closing delimiters, signature part) contains no
  `mw.err = SetBoundary(..)` assignment, the only thing that can take an error back. Hence a failing
  producer is reported for EVERY message, render, boundary state and destination.
-/
namespace GoMail.Mime
open GoMail

def NotClear (a : WAct) : Prop := ∀ b, a ≠ .w (some false) b

/-- `p'` extends `p` by actions none of which clears the error; `F` = a failing producer is among them -/
def PW.Ext (p p' : PW) (F : Prop) : Prop :=
  ∃ Y, p'.acts = p.acts ++ Y ∧ (∀ a ∈ Y, NotClear a) ∧ (F → ∃ d b, WAct.body d b true ∈ Y)

theorem PW.Ext.refl (p : PW) : p.Ext p False := ⟨[], by simp, by simp, by intro h; exact h.elim⟩

theorem PW.Ext.trans {p q r : PW} {F G : Prop} (h1 : p.Ext q F) (h2 : q.Ext r G) : p.Ext r (F ∨ G) := by
  obtain ⟨Y1, e1, n1, f1⟩ := h1
  obtain ⟨Y2, e2, n2, f2⟩ := h2
  refine ⟨Y1 ++ Y2, by rw [e2, e1, List.append_assoc], ?_, ?_⟩
  · intro a ha
    rcases List.mem_append.mp ha with h | h
    · exact n1 a h
    · exact n2 a h
  · intro h
    rcases h with h | h
    · obtain ⟨d, b, hm⟩ := f1 h; exact ⟨d, b, List.mem_append.mpr (Or.inl hm)⟩
    · obtain ⟨d, b, hm⟩ := f2 h; exact ⟨d, b, List.mem_append.mpr (Or.inr hm)⟩

theorem PW.Ext.weaken {p q : PW} {F G : Prop} (h : p.Ext q F) (hg : G → F) : p.Ext q G := by
  obtain ⟨Y, e, n, f⟩ := h
  exact ⟨Y, e, n, fun g => f (hg g)⟩

theorem PW.Ext.trans0 {p q r : PW} (h1 : p.Ext q False) (h2 : q.Ext r False) : p.Ext r False :=
  (PW.Ext.trans h1 h2).weaken (fun h => h.elim)

theorem PW.Ext.transL {p q r : PW} {G : Prop} (h1 : p.Ext q False) (h2 : q.Ext r G) : p.Ext r G :=
  (PW.Ext.trans h1 h2).weaken (fun h => Or.inr h)

theorem ext_of_acts (p p' : PW) (Y : List WAct) (e : p'.acts = p.acts ++ Y) (n : ∀ a ∈ Y, NotClear a) : p.Ext p' False :=
  ⟨Y, e, n, fun h => h.elim⟩

theorem notClear_none (b : Bytes) : NotClear (.w none b) := by intro b' h; cases h
theorem notClear_body (d : Bool) (b : Bytes) (f : Bool) : NotClear (.body d b f) := by intro b' h; cases h

theorem str_ext (p : PW) (b : Bytes) : p.Ext (p.str b) False :=
  ext_of_acts p _ [.w none b] rfl (by intro a ha; simp at ha; subst ha; exact notClear_none b)

theorem foldl_ext {α} (f : PW → α → PW) (l : List α) (p : PW) (hf : ∀ (p : PW) (x : α), p.Ext (f p x) False) :
    p.Ext (l.foldl f p) False := by
  induction l generalizing p with
  | nil => exact PW.Ext.refl p
  | cons x xs ih => exact PW.Ext.trans0 (hf p x) (ih (f p x))

theorem header_ext (p : PW) (c : Bool) (k : Bytes) (vs : List Bytes) : p.Ext (p.header c k vs) False := by
  unfold PW.header
  simp only []
  split
  · exact PW.Ext.refl p
  · exact ext_of_acts p _ _ rfl (by intro a ha; simp at ha; rcases ha with rfl | rfl <;> exact notClear_none _)

theorem partHeader_ext (p : PW) (k : Bytes) (vs : List Bytes) : p.Ext (p.partHeader k vs) False := by
  unfold PW.partHeader
  split
  · exact foldl_ext _ vs p (fun p v => str_ext p _)
  · exact header_ext p false k vs

theorem newPart_none_ext (p : PW) (hd : HeaderMap) : p.Ext (p.newPart none hd) False := by
  unfold PW.newPart
  split
  · exact PW.Ext.refl p
  · exact ext_of_acts p _ _ rfl (by intro a ha; simp at ha; subst ha; exact notClear_none _)

theorem stopMP_ext (p : PW) : p.Ext p.stopMP False := by
  unfold PW.stopMP
  split
  · exact PW.Ext.refl p
  · exact ext_of_acts p _ _ rfl (by intro a ha; simp at ha; subst ha; exact notClear_none _)

theorem body_ext (p : PW) (enc : EncLabel) (pr : Producer) : p.Ext (p.body enc pr) (pr.fails = true) := by
  unfold PW.body
  refine ⟨[.body (p.depth == 0) (Body.encodeBody (cteOf enc) pr.content) pr.fails], rfl, ?_, ?_⟩
  · intro a ha; simp at ha; subst ha; exact notClear_body _ _ _
  · intro h; exact ⟨p.depth == 0, Body.encodeBody (cteOf enc) pr.content, by simp [h]⟩

theorem writePart_ext (p : PW) (s : MsgState) (part : Part) : p.Ext (p.writePart s part) (part.prod.fails = true) := by
  unfold PW.writePart
  simp only []
  refine PW.Ext.transL ?_ (body_ext _ _ _)
  split
  · refine PW.Ext.trans0 (PW.Ext.trans0 (PW.Ext.trans0 ?_ (partHeader_ext _ _ _)) (partHeader_ext _ _ _)) (str_ext _ _)
    split
    · exact PW.Ext.refl p
    · exact partHeader_ext p _ _
  · exact newPart_none_ext p _

theorem addFile_ext (p : PW) (f : FileM) : p.Ext (p.addFile f) (f.prod.fails = true) := by
  unfold PW.addFile
  simp only []
  refine PW.Ext.transL ?_ (body_ext _ _ _)
  split
  · exact PW.Ext.trans0 (foldl_ext _ f.header p (fun p kv => partHeader_ext p _ _)) (str_ext _ _)
  · exact newPart_none_ext p _

/-- a fold of producers: a failing one anywhere in the list shows up -/
theorem foldl_ext_fail {α} (f : PW → α → PW) (fails : α → Prop) (l : List α) (p : PW)
    (hf : ∀ (p : PW) (x : α), p.Ext (f p x) (fails x)) : p.Ext (l.foldl f p) (∃ x ∈ l, fails x) := by
  induction l generalizing p with
  | nil => exact (PW.Ext.refl p).weaken (by intro ⟨x, hx, _⟩; simp at hx)
  | cons x xs ih =>
    refine (PW.Ext.trans (hf p x) (ih (f p x))).weaken ?_
    intro ⟨y, hy, hfy⟩
    rcases List.mem_cons.mp hy with h | h
    · subst h; exact Or.inl hfy
    · exact Or.inr ⟨y, h, hfy⟩

theorem ite_stop_ext (c : Bool) (p : PW) : p.Ext (if c = true then p.stopMP else p) False := by
  split
  · exact stopMP_ext p
  · exact PW.Ext.refl p

/-- the content stage clears nothing and contains the producer of every rendered part and file -/
theorem stageContent_ext (s : MsgState) (outer : Bool) (p : PW) (embeds attachments : List FileM) :
    p.Ext (stageContent s outer p embeds attachments)
      ((∃ x ∈ s.parts.filter (fun x => !x.deleted && !x.smime), x.prod.fails = true) ∨
       (∃ f ∈ embeds, f.prod.fails = true) ∨ (∃ f ∈ attachments, f.prod.fails = true)) := by
  unfold stageContent
  simp only []
  have h1 := foldl_ext_fail (fun p x => p.writePart s x) (fun x => x.prod.fails = true)
    (s.parts.filter (fun x => !x.deleted && !x.smime)) p (fun p x => writePart_ext p s x)
  have h2 := PW.Ext.trans h1 (ite_stop_ext (hasAlt s) _)
  have h3 := PW.Ext.trans h2 (foldl_ext_fail PW.addFile (fun f => f.prod.fails = true) embeds _ (fun p f => addFile_ext p f))
  have h4 := PW.Ext.trans h3 (ite_stop_ext (hasRelated s) _)
  have h5 := PW.Ext.trans h4 (foldl_ext_fail PW.addFile (fun f => f.prod.fails = true) attachments _ (fun p f => addFile_ext p f))
  have h6 := PW.Ext.trans h5 (ite_stop_ext (hasMixed s) _)
  split
  · have h7 := PW.Ext.trans h6 (foldl_ext_fail (fun p x => p.writePart s x) (fun x => x.prod.fails = true)
      (s.parts.filter (·.smime)) _ (fun p x => writePart_ext p s x))
    have h8 := PW.Ext.trans h7 (stopMP_ext _)
    refine h8.weaken ?_
    intro h
    rcases h with h | h | h
    · exact Or.inl (Or.inl (Or.inl (Or.inl (Or.inl (Or.inl (Or.inl h))))))
    · exact Or.inl (Or.inl (Or.inl (Or.inl (Or.inl (Or.inr h)))))
    · exact Or.inl (Or.inl (Or.inl (Or.inr h)))
  · refine h6.weaken ?_
    intro h
    rcases h with h | h | h
    · exact Or.inl (Or.inl (Or.inl (Or.inl (Or.inl h))))
    · exact Or.inl (Or.inl (Or.inl (Or.inr h)))
    · exact Or.inl (Or.inr h)

theorem exec_append (a b : List WAct) (m : MW) : exec (a ++ b) m = exec b (exec a m) := by
  simp [exec, List.foldl_append]

/-- once set, an error survives every action that is not a clearing one; a failing producer sets it -/
theorem exec_err_of_fail (plan : List WAct) (m : MW) (hn : ∀ a ∈ plan, NotClear a)
    (h : m.err = true ∨ ∃ d b, WAct.body d b true ∈ plan) : (exec plan m).err = true := by
  have mono : ∀ (m : MW) (a : WAct), NotClear a → m.err = true → (step m a).err = true := by
    intro m a hna he
    cases a with
    | w pre b =>
      cases pre with
      | none => simp [step, MW.guarded, he]
      | some v =>
        cases v with
        | false => exact absurd rfl (hna b)
        | true => simp [step, MW.guarded, MW.setErr]
    | body d b pf => simp [step, he]
  have sets : ∀ (m : MW) d b, (step m (.body d b true)).err = true := by
    intro m d b
    cases he : m.err with
    | true => simp [step, he]
    | false => cases d <;> simp [step, he, MW.setErr, MW.guarded, MW.put]
  induction plan generalizing m with
  | nil =>
    rcases h with h | ⟨d, b, h⟩
    · exact h
    · cases h
  | cons a as ih =>
    unfold exec; simp only [List.foldl_cons]
    apply ih (step m a) (fun x hx => hn x (by simp [hx]))
    rcases h with h | ⟨d, b, h⟩
    · exact Or.inl (mono m a (hn a (by simp)) h)
    · rcases List.mem_cons.mp h with h | h
      · subst h; exact Or.inl (sets m d b)
      · exact Or.inr ⟨d, b, h⟩

/-- **A failing producer is reported.** Every message state (any boundaries, cached or not, valid or
    not; signed wrapper or not; first render or a later one), every entropy and every destination: if
    the producer of a rendered body part, of an embed or of an attachment fails, WriteTo's error is set
    when the render ends. -/
theorem writeMsg_reports_producer_failure (s : MsgState) (e : Entropy) (outer signing : Bool) (m : MW)
    (hfail : (∃ x ∈ s.parts.filter (fun x => !x.deleted && !x.smime), x.prod.fails = true) ∨
      (∃ f ∈ s.embeds, f.prod.fails = true) ∨ (∃ f ∈ s.attachments, f.prod.fails = true)) :
    (exec (writeMsg s e outer signing).1.acts m).err = true := by
  unfold writeMsg
  simp only []
  generalize hso : stageOpen (defaultHeaders s e) e outer (stageHeaders (defaultHeaders s e) { rawPartHeaders := signing }) = so
  obtain ⟨p, s'⟩ := so
  simp only []
  have hparts : s'.parts = s.parts ∧ s'.embeds = s.embeds ∧ s'.attachments = s.attachments := by
    have := congrArg Prod.snd hso
    simp only [stageOpen, defaultHeaders] at this
    subst this
    exact ⟨rfl, rfl, rfl⟩
  obtain ⟨Y, e1, n1, f1⟩ := stageContent_ext s' outer p (s'.embeds.map (fileHeaders s' false)) (s'.attachments.map (fileHeaders s' true))
  rw [e1, exec_append]
  apply exec_err_of_fail Y _ n1
  refine Or.inr (f1 ?_)
  rcases hfail with h | h | h
  · left; rw [hparts.1]; exact h
  · right; left
    obtain ⟨f, hf, hff⟩ := h
    exact ⟨fileHeaders s' false f, List.mem_map.mpr ⟨f, by rw [hparts.2.1]; exact hf, rfl⟩, by rw [fileHeaders_prod]; exact hff⟩
  · right; right
    obtain ⟨f, hf, hff⟩ := h
    exact ⟨fileHeaders s' true f, List.mem_map.mpr ⟨f, by rw [hparts.2.2]; exact hf, rfl⟩, by rw [fileHeaders_prod]; exact hff⟩

end GoMail.Mime
