import GoMailModel.Proofs.Legal2
import GoMailModel.Smtp.Send
/-
  The envelope as the server sees it: which RCPT command lines a run of the RCPT loop of
  Client.sendSingleMsg puts on the wire. Everything is stated over the trace (the server's view).
-/
namespace GoMail.Smtp
open GoMail

/-- the RCPT command lines the server received, in order -/
def rcptsOf (tr : List Ev) : List Bytes :=
  tr.filterMap (fun e => match e with | .cmd .rcpt l => some l | _ => none)

theorem rcptsOf_append (a b : List Ev) : rcptsOf (a ++ b) = rcptsOf a ++ rcptsOf b := by
  simp [rcptsOf, List.filterMap_append]

/-- an operation that put no RCPT line on the wire -/
def NR (c c' : Conn) : Prop := rcptsOf c'.trace = rcptsOf c.trace

theorem NR.refl (c : Conn) : NR c c := rfl
theorem NR.trans {a b c : Conn} (h1 : NR a b) (h2 : NR b c) : NR a c := Eq.trans h2 h1

theorem nr_log (c : Conn) (r : LogRec) : NR c (c.log r) := by
  unfold NR; rw [log_trace]

theorem nr_ev (c : Conn) (e : Ev) (h : rcptsOf [e] = []) : NR c (c.ev e) := by
  unfold NR Conn.ev
  simp only [rcptsOf_append, h, List.append_nil]

theorem nr_pop (c : Conn) : NR c c.pop.2 := by
  unfold Conn.pop; split <;> rfl

theorem nr_waitSilent (c : Conn) : NR c c.waitSilent.1 := nr_ev c _ rfl

theorem nr_replied (c : Conn) (v : Verb) (n code : Nat) (t : Bytes) : NR c (c.replied v n code t).1 := by
  have h := (replied_facts c v n code t).1
  unfold NR
  rw [h, rcptsOf_append]
  simp [rcptsOf]

theorem nr_applyAct (c : Conn) (v : Verb) (n : Nat) (a : Act) : NR c (c.applyAct v n a).1 := by
  cases a with
  | ok => exact nr_replied c v n _ _
  | reply code text => exact nr_replied c v n code text
  | drop => exact nr_ev c .drop rfl
  | stall => exact nr_ev { c with srvSilent := true } _ rfl
  | garbage => exact nr_ev c .garbage rfl
  | tlsBad => exact nr_ev c .garbage rfl
  | deaf => exact (nr_replied c v n _ _).trans rfl

theorem nr_serverTurn (c : Conn) (v : Verb) (n : Nat) : NR c (c.serverTurn v n).1 := by
  unfold Conn.serverTurn
  split
  · exact NR.refl c
  · split
    · exact nr_waitSilent c
    · exact (nr_pop c).trans (nr_applyAct _ v n _)

/-- the line of a command reaches the wire exactly when the connection is live -/
def reaches (c : Conn) : Bool := c.cliOpen && !(c.srvGone || c.srvSilent)

theorem reaches_iff_live (c : Conn) : reaches c = true ↔ live c := by
  unfold reaches live
  cases c.cliOpen <;> cases c.srvGone <;> cases c.srvSilent <;> simp

/-- **What one command puts on the wire**, RCPT lines only. -/
theorem cmd_rcpts (c : Conn) (v : Verb) (line : Bytes) (n : Nat) :
    rcptsOf (c.cmd v line n).1.trace =
      rcptsOf c.trace ++ (if reaches c then rcptsOf [.cmd v line] else []) := by
  obtain ⟨lt, _, lg, ls⟩ := logC2S_facts c line
  unfold Conn.cmd reaches
  cases ho : c.cliOpen with
  | false =>
    simp only [Bool.not_false, if_true, Bool.false_and, Bool.false_eq_true, if_false, List.append_nil]
    rw [lt]
  | true =>
    simp only [Bool.not_true, Bool.false_eq_true, if_false, Bool.true_and]
    have h3 := (logS2C_facts (((c.logC2S line).send v line).serverTurn v n).1
      (((c.logC2S line).send v line).serverTurn v n).2).1
    rw [h3]
    have h2 : rcptsOf (((c.logC2S line).send v line).serverTurn v n).1.trace = rcptsOf ((c.logC2S line).send v line).trace :=
      nr_serverTurn _ v n
    rw [h2]
    unfold Conn.send
    rw [lg, ls]
    cases hgs : (c.srvGone || c.srvSilent) with
    | true => simp [lt]
    | false => simp [Conn.ev, rcptsOf_append, lt]

/-! ### DSN settings survive commands -/

/-- the two DSN settings of smtp.Client are untouched -/
def DS (c c' : Conn) : Prop := c'.dsnrntype = c.dsnrntype ∧ c'.dsnmrtype = c.dsnmrtype

theorem DS.refl (c : Conn) : DS c c := ⟨rfl, rfl⟩
theorem DS.trans {a b c : Conn} (h1 : DS a b) (h2 : DS b c) : DS a c := ⟨h2.1.trans h1.1, h2.2.trans h1.2⟩

theorem ds_log (c : Conn) (r : LogRec) : DS c (c.log r) := by
  unfold Conn.log; split <;> exact ⟨rfl, rfl⟩
theorem ds_pop (c : Conn) : DS c c.pop.2 := by
  unfold Conn.pop; split <;> exact ⟨rfl, rfl⟩
theorem ds_replied (c : Conn) (v : Verb) (n code : Nat) (t : Bytes) : DS c (c.replied v n code t).1 := by
  unfold Conn.replied
  simp only []
  split <;> split <;> exact ⟨rfl, rfl⟩
theorem ds_applyAct (c : Conn) (v : Verb) (n : Nat) (a : Act) : DS c (c.applyAct v n a).1 := by
  cases a with
  | ok => exact ds_replied c v n _ _
  | reply code text => exact ds_replied c v n code text
  | drop => exact ⟨rfl, rfl⟩
  | stall => exact ⟨rfl, rfl⟩
  | garbage => exact ⟨rfl, rfl⟩
  | tlsBad => exact ⟨rfl, rfl⟩
  | deaf => exact (ds_replied c v n _ _).trans ⟨rfl, rfl⟩
theorem ds_serverTurn (c : Conn) (v : Verb) (n : Nat) : DS c (c.serverTurn v n).1 := by
  unfold Conn.serverTurn
  split
  · exact DS.refl c
  · split
    · exact ⟨rfl, rfl⟩
    · exact (ds_pop c).trans (ds_applyAct _ v n _)
theorem ds_send (c : Conn) (v : Verb) (line : Bytes) : DS c (c.send v line) := by
  unfold Conn.send; split
  · exact DS.refl c
  · exact ⟨rfl, rfl⟩
theorem ds_cmd (c : Conn) (v : Verb) (line : Bytes) (n : Nat) : DS c (c.cmd v line n).1 := by
  unfold Conn.cmd Conn.logC2S Conn.logS2C
  split
  · exact ds_log _ _
  · exact (((ds_log c _).trans (ds_send _ v line)).trans (ds_serverTurn _ v n)).trans (ds_log _ _)

/-- every command leaves the frame fields (the extension table among them) alone and keeps a dead
    connection dead -/
theorem cmd_frame_any (c : Conn) (v : Verb) (line : Bytes) (n : Nat) :
    Frame c (c.cmd v line n).1 ∧ (¬ live c → ¬ live (c.cmd v line n).1) := by
  by_cases hl : live c
  · exact ⟨(cmd_trace_live c v line n hl).2, fun h => absurd hl h⟩
  · obtain ⟨_, f, d, _⟩ := cmd_dead c v line n hl
    exact ⟨f, fun _ => d⟩

theorem rcptLine_congr (c c' : Conn) (to : Bytes) (he : c'.ext = c.ext) (hd : c'.dsnrntype = c.dsnrntype) :
    c'.rcptLine to = c.rcptLine to := by
  unfold Conn.rcptLine Conn.hasExt
  rw [he, hd]

/-- **One Rcpt call.** The server receives the line for that address iff the address is free of control
    characters and the connection is live; the extension table and the DSN settings stay; a dead
    connection stays dead. -/
theorem rcpt_wire (c : Conn) (to : Bytes) :
    rcptsOf (c.rcpt to).1.trace =
      rcptsOf c.trace ++ (if !containsCRLF to && reaches c then [c.rcptLine to] else []) ∧
    (c.rcpt to).1.ext = c.ext ∧ (c.rcpt to).1.dsnrntype = c.dsnrntype ∧
    (¬ live c → ¬ live (c.rcpt to).1) := by
  unfold Conn.rcpt
  cases hc : containsCRLF to with
  | true => simp
  | false =>
    simp only [Bool.false_eq_true, if_false, Bool.not_false, Bool.true_and]
    have h1 := cmd_rcpts c .rcpt (c.rcptLine to) 25
    have h2 := cmd_frame_any c .rcpt (c.rcptLine to) 25
    have h3 := ds_cmd c .rcpt (c.rcptLine to) 25
    rcases hr : c.cmd .rcpt (c.rcptLine to) 25 with ⟨c1, r⟩
    rw [hr] at h1 h2 h3
    have hs : rcptsOf [Ev.cmd .rcpt (c.rcptLine to)] = [c.rcptLine to] := rfl
    rw [hs] at h1
    cases r <;> exact ⟨h1, h2.1.2.2.2.2.1, h3.1, h2.2⟩

/-- the addresses of the list that are sent at all (Rcpt refuses the others locally) -/
def sendable (rs : List Bytes) : List Bytes := rs.filter (fun r => !containsCRLF (envelopeAddress r))

/-- **The RCPT loop on the wire.** If the connection is still live when the loop ends, the server has
    received exactly one RCPT line per sendable occurrence in the list, in the order of the list, each
    with the NOTIFY parameter in force when the loop began - whatever the server answered to each. -/
theorem rcptLoop_wire (esc : Bool) (c : Conn) (rs : List Bytes) (se : SendErr) (bad : Bool)
    (hend : live (rcptLoop esc c rs se bad).1) :
    rcptsOf (rcptLoop esc c rs se bad).1.trace =
      rcptsOf c.trace ++ (sendable rs).map (fun r => c.rcptLine (envelopeAddress r)) := by
  induction rs generalizing c se bad with
  | nil => simp [rcptLoop, sendable]
  | cons r rest ih =>
    unfold rcptLoop at hend ⊢
    obtain ⟨w1, w2, w3, w4⟩ := rcpt_wire c (envelopeAddress r)
    rcases hr : c.rcpt (envelopeAddress r) with ⟨c1, e⟩
    rw [hr] at w1 w2 w3 w4
    simp only [] at w1 w2 w3 w4
    have key : ∀ (se' : SendErr) (bad' : Bool), live (rcptLoop esc c1 rest se' bad').1 →
        rcptsOf (rcptLoop esc c1 rest se' bad').1.trace =
          rcptsOf c.trace ++ (sendable (r :: rest)).map (fun r => c.rcptLine (envelopeAddress r)) := by
      intro se' bad' hl
      have h1 := ih c1 se' bad' hl
      -- the connection was live before this Rcpt: a dead one stays dead through the rest of the loop
      have hlc : live c := by
        apply Classical.byContradiction
        intro hn
        have hd1 := w4 hn
        -- dead c1 stays dead through the loop
        exact absurd hl (rcptLoop_dead esc c1 rest se' bad' hd1)
      have hre : reaches c = true := (reaches_iff_live c).2 hlc
      rw [h1, w1, hre]
      have hm : (sendable rest).map (fun r => c1.rcptLine (envelopeAddress r)) =
          (sendable rest).map (fun r => c.rcptLine (envelopeAddress r)) := by
        apply List.map_congr_left
        intro a _
        exact rcptLine_congr c c1 _ w2 w3
      rw [hm]
      unfold sendable
      cases hc : containsCRLF (envelopeAddress r) <;> simp [List.filter, hc]
    cases e with
    | none => (try rw [hr] at hend); exact key _ _ hend
    | some err => (try rw [hr] at hend); exact key _ _ hend
where
  rcptLoop_dead (esc : Bool) (c : Conn) (rs : List Bytes) (se : SendErr) (bad : Bool) (h : ¬ live c) :
      ¬ live (rcptLoop esc c rs se bad).1 := by
    induction rs generalizing c se bad with
    | nil => simpa [rcptLoop] using h
    | cons r rest ih =>
      unfold rcptLoop
      have w := (rcpt_wire c (envelopeAddress r)).2.2.2 h
      rcases hr : c.rcpt (envelopeAddress r) with ⟨c1, e⟩
      rw [hr] at w
      cases e with
      | none => exact ih c1 se bad w
      | some err => exact ih c1 _ true w

end GoMail.Smtp
