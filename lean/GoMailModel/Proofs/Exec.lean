import GoMailModel.Mime.Exec
/-
  Lemmas about the plan interpreter: byte accounting, error stickiness against a destination that
  has stopped accepting, and the behaviour on a destination that never fails.
-/
namespace GoMail.Mime
open GoMail

/-- the invariant "bytesWritten = bytes the destination accepted" -/
def Counted (m : MW) : Prop := m.n = m.sink.acc.length

theorem room_le (s : Sink) (len : Nat) : s.room len ≤ len := by
  unfold Sink.room; split <;> omega

theorem put_counted (m : MW) (b : Bytes) (h : Counted m) : Counted (m.put b) := by
  unfold Counted MW.put at *
  have := room_le m.sink b.length
  simp [List.length_take, h]; omega

theorem guarded_counted (m : MW) (b : Bytes) (h : Counted m) : Counted (m.guarded b) := by
  unfold MW.guarded; split
  · exact h
  · exact put_counted m b h

theorem step_counted (m : MW) (a : WAct) (h : Counted m) : Counted (step m a) := by
  cases a with
  | w pre b =>
    cases pre with
    | none => exact guarded_counted m b h
    | some v => exact guarded_counted (m.setErr v) b h
  | body direct b pf =>
    simp only [step]
    split
    · exact h
    · have hm : Counted (if pf then m.setErr true else m) := by split <;> exact h
      split
      · exact put_counted _ b hm
      · exact guarded_counted _ b hm

theorem exec_counted (plan : List WAct) (m : MW) (h : Counted m) : Counted (exec plan m) := by
  unfold exec
  induction plan generalizing m with
  | nil => exact h
  | cons a as ih => exact ih (step m a) (step_counted m a h)

/-- the limit of the destination never changes, what it accepted never exceeds it -/
def Within (m : MW) (k : Nat) : Prop := m.sink.limit = some k ∧ m.sink.acc.length ≤ k

theorem put_within (m : MW) (b : Bytes) (k : Nat) (h : Within m k) : Within (m.put b) k := by
  unfold Within MW.put Sink.room at *
  obtain ⟨h1, h2⟩ := h
  simp [h1, List.length_take]; omega

theorem guarded_within (m : MW) (b : Bytes) (k : Nat) (h : Within m k) : Within (m.guarded b) k := by
  unfold MW.guarded; split
  · exact h
  · exact put_within m b k h

theorem step_within (m : MW) (a : WAct) (k : Nat) (h : Within m k) : Within (step m a) k := by
  cases a with
  | w pre b =>
    cases pre with
    | none => exact guarded_within m b k h
    | some v => exact guarded_within (m.setErr v) b k h
  | body direct b pf =>
    simp only [step]
    split
    · exact h
    · have hm : Within (if pf then m.setErr true else m) k := by split <;> exact h
      split
      · exact put_within _ b k hm
      · exact guarded_within _ b k hm

theorem exec_within (plan : List WAct) (m : MW) (k : Nat) (h : Within m k) : Within (exec plan m) k := by
  unfold exec
  induction plan generalizing m with
  | nil => exact h
  | cons a as ih => exact ih (step m a) (step_within m a k h)

/-! ### a destination that fails: sink-only regime

  `SinkOnly a`: the action cannot set the error for a reason other than the destination (no failing
  producer, no invalid boundary), and an assignment `mw.err = nil` (startMP with a valid boundary)
  is followed, in the same action, by a non-empty write. -/

def SinkOnly : WAct → Prop
  | .w none _ => True
  | .w (some v) b => v = false ∧ b ≠ []
  | .body _ _ pf => pf = false

/-- "the error is set exactly when the destination has refused something", plus: while no error is
    set, everything planned so far has been accepted -/
structure FailInv (m : MW) (k : Nat) (planned : Bytes) : Prop where
  within : Within m k
  acc_prefix : m.sink.acc = planned.take m.sink.acc.length
  noerr_all : m.err = false → m.sink.acc = planned
  err_full : m.err = true → m.sink.acc.length = k ∧ k < planned.length

theorem put_failinv (m : MW) (b : Bytes) (k : Nat) (planned : Bytes) (h : FailInv m k planned)
    (hne : m.err = false) : FailInv (m.put b) k (planned ++ b) := by
  have hall := h.noerr_all hne
  obtain ⟨hl, hle⟩ := h.within
  have hw := put_within m b k h.within
  refine ⟨hw, ?_, ?_, ?_⟩
  · simp only [MW.put, Sink.room, hl, hall, List.length_append, List.length_take]
    rw [List.take_append]
    have e1 : List.take (planned.length + min (min b.length (k - planned.length)) b.length) planned = planned :=
      List.take_of_length_le (by omega)
    rw [e1]
    congr 1
    congr 1
    omega
  · intro he
    simp only [MW.put, Sink.room, hl, hne, Bool.false_or, decide_eq_false_iff_not, Nat.not_lt] at he ⊢
    rw [hall]
    congr 1
    exact List.take_of_length_le (by rw [hall] at he; omega)
  · intro he
    simp only [MW.put, Sink.room, hl, hne, Bool.false_or, decide_eq_true_eq] at he ⊢
    rw [hall] at he hle ⊢
    simp only [List.length_append, List.length_take]
    omega

theorem step_failinv (m : MW) (a : WAct) (k : Nat) (planned : Bytes) (hs : SinkOnly a)
    (h : FailInv m k planned) : FailInv (step m a) k (planned ++ a.bytes) := by
  -- once the destination is full, every non-empty guarded or direct write fails again
  have stuck : ∀ (m : MW) (b : Bytes), FailInv m k planned → m.err = true → FailInv m k (planned ++ b) := by
    intro m b h he
    obtain ⟨h1, h2⟩ := h.err_full he
    refine ⟨h.within, ?_, ?_, ?_⟩
    · rw [List.take_append_of_le_length (by omega)]; exact h.acc_prefix
    · intro h'; rw [he] at h'; cases h'
    · intro _; exact ⟨h1, by simp; omega⟩
  have refail : ∀ (m : MW) (b : Bytes), FailInv m k planned → m.err = true → b ≠ [] →
      FailInv ((m.setErr false).put b) k (planned ++ b) := by
    intro m b h he hb
    obtain ⟨h1, h2⟩ := h.err_full he
    obtain ⟨hl, _⟩ := h.within
    have hpos : 0 < b.length := List.length_pos_iff.mpr hb
    refine ⟨?_, ?_, ?_, ?_⟩
    · exact put_within (m.setErr false) b k h.within
    · simp only [MW.put, MW.setErr, Sink.room, hl, h1, Nat.sub_self, Nat.min_zero, List.take_zero,
        List.append_nil]
      rw [List.take_append_of_le_length (by omega)]
      have := h.acc_prefix; rw [h1] at this; exact this
    · intro h'
      simp only [MW.put, MW.setErr, Sink.room, hl, h1, Nat.sub_self, Nat.min_zero, Bool.false_or,
        decide_eq_false_iff_not] at h'
      omega
    · intro _
      have hacc : ((m.setErr false).put b).sink.acc = m.sink.acc := by
        simp [MW.put, MW.setErr, Sink.room, hl, h1]
      rw [hacc]
      exact ⟨h1, by simp only [List.length_append]; omega⟩
  cases a with
  | w pre b =>
    cases pre with
    | none =>
      simp only [step, WAct.bytes, MW.guarded]
      cases he : m.err with
      | true => simpa [he] using stuck m b h he
      | false => simpa [he] using put_failinv m b k planned h he
    | some v =>
      obtain ⟨hv, hb⟩ := hs
      subst hv
      simp only [step, WAct.bytes, MW.guarded, MW.setErr]
      cases he : m.err with
      | true => exact refail m b h he hb
      | false =>
        have : ({ m with err := false } : MW) = m := by
          cases m with
          | mk n err sink => simp only [] at he; subst he; rfl
        simp only [this]
        exact put_failinv m b k planned h he
  | body direct b pf =>
    have hpf : pf = false := hs
    subst hpf
    simp only [step, WAct.bytes, MW.guarded]
    cases he : m.err with
    | true => simpa [he] using stuck m b h he
    | false =>
      cases direct <;> simpa [he] using put_failinv m b k planned h he

theorem exec_failinv (plan : List WAct) (m : MW) (k : Nat) (planned : Bytes)
    (hs : ∀ a ∈ plan, SinkOnly a) (h : FailInv m k planned) :
    FailInv (exec plan m) k (planned ++ planBytes plan) := by
  unfold exec
  induction plan generalizing m planned with
  | nil => simpa [planBytes] using h
  | cons a as ih =>
    have h1 := step_failinv m a k planned (hs a (by simp)) h
    have := ih (step m a) (planned ++ a.bytes) (fun x hx => hs x (by simp [hx])) h1
    simpa [planBytes, List.append_assoc] using this

/-! ### a destination that never fails -/

def NoFault : WAct → Prop
  | .w none _ => True
  | .w (some v) _ => v = false
  | .body _ _ pf => pf = false

theorem exec_unlimited (plan : List WAct) (m : MW) (hs : ∀ a ∈ plan, NoFault a)
    (hl : m.sink.limit = none) (he : m.err = false) :
    (exec plan m).err = false ∧ (exec plan m).sink.acc = m.sink.acc ++ planBytes plan ∧
      (exec plan m).n = m.n + (planBytes plan).length := by
  unfold exec
  induction plan generalizing m with
  | nil => simp [planBytes, he]
  | cons a as ih =>
    have key : (step m a).err = false ∧ (step m a).sink.limit = none ∧
        (step m a).sink.acc = m.sink.acc ++ a.bytes ∧ (step m a).n = m.n + a.bytes.length := by
      have hput : ∀ b : Bytes, (m.put b).err = false ∧ (m.put b).sink.limit = none ∧
          (m.put b).sink.acc = m.sink.acc ++ b ∧ (m.put b).n = m.n + b.length := by
        intro b; simp [MW.put, Sink.room, hl, he]
      cases a with
      | w pre b =>
        cases pre with
        | none => simpa [step, MW.guarded, he, WAct.bytes] using hput b
        | some v =>
          have hv : v = false := hs (.w (some v) b) (by simp)
          subst hv
          have : (m.setErr false) = m := by
            cases m with
            | mk n err sink => simp only [] at he; subst he; rfl
          simpa [step, MW.guarded, this, he, WAct.bytes] using hput b
      | body direct b pf =>
        have hpf : pf = false := hs (.body direct b pf) (by simp)
        subst hpf
        cases direct <;> simpa [step, MW.guarded, he, WAct.bytes] using hput b
    obtain ⟨k1, k2, k3, k4⟩ := key
    have := ih (step m a) (fun x hx => hs x (by simp [hx])) k2 k1
    simp only [List.foldl_cons]
    refine ⟨this.1, ?_, ?_⟩
    · rw [this.2.1, k3]; simp [planBytes, List.append_assoc]
    · rw [this.2.2, k4]; simp [planBytes]; omega

end GoMail.Mime
