import GoMailModel.Smtp.Judge
/-
  Session legality, part 1: what one command does to the connection and to the judge.
-/
namespace GoMail.Smtp
open GoMail

theorem judge_snoc (t : List Ev) (e : Ev) : judge (t ++ [e]) = (judge t).step e := by
  simp [judge, List.foldl_append]

theorem judge_ev (c : Conn) (e : Ev) : judge (c.ev e).trace = (judge c.trace).step e := judge_snoc _ _

/-- the client may still talk to the server -/
def live (c : Conn) : Prop := c.cliOpen = true ∧ c.srvGone = false ∧ c.srvSilent = false

/-- fields no command touches -/
def Frame (c c' : Conn) : Prop :=
  c'.cliOpen = c.cliOpen ∧ c'.didHello = c.didHello ∧ c'.helloErr = c.helloErr ∧ c'.isConnected = c.isConnected ∧
  c'.ext = c.ext ∧ c'.localName = c.localName

theorem Frame.refl (c : Conn) : Frame c c := ⟨rfl, rfl, rfl, rfl, rfl, rfl⟩

theorem log_trace (c : Conn) (r : LogRec) : (c.log r).trace = c.trace := by unfold Conn.log; split <;> rfl
theorem log_frame (c : Conn) (r : LogRec) : Frame c (c.log r) ∧ (c.log r).srvGone = c.srvGone ∧
    (c.log r).srvSilent = c.srvSilent ∧ (c.log r).script = c.script ∧ (c.log r).caps = c.caps ∧ (c.log r).armed = c.armed := by
  unfold Conn.log; split <;> simp [Frame]

theorem logS2C_facts (c : Conn) (r : Except Err (Nat × Bytes)) :
    (c.logS2C r).trace = c.trace ∧ Frame c (c.logS2C r) ∧ (c.logS2C r).srvGone = c.srvGone ∧ (c.logS2C r).srvSilent = c.srvSilent := by
  unfold Conn.logS2C
  exact ⟨log_trace _ _, (log_frame _ _).1, (log_frame _ _).2.1, (log_frame _ _).2.2.1⟩

theorem logC2S_facts (c : Conn) (l : Bytes) :
    (c.logC2S l).trace = c.trace ∧ Frame c (c.logC2S l) ∧ (c.logC2S l).srvGone = c.srvGone ∧ (c.logC2S l).srvSilent = c.srvSilent := by
  unfold Conn.logC2S
  exact ⟨log_trace _ _, (log_frame _ _).1, (log_frame _ _).2.1, (log_frame _ _).2.2.1⟩

theorem Frame.trans {a b c : Conn} (h1 : Frame a b) (h2 : Frame b c) : Frame a c :=
  ⟨h2.1.trans h1.1, h2.2.1.trans h1.2.1, h2.2.2.1.trans h1.2.2.1, h2.2.2.2.1.trans h1.2.2.2.1,
   h2.2.2.2.2.1.trans h1.2.2.2.2.1, h2.2.2.2.2.2.trans h1.2.2.2.2.2⟩

/-- the reply of a live server to command `v` -/
theorem replied_facts (c : Conn) (v : Verb) (n code : Nat) (text : Bytes) :
    (c.replied v n code text).1.trace = c.trace ++ [.reply code] ∧
    (c.replied v n code text).2 = (if codeMatches n code then .ok (code, text) else .error (.reply code text)) ∧
    (c.replied v n code text).1.srvGone = ((v == .quit && code == 221) || c.srvGone) ∧
    (c.replied v n code text).1.srvSilent = c.srvSilent ∧
    Frame c (c.replied v n code text).1 := by
  unfold Conn.replied
  simp only []
  refine ⟨?_, ?_, ?_, ?_, ?_⟩
  · split <;> split <;> rfl
  · trivial
  · split <;> split <;> simp_all [Conn.ev]
  · split <;> split <;> rfl
  · split <;> split <;> exact ⟨rfl, rfl, rfl, rfl, rfl, rfl⟩

/-- the four things a live server can do when it is its turn -/
inductive SrvDid (c c' : Conn) (n : Nat) (r : Except Err (Nat × Bytes)) (v : Verb) : Prop
  | reply (code : Nat) (text : Bytes) :
      r = (if codeMatches n code then .ok (code, text) else .error (.reply code text)) →
      c'.trace = c.trace ++ [.reply code] → c'.srvGone = (v == .quit && code == 221) → SrvDid c c' n r v
  | garbage : r = .error .proto → c'.trace = c.trace ++ [.garbage] → c'.srvGone = false → c'.srvSilent = false → SrvDid c c' n r v
  | drop : r = .error .eof → c'.trace = c.trace ++ [.drop] → c'.srvGone = true → SrvDid c c' n r v
  | stall (a : Bool) : (r = .error .timeout ∨ r = .error .blocked) → c'.trace = c.trace ++ [.stall a] → c'.srvSilent = true → SrvDid c c' n r v

theorem serverTurn_live (c : Conn) (v : Verb) (n : Nat) (hg : c.srvGone = false) (hs : c.srvSilent = false) :
    SrvDid c (c.serverTurn v n).1 n (c.serverTurn v n).2 v ∧ Frame c (c.serverTurn v n).1 := by
  unfold Conn.serverTurn
  simp only [hg, hs, Bool.false_eq_true, if_false]
  have hp : c.pop.2.trace = c.trace ∧ c.pop.2.srvGone = false ∧ c.pop.2.srvSilent = false ∧ Frame c c.pop.2 ∧ c.pop.2.caps = c.caps := by
    unfold Conn.pop; split
    · exact ⟨rfl, hg, hs, Frame.refl c, rfl⟩
    · exact ⟨rfl, hg, hs, ⟨rfl, rfl, rfl, rfl, rfl, rfl⟩, rfl⟩
  obtain ⟨pt, pg, ps, pf, _⟩ := hp
  have tr : ∀ {x : Conn}, Frame c.pop.2 x → Frame c x := fun h =>
    ⟨h.1.trans pf.1, h.2.1.trans pf.2.1, h.2.2.1.trans pf.2.2.1, h.2.2.2.1.trans pf.2.2.2.1, h.2.2.2.2.1.trans pf.2.2.2.2.1, h.2.2.2.2.2.trans pf.2.2.2.2.2⟩
  cases ha : c.pop.1 with
  | ok =>
    simp only [Conn.applyAct]
    obtain ⟨r1, r2, r3, r4, r5⟩ := replied_facts c.pop.2 v n (defaultReply c.pop.2.caps v).1 (defaultReply c.pop.2.caps v).2
    exact ⟨SrvDid.reply _ _ r2 (by rw [r1, pt]) (by rw [r3, pg]; simp), tr r5⟩
  | reply code text =>
    simp only [Conn.applyAct]
    obtain ⟨r1, r2, r3, r4, r5⟩ := replied_facts c.pop.2 v n code text
    exact ⟨SrvDid.reply _ _ r2 (by rw [r1, pt]) (by rw [r3, pg]; simp), tr r5⟩
  | drop => exact ⟨SrvDid.drop rfl (by simp [Conn.applyAct, Conn.ev, pt]) rfl, tr ⟨rfl, rfl, rfl, rfl, rfl, rfl⟩⟩
  | stall =>
    refine ⟨SrvDid.stall c.pop.2.armed ?_ (by simp [Conn.applyAct, Conn.waitSilent, Conn.ev, pt]) rfl, tr ⟨rfl, rfl, rfl, rfl, rfl, rfl⟩⟩
    simp only [Conn.applyAct, Conn.waitSilent]
    cases c.pop.2.armed <;> simp
  | garbage => exact ⟨SrvDid.garbage rfl (by simp [Conn.applyAct, Conn.ev, pt]) pg ps, tr ⟨rfl, rfl, rfl, rfl, rfl, rfl⟩⟩
  | tlsBad => exact ⟨SrvDid.garbage rfl (by simp [Conn.applyAct, Conn.ev, pt]) pg ps, tr ⟨rfl, rfl, rfl, rfl, rfl, rfl⟩⟩
  | deaf =>
    obtain ⟨r1, r2, r3, r4, r5⟩ := replied_facts c.pop.2 v n (defaultReply c.pop.2.caps v).1 (defaultReply c.pop.2.caps v).2
    refine ⟨SrvDid.reply _ _ r2 (by simp only [Conn.applyAct]; rw [r1, pt]) (by simp only [Conn.applyAct]; rw [r3, pg]; simp), ?_⟩
    simp only [Conn.applyAct]
    exact tr r5

end GoMail.Smtp
