import GoMailModel.Proofs.Tree
/-
  A render leaves the Msg in a state that the next render does not change any more (C11):
  generic headers (Date, Message-ID, MIME-Version, User-Agent / X-Mailer), the boundary cache and the
  per-file header cache are fixpoints. Part 1: association lists and header maps.
-/
namespace GoMail.Mime
open GoMail

/-! ### assocSet / assocGet -/

theorem beq_bytes_eq {a b : Bytes} (h : (a == b) = true) : a = b := by simpa using h

def AllVal {β} (l : List (Bytes × β)) (k : Bytes) (v : β) : Prop := ∀ kv ∈ l, (kv.1 == k) = true → kv = (k, v)
def HasKey {β} (l : List (Bytes × β)) (k : Bytes) : Prop := l.any (·.1 == k) = true

theorem assocSet_spec {β} (l : List (Bytes × β)) (k : Bytes) (v : β) :
    AllVal (assocSet l k v) k v ∧ HasKey (assocSet l k v) k := by
  unfold assocSet
  split
  · rename_i h
    constructor
    · intro kv hkv hk
      obtain ⟨x, hx, rfl⟩ := List.mem_map.mp hkv
      by_cases hxk : (x.1 == k) = true
      · simp [hxk]
      · simp only [hxk] at hk ⊢
        exact absurd hk hxk
    · unfold HasKey
      simp only [List.any_eq_true] at h ⊢
      obtain ⟨x, hx, hxk⟩ := h
      exact ⟨(k, v), List.mem_map.mpr ⟨x, hx, by simp [hxk]⟩, by simp⟩
  · rename_i h
    constructor
    · intro kv hkv hk
      rcases List.mem_append.mp hkv with h1 | h1
      · have : l.any (·.1 == k) = true := List.any_eq_true.mpr ⟨kv, h1, hk⟩
        exact absurd this h
      · simpa using h1
    · unfold HasKey; simp

theorem assocSet_fix {β} (l : List (Bytes × β)) (k : Bytes) (v : β) (ha : AllVal l k v) (hk : HasKey l k) :
    assocSet l k v = l := by
  unfold assocSet
  unfold HasKey at hk
  simp only [hk, if_true]
  conv => rhs; rw [← List.map_id l]
  apply List.map_congr_left
  intro kv hkv
  by_cases h : (kv.1 == k) = true
  · simp [h, ha kv hkv h]
  · simp [h]

theorem assocSet_other {β} (l : List (Bytes × β)) (k k' : Bytes) (v v' : β) (hne : (k' == k) = false)
    (ha : AllVal l k v) (hk : HasKey l k) : AllVal (assocSet l k' v') k v ∧ HasKey (assocSet l k' v') k := by
  unfold assocSet
  split
  · constructor
    · intro kv hkv hkk
      obtain ⟨x, hx, rfl⟩ := List.mem_map.mp hkv
      by_cases hxk : (x.1 == k') = true
      · simp only [hxk, if_true] at hkk ⊢
        rw [hne] at hkk; cases hkk
      · simp only [hxk] at hkk ⊢
        exact ha x hx hkk
    · unfold HasKey at hk ⊢
      simp only [List.any_eq_true] at hk ⊢
      obtain ⟨x, hx, hxk⟩ := hk
      refine ⟨x, List.mem_map.mpr ⟨x, hx, ?_⟩, hxk⟩
      have : (x.1 == k') = false := by
        have e := beq_bytes_eq hxk
        rw [e]
        cases h : (k == k') with
        | false => rfl
        | true => have := beq_bytes_eq h; subst this; simp at hne
      simp [this]
  · constructor
    · intro kv hkv hkk
      rcases List.mem_append.mp hkv with h1 | h1
      · exact ha kv h1 hkk
      · have : kv = (k', v') := by simpa using h1
        subst this
        rw [hne] at hkk; cases hkk
    · unfold HasKey at hk ⊢
      simp only [List.any_append, hk, Bool.true_or]

theorem assocGet_isSome_iff {β} (l : List (Bytes × β)) (k : Bytes) : (assocGet l k).isSome = l.any (·.1 == k) := by
  unfold assocGet
  induction l with
  | nil => rfl
  | cons x xs ih =>
    simp only [List.find?_cons, List.any_cons]
    cases h : (x.1 == k) <;> simp [ih]

/-! ### the generic header defaults are set once -/

theorem key_ne (a b : String) (h : (sb a == sb b) = false) : (sb a == sb b) = false := h

/-- the state of genHeader after a render is not changed by the defaults of the next render -/
theorem defaultGen_idem (s : MsgState) (e1 e2 : Entropy) :
    defaultGen { s with gen := defaultGen s e1 } e2 = defaultGen s e1 := by
  -- name the stages of the first render
  generalize hg0 : s.gen = g0
  have dDate : (sb "Date" == sb "Message-ID") = false := by decide
  have dDateM : (sb "Date" == sb "MIME-Version") = false := by decide
  have dDateU : (sb "Date" == sb "User-Agent") = false := by decide
  have dDateX : (sb "Date" == sb "X-Mailer") = false := by decide
  have dMidM : (sb "Message-ID" == sb "MIME-Version") = false := by decide
  have dMidU : (sb "Message-ID" == sb "User-Agent") = false := by decide
  have dMidX : (sb "Message-ID" == sb "X-Mailer") = false := by decide
  have dMU : (sb "MIME-Version" == sb "User-Agent") = false := by decide
  have dMX : (sb "MIME-Version" == sb "X-Mailer") = false := by decide
  have dUX : (sb "User-Agent" == sb "X-Mailer") = false := by decide
  have dUM : (sb "User-Agent" == sb "MIME-Version") = false := by decide
  have dXM : (sb "X-Mailer" == sb "MIME-Version") = false := by decide
  have dXU : (sb "X-Mailer" == sb "User-Agent") = false := by decide
  have dMD : (sb "Message-ID" == sb "Date") = false := by decide
  have dMvD : (sb "MIME-Version" == sb "Date") = false := by decide
  have dMvMid : (sb "MIME-Version" == sb "Message-ID") = false := by decide
  have dUD : (sb "User-Agent" == sb "Date") = false := by decide
  have dUMid : (sb "User-Agent" == sb "Message-ID") = false := by decide
  have dXD : (sb "X-Mailer" == sb "Date") = false := by decide
  have dXMid : (sb "X-Mailer" == sb "Message-ID") = false := by decide
  -- presence facts after the first render
  have hasDate1 : ∀ g : List (Bytes × List Bytes), HasKey (if (assocGet g (sb "Date")).isSome then g else assocSet g (sb "Date") [e1.date]) (sb "Date") := by
    intro g; split
    · rename_i h; unfold HasKey; rw [← assocGet_isSome_iff]; exact h
    · exact (assocSet_spec g _ _).2
  have hasMid1 : ∀ g : List (Bytes × List Bytes), HasKey (if (assocGet g (sb "Message-ID")).isSome then g else assocSet g (sb "Message-ID") [e1.msgid]) (sb "Message-ID") := by
    intro g; split
    · rename_i h; unfold HasKey; rw [← assocGet_isSome_iff]; exact h
    · exact (assocSet_spec g _ _).2
  -- HasKey is preserved by assocSet of any key
  have keep : ∀ (g : List (Bytes × List Bytes)) (k k' : Bytes) (v : List Bytes), HasKey g k → HasKey (assocSet g k' v) k := by
    intro g k k' v h
    unfold assocSet
    split
    · unfold HasKey at h ⊢
      simp only [List.any_eq_true] at h ⊢
      obtain ⟨x, hx, hxk⟩ := h
      by_cases hxk' : (x.1 == k') = true
      · refine ⟨(k', v), List.mem_map.mpr ⟨x, hx, by simp [hxk']⟩, ?_⟩
        have e1' := beq_bytes_eq hxk; have e2' := beq_bytes_eq hxk'
        simp [← e1', ← e2']
      · exact ⟨x, List.mem_map.mpr ⟨x, hx, by simp [hxk']⟩, hxk⟩
    · unfold HasKey at h ⊢
      simp only [List.any_append, h, Bool.true_or]
  unfold defaultGen
  simp only [hg0, encodeString]
  generalize EncodedWord.wordEncode (encoderOf s.encoding) s.charset s.mimever = mv
  generalize EncodedWord.wordEncode (encoderOf s.encoding) s.charset userAgent = ua
  -- abbreviations for the first render's stages
  generalize hgd : (if (assocGet g0 (sb "Date")).isSome then g0 else assocSet g0 (sb "Date") [e1.date]) = gd
  have hD : HasKey gd (sb "Date") := by rw [← hgd]; exact hasDate1 g0
  generalize hgm : (if (assocGet gd (sb "Message-ID")).isSome then gd else assocSet gd (sb "Message-ID") [e1.msgid]) = gm
  have hM : HasKey gm (sb "Message-ID") := by rw [← hgm]; exact hasMid1 gd
  have hD2 : HasKey gm (sb "Date") := by
    rw [← hgm]; split
    · exact hD
    · exact keep gd _ _ _ hD
  generalize hgv : assocSet gm (sb "MIME-Version") [mv] = gv
  have hV := assocSet_spec gm (sb "MIME-Version") [mv]
  rw [hgv] at hV
  have hD3 : HasKey gv (sb "Date") := by rw [← hgv]; exact keep gm _ _ _ hD2
  have hM3 : HasKey gv (sb "Message-ID") := by rw [← hgv]; exact keep gm _ _ _ hM
  -- the final list G of the first render, by cases on the User-Agent logic
  by_cases hua : s.noDefaultUA = true
  · simp only [hua, if_true]
    have e1' : (assocGet gv (sb "Date")).isSome = true := by rw [assocGet_isSome_iff]; exact hD3
    have e2' : (assocGet gv (sb "Message-ID")).isSome = true := by rw [assocGet_isSome_iff]; exact hM3
    simp only [e1', e2', if_true]
    exact assocSet_fix gv _ _ hV.1 hV.2
  · simp only [hua, Bool.false_eq_true, if_false]
    by_cases hpres : ((assocGet gv (sb "User-Agent")).isSome || (assocGet gv (sb "X-Mailer")).isSome) = true
    · simp only [hpres, if_true]
      have e1' : (assocGet gv (sb "Date")).isSome = true := by rw [assocGet_isSome_iff]; exact hD3
      have e2' : (assocGet gv (sb "Message-ID")).isSome = true := by rw [assocGet_isSome_iff]; exact hM3
      simp only [e1', e2', if_true]
      rw [assocSet_fix gv _ _ hV.1 hV.2]
      simp only [hpres, if_true]
    · simp only [hpres, Bool.false_eq_true, if_false]
      generalize hgu : assocSet gv (sb "User-Agent") [ua] = gu
      generalize hgx : assocSet gu (sb "X-Mailer") [ua] = gx
      have hDu : HasKey gx (sb "Date") := by rw [← hgx, ← hgu]; exact keep _ _ _ _ (keep _ _ _ _ hD3)
      have hMu : HasKey gx (sb "Message-ID") := by rw [← hgx, ← hgu]; exact keep _ _ _ _ (keep _ _ _ _ hM3)
      have hVu : AllVal gx (sb "MIME-Version") [mv] ∧ HasKey gx (sb "MIME-Version") := by
        rw [← hgx, ← hgu]
        have a := assocSet_other gv (sb "MIME-Version") (sb "User-Agent") [mv] [ua] dUM hV.1 hV.2
        exact assocSet_other _ (sb "MIME-Version") (sb "X-Mailer") _ [ua] dXM a.1 a.2
      have hUu : HasKey gx (sb "User-Agent") := by
        rw [← hgx, ← hgu]; exact keep _ _ _ _ (assocSet_spec gv _ _).2
      have e1' : (assocGet gx (sb "Date")).isSome = true := by rw [assocGet_isSome_iff]; exact hDu
      have e2' : (assocGet gx (sb "Message-ID")).isSome = true := by rw [assocGet_isSome_iff]; exact hMu
      simp only [e1', e2', if_true]
      rw [assocSet_fix gx _ _ hVu.1 hVu.2]
      have e3' : (assocGet gx (sb "User-Agent")).isSome = true := by rw [assocGet_isSome_iff]; exact hUu
      simp only [e3', Bool.true_or, if_true]

/-! ### header maps (sorted association lists, textproto.MIMEHeader as CreatePart walks it) -/

theorem bytesLt_irrefl : ∀ a : Bytes, bytesLt a a = false
  | [] => rfl
  | x :: xs => by simp [bytesLt, bytesLt_irrefl xs]

theorem bytesLt_asymm : ∀ a b : Bytes, bytesLt a b = true → bytesLt b a = false
  | [], [] => by simp [bytesLt]
  | [], _ :: _ => by simp [bytesLt]
  | _ :: _, [] => by simp [bytesLt]
  | x :: xs, y :: ys => by
    simp only [bytesLt, Bool.or_eq_true, Bool.and_eq_true, decide_eq_true_eq, beq_iff_eq, Bool.or_eq_false_iff,
      decide_eq_false_iff_not, Bool.and_eq_false_iff]
    intro h
    rcases h with h | ⟨h1, h2⟩
    · refine ⟨UInt8.lt_asymm h, Or.inl ?_⟩
      cases hyx : (y == x) with
      | false => rfl
      | true => have e : y = x := by simpa using hyx
                subst e; exact absurd h (UInt8.lt_irrefl _)
    · subst h1
      exact ⟨UInt8.lt_irrefl _, Or.inr (bytesLt_asymm xs ys h2)⟩

theorem bytesLt_trans : ∀ a b c : Bytes, bytesLt a b = true → bytesLt b c = true → bytesLt a c = true
  | [], [], _ => by simp [bytesLt]
  | [], _ :: _, [] => by simp [bytesLt]
  | [], _ :: _, _ :: _ => by simp [bytesLt]
  | _ :: _, [], _ => by simp [bytesLt]
  | _ :: _, _ :: _, [] => by simp [bytesLt]
  | x :: xs, y :: ys, z :: zs => by
    simp only [bytesLt, Bool.or_eq_true, Bool.and_eq_true, decide_eq_true_eq, beq_iff_eq]
    intro h1 h2
    rcases h1 with h1 | ⟨e1, t1⟩ <;> rcases h2 with h2 | ⟨e2, t2⟩
    · exact Or.inl (UInt8.lt_trans h1 h2)
    · subst e2; exact Or.inl h1
    · subst e1; exact Or.inl h2
    · subst e1; subst e2; exact Or.inr ⟨rfl, bytesLt_trans xs ys zs t1 t2⟩

theorem bytesLt_total : ∀ a b : Bytes, a ≠ b → bytesLt a b = true ∨ bytesLt b a = true
  | [], [] => by simp
  | [], _ :: _ => by simp [bytesLt]
  | _ :: _, [] => by simp [bytesLt]
  | x :: xs, y :: ys => by
    intro hne
    simp only [bytesLt, Bool.or_eq_true, Bool.and_eq_true, decide_eq_true_eq, beq_iff_eq]
    by_cases hxy : x = y
    · subst hxy
      have : xs ≠ ys := fun e => hne (by rw [e])
      rcases bytesLt_total xs ys this with h | h
      · exact Or.inl (Or.inr ⟨rfl, h⟩)
      · exact Or.inr (Or.inr ⟨rfl, h⟩)
    · rcases UInt8.lt_or_lt_of_ne hxy with h | h
      · exact Or.inl (Or.inl h)
      · exact Or.inr (Or.inl h)

def HSorted (h : HeaderMap) : Prop := List.Pairwise (fun a b => bytesLt a.1 b.1 = true) h

theorem hmGet_set_same (h : HeaderMap) (k v : Bytes) : hmGet (hmSet h k v) k = some v := by
  induction h with
  | nil => simp [hmSet, hmGet]
  | cons x xs ih =>
    obtain ⟨k', v'⟩ := x
    unfold hmSet
    split
    · simp [hmGet]
    · split
      · simp [hmGet]
      · rename_i h1 _
        unfold hmGet at ih ⊢
        simp only [List.find?_cons, h1]
        exact ih

theorem hmGet_set_other (h : HeaderMap) (k k' v : Bytes) (hne : (k == k') = false) :
    hmGet (hmSet h k v) k' = hmGet h k' := by
  induction h with
  | nil => simp [hmSet, hmGet, hne]
  | cons x xs ih =>
    obtain ⟨k0, v0⟩ := x
    unfold hmSet
    split
    · rename_i h1
      have e : k0 = k := beq_bytes_eq h1
      subst e
      simp [hmGet, hne]
    · split
      · simp [hmGet, hne]
      · unfold hmGet at ih ⊢
        simp only [List.find?_cons]
        cases h2 : (k0 == k')
        · simpa using ih
        · rfl

theorem mem_hmSet (h : HeaderMap) (k v : Bytes) (b : Bytes × Bytes) (hb : b ∈ hmSet h k v) : b = (k, v) ∨ b ∈ h := by
  induction h with
  | nil => left; simpa [hmSet] using hb
  | cons x xs ih =>
    obtain ⟨k0, v0⟩ := x
    unfold hmSet at hb
    split at hb
    · rcases List.mem_cons.mp hb with h1 | h1
      · exact Or.inl h1
      · exact Or.inr (List.mem_cons_of_mem _ h1)
    · split at hb
      · rcases List.mem_cons.mp hb with h1 | h1
        · exact Or.inl h1
        · exact Or.inr h1
      · rcases List.mem_cons.mp hb with h1 | h1
        · exact Or.inr (by rw [h1]; exact List.mem_cons_self)
        · rcases ih h1 with h2 | h2
          · exact Or.inl h2
          · exact Or.inr (List.mem_cons_of_mem _ h2)

theorem hsorted_set (h : HeaderMap) (k v : Bytes) (hs : HSorted h) : HSorted (hmSet h k v) := by
  induction h with
  | nil => simp [hmSet, HSorted]
  | cons x xs ih =>
    obtain ⟨k0, v0⟩ := x
    unfold HSorted at hs
    rw [List.pairwise_cons] at hs
    obtain ⟨h1, h2⟩ := hs
    unfold hmSet
    split
    · rename_i e
      have e' : k0 = k := beq_bytes_eq e
      subst e'
      exact List.pairwise_cons.mpr ⟨h1, h2⟩
    · split
      · rename_i _ hlt
        refine List.pairwise_cons.mpr ⟨?_, List.pairwise_cons.mpr ⟨h1, h2⟩⟩
        intro b hb
        rcases List.mem_cons.mp hb with hb | hb
        · rw [hb]; exact hlt
        · exact bytesLt_trans _ _ _ hlt (h1 b hb)
      · rename_i hne hnlt
        refine List.pairwise_cons.mpr ⟨?_, ih h2⟩
        intro b hb
        rcases mem_hmSet xs k v b hb with hb | hb
        · rw [hb]
          have hne' : k0 ≠ k := fun e => by rw [e] at hne; simp at hne
          rcases bytesLt_total k0 k hne' with h | h
          · exact h
          · exact absurd h hnlt
        · exact h1 b hb

theorem hmGet_mem (h : HeaderMap) (k v : Bytes) (hg : hmGet h k = some v) : ∃ b ∈ h, b.1 = k := by
  unfold hmGet at hg
  cases hf : h.find? (·.1 == k) with
  | none => rw [hf] at hg; cases hg
  | some b =>
    have hp : (b.1 == k) = true := by
      have := List.find?_some hf
      simpa using this
    exact ⟨b, List.mem_of_find?_eq_some hf, beq_bytes_eq hp⟩

theorem hmSet_fix (h : HeaderMap) (k v : Bytes) (hs : HSorted h) (hg : hmGet h k = some v) : hmSet h k v = h := by
  induction h with
  | nil => simp [hmGet] at hg
  | cons x xs ih =>
    obtain ⟨k0, v0⟩ := x
    unfold HSorted at hs
    rw [List.pairwise_cons] at hs
    obtain ⟨h1, h2⟩ := hs
    unfold hmSet
    split
    · rename_i e
      have e' : k0 = k := beq_bytes_eq e
      subst e'
      have : v0 = v := by simpa [hmGet] using hg
      rw [this]
    · rename_i hne
      have hg' : hmGet xs k = some v := by
        unfold hmGet at hg ⊢
        simpa [List.find?_cons, hne] using hg
      split
      · rename_i hlt
        obtain ⟨b, hb, hbk⟩ := hmGet_mem xs k v hg'
        have := h1 b hb
        rw [hbk] at this
        rw [bytesLt_asymm _ _ this] at hlt
        cases hlt
      · rw [ih h2 hg']

/-! ### the per-file header cache is a fixpoint -/

theorem hmHas_set_same (h : HeaderMap) (k v : Bytes) (hv : v ≠ []) : hmHas (hmSet h k v) k = true := by
  unfold hmHas; rw [hmGet_set_same]
  cases v with
  | nil => exact absurd rfl hv
  | cons a as => rfl

theorem hmHas_set_other (h : HeaderMap) (k k' v : Bytes) (hne : (k == k') = false) :
    hmHas (hmSet h k v) k' = hmHas h k' := by
  unfold hmHas; rw [hmGet_set_other h k k' v hne]

theorem wordEncode_ne_nil (e : EncodedWord.Enc) (cs v : Bytes) (hv : v ≠ []) : EncodedWord.wordEncode e cs v ≠ [] := by
  unfold EncodedWord.wordEncode
  split
  · unfold EncodedWord.encodeWord EncodedWord.openWord
    simp
  · exact hv

theorem sanitizeCtl_idem (v : Bytes) : sanitizeCtl (sanitizeCtl v) = sanitizeCtl v := by
  unfold sanitizeCtl
  rw [List.map_map]
  apply List.map_congr_left
  intro c _
  simp only [Function.comp]
  by_cases h : (c < 32 || c == 127) = true
  · simp [h]
  · simp [h]

theorem sanitizeCtl_nil_iff (v : Bytes) : (sanitizeCtl v).isEmpty = v.isEmpty := by
  cases v <;> simp [sanitizeCtl]

/-- the cache computation on a header map (the body of `fileHeaders`) -/
def cacheHdr (s : MsgState) (isAttachment : Bool) (f : FileM) (h0 : HeaderMap) : HeaderMap :=
  (fileHeaders s isAttachment { f with header := h0 }).header

theorem fileHeaders_eq (s : MsgState) (a : Bool) (f : FileM) :
    fileHeaders s a f = { f with header := cacheHdr s a f f.header } := by
  unfold cacheHdr fileHeaders
  rfl

/-- what the cache computation establishes, and what makes it a no-op -/
structure Cached (isAttachment : Bool) (f : FileM) (h : HeaderMap) : Prop where
  ct : hmHas h hContentType = true
  cte : hmHas h hCTE = true
  cd : f.desc.isEmpty = true ∨ hmHas h hContentDesc = true
  disp : hmHas h hContentDisp = true
  cid : isAttachment = true ∨ hmHas h hContentID = true
  sorted : HSorted h
  clean : ∀ v, hmGet h hContentID = some v → sanitizeCtl v = v

theorem cached_fix (s : MsgState) (a : Bool) (f : FileM) (h : HeaderMap) (hc : Cached a f h) :
    cacheHdr s a f h = h := by
  have e3 : (f.desc.isEmpty || hmHas h hContentDesc) = true := by
    rcases hc.cd with x | x <;> simp [x]
  have e5 : (a || hmHas h hContentID) = true := by
    rcases hc.cid with x | x <;> simp [x]
  unfold cacheHdr fileHeaders
  simp only [hc.ct, hc.cte, hc.disp, e3, e5, if_true]
  cases hg : hmGet h hContentID with
  | none => rfl
  | some v =>
    simp only []
    split
    · rfl
    · rw [hc.clean v hg]
      exact hmSet_fix h _ _ hc.sorted hg

/-- one `if the header is missing then set it` step of addFiles -/
theorem step_props (c : Bool) (k val : Bytes) (h : HeaderMap) (hv : val ≠ []) (hs : HSorted h) :
    HSorted (if (c || hmHas h k) = true then h else hmSet h k val) ∧
    (c = true ∨ hmHas (if (c || hmHas h k) = true then h else hmSet h k val) k = true) ∧
    (∀ k', (k == k') = false →
      hmHas (if (c || hmHas h k) = true then h else hmSet h k val) k' = hmHas h k') := by
  by_cases hc : (c || hmHas h k) = true
  · simp only [hc, if_true]
    refine ⟨hs, ?_, fun _ _ => trivial⟩
    cases c with
    | true => left; rfl
    | false => right; simpa using hc
  · simp only [hc, Bool.false_eq_true, if_false]
    exact ⟨hsorted_set h k val hs, Or.inr (hmHas_set_same h k val hv), fun k' hne => hmHas_set_other h k k' val hne⟩

theorem step_props' (k val : Bytes) (h : HeaderMap) (hv : val ≠ []) (hs : HSorted h) :
    HSorted (if hmHas h k = true then h else hmSet h k val) ∧
    hmHas (if hmHas h k = true then h else hmSet h k val) k = true ∧
    (∀ k', (k == k') = false → hmHas (if hmHas h k = true then h else hmSet h k val) k' = hmHas h k') := by
  have := step_props false k val h hv hs
  simp only [Bool.false_or] at this
  obtain ⟨a, b, c⟩ := this
  refine ⟨a, ?_, c⟩
  rcases b with b | b
  · cases b
  · exact b

/-- the Content-ID sanitising step -/
theorem clean_props (h : HeaderMap) (hs : HSorted h) :
    HSorted (match hmGet h hContentID with
      | some v => if v.isEmpty then h else hmSet h hContentID (sanitizeCtl v)
      | none => h) ∧
    (∀ k', (hContentID == k') = false → hmHas (match hmGet h hContentID with
      | some v => if v.isEmpty then h else hmSet h hContentID (sanitizeCtl v)
      | none => h) k' = hmHas h k') ∧
    hmHas (match hmGet h hContentID with
      | some v => if v.isEmpty then h else hmSet h hContentID (sanitizeCtl v)
      | none => h) hContentID = hmHas h hContentID ∧
    (∀ v, hmGet (match hmGet h hContentID with
      | some v => if v.isEmpty then h else hmSet h hContentID (sanitizeCtl v)
      | none => h) hContentID = some v → sanitizeCtl v = v) := by
  cases hg : hmGet h hContentID with
  | none =>
    simp only []
    exact ⟨hs, fun _ _ => trivial, trivial, fun v hv => by rw [hg] at hv; cases hv⟩
  | some v0 =>
    simp only []
    by_cases he : v0.isEmpty = true
    · simp only [he, if_true]
      refine ⟨hs, fun _ _ => trivial, trivial, fun v hv => ?_⟩
      rw [hg] at hv
      have : v = v0 := (Option.some.inj hv).symm
      subst this
      have : v = [] := by simpa using he
      subst this; rfl
    · simp only [he, Bool.false_eq_true, if_false]
      have hne : sanitizeCtl v0 ≠ [] := by
        intro e
        have := sanitizeCtl_nil_iff v0
        rw [e] at this
        simp at this
        exact he (by simpa using this.symm)
      refine ⟨hsorted_set h _ _ hs, fun k' hk => hmHas_set_other h _ k' _ hk, ?_, fun v hv => ?_⟩
      · rw [hmHas_set_same h _ _ hne]
        unfold hmHas; rw [hg]
        simpa using he
      · rw [hmGet_set_same] at hv
        have : v = sanitizeCtl v0 := (Option.some.inj hv).symm
        subst this
        exact sanitizeCtl_idem v0

/-! the cache computation, stage by stage -/

def ctValue (s : MsgState) (f : FileM) : Bytes :=
  (if !f.ctype.isEmpty then f.ctype else if f.typeByExt.isEmpty then sb "application/octet-stream" else f.typeByExt) ++
    sb "; name=\"" ++ EncodedWord.wordEncode (encoderOf s.encoding) s.charset (Body.sanitizeFilename f.name) ++ sb "\""
def dispValue (s : MsgState) (a : Bool) (f : FileM) : Bytes :=
  (if a then sb "attachment" else sb "inline") ++ sb "; filename=\"" ++
    EncodedWord.wordEncode (encoderOf s.encoding) s.charset (Body.sanitizeFilename f.name) ++ sb "\""

def st1 (s : MsgState) (f : FileM) (h : HeaderMap) : HeaderMap :=
  if hmHas h hContentType = true then h else hmSet h hContentType (ctValue s f)
def st2 (f : FileM) (h : HeaderMap) : HeaderMap :=
  if hmHas h hCTE = true then h else hmSet h hCTE (if f.enc.isEmpty then encB64 else f.enc)
def st3 (s : MsgState) (f : FileM) (h : HeaderMap) : HeaderMap :=
  if (f.desc.isEmpty || hmHas h hContentDesc) = true then h
  else hmSet h hContentDesc (EncodedWord.wordEncode (encoderOf s.encoding) s.charset f.desc)
def st4 (s : MsgState) (a : Bool) (f : FileM) (h : HeaderMap) : HeaderMap :=
  if hmHas h hContentDisp = true then h else hmSet h hContentDisp (dispValue s a f)
def st5 (a : Bool) (f : FileM) (h : HeaderMap) : HeaderMap :=
  if (a || hmHas h hContentID) = true then h else hmSet h hContentID ([60] ++ Body.sanitizeFilename f.name ++ [62])
def st6 (h : HeaderMap) : HeaderMap :=
  match hmGet h hContentID with
  | some v => if v.isEmpty then h else hmSet h hContentID (sanitizeCtl v)
  | none => h

theorem cacheHdr_staged (s : MsgState) (a : Bool) (f : FileM) (h0 : HeaderMap) :
    cacheHdr s a f h0 = st6 (st5 a f (st4 s a f (st3 s f (st2 f (st1 s f h0))))) := by
  unfold cacheHdr fileHeaders st6 st5 st4 st3 st2 st1 ctValue dispValue
  rfl

theorem cacheHdr_cached (s : MsgState) (a : Bool) (f : FileM) (h0 : HeaderMap) (hs : HSorted h0) :
    Cached a f (cacheHdr s a f h0) := by
  rw [cacheHdr_staged]
  have k12 : (hContentType == hCTE) = false := by decide
  have k13 : (hContentType == hContentDesc) = false := by decide
  have k14 : (hContentType == hContentDisp) = false := by decide
  have k15 : (hContentType == hContentID) = false := by decide
  have k21 : (hCTE == hContentType) = false := by decide
  have k23 : (hCTE == hContentDesc) = false := by decide
  have k24 : (hCTE == hContentDisp) = false := by decide
  have k25 : (hCTE == hContentID) = false := by decide
  have k31 : (hContentDesc == hContentType) = false := by decide
  have k32 : (hContentDesc == hCTE) = false := by decide
  have k34 : (hContentDesc == hContentDisp) = false := by decide
  have k35 : (hContentDesc == hContentID) = false := by decide
  have k41 : (hContentDisp == hContentType) = false := by decide
  have k42 : (hContentDisp == hCTE) = false := by decide
  have k43 : (hContentDisp == hContentDesc) = false := by decide
  have k45 : (hContentDisp == hContentID) = false := by decide
  have k51 : (hContentID == hContentType) = false := by decide
  have k52 : (hContentID == hCTE) = false := by decide
  have k53 : (hContentID == hContentDesc) = false := by decide
  have k54 : (hContentID == hContentDisp) = false := by decide
  have v1 : ctValue s f ≠ [] := by unfold ctValue; simp [sb]
  have v2 : (if f.enc.isEmpty then encB64 else f.enc) ≠ [] := by
    split
    · decide
    · rename_i h; intro e; rw [e] at h; simp at h
  have v4 : dispValue s a f ≠ [] := by unfold dispValue; simp [sb]
  have v5 : ([60] ++ Body.sanitizeFilename f.name ++ [62] : Bytes) ≠ [] := by simp
  obtain ⟨s1, h1, o1⟩ := step_props' hContentType (ctValue s f) h0 v1 hs
  obtain ⟨s2, h2, o2⟩ := step_props' hCTE (if f.enc.isEmpty then encB64 else f.enc) (st1 s f h0) v2 s1
  have s3full : HSorted (st3 s f (st2 f (st1 s f h0))) ∧
      (f.desc.isEmpty = true ∨ hmHas (st3 s f (st2 f (st1 s f h0))) hContentDesc = true) ∧
      (∀ k', (hContentDesc == k') = false → hmHas (st3 s f (st2 f (st1 s f h0))) k' = hmHas (st2 f (st1 s f h0)) k') := by
    by_cases hd : f.desc.isEmpty = true
    · unfold st3; simp only [hd, Bool.true_or, if_true]
      exact ⟨s2, Or.inl trivial, fun _ _ => trivial⟩
    · have hv : EncodedWord.wordEncode (encoderOf s.encoding) s.charset f.desc ≠ [] :=
        wordEncode_ne_nil _ _ _ (by intro e; rw [e] at hd; simp at hd)
      have := step_props f.desc.isEmpty hContentDesc _ (st2 f (st1 s f h0)) hv s2
      exact this
  obtain ⟨s3, h3, o3⟩ := s3full
  obtain ⟨s4, h4, o4⟩ := step_props' hContentDisp (dispValue s a f) (st3 s f (st2 f (st1 s f h0))) v4 s3
  obtain ⟨s5, h5, o5⟩ := step_props a hContentID ([60] ++ Body.sanitizeFilename f.name ++ [62]) (st4 s a f (st3 s f (st2 f (st1 s f h0)))) v5 s4
  obtain ⟨s6, o6, c6, cl6⟩ := clean_props (st5 a f (st4 s a f (st3 s f (st2 f (st1 s f h0))))) s5
  -- fold the stage definitions back
  have e1 : st1 s f h0 = (if hmHas h0 hContentType = true then h0 else hmSet h0 hContentType (ctValue s f)) := rfl
  refine ⟨?_, ?_, ?_, ?_, ?_, s6, cl6⟩
  · show hmHas (st6 _) hContentType = true
    unfold st6; rw [o6 _ k51]
    unfold st5; rw [o5 _ k51]
    unfold st4; rw [o4 _ k41]
    rw [o3 _ k31]
    unfold st2; rw [o2 _ k21]
    exact h1
  · show hmHas (st6 _) hCTE = true
    unfold st6; rw [o6 _ k52]
    unfold st5; rw [o5 _ k52]
    unfold st4; rw [o4 _ k42]
    rw [o3 _ k32]
    exact h2
  · rcases h3 with h3 | h3
    · exact Or.inl h3
    · right
      show hmHas (st6 _) hContentDesc = true
      unfold st6; rw [o6 _ k53]
      unfold st5; rw [o5 _ k53]
      unfold st4; rw [o4 _ k43]
      exact h3
  · show hmHas (st6 _) hContentDisp = true
    unfold st6; rw [o6 _ k54]
    unfold st5; rw [o5 _ k54]
    exact h4
  · rcases h5 with h5 | h5
    · exact Or.inl h5
    · right
      show hmHas (st6 _) hContentID = true
      unfold st6; rw [c6]
      exact h5

/-- **The header cache of a file is a fixpoint**: computing the headers again on a file whose
    headers were computed before changes nothing (for every file whose header map is sorted by key,
    which is how `hmSet` keeps it). -/
theorem fileHeaders_idem (s : MsgState) (a : Bool) (f : FileM) (hs : HSorted f.header) :
    fileHeaders s a (fileHeaders s a f) = fileHeaders s a f := by
  rw [fileHeaders_eq s a f]
  rw [fileHeaders_eq s a { f with header := cacheHdr s a f f.header }]
  simp only []
  have hc := cacheHdr_cached s a f f.header hs
  have : cacheHdr s a { f with header := cacheHdr s a f f.header } (cacheHdr s a f f.header) = cacheHdr s a f f.header := by
    have hfix := cached_fix s a f (cacheHdr s a f f.header) hc
    -- cacheHdr only reads name / ctype / desc / enc / typeByExt of the file, which the update keeps
    exact hfix
  rw [this]

/-! ### the boundary cache is a fixpoint -/

/-- the boundary in effect after startMP -/
def bnd (given fresh : Bytes) : Bytes := if given.isEmpty then fresh else if validBoundary given then given else fresh
/-- givenBoundary as a function of "this layer is the outermost one" (`top`) and "the outermost layer of
    this render has taken the user's boundary" (`ub`) -/
def gbv (user : Bytes) (top ub : Bool) (cached : Bytes) : Bytes :=
  if !user.isEmpty && top then user else if ub && cached == user then [] else cached

def OkB (x : Bytes) : Prop := x = [] ∨ validBoundary x = true

theorem startMP_snd (p : PW) (mt given fresh : Bytes) : (p.startMP mt given fresh).2 = bnd given fresh := by
  unfold PW.startMP bnd; simp

theorem valid_ne_nil (x : Bytes) (h : validBoundary x = true) : x.isEmpty = false := by
  cases x with
  | nil => simp [validBoundary] at h
  | cons a as => rfl

/-- what the first render caches is what the second render uses: the user's boundary for the outermost
    layer, a valid cached boundary otherwise - and a freshly drawn one where the cache was empty, invalid
    or (for a layer that is nested now) the user's boundary, provided the fresh one is not the user's -/
theorem bnd_fix (u c f1 f2 : Bytes) (top ub : Bool) (hu : OkB u) (hc : OkB c) (hf : validBoundary f1 = true)
    (hne : ub = true → f1 ≠ u) :
    bnd (gbv u top ub (bnd (gbv u top ub c) f1)) f2 = bnd (gbv u top ub c) f1 := by
  have hfe := valid_ne_nil f1 hf
  unfold gbv
  by_cases hut : (!u.isEmpty && top) = true
  · simp only [hut, if_true]
    have hune : u.isEmpty = false := by
      simp only [Bool.and_eq_true, Bool.not_eq_true'] at hut; exact hut.1
    rcases hu with hu | hu
    · rw [hu] at hune; simp at hune
    · simp [bnd, hune, hu]
  · simp only [hut, Bool.false_eq_true, if_false]
    by_cases hdrop : (ub && c == u) = true
    · -- the cached boundary is the user's and the outermost layer has it: a fresh one is drawn and kept
      simp only [hdrop, if_true]
      have hub : ub = true := by simp only [Bool.and_eq_true] at hdrop; exact hdrop.1
      have h1 : bnd [] f1 = f1 := by simp [bnd]
      rw [h1]
      have h2 : (ub && f1 == u) = false := by
        have := hne hub
        simp [hub, this]
      simp only [h2, Bool.false_eq_true, if_false]
      simp [bnd, hfe, hf]
    · simp only [hdrop, Bool.false_eq_true, if_false]
      have hkeep : ∀ x : Bytes, (x = c ∨ x = f1) → (ub && x == u) = false := by
        intro x hx
        cases hub : ub with
        | false => simp
        | true =>
          rcases hx with hx | hx
          · subst hx
            have : (x == u) = false := by
              cases hxu : (x == u) with
              | false => rfl
              | true => simp [hub, hxu] at hdrop
            simp [this]
          · subst hx
            have := hne hub
            simp [this]
      rcases hc with hc | hc
      · subst hc
        have h1 : bnd [] f1 = f1 := by simp [bnd]
        rw [h1, hkeep f1 (Or.inr rfl)]
        simp [bnd, hfe, hf]
      · have hce := valid_ne_nil c hc
        have h1 : bnd c f1 = c := by simp [bnd, hce, hc]
        rw [h1, hkeep c (Or.inl rfl)]
        simp [bnd, hce, hc]

/-- a layer below an outermost layer that has taken the user's boundary never ends up with that boundary -/
theorem nested_bnd_ne_user (u c f : Bytes) (hf : f ≠ u) : bnd (gbv u false true c) f ≠ u := by
  unfold gbv
  simp only [Bool.and_false, Bool.false_eq_true, if_false, Bool.true_and]
  by_cases hcu : (c == u) = true
  · simp only [hcu, if_true]
    simp [bnd, hf]
  · simp only [hcu, Bool.false_eq_true, if_false]
    have hne : c ≠ u := by
      intro h; subst h; simp at hcu
    unfold bnd
    split
    · exact hf
    · split
      · exact hne
      · exact hf

theorem bnd_ok (g f : Bytes) (hf : validBoundary f = true) : OkB (bnd g f) := by
  unfold bnd
  split
  · exact Or.inr hf
  · split
    · rename_i h; exact Or.inr h
    · exact Or.inr hf

theorem startMP_depth (p : PW) (mt given fresh : Bytes) : (p.startMP mt given fresh).1.depth = p.depth + 1 := by
  cases hs : p.stack with
  | nil =>
    have := (startMP_top p mt given fresh hs).2
    simp [PW.depth, this, hs]
  | cons x rest =>
    obtain ⟨b, l⟩ := x
    have := (startMP_nested p mt given fresh b l rest hs).2
    simp [PW.depth, this, hs]

theorem markUser_userBnd (s : MsgState) (p : PW) :
    (markUser s p).userBnd = (p.userBnd || (!s.boundary.isEmpty && p.depth == 0)) := by
  unfold markUser
  split
  · rename_i h; simp [h]
  · rename_i h
    have : (!s.boundary.isEmpty && p.depth == 0) = false := by simpa using h
    simp [this]

theorem startMP_userBnd (p : PW) (mt given fresh : Bytes) : (p.startMP mt given fresh).1.userBnd = p.userBnd := by
  unfold PW.startMP PW.newPart
  simp only []
  split <;> (try split) <;> rfl

theorem openLayer_snd (s : MsgState) (p : PW) (mt cached fresh : Bytes) :
    (openLayer s p mt cached fresh).2 = bnd (gbv s.boundary (p.depth == 0) p.userBnd cached) fresh ∧
    (openLayer s p mt cached fresh).1.depth = p.depth + 1 ∧
    (openLayer s p mt cached fresh).1.userBnd = (p.userBnd || (!s.boundary.isEmpty && p.depth == 0)) := by
  unfold openLayer
  simp only []
  refine ⟨by rw [startMP_snd]; rfl, ?_, ?_⟩
  · split
    · show (PW.str _ _).depth = _
      unfold PW.str PW.depth
      simp only []
      have := startMP_depth (markUser s p) mt (givenBoundary s p cached) fresh
      simpa [PW.depth] using this
    · have := startMP_depth (markUser s p) mt (givenBoundary s p cached) fresh
      simpa using this
  · split
    · show (PW.str _ _).userBnd = _
      unfold PW.str
      simp only []
      rw [startMP_userBnd, markUser_userBnd]
    · rw [startMP_userBnd, markUser_userBnd]

/-- the boundary cache after the layer-opening stage, in closed form -/
theorem stageOpen_boundaries (s : MsgState) (e : Entropy) (p : PW) (hp : p.depth = 0) (hu : p.userBnd = false) :
    (stageOpen s e false p).2.bMixed = (if hasMixed s then bnd (gbv s.boundary true false s.bMixed) e.bMixed else s.bMixed) ∧
    (stageOpen s e false p).2.bRelated =
      (if hasRelated s then bnd (gbv s.boundary (!hasMixed s) (hasMixed s && !s.boundary.isEmpty) s.bRelated) e.bRelated else s.bRelated) ∧
    (stageOpen s e false p).2.bAlt =
      (if hasAlt s then bnd (gbv s.boundary (!hasMixed s && !hasRelated s)
        ((hasMixed s || hasRelated s) && !s.boundary.isEmpty) s.bAlt) e.bAlt else s.bAlt) := by
  unfold stageOpen
  simp only [Bool.false_eq_true, if_false]
  cases hM : hasMixed s <;> cases hR : hasRelated s <;> cases hA : hasAlt s <;>
    simp [openLayer_snd, hp, hu]

/-! ### the state after a render is a fixpoint of rendering -/

theorem fileHeaders_congr (a b : MsgState) (h1 : a.encoding = b.encoding) (h2 : a.charset = b.charset) (att : Bool) (f : FileM) :
    fileHeaders a att f = fileHeaders b att f := by
  unfold fileHeaders; rw [h1, h2]

theorem defaultGen_congr (a b : MsgState) (e : Entropy) (hg : a.gen = b.gen) (hn : a.noDefaultUA = b.noDefaultUA)
    (hm : a.mimever = b.mimever) (he : a.encoding = b.encoding) (hc : a.charset = b.charset) :
    defaultGen a e = defaultGen b e := by
  unfold defaultGen encodeString; rw [hg, hn, hm, he, hc]

theorem hasX_congr (a b : MsgState) (hp : a.parts = b.parts) (he : a.embeds.length = b.embeds.length)
    (ha : a.attachments.length = b.attachments.length) :
    hasMixed a = hasMixed b ∧ hasRelated a = hasRelated b ∧ hasAlt a = hasAlt b := by
  unfold hasMixed hasRelated hasAlt countBodyParts hasBodyParts
  rw [hp, he, ha]; exact ⟨rfl, rfl, rfl⟩

theorem header_userBnd (p : PW) (c : Bool) (k : Bytes) (vs : List Bytes) : (p.header c k vs).userBnd = p.userBnd := by
  unfold PW.header; simp only []; split <;> rfl

theorem foldl_userBnd {α} (f : PW → α → PW) (l : List α) (p : PW) (hf : ∀ (p : PW) (x : α), (f p x).userBnd = p.userBnd) :
    (l.foldl f p).userBnd = p.userBnd := by
  induction l generalizing p with
  | nil => rfl
  | cons x xs ih => simp only [List.foldl_cons]; rw [ih, hf]

theorem stageHeaders_userBnd (s : MsgState) (p : PW) : (stageHeaders s p).userBnd = p.userBnd := by
  unfold stageHeaders
  simp only []
  rw [foldl_userBnd _ _ _ (by
    intro p kn
    split
    · exact header_userBnd _ _ _ _
    · rfl)]
  split
  · rw [header_userBnd, foldl_userBnd _ _ _ (by intro p kv; rfl), foldl_userBnd _ _ _ (by intro p kv; exact header_userBnd _ _ _ _)]
  · rw [foldl_userBnd _ _ _ (by intro p kv; rfl), foldl_userBnd _ _ _ (by intro p kv; exact header_userBnd _ _ _ _)]

/-- what a render leaves behind, field by field -/
theorem writeMsg_state (s : MsgState) (e : Entropy) :
    (writeMsg s e false).2.gen = defaultGen s e ∧
    (writeMsg s e false).2.charset = s.charset ∧ (writeMsg s e false).2.encoding = s.encoding ∧
    (writeMsg s e false).2.boundary = s.boundary ∧ (writeMsg s e false).2.noDefaultUA = s.noDefaultUA ∧
    (writeMsg s e false).2.mimever = s.mimever ∧ (writeMsg s e false).2.parts = s.parts ∧
    (writeMsg s e false).2.embeds = s.embeds.map (fileHeaders s false) ∧
    (writeMsg s e false).2.attachments = s.attachments.map (fileHeaders s true) ∧
    (writeMsg s e false).2.bMixed = (if hasMixed s then bnd (gbv s.boundary true false s.bMixed) e.bMixed else s.bMixed) ∧
    (writeMsg s e false).2.bRelated =
      (if hasRelated s then bnd (gbv s.boundary (!hasMixed s) (hasMixed s && !s.boundary.isEmpty) s.bRelated) e.bRelated else s.bRelated) ∧
    (writeMsg s e false).2.bAlt =
      (if hasAlt s then bnd (gbv s.boundary (!hasMixed s && !hasRelated s)
        ((hasMixed s || hasRelated s) && !s.boundary.isEmpty) s.bAlt) e.bAlt else s.bAlt) := by
  have hd : (stageHeaders (defaultHeaders s e) {}).depth = 0 := by
    unfold PW.depth; rw [stageHeaders_stack]; rfl
  have hub : (stageHeaders (defaultHeaders s e) {}).userBnd = false := stageHeaders_userBnd _ _
  obtain ⟨b1, b2, b3⟩ := stageOpen_boundaries (defaultHeaders s e) e (stageHeaders (defaultHeaders s e) {}) hd hub
  refine ⟨rfl, rfl, rfl, rfl, rfl, rfl, rfl, ?_, ?_, b1, b2, b3⟩
  · show List.map _ _ = _
    apply List.map_congr_left
    intro f _
    exact fileHeaders_congr _ _ rfl rfl false f
  · show List.map _ _ = _
    apply List.map_congr_left
    intro f _
    exact fileHeaders_congr _ _ rfl rfl true f

/-- hypotheses: user boundary and cached boundaries are absent or valid (what the builder API and
    `SetBoundary` guarantee), the boundaries drawn for the first render are valid (multipart.Writer's
    random boundaries are), header maps are sorted by key (how `hmSet` keeps them) -/
structure RenderOK (s : MsgState) (e : Entropy) : Prop where
  user : OkB s.boundary
  cM : OkB s.bMixed
  cR : OkB s.bRelated
  cA : OkB s.bAlt
  fM : validBoundary e.bMixed = true
  fR : validBoundary e.bRelated = true
  fA : validBoundary e.bAlt = true
  /-- the boundaries drawn for nested layers are not the user's boundary (they are random) -/
  nR : e.bRelated ≠ s.boundary
  nA : e.bAlt ≠ s.boundary
  hdrE : ∀ f ∈ s.embeds, HSorted f.header
  hdrA : ∀ f ∈ s.attachments, HSorted f.header

/-- **A render leaves a fixpoint behind.** Everything a render writes into the Msg - generic header
    defaults, the boundary cache, the header cache of every file - is left unchanged by the next
    render, whatever the clock and the random source yield the second time. -/
theorem render_state_fixpoint (s : MsgState) (e1 e2 : Entropy) (h : RenderOK s e1) :
    (writeMsg (writeMsg s e1 false).2 e2 false).2.gen = (writeMsg s e1 false).2.gen ∧
    (writeMsg (writeMsg s e1 false).2 e2 false).2.bMixed = (writeMsg s e1 false).2.bMixed ∧
    (writeMsg (writeMsg s e1 false).2 e2 false).2.bRelated = (writeMsg s e1 false).2.bRelated ∧
    (writeMsg (writeMsg s e1 false).2 e2 false).2.bAlt = (writeMsg s e1 false).2.bAlt ∧
    (writeMsg (writeMsg s e1 false).2 e2 false).2.embeds = (writeMsg s e1 false).2.embeds ∧
    (writeMsg (writeMsg s e1 false).2 e2 false).2.attachments = (writeMsg s e1 false).2.attachments := by
  obtain ⟨g1, c1, n1, u1, d1, m1, p1, em1, at1, bM1, bR1, bA1⟩ := writeMsg_state s e1
  obtain ⟨g2, _, _, _, _, _, _, em2, at2, bM2, bR2, bA2⟩ := writeMsg_state (writeMsg s e1 false).2 e2
  obtain ⟨xM, xR, xA⟩ := hasX_congr (writeMsg s e1 false).2 s p1 (by rw [em1]; simp) (by rw [at1]; simp)
  refine ⟨?_, ?_, ?_, ?_, ?_, ?_⟩
  · rw [g2, g1]
    rw [defaultGen_congr (writeMsg s e1 false).2 { s with gen := defaultGen s e1 } e2 g1 d1 m1 n1 c1]
    exact defaultGen_idem s e1 e2
  · rw [bM2, xM, u1, bM1]
    split
    · exact bnd_fix _ _ _ _ true false h.user h.cM h.fM (by intro h; cases h)
    · rfl
  · rw [bR2, xR, xM, u1, bR1]
    split
    · exact bnd_fix _ _ _ _ _ _ h.user h.cR h.fR (fun _ => h.nR)
    · rfl
  · rw [bA2, xA, xM, xR, u1, bA1]
    split
    · exact bnd_fix _ _ _ _ _ _ h.user h.cA h.fA (fun _ => h.nA)
    · rfl
  · rw [em2, em1, List.map_map]
    apply List.map_congr_left
    intro f hf
    simp only [Function.comp]
    rw [fileHeaders_congr (writeMsg s e1 false).2 s n1 c1]
    exact fileHeaders_idem s false f (h.hdrE f hf)
  · rw [at2, at1, List.map_map]
    apply List.map_congr_left
    intro f hf
    simp only [Function.comp]
    rw [fileHeaders_congr (writeMsg s e1 false).2 s n1 c1]
    exact fileHeaders_idem s true f (h.hdrA f hf)

theorem stageHeaders_congr (a b : MsgState) (p : PW) (hg : a.gen = b.gen) (hpf : a.preform = b.preform)
    (h1 : a.aFrom = b.aFrom) (h2 : a.aEnvFrom = b.aEnvFrom) (h3 : a.aTo = b.aTo) (h4 : a.aCc = b.aCc)
    (h5 : a.aReplyTo = b.aReplyTo) (h6 : a.aBcc = b.aBcc) : stageHeaders a p = stageHeaders b p := by
  unfold stageHeaders addrGet
  simp only [hg, hpf, h1, h2, h3, h4, h5, h6]

theorem leafOfPart_congr (a b : MsgState) (hc : a.charset = b.charset) (he : a.encoding = b.encoding) (x : Part) :
    leafOfPart a x = leafOfPart b x := by
  unfold leafOfPart; rw [hc, he]

theorem contentTree_congr (a b : MsgState) (bM bR bA : Bytes) (em at_ : List FileM)
    (hp : a.parts = b.parts) (hc : a.charset = b.charset) (he : a.encoding = b.encoding)
    (hel : a.embeds.length = b.embeds.length) (hal : a.attachments.length = b.attachments.length) :
    contentTree a bM bR bA em at_ = contentTree b bM bR bA em at_ := by
  obtain ⟨xM, xR, xA⟩ := hasX_congr a b hp hel hal
  unfold contentTree
  simp only [xM, xR, xA, hp]
  have : (b.parts.filter (fun x => !x.deleted && !x.smime)).map (leafOfPart a) =
      (b.parts.filter (fun x => !x.deleted && !x.smime)).map (leafOfPart b) :=
    List.map_congr_left (fun x _ => leafOfPart_congr a b hc he x)
  rw [this]

/-- **Rendering is repeatable (multipart messages).** For a message without deleted parts that needs a
    multipart layer, under `RenderOK`: the bytes of the second render equal the bytes of the first,
    whatever Date, Message-ID and boundaries the second render would have drawn. Together with
    `C12.count_is_accepted` / `plan_sink_failure` (what a failing destination receives is a prefix of
    these bytes) this covers "a failed render followed by a successful one" as well: the state a render
    leaves behind does not depend on the destination. -/
theorem render_idempotent (s : MsgState) (e1 e2 : Entropy) (hp : Plain s)
    (hl : hasMixed s = true ∨ hasRelated s = true ∨ hasAlt s = true) (h : RenderOK s e1) :
    planBytes (writeMsg (writeMsg s e1 false).2 e2 false).1.acts = planBytes (writeMsg s e1 false).1.acts := by
  obtain ⟨g1, c1, n1, u1, d1, m1, p1, em1, at1, _, _, _⟩ := writeMsg_state s e1
  obtain ⟨g2, _, _, _, _, _, _, _, _, _, _, _⟩ := writeMsg_state (writeMsg s e1 false).2 e2
  obtain ⟨fg, fM, fR, fA, fE, fT⟩ := render_state_fixpoint s e1 e2 h
  obtain ⟨xM, xR, xA⟩ := hasX_congr (writeMsg s e1 false).2 s p1 (by rw [em1]; simp) (by rw [at1]; simp)
  have hp1 : Plain (writeMsg s e1 false).2 := by
    intro x hx; rw [p1] at hx; exact hp x hx
  have hl1 : hasMixed (writeMsg s e1 false).2 = true ∨ hasRelated (writeMsg s e1 false).2 = true ∨ hasAlt (writeMsg s e1 false).2 = true := by
    rw [xM, xR, xA]; exact hl
  obtain ⟨top1, t1, b1⟩ := writeMsg_refines s e1 hp hl
  obtain ⟨top2, t2, b2⟩ := writeMsg_refines (writeMsg s e1 false).2 e2 hp1 hl1
  rw [b1, b2]
  -- the header stage sees the same generic headers, preformatted headers and addresses
  have hh : stageHeaders (defaultHeaders (writeMsg s e1 false).2 e2) {} = stageHeaders (defaultHeaders s e1) {} := by
    apply stageHeaders_congr
    · show defaultGen (writeMsg s e1 false).2 e2 = defaultGen s e1
      rw [← g2, fg, g1]
    all_goals rfl
  rw [hh]
  -- the trees are equal: same parts, same decisions, same boundaries, same cached file headers
  rw [fM, fR, fA, fE, fT] at t2
  have ht : contentTree (defaultHeaders (writeMsg s e1 false).2 e2) (writeMsg s e1 false).2.bMixed (writeMsg s e1 false).2.bRelated
      (writeMsg s e1 false).2.bAlt (writeMsg s e1 false).2.embeds (writeMsg s e1 false).2.attachments =
      contentTree (defaultHeaders s e1) (writeMsg s e1 false).2.bMixed (writeMsg s e1 false).2.bRelated
      (writeMsg s e1 false).2.bAlt (writeMsg s e1 false).2.embeds (writeMsg s e1 false).2.attachments := by
    apply contentTree_congr
    · exact p1
    · exact c1
    · exact n1
    · show (writeMsg s e1 false).2.embeds.length = s.embeds.length
      rw [em1]; simp
    · show (writeMsg s e1 false).2.attachments.length = s.attachments.length
      rw [at1]; simp
  rw [ht, t1] at t2
  have : top1 = top2 := by simpa using t2
  rw [this]

/-- **Rendering is repeatable (every message without deleted parts, no S/MIME).** -/
theorem render_idempotent_all (s : MsgState) (e1 e2 : Entropy) (hp : Plain s) (h : RenderOK s e1) :
    planBytes (writeMsg (writeMsg s e1 false).2 e2 false).1.acts = planBytes (writeMsg s e1 false).1.acts := by
  obtain ⟨g1, c1, n1, u1, d1, m1, p1, em1, at1, _, _, _⟩ := writeMsg_state s e1
  obtain ⟨g2, _, _, _, _, _, _, _, _, _, _, _⟩ := writeMsg_state (writeMsg s e1 false).2 e2
  obtain ⟨fg, fM, fR, fA, fE, fT⟩ := render_state_fixpoint s e1 e2 h
  have hp1 : Plain (writeMsg s e1 false).2 := by
    intro x hx; rw [p1] at hx; exact hp x hx
  rw [writeMsg_refines_all s e1 hp, writeMsg_refines_all (writeMsg s e1 false).2 e2 hp1]
  have hh : stageHeaders (defaultHeaders (writeMsg s e1 false).2 e2) {} = stageHeaders (defaultHeaders s e1) {} := by
    apply stageHeaders_congr
    · show defaultGen (writeMsg s e1 false).2 e2 = defaultGen s e1
      rw [← g2, fg, g1]
    all_goals rfl
  rw [hh, fM, fR, fA, fE, fT]
  have ht : contentTree (defaultHeaders (writeMsg s e1 false).2 e2) (writeMsg s e1 false).2.bMixed (writeMsg s e1 false).2.bRelated
      (writeMsg s e1 false).2.bAlt (writeMsg s e1 false).2.embeds (writeMsg s e1 false).2.attachments =
      contentTree (defaultHeaders s e1) (writeMsg s e1 false).2.bMixed (writeMsg s e1 false).2.bRelated
      (writeMsg s e1 false).2.bAlt (writeMsg s e1 false).2.embeds (writeMsg s e1 false).2.attachments := by
    apply contentTree_congr
    · exact p1
    · exact c1
    · exact n1
    · show (writeMsg s e1 false).2.embeds.length = s.embeds.length
      rw [em1]; simp
    · show (writeMsg s e1 false).2.attachments.length = s.attachments.length
      rw [at1]; simp
  rw [ht]

end GoMail.Mime
