import GoMailModel.Codec.QP
/-
  Round trip of Go's quotedprintable.Writer (byte-exact model, Codec/QP.lean) through an RFC 2045
  decoder, for EVERY byte string: decode (encodeBytes xs) = canon false xs, where `canon` is what
  the writer means by its input (line breaks become CRLF; a LF directly after a CR is absorbed).
-/
namespace GoMail.QP
open GoMail

/-- what one input byte means, and the next `cr` flag -/
def emit (cr : Bool) (b : UInt8) : Bytes × Bool :=
  if isLit b then
    if b == 10 || b == 13 then
      if cr && b == 10 then ([], false) else ([13, 10], if b == 13 then true else cr)
    else ([b], false)
  else ([b], cr)                       -- stdlib quirk: an escaped byte does not clear cr

def canon : Bool → Bytes → Bytes
  | _, [] => []
  | cr, b :: r => (emit cr b).1 ++ canon (emit cr b).2 r

/-- the emitted bytes are a sequence of whole tokens, built at the right end -/
inductive TokR : Bytes → Prop
  | nil : TokR []
  | lit (a : Bytes) (c : UInt8) : TokR a → c ≠ 61 → TokR (a ++ [c])
  | esc (a : Bytes) (b : UInt8) : TokR a → TokR (a ++ enc3 b)
  | soft (a : Bytes) : TokR a → TokR (a ++ [61, 13, 10])

theorem unhex_hexU : ∀ b : UInt8, unhex (hexDigitU (b >>> 4)) = some (b >>> 4) ∧
    unhex (hexDigitU (b &&& 15)) = some (b &&& 15) ∧ (b >>> 4) * 16 + (b &&& 15) = b ∧ hexDigitU (b >>> 4) ≠ 13 := by
  apply forall_uint8; decide +kernel

theorem decode_lit (c : UInt8) (rest : Bytes) (h : c ≠ 61) : decode (c :: rest) = c :: decode rest := by
  rw [decode.eq_def]
  split <;> simp_all

theorem decode_enc3 (b : UInt8) (rest : Bytes) : decode (enc3 b ++ rest) = b :: decode rest := by
  obtain ⟨h1, h2, h3, h4⟩ := unhex_hexU b
  unfold enc3
  simp only [List.cons_append, List.nil_append]
  rw [decode.eq_def]
  split
  · rename_i heq; cases heq
  · rename_i heq; simp only [List.cons.injEq] at heq; exact absurd heq.2.1 h4
  · rename_i x y r heq
    simp only [List.cons.injEq, true_and] at heq
    obtain ⟨hx, hy, hr⟩ := heq
    subst hx; subst hy; subst hr
    simp [h1, h2, h3]
  · rename_i hn heq
    simp only [List.cons.injEq] at heq
    exact (hn _ _ _ heq.1.symm heq.2.symm).elim

theorem decode_soft (rest : Bytes) : decode (61 :: 13 :: 10 :: rest) = decode rest := by
  simp [decode]

theorem dec_app {a : Bytes} (h : TokR a) : ∀ b, decode (a ++ b) = decode a ++ decode b := by
  induction h with
  | nil => intro b; simp [decode]
  | lit a c _ hc ih =>
    intro b
    rw [List.append_assoc, ih, ih, decode_lit c [] hc]
    simp [decode_lit c b hc, decode]
  | esc a x _ ih =>
    intro b
    rw [List.append_assoc, ih, ih]
    have := decode_enc3 x []
    simp only [List.append_nil] at this
    rw [this, decode_enc3]
    simp [decode]
  | soft a _ ih =>
    intro b
    rw [List.append_assoc, ih, ih]
    simp [decode_soft, decode]

theorem enc3_last_not_ws : ∀ b : UInt8, (enc3 b).getLast? ≠ some 32 ∧ (enc3 b).getLast? ≠ some 9 := by
  apply forall_uint8; decide +kernel

/-- inversion for checkLastByte: a whole-token sequence that ends in a blank ends in a literal -/
theorem TokR.inv_ws {l : Bytes} (h : TokR l) : ∀ a c, l = a ++ [c] → isWS c = true → TokR a := by
  cases h with
  | nil => intro a c hl; cases a <;> simp at hl
  | lit a' c' h' _ =>
    intro a c hl _
    have := List.append_inj' hl rfl
    rw [← this.1]; exact h'
  | esc a' b h' =>
    intro a c hl hws
    exfalso
    have hlast : (a' ++ enc3 b).getLast? = some c := by rw [hl]; simp
    have : (enc3 b).getLast? = some c := by
      rw [List.getLast?_append] at hlast
      have : (enc3 b).getLast?.isSome := by simp [enc3]
      cases hx : (enc3 b).getLast? with
      | none => simp [hx] at this
      | some y => simpa [hx] using hlast
    have hn := enc3_last_not_ws b
    simp only [isWS, Bool.or_eq_true, beq_iff_eq] at hws
    rcases hws with rfl | rfl
    · exact hn.1 this
    · exact hn.2 this
  | soft a' h' =>
    intro a c hl hws
    exfalso
    have hlast : (a' ++ [61, 13, 10]).getLast? = some c := by rw [hl]; simp
    have : c = 10 := by
      rw [List.getLast?_append] at hlast
      simp at hlast; exact hlast.symm
    subst this
    simp [isWS] at hws

/-- writer state is well-formed -/
def GoodW (w : W) : Prop := TokR (w.out ++ w.line)
def D (w : W) : Bytes := decode (w.out ++ w.line)

theorem flush_spec (w : W) (h : GoodW w) : GoodW (flush w) ∧ D (flush w) = D w := by
  unfold flush GoodW D at *
  simp only [List.append_nil]
  exact ⟨h, trivial⟩

theorem insertCRLF_spec (w : W) (h : GoodW w) :
    GoodW (insertCRLF w) ∧ D (insertCRLF w) = D w ++ [13, 10] ∧ (insertCRLF w).cr = w.cr := by
  unfold insertCRLF flush GoodW D at *
  simp only [List.append_nil]
  have t1 : TokR (w.out ++ w.line ++ [13]) := TokR.lit _ 13 h (by decide)
  have t2 : TokR (w.out ++ w.line ++ [13] ++ [10]) := TokR.lit _ 10 t1 (by decide)
  have e : w.out ++ (w.line ++ [13, 10]) = w.out ++ w.line ++ [13] ++ [10] := by simp
  rw [e]
  refine ⟨t2, ?_, trivial⟩
  rw [List.append_assoc (w.out ++ w.line), dec_app h]
  simp [decode_lit, decode]

theorem insertSoft_spec (w : W) (h : GoodW w) :
    GoodW (insertSoftLineBreak w) ∧ D (insertSoftLineBreak w) = D w ∧ (insertSoftLineBreak w).cr = w.cr := by
  unfold insertSoftLineBreak insertCRLF flush GoodW D at *
  simp only [List.append_nil]
  have e : w.out ++ (w.line ++ [61] ++ [13, 10]) = w.out ++ w.line ++ [61, 13, 10] := by simp
  rw [e]
  refine ⟨TokR.soft _ h, ?_, trivial⟩
  rw [dec_app h]
  simp [decode_soft, decode]

theorem encode_spec (w : W) (b : UInt8) (h : GoodW w) :
    GoodW (encode w b) ∧ D (encode w b) = D w ++ [b] ∧ (encode w b).cr = w.cr := by
  unfold encode
  simp only []
  have key : ∀ w : W, GoodW w → GoodW { w with line := w.line ++ enc3 b } ∧
      D { w with line := w.line ++ enc3 b } = D w ++ [b] := by
    intro w hw
    unfold GoodW D at *
    simp only []
    rw [← List.append_assoc]
    refine ⟨TokR.esc _ b hw, ?_⟩
    rw [dec_app hw]
    have := decode_enc3 b []
    simp only [List.append_nil] at this
    rw [this]; simp [decode]
  split
  · obtain ⟨g, d, c⟩ := insertSoft_spec w h
    obtain ⟨g2, d2⟩ := key _ g
    exact ⟨g2, by rw [d2, d], c⟩
  · obtain ⟨g2, d2⟩ := key w h
    exact ⟨g2, d2, rfl⟩

theorem checkLastByte_spec (w : W) (h : GoodW w) :
    GoodW (checkLastByte w) ∧ D (checkLastByte w) = D w ∧ (checkLastByte w).cr = w.cr := by
  unfold checkLastByte
  cases hl : w.line.getLast? with
  | none => exact ⟨h, rfl, rfl⟩
  | some b =>
    simp only []
    by_cases hws : isWS b = true
    · simp only [hws, if_true]
      -- the line ends in a blank: it is re-emitted escaped
      have hne : w.line ≠ [] := by intro hc; simp [hc] at hl
      have hb' : w.line.getLast hne = b := by
        have h2 := List.getLast?_eq_some_getLast hne
        rw [hl] at h2; exact (Option.some.inj h2).symm
      have hsplit : w.line = w.line.dropLast ++ [b] := by
        rw [← hb']; exact (List.dropLast_concat_getLast hne).symm
      have hgood : GoodW { w with line := w.line.dropLast } := by
        unfold GoodW at *
        simp only []
        apply TokR.inv_ws h (w.out ++ w.line.dropLast) b _ hws
        rw [List.append_assoc, ← hsplit]
      obtain ⟨g, d, c⟩ := encode_spec { w with line := w.line.dropLast } b hgood
      refine ⟨g, ?_, c⟩
      rw [d]
      unfold D GoodW at *
      simp only []
      have hb : b ≠ 61 := by
        intro hc; subst hc; simp [isWS] at hws
      conv => rhs; rw [hsplit, ← List.append_assoc, dec_app hgood]
      simp [decode_lit b [] hb, decode]
    · simp only [hws, if_false, Bool.false_eq_true]
      exact ⟨h, by first | rfl | trivial, by first | rfl | trivial⟩

theorem step_spec (w : W) (b : UInt8) (h : GoodW w) :
    GoodW (step w b) ∧ D (step w b) = D w ++ (emit w.cr b).1 ∧ (step w b).cr = (emit w.cr b).2 := by
  unfold step emit
  by_cases hlit : isLit b = true
  · simp only [hlit, if_true]
    unfold write1
    by_cases hnl : (b == 10 || b == 13) = true
    · simp only [hnl, if_true]
      by_cases hskip : (w.cr && b == 10) = true
      · simp only [hskip, if_true]
        refine ⟨h, by simp [D], trivial⟩
      · simp only [hskip, if_false, Bool.false_eq_true]
        have hw' : GoodW (if b == 13 then { w with cr := true } else w) := by
          split <;> exact h
        have hd' : D (if b == 13 then { w with cr := true } else w) = D w := by
          split <;> rfl
        obtain ⟨g1, d1, c1⟩ := checkLastByte_spec _ hw'
        obtain ⟨g2, d2, c2⟩ := insertCRLF_spec _ g1
        refine ⟨g2, by rw [d2, d1, hd'], ?_⟩
        rw [c2, c1]
        split <;> rfl
    · simp only [hnl, if_false, Bool.false_eq_true]
      have hb : b ≠ 61 := by
        intro hc; subst hc; simp [isLit, isWS] at hlit
      have key : ∀ w : W, GoodW w → GoodW { w with line := w.line ++ [b], cr := false } ∧
          D { w with line := w.line ++ [b], cr := false } = D w ++ [b] := by
        intro w hw
        unfold GoodW D at *
        simp only []
        rw [← List.append_assoc]
        refine ⟨TokR.lit _ b hw hb, ?_⟩
        rw [dec_app hw]; simp [decode_lit b [] hb, decode]
      split
      · obtain ⟨g, d, _⟩ := insertSoft_spec w h
        obtain ⟨g2, d2⟩ := key _ g
        exact ⟨g2, by rw [d2, d], trivial⟩
      · obtain ⟨g2, d2⟩ := key w h
        exact ⟨g2, d2, trivial⟩
  · simp only [hlit, if_false, Bool.false_eq_true]
    exact encode_spec w b h

theorem fold_spec (xs : Bytes) (w : W) (h : GoodW w) :
    GoodW (xs.foldl step w) ∧ D (xs.foldl step w) = D w ++ canon w.cr xs := by
  induction xs generalizing w with
  | nil => exact ⟨h, by simp [canon]⟩
  | cons b rest ih =>
    obtain ⟨g, d, c⟩ := step_spec w b h
    obtain ⟨g2, d2⟩ := ih (step w b) g
    refine ⟨g2, ?_⟩
    simp only [List.foldl_cons]
    rw [d2, d, c]
    simp [canon, List.append_assoc]

/-- Round trip, for every byte string. -/
theorem roundtrip (xs : Bytes) : decode (encodeBytes xs) = canon false xs := by
  unfold encodeBytes close
  have h0 : GoodW ⟨[], [], false⟩ := TokR.nil
  obtain ⟨g, d⟩ := fold_spec xs ⟨[], [], false⟩ h0
  obtain ⟨g1, d1, _⟩ := checkLastByte_spec _ g
  obtain ⟨_, d2⟩ := flush_spec _ g1
  have : (flush (checkLastByte (xs.foldl step ⟨[], [], false⟩))).out =
      (flush (checkLastByte (xs.foldl step ⟨[], [], false⟩))).out ++ (flush (checkLastByte (xs.foldl step ⟨[], [], false⟩))).line := by
    simp [flush]
  rw [this]
  show D (flush (checkLastByte (xs.foldl step ⟨[], [], false⟩))) = _
  rw [d2, d1, d]
  simp [D, decode]

end GoMail.QP
