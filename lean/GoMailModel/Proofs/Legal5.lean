import GoMailModel.Proofs.Legal4
/-
  Session legality, part 5: end-of-data and the send path of mail.Client.
-/
namespace GoMail.Smtp
open GoMail

theorem endData_facts (c : Conn) (h : Sess c) (hp : live c → (judge c.trace).tx = .full) :
    Sess c.endData.1 ∧ Idle c.endData.1 := by
  unfold Conn.endData
  cases ho : c.cliOpen with
  | false =>
    simp only [Bool.not_false, if_true]
    exact ⟨h, fun hl => by have := hl.1; rw [ho] at this; cases this⟩
  | true =>
    simp only [Bool.not_true, Bool.false_eq_true, if_false]
    cases hg : c.srvGone with
    | true =>
      simp only [Bool.true_or, if_true]
      have e1 : c.serverTurn .eod 250 = (c, .error (c.broken.getD .eof)) := by unfold Conn.serverTurn; simp [hg]
      rw [e1]
      exact ⟨h, fun hl => by have := hl.2.1; rw [hg] at this; cases this⟩
    | false =>
      cases hs : c.srvSilent with
      | true =>
        simp only [Bool.or_true, if_true]
        have e1 : c.serverTurn .eod 250 = c.waitSilent := by unfold Conn.serverTurn; simp [hg, hs]
        rw [e1]
        simp only [Conn.waitSilent]
        obtain ⟨a, _, _⟩ := sess_ev_neutral c (.stall c.armed) h (fun j => step_stall j _)
        exact ⟨a, fun hl => by have := hl.2.2; simp [Conn.ev, hs] at this⟩
      | false =>
        simp only [Bool.or_self, Bool.false_eq_true, if_false]
        have hl : live c := ⟨ho, hg, hs⟩
        have hst := ji_not_stopped c h.ji hl
        obtain ⟨rg, rp, rc⟩ := h.ji.ready hl
        have htx := hp hl
        -- the judge after the end-of-data marker
        have hj1 : judge ({ c.ev .eod with inData := false } : Conn).trace =
            { judge c.trace with pending := some .eod } := by
          show judge (c.ev .eod).trace = _
          rw [judge_ev]; simp [J.step, hst, htx, h.ji.nbad]
        obtain ⟨d, f⟩ := serverTurn_live ({ c.ev .eod with inData := false } : Conn) .eod 250 hg hs
        have fr : Frame c (Conn.serverTurn { c.ev .eod with inData := false } .eod 250).1 :=
          Frame.trans ⟨rfl, rfl, rfl, rfl, rfl, rfl⟩ f
        have key : Sess (Conn.serverTurn { c.ev .eod with inData := false } .eod 250).1 ∧
            Idle (Conn.serverTurn { c.ev .eod with inData := false } .eod 250).1 := by
          have hs2 : ({ judge c.trace with pending := some .eod } : J).stopped = false := hst
          cases d with
          | reply code text h1 h2 h3 =>
            have hj : judge (Conn.serverTurn { c.ev .eod with inData := false } .eod 250).1.trace =
                { judge c.trace with tx := .idle, pending := none } := by
              rw [h2, judge_snoc, hj1, step_reply _ _ hs2]; simp [J.onReply]
            refine ⟨⟨⟨by rw [hj]; exact h.ji.nbad, by rw [hj, fr.1]; exact h.ji.stop, fun _ => by rw [hj]; exact ⟨rg, rfl, rc⟩⟩, ?_⟩,
              fun _ => by rw [hj]⟩
            intro a b; rw [fr.2.1] at a; rw [fr.2.2.1] at b; rw [hj]; exact h.hello a b
          | garbage h1 h2 h3 h4 =>
            have hj : judge (Conn.serverTurn { c.ev .eod with inData := false } .eod 250).1.trace =
                { judge c.trace with tx := .idle, pending := none } := by
              rw [h2, judge_snoc, hj1, step_garbage _ hs2]; simp [J.onReply]
            refine ⟨⟨⟨by rw [hj]; exact h.ji.nbad, by rw [hj, fr.1]; exact h.ji.stop, fun _ => by rw [hj]; exact ⟨rg, rfl, rc⟩⟩, ?_⟩,
              fun _ => by rw [hj]⟩
            intro a b; rw [fr.2.1] at a; rw [fr.2.2.1] at b; rw [hj]; exact h.hello a b
          | drop h1 h2 h3 =>
            have hj : judge (Conn.serverTurn { c.ev .eod with inData := false } .eod 250).1.trace =
                { judge c.trace with closed := true, pending := none } := by
              rw [h2, judge_snoc, hj1]; simp [J.step, hst]
            have nl : ¬ live (Conn.serverTurn { c.ev .eod with inData := false } .eod 250).1 :=
              fun hl' => by have := hl'.2.1; rw [h3] at this; cases this
            refine ⟨⟨⟨by rw [hj]; exact h.ji.nbad, by rw [hj, fr.1]; exact h.ji.stop, fun hl' => absurd hl' nl⟩, ?_⟩,
              fun hl' => absurd hl' nl⟩
            intro a b; rw [fr.2.1] at a; rw [fr.2.2.1] at b; rw [hj]; exact h.hello a b
          | stall a1 h1 h2 h3 =>
            have hj : judge (Conn.serverTurn { c.ev .eod with inData := false } .eod 250).1.trace =
                { judge c.trace with pending := some .eod } := by
              rw [h2, judge_snoc, hj1, step_stall]
            have nl : ¬ live (Conn.serverTurn { c.ev .eod with inData := false } .eod 250).1 :=
              fun hl' => by have := hl'.2.2; rw [h3] at this; cases this
            refine ⟨⟨⟨by rw [hj]; exact h.ji.nbad, by rw [hj, fr.1]; exact h.ji.stop, fun hl' => absurd hl' nl⟩, ?_⟩,
              fun hl' => absurd hl' nl⟩
            intro a b; rw [fr.2.1] at a; rw [fr.2.2.1] at b; rw [hj]; exact h.hello a b
        rcases hr : Conn.serverTurn { c.ev .eod with inData := false } .eod 250 with ⟨c1, r⟩
        rw [hr] at key
        cases r <;> exact key

/-- the state between two messages: the bundle, and no open transaction -/
structure Between (c : Conn) : Prop where
  sess : Sess c
  idle : Idle c

theorem checkConn_facts (cfg : SendCfg) (c : Conn) (h : Sess c) :
    Sess (checkConn cfg c).1 ∧ (Idle c → Idle (checkConn cfg c).1) := by
  unfold checkConn
  split
  · exact ⟨h, id⟩
  · obtain ⟨a, b⟩ := updateDeadline_facts c h
    rcases hr : c.updateDeadline with ⟨c1, ok⟩
    rw [hr] at a b
    cases ok with
    | false => exact ⟨a, b⟩
    | true =>
      simp only []
      split
      · exact ⟨a, b⟩
      · obtain ⟨a2, b2⟩ := noop_facts c1 a
        rcases hr2 : c1.noop with ⟨c2, r2⟩
        rw [hr2] at a2 b2
        cases r2 <;> exact ⟨a2, fun hi => b2 (b hi)⟩

theorem resetWith_facts (cfg : SendCfg) (c : Conn) (h : Sess c) :
    Sess (resetWith cfg c).1 ∧ (Idle c → Idle (resetWith cfg c).1) := by
  unfold resetWith
  obtain ⟨a, b⟩ := checkConn_facts cfg c h
  rcases hr : checkConn cfg c with ⟨c1, r⟩
  rw [hr] at a b
  cases r with
  | some e => exact ⟨a, b⟩
  | none =>
    obtain ⟨a2, b2, _⟩ := reset_facts c1 a
    exact ⟨a2, fun hi => b2 (b hi)⟩

/-- RSET after a refused command: afterwards no transaction is open, or the connection is closed -/
theorem abortTx_facts (c : Conn) (se : SendErr) (h : Sess c) : Between (abortTx c se).1 := by
  unfold abortTx
  obtain ⟨a, _, d⟩ := reset_facts c h
  rcases hr : c.reset with ⟨c1, r⟩
  rw [hr] at a d
  cases r with
  | some e => exact ⟨(close_facts c1 a).1, (close_facts c1 a).2.1⟩
  | none => exact ⟨a, d rfl⟩

/-- **One message.** Starting between two messages, sendSingleMsg ends between two messages: every
    command it emitted was legal, and afterwards no transaction is open or the connection is closed. -/
theorem sendOne_between (cfg : SendCfg) (c : Conn) (idx : Nat) (m : MsgIn) (wd : Bool) (h : Between c) :
    Between (sendOne cfg c idx m wd).1 := by
  unfold sendOne
  simp only []
  obtain ⟨s1, i1⟩ := extension_facts c "ENHANCEDSTATUSCODES" h.sess
  rcases hx : c.extension "ENHANCEDSTATUSCODES" with ⟨c1, esc⟩
  rw [hx] at s1 i1
  have i1' := i1 h.idle
  simp only []
  have h2 : Between (if m.eightBit then c1.extension "8BITMIME" else (c1, true)).1 := by
    split
    · obtain ⟨a, b⟩ := extension_facts c1 "8BITMIME" s1
      exact ⟨a, b i1'⟩
    · exact ⟨s1, i1'⟩
  rcases hy : (if m.eightBit then c1.extension "8BITMIME" else (c1, true)) with ⟨c2, ok8⟩
  rw [hy] at h2
  simp only []
  split
  · exact h2
  · split
    · exact h2
    · split
      · exact h2
      · rename_i sender hsnd hne
        have h3 : Between (if cfg.requestDSN && !cfg.dsnReturn.isEmpty then { c2 with dsnmrtype := cfg.dsnReturn } else c2) := by
          split
          · exact ⟨⟨ji_of_eq c2 _ h2.sess.ji rfl, hellorel_of_eq c2 _ h2.sess.hello rfl⟩, idle_of_eq c2 _ h2.idle rfl⟩
          · exact h2
        obtain ⟨s4, m4⟩ := mail_facts _ (envelopeAddress sender) h3.sess h3.idle
        rcases hm : Conn.mail (if cfg.requestDSN && !cfg.dsnReturn.isEmpty then { c2 with dsnmrtype := cfg.dsnReturn } else c2)
          (envelopeAddress sender) with ⟨c3, e3⟩
        rw [hm] at s4 m4
        cases e3 with
        | some e => exact abortTx_facts c3 _ s4
        | none =>
          simp only []
          have s5 : Sess { c3 with dsnrntype := cfg.dsnNotify } :=
            ⟨ji_of_eq c3 _ s4.ji rfl, hellorel_of_eq c3 _ s4.hello rfl⟩
          have p5 : RPhase { c3 with dsnrntype := cfg.dsnNotify } (!false) false := by
            have := rphase_of_mailOpen c3 (m4 rfl)
            intro hl; exact this hl
          obtain ⟨s6, p6⟩ := rcptLoop_facts esc m.rcpts { c3 with dsnrntype := cfg.dsnNotify }
            { reason := .getSender, nerrs := 0 } false false s5 p5
          rcases hl : rcptLoop esc { c3 with dsnrntype := cfg.dsnNotify } m.rcpts { reason := .getSender, nerrs := 0 } false with ⟨c4, se, bad⟩
          rw [hl] at s6 p6
          simp only []
          split
          · exact abortTx_facts c4 _ s6
          · rename_i hbad
            have hb : bad = false := by simpa using hbad
            have hne' : m.rcpts.isEmpty = false := by simpa using hne
            have pd : live c4 → (judge c4.trace).tx = .rcpt ∧ (judge c4.trace).accepted > 0 ∧ (judge c4.trace).rejected = 0 := by
              intro hl4
              have := (p6 hl4).2 (by simp [hb])
              have t := this.2 (by simp [hne'])
              exact ⟨t.1, t.2, this.1⟩
            obtain ⟨s7, d7⟩ := data_facts c4 s6 pd
            rcases hd : c4.data with ⟨c5, e5⟩
            rw [hd] at s7 d7
            cases e5 with
            | some e => exact abortTx_facts c5 _ s7
            | none =>
              simp only []
              split
              · obtain ⟨a, _, _⟩ := sess_ev_neutral c5 (.content idx false) s7 (step_content_partial _)
                exact ⟨(close_facts _ a).1, (close_facts _ a).2.1⟩
              · split
                · obtain ⟨a, _, _⟩ := sess_ev_neutral c5 (.content idx false) s7 (step_content_partial _)
                  obtain ⟨a2, _, _⟩ := sess_ev_neutral _ (.stall c5.armed) a (fun j => step_stall j _)
                  exact ⟨(close_facts _ a2).1, (close_facts _ a2).2.1⟩
                · obtain ⟨a, pe⟩ := sess_content_full c5 idx s7 (d7 rfl)
                  obtain ⟨s8, i8⟩ := endData_facts _ a pe
                  rcases he : (c5.ev (.content idx true)).endData with ⟨c6, e6⟩
                  rw [he] at s8 i8
                  cases e6 with
                  | some e => exact ⟨s8, i8⟩
                  | none =>
                    simp only []
                    obtain ⟨s9, i9⟩ := resetWith_facts cfg c6 s8
                    rcases hw : resetWith cfg c6 with ⟨c7, e7⟩
                    rw [hw] at s9 i9
                    cases e7 <;> exact ⟨s9, i9 i8⟩

theorem sendLoop_between (cfg : SendCfg) (c : Conn) (i : Nat) (ms : List MsgIn) (h : Between c) :
    Between (sendLoop cfg c i ms).1 := by
  induction ms generalizing c i with
  | nil => exact h
  | cons m rest ih =>
    unfold sendLoop
    simp only []
    exact ih _ _ (sendOne_between cfg c i m false h)

theorem sendBatch_between (cfg : SendCfg) (c : Conn) (ms : List MsgIn) (h : Between c) :
    Between (sendBatch cfg c ms).1 := by
  unfold sendBatch
  simp only []
  obtain ⟨s1, i1⟩ := extension_facts c "ENHANCEDSTATUSCODES" h.sess
  obtain ⟨s2, i2⟩ := checkConn_facts cfg (c.extension "ENHANCEDSTATUSCODES").1 s1
  rcases hr : checkConn cfg (c.extension "ENHANCEDSTATUSCODES").1 with ⟨c2, r⟩
  rw [hr] at s2 i2
  cases r with
  | some e => exact ⟨s2, i2 (i1 h.idle)⟩
  | none => exact sendLoop_between cfg c2 0 ms ⟨s2, i2 (i1 h.idle)⟩

theorem closeWith_between (c : Conn) (h : Between c) : Between (closeWith c).1 := by
  unfold closeWith
  split
  · exact h
  · simp only []
    obtain ⟨a, b⟩ := updateDeadline_facts c h.sess
    obtain ⟨a2, b2⟩ := quit_facts c.updateDeadline.1 a
    rcases hq : c.updateDeadline.1.quit with ⟨c2, r⟩
    rw [hq] at a2 b2
    cases r with
    | some e => exact ⟨(close_facts c2 a2).1, (close_facts c2 a2).2.1⟩
    | none => exact ⟨a2, b2 (b h.idle)⟩

end GoMail.Smtp
