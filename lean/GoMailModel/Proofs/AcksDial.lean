import GoMailModel.Proofs.Acks
import GoMailModel.Smtp.Dial
/-
  The dial dialogue (greeting, EHLO/HELO, STARTTLS, AUTH) and QUIT are quiet in the sense of
  Proofs/Acks: they add neither message content nor an end-of-data marker to the trace. With that the
  acknowledgement theorem extends from SendWithSMTPClient to the whole of DialAndSend.
-/
namespace GoMail.Smtp
open GoMail

theorem q_quit (c : Conn) : Q c c.quit.1 := by
  unfold Conn.quit
  simp only []
  have h1 := q_hello c
  have hc := q_cmd c.hello.1 .quit (sb "QUIT") 221
  rcases hr : c.hello.1.cmd .quit (sb "QUIT") 221 with ⟨c1, r⟩
  rw [hr] at hc
  cases r with
  | error e => exact h1.trans hc
  | ok v => exact (h1.trans hc).trans (q_close c1)

theorem q_closeWith (c : Conn) : Q c (closeWith c).1 := by
  unfold closeWith
  split
  · exact Q.refl c
  · simp only []
    have h1 := q_updateDeadline c
    have h2 := q_quit c.updateDeadline.1
    rcases hr : c.updateDeadline.1.quit with ⟨c2, e⟩
    rw [hr] at h2
    cases e with
    | some e => exact (h1.trans h2).trans (q_close c2)
    | none => exact h1.trans h2

theorem q_Hello (c : Conn) (name : Bytes) : Q c (c.Hello name).1 := by
  unfold Conn.Hello
  split
  · exact Q.refl c
  · split
    · exact Q.refl c
    · exact (Q.of_trace (c := c) (c' := { c with localName := name }) rfl).trans (q_hello _)

theorem q_startTLS (c : Conn) : Q c c.startTLS.1 := by
  unfold Conn.startTLS
  have h1 := q_hello c
  rcases hr : c.hello with ⟨c1, r⟩
  rw [hr] at h1
  cases r with
  | some e => exact h1
  | none =>
    simp only []
    have h2 := q_cmd c1 .starttls (sb "STARTTLS") 220
    rcases hc : c1.cmd .starttls (sb "STARTTLS") 220 with ⟨c2, r2⟩
    rw [hc] at h2
    have q2 : Q c c2 := h1.trans h2
    cases r2 with
    | error e => exact q2
    | ok v =>
      simp only []
      have h3 : Q c ({ c2 with tls := true } : Conn) := q2.trans (Q.of_trace rfl)
      split
      · exact h3
      · split
        · exact h3.trans (q_waitSilent _)
        · have h4 := h3.trans (q_pop _)
          split
          · exact (h4.trans (q_ev _ .tlsOn rfl)).trans (q_ehlo _)
          · exact (h4.trans (q_ev _ .drop rfl)).trans (Q.of_trace rfl)
          · exact (h4.trans (Q.of_trace rfl)).trans (q_waitSilent _)
          · exact h4.trans (q_ev _ .tlsFail rfl)

theorem q_authLoop {σ} (a : Mech σ) (mech : Bytes) (fuel : Nat) (c : Conn) (st : σ)
    (r : Except Err (Nat × Bytes)) : Q c (authLoop a mech fuel c st r).1 := by
  induction fuel generalizing c st r with
  | zero => unfold authLoop; exact Q.refl c
  | succ n ih =>
    unfold authLoop
    cases r with
    | error e => exact Q.refl c
    | ok v =>
      simp only []
      split
      · have h1 : Q c (if mech != sb "XOAUTH2" then (c.cmd .authAbort (sb "*") 501).1 else c) := by
          split
          · exact q_cmd c _ _ _
          · exact Q.refl c
        exact h1.trans (q_quit _)
      · exact Q.refl c
      · exact (q_cmd c _ _ _).trans (ih _ _ _)

theorem q_authWith {σ} (c : Conn) (a : Mech σ) : Q c (c.authWith a).1 := by
  unfold Conn.authWith
  have h1 := q_hello c
  rcases hr : c.hello with ⟨c1, r⟩
  rw [hr] at h1
  cases r with
  | some e => exact h1
  | none =>
    simp only []
    have h2 : Q c (if !c1.logAuthData then { c1 with authActive := true } else c1) := by
      split
      · exact h1.trans (Q.of_trace rfl)
      · exact h1
    have hdone : ∀ c : Conn, Q c (if !c.logAuthData then { c with authActive := false } else c) := by
      intro c
      split
      · exact Q.of_trace rfl
      · exact Q.refl c
    split
    · exact (h2.trans (q_quit _)).trans (hdone _)
    · exact ((h2.trans (q_cmd _ _ _ _)).trans (q_authLoop a _ _ _ _ _)).trans (hdone _)

theorem q_runMech (cfg : DialCfg) (c : Conn) (t : AuthType) : Q c (runMech cfg c t).1 := by
  unfold runMech
  simp only []
  cases t
  all_goals simp only []
  all_goals first
    | exact q_authWith c _
    | exact Q.refl c
    | (split
       · exact Q.refl c
       · split
         · exact Q.refl c
         · exact q_authWith c _)

theorem q_clientAuth (cfg : DialCfg) (c : Conn) (enc : Bool) : Q c (clientAuth cfg c enc).1 := by
  unfold clientAuth
  split
  · exact Q.refl c
  · simp only []
    have h1 := q_extension c "AUTH"
    rcases hr : c.extension "AUTH" with ⟨c1, has⟩
    rw [hr] at h1
    simp only []
    repeat' split
    all_goals first
      | exact h1
      | exact h1.trans (q_runMech cfg c1 _)

theorem q_clientTLS (cfg : DialCfg) (c : Conn) (enc : Bool) : Q c (clientTLS cfg c enc).1 := by
  unfold clientTLS
  split
  · exact Q.refl c
  · simp only []
    have h1 := q_extension c "STARTTLS"
    rcases hr : c.extension "STARTTLS" with ⟨c1, ext⟩
    rw [hr] at h1
    simp only []
    split
    · exact h1
    · have h2 : Q c1 (if (cfg.policy == .mandatory || ext) = true then c1.startTLS else (c1, none)).1 := by
        split
        · exact q_startTLS c1
        · exact Q.refl c1
      rcases hs : (if (cfg.policy == .mandatory || ext) = true then c1.startTLS else (c1, none)) with ⟨c2, e⟩
      rw [hs] at h2
      have q2 := h1.trans h2
      cases e with
      | some e => exact q2
      | none =>
        simp only []
        split
        · exact q2
        · split <;> exact q2

/-- nothing is pending and nothing acknowledged when the connection has just been made -/
theorem acks_fresh (cfg : DialCfg) (script : List Act) (caps : List Bytes) :
    acks (freshConn cfg script caps).trace = {} := by
  unfold freshConn
  simp only []
  split <;> rfl

theorem q_newClient (cfg : DialCfg) (script : List Act) (caps : List Bytes) :
    Q (freshConn cfg script caps) (newClient cfg script caps).1 := by
  unfold newClient
  have h0 := q_updateDeadline (freshConn cfg script caps)
  have h1 := q_serverTurn (freshConn cfg script caps).updateDeadline.1 .greeting 220
  rcases hr : Conn.serverTurn (freshConn cfg script caps).updateDeadline.1 .greeting 220 with ⟨c1, r⟩
  rw [hr] at h1
  cases r with
  | error e => exact (h0.trans h1).trans (q_close c1)
  | ok v => exact h0.trans h1

theorem q_dial (cfg : DialCfg) (script : List Act) (caps : List Bytes) :
    Q (freshConn cfg script caps) (dial cfg script caps).1 := by
  unfold dial
  have h0 := q_newClient cfg script caps
  rcases hn : newClient cfg script caps with ⟨c0, e0⟩
  rw [hn] at h0
  cases e0 with
  | some e => exact h0
  | none =>
    simp only []
    have h1 := q_Hello { c0 with debug := cfg.debug, logAuthData := cfg.logAuthData } cfg.helo
    rcases hh : Conn.Hello { c0 with debug := cfg.debug, logAuthData := cfg.logAuthData } cfg.helo with ⟨c1, e1⟩
    rw [hh] at h1
    have q1 : Q (freshConn cfg script caps) c1 := (h0.trans (Q.of_trace rfl)).trans h1
    cases e1 with
    | some e => exact q1.trans (q_close c1)
    | none =>
      simp only []
      have h2 := q_clientTLS cfg c1 cfg.implicitTLS
      rcases ht : clientTLS cfg c1 cfg.implicitTLS with ⟨c2, enc, e2⟩
      rw [ht] at h2
      cases e2 with
      | some e => exact (q1.trans h2).trans (q_close c2)
      | none =>
        simp only []
        have h3 := q_clientAuth cfg c2 enc
        rcases ha : clientAuth cfg c2 enc with ⟨c3, e3⟩
        rw [ha] at h3
        cases e3 with
        | some e => exact ((q1.trans h2).trans h3).trans (q_close c3)
        | none => exact (q1.trans h2).trans h3

/-- **DialAndSend and the acknowledgements.** For every configuration, server script, capability list
    and batch: the end-of-data markers the server answered with 250 are exactly those of the messages
    reported delivered, in batch order. -/
theorem dialAndSend_acks (cfg : DialCfg) (script : List Act) (caps : List Bytes) (ms : List MsgIn) :
    (acks (dialAndSend cfg script caps ms).conn.trace).acked = deliveredIdx 0 (dialAndSend cfg script caps ms).msgs := by
  unfold dialAndSend
  have h0 := (q_dial cfg script caps).acks (by rw [acks_fresh])
  rw [acks_fresh] at h0
  rcases hd : dial cfg script caps with ⟨c0, e0⟩
  rw [hd] at h0
  simp only at h0
  cases e0 with
  | some e => simp [h0, deliveredIdx]
  | none =>
    simp only []
    have hp0 : (acks c0.trace).pend = false := by rw [h0]
    have h1 := sendBatch_acks cfg.send c0 ms hp0
    rcases hs : sendBatch cfg.send c0 ms with ⟨c1, outs, ce⟩
    rw [hs] at h1
    simp only at h1
    have hcw : ∀ c : Conn, (acks c.trace).pend = false → acks (closeWith c).1.trace = acks c.trace :=
      fun c hp => (q_closeWith c).acks hp
    cases outs with
    | none =>
      simp only []
      rw [hcw c1 h1.1, h1.2, h0]
      simp [deliveredIdx]
    | some outs =>
      simp only []
      have e1 := hcw c1 h1.1
      have e2 := hcw (closeWith c1).1 (by rw [e1]; exact h1.1)
      split
      · simp only []
        rw [e1, h1.2, h0]; simp
      · simp only []
        rw [e2, e1, h1.2, h0]; simp

end GoMail.Smtp
