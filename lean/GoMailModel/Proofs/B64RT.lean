import GoMailModel.Proofs.B64
/-
  RFC 4648 decoder ∘ Go's StdEncoding encoder = identity, for EVERY byte string.
  Two-byte facts are reduced to the 64 combinations of a 2-bit and a 4-bit field.
-/
namespace GoMail.Base64
open GoMail

/-- (p << 4 | q) with p < 4, q < 16: the fields come back, and the sextet is < 64 -/
theorem mid1 : ∀ p : Fin 4, ∀ q : Fin 16,
    (((UInt8.ofNat p.val <<< 4) ||| UInt8.ofNat q.val) >>> 4 = UInt8.ofNat p.val) ∧
    (((UInt8.ofNat p.val <<< 4) ||| UInt8.ofNat q.val) <<< 4 = UInt8.ofNat q.val <<< 4) ∧
    ((UInt8.ofNat p.val <<< 4) ||| UInt8.ofNat q.val) < 64 := by decide +kernel

/-- (p << 2 | q) with p < 16, q < 4 -/
theorem mid2 : ∀ p : Fin 16, ∀ q : Fin 4,
    (((UInt8.ofNat p.val <<< 2) ||| UInt8.ofNat q.val) >>> 2 = UInt8.ofNat p.val) ∧
    (((UInt8.ofNat p.val <<< 2) ||| UInt8.ofNat q.val) <<< 6 = UInt8.ofNat q.val <<< 6) ∧
    ((UInt8.ofNat p.val <<< 2) ||| UInt8.ofNat q.val) < 64 := by decide +kernel

theorem and3_fin : ∀ a : UInt8, ∃ p : Fin 4, a &&& 3 = UInt8.ofNat p.val := by
  apply forall_uint8; decide +kernel
theorem shr4_fin : ∀ a : UInt8, ∃ p : Fin 16, a >>> 4 = UInt8.ofNat p.val := by
  apply forall_uint8; decide +kernel
theorem and15_fin : ∀ a : UInt8, ∃ p : Fin 16, a &&& 15 = UInt8.ofNat p.val := by
  apply forall_uint8; decide +kernel
theorem shr6_fin : ∀ a : UInt8, ∃ p : Fin 4, a >>> 6 = UInt8.ofNat p.val := by
  apply forall_uint8; decide +kernel

theorem glue1 : ∀ a : UInt8, ((a >>> 2) <<< 2) ||| (a &&& 3) = a := by apply forall_uint8; decide +kernel
theorem glue2 : ∀ b : UInt8, ((b >>> 4) <<< 4) ||| (b &&& 15) = b := by apply forall_uint8; decide +kernel
theorem glue3 : ∀ c : UInt8, ((c >>> 6) <<< 6) ||| (c &&& 63) = c := by apply forall_uint8; decide +kernel
theorem pad1 : ∀ a : UInt8, ((a &&& 3) <<< 4) >>> 4 = a &&& 3 := by apply forall_uint8; decide +kernel
theorem pad2a : ∀ b : UInt8, ((b &&& 15) <<< 2) >>> 2 = b &&& 15 := by apply forall_uint8; decide +kernel

/-- the middle sextets, for all bytes -/
theorem y_facts (a b : UInt8) :
    (((a &&& 3) <<< 4) ||| (b >>> 4)) >>> 4 = a &&& 3 ∧
    (((a &&& 3) <<< 4) ||| (b >>> 4)) <<< 4 = (b >>> 4) <<< 4 ∧
    (((a &&& 3) <<< 4) ||| (b >>> 4)) < 64 := by
  obtain ⟨p, hp⟩ := and3_fin a
  obtain ⟨q, hq⟩ := shr4_fin b
  rw [hp, hq]; exact mid1 p q

theorem z_facts (b c : UInt8) :
    (((b &&& 15) <<< 2) ||| (c >>> 6)) >>> 2 = b &&& 15 ∧
    (((b &&& 15) <<< 2) ||| (c >>> 6)) <<< 6 = (c >>> 6) <<< 6 ∧
    (((b &&& 15) <<< 2) ||| (c >>> 6)) < 64 := by
  obtain ⟨p, hp⟩ := and15_fin b
  obtain ⟨q, hq⟩ := shr6_fin c
  rw [hp, hq]; exact mid2 p q

theorem decode_quad (x y z w : UInt8) (rest : Bytes) (hz : z ≠ 61) (hw : w ≠ 61) :
    decode (x :: y :: z :: w :: rest) =
      (match val x, val y, val z, val w, decode rest with
       | some x, some y, some z, some w, some r =>
         some (((x <<< 2) ||| (y >>> 4)) :: ((y <<< 4) ||| (z >>> 2)) :: ((z <<< 6) ||| w) :: r)
       | _, _, _, _, _ => none) := by
  rw [decode.eq_def]
  split
  · rename_i heq; cases heq
  · rename_i heq; simp only [List.cons.injEq] at heq; exact absurd heq.2.2.1 hz
  · rename_i heq; simp only [List.cons.injEq] at heq; exact absurd heq.2.2.2.1 hw
  · rename_i heq
    simp only [List.cons.injEq] at heq
    obtain ⟨h1, h2, h3, h4, h5⟩ := heq
    subst h1; subst h2; subst h3; subst h4; subst h5; rfl
  · rename_i hn
    exact (hn _ _ _ _ _ rfl).elim

/-- Round trip, for every byte string. -/
theorem decode_encode : ∀ xs : Bytes, decode (encode xs) = some xs
  | [] => by simp [encode, decode]
  | [a] => by
    have h1 := val_char_lt _ (shr2_lt a)
    have h2 := val_char_lt _ (lo2_lt a)
    simp only [encode]
    rw [decode.eq_def]
    simp only [h1, h2, pad1, glue1]
  | [a, b] => by
    obtain ⟨y1, _, y3⟩ := y_facts a b
    have h1 := val_char_lt _ (shr2_lt a)
    have h2 := val_char_lt _ y3
    have h3 := val_char_lt _ (lo4_lt b)
    have hz := char_ne_pad _ (lo4_lt b)
    simp only [encode]
    rw [decode.eq_def]
    split
    · rename_i heq; cases heq
    · rename_i heq; simp only [List.cons.injEq] at heq; exact absurd heq.2.2.1 hz
    · rename_i heq
      simp only [List.cons.injEq, and_true] at heq
      obtain ⟨e1, e2, e3⟩ := heq
      subst e1; subst e2; subst e3
      simp only [h1, h2, h3, y1, glue1, pad2a]
      have := (y_facts a b).2.1
      rw [this, glue2]
    · rename_i hn heq
      simp only [List.cons.injEq] at heq
      exact (hn heq.2.2.2.1.symm heq.2.2.2.2.symm).elim
    · rename_i hn _
      exact (hn _ _ _ rfl).elim
  | a :: b :: c :: rest => by
    obtain ⟨y1, y2, y3⟩ := y_facts a b
    obtain ⟨z1, z2, z3⟩ := z_facts b c
    have h1 := val_char_lt _ (shr2_lt a)
    have h2 := val_char_lt _ y3
    have h3 := val_char_lt _ z3
    have h4 := val_char_lt _ (and63_lt c)
    simp only [encode]
    rw [decode_quad _ _ _ _ _ (char_ne_pad _ z3) (char_ne_pad _ (and63_lt c))]
    rw [h1, h2, h3, h4, decode_encode rest]
    simp only [y1, y2, z1, z2, glue1, glue2, glue3]

end GoMail.Base64
