import GoMailModel.Codec.EncodedWord
import GoMailModel.Proofs.Wrap
/-
  Everything mime.WordEncoder.Encode returns consists of printable ASCII and TAB only — in
  particular it never contains CR or LF, whatever the input bytes are.
-/
namespace GoMail.EncodedWord
open GoMail

/-- printable ASCII or TAB -/
def Safe (b : UInt8) : Prop := b = 9 ∨ (32 ≤ b ∧ b ≤ 126)

instance (b : UInt8) : Decidable (Safe b) := by unfold Safe; exact inferInstance

def AllSafe (l : Bytes) : Prop := ∀ b ∈ l, Safe b

instance (l : Bytes) : Decidable (AllSafe l) := by unfold AllSafe; exact inferInstance

theorem allSafe_append {a b : Bytes} (ha : AllSafe a) (hb : AllSafe b) : AllSafe (a ++ b) := by
  intro x hx
  rcases List.mem_append.mp hx with h | h
  · exact ha x h
  · exact hb x h

theorem allSafe_nil : AllSafe [] := by intro x hx; cases hx

theorem safe_not_crlf (b : UInt8) (h : Safe b) : b ≠ 13 ∧ b ≠ 10 := by
  revert h; revert b; apply forall_uint8; decide +kernel

theorem hexU_safe : ∀ n : UInt8, Safe (hexDigitU (n >>> 4)) ∧ Safe (hexDigitU (n &&& 15)) := by
  apply forall_uint8; decide +kernel

theorem qByte_safe : ∀ b : UInt8, AllSafe (qByte b) := by
  apply forall_uint8; decide +kernel

theorem qString_safe (s : Bytes) : AllSafe (qString s) := by
  unfold qString
  intro x hx
  obtain ⟨l, hl, hxl⟩ := List.mem_flatten.mp hx
  obtain ⟨b, _, rfl⟩ := List.mem_map.mp hl
  exact qByte_safe b x hxl

theorem alpha_safe : ∀ c : UInt8, Base64.isAlpha c = true → Safe c := by
  apply forall_uint8; decide +kernel

theorem b64_safe (x : Bytes) : AllSafe (Base64.encode x) :=
  fun c hc => alpha_safe c (Base64.encode_alpha x c hc)

theorem openWord_safe (e : Enc) (cs : Bytes) (h : AllSafe cs) : AllSafe (openWord e cs) := by
  unfold openWord
  apply allSafe_append
  · apply allSafe_append
    · intro x hx; simp at hx; rcases hx with rfl | rfl <;> decide
    · exact h
  · intro x hx
    cases e <;> simp at hx <;> rcases hx with rfl | rfl | rfl <;> decide

theorem closeWord_safe : AllSafe closeWord := by
  intro x hx; simp [closeWord] at hx; rcases hx with rfl | rfl <;> decide

theorem splitWord_safe (e : Enc) (cs : Bytes) (h : AllSafe cs) : AllSafe (splitWord e cs) := by
  unfold splitWord
  apply allSafe_append
  · apply allSafe_append closeWord_safe
    intro x hx; simp at hx; subst hx; decide
  · exact openWord_safe e cs h

theorem qLoop_safe (cs : Bytes) (h : AllSafe cs) (s : Bytes) (cur : Nat) : AllSafe (qLoop cs s cur) := by
  fun_induction qLoop cs s cur with
  | case1 => exact allSafe_nil
  | case2 b rest cur plain rl encLen pre cur' ih =>
    apply allSafe_append
    · apply allSafe_append
      · simp only [pre]
        split
        · exact splitWord_safe .q cs h
        · exact allSafe_nil
      · exact qString_safe _
    · exact ih

theorem bLoop_safe (cs : Bytes) (h : AllSafe cs) (pending s : Bytes) (cur : Nat) :
    AllSafe (bLoop cs pending s cur) := by
  fun_induction bLoop cs pending s cur with
  | case1 pending _ => exact b64_safe _
  | case2 pending b rest cur rl hle ih => exact ih
  | case3 pending b rest cur rl hle ih =>
    apply allSafe_append
    · exact allSafe_append (b64_safe _) (splitWord_safe .b cs h)
    · exact ih

theorem not_needs_safe : ∀ b : UInt8, ¬ ((b < 32 || b > 126) && b != 9) = true → Safe b := by
  apply forall_uint8; decide +kernel

theorem needsEncoding_false (s : Bytes) (h : needsEncoding s = false) : AllSafe s := by
  intro b hb
  unfold needsEncoding at h
  have := (List.any_eq_false.mp h) b hb
  exact not_needs_safe b this

/-- mime.WordEncoder.Encode never emits anything but printable ASCII and TAB -/
theorem wordEncode_safe (e : Enc) (cs s : Bytes) (hcs : AllSafe cs) : AllSafe (wordEncode e cs s) := by
  unfold wordEncode
  split
  · unfold encodeWord
    apply allSafe_append
    · apply allSafe_append (openWord_safe e cs hcs)
      cases e with
      | q =>
        simp only [qEncode]
        split
        · exact qString_safe s
        · exact qLoop_safe cs hcs s 0
      | b =>
        simp only [bEncode]
        split
        · exact b64_safe s
        · exact bLoop_safe cs hcs [] s 0
    · exact closeWord_safe
  · rename_i h
    exact needsEncoding_false s (by simpa using h)

theorem wordEncode_no_crlf (e : Enc) (cs s : Bytes) (hcs : AllSafe cs) :
    ∀ b ∈ wordEncode e cs s, b ≠ 13 ∧ b ≠ 10 :=
  fun b hb => safe_not_crlf b (wordEncode_safe e cs s hcs b hb)

end GoMail.EncodedWord
