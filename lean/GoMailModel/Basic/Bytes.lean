/-
  Basic byte-string vocabulary shared by every model.
  Go `string` and `[]byte` are both `Bytes`; nothing is assumed to be UTF-8.
-/
namespace GoMail

abbrev Bytes := List UInt8

def cr : UInt8 := 13
def lf : UInt8 := 10
def crlf : Bytes := [13, 10]

/-- ASCII bytes of a Lean string literal (used for protocol keywords only; every literal in the
    models is ASCII). Defined through `String.toList` so that it reduces in the kernel. -/
def sb (s : String) : Bytes := s.toList.map (fun c => c.toNat.toUInt8)

/-- Byte-table facts are proved by enumerating `Fin 256` in the kernel. -/
theorem forall_uint8 {P : UInt8 → Prop} (h : ∀ n : Fin 256, P (UInt8.ofNat n.val)) : ∀ b, P b := by
  intro b
  have := h ⟨b.toNat, b.toNat_lt⟩
  simpa using this

/-- `pre` is a prefix of `xs` (Go `bytes.HasPrefix`). -/
def hasPrefix : Bytes → Bytes → Bool
  | _, [] => true
  | [], _ :: _ => false
  | x :: xs, p :: ps => x == p && hasPrefix xs ps

/-- first index at which `pat` occurs in `xs` (Go `bytes.Index`), `none` if absent. -/
def indexOf (pat : Bytes) : Bytes → Option Nat
  | [] => if pat.isEmpty then some 0 else none
  | x :: xs =>
    if hasPrefix (x :: xs) pat then some 0
    else (indexOf pat xs).map (· + 1)

def containsSub (pat xs : Bytes) : Bool := (indexOf pat xs).isSome

/-- Split on CRLF: `joinCRLF (splitCRLF x) = x` for every `x`. -/
def splitCRLFAux : Bytes → Bytes → List Bytes
  | acc, [] => [acc.reverse]
  | acc, 13 :: 10 :: rest => acc.reverse :: splitCRLFAux [] rest
  | acc, b :: rest => splitCRLFAux (b :: acc) rest

def splitCRLF (xs : Bytes) : List Bytes := splitCRLFAux [] xs

def joinWith (sep : Bytes) : List Bytes → Bytes
  | [] => []
  | [l] => l
  | l :: ls => l ++ sep ++ joinWith sep ls

def joinCRLF (ls : List Bytes) : Bytes := joinWith crlf ls

/-- Go `strings.Split(s, sep)` for a one-byte separator. Always returns at least one piece. -/
def splitOnAux (sep : UInt8) : Bytes → Bytes → List Bytes
  | acc, [] => [acc.reverse]
  | acc, b :: rest => if b == sep then acc.reverse :: splitOnAux sep [] rest else splitOnAux sep (b :: acc) rest

def splitOn (sep : UInt8) (xs : Bytes) : List Bytes := splitOnAux sep [] xs

/-- Go `strings.ReplaceAll(s, old, new)` (non-empty `old`, leftmost non-overlapping). -/
def replaceAll (old new : Bytes) : Bytes → Bytes
  | [] => []
  | x :: xs =>
    if old ≠ [] ∧ hasPrefix (x :: xs) old then
      new ++ replaceAll old new ((x :: xs).drop old.length)
    else x :: replaceAll old new xs
termination_by xs => xs.length
decreasing_by
  all_goals simp_wf
  all_goals (try omega)
  rename_i h
  have : old.length ≥ 1 := by
    cases old with
    | nil => exact absurd rfl h.1
    | cons _ _ => simp
  omega

/-- number of non-overlapping occurrences (Go `strings.Count`, non-empty pattern). -/
def countSub (pat : Bytes) : Bytes → Nat
  | [] => 0
  | x :: xs =>
    if pat ≠ [] ∧ hasPrefix (x :: xs) pat then
      1 + countSub pat ((x :: xs).drop pat.length)
    else countSub pat xs
termination_by xs => xs.length
decreasing_by
  all_goals simp_wf
  all_goals (try omega)
  rename_i h
  have : pat.length ≥ 1 := by
    cases pat with
    | nil => exact absurd rfl h.1
    | cons _ _ => simp
  omega

def hexDigit (n : UInt8) : UInt8 := if n < 10 then 48 + n else 87 + n        -- lower case
def hexDigitU (n : UInt8) : UInt8 := if n < 10 then 48 + n else 55 + n       -- upper case

def toHex : Bytes → Bytes
  | [] => []
  | b :: bs => hexDigit (b >>> 4) :: hexDigit (b &&& 15) :: toHex bs

def unhex (c : UInt8) : Option UInt8 :=
  if 48 ≤ c ∧ c ≤ 57 then some (c - 48)
  else if 97 ≤ c ∧ c ≤ 102 then some (c - 87)
  else if 65 ≤ c ∧ c ≤ 70 then some (c - 55)
  else none

def fromHex : Bytes → Option Bytes
  | [] => some []
  | [_] => none
  | a :: b :: rest =>
    match unhex a, unhex b, fromHex rest with
    | some x, some y, some r => some ((x <<< 4 ||| y) :: r)
    | _, _, _ => none

def natToDec (n : Nat) : Bytes := sb (toString n)

end GoMail
