import GoMailModel.Eml.Body
import GoMailModel.Mime.Render
/-
  What the standard library's view of a RENDERED message looks like, as far as the EML body logic
  reads it (`Matches`), for the entity tree the writer produces (`XEnt`, cf. `Mime.contentTree`), and
  what the EML body logic is expected to store for that tree (`effects`).

  `matches` is a decidable relation between the expected tree and a view. It is a claim about
  net/mail, mime.ParseMediaType, mime/multipart and the transfer decoders applied to go-mail's own
  output; it is not proved but evaluated by the driver on the real view of every real rendering the
  harness produces (suite c10-eml-view). Only the fields the body logic reads are constrained.
-/
namespace GoMail.Eml
open GoMail

structure XPart where
  ctype   : Bytes
  charset : Bytes
  enc     : Bytes
  content : Bytes
deriving Repr, DecidableEq

structure XFile where
  attach  : Bool
  name    : Bytes            -- File.Name as set by the caller
  enc     : Bytes            -- transfer encoding label written for the file
  content : Bytes
  cid     : Bytes            -- the Content-ID field value as written ("" = no such field)
deriving Repr, DecidableEq

inductive XEnt
  | part (p : XPart)
  | file (f : XFile)
  | multi (subtype : Bytes) (kids : List XEnt)

/-- the content a transfer decoder hands back for the body the writer produces: for quoted-printable
    the RFC 2045 decoding of the writer's encoding (= the content with its line breaks made CRLF,
    `QP.roundtrip`), otherwise the content itself -/
def asRead (enc content : Bytes) : Bytes :=
  if eqFold enc eQP then QP.decode (Body.encodeBody .qp content) else content

def isB64 (enc : Bytes) : Bool := eqFold enc eB64
def isRaw (enc : Bytes) : Bool := eqFold enc e7bit || eqFold enc e8bit

/-- a body part behind a delimiter -/
def matchPart (p : XPart) (v : VEnt) : Bool :=
  v.ctypes == [p.ctype ++ sb "; charset=" ++ p.charset] && v.disps == [] &&
  (if eqFold p.enc eQP then v.ctes == [] && v.body == some (asRead p.enc p.content)
   else if isB64 p.enc then v.ctes == [p.enc] && v.body.isSome && v.b64str == some p.content
   else if isRaw p.enc then v.ctes == [p.enc] && v.body == some p.content
   else false)

/-- an attachment or embed behind a delimiter -/
def matchFile (f : XFile) (v : VEnt) : Bool :=
  v.disps != [] &&
  (match v.cd with
   | some cd => cd.mediatype == (if f.attach then sb "attachment" else sb "inline") &&
                cd.filename.isSome && cd.decoded == some (Body.sanitizeFilename f.name)
   | none => false) &&
  v.cid == f.cid &&
  !nestedOf v.ctypes &&
  (if eqFold f.enc eQP then v.ctes == [] && v.body == some (asRead f.enc f.content)
   else if isB64 f.enc then v.ctes == [f.enc] && v.body.isSome && v.b64stream == some f.content
   else v.ctes == [f.enc] && !(f.enc.contains 59) && v.body == some f.content)

mutual
/-- a view matches an entity behind a delimiter -/
def matchEnt : XEnt → VEnt → Bool
  | .part p, v => matchPart p v
  | .file f, v => matchFile f v
  | .multi st kids, v =>
    (match v.ctypes with
     | [ct0] => (parseMultiPartHeader ct0).1 == sb "multipart/" ++ st
     | _ => false) &&
    v.disps == [] && v.mt.status == 0 && v.mt.mediatype == sb "multipart/" ++ st && v.mt.charset == none &&
    v.mt.boundary.isSome && v.body.isSome && v.endOk && matchList kids v.kids

def matchList : List XEnt → List VEnt → Bool
  | [], [] => true
  | x :: xs, v :: vs => matchEnt x v && matchList xs vs
  | _, _ => false
end

/-- the top-level entity of a message: a multipart, or a single body part -/
def matchTop : XEnt → VEnt → Bool
  | .multi st kids, v =>
    v.ctes == [] &&
    (match v.ctypes with
     | [ct0] => optGet (parseMultiPartHeader ct0).2 (sb "charset") == none
     | _ => false) &&
    v.mt.status == 0 && v.mt.mediatype == sb "multipart/" ++ st && v.mt.charset == none &&
    v.mt.boundary.isSome && v.body.isSome && v.endOk && matchList kids v.kids
  | .part p, v =>
    v.ctypes == [p.ctype ++ sb "; charset=" ++ p.charset] && v.ctes == [p.enc] &&
    v.mt.status == 0 && v.mt.mediatype == p.ctype && v.mt.charset == some p.charset && v.body.isSome &&
    (if eqFold p.enc eQP then v.qp == some (asRead p.enc p.content)
     else if isB64 p.enc then v.b64stream == some p.content
     else if isRaw p.enc then v.body == some p.content
     else false)
  | .file _, _ => false

/-- what parsing is expected to store, in order -/
structure Stored where
  parts  : List EPart := []
  atts   : List EFile := []
  embeds : List EFile := []
deriving Repr, DecidableEq

def Stored.append (a b : Stored) : Stored :=
  { parts := a.parts ++ b.parts, atts := a.atts ++ b.atts, embeds := a.embeds ++ b.embeds }

def encLabel (enc : Bytes) : Bytes :=
  if eqFold enc e7bit then e7bit else if eqFold enc e8bit then e8bit else if eqFold enc eB64 then eB64 else eQP

def storedPart (p : XPart) : EPart :=
  { ctype := p.ctype, charset := p.charset, enc := encLabel p.enc, content := asRead p.enc p.content }

def storedFile (f : XFile) : EFile :=
  { name := Body.sanitizeFilename f.name, data := asRead f.enc f.content,
    cid := if f.attach then none else
      let c := (parseMultiPartHeader f.cid).1
      if c == [] then none else some c }

mutual
def effects : XEnt → Stored
  | .part p => { parts := [storedPart p] }
  | .file f => if f.attach then { atts := [storedFile f] } else { embeds := [storedFile f] }
  | .multi _ kids => effectsL kids
def effectsL : List XEnt → Stored
  | [] => {}
  | x :: xs => (effects x).append (effectsL xs)
end

/-- the entities go-mail nests are multipart/related and multipart/alternative; the parser supports
    text/plain and text/html parts; header parameters must not contain ';' -/
def okPart (p : XPart) : Bool :=
  (p.ctype == tTextPlain || p.ctype == tTextHTML) && !(p.charset.contains 59) &&
  (eqFold p.enc eQP || isB64 p.enc || isRaw p.enc)

mutual
def okEnt : XEnt → Bool
  | .part p => okPart p
  | .file _ => true
  | .multi st kids => (st == sb "related" || st == sb "alternative") && okList kids
def okList : List XEnt → Bool
  | [] => true
  | x :: xs => okEnt x && okList xs
end

def okTop : XEnt → Bool
  | .multi st kids => (st == sb "mixed" || st == sb "related" || st == sb "alternative") && okList kids
  | .part p => okPart p
  | .file _ => false

def xPartOf (s : Mime.MsgState) (p : Mime.Part) : XPart :=
  { ctype := p.ctype, charset := if p.charset.isEmpty then s.charset else p.charset, enc := p.enc, content := p.prod.content }

def xFileOf (s : Mime.MsgState) (attach : Bool) (f : Mime.FileM) : XFile :=
  { attach := attach, name := f.name, enc := if f.enc.isEmpty then Mime.encB64 else f.enc, content := f.prod.content,
    cid := (Mime.hmGet (Mime.fileHeaders s attach f).header Mime.hContentID).getD [] }

/-- the body parts that are rendered -/
def keptParts (s : Mime.MsgState) : List Mime.Part := s.parts.filter (fun x => !x.deleted && !x.smime)

/-- the entities of a message at the top level, as `Mime.contentTree` builds them (same three
    decisions, same order) -/
def xtop (s : Mime.MsgState) : List XEnt :=
  let parts := (keptParts s).map (fun p => XEnt.part (xPartOf s p))
  let embeds := s.embeds.map (fun f => XEnt.file (xFileOf s false f))
  let atts := s.attachments.map (fun f => XEnt.file (xFileOf s true f))
  let alt := if Mime.hasAlt s then [XEnt.multi (sb "alternative") parts] else parts
  let rel := if Mime.hasRelated s then [XEnt.multi (sb "related") (alt ++ embeds)] else alt ++ embeds
  if Mime.hasMixed s then [XEnt.multi (sb "mixed") (rel ++ atts)] else rel ++ atts

/-- the entity tree of a message: defined when the message is ONE entity -/
def xtreeOf (s : Mime.MsgState) : Option XEnt :=
  match xtop s with
  | [t] => some t
  | _ => none

end GoMail.Eml
