import GoMailModel.Basic.Bytes
/-
  eml.go: parseMultiPartHeader (hand-rolled ';' / '=' splitting of header parameters) and the file
  name extraction of parseEMLAttachmentEmbed, with Go's slice expressions modelled so that an
  out-of-range slice is a `panic`, not silently totalised.
-/
namespace GoMail.Eml
open GoMail

/-- Go `s[i:j]` on a byte string: panics unless 0 ≤ i ≤ j ≤ len(s) -/
def goSlice (s : Bytes) (i j : Int) : Except String Bytes :=
  if 0 ≤ i ∧ i ≤ j ∧ j ≤ s.length then .ok ((s.drop i.toNat).take (j - i).toNat)
  else .error s!"slice bounds out of range [{i}:{j}] with length {s.length}"

/-- strings.TrimLeft(opt, " ") -/
def trimLeftSp (b : Bytes) : Bytes := b.dropWhile (· == 32)

/-- strings.SplitN(s, "=", 2) -/
def splitEq2 : Bytes → List Bytes
  | [] => [[]]
  | b :: rest =>
    if b == 61 then [[], rest]
    else match splitEq2 rest with
      | h :: t => (b :: h) :: t
      | [] => [[b]]

/-- parseMultiPartHeader: the part before the first ';' and the key=value options after it
    (a Go map: later assignments win; represented as an association list in assignment order) -/
def parseMultiPartHeader (v : Bytes) : Bytes × List (Bytes × Bytes) :=
  match splitOn 59 v with
  | [] => ([], [])
  | h :: opts =>
    (h, opts.filterMap (fun opt =>
      match splitEq2 (trimLeftSp opt) with
      | [k, val] => some (k, val)
      | _ => none))

def optGet (m : List (Bytes × Bytes)) (k : Bytes) : Option Bytes := (m.reverse.find? (·.1 == k)).map (·.2)

/-- the fallback file name extraction as it was before the bounds check: `name[1 : len(name)-1]` -/
def filenameUnguarded (name : Bytes) : Except String Bytes := goSlice name 1 ((name.length : Int) - 1)

/-- the file name extraction of parseEMLAttachmentEmbed (fallback path) as it is now -/
def filenameOf (name : Bytes) : Except String Bytes :=
  if name.length ≥ 2 ∧ name.head? = some 34 ∧ name.getLast? = some 34 then
    goSlice name 1 ((name.length : Int) - 1)
  else .ok name

end GoMail.Eml
