import GoMailModel.Eml.Params
/-
  eml.go: the body logic of the EML parser - parseEMLBodyParts, parseEMLBodyPlain, parseEMLMultipart,
  parseEMLAttachmentEmbed, handleEMLMultiPartBase64Encoding, parseEMLEncoding,
  parseEMLContentTypeCharset - over the VIEW of a message that the standard library hands to it.

  What net/mail.ReadMessage, mime.ParseMediaType, mime/multipart.Reader (NextPart, reading a part),
  quotedprintable.Reader, base64.NewDecoder / DecodeString and mime.WordDecoder.DecodeHeader return
  is a PARAMETER here (`VEnt`): the harness obtains it with exactly those calls on the same input and
  passes it to the model. What is modelled is everything eml.go itself decides: which entity is a
  body part, an attachment, an embed or a nested multipart; type, charset, encoding and content of
  every part; name, bytes and Content-ID of every file; which inputs are refused; the order.
-/
namespace GoMail.Eml
open GoMail

/-- result of mime.ParseMediaType on the Content-Type field -/
structure MT where
  status    : Nat              -- 0 ok, 1 "mime: no media type", 2 any other error
  mediatype : Bytes
  charset   : Option Bytes     -- params["charset"]
  boundary  : Option Bytes     -- params["boundary"]
deriving Repr, DecidableEq

/-- result of mime.ParseMediaType on the first Content-Disposition value, when it succeeds -/
structure CD where
  mediatype : Bytes
  filename  : Option Bytes     -- params["filename"]
  decoded   : Option Bytes     -- WordDecoder.DecodeHeader(filename) when that succeeds
deriving Repr, DecidableEq

/-- the standard library's view of one entity: header values as eml.go reads them, what reading the
    body yields (`none` = the read fails), and for a multipart body the parts the multipart reader
    delivers until it stops (`endOk` = it stopped with io.EOF) -/
inductive VEnt
  | mk (ctypes disps ctes : List Bytes) (cid : Bytes) (mt : MT) (cd : Option CD)
       (body qp b64stream b64str : Option Bytes) (kids : List VEnt) (endOk : Bool)

namespace VEnt
def ctypes : VEnt → List Bytes | mk a _ _ _ _ _ _ _ _ _ _ _ => a
def disps : VEnt → List Bytes | mk _ a _ _ _ _ _ _ _ _ _ _ => a
def ctes : VEnt → List Bytes | mk _ _ a _ _ _ _ _ _ _ _ _ => a
def cid : VEnt → Bytes | mk _ _ _ a _ _ _ _ _ _ _ _ => a
def mt : VEnt → MT | mk _ _ _ _ a _ _ _ _ _ _ _ => a
def cd : VEnt → Option CD | mk _ _ _ _ _ a _ _ _ _ _ _ => a
def body : VEnt → Option Bytes | mk _ _ _ _ _ _ a _ _ _ _ _ => a
def qp : VEnt → Option Bytes | mk _ _ _ _ _ _ _ a _ _ _ _ => a
def b64stream : VEnt → Option Bytes | mk _ _ _ _ _ _ _ _ a _ _ _ => a
def b64str : VEnt → Option Bytes | mk _ _ _ _ _ _ _ _ _ a _ _ => a
def kids : VEnt → List VEnt | mk _ _ _ _ _ _ _ _ _ _ a _ => a
def endOk : VEnt → Bool | mk _ _ _ _ _ _ _ _ _ _ _ a => a
end VEnt

/-- a body part / a file as the parser stores it -/
structure EPart where
  ctype   : Bytes
  charset : Bytes
  enc     : Bytes
  content : Bytes
deriving Repr, DecidableEq

structure EFile where
  name : Bytes
  data : Bytes
  cid  : Option Bytes           -- WithFileContentID
deriving Repr, DecidableEq

/-- the part of the Msg the body logic writes to -/
structure ESt where
  charset : Bytes
  enc     : Bytes
  parts   : List EPart := []
  atts    : List EFile := []
  embeds  : List EFile := []
deriving Repr, DecidableEq

def lowerAscii (b : UInt8) : UInt8 := if 65 ≤ b ∧ b ≤ 90 then b + 32 else b

/-- the runes outside ASCII whose simple case folding reaches an ASCII letter, replaced by that
    letter: U+212A KELVIN SIGN (E2 84 AA) -> k, U+017F LONG S (C5 BF) -> s -/
def foldNorm : Bytes → Bytes
  | 0xE2 :: 0x84 :: 0xAA :: rest => 107 :: foldNorm rest
  | 0xC5 :: 0xBF :: rest => 115 :: foldNorm rest
  | b :: rest => lowerAscii b :: foldNorm rest
  | [] => []

/-- strings.EqualFold(s, c) for an ASCII constant c -/
def eqFold (s c : Bytes) : Bool := foldNorm s == c.map lowerAscii

/-- strings.ToLower(s) == c for an ASCII constant c: U+0130 (C4 B0) -> i, U+212A -> k -/
def lowerNorm : Bytes → Bytes
  | 0xE2 :: 0x84 :: 0xAA :: rest => 107 :: lowerNorm rest
  | 0xC4 :: 0xB0 :: rest => 105 :: lowerNorm rest
  | b :: rest => lowerAscii b :: lowerNorm rest
  | [] => []

def tTextPlain := sb "text/plain"
def tTextHTML := sb "text/html"
def tAlt := sb "multipart/alternative"
def tMixed := sb "multipart/mixed"
def tRelated := sb "multipart/related"
def e7bit := sb "7bit"
def e8bit := sb "8bit"
def eQP := sb "quoted-printable"
def eB64 := sb "base64"
def csASCII := sb "US-ASCII"

def isRelOrAlt (ct : Bytes) : Bool := eqFold ct tRelated || eqFold ct tAlt

/-- Msg.SetBodyString: ONE part with the message's current charset and encoding replaces all parts -/
def setBody (st : ESt) (ct content : Bytes) : ESt :=
  { st with parts := [{ ctype := ct, charset := st.charset, enc := st.enc, content := content }] }

/-- parseEMLBodyPlain -/
def bodyPlain (mediatype : Bytes) (e : VEnt) (data : Bytes) (st : ESt) : Except String ESt :=
  let cte := e.ctes.headD []
  if cte == [] || eqFold cte e7bit then .ok (setBody { st with enc := e7bit } mediatype data)
  else if eqFold cte e8bit then .ok (setBody { st with enc := e8bit } mediatype data)
  else if eqFold cte eQP then
    match e.qp with
    | some d => .ok (setBody { st with enc := eQP } mediatype d)
    | none => .error "qp"
  else if eqFold cte eB64 then
    match e.b64stream with
    | some d => .ok (setBody { st with enc := eB64 } mediatype d)
    | none => .error "base64"
  else .error "unsupported-cte"

/-- the file name parseEMLAttachmentEmbed arrives at, and the disposition type it switches on -/
def fileNameAndType (e : VEnt) : Bytes × Bytes :=
  let (cdType0, optional) := parseMultiPartHeader (e.disps.headD [])
  let fn0 := match optGet optional (sb "filename") with
    | some name =>
      if name.length ≥ 2 ∧ name.head? = some 34 ∧ name.getLast? = some 34 then (name.drop 1).take (name.length - 2) else name
    | none => sb "generic.attachment"
  match e.cd with
  | some cd =>
    (match cd.filename with
     | some n => (match cd.decoded with | some d => d | none => n)
     | none => fn0, cd.mediatype)
  | none => (fn0, cdType0)

/-- parseEMLAttachmentEmbed; `drained` = the part's reader has already been read to its end -/
def attachEmbed (e : VEnt) (drained : Bool) (st : ESt) : Except String ESt :=
  let (name, cdType) := fileNameAndType e
  let cte := (parseMultiPartHeader (e.ctes.headD [])).1
  let data : Option Bytes :=
    if eqFold cte eB64 then (if drained then some [] else e.b64stream)
    else (if drained then some [] else e.body)
  let kind := lowerNorm cdType
  if kind == sb "attachment" then
    match data with
    | some d => .ok { st with atts := st.atts ++ [{ name := name, data := d, cid := none }] }
    | none => .error "attach-read"
  else if kind == sb "inline" then
    let cid := (parseMultiPartHeader e.cid).1
    match data with
    | some d => .ok { st with embeds := st.embeds ++ [{ name := name, data := d, cid := if cid == [] then none else some cid }] }
    | none => .error "embed-read"
  else .error "unsupported-disposition"

/-- the tail of the loop body of parseEMLMultipart for an entity that is neither a file nor (after
    the recursive descent) a nested multipart: a body part -/
def leafPart (e : VEnt) (data : Bytes) (st : ESt) : Except String (Option ESt) :=
  match e.ctypes with
  | [] => .error "no-content-type"
  | ct0 :: _ =>
    let (ct, optional) := parseMultiPartHeader ct0
    if isRelOrAlt ct then .ok none       -- goto ReadNextPart
    else
      let cs := match optGet optional (sb "charset") with | some c => c | none => st.charset
      let cte := match e.ctes with | [] => eQP | c :: _ => c
      let add (enc content : Bytes) : Except String (Option ESt) :=
        .ok (some { st with parts := st.parts ++ [{ ctype := ct, charset := cs, enc := enc, content := content }] })
      if eqFold cte e7bit then add e7bit data
      else if eqFold cte e8bit then add e8bit data
      else if eqFold cte eB64 then
        (match e.b64str with
         | some d => add eB64 d
         | none => .error "base64-part")
      else if eqFold cte eQP then add eQP data
      else .error "unsupported-part-cte"

/-- exactly one Content-Type value and it names multipart/related or multipart/alternative -/
def nestedOf : List Bytes → Bool
  | [ct0] => isRelOrAlt (parseMultiPartHeader ct0).1
  | _ => false

/-- parseEMLBodyParts on an entity; `mp` is parseEMLMultipart on the parts of this entity -/
def bodyPartsCore (e : VEnt) (st : ESt) (mp : ESt → Except String ESt) : Except String ESt :=
  let mt := e.mt
  if mt.status ≥ 2 then .error "content-type"
  else
    let mediatype := if mt.status == 1 then tTextPlain else mt.mediatype
    let charset := if mt.status == 1 then some csASCII else mt.charset
    let boundary := if mt.status == 1 then none else mt.boundary
    let st := match charset with | some c => { st with charset := c } | none => st
    match e.body with
    | none => .error "read"
    | some data =>
      if eqFold mediatype tTextPlain || eqFold mediatype tTextHTML then bodyPlain mediatype e data st
      else if eqFold mediatype tAlt || eqFold mediatype tMixed || eqFold mediatype tRelated then
        match boundary with
        | none => .error "no-boundary"
        | some _ => mp st
      else .error "unknown-content-type"

mutual
/-- parseEMLMultipart: the parts the multipart reader delivers, in order; then how the reader stopped -/
def multipart : List VEnt → Bool → ESt → Except String ESt
  | [], endOk, st => if endOk then .ok st else .error "multipart-reader"
  | k :: rest, endOk, st =>
    match onePart k st with
    | .error e => .error e
    | .ok st' => multipart rest endOk st'

/-- one iteration of the loop of parseEMLMultipart -/
def onePart : VEnt → ESt → Except String ESt
  | .mk ctypes disps ctes cid mt cd body qp b64stream b64str kids endOk, st =>
    let e := VEnt.mk ctypes disps ctes cid mt cd body qp b64stream b64str kids endOk
    let nested := nestedOf ctypes
    -- nested multipart/related or multipart/alternative: read it and descend
    let r1 : Except String ESt :=
      if nested then
        (match body with
         | none => .error "nested-read"
         | some _ => bodyPartsCore e st (fun s => multipart kids endOk s))
      else .ok st
    match r1 with
    | .error err => .error err
    | .ok st1 =>
      if disps ≠ [] then attachEmbed e nested st1
      else
        match (if nested then some [] else body) with
        | none => .error "part-read"
        | some data =>
          match leafPart e data st1 with
          | .error err => .error err
          | .ok none => .ok st1
          | .ok (some st2) => .ok st2
end

/-- parseEMLBodyParts -/
def bodyParts (e : VEnt) (st : ESt) : Except String ESt :=
  bodyPartsCore e st (fun s => multipart e.kids e.endOk s)

/-- parseEMLEncoding and parseEMLContentTypeCharset (from parseEMLHeaders), then parseEMLBodyParts -/
def parseBody (top : VEnt) (st0 : ESt) : Except String ESt :=
  let cte := top.ctes.headD []
  let st1 := if cte == [] then st0
    else if eqFold cte eQP then { st0 with enc := eQP }
    else if eqFold cte eB64 then { st0 with enc := eB64 }
    else { st0 with enc := e8bit }
  let ctv := top.ctypes.headD []
  let st2 := if ctv == [] then st1
    else match optGet (parseMultiPartHeader ctv).2 (sb "charset") with
      | some c => { st1 with charset := c }
      | none => st1
  bodyParts top st2

end GoMail.Eml
