import GoMailModel.Basic.Bytes
/-
  encoding/base64 StdEncoding (padded), as used by go-mail for bodies, files, SASL framing
  and RFC 2047 "B" words; plus a decoder written from RFC 4648 §4.
-/
namespace GoMail.Base64
open GoMail

/-- alphabet lookup for a sextet (`n < 64`) -/
def char (n : UInt8) : UInt8 :=
  if n < 26 then 65 + n
  else if n < 52 then 71 + n        -- 'a' - 26
  else if n < 62 then n - 4         -- '0' - 52
  else if n == 62 then 43 else 47

def encode : Bytes → Bytes
  | [] => []
  | [a] => [char (a >>> 2), char ((a &&& 3) <<< 4), 61, 61]
  | [a, b] => [char (a >>> 2), char (((a &&& 3) <<< 4) ||| (b >>> 4)), char ((b &&& 15) <<< 2), 61]
  | a :: b :: c :: rest =>
    char (a >>> 2) :: char (((a &&& 3) <<< 4) ||| (b >>> 4)) ::
    char (((b &&& 15) <<< 2) ||| (c >>> 6)) :: char (c &&& 63) :: encode rest

/-- value of an alphabet character (RFC 4648 table 1) -/
def val (c : UInt8) : Option UInt8 :=
  if 65 ≤ c ∧ c ≤ 90 then some (c - 65)
  else if 97 ≤ c ∧ c ≤ 122 then some (c - 71)
  else if 48 ≤ c ∧ c ≤ 57 then some (c + 4)
  else if c == 43 then some 62
  else if c == 47 then some 63
  else none

/-- strict decoder: groups of four, padding only in the last group -/
def decode : Bytes → Option Bytes
  | [] => some []
  | [a, b, 61, 61] =>
    match val a, val b with
    | some x, some y => some [(x <<< 2) ||| (y >>> 4)]
    | _, _ => none
  | [a, b, c, 61] =>
    match val a, val b, val c with
    | some x, some y, some z => some [(x <<< 2) ||| (y >>> 4), (y <<< 4) ||| (z >>> 2)]
    | _, _, _ => none
  | a :: b :: c :: d :: rest =>
    match val a, val b, val c, val d, decode rest with
    | some x, some y, some z, some w, some r =>
      some (((x <<< 2) ||| (y >>> 4)) :: ((y <<< 4) ||| (z >>> 2)) :: ((z <<< 6) ||| w) :: r)
    | _, _, _, _, _ => none
  | _ => none

/-- Go `base64.StdEncoding.EncodedLen` -/
def encodedLen (n : Nat) : Nat := (n + 2) / 3 * 4

end GoMail.Base64
