import GoMailModel.Basic.Bytes
/-
  Model of /repo/b64linebreaker.go: `base64LineBreaker.Write` / `Close`.
  `line` is `l.line[0:l.used]`; `out` is everything handed to `l.out` so far.
  The Go recursion `l.Write(data[excess:])` terminates only because `used < 76`
  on entry; the model carries that invariant as an argument.
-/
namespace GoMail.LineBreaker
open GoMail

def maxBody : Nat := 76

structure St where
  line : Bytes
  out  : Bytes
deriving Repr, DecidableEq

/-- b64linebreaker.go:42-74 -/
def write (line out data : Bytes) (_h : line.length < 76) : St :=
  if line.length + data.length < 76 then ⟨line ++ data, out⟩
  else
    let excess := 76 - line.length
    write [] (out ++ line ++ data.take excess ++ crlf) (data.drop excess) (by simp)
termination_by data.length
decreasing_by simp [List.length_drop]; omega

theorem write_line_lt (line out data : Bytes) (h : line.length < 76) :
    (write line out data h).line.length < 76 := by
  fun_induction write line out data h with
  | case1 line out data h h2 => simpa using h2
  | case2 line out data h h2 excess ih => exact ih

/-- b64linebreaker.go:80-94 -/
def close (s : St) : Bytes :=
  if s.line.length > 0 then s.out ++ s.line ++ crlf else s.out

/-- Specification: cut into 76-byte lines, each (including a shorter last one) followed by CRLF. -/
def wrap76 (xs : Bytes) : Bytes :=
  if xs.length < 76 then (if xs.length > 0 then xs ++ crlf else [])
  else xs.take 76 ++ crlf ++ wrap76 (xs.drop 76)
termination_by xs.length
decreasing_by simp [List.length_drop]; omega

theorem write_spec (line out data : Bytes) (h : line.length < 76) :
    close (write line out data h) = out ++ wrap76 (line ++ data) := by
  fun_induction write line out data h with
  | case1 line out data h h2 =>
    unfold close wrap76
    have : (line ++ data).length < 76 := by simpa using h2
    simp only [this, if_true]
    simp only [List.length_append]
    split <;> simp
  | case2 line out data h h2 excess ih =>
    rw [ih]
    have hlen : ¬ (line ++ data).length < 76 := by simpa using h2
    conv => rhs; unfold wrap76
    simp only [hlen, if_false]
    have e1 : (line ++ data).take 76 = line ++ data.take excess := by
      rw [List.take_append]
      have : line.take 76 = line := List.take_of_length_le (by omega)
      simp [this, excess]
    have e2 : (line ++ data).drop 76 = data.drop excess := by
      rw [List.drop_append]
      have : line.drop 76 = [] := List.drop_of_length_le (by omega)
      simp [this, excess]
    rw [e1, e2]
    simp [List.append_assoc]

/-- A whole stream of `Write` calls (any chunking) followed by `Close`. -/
def writeAll : (line out : Bytes) → (h : line.length < 76) → List Bytes → St
  | line, out, _, [] => ⟨line, out⟩
  | line, out, h, c :: cs =>
    writeAll (write line out c h).line (write line out c h).out (write_line_lt line out c h) cs

theorem write_out_line (line out data : Bytes) (h : line.length < 76) :
    (write line out data h).out ++ wrap76 ((write line out data h).line) = out ++ wrap76 (line ++ data) := by
  have := write_spec line out data h
  unfold close at this
  by_cases hp : (write line out data h).line.length > 0
  · simp only [hp, if_true] at this
    rw [← this]
    have hl := write_line_lt line out data h
    conv => lhs; unfold wrap76
    simp [hl, hp, List.append_assoc]
  · simp only [hp, if_false] at this
    rw [← this]
    have : (write line out data h).line = [] := by
      cases hq : (write line out data h).line with
      | nil => rfl
      | cons a b => simp [hq] at hp
    rw [this]; unfold wrap76; simp

theorem writeAll_spec (line out : Bytes) (h : line.length < 76) (chunks : List Bytes) :
    close (writeAll line out h chunks) = out ++ wrap76 (line ++ chunks.flatten) := by
  induction chunks generalizing line out with
  | nil =>
    simp only [writeAll, List.flatten_nil, List.append_nil]
    unfold close wrap76
    by_cases hp : line.length > 0 <;> simp [h, hp]
  | cons c cs ih =>
    simp only [writeAll]
    rw [ih]
    have := write_out_line line out c h
    -- out' ++ wrap76 (line' ++ rest) = out ++ wrap76 (line ++ c ++ rest)
    have key : ∀ (l o d : Bytes) (hl : l.length < 76) (rest : Bytes),
        (write l o d hl).out ++ wrap76 ((write l o d hl).line ++ rest) = o ++ wrap76 (l ++ d ++ rest) := by
      intro l o d hl rest
      fun_induction write l o d hl with
      | case1 l o d hl h2 => simp [List.append_assoc]
      | case2 l o d hl h2 excess ih2 =>
        rw [ih2]
        have hlen : ¬ (l ++ d ++ rest).length < 76 := by simp at h2 ⊢; omega
        conv => rhs; unfold wrap76
        simp only [hlen, if_false]
        have e1 : (l ++ d ++ rest).take 76 = l ++ d.take excess := by
          rw [List.append_assoc, List.take_append]
          have : l.take 76 = l := List.take_of_length_le (by omega)
          rw [this, List.take_append]
          have h3 : (76 - l.length - d.length) = 0 := by omega
          simp [h3, excess]
        have e2 : (l ++ d ++ rest).drop 76 = d.drop excess ++ rest := by
          rw [List.append_assoc, List.drop_append]
          have : l.drop 76 = [] := List.drop_of_length_le (by omega)
          rw [this, List.drop_append]
          have h3 : (76 - l.length - d.length) = 0 := by omega
          simp [h3, excess]
        rw [e1, e2]
        simp [List.append_assoc]
    rw [key]
    simp [List.append_assoc]

/-- every CRLF-terminated line produced by `wrap76` has at most 76 bytes when the input is CRLF-free -/
def linesOK (n : Nat) : Bytes → Prop := fun out => ∀ l ∈ splitCRLF out, l.length ≤ n

end GoMail.LineBreaker
