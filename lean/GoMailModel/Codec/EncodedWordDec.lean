import GoMailModel.Codec.EncodedWord
/-
  An RFC 2047 reader written from the grammar (section 2 and 6.2), as a byte-at-a-time automaton:
    encoded-word = "=?" charset "?" encoding "?" encoded-text "?="
  adjacent encoded-words are separated by linear white space that is NOT part of the text; the text
  of the words is concatenated. "Q": '_' is a blank, "=XX" is the byte XX, every other byte stands
  for itself; "B": RFC 4648 base64. This is the specification side of C02's "each free-text value
  decodes to the string that was set"; nothing here is taken from mime.WordDecoder.
-/
namespace GoMail.EncodedWord
open GoMail

inductive DS
  | open0                       -- expect '='
  | open1                       -- expect '?'
  | charset                     -- skip the charset up to '?'
  | encoding                    -- the encoding letter
  | open3 (e : UInt8)           -- expect '?'
  | q                           -- inside Q text
  | qend                        -- Q text: saw '?', expect '='
  | qh1                         -- Q text: saw '=', expect the first hex digit
  | qh2 (h : UInt8)             -- ... the second
  | b (acc : Bytes)             -- inside B text
  | bend (acc : Bytes)          -- B text: saw '?', expect '='
  | between                     -- after "?=": end of the value, or white space and the next word
  | ws                          -- inside that white space

def dec : DS → Bytes → Option Bytes
  | .between, [] => some []
  | _, [] => none
  | .open0, c :: r => if c == 61 then dec .open1 r else none
  | .open1, c :: r => if c == 63 then dec .charset r else none
  | .charset, c :: r => if c == 63 then dec .encoding r else dec .charset r
  | .encoding, c :: r => dec (.open3 c) r
  | .open3 e, c :: r =>
    if c != 63 then none
    else if e == 113 || e == 81 then dec .q r
    else if e == 98 || e == 66 then dec (.b []) r
    else none
  | .q, c :: r =>
    if c == 63 then dec .qend r
    else if c == 61 then dec .qh1 r
    else if c == 95 then (dec .q r).map (32 :: ·)
    else if c == 32 then none
    else (dec .q r).map (c :: ·)
  | .qend, c :: r => if c == 61 then dec .between r else none
  | .qh1, c :: r => dec (.qh2 c) r
  | .qh2 h, c :: r =>
    match unhex h, unhex c with
    | some a, some b => (dec .q r).map ((a * 16 + b) :: ·)
    | _, _ => none
  | .b acc, c :: r => if c == 63 then dec (.bend acc) r else dec (.b (acc ++ [c])) r
  | .bend acc, c :: r =>
    if c != 61 then none
    else match Base64.decode acc with
      | some d => (dec .between r).map (d ++ ·)
      | none => none
  | .between, c :: r => if c == 32 || c == 9 || c == 13 || c == 10 then dec .ws r else none
  | .ws, c :: r =>
    if c == 32 || c == 9 || c == 13 || c == 10 then dec .ws r
    else if c == 61 then dec .open1 r
    else none

/-- the text a header value made of encoded-words stands for -/
def decodeWords (v : Bytes) : Option Bytes := dec .open0 v

end GoMail.EncodedWord
