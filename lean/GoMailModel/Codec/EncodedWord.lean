import GoMailModel.Basic.Bytes
import GoMailModel.Codec.Base64
import GoMailModel.Codec.Utf8
/-
  Byte-exact model of Go's mime.WordEncoder.Encode (RFC 2047 "Q" and "B"), used by go-mail for
  every generic header value, file name and description (msg.go encodeString, msgwriter.go addFiles).
-/
namespace GoMail.EncodedWord
open GoMail

inductive Enc | q | b
deriving Repr, DecidableEq

/-- mime.needsEncoding: some byte is neither printable ASCII nor TAB -/
def needsEncoding (s : Bytes) : Bool := s.any (fun b => (b < 32 || b > 126) && b != 9)

def lower (b : UInt8) : UInt8 := if 65 ≤ b && b ≤ 90 then b + 32 else b

/-- strings.EqualFold(charset, "UTF-8") restricted to its ASCII behaviour -/
def isUTF8 (charset : Bytes) : Bool := charset.map lower == [117, 116, 102, 45, 56]

def maxContentLen : Nat := 63
def maxBase64Len : Nat := 45

def openWord (e : Enc) (charset : Bytes) : Bytes :=
  ([61, 63] : Bytes) ++ charset ++ ([63, (match e with | .q => (113 : UInt8) | .b => 98), 63] : Bytes)
def closeWord : Bytes := [63, 61]
def splitWord (e : Enc) (charset : Bytes) : Bytes := closeWord ++ ([32] : Bytes) ++ openWord e charset

def qByte (b : UInt8) : Bytes :=
  if b == 32 then [95]
  else if 33 ≤ b && b ≤ 126 && b != 61 && b != 63 && b != 95 then [b]
  else [61, hexDigitU (b >>> 4), hexDigitU (b &&& 15)]

def qString (s : Bytes) : Bytes := (s.map qByte).flatten

def qLoop (charset : Bytes) : Bytes → Nat → Bytes
  | [], _ => []
  | b :: rest, cur =>
    let plain := 32 ≤ b && b ≤ 126 && b != 61 && b != 63 && b != 95
    let rl := if plain then 1 else Utf8.runeLen (b :: rest)
    let encLen := if plain then 1 else 3 * rl
    let pre := if cur + encLen > maxContentLen then splitWord .q charset else []
    let cur := if cur + encLen > maxContentLen then 0 else cur
    pre ++ qString ((b :: rest).take rl) ++ qLoop charset ((b :: rest).drop rl) (cur + encLen)
termination_by s => s.length
decreasing_by
  simp only [List.length_drop, List.length_cons]
  have := Utf8.runeLen_pos b rest
  split <;> omega

def qEncode (charset s : Bytes) : Bytes :=
  if !isUTF8 charset then qString s else qLoop charset s 0

def bLoop (charset : Bytes) : Bytes → Bytes → Nat → Bytes
  | pending, [], _ => Base64.encode pending
  | pending, b :: rest, cur =>
    let rl := Utf8.runeLen (b :: rest)
    if cur + rl ≤ maxBase64Len then
      bLoop charset (pending ++ (b :: rest).take rl) ((b :: rest).drop rl) (cur + rl)
    else
      Base64.encode pending ++ splitWord .b charset ++
        bLoop charset ((b :: rest).take rl) ((b :: rest).drop rl) rl
termination_by _ s _ => s.length
decreasing_by
  all_goals simp only [List.length_drop, List.length_cons]
  all_goals have := Utf8.runeLen_pos b rest
  all_goals omega

def bEncode (charset s : Bytes) : Bytes :=
  if !isUTF8 charset || Base64.encodedLen s.length ≤ maxContentLen then Base64.encode s
  else bLoop charset [] s 0

def encodeWord (e : Enc) (charset s : Bytes) : Bytes :=
  openWord e charset ++ (match e with | .q => qEncode charset s | .b => bEncode charset s) ++ closeWord

/-- mime.WordEncoder.Encode -/
def wordEncode (e : Enc) (charset s : Bytes) : Bytes :=
  if needsEncoding s then encodeWord e charset s else s

end GoMail.EncodedWord
