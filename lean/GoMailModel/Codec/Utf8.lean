import GoMailModel.Basic.Bytes
/-
  Width of the first rune of a byte string exactly as Go's `utf8.DecodeRuneInString` reports it
  (invalid or truncated sequences have width 1). Needed because mime.WordEncoder never splits a
  multi-byte character across encoded-words.
-/
namespace GoMail.Utf8
open GoMail

def isCont (b : UInt8) : Bool := 0x80 ≤ b && b ≤ 0xBF

/-- (size, lo, hi) for a lead byte, `none` for ASCII / invalid lead bytes (width 1) -/
def lead (b : UInt8) : Option (Nat × UInt8 × UInt8) :=
  if 0xC2 ≤ b && b ≤ 0xDF then some (2, 0x80, 0xBF)
  else if b == 0xE0 then some (3, 0xA0, 0xBF)
  else if 0xE1 ≤ b && b ≤ 0xEC then some (3, 0x80, 0xBF)
  else if b == 0xED then some (3, 0x80, 0x9F)
  else if 0xEE ≤ b && b ≤ 0xEF then some (3, 0x80, 0xBF)
  else if b == 0xF0 then some (4, 0x90, 0xBF)
  else if 0xF1 ≤ b && b ≤ 0xF3 then some (4, 0x80, 0xBF)
  else if b == 0xF4 then some (4, 0x80, 0x8F)
  else none

def runeLen : Bytes → Nat
  | [] => 0
  | s0 :: rest =>
    match lead s0 with
    | none => 1
    | some (sz, lo, hi) =>
      if rest.length + 1 < sz then 1
      else match rest with
        | [] => 1
        | s1 :: r1 =>
          if s1 < lo || hi < s1 then 1
          else if sz ≤ 2 then 2
          else match r1 with
            | [] => 1
            | s2 :: r2 =>
              if !isCont s2 then 1
              else if sz ≤ 3 then 3
              else match r2 with
                | [] => 1
                | s3 :: _ => if !isCont s3 then 1 else 4

theorem runeLen_pos (b : UInt8) (r : Bytes) : 1 ≤ runeLen (b :: r) := by
  simp only [runeLen]
  repeat' (first | omega | split)

theorem runeLen_le (s : Bytes) : runeLen s ≤ s.length := by
  cases s with
  | nil => simp [runeLen]
  | cons s0 rest =>
    simp only [runeLen]
    repeat' (first | (simp only [List.length_cons]; omega) | split)

end GoMail.Utf8
