import GoMailModel.Basic.Bytes
/-
  Byte-exact model of Go's mime/quotedprintable.Writer (Binary = false), which go-mail uses for
  every quoted-printable body (msgwriter.go writeBody), and an RFC 2045 §6.7 decoder.
  Writer state: `line` = w.line[:w.i], `out` = bytes flushed so far, `cr` = w.cr.
-/
namespace GoMail.QP
open GoMail

def lineMaxLen : Nat := 76

structure W where
  out  : Bytes
  line : Bytes
  cr   : Bool
deriving Repr, DecidableEq

def isWS (b : UInt8) : Bool := b == 32 || b == 9

/-- bytes that `Writer.Write` passes to `write` unescaped -/
def isLit (b : UInt8) : Bool :=
  (33 ≤ b && b ≤ 126 && b != 61) || isWS b || b == 10 || b == 13

def enc3 (b : UInt8) : Bytes := [61, hexDigitU (b >>> 4), hexDigitU (b &&& 15)]

def flush (w : W) : W := { w with out := w.out ++ w.line, line := [] }
def insertCRLF (w : W) : W := flush { w with line := w.line ++ [13, 10] }
def insertSoftLineBreak (w : W) : W := insertCRLF { w with line := w.line ++ [61] }

def encode (w : W) (b : UInt8) : W :=
  let w := if lineMaxLen - 1 - w.line.length < 3 then insertSoftLineBreak w else w
  { w with line := w.line ++ enc3 b }

def checkLastByte (w : W) : W :=
  match w.line.getLast? with
  | none => w
  | some b => if isWS b then encode { w with line := w.line.dropLast } b else w

/-- one iteration of the loop in `Writer.write` -/
def write1 (w : W) (b : UInt8) : W :=
  if b == 10 || b == 13 then
    if w.cr && b == 10 then { w with cr := false }
    else
      let w := if b == 13 then { w with cr := true } else w
      insertCRLF (checkLastByte w)
  else
    let w := if w.line.length == lineMaxLen - 1 then insertSoftLineBreak w else w
    { w with line := w.line ++ [b], cr := false }

def step (w : W) (b : UInt8) : W := if isLit b then write1 w b else encode w b

def close (w : W) : W := flush (checkLastByte w)

def encodeBytes (xs : Bytes) : Bytes := (close (xs.foldl step ⟨[], [], false⟩)).out

/-- RFC 2045 decoder: soft breaks vanish, `=XY` is a byte, everything else is literal. -/
def decode : Bytes → Bytes
  | [] => []
  | 61 :: 13 :: 10 :: rest => decode rest
  | 61 :: h1 :: h2 :: rest =>
    match unhex h1, unhex h2 with
    | some a, some b => (a * 16 + b) :: decode rest
    | _, _ => 61 :: decode (h1 :: h2 :: rest)
  | b :: rest => b :: decode rest

end GoMail.QP
