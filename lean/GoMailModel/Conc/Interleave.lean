/-
  E5: threads of the form `acq ; act* ; rel` over ONE lock, any number of threads, ANY schedule.
  A schedule is an arbitrary list of thread indices; a step that is not enabled aborts the run.
  Theorem: the observable trace is a concatenation of whole per-thread blocks, followed by at most
  one partial block of the current lock holder.
-/
namespace GoMail.Conc

inductive Act (α : Type) | acq | rel | act (a : α)
deriving Repr

structure St (α : Type) where
  progs  : Nat → List (Act α)
  holder : Option Nat
  trace  : List (Nat × α)

def upd {β} (f : Nat → β) (i : Nat) (v : β) : Nat → β := fun j => if j = i then v else f j

/-- one step of thread `i`; `none` when the thread has nothing to do or is blocked -/
def stepThread {α} (i : Nat) (s : St α) : Option (St α) :=
  match s.progs i with
  | [] => none
  | .acq :: rest =>
    match s.holder with
    | none => some { s with progs := upd s.progs i rest, holder := some i }
    | some _ => none
  | .rel :: rest =>
    if s.holder = some i then some { s with progs := upd s.progs i rest, holder := none } else none
  | .act a :: rest =>
    some { s with progs := upd s.progs i rest, trace := s.trace ++ [(i, a)] }

def exec {α} : List Nat → St α → Option (St α)
  | [], s => some s
  | i :: is, s => (stepThread i s).bind (exec is)

/-- the program of a thread that does `body` under the lock -/
def full {α} (body : Nat → List α) (i : Nat) : List (Act α) := .acq :: ((body i).map .act ++ [.rel])

def tag {α} (i : Nat) (l : List α) : List (Nat × α) := l.map (fun a => (i, a))

def blocks {α} (body : Nat → List α) (done : List Nat) : List (Nat × α) :=
  (done.map (fun i => tag i (body i))).flatten

/-- invariant of every reachable state -/
structure Inv {α} (body : Nat → List α) (s : St α) : Prop where
  ex : ∃ done : List Nat, ∃ part : List (Nat × α),
    s.trace = blocks body done ++ part ∧
    (s.holder = none → part = [] ∧ ∀ j, s.progs j = full body j ∨ s.progs j = []) ∧
    (∀ h, s.holder = some h →
      ∃ k, k ≤ (body h).length ∧ part = tag h ((body h).take k) ∧
        s.progs h = ((body h).drop k).map .act ++ [.rel] ∧
        ∀ j, j ≠ h → (s.progs j = full body j ∨ s.progs j = []))

theorem inv_init {α} (body : Nat → List α) : Inv body ⟨full body, none, []⟩ :=
  ⟨[], [], (by simp [blocks]), fun _ => ⟨rfl, fun j => Or.inl rfl⟩, fun h hh => (by cases hh)⟩

theorem inv_step {α} (body : Nat → List α) (i : Nat) (s s' : St α) (h : Inv body s)
    (hs : stepThread i s = some s') : Inv body s' := by
  obtain ⟨done, part, ht, hnone, hsome⟩ := h.ex
  unfold stepThread at hs
  cases hp : s.progs i with
  | nil => simp [hp] at hs
  | cons a rest =>
    simp only [hp] at hs
    cases a with
    | acq =>
      cases hh : s.holder with
      | some x => simp [hh] at hs
      | none =>
        simp only [hh] at hs
        cases hs
        obtain ⟨hpart, hprogs⟩ := hnone hh
        -- thread i was idle with its full program: it now holds the lock with nothing emitted yet
        have hfull : s.progs i = full body i := by
          rcases hprogs i with h1 | h1
          · exact h1
          · rw [hp] at h1; cases h1
        have hrest : rest = (body i).map .act ++ [.rel] := by
          rw [hp, full] at hfull; exact (List.cons.inj hfull).2
        refine ⟨done, [], (by simpa [hpart] using ht), fun hc => (by cases hc), ?_⟩
        intro h' hh'
        cases hh'
        refine ⟨0, Nat.zero_le _, (by simp [tag]), (by simp [upd, hrest]), ?_⟩
        intro j hj
        simp only [upd, hj, if_false]
        exact hprogs j
    | rel =>
      by_cases hh : s.holder = some i
      · simp only [hh, if_true] at hs
        cases hs
        obtain ⟨k, hk, hpart, hprog, hothers⟩ := hsome i hh
        -- the holder's remaining program starts with `rel`, so its whole body has been emitted
        have hk' : k = (body i).length := by
          rw [hp] at hprog
          cases hd : (body i).drop k with
          | nil =>
            have := List.drop_eq_nil_iff.mp hd
            omega
          | cons x xs => rw [hd] at hprog; simp at hprog
        have hrest : rest = [] := by
          rw [hp] at hprog
          have : (body i).drop k = [] := by rw [hk']; simp
          rw [this] at hprog; simpa using (List.cons.inj hprog).2
        refine ⟨done ++ [i], [], ?_, fun _ => ⟨rfl, ?_⟩, fun h' hh' => (by cases hh')⟩
        · rw [ht, hpart, hk']; simp [blocks]
        · intro j
          by_cases hj : j = i
          · right; simp [upd, hj, hrest]
          · simp only [upd, hj, if_false]; exact hothers j hj
      · simp [hh] at hs
    | act x =>
      cases hs
      cases hh : s.holder with
      | none =>
        -- an idle thread's program starts with `acq`, never with an action
        obtain ⟨_, hprogs⟩ := hnone hh
        rcases hprogs i with h1 | h1
        · rw [hp, full] at h1; cases h1
        · rw [hp] at h1; cases h1
      | some hd =>
        obtain ⟨k, hk, hpart, hprog, hothers⟩ := hsome hd hh
        by_cases hi : i = hd
        · subst hi
          rw [hp] at hprog
          cases hdr : (body i).drop k with
          | nil => rw [hdr] at hprog; simp at hprog
          | cons y ys =>
            rw [hdr] at hprog
            simp only [List.map_cons, List.cons_append] at hprog
            obtain ⟨hxy, hrest⟩ := List.cons.inj hprog
            cases hxy
            have hklt : k < (body i).length := by
              rcases Nat.lt_or_ge k (body i).length with hc | hc
              · exact hc
              · have : (body i).drop k = [] := List.drop_eq_nil_iff.mpr hc
                rw [this] at hdr; cases hdr
            have hget : (body i).drop (k + 1) = ys := by
              rw [← List.drop_drop, hdr]; rfl
            have htake : (body i).take (k + 1) = (body i).take k ++ [x] := by
              have h1 : (body i).take (k + 1) = (body i).take k ++ ((body i).drop k).take 1 := by
                rw [List.take_add]
              rw [h1, hdr]; rfl
            refine ⟨done, part ++ [(i, x)], (by simp [ht, List.append_assoc]), fun hc => (by cases hc), ?_⟩
            intro h' hh'
            cases hh'
            refine ⟨k + 1, (by omega), ?_, ?_, ?_⟩
            · rw [hpart, htake]; simp [tag]
            · simp [upd, hrest, hget]
            · intro j hj
              simp only [upd, hj, if_false]; exact hothers j hj
        · -- a thread that does not hold the lock cannot be at an action
          rcases hothers i hi with h1 | h1
          · rw [hp, full] at h1; cases h1
          · rw [hp] at h1; cases h1

theorem inv_exec {α} (body : Nat → List α) (sched : List Nat) (s s' : St α) (h : Inv body s)
    (hs : exec sched s = some s') : Inv body s' := by
  induction sched generalizing s with
  | nil => simp [exec] at hs; subst hs; exact h
  | cons i is ih =>
    simp only [exec] at hs
    cases hst : stepThread i s with
    | none => simp [hst] at hs
    | some s1 =>
      simp only [hst, Option.bind_some] at hs
      exact ih s1 (inv_step body i s s1 h hst) hs

/-- The atomic-blocks theorem. -/
theorem atomic_blocks {α} (body : Nat → List α) (sched : List Nat) (s' : St α)
    (h : exec sched ⟨full body, none, []⟩ = some s') :
    ∃ done part, s'.trace = blocks body done ++ part ∧ (s'.holder = none → part = []) ∧
      (∀ hd, s'.holder = some hd → ∃ k, part = tag hd ((body hd).take k)) := by
  obtain ⟨done, part, ht, hnone, hsome⟩ := (inv_exec body sched _ s' (inv_init body) h).ex
  refine ⟨done, part, ht, fun hh => (hnone hh).1, fun hd hh => ?_⟩
  obtain ⟨k, _, hp, _⟩ := hsome hd hh
  exact ⟨k, hp⟩

end GoMail.Conc
