import GoMailModel.Codec.QP
import GoMailModel.Codec.Base64
import GoMailModel.Codec.LineBreaker
import GoMailModel.Generated.Sanitize
/-
  msgWriter.writeBody (msgwriter.go): which bytes a content producer's output becomes under
  each Content-Transfer-Encoding, independently of how the producer chunks its writes.
  sanitizeFilename (msgwriter.go) with its byte set regenerated from the source.
-/
namespace GoMail.Body
open GoMail

/-- `Encoding` as far as writeBody distinguishes it -/
inductive CTE | qp | b64 | raw | other
deriving Repr, DecidableEq

/-- base64.NewEncoder(StdEncoding, &lineBreaker) + lineBreaker.Close -/
def b64Body (x : Bytes) : Bytes :=
  LineBreaker.close (LineBreaker.writeAll [] [] (by decide) [Base64.encode x])

def encodeBody : CTE → Bytes → Bytes
  | .qp, x => QP.encodeBytes x
  | .b64, x => b64Body x
  | .raw, x => x
  | .other, x => QP.encodeBytes x

/-- a producer that writes `chunks` one Write call each -/
def encodeChunks (e : CTE) (chunks : List Bytes) : Bytes := encodeBody e chunks.flatten

def sanitizeByte (b : UInt8) : UInt8 :=
  if b.toNat < Generated.sanitizeBelow || Generated.sanitizeSet.contains b.toNat then 95 else b

def sanitizeFilename (s : Bytes) : Bytes := s.map sanitizeByte

end GoMail.Body
