import GoMailModel.Mime.Msg
/-
  msgWriter.writeMsg / Msg.WriteTo (msgwriter.go, msg.go) as a *write plan*: the pure list of write
  actions a render performs, plus the state changes a render leaves behind in the Msg (Date,
  Message-ID, boundary cache, file header cache). `Exec.lean` interprets a plan against a sink that
  may fail; on a sink that never fails the output is the concatenation of the plan's bytes.
-/
namespace GoMail.Mime
open GoMail

/-- one write action of msgWriter -/
inductive WAct
  /-- a write guarded by the sticky error (`writeString`, `msgWriter.Write`), counted; `pre` is an
      assignment to `mw.err` made immediately before it (`startMP`: `mw.err = SetBoundary(..)`) -/
  | w (pre : Option Bool) (b : Bytes)
  /-- `writeBody` behind its `if mw.err == nil` guard: the encoded bytes, whether they go straight to
      the destination (depth 0) or through the part writer, and whether the producer returned an error -/
  | body (direct : Bool) (b : Bytes) (prodFails : Bool)
deriving Repr, DecidableEq

def WAct.bytes : WAct → Bytes
  | .w _ b => b
  | .body _ b _ => b

def planBytes (p : List WAct) : Bytes := (p.map WAct.bytes).flatten

/-- values a render takes from the clock, the random source and the signer -/
structure Entropy where
  date      : Bytes := []
  msgid     : Bytes := []
  bMixed    : Bytes := []
  bRelated  : Bytes := []
  bAlt      : Bytes := []
  bSigned   : Bytes := []
  signature : Bytes := []
deriving Repr, DecidableEq

/-- multipart.Writer.SetBoundary's validity rule -/
def boundaryChar (b : UInt8) : Bool :=
  (65 ≤ b && b ≤ 90) || (97 ≤ b && b ≤ 122) || (48 ≤ b && b ≤ 57) ||
  b == 39 || b == 40 || b == 41 || b == 43 || b == 95 || b == 44 || b == 45 || b == 46 ||
  b == 47 || b == 58 || b == 61 || b == 63 || b == 32

def validBoundary (b : Bytes) : Bool :=
  1 ≤ b.length && b.length ≤ 70 && b.all boundaryChar && b.getLast? != some 32

/-- plan writer: actions so far, open multiparts (boundary, a part was already created), header lines counted -/
structure PW where
  acts  : List WAct := []
  stack : List (Bytes × Bool) := []
  headerCount : Nat := 0
  /-- msgWriter.rawPartHeaders: set for the S/MIME signing pre-render -/
  rawPartHeaders : Bool := false
  /-- msgWriter.userBoundary: the outermost multipart of this render has taken the user's boundary -/
  userBnd : Bool := false
deriving Repr

def PW.depth (p : PW) : Nat := p.stack.length

def PW.str (p : PW) (b : Bytes) : PW := { p with acts := p.acts ++ [.w none b] }

/-- writeHeader; `count` says whether the caller adds the returned line count to msg.headerCount -/
def PW.header (p : PW) (count : Bool) (key : Bytes) (values : List Bytes) : PW :=
  let r := Fold.writeHeader key values
  if values.isEmpty then p
  else
    -- writeHeader issues two writeString calls: the folded buffer, then CRLF
    let bs := Fold.bufferString key values
    { p with acts := p.acts ++ [.w none bs, .w none crlf], headerCount := p.headerCount + (if count then r.2 else 0) }

/-- msgWriter.writePartHeader: headers of a part/file that is not nested in a multipart -/
def PW.partHeader (p : PW) (key : Bytes) (values : List Bytes) : PW :=
  if p.rawPartHeaders then
    values.foldl (fun p v => p.str (key ++ [58, 32] ++ v ++ crlf)) p
  else p.header false key values

/-- multipart.Writer.CreatePart through msgWriter.newPart -/
def PW.newPart (p : PW) (pre : Option Bool) (header : HeaderMap) : PW :=
  match p.stack with
  | [] => p
  | (b, last) :: rest =>
    let delim := (if last then crlf else []) ++ [45, 45] ++ b ++ crlf
    let hdr := (header.map (fun kv => kv.1 ++ [58, 32] ++ kv.2 ++ crlf)).flatten
    { p with acts := p.acts ++ [.w pre (delim ++ hdr ++ crlf)], stack := (b, true) :: rest }

/-- msgWriter.startMP. `given` is the boundary handed in (user boundary or cache, may be empty),
    `fresh` the random boundary multipart.NewWriter drew. Returns the boundary in effect. -/
def PW.startMP (p : PW) (mimeType given fresh : Bytes) : PW × Bytes :=
  let valid := validBoundary given
  let bnd := if given.isEmpty then fresh else if valid then given else fresh
  let pre : Option Bool := if given.isEmpty then none else some (!valid)
  let contentType := sb "multipart/" ++ mimeType ++ sb ";\r\n boundary=" ++ bnd
  let p' :=
    if p.depth == 0 then { p with acts := p.acts ++ [.w pre (sb "Content-Type: " ++ contentType)] }
    else p.newPart pre [(sb "Content-Type", contentType)]
  ({ p' with stack := (bnd, false) :: p'.stack }, bnd)

/-- msgWriter.stopMP -/
def PW.stopMP (p : PW) : PW :=
  match p.stack with
  | [] => p
  | (b, _) :: rest => { p with acts := p.acts ++ [.w none (crlf ++ [45, 45] ++ b ++ [45, 45] ++ crlf)], stack := rest }

def PW.body (p : PW) (enc : EncLabel) (prod : Producer) : PW :=
  { p with acts := p.acts ++ [.body (p.depth == 0) (Body.encodeBody (cteOf enc) prod.content) prod.fails] }

def hContentType : Bytes := sb "Content-Type"
def hCTE : Bytes := sb "Content-Transfer-Encoding"
def hContentDesc : Bytes := sb "Content-Description"
def hContentDisp : Bytes := sb "Content-Disposition"
def hContentID : Bytes := sb "Content-Id"

/-- msgWriter.writePart -/
def PW.writePart (p : PW) (s : MsgState) (part : Part) : PW :=
  let charset := if part.charset.isEmpty then s.charset else part.charset
  let contentType := if part.smime then part.ctype else part.ctype ++ sb "; charset=" ++ charset
  let desc := if part.desc.isEmpty then [] else EncodedWord.wordEncode (encoderOf s.encoding) s.charset part.desc
  let p :=
    if p.depth == 0 then
      let p := if part.desc.isEmpty then p else p.partHeader hContentDesc [desc]
      let p := p.partHeader hCTE [part.enc]
      let p := p.partHeader hContentType [contentType]
      p.str crlf
    else
      let h : HeaderMap := (if part.desc.isEmpty then [] else [(hContentDesc, desc)]) ++
        [(hCTE, part.enc), (hContentType, contentType)]
      p.newPart none h
  p.body part.enc part.prod

def sanitizeCtl (b : Bytes) : Bytes := b.map (fun c => if c < 32 || c == 127 then 95 else c)

/-- the header caching of addFiles; returns the file with its cached header map -/
def fileHeaders (s : MsgState) (isAttachment : Bool) (f : FileM) : FileM :=
  let encw := EncodedWord.wordEncode (encoderOf s.encoding) s.charset
  let h := f.header
  let h := if hmHas h hContentType then h else
    let mt := if !f.ctype.isEmpty then f.ctype else if f.typeByExt.isEmpty then sb "application/octet-stream" else f.typeByExt
    hmSet h hContentType (mt ++ sb "; name=\"" ++ encw (Body.sanitizeFilename f.name) ++ sb "\"")
  let encoding := if f.enc.isEmpty then encB64 else f.enc
  let h := if hmHas h hCTE then h else hmSet h hCTE encoding
  let h := if f.desc.isEmpty || hmHas h hContentDesc then h else hmSet h hContentDesc (encw f.desc)
  let h := if hmHas h hContentDisp then h else
    hmSet h hContentDisp ((if isAttachment then sb "attachment" else sb "inline") ++ sb "; filename=\"" ++
      encw (Body.sanitizeFilename f.name) ++ sb "\"")
  let h := if isAttachment || hmHas h hContentID then h else
    hmSet h hContentID ([60] ++ Body.sanitizeFilename f.name ++ [62])
  let h := match hmGet h hContentID with
    | some v => if v.isEmpty then h else hmSet h hContentID (sanitizeCtl v)
    | none => h
  { f with header := h }

/-- msgWriter.addFiles for one file (already with cached headers) -/
def PW.addFile (p : PW) (f : FileM) : PW :=
  let encoding := if f.enc.isEmpty then encB64 else f.enc
  let p :=
    if p.depth == 0 then
      (f.header.foldl (fun p kv => p.partHeader kv.1 [kv.2]) p).str crlf
    else p.newPart none f.header
  p.body encoding f.prod

def sortKeys (l : List (Bytes × α)) : List (Bytes × α) :=
  l.foldl (fun acc kv =>
    let (lo, hi) := acc.span (fun x => bytesLt x.1 kv.1 || x.1 == kv.1)
    lo ++ [kv] ++ hi) []

def userAgent : Bytes := sb ("go-mail v" ++ Generated.version ++ " // https://github.com/wneessen/go-mail")

/-- addDefaultHeader + checkUserAgent as a function on the generic header list: Date and Message-ID are
    set once, MIME-Version always, User-Agent / X-Mailer unless one of them is present or disabled -/
def defaultGen (s : MsgState) (e : Entropy) : List (Bytes × List Bytes) :=
  let g := s.gen
  let g := if (assocGet g (sb "Date")).isSome then g else assocSet g (sb "Date") [e.date]
  let g := if (assocGet g (sb "Message-ID")).isSome then g else assocSet g (sb "Message-ID") [e.msgid]
  let g := assocSet g (sb "MIME-Version") [encodeString s s.mimever]
  if s.noDefaultUA then g
  else if (assocGet g (sb "User-Agent")).isSome || (assocGet g (sb "X-Mailer")).isSome then g
  else assocSet (assocSet g (sb "User-Agent") [encodeString s userAgent]) (sb "X-Mailer") [encodeString s userAgent]

/-- the state a render leaves behind in genHeader -/
def defaultHeaders (s : MsgState) (e : Entropy) : MsgState := { s with gen := defaultGen s e }

def mimeSigned : Bytes := sb "signed; protocol=\"application/pkcs7-signature\"; micalg=sha-256"

/-- writeGenHeader (sorted), writePreformattedGenHeader (sorted), From / To / Cc / Reply-To -/
def stageHeaders (s : MsgState) (p : PW) : PW :=
  let p := (sortKeys s.gen).foldl (fun p kv => p.header true kv.1 kv.2) p
  let p := (sortKeys s.preform).foldl (fun p kv =>
    let line := kv.1 ++ [58, 32] ++ kv.2 ++ crlf
    { (p.str line) with headerCount := p.headerCount + countSub crlf line }) p
  let from_ := match addrGet s .from_ with
    | some (a :: _) => some a
    | _ => match addrGet s .envFrom with
      | some (a :: _) => some a
      | _ => none
  let p := match from_ with
    | some a => p.header true (sb "From") [a.str]
    | none => p
  [(AddrKind.to, sb "To"), (.cc, sb "Cc"), (.replyTo, sb "Reply-To")].foldl (fun p kn =>
    match addrGet s kn.1 with
    | some as => p.header true kn.2 (as.map (·.str))
    | none => p) p

/-- the boundary handed to startMP (getMultipartBoundary): the user's boundary for the outermost multipart;
    else the boundary remembered from an earlier render - unless that is the user's boundary and the
    outermost multipart of this render has taken it (a layer that was the outermost one earlier and is
    nested now): then none, and startMP draws a fresh one -/
def givenBoundary (s : MsgState) (p : PW) (cached : Bytes) : Bytes :=
  if !s.boundary.isEmpty && p.depth == 0 then s.boundary
  else if p.userBnd && cached == s.boundary then []
  else cached

/-- getMultipartBoundary notes that the outermost multipart has taken the user's boundary -/
def markUser (s : MsgState) (p : PW) : PW :=
  if !s.boundary.isEmpty && p.depth == 0 then { p with userBnd := true } else p

@[simp] theorem markUser_acts (s : MsgState) (p : PW) : (markUser s p).acts = p.acts := by
  unfold markUser; split <;> rfl
@[simp] theorem markUser_stack (s : MsgState) (p : PW) : (markUser s p).stack = p.stack := by
  unfold markUser; split <;> rfl
@[simp] theorem markUser_depth (s : MsgState) (p : PW) : (markUser s p).depth = p.depth := by
  unfold PW.depth; simp
@[simp] theorem markUser_raw (s : MsgState) (p : PW) : (markUser s p).rawPartHeaders = p.rawPartHeaders := by
  unfold markUser; split <;> rfl
@[simp] theorem markUser_headerCount (s : MsgState) (p : PW) : (markUser s p).headerCount = p.headerCount := by
  unfold markUser; split <;> rfl

/-- one `if msg.hasX() { startMP; cache; DoubleNewLine at depth 1 }` block -/
def openLayer (s : MsgState) (p : PW) (mimeType cached fresh : Bytes) : PW × Bytes :=
  let (p, b) := (markUser s p).startMP mimeType (givenBoundary s p cached) fresh
  (if p.depth == 1 then p.str (crlf ++ crlf) else p, b)

/-- the S/MIME wrapper and the mixed / related / alternative layers. The three layer decisions only
    read parts / embeds / attachments, so they are taken from the state as it is; the boundaries in
    effect go into the boundary cache. -/
def stageOpen (s : MsgState) (e : Entropy) (outer : Bool) (p : PW) : PW × MsgState :=
  let p0 := if outer then ((p.startMP mimeSigned e.bSigned e.bSigned).1).str (crlf ++ crlf) else p
  let r1 := if hasMixed s then openLayer s p0 (sb "mixed") s.bMixed e.bMixed else (p0, s.bMixed)
  let r2 := if hasRelated s then openLayer s r1.1 (sb "related") s.bRelated e.bRelated else (r1.1, s.bRelated)
  let r3 := if hasAlt s then openLayer s r2.1 (sb "alternative") s.bAlt e.bAlt else (r2.1, s.bAlt)
  (r3.1, { s with bMixed := r1.2, bRelated := r2.2, bAlt := r3.2 })

/-- body parts, embeds, attachments, with the closing delimiters of their layers; then the signature part -/
def stageContent (s : MsgState) (outer : Bool) (p : PW) (embeds attachments : List FileM) : PW :=
  let p := (s.parts.filter (fun x => !x.deleted && !x.smime)).foldl (fun p x => p.writePart s x) p
  let p := if hasAlt s then p.stopMP else p
  let p := embeds.foldl PW.addFile p
  let p := if hasRelated s then p.stopMP else p
  let p := attachments.foldl PW.addFile p
  let p := if hasMixed s then p.stopMP else p
  if outer then ((s.parts.filter (·.smime)).foldl (fun p x => p.writePart s x) p).stopMP else p

/-- msgWriter.writeMsg. `outer` = the S/MIME wrapper is written (hasSMIME ∧ ¬inProgress);
    `signing` = this is the signing pre-render (rawPartHeaders). -/
def writeMsg (s : MsgState) (e : Entropy) (outer : Bool) (signing : Bool := false) : PW × MsgState :=
  let s := defaultHeaders s e
  let p := stageHeaders s { rawPartHeaders := signing }
  let (p, s) := stageOpen s e outer p
  let embeds := s.embeds.map (fileHeaders s false)
  let attachments := s.attachments.map (fileHeaders s true)
  (stageContent s outer p embeds attachments, { s with embeds := embeds, attachments := attachments })

/-- skip `n` CRLF-terminated lines (Msg.signMessage's loop); `none` = "unable to find message body" -/
def skipLines : Nat → Bytes → Option Bytes
  | 0, b => some b
  | n + 1, b =>
    match indexOf crlf b with
    | none => none
    | some i => skipLines n (b.drop (i + 2))

def typeSMIMESigned : Bytes := sb "application/pkcs7-signature; name=\"smime.p7s\""

/-- what one Msg.WriteTo does: the plan, the new Msg state, and for signed messages the octets
    that were handed to the signer. `none` = WriteTo returned (0, err) before writing anything. -/
structure RenderPlan where
  plan   : List WAct
  state  : MsgState
  signed : Option Bytes := none

def renderPlan (s : MsgState) (e : Entropy) : Option RenderPlan :=
  if s.smime then
    let s0 := { s with parts := s.parts.filter (fun p => !p.smime) }
    let (pre, s1) := writeMsg s0 e false true
    match skipLines pre.headerCount (planBytes pre.acts) with
    | none => none
    | some octets =>
      let sig : Part := { ctype := typeSMIMESigned, charset := s1.charset, desc := [], enc := encB64,
                          prod := { content := e.signature }, smime := true }
      let s2 := { s1 with parts := s1.parts ++ [sig] }
      let (p, s3) := writeMsg s2 e true
      some { plan := p.acts, state := s3, signed := some octets }
  else
    let (p, s1) := writeMsg s e false
    some { plan := p.acts, state := s1 }

end GoMail.Mime
