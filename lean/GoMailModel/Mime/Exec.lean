import GoMailModel.Mime.Render
/-
  Interpreter of write plans against a destination that accepts `limit` bytes in total and then
  fails every non-empty write (a short write delivers what still fits). Mirrors msgWriter's
  bookkeeping: `n` = bytesWritten, `err` = the sticky error field.
-/
namespace GoMail.Mime
open GoMail

structure Sink where
  acc   : Bytes := []
  limit : Option Nat := none
deriving Repr, DecidableEq

/-- one Write call on the destination: bytes accepted and whether it reported success -/
def Sink.write (s : Sink) (b : Bytes) : Sink × Nat × Bool :=
  match s.limit with
  | none => ({ s with acc := s.acc ++ b }, b.length, true)
  | some k =>
    let room := k - s.acc.length
    if b.length ≤ room then ({ s with acc := s.acc ++ b }, b.length, true)
    else ({ s with acc := s.acc ++ b.take room }, room, false)

structure MW where
  n    : Nat := 0
  err  : Bool := false
  sink : Sink := {}
deriving Repr, DecidableEq

def MW.guarded (m : MW) (b : Bytes) : MW :=
  if m.err then m
  else
    let (s, k, ok) := m.sink.write b
    { n := m.n + k, err := !ok, sink := s }

def step (m : MW) : WAct → MW
  | .w pre b =>
    let m := match pre with
      | some v => { m with err := v }
      | none => m
    m.guarded b
  | .body direct b pf =>
    if m.err then m
    else
      let m := if pf then { m with err := true } else m
      if direct then
        -- io.Copy(mw.writer, &writeBuffer): not guarded by mw.err, bytes added to bytesWritten
        let (s, k, ok) := m.sink.write b
        { n := m.n + k, err := m.err || !ok, sink := s }
      else m.guarded b

def exec (plan : List WAct) (m : MW) : MW := plan.foldl step m

/-- result of Msg.WriteTo on a destination with the given limit: (bytes accepted, count returned, error?) -/
def writeTo (s : MsgState) (e : Entropy) (limit : Option Nat) : Option (Bytes × Nat × Bool × MsgState) :=
  match renderPlan s e with
  | none => none
  | some r =>
    let m := exec r.plan { sink := { limit := limit } }
    some (m.sink.acc, m.n, m.err, r.state)

end GoMail.Mime
