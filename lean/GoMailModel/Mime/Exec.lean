import GoMailModel.Mime.Render
/-
  Interpreter of write plans against a destination that accepts `limit` bytes in total and then
  fails every non-empty write (a short write delivers what still fits). Mirrors msgWriter's
  bookkeeping: `n` = bytesWritten, `err` = the sticky error field.
-/
namespace GoMail.Mime
open GoMail

structure Sink where
  acc   : Bytes := []
  limit : Option Nat := none
deriving Repr, DecidableEq

/-- how many bytes of a Write of `len` bytes the destination takes -/
def Sink.room (s : Sink) (len : Nat) : Nat :=
  match s.limit with
  | none => len
  | some k => min len (k - s.acc.length)

structure MW where
  n    : Nat := 0
  err  : Bool := false
  sink : Sink := {}
deriving Repr, DecidableEq

/-- one Write call on the destination, not guarded by the sticky error: the destination takes what
    fits, the count grows by that, the error is set when not everything fitted -/
def MW.put (m : MW) (b : Bytes) : MW :=
  { n := m.n + m.sink.room b.length,
    err := m.err || decide (m.sink.room b.length < b.length),
    sink := { m.sink with acc := m.sink.acc ++ b.take (m.sink.room b.length) } }

/-- msgWriter.Write / writeString: nothing happens once the error is set -/
def MW.guarded (m : MW) (b : Bytes) : MW := if m.err then m else m.put b

def MW.setErr (m : MW) (v : Bool) : MW := { m with err := v }

def step (m : MW) : WAct → MW
  | .w none b => m.guarded b
  | .w (some v) b => (m.setErr v).guarded b
  | .body direct b pf =>
    if m.err then m
    else
      let m' := if pf then m.setErr true else m
      -- depth 0: io.Copy(mw.writer, &writeBuffer) is not guarded by mw.err
      if direct then m'.put b else m'.guarded b

def exec (plan : List WAct) (m : MW) : MW := plan.foldl step m

/-- result of Msg.WriteTo on a destination with the given limit: (bytes accepted, count returned, error?) -/
def writeTo (s : MsgState) (e : Entropy) (limit : Option Nat) : Option (Bytes × Nat × Bool × MsgState) :=
  match renderPlan s e with
  | none => none
  | some r =>
    let m := exec r.plan { sink := { limit := limit } }
    some (m.sink.acc, m.n, m.err, r.state)

end GoMail.Mime
