import GoMailModel.Basic.Bytes
/-
  Model of msgWriter.writeHeader (msgwriter.go): header folding at existing blanks.
  `charLength` is a Go `int` that does go negative, hence `Int`.
-/
namespace GoMail.Fold
open GoMail

def maxHeaderLength : Int := 76

/-- the `for i, val := range words` loop; returns the buffer contents appended after "key: " -/
def loop : List Bytes → Int → Bytes
  | [], _ => []
  | [w], cl =>
    (if cl - w.length ≤ 1 then crlf ++ [32] else []) ++ w
  | w :: w2 :: ws, cl =>
    let brk := cl - w.length ≤ 1
    let cl := if brk then maxHeaderLength - 3 else cl
    (if brk then crlf ++ [32] else []) ++ w ++ [32] ++ loop (w2 :: ws) (cl - 1 - w.length)

/-- strings.Join(values, ", ") -/
def joinValues (values : List Bytes) : Bytes := joinWith [44, 32] values

/-- the string handed to `mw.writeString` before the final CRLF (`bufferString`) -/
def bufferString (key : Bytes) (values : List Bytes) : Bytes :=
  let cl : Int := maxHeaderLength - 2 - key.length - 2
  replaceAll ([32] ++ crlf) crlf (key ++ [58, 32] ++ loop (splitOn 32 (joinValues values)) cl)

/-- bytes written by writeHeader and the line count it returns -/
def writeHeader (key : Bytes) (values : List Bytes) : Bytes × Nat :=
  if values.isEmpty then ([], 0)
  else
    let bs := bufferString key values
    (bs ++ crlf, countSub crlf bs + 1)

end GoMail.Fold
