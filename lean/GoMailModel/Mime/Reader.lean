import GoMailModel.Basic.Bytes
/-
  An RFC 2046 §5.1.1 multipart body splitter, written from the grammar (independent of the writer):
  the body is cut at every occurrence of the delimiter CRLF "--" boundary; what stands before the
  first delimiter is the preamble, the delimiter followed by "--" closes the multipart, every other
  delimiter is followed by CRLF and a body part.
-/
namespace GoMail.Reader
open GoMail

/-- the pieces of `t` between the occurrences of `sep` (leftmost, non-overlapping); `skip` = bytes of an
    occurrence still to be skipped -/
def splitSub (sep : Bytes) : Bytes → Nat → Bytes → List Bytes
  | acc, _, [] => [acc]
  | acc, skip + 1, _ :: xs => splitSub sep acc skip xs
  | acc, 0, x :: xs =>
    if hasPrefix (x :: xs) sep && !sep.isEmpty then acc :: splitSub sep [] (sep.length - 1) xs
    else splitSub sep (acc ++ [x]) 0 xs

/-- the delimiter as it occurs inside a multipart body -/
def dl (b : Bytes) : Bytes := [13, 10, 45, 45] ++ b

/-- body parts of a multipart body with boundary `b`; none = not a well-formed multipart body.
    The body is read with a CRLF in front, so that a delimiter at its very start is found as well. -/
def splitParts (b : Bytes) (body : Bytes) : Option (List Bytes) :=
  match splitSub (dl b) [] 0 ([13, 10] ++ body) with
  | [] => none
  | _preamble :: rest =>
    match rest.getLast? with
    | none => none                       -- no delimiter at all
    | some last =>
      if !hasPrefix last [45, 45] then none          -- the last delimiter must be the closing one
      else
        let parts := rest.dropLast
        if parts.all (fun p => hasPrefix p [13, 10]) then some (parts.map (·.drop 2)) else none

end GoMail.Reader
