import GoMailModel.Basic.Bytes
import GoMailModel.Codec.EncodedWord
/-
  formatAddress (msg.go): the name-addr that FromFormat / AddToFormat / AddCcFormat / AddBccFormat /
  ReplyToFormat / EnvelopeFromFormat hand to the address parser, and the RFC 5322 quoted-string reader
  that gives the display name back.
-/
namespace GoMail.Addr
open GoMail

/-- strings.ReplaceAll(name, `\`, `\\`) then strings.ReplaceAll(_, `"`, `\"`): byte-wise, since the
    second pass cannot touch what the first one wrote (it only adds backslashes) -/
def escByte (b : UInt8) : Bytes := if b == 92 then [92, 92] else if b == 34 then [92, 34] else [b]

def escapeName (name : Bytes) : Bytes := (name.map escByte).flatten

/-- fmt.Sprintf(`"%s" <%s>`, name, addr) -/
def formatAddress (name addr : Bytes) : Bytes :=
  [34] ++ escapeName name ++ [34, 32, 60] ++ addr ++ [62]

/-- RFC 5322 quoted-string content after the opening quote: `\x` is x, an unescaped `"` ends it.
    Returns the content and what follows the closing quote; none = unterminated. -/
def readQuoted : Bytes → Option (Bytes × Bytes)
  | [] => none
  | 34 :: rest => some ([], rest)
  | 92 :: x :: rest => (readQuoted rest).map (fun (c, r) => (x :: c, r))
  | [92] => none
  | b :: rest => (readQuoted rest).map (fun (c, r) => (b :: c, r))

/-- name-addr reader: `"` quoted-string `" <` addr `>` -/
def readNameAddr : Bytes → Option (Bytes × Bytes)
  | 34 :: rest =>
    match readQuoted rest with
    | some (name, 32 :: 60 :: tail) =>
      match tail.getLast? with
      | some 62 => some (name, tail.dropLast)
      | _ => none
    | _ => none
  | _ => none

/-- addressString (msg.go): how an address is rendered (From/To/Cc/Reply-To fields, GetSender(true),
    the re-parse in addAddr). `std` = mail.Address.String() of the address, `spec` = the same for the
    bare address (`<local@domain>` with net/mail's quoting): both are net/mail's and taken as given. -/
def addressString (name std spec : Bytes) : Bytes :=
  if name.contains 92 && EncodedWord.needsEncoding name then
    EncodedWord.wordEncode .b (sb "utf-8") name ++ [32] ++ spec
  else std

end GoMail.Addr
