import GoMailModel.Basic.Bytes
import GoMailModel.Codec.EncodedWord
import GoMailModel.Mime.Body
import GoMailModel.Mime.Fold
import GoMailModel.Generated.Const
import GoMailModel.Generated.Nesting
/-
  The message state of go-mail's `Msg` as far as rendering observes it, and the builder
  operations of the public API as state transformers.

  External calls are parameters: `net/mail.ParseAddress` results (ok?, String(), bare address),
  `mime.TypeByExtension`, time and randomness (Date, Message-ID, boundaries, signature bytes).
-/
namespace GoMail.Mime
open GoMail

/-- Content-Transfer-Encoding label (`Encoding` is a Go string type) -/
abbrev EncLabel := Bytes

def encQP : EncLabel := sb "quoted-printable"
def encB64 : EncLabel := sb "base64"
def enc8bit : EncLabel := sb "8bit"
def enc7bit : EncLabel := sb "7bit"

/-- which branch of writeBody's switch an encoding label takes -/
def cteOf (e : EncLabel) : Body.CTE :=
  if e == encQP then .qp else if e == encB64 then .b64
  else if e == enc8bit || e == enc7bit then .raw else .other

/-- getEncoder (msg.go): base64 label -> B words, anything else -> Q words -/
def encoderOf (e : EncLabel) : EncodedWord.Enc := if e == encB64 then .b else .q

/-- a content producer: the bytes it writes and whether it then returns an error -/
structure Producer where
  content : Bytes
  fails   : Bool := false
deriving Repr, DecidableEq

structure Part where
  ctype   : Bytes
  charset : Bytes
  desc    : Bytes
  enc     : EncLabel
  prod    : Producer
  deleted : Bool := false
  smime   : Bool := false
deriving Repr, DecidableEq

/-- a MIME header map with canonical keys, kept sorted by key (textproto.MIMEHeader as CreatePart sees it) -/
abbrev HeaderMap := List (Bytes × Bytes)

def bytesLt : Bytes → Bytes → Bool
  | [], [] => false
  | [], _ :: _ => true
  | _ :: _, [] => false
  | a :: as, b :: bs => a < b || (a == b && bytesLt as bs)

def hmGet (h : HeaderMap) (k : Bytes) : Option Bytes := (h.find? (·.1 == k)).map (·.2)

/-- insert keeping the list sorted by key; replaces an existing entry -/
def hmSet : HeaderMap → Bytes → Bytes → HeaderMap
  | [], k, v => [(k, v)]
  | (k', v') :: rest, k, v =>
    if k' == k then (k, v) :: rest
    else if bytesLt k k' then (k, v) :: (k', v') :: rest
    else (k', v') :: hmSet rest k v

/-- File.getHeader: present and non-empty -/
def hmHas (h : HeaderMap) (k : Bytes) : Bool :=
  match hmGet h k with
  | some v => !v.isEmpty
  | none => false

structure FileM where
  name      : Bytes
  ctype     : Bytes          -- File.ContentType override ("" = none)
  desc      : Bytes
  enc       : EncLabel       -- File.Enc ("" = default base64)
  header    : HeaderMap
  typeByExt : Bytes          -- result of mime.TypeByExtension(filepath.Ext(name)) ("" = unknown)
  prod      : Producer
deriving Repr, DecidableEq

inductive AddrKind | from_ | envFrom | to | cc | bcc | replyTo
deriving Repr, DecidableEq

/-- a parsed address as the model needs it: `String()` rendering and bare `Address` -/
structure Addr where
  str  : Bytes
  bare : Bytes
deriving Repr, DecidableEq

structure MsgState where
  charset   : Bytes := sb "UTF-8"
  encoding  : EncLabel := encQP
  boundary  : Bytes := []
  mimever   : Bytes := sb "1.0"
  gen       : List (Bytes × List Bytes) := []     -- genHeader, values already encoded
  preform   : List (Bytes × Bytes) := []
  -- addrHeader: one slot per kind; `some l` = the key is present in the map (possibly with an empty list)
  aFrom     : Option (List Addr) := none
  aEnvFrom  : Option (List Addr) := none
  aTo       : Option (List Addr) := none
  aCc       : Option (List Addr) := none
  aBcc      : Option (List Addr) := none
  aReplyTo  : Option (List Addr) := none
  parts     : List Part := []
  embeds    : List FileM := []
  attachments : List FileM := []
  bMixed    : Bytes := []                          -- multiPartBoundary cache
  bRelated  : Bytes := []
  bAlt      : Bytes := []
  noDefaultUA : Bool := false
  smime     : Bool := false
deriving Repr, DecidableEq

def assocSet {β} (l : List (Bytes × β)) (k : Bytes) (v : β) : List (Bytes × β) :=
  if l.any (·.1 == k) then l.map (fun kv => if kv.1 == k then (k, v) else kv) else l ++ [(k, v)]

def assocGet {β} (l : List (Bytes × β)) (k : Bytes) : Option β := (l.find? (·.1 == k)).map (·.2)

def addrGet (s : MsgState) : AddrKind → Option (List Addr)
  | .from_ => s.aFrom | .envFrom => s.aEnvFrom | .to => s.aTo | .cc => s.aCc | .bcc => s.aBcc | .replyTo => s.aReplyTo

def addrSet (s : MsgState) (k : AddrKind) (v : List Addr) : MsgState :=
  match k with
  | .from_ => { s with aFrom := some v } | .envFrom => { s with aEnvFrom := some v } | .to => { s with aTo := some v }
  | .cc => { s with aCc := some v } | .bcc => { s with aBcc := some v } | .replyTo => { s with aReplyTo := some v }

/-- Msg.encodeString -/
def encodeString (s : MsgState) (v : Bytes) : Bytes :=
  EncodedWord.wordEncode (encoderOf s.encoding) s.charset v

/-- Msg.SetGenHeader: every value is encoded at the time it is set -/
def setGenHeader (s : MsgState) (key : Bytes) (values : List Bytes) : MsgState :=
  { s with gen := assocSet s.gen key (values.map (encodeString s)) }

/-- Msg.RequestMDNTo: the address strings (net/mail's rendering, display name already RFC 2047
    encoded) are stored as they are, not passed through encodeString -/
def setGenRaw (s : MsgState) (key : Bytes) (values : List Bytes) : MsgState :=
  { s with gen := assocSet s.gen key values }

def setPreformatted (s : MsgState) (key value : Bytes) : MsgState :=
  { s with preform := assocSet s.preform key value }

/-- result of net/mail.ParseAddress on one input string, supplied by the caller -/
abbrev Parsed := Option Addr

/-- Msg.SetAddrHeader: all values must parse; From keeps only the first address -/
def setAddrHeader (s : MsgState) (k : AddrKind) (vals : List Parsed) : MsgState × Bool :=
  if vals.any (·.isNone) then
    -- the error is returned at the first invalid address, nothing is stored
    (s, false)
  else
    let as := vals.filterMap id
    match k with
    | .from_ => (match as with | a :: _ => addrSet s k [a] | [] => s, true)
    | _ => (addrSet s k as, true)

/-- Msg.SetAddrHeaderIgnoreInvalid -/
def setAddrHeaderIgnoreInvalid (s : MsgState) (k : AddrKind) (vals : List Parsed) : MsgState :=
  let as := vals.filterMap id
  match k with
  | .from_ => (match as with | a :: _ => addrSet s k [a] | [] => s)
  | _ => addrSet s k as

/-- Msg.addAddr: re-parses the rendering of the existing entries (contract: ParseAddress ∘ String = id) -/
def addAddr (s : MsgState) (k : AddrKind) (v : Parsed) : MsgState × Bool :=
  let existing := ((addrGet s k).getD []).map some
  setAddrHeader s k (existing ++ [v])

def newPart (s : MsgState) (ctype : Bytes) (charset : Option Bytes) (enc : Option EncLabel) (desc : Bytes)
    (prod : Producer) : Part :=
  { ctype := ctype, charset := charset.getD s.charset, enc := enc.getD s.encoding, desc := desc, prod := prod }

/-- SetBodyString / SetBodyWriter: replaces all parts -/
def setBody (s : MsgState) (p : Part) : MsgState := { s with parts := [p] }
/-- AddAlternativeString / AddAlternativeWriter -/
def addAlternative (s : MsgState) (p : Part) : MsgState := { s with parts := s.parts ++ [p] }

def attach (s : MsgState) (f : FileM) : MsgState := { s with attachments := s.attachments ++ [f] }
def embed (s : MsgState) (f : FileM) : MsgState := { s with embeds := s.embeds ++ [f] }

/-- Msg.GetSender(false) -/
def getSender (s : MsgState) : Option Bytes :=
  match addrGet s .envFrom with
  | some (a :: _) => some a.bare
  | _ => match addrGet s .from_ with
    | some (a :: _) => some a.bare
    | _ => none

/-- Msg.GetRecipients -/
def getRecipients (s : MsgState) : List Bytes :=
  ([AddrKind.to, .cc, .bcc].map (fun k => ((addrGet s k).getD []).map (·.bare))).flatten

def countBodyParts (s : MsgState) : Nat := (s.parts.filter (fun p => !p.deleted && !p.smime)).length
def hasBodyParts (s : MsgState) : Bool := s.parts.any (fun p => !p.smime)

/-- the three layer decisions, bodies regenerated from msg.go -/
def hasAlt (s : MsgState) : Bool :=
  Generated.hasAlt 0 (countBodyParts s) s.parts.length s.embeds.length s.attachments.length (hasBodyParts s)
def hasMixed (s : MsgState) : Bool :=
  Generated.hasMixed 0 (countBodyParts s) s.parts.length s.embeds.length s.attachments.length (hasBodyParts s)
def hasRelated (s : MsgState) : Bool :=
  Generated.hasRelated 0 (countBodyParts s) s.parts.length s.embeds.length s.attachments.length (hasBodyParts s)

end GoMail.Mime
