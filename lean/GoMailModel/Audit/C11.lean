import GoMailModel.Props.C11
open GoMail.Props.C11
#print axioms render_preserves_content
#print axioms file_body_encoding_ignores_cache
#print axioms cached_boundary_reused
#print axioms state_is_fixpoint
#print axioms second_render_equals_first
#print axioms nested_layers_never_share_the_user_boundary
