import GoMailModel.Props.C19
open GoMail.Props.C19
#print axioms newClient_error_closed
#print axioms dial_error_closed
#print axioms closeWith_closes
#print axioms dialAndSend_always_closed
#print axioms success_means_quit_acknowledged
