import GoMailModel.Props.C15
open GoMail.Props.C15
#print axioms ack_only_valid_signature
#print axioms final_before_first_refused
#print axioms foreign_nonce_refused
#print axioms counterexample_bare_success
#print axioms replay_on_a_new_exchange_refused
#print axioms start_forgets_login
