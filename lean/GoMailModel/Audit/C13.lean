import GoMailModel.Props.C13
open GoMail.Props.C13
#print axioms send_holds_sendMutex
#print axioms dialAndSend_private_connection
#print axioms cmd_is_one_critical_section
#print axioms sends_never_interleave
#print axioms send_path_stays_on_its_connection
#print axioms send_path_inventory
#print axioms every_path_gives_back_the_locks_it_took
