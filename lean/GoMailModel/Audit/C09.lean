import GoMailModel.Props.C09
open GoMail.Props.C09
#print axioms filename_never_panics
#print axioms filename_quoted
#print axioms unguarded_panics_on_empty
#print axioms unguarded_panics_on_one_byte
#print axioms parseMultiPartHeader_total
#print axioms indexing_accounted_for
#print axioms no_narrow_counters
