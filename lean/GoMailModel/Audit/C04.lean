import GoMailModel.Props.C04
open GoMail.Props.C04
#print axioms eightbit_refused_locally
#print axioms mail_line_parameters
#print axioms mail_without_extensions_is_bare
#print axioms no_ext_after_helo
#print axioms rcpt_without_dsn_is_bare
#print axioms mail_line_single
#print axioms session_is_legal
