import GoMailModel.Props.C17
open GoMail.Props.C17
#print axioms dial_never_waits_unbounded
#print axioms dialAndSend_never_waits_unbounded
#print axioms send_never_waits_unbounded
#print axioms reset_never_waits_unbounded
#print axioms dial_arms_first
#print axioms no_path_keeps_a_lock
#print axioms every_connection_attempt_gets_the_bounded_context
