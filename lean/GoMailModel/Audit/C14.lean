import GoMailModel.Props.C14
open GoMail.Props.C14
#print axioms plain_message_parses
#print axioms login_sequence
#print axioms xoauth2_message
#print axioms cram_response
#print axioms scram_client_first
#print axioms scram_retry_uses_next_nonce
#print axioms channel_binding_choice
#print axioms scram_client_final
