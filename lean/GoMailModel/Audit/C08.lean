import GoMailModel.Props.C08
open GoMail.Props.C08
#print axioms raw_part_header_line
#print axioms part_toplevel_equals_nested
#print axioms cached_boundary_reused
#print axioms signature_part_shape
#print axioms signed_render_is_tree
#print axioms nested_content_is_tree
