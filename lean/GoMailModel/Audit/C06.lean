import GoMailModel.Props.C06
open GoMail.Props.C06
#print axioms recipients_are_to_cc_bcc
#print axioms sender_is_envfrom_else_from
#print axioms bcc_never_rendered
#print axioms set_bcc_invisible
#print axioms one_rcpt_per_occurrence
#print axioms rcpt_lines_are_the_sendable_recipients
