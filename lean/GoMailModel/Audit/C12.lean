import GoMailModel.Props.C12
open GoMail.Props.C12
#print axioms count_is_accepted
#print axioms plan_sink_failure
#print axioms sink_failure_reported
#print axioms success_count
#print axioms producer_failure_reported_plan
#print axioms producer_failure_reported
#print axioms writeTo_reports_producer_failure
#print axioms no_narrow_counters
