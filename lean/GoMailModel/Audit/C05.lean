import GoMailModel.Props.C05
open GoMail.Props.C05
#print axioms quoted_local_reads_back
#print axioms envelope_cases
#print axioms unquoted_local_is_harmless
#print axioms validated_has_no_control
