import GoMailModel.Props.C18
open GoMail.Props.C18
#print axioms limits_from_source
#print axioms linebreaker_any_chunking
#print axioms linebreaker_invariant
#print axioms b64_body_lines
#print axioms body_chunk_independent
#print axioms header_fold
#print axioms qp_body_lines
#print axioms signed_layer_write
#print axioms counterexample_signed_content_type_line
