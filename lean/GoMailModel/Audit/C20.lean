import GoMailModel.Props.C20
open GoMail.Props.C20
#print axioms reason_numbering
#print axioms esc_regex_is_anchored
#print axioms reply_classification
#print axioms non_reply_classification
#print axioms esc_requires_extension
#print axioms esc_is_prefix_of_text
#print axioms no_narrow_counters
