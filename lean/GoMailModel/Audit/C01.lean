import GoMailModel.Props.C01
open GoMail.Props.C01
#print axioms nesting_exact
#print axioms nesting_of_state
#print axioms b64_body_is_encoding
#print axioms raw_body_is_content
#print axioms qp_body_roundtrip
#print axioms qp_canon_lf
#print axioms b64_body_roundtrip
#print axioms render_is_tree
#print axioms tree_leaves
#print axioms render_is_tree_all
#print axioms boundary_delimits_children
#print axioms no_narrow_counters
