import GoMailModel.Props.C10
open GoMail.Props.C10
#print axioms part_header_reads_back
#print axioms parse_stores_the_rendered_content
#print axioms stored_content
#print axioms nested_layers_are_flattened
