import GoMailModel.Props.C10
open GoMail.Props.C10
#print axioms part_header_reads_back
