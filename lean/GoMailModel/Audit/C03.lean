import GoMailModel.Props.C03
open GoMail.Props.C03
#print axioms failed_render_is_reported
#print axioms delivered_requires_complete_render
#print axioms no_error_means_delivered
#print axioms eod_only_behind_complete_content
#print axioms delivered_iff_acknowledged
#print axioms acknowledged_are_the_delivered
#print axioms acknowledged_iff_delivered
#print axioms committed_at_most_once
