import GoMailModel.Props.C16
open GoMail.Props.C16
#print axioms records_while_auth_active
#print axioms records_independent_of_payload
#print axioms window_closes
#print axioms verbatim_outside_window
