import GoMailModel.Props.C07
open GoMail.Props.C07
#print axioms autodiscover_unencrypted_is_safe
#print axioms unencrypted_preferences
#print axioms plain_refuses_cleartext
#print axioms login_refuses_cleartext
#print axioms mandatory_without_starttls_sends_nothing
#print axioms localhost_is_exactly_three_names
