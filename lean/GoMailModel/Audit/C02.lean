import GoMailModel.Props.C02
open GoMail.Props.C02
#print axioms stored_value_safe
#print axioms stored_value_no_crlf
#print axioms part_text_no_crlf
#print axioms sanitized_name
#print axioms one_field_per_header
#print axioms format_name_roundtrip
#print axioms address_phrase_safe
#print axioms stored_value_decodes
