import json,sys
for r in json.load(sys.stdin):
    print(r['suite'],'evals',r['evaluations'],'distinct',r['distinct_nontrivial'],'compared',r['model_compared'],'oracle',r['oracle_checked'],'dis',len(r['disagreements']),'viol',len(r['violations']), r['notes'][:3])
    print('  branches', json.dumps(r['branches'])[:400])
    for d in r['disagreements'][:3]:
        print('  D', json.dumps(d['desc'])[:700])
        i=d['impl'].split(); m=d['model'].split()
        for a,b in zip(i,m):
            if a!=b:
                if a[0]=='#' or b[0]=='#' or a=='.' or b=='.' or ',' in a or ',' in b: print('   impl',a[:200],'model',b[:200]); continue
                try:
                    x=bytes.fromhex(a); y=bytes.fromhex(b)
                except Exception as e:
                    print('   impl',a[:80],'model',b[:80]); continue
                k=0
                while k<min(len(x),len(y)) and x[k]==y[k]: k+=1
                print('   first diff at',k,'of',len(x),len(y),'impl',x[max(0,k-60):k+80],'model',y[max(0,k-60):k+80])
                break
        if len(i)!=len(m): print('   token count',len(i),len(m), m[:3])
    seen=set()
    for v in r['violations']:
        if v['class'] in seen: continue
        seen.add(v['class'])
        print('  V',v['class'],'|',v['what'][:300],'|',json.dumps(v['input'])[:500])
