import json,sys
def dec(tok):
    if tok in ('-','.'): return []
    return [bytes.fromhex(x).decode('latin1') if x!='.' else '' for x in tok.split(',')]
n=int(sys.argv[1]) if len(sys.argv)>1 else 3
for r in json.load(sys.stdin):
    for d in r['disagreements'][:n]:
        print('=== ', json.dumps(d['desc'])[:900])
        i=d['impl'].split(' '); m=d['model'].split(' ')
        ti=dec(i[0]); tm=dec(m[0])
        for k in range(max(len(ti),len(tm))):
            a=ti[k] if k<len(ti) else '-'; b=tm[k] if k<len(tm) else '-'
            print('  %-60s %-60s %s'%(a[:60],b[:60],'' if a==b else '<<<<'))
        print('  impl rest :',' '.join(i[1:])[:400]); print('  model rest:',' '.join(m[1:])[:400])
