package main

import (
	"crypto/hmac"
	"crypto/sha1"
	"crypto/sha256"
	"encoding/base64"
	"fmt"
	"hash"
	"strings"

	"golang.org/x/text/secure/precis"
)

// ---------------------------------------------------------------------------------------------
// Own SCRAM (RFC 5802 / 7677) primitives: PBKDF2 (RFC 2898) written out here, HMAC and hash from the
// standard library. Independent of go-mail's internal/pbkdf2 and smtp/auth_scram.go.

func refPBKDF2(h func() hash.Hash, password, salt []byte, iter, keyLen int) []byte {
	prf := hmac.New(h, password)
	hashLen := prf.Size()
	var out []byte
	for block := 1; len(out) < keyLen; block++ {
		prf.Reset()
		prf.Write(salt)
		prf.Write([]byte{byte(block >> 24), byte(block >> 16), byte(block >> 8), byte(block)})
		u := prf.Sum(nil)
		t := append([]byte(nil), u...)
		for i := 1; i < iter; i++ {
			prf.Reset()
			prf.Write(u)
			u = prf.Sum(nil)
			for k := range t {
				t[k] ^= u[k]
			}
		}
		out = append(out, t[:hashLen]...)
	}
	return out[:keyLen]
}

func hashFor(alg string) func() hash.Hash {
	if strings.Contains(alg, "SHA-256") {
		return sha256.New
	}
	return sha1.New
}

func refHMAC(h func() hash.Hash, key, msg []byte) []byte {
	m := hmac.New(h, key)
	m.Write(msg)
	return m.Sum(nil)
}

// refScram computes what a correct client/server pair derives for one exchange
func refScram(alg, normPass string, salt []byte, iter int, authMessage []byte) (proofB64, sigB64 string) {
	h := hashFor(alg)
	if iter < 1 {
		// go-mail hands a non-positive count to its PBKDF2: the loop body never runs (T = U1)
		iter = 1
	}
	salted := refPBKDF2(h, []byte(normPass), salt, iter, h().Size())
	clientKey := refHMAC(h, salted, []byte("Client Key"))
	hh := h()
	hh.Write(clientKey)
	storedKey := hh.Sum(nil)
	clientSig := refHMAC(h, storedKey, authMessage)
	proof := make([]byte, len(clientKey))
	for i := range proof {
		proof[i] = clientKey[i] ^ clientSig[i]
	}
	serverKey := refHMAC(h, salted, []byte("Server Key"))
	serverSig := refHMAC(h, serverKey, authMessage)
	return base64.StdEncoding.EncodeToString(proof), base64.StdEncoding.EncodeToString(serverSig)
}

func scramNormUser(u string) (string, bool) {
	u = strings.NewReplacer("=", "=3D", ",", "=2C").Replace(u)
	n, err := precis.OpaqueString.String(u)
	return n, err == nil
}

func scramNormPass(p string) (string, bool) {
	n, err := precis.OpaqueString.String(p)
	return n, err == nil
}

// scramModelInputs derives, from the exchange the server saw, the inputs the Lean SCRAM model takes
// as given: normalised credentials, the client nonce of this attempt, and the crypto table for every
// (salt, iterations, authMessage) that can occur with the server-first messages that were sent.
func scramModelInputs(sc *DialScenario, run *DialRun) (su, sp string, crypto []string) {
	su, sp = "-", "-"
	if !strings.HasPrefix(sc.AuthType, "SCRAM") && sc.AuthType != "AUTODISCOVER" {
		return
	}
	if u, ok := scramNormUser(sc.User); ok {
		su = encS(u)
		if u == "" {
			su = "."
		}
	}
	normPass, okp := scramNormPass(sc.Pass)
	if okp {
		sp = encS(normPass)
		if normPass == "" {
			sp = "."
		}
	}
	// every client-first the server saw: "n,,n=...,r=<nonce>" (or "p=...,,n=...")
	type cf struct{ bare, gs2 string }
	var firsts []cf
	var nonces []string
	pendingAuth := false
	alg := sc.AuthType
	for _, e := range run.Events {
		if e.Kind != "cmd" {
			continue
		}
		if strings.HasPrefix(e.Line, "AUTH SCRAM") {
			pendingAuth = true
			alg = strings.TrimPrefix(e.Line, "AUTH ")
			continue
		}
		if pendingAuth {
			if raw, err := base64.StdEncoding.DecodeString(e.Line); err == nil {
				s := string(raw)
				if i := strings.Index(s, "n="); i >= 0 && (strings.HasPrefix(s, "n,,") || strings.HasPrefix(s, "p=")) {
					bare := s[i:]
					firsts = append(firsts, cf{bare, s[:i]})
					if j := strings.LastIndex(bare, ",r="); j >= 0 {
						nonces = append(nonces, bare[j+3:])
					}
				}
			}
		}
	}
	nonce := strings.Join(nonces, "\x00")
	run.ScramNonce = nonce
	run.ScramNonces = nonces
	if len(firsts) == 0 || !okp {
		return
	}
	for _, f := range firsts {
	firstBare, gs2 := f.bare, f.gs2
	for _, a := range run.Applied {
		if a.Kind != "reply" || a.Code != 334 {
			continue
		}
		raw, err := base64.StdEncoding.DecodeString(a.Text)
		if err != nil || !strings.HasPrefix(string(raw), "r=") {
			continue
		}
		parts := strings.Split(string(raw), ",")
		if len(parts) < 3 || !strings.HasPrefix(parts[1], "s=") || !strings.HasPrefix(parts[2], "i=") {
			continue
		}
		salt, err := base64.StdEncoding.DecodeString(parts[1][2:])
		if err != nil {
			continue
		}
		var iter int
		if _, err := fmt.Sscanf(parts[2][2:], "%d", &iter); err != nil || fmt.Sprint(iter) != strings.TrimPrefix(parts[2][2:], "+") {
			continue
		}
		combined := parts[0][2:]
		cbind := "biws"
		if strings.HasPrefix(gs2, "p=") && run.TLSState != nil {
			cb := []byte(gs2)
			if strings.HasPrefix(gs2, "p=tls-unique") {
				cb = append(cb, run.TLSState.TLSUnique...)
			} else if ekm, err := run.TLSState.ExportKeyingMaterial("EXPORTER-Channel-Binding", nil, 32); err == nil {
				cb = append(cb, ekm...)
			}
			cbind = base64.StdEncoding.EncodeToString(cb)
		}
		am := firstBare + "," + string(raw) + ",c=" + cbind + ",r=" + combined
		proof, sig := refScram(alg, normPass, salt, iter, []byte(am))
		crypto = append(crypto, string(salt), fmt.Sprint(iter), am, proof, sig)
	}
	}
	return
}
