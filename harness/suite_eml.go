package main

import (
	"bytes"
	"errors"
	"fmt"
	"io"
	"os"
	"sort"
	"strings"
	"sync/atomic"
	"time"

	mail "github.com/wneessen/go-mail"
)

// ---------------------------------------------------------------------------------------------
// C09 (EML parsing is total) and C10 (render -> parse -> render preserves the message)

type failingReader struct {
	data []byte
	off  int
	fail int
}

func (f *failingReader) Read(p []byte) (int, error) {
	if f.off >= f.fail {
		return 0, errors.New("reader failed")
	}
	n := copy(p, f.data[f.off:min(len(f.data), f.fail)])
	f.off += n
	if n == 0 {
		return 0, io.EOF
	}
	return n, nil
}

// parseGuarded runs an EML entry point with a watchdog; returns (panic value, timed out)
func parseGuarded(f func() (*mail.Msg, error)) (m *mail.Msg, err error, pan interface{}, timeout bool) {
	done := make(chan struct{})
	go func() {
		defer close(done)
		defer func() {
			if r := recover(); r != nil {
				pan = r
			}
		}()
		m, err = f()
	}()
	// (a parser that does not return keeps a processor busy: after twelve of them the suite stops, see watchdog)
	if atomic.LoadInt32(&watchdogExpired) >= 12 {
		panic(suiteStop{"twelve calls into the library did not return: the suite stops here (its findings so far are reported)"})
	}
	select {
	case <-done:
	case <-time.After(3 * time.Second):
		timeout = true
		atomic.AddInt32(&watchdogExpired, 1)
	}
	return
}

var paramMutations = []func(r *Rng, s string) string{
	func(r *Rng, s string) string { return s[:r.Intn(len(s)+1)] },                           // truncate
	func(r *Rng, s string) string { return strings.Replace(s, "\"", "", r.Intn(3)) },        // unquote
	func(r *Rng, s string) string { return strings.Replace(s, "=", "=\"", 1) },              // open quote
	func(r *Rng, s string) string { return strings.Replace(s, "; ", ";", -1) + ";" },        // separators
	func(r *Rng, s string) string { return s + "; filename=" },                              // empty parameter
	func(r *Rng, s string) string { return s + "; filename=x" },                             // one-byte unquoted
	func(r *Rng, s string) string { return s + "; filename=\"" },                            // lone quote
	func(r *Rng, s string) string { return s + "; " + s },                                   // duplicated
	func(r *Rng, s string) string { return strings.Replace(s, "boundary=", "boundary", 1) }, // broken boundary parameter
	func(r *Rng, s string) string { return "" },                                             // emptied
	func(r *Rng, s string) string { return strings.Repeat(";", r.Intn(5)) + s },
	func(r *Rng, s string) string { return strings.Replace(s, "base64", "quoted-printable", 1) }, // encoding mismatch
	func(r *Rng, s string) string { return strings.Replace(s, "quoted-printable", "base64", 1) },
	func(r *Rng, s string) string { return strings.Replace(s, "attachment", "inline", 1) },
	func(r *Rng, s string) string { return strings.Replace(s, "attachment", "unknown-disposition", 1) },
	// RFC 5322 group syntax in address fields (valid, and valid-but-empty)
	func(r *Rng, s string) string { return "undisclosed-recipients:;" },
	func(r *Rng, s string) string { return "group: " + s + ";" },
	func(r *Rng, s string) string { return "empty:;, " + s },
	func(r *Rng, s string) string { return s + ", " + s },
	func(r *Rng, s string) string { return "(comment only)" },
	func(r *Rng, s string) string { return "<>" },
	// structural characters of RFC 822 / 2045 / 2047 / 2231 at random places, and pairs in the wrong order
	func(r *Rng, s string) string {
		const soup = "()<>[]:;@\\,.\"=?*'% \t"
		b := []byte(s)
		for k := 0; k < 1+r.Intn(4); k++ {
			i := r.Intn(len(b) + 1)
			b = append(b[:i], append([]byte{soup[r.Intn(len(soup))]}, b[i:]...)...)
		}
		return string(b)
	},
	func(r *Rng, s string) string {
		pairs := [][2]string{{")", "("}, {">", "<"}, {"?=", "=?"}, {"]", "["}, {"\"", "\"\""}, {"(", "("}, {"(", ")"}, {"*=", "*0="}}
		pr := pairs[r.Intn(len(pairs))]
		switch r.Intn(4) {
		case 0:
			return pr[0] + s + pr[1]
		case 1:
			return s + " " + pr[0] + pr[1]
		case 2:
			return s + " " + pr[0] + " " + s + " " + pr[1] + " (set by gateway)"
		}
		i := r.Intn(len(s) + 1)
		return s[:i] + pr[0] + s[i:] + pr[1]
	},
	// hundreds of parameters / separators in one value (counters and indexes of small types wrap at 256)
	func(r *Rng, s string) string {
		n := []int{254, 255, 256, 257, 300, 1000, 5000}[r.Intn(7)]
		switch r.Intn(3) {
		case 0:
			return s + strings.Repeat(";", n)
		case 1:
			var b strings.Builder
			b.WriteString(s)
			for k := 0; k < n; k++ {
				fmt.Fprintf(&b, "; p%d=v%d", k, k)
			}
			return b.String()
		}
		return s + "; filename=\"" + strings.Repeat("n", n) + "\""
	},
	func(r *Rng, s string) string { return s + " (comment)" },
	func(r *Rng, s string) string { return s + " (unterminated" },
}

// parseEMLAny parses through one of the three entry points (string, reader, file), chosen by k
func parseEMLAny(k int, input []byte) (*mail.Msg, error) {
	switch k % 3 {
	case 1:
		return mail.EMLToMsgFromReader(bytes.NewReader(input))
	case 2:
		f, err := os.CreateTemp("", "gmverif-in-*.eml")
		if err != nil {
			return mail.EMLToMsgFromString(string(input))
		}
		name := f.Name()
		defer os.Remove(name)
		_, _ = f.Write(input)
		_ = f.Close()
		return mail.EMLToMsgFromFile(name)
	}
	return mail.EMLToMsgFromString(string(input))
}

// mutateEML applies structure-aware mutations to a valid rendering
func mutateEML(r *Rng, eml []byte) []byte {
	lines := strings.Split(string(eml), "\r\n")
	nm := 1 + r.Intn(3)
	for k := 0; k < nm; k++ {
		switch r.Intn(10) {
		case 8, 9:
			// damage an encoded body line: cut 1..3 characters off its end, drop or add '=' padding, put a
			// character outside the alphabet into it, glue it to the next line
			var cand []int
			inBody := false
			for i, l := range lines {
				if l == "" {
					inBody = true
				} else if strings.HasPrefix(l, "--") {
					inBody = false
				}
				if inBody && len(l) >= 2 {
					cand = append(cand, i)
				}
			}
			if len(cand) == 0 {
				break
			}
			// lines that end in base64 padding are where a decoder's edge cases live: half of the time one of those
			var padded []int
			for _, i := range cand {
				if l := lines[i]; strings.HasSuffix(l, "=") && !strings.Contains(l, " ") && !strings.Contains(strings.TrimRight(l, "="), "=") {
					padded = append(padded, i)
				}
			}
			if len(padded) > 0 && r.Chance(50) {
				i := padded[r.Intn(len(padded))]
				l := lines[i]
				switch r.Intn(5) {
				case 0:
					l = l[:len(l)-1] // "==" -> "=", "=" -> ""
				case 1:
					l = strings.TrimRight(l, "=")
				case 2:
					l += "="
				case 3:
					l = l[:len(l)-1] + "A"
				default:
					l = strings.TrimRight(l, "=") + "=\r\n" // padding, then an empty line inside the part
				}
				lines[i] = l
				break
			}
			// the last line of a part is where padding lives
			i := cand[r.Intn(len(cand))]
			if r.Chance(60) {
				for j := i; j+1 < len(lines) && lines[j+1] != "" && !strings.HasPrefix(lines[j+1], "--"); j++ {
					i = j + 1
				}
			}
			l := lines[i]
			switch r.Intn(7) {
			case 0:
				l = l[:len(l)-1]
			case 1:
				l = l[:max(0, len(l)-1-r.Intn(3))]
			case 2:
				l = strings.TrimRight(l, "=")
			case 3:
				l = strings.TrimRight(l, "=") + "="
			case 4:
				l += "=" + strings.Repeat("=", r.Intn(3))
			case 5:
				k := r.Intn(len(l))
				l = l[:k] + string("!*-_ =\x00\xff"[r.Intn(8)]) + l[k:]
			default:
				if i+1 < len(lines) {
					l += lines[i+1]
					lines = append(lines[:i+1], lines[i+2:]...)
				}
			}
			lines[i] = l
		case 0, 1, 2, 3:
			// mutate the value of a header line that carries parameters or an encoding
			var cand []int
			for i, l := range lines {
				if strings.HasPrefix(l, "Content-") || strings.HasPrefix(l, " boundary=") || strings.HasPrefix(l, "To:") || strings.HasPrefix(l, "From:") || strings.HasPrefix(l, "Date:") {
					cand = append(cand, i)
				}
			}
			if len(cand) > 0 {
				i := cand[r.Intn(len(cand))]
				if c := strings.Index(lines[i], ":"); c > 0 && !strings.HasPrefix(lines[i], " ") {
					lines[i] = lines[i][:c+1] + " " + paramMutations[r.Intn(len(paramMutations))](r, strings.TrimSpace(lines[i][c+1:]))
				} else {
					lines[i] = " " + paramMutations[r.Intn(len(paramMutations))](r, strings.TrimSpace(lines[i]))
				}
			}
		case 4:
			// drop or duplicate a boundary line
			var cand []int
			for i, l := range lines {
				if strings.HasPrefix(l, "--") {
					cand = append(cand, i)
				}
			}
			if len(cand) > 0 {
				i := cand[r.Intn(len(cand))]
				if r.Bool() {
					lines = append(lines[:i], lines[i+1:]...)
				} else {
					lines = append(lines[:i+1], append([]string{lines[i]}, lines[i+1:]...)...)
				}
			}
		case 5:
			// delete a random line (possibly the header/body separator)
			if len(lines) > 1 {
				i := r.Intn(len(lines))
				lines = append(lines[:i], lines[i+1:]...)
			}
		case 6:
			// truncate the message
			n := r.Intn(len(lines) + 1)
			lines = lines[:n]
		default:
			// random byte noise in a random line
			if len(lines) > 0 {
				i := r.Intn(len(lines))
				b := []byte(lines[i])
				for j := 0; j < 1+r.Intn(4) && len(b) > 0; j++ {
					b[r.Intn(len(b))] = byte(r.Intn(256))
				}
				lines[i] = string(b)
			}
		}
	}
	return []byte(strings.Join(lines, "\r\n"))
}

var emlCorpus = []string{
	"From: undisclosed-senders:;\r\nTo: d@e.f\r\nSubject: x\r\n\r\nbody\r\n",
	"From: a@b.c\r\nTo: undisclosed-recipients:;\r\nCc: empty:;\r\nBcc: g: x@y.z;\r\nSubject: x\r\n\r\nbody\r\n",
	"From: a@b.c, d@e.f\r\nTo: d@e.f\r\nDate: not a date\r\n\r\nbody\r\n",
	"From: \r\nTo: \r\nCc: ,\r\nSubject: \r\n\r\n",
	"From: a@b.c\r\nTo: d@e.f\r\nSubject: x\r\nMIME-Version: 1.0\r\nContent-Type: multipart/mixed; boundary=B\r\n\r\n--B\r\nContent-Type: text/plain; charset=UTF-8\r\nContent-Transfer-Encoding: 7bit\r\n\r\nhi\r\n--B\r\nContent-Type: text/plain\r\nContent-Disposition: attachment; filename=\r\n\r\ndata\r\n--B--\r\n",
	"From: a@b.c\r\nTo: d@e.f\r\nContent-Type: multipart/mixed; boundary=B\r\n\r\n--B\r\nContent-Type: text/plain\r\nContent-Disposition: attachment; filename=x\r\n\r\ndata\r\n--B--\r\n",
	"From: a@b.c\r\nTo: d@e.f\r\nContent-Type: multipart/mixed; boundary=B\r\n\r\n--B\r\nContent-Type: text/plain\r\nContent-Disposition: attachment; filename=\"\r\n\r\ndata\r\n--B--\r\n",
	"From: a@b.c\r\nContent-Type: multipart/mixed; boundary=B\r\n\r\n--B\r\nContent-Disposition: inline; filename=\"a\r\nContent-ID: <x>\r\n\r\ndata\r\n--B--\r\n",
}

// emlPartGrid: every combination of multipart kind x header set of one part x content of that part x position
// x nesting, written out by hand (no generated message looks like most of these)
func emlPartGrid() []string {
	var out []string
	headerSets := []string{"", "Content-Transfer-Encoding: 7bit\r\n", "Content-Type: text/plain\r\n", "Content-Type:\r\n", "Content-Disposition: attachment\r\n",
		"Content-Disposition: inline\r\nContent-ID: <x@y>\r\n", "X-Other: 1\r\n", "Content-Type: multipart/alternative\r\n"}
	contents := []string{"", " \r\n", "\r\n\r\n", "text\r\n"}
	good := "Content-Type: text/plain; charset=UTF-8\r\nContent-Transfer-Encoding: 7bit\r\n\r\nhello\r\n"
	for _, kind := range []string{"mixed", "alternative", "related"} {
		for _, hs := range headerSets {
			for _, ct := range contents {
				odd := hs + "\r\n" + ct
				for pos := 0; pos < 3; pos++ {
					parts := []string{good, good}
					switch pos {
					case 0:
						parts = []string{odd, good}
					case 1:
						parts = []string{good, odd, good}
					default:
						parts = []string{odd}
					}
					body := ""
					for _, p := range parts {
						body += "--B\r\n" + p + "\r\n"
					}
					body += "--B--\r\n"
					top := "From: a@b.c\r\nTo: d@e.f\r\nSubject: grid\r\nMIME-Version: 1.0\r\n"
					out = append(out, top+"Content-Type: multipart/"+kind+"; boundary=B\r\n\r\n"+body)
					if pos == 0 {
						// the same layer nested in a multipart/mixed
						inner := strings.ReplaceAll(body, "--B", "--I")
						out = append(out, top+"Content-Type: multipart/mixed; boundary=B\r\n\r\n--B\r\nContent-Type: multipart/"+kind+"; boundary=I\r\n\r\n"+inner+"\r\n--B--\r\n")
					}
				}
			}
		}
	}
	return out
}

// emlParamGrid: every header parameter the parser looks at, with the degenerate values a truncated or hand-made
// message carries: a lone quote, an empty quoted string, a quote on one side only, nothing, other punctuation
func emlParamGrid() []string {
	var out []string
	vals := []string{`"`, `""`, `"a`, `a"`, ``, `'`, `=`, `"\\"`, `"\\`, ` `, `"" `, `";`, `a;`}
	top := "From: a@b.c\r\nTo: d@e.f\r\nSubject: params\r\nMIME-Version: 1.0\r\n"
	for _, v := range vals {
		for _, tail := range []string{"", "; format=flowed"} {
			// single part: charset of the message
			out = append(out, top+"Content-Type: text/plain; charset="+v+tail+"\r\nContent-Transfer-Encoding: 7bit\r\n\r\nbody\r\n")
			// multipart: boundary and charset at the top, charset / name / filename / Content-ID in a part
			out = append(out, top+"Content-Type: multipart/mixed; boundary="+v+tail+"\r\n\r\n--B\r\nContent-Type: text/plain\r\n\r\nx\r\n--B--\r\n")
			out = append(out, top+"Content-Type: multipart/mixed; charset="+v+"; boundary=B"+tail+"\r\n\r\n--B\r\nContent-Type: text/plain\r\n\r\nx\r\n--B--\r\n")
			for _, ph := range []string{"Content-Type: text/plain; charset=" + v + tail, "Content-Type: text/plain; name=" + v + tail,
				"Content-Type: text/plain\r\nContent-Disposition: attachment; filename=" + v + tail,
				"Content-Type: text/plain\r\nContent-Disposition: inline; filename=" + v + tail + "\r\nContent-ID: " + v,
				"Content-Type: text/plain\r\nContent-Transfer-Encoding: " + v, "Content-Type: " + v + tail} {
				out = append(out, top+"Content-Type: multipart/mixed; boundary=B\r\n\r\n--B\r\n"+ph+"\r\n\r\nx\r\n--B--\r\n")
			}
		}
	}
	return out
}

func init() {
	register(Suite{Name: "c09-eml-total", Property: "C09",
		Rule: "EMLToMsgFromString / EMLToMsgFromReader on (a) renderings of generated messages (single-part and nested multipart), (b) structure-aware mutations of them (parameters truncated, emptied, unquoted, duplicated, re-quoted; boundaries missing or duplicated; encodings mismatched; lines deleted; truncation; byte noise), (c) arbitrary bytes, (d) readers failing at an offset; checks: no panic, returns within 3 s; non-trivial = mutated or failing reader; distinct by input bytes; a corpus of past failures runs first",
		Run: func(c *Ctx) {
			check := func(input []byte, kind string, fail int) {
				var m *mail.Msg
				var pan interface{}
				var to bool
				if fail >= 0 {
					_, _, pan, to = parseGuarded(func() (*mail.Msg, error) {
						return mail.EMLToMsgFromReader(&failingReader{data: input, fail: fail})
					})
				} else {
					m, _, pan, to = parseGuarded(func() (*mail.Msg, error) { return parseEMLAny(len(input), input) })
				}
				_ = m
				c.rep.OracleChecked++
				in := map[string]interface{}{"kind": kind, "eml": string(input), "reader_fails_at": fail}
				if pan != nil {
					c.Violate("c09-panic", fmt.Sprintf("EML parsing panicked: %v", pan), in)
				}
				if to {
					c.Violate("c09-hang", "EML parsing did not return within 3 s", in)
				}
				c.Count(kind != "valid", string(input)+fmt.Sprint(fail), kind)
				if len(c.rep.Samples) < 4 && kind == "mutated" {
					c.Sample(map[string]interface{}{"kind": kind, "eml_prefix": string(input[:min(len(input), 300)])})
				}
			}
			for _, s := range emlCorpus {
				check([]byte(s), "corpus", -1)
			}
			for _, s := range emlPartGrid() {
				check([]byte(s), "part-grid", -1)
			}
			for _, s := range emlParamGrid() {
				check([]byte(s), "param-grid", -1)
			}
			n := c.N(3000, 300000)
			for i := 0; i < n; i++ {
				r := c.Rng
				spc := genSpec(r, genOpts{maxParts: 3, maxFiles: 3, noFails: true, smallContent: true})
				spc.Boundary = ""
				m, _, err := spc.Build()
				if err != nil {
					continue
				}
				var buf bytes.Buffer
				if _, err := m.WriteTo(&buf); err != nil {
					continue
				}
				eml := buf.Bytes()
				switch r.Intn(10) {
				case 0:
					check(eml, "valid", -1)
				case 1:
					check(eml, "failing-reader", r.Intn(len(eml)+1))
				case 2:
					junk := genBody(r, genLen(r, 400))
					check(junk, "arbitrary", -1)
				default:
					check(mutateEML(r, eml), "mutated", -1)
				}
			}
		}})

	register(Suite{Name: "c10-roundtrip", Property: "C10",
		Rule: "messages within the parser's feature set (UTF-8 text/plain and text/html bodies and alternatives, attachments, embeds, quoted-printable / base64 / 7bit / 8bit; subjects and display names needing RFC 2047; file names over printable Unicode incl. blanks ';' '=') are built, rendered, parsed with EMLToMsgFromString, compared field by field, rendered again and read with the harness MIME reader; non-trivial = multipart or encoded header; distinct by builder operations",
		Run: func(c *Ctx) {
			n := c.N(1200, 50000)
			for i := 0; i < n; i++ {
				roundtripCase(c)
			}
		}})
}

var c10Names = []string{"report.txt", "with space.txt", "ümlaut.pdf", "a;b=c.txt", "日本語.txt", "semi;colon.bin", "equals=sign.dat", "plain", "dots.in.name.tar.gz", "paren(1).txt", "comma,name.txt", "quote'single.txt",
	"Квартальный отчёт за 2024 год.pdf", "Übersichtsgrafik der Jahresabschlussprüfung für Österreich.png", "非常に長い日本語のファイル名の例ですよ、もっと長く.txt",
	"a long, mostly ASCII file name with one ümlaut that needs more than one encoded-word.txt", "short ü.txt"}
var c10Subjects = []string{"Hello", "Ein sehr langer Betreff mit Umlauten äöü, der ganz sicher mehr als ein encoded-word braucht, weil er so lang ist",
	"長い件名長い件名長い件名長い件名長い件名長い件名長い件名長い件名", "Grüße aus Köln", "日本語の件名", "a very long subject that needs to be folded because it exceeds the line length limit by quite a bit really", "tab\there", "emoji 😀 subject", "trailing space ", "  double  space"}

func roundtripCase(c *Ctx) {
	r := c.Rng
	spc := &MsgSpec{}
	if r.Chance(40) {
		spc.Encoding = []string{"quoted-printable", "base64", "8bit"}[r.Intn(3)]
	}
	subject := c10Subjects[r.Intn(len(c10Subjects))]
	spc.Gen = []GenOp{{Key: "Subject", Values: []string{subject}}}
	spc.Addr = []AddrOp{{Kind: 0, Mode: "set", Values: []string{[]string{"alice@example.com", "Jürgen Müller <jm@example.de>", "\"Last, First\" <lf@example.net>", "\"Zoë \\\\ Backslash\" <zoe@example.com>",
		"\"Ein Anzeigename mit Umlauten äöü, der länger ist als ein einzelnes encoded-word tragen kann\" <long@example.com>"}[r.Intn(5)]}},
		{Kind: 2, Mode: "set", Values: [][]string{{"Bob <bob@example.org>"}, {"\"john doe\"@example.com"}, {"plain@example.com", "\"a@b\"@example.org", "\" lead\"@example.net"}, {"Bob <bob@example.org>", "carol@example.com"}, {"\"Smith, Mary\" <mary@example.org>"},
			{"carol@example.com", "\"Example, Inc. Support\" <support@example.com>", "\"Ünïcode, Comma\" <uc@example.com>"}}[r.Intn(6)]}}
	if r.Chance(40) {
		spc.Addr = append(spc.Addr, AddrOp{Kind: 3, Mode: "set", Values: [][]string{{"Ünïcode Cc <cc@example.com>"}, {"\"Doe, John (Sales)\" <jd@example.com>", "plain@example.com"}}[r.Intn(2)]})
	}
	np := 1 + r.Intn(2)
	types := []string{"text/plain", "text/html"}
	for i := 0; i < np; i++ {
		// text content with CRLF line breaks (what survives every transfer encoding)
		txt := canonCRLF([]byte(strings.ToValidUTF8(string(genBody(r, genLen(r, 200))), "?")))
		txt = bytes.ReplaceAll(txt, []byte("\x00"), []byte("0"))
		p := PartSpec{CType: types[i%2], Content: txt}
		if r.Chance(40) {
			e := []string{"quoted-printable", "base64", "8bit", "7bit"}[r.Intn(4)]
			p.Enc = &e
		}
		spc.Parts = append(spc.Parts, p)
	}
	nf := r.Intn(3)
	for i := 0; i < nf; i++ {
		f := FileSpec{Attach: r.Chance(70), Name: c10Names[r.Intn(len(c10Names))], Content: genBody(r, genLen(r, 200))}
		if r.Chance(30) {
			// a text file transferred as it is (8bit) or as 7bit: content that survives without an encoding (CRLF line
			// breaks, no NUL, short lines; ASCII only for 7bit)
			txt := canonCRLF([]byte(strings.ToValidUTF8(string(genBody(r, genLen(r, 200))), "?")))
			txt = bytes.ReplaceAll(txt, []byte("\x00"), []byte("0"))
			f.Enc = "8bit"
			if r.Bool() {
				f.Enc = "7bit"
				for k, b := range txt {
					if b >= 0x80 {
						txt[k] = 'x'
					}
				}
			}
			f.Content = txt
			f.CType = "text/plain"
		}
		spc.Files = append(spc.Files, f)
	}
	roundtripCheck(c, spc, subject)
}

// roundtripCheck: render, parse, compare field by field, render the parsed message again and read it
func roundtripCheck(c *Ctx, spc *MsgSpec, subject string) {
	m, _, err := spc.Build()
	if err != nil {
		return
	}
	m.SetDateWithValue(time.Date(2024, 2, 3, 4, 5, 6, 0, time.UTC))
	var first bytes.Buffer
	if _, err := m.WriteTo(&first); err != nil {
		c.Note("render: %v", err)
		return
	}
	c.Count(len(spc.Parts)+len(spc.Files) > 1, first.String(), spc.shape())
	c.Sample(spc)
	c.rep.OracleChecked++
	parsed, perr, pan, to := parseGuarded(func() (*mail.Msg, error) { return parseEMLAny(first.Len(), first.Bytes()) })
	if pan != nil || to {
		c.Violate("c09-panic", fmt.Sprintf("parsing a rendering panicked / hung: %v", pan), spc)
		return
	}
	if perr != nil {
		c.Violate("c10-parse-error", "the rendering of a supported message does not parse: "+perr.Error(), spc)
		return
	}
	// ---- field by field
	if g, w := parsed.GetGenHeader(mail.HeaderSubject), m.GetGenHeader(mail.HeaderSubject); strings.Join(g, "|") != strings.Join(w, "|") {
		dg, _ := decode2047(strings.Join(g, " "))
		if normWS(dg) != normWS(subject) {
			c.Violate("c10-subject", fmt.Sprintf("subject %q became %q", subject, dg), spc)
		}
	}
	for _, k := range []mail.AddrHeader{mail.HeaderFrom, mail.HeaderTo, mail.HeaderCc} {
		a, b := m.GetAddrHeader(k), parsed.GetAddrHeader(k)
		if len(a) != len(b) {
			c.Violate("c10-addresses", fmt.Sprintf("%s: %d addresses became %d", k, len(a), len(b)), spc)
			continue
		}
		for i := range a {
			if a[i].Address != b[i].Address || a[i].Name != b[i].Name {
				c.Violate("c10-addresses", fmt.Sprintf("%s[%d]: %q <%s> became %q <%s>", k, i, a[i].Name, a[i].Address, b[i].Name, b[i].Address), spc)
			}
		}
	}
	if g, w := parsed.GetGenHeader(mail.HeaderDate), m.GetGenHeader(mail.HeaderDate); strings.Join(g, "|") != strings.Join(w, "|") {
		c.Violate("c10-date", fmt.Sprintf("date %v became %v", w, g), spc)
	}
	pp := parsed.GetParts()
	if len(pp) != len(spc.Parts) {
		c.Violate("c10-part-count", fmt.Sprintf("%d body parts became %d", len(spc.Parts), len(pp)), spc)
	} else {
		for i, p := range pp {
			content, _ := p.GetContent()
			if string(p.GetContentType()) != spc.Parts[i].CType {
				c.Violate("c10-part-type", fmt.Sprintf("part %d: type %q became %q", i, spc.Parts[i].CType, p.GetContentType()), spc)
			}
			if !strings.EqualFold(string(p.GetCharset()), "UTF-8") {
				c.Violate("c10-part-charset", fmt.Sprintf("part %d: charset became %q", i, p.GetCharset()), spc)
			}
			if !bytes.Equal(content, spc.Parts[i].Content) {
				c.Violate("c10-part-content", fmt.Sprintf("part %d: content changed (%d -> %d bytes)", i, len(spc.Parts[i].Content), len(content)), spc)
			}
		}
	}
	var wantFiles, gotFiles []string
	for _, f := range spc.Files {
		kind := "embed"
		if f.Attach {
			kind = "attach"
		}
		wantFiles = append(wantFiles, kind+"|"+sanitizeRef(f.Name)+"|"+string(f.Content))
	}
	for _, f := range parsed.GetAttachments() {
		var b bytes.Buffer
		_, _ = f.Writer(&b)
		gotFiles = append(gotFiles, "attach|"+f.Name+"|"+b.String())
	}
	for _, f := range parsed.GetEmbeds() {
		var b bytes.Buffer
		_, _ = f.Writer(&b)
		gotFiles = append(gotFiles, "embed|"+f.Name+"|"+b.String())
	}
	sort.Strings(wantFiles)
	sort.Strings(gotFiles)
	if strings.Join(wantFiles, "\x00") != strings.Join(gotFiles, "\x00") {
		names := func(l []string) []string {
			var o []string
			for _, s := range l {
				p := strings.SplitN(s, "|", 3)
				o = append(o, p[0]+":"+p[1]+fmt.Sprintf("(%d)", len(p[2])))
			}
			return o
		}
		c.Violate("c10-files", fmt.Sprintf("files %v became %v", names(wantFiles), names(gotFiles)), spc)
	}
	// ---- render the parsed message again: well-formed and same content for an independent reader
	var second bytes.Buffer
	if _, err := parsed.WriteTo(&second); err != nil {
		c.Violate("c10-rerender-error", err.Error(), spc)
		return
	}
	ent, err := parseEntity(second.Bytes(), 0)
	if err != nil {
		c.Violate("c10-rerender-unparseable", err.Error(), spc)
		return
	}
	seen := map[string]int{}
	for _, f := range ent.Fields {
		seen[strings.ToLower(f.Name)]++
	}
	for k, n := range seen {
		if n > 1 {
			c.Violate("c10-rerender-duplicate-field", fmt.Sprintf("the re-rendered message has %d %s fields", n, k), spc)
		}
	}
	leaves := ent.leaves()
	exp := spc.expectedLeaves()
	if len(leaves) != len(exp) {
		c.Violate("c10-rerender-leaves", fmt.Sprintf("the re-rendered message has %d leaves, the original %d", len(leaves), len(exp)), spc)
		return
	}
	for i, l := range leaves {
		body, cte, err := l.decodedBody()
		if err != nil {
			c.Violate("c10-rerender-content", fmt.Sprintf("leaf %d does not decode: %v", i, err), spc)
			continue
		}
		want := exp[i].content
		if cte == "quoted-printable" {
			want = canonCRLF(want)
		}
		if !bytes.Equal(body, want) {
			c.Violate("c10-rerender-content", fmt.Sprintf("leaf %d (%s): content changed (%d -> %d bytes)", i, cte, len(want), len(body)), spc)
		}
		// files: kind and name as an independent reader sees them in the SECOND rendering
		if exp[i].kind != "part" {
			cd, _ := l.Get("Content-Disposition")
			disp, params, perr := parseParams(cd)
			wantDisp := "inline"
			if exp[i].kind == "attachment" {
				wantDisp = "attachment"
			}
			if perr != nil || disp != wantDisp {
				c.Violate("c10-rerender-files", fmt.Sprintf("leaf %d: disposition %q (%v) in the second rendering, expected %s", i, cd, perr, wantDisp), spc)
			} else if fn, derr := decode2047(params["filename"]); derr != nil || fn != exp[i].name {
				c.Violate("c10-rerender-files", fmt.Sprintf("leaf %d: file name %q (%v) in the second rendering, %q was set", i, fn, derr, exp[i].name), spc)
			}
		}
	}
}

func init() {
	register(Suite{Name: "c09-params", Property: "C09",
		Rule: "parseMultiPartHeader on generated and mutated header values (parameters truncated, emptied, unquoted, duplicated; arbitrary bytes): implementation (hook) vs Lean model; distinct by value",
		Run: func(c *Ctx) {
			n := c.N(3000, 200000)
			seeds := []string{"text/plain; charset=UTF-8", "attachment; filename=\"a;b=c.txt\"", "multipart/mixed;\r\n boundary=abc", "inline; filename=x; filename=y", "a=b=c; d", ";;;", "", "x; =; k=; =v"}
			for i := 0; i < n; i++ {
				r := c.Rng
				v := seeds[r.Intn(len(seeds))]
				for k := r.Intn(3); k > 0; k-- {
					v = paramMutations[r.Intn(len(paramMutations))](r, v)
				}
				if r.Chance(15) {
					v = genText(r, 6)
				}
				var h string
				var opts map[string]string
				var pan interface{}
				if !watchdog(5*time.Second, func() {
					defer func() { pan = recover() }()
					h, opts = mail.VerifParseMultiPartHeader(v)
				}) {
					c.Violate("c09-hang", "parseMultiPartHeader did not return within 5 s", map[string]interface{}{"value": v})
					continue
				}
				if pan != nil {
					c.Violate("c09-panic", fmt.Sprintf("parseMultiPartHeader panicked: %v", pan), map[string]interface{}{"value": v})
					continue
				}
				var kvs []string
				for k, val := range opts {
					kvs = append(kvs, k+"="+val)
				}
				sort.Strings(kvs)
				if len(v) > 30000 {
					// (the list-based model is quadratic in the number of parameters: the guarded call above is the check here)
					c.Count(true, v, "very-long-value")
					continue
				}
				c.AddCase(Case{Line: "mph " + encS(v), Want: encS(h) + " " + encLS(kvs), Nontrivial: len(opts) > 0, Branch: fmt.Sprintf("opts=%d", min(len(opts), 3)),
					Desc: map[string]interface{}{"value": v}})
			}
		}})
}
