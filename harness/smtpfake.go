package main

import (
	"bytes"
	"crypto/tls"
	"errors"
	"fmt"
	"io"
	"net"
	"os"
	"strings"
	"sync"
	"time"
)

// ---------------------------------------------------------------------------------------------
// Scripted SMTP peer on a synchronous in-memory connection with virtual time.
//
// The client side is a net.Conn. Every byte the client writes is handed to the server state machine
// at once, and whatever the server answers is queued for the client to read. So when the client
// reads and nothing is queued, the server is silent for good: that is a stall. With a deadline
// armed the read fails with a timeout immediately (virtual time), without one it is recorded as
// "blocks forever" (and fails, so that the harness does not hang).
//
// The server does not judge the dialogue. It records it; judging is done by the Lean reference
// automaton and by the Go oracle in oracle_smtp.go.

type SrvAction struct {
	Kind string `json:"kind"` // ok | reply | drop | stall | garbage
	Code int    `json:"code,omitempty"`
	Text string `json:"text,omitempty"` // lines separated by \n
}

type Event struct {
	Kind string `json:"kind"` // greet cmd data eod reply drop close deadline stall-armed stall-unarmed
	Line string `json:"line,omitempty"`
	Data []byte `json:"data,omitempty"`
	Code int    `json:"code,omitempty"`
	Pos  int    `json:"pos,omitempty"`
}

type RefServer struct {
	mu        sync.Mutex
	Caps      []string           // EHLO capability lines
	Script    map[int]SrvAction  // overrides by position (0 = greeting, then one per command / end-of-data)
	Dynamic   func(pos int, verb, line string) (SrvAction, bool) // optional: computes the action when the script has none
	TLSGood   *tls.Config // certificate valid for the configured host
	TLSBad    *tls.Config // certificate the client must reject (wrong name / untrusted), chosen by the scenario
	tlsActive bool
	curLine   string
	pos       int
	inData    bool
	inAuth    bool
	lineBuf   []byte
	dataBuf   []byte
	Events    []Event
	Committed [][]byte
	Applied   []SrvAction // the action taken at each position, in order
	Verbs     []string    // the verb (or "greeting"/"eod") seen at each position
	closed    bool        // server closed the connection
	stalled   bool        // server will never speak again
	deaf      bool        // ... and does not read either: what the client writes piles up in the transport
	tlsStarted bool
	tx         int // mail transaction state for the strict default replies (see track)
	resetAfter int // > 0: reset the connection once this many bytes of content (minus one) have arrived
	reset      bool
	tlsServing bool       // replies now travel inside TLS
	tlsDone   chan struct{}
	TLSState  *tls.ConnectionState // server side view of the established TLS connection
	out       *bytes.Buffer
}

func NewRefServer(caps []string, script map[int]SrvAction) *RefServer {
	return &RefServer{Caps: caps, Script: script, out: &bytes.Buffer{}}
}

func (s *RefServer) action(verb string) SrvAction {
	a, ok := s.Script[s.pos]
	if !ok && s.Dynamic != nil {
		a, ok = s.Dynamic(s.pos, verb, s.curLine)
	}
	if !ok {
		a = SrvAction{Kind: "ok"}
	}
	s.Applied = append(s.Applied, a)
	s.Verbs = append(s.Verbs, verb)
	s.pos++
	return a
}

func (s *RefServer) sendReply(code int, text string) {
	lines := strings.Split(text, "\n")
	for i, l := range lines {
		sep := " "
		if i < len(lines)-1 {
			sep = "-"
		}
		fmt.Fprintf(s.out, "%03d%s%s\r\n", code, sep, l)
	}
	s.Events = append(s.Events, Event{Kind: "reply", Code: code, Line: text, Pos: s.pos - 1})
}

// defaultReply is what a well-behaved server answers to the verb
func (s *RefServer) defaultReply(verb string) (int, string) {
	switch verb {
	case "greeting":
		return 220, "verif.example ESMTP ready"
	case "EHLO":
		return 250, strings.Join(append([]string{"verif.example greets you"}, s.Caps...), "\n")
	case "HELO":
		return 250, "verif.example"
	case "MAIL", "RCPT", "RSET", "NOOP", "VRFY":
		return 250, "2.0.0 OK"
	case "DATA":
		return 354, "End data with <CR><LF>.<CR><LF>"
	case "eod":
		return 250, "2.0.0 OK: queued"
	case "QUIT":
		return 221, "2.0.0 Bye"
	case "STARTTLS":
		return 220, "2.0.0 Ready to start TLS"
	case "AUTH", "auth-step":
		return 235, "2.7.0 Authentication successful"
	case "auth-abort":
		return 501, "5.0.0 Authentication aborted"
	}
	return 500, "5.5.2 Error: command not recognized"
}

// respond applies the scripted action for this position. Returns the reply code sent (0 = none).
func (s *RefServer) respond(verb string) int {
	a := s.action(verb)
	switch a.Kind {
	case "drop":
		s.closed = true
		s.Events = append(s.Events, Event{Kind: "drop", Pos: s.pos - 1})
		return 0
	case "stall":
		s.stalled = true
		return 0
	case "garbage":
		s.out.WriteString("\x16\x03\x01 this is not SMTP\r\n")
		s.Events = append(s.Events, Event{Kind: "reply", Code: -1, Line: "garbage", Pos: s.pos - 1})
		s.track(verb, -1)
		return -1
	case "reply":
		s.sendReply(a.Code, a.Text)
		s.track(verb, a.Code)
		return a.Code
	case "reset-in-data":
		// DATA is accepted; after a.Code bytes of content the server resets the connection: from then on every
		// write of the client fails (connection reset by peer)
		code, text := s.defaultReply(verb)
		s.sendReply(code, text)
		s.track(verb, code)
		s.resetAfter = a.Code + 1
		return code
	case "deaf":
		// the well-behaved reply, then the server neither reads nor writes any more
		code, text := s.defaultReply(verb)
		s.sendReply(code, text)
		s.track(verb, code)
		s.stalled = true
		s.deaf = true
		return code
	default:
		code, text := s.defaultReply(verb)
		// a well-behaved server is also a strict one: commands that are out of sequence are refused (RFC 5321
		// section 4.1.4). A legal client never sees this; one that forgets an RSET does.
		switch {
		case verb == "MAIL" && s.tx != 0:
			code, text = 503, "5.5.1 Error: nested MAIL command"+outOfSequence
		case verb == "RCPT" && s.tx == 0:
			code, text = 503, "5.5.1 Error: need MAIL command"+outOfSequence
		case verb == "DATA" && s.tx != 2:
			code, text = 503, "5.5.1 Error: need RCPT command"+outOfSequence
		}
		s.sendReply(code, text)
		s.track(verb, code)
		return code
	}
}

// outOfSequence marks the replies the server gives on its own account to a command that is out of sequence
const outOfSequence = " (out of sequence)"

// track follows the mail transaction as the server sees it: 0 = none, 1 = MAIL accepted, 2 = a recipient accepted
func (s *RefServer) track(verb string, code int) {
	ok := code >= 200 && code < 300
	switch verb {
	case "EHLO", "HELO", "RSET", "STARTTLS":
		if ok {
			s.tx = 0
		}
	case "MAIL":
		if ok {
			s.tx = 1
		}
	case "RCPT":
		if ok && s.tx >= 1 {
			s.tx = 2
		}
	case "eod":
		s.tx = 0
	}
}

func verbOf(line string) string {
	if line == "*" {
		return "auth-abort"
	}
	up := strings.ToUpper(line)
	for _, v := range []string{"EHLO", "HELO", "MAIL", "RCPT", "DATA", "RSET", "NOOP", "QUIT", "STARTTLS", "AUTH", "VRFY"} {
		if up == v || strings.HasPrefix(up, v+" ") {
			return v
		}
	}
	return "?"
}

// feed consumes bytes written by the client
func (s *RefServer) feed(p []byte) {
	s.mu.Lock()
	defer s.mu.Unlock()
	if s.closed || s.stalled {
		return
	}
	s.lineBuf = append(s.lineBuf, p...)
	for {
		if s.closed || s.stalled {
			return
		}
		if s.inData {
			// end of data: <CRLF>.<CRLF>, or ".<CRLF>" as the very first line
			buf := s.lineBuf
			end, skip := -1, 0
			if bytes.HasPrefix(buf, []byte(".\r\n")) && len(s.dataBuf) == 0 {
				end, skip = 0, 3
			} else if i := bytes.Index(buf, []byte("\r\n.\r\n")); i >= 0 {
				end, skip = i+2, 3
			}
			if s.resetAfter > 0 && len(s.dataBuf)+len(buf) >= s.resetAfter {
				s.closed, s.reset = true, true
				s.Events = append(s.Events, Event{Kind: "drop", Pos: s.pos})
				return
			}
			if end < 0 {
				return
			}
			s.dataBuf = append(s.dataBuf, buf[:end]...)
			s.lineBuf = append([]byte(nil), buf[end+skip:]...)
			payload := unstuff(s.dataBuf)
			s.dataBuf = nil
			s.inData = false
			s.Events = append(s.Events, Event{Kind: "eod", Data: payload, Pos: s.pos})
			code := s.respond("eod")
			if code >= 200 && code < 300 {
				s.Committed = append(s.Committed, payload)
			}
			continue
		}
		i := bytes.Index(s.lineBuf, []byte("\r\n"))
		if i < 0 {
			return
		}
		line := string(s.lineBuf[:i])
		s.lineBuf = append([]byte(nil), s.lineBuf[i+2:]...)
		if s.out.Len() > 0 && !s.tlsActive {
			// the client speaks although it has not read all of the previous reply
			s.Events = append(s.Events, Event{Kind: "unread", Line: line, Data: append([]byte(nil), s.out.Bytes()...), Pos: s.pos})
		}
		s.Events = append(s.Events, Event{Kind: "cmd", Line: line, Pos: s.pos})
		s.curLine = line
		if s.inAuth {
			verb := "auth-step"
			if line == "*" {
				verb = "auth-abort"
			}
			code := s.respond(verb)
			if code != 334 {
				s.inAuth = false
			}
			continue
		}
		verb := verbOf(line)
		code := s.respond(verb)
		switch {
		case verb == "DATA" && code == 354:
			s.inData = true
		case verb == "QUIT" && code == 221:
			s.closed = true
		case verb == "AUTH" && code == 334:
			s.inAuth = true
		case verb == "STARTTLS" && code == 220 && s.TLSGood != nil:
			s.tlsActive = true
			return
		}
	}
}

// unstuff reverses SMTP transparency on a DATA payload (CRLF lines, leading dot removed)
func unstuff(b []byte) []byte {
	var out []byte
	atLineStart := true
	for i := 0; i < len(b); i++ {
		if atLineStart && b[i] == '.' {
			atLineStart = false
			continue
		}
		out = append(out, b[i])
		atLineStart = b[i] == '\n'
	}
	return out
}

// ---------------------------------------------------------------------------------------------

type timeoutErr struct{}

func (timeoutErr) Error() string   { return "i/o timeout (virtual deadline)" }
func (timeoutErr) Timeout() bool   { return true }
func (timeoutErr) Temporary() bool { return true }
func (timeoutErr) Is(target error) bool {
	return target == os.ErrDeadlineExceeded
}

var errBlocksForever = errors.New("verif: read would block forever (no deadline armed)")

// ScriptConn is the client's end of the connection
type ScriptConn struct {
	mu       sync.Mutex
	srv      *RefServer
	closed   bool
	armed    bool
	Closes   int
	Blocked  []string // "armed" / "unarmed" for every read that found the server silent
	name     string
	wArmed   bool         // a write deadline is armed (SetDeadline / SetWriteDeadline)
	unread   int          // bytes written since the server stopped reading
	raw      *pipeEnd     // non-nil once the server switched to TLS: bytes are TLS records from here on
	Clear    bytes.Buffer // everything the client wrote before the switch (cleartext on the wire)
	deadline time.Time
}

func NewScriptConn(srv *RefServer) *ScriptConn {
	c := &ScriptConn{srv: srv}
	// the greeting is sent as soon as the connection exists
	srv.mu.Lock()
	srv.Events = append(srv.Events, Event{Kind: "connect"})
	srv.respond("greeting")
	srv.mu.Unlock()
	return c
}

func (c *ScriptConn) Read(p []byte) (int, error) {
	c.mu.Lock()
	defer c.mu.Unlock()
	if c.closed {
		return 0, net.ErrClosed
	}
	c.srv.mu.Lock()
	if c.raw != nil {
		// plain replies queued before the switch (the 220 to STARTTLS) are delivered first
		if c.srv.out.Len() > 0 && !c.srv.tlsServing {
			n, err := c.srv.out.Read(p)
			c.srv.mu.Unlock()
			return n, err
		}
		raw := c.raw
		armed := c.armed
		c.srv.mu.Unlock()
		if !armed {
			// no deadline armed: a silent server would block this read forever; a watchdog turns that
			// into a recorded "blocks forever" instead of hanging the harness
			_ = raw.SetDeadline(time.Now().Add(2 * time.Second))
		}
		c.mu.Unlock()
		n, err := raw.Read(p)
		c.mu.Lock()
		if err != nil && errors.Is(err, os.ErrDeadlineExceeded) {
			c.srv.mu.Lock()
			if armed {
				c.srv.Events = append(c.srv.Events, Event{Kind: "stall-armed"})
			} else {
				c.srv.Events = append(c.srv.Events, Event{Kind: "stall-unarmed"})
				err = errBlocksForever
			}
			c.srv.mu.Unlock()
			if armed {
				err = timeoutErr{}
			}
		}
		return n, err
	}
	defer c.srv.mu.Unlock()
	if c.srv.out.Len() > 0 {
		// one line per read, as a network may deliver them: what a reader leaves unread of a reply stays
		// visible to the server (see feed: "unread")
		if i := bytes.IndexByte(c.srv.out.Bytes(), '\n'); i >= 0 && i+1 < len(p) {
			p = p[:i+1]
		}
		return c.srv.out.Read(p)
	}
	if c.srv.closed {
		return 0, io.EOF
	}
	// the server is silent and will stay silent until the client writes again
	if c.armed {
		c.Blocked = append(c.Blocked, "armed")
		c.srv.Events = append(c.srv.Events, Event{Kind: "stall-armed"})
		return 0, timeoutErr{}
	}
	c.Blocked = append(c.Blocked, "unarmed")
	c.srv.Events = append(c.srv.Events, Event{Kind: "stall-unarmed"})
	return 0, errBlocksForever
}

func (c *ScriptConn) Write(p []byte) (int, error) {
	c.mu.Lock()
	if c.closed {
		c.mu.Unlock()
		return 0, net.ErrClosed
	}
	raw := c.raw
	if raw == nil {
		c.Clear.Write(p)
	}
	if raw == nil {
		c.srv.mu.Lock()
		deaf := c.srv.deaf
		c.srv.mu.Unlock()
		if deaf {
			// nobody reads: the transport takes transportBuffer bytes, then the write waits
			c.unread += len(p)
			if c.unread > transportBuffer {
				armed := c.wArmed
				c.mu.Unlock()
				c.srv.mu.Lock()
				defer c.srv.mu.Unlock()
				if armed {
					c.srv.Events = append(c.srv.Events, Event{Kind: "stall-armed"})
					return 0, timeoutErr{}
				}
				c.srv.Events = append(c.srv.Events, Event{Kind: "stall-unarmed"})
				return 0, errBlocksForever
			}
		}
	}
	c.mu.Unlock()
	if raw != nil {
		return raw.Write(p)
	}
	c.srv.mu.Lock()
	wasReset := c.srv.reset
	c.srv.mu.Unlock()
	if wasReset {
		return 0, &net.OpError{Op: "write", Net: "tcp", Err: errors.New("connection reset by peer")}
	}
	c.srv.feed(p)
	c.srv.mu.Lock()
	start := c.srv.tlsActive && !c.srv.tlsStarted
	if start {
		c.srv.tlsStarted = true
	}
	c.srv.mu.Unlock()
	if start {
		cEnd, sEnd := newBufPipe()
		c.mu.Lock()
		c.raw = cEnd
		_ = cEnd.SetDeadline(c.deadline)
		c.mu.Unlock()
		go c.srv.serveTLS(sEnd)
	}
	return len(p), nil
}

func (c *ScriptConn) Close() error {
	c.mu.Lock()
	defer c.mu.Unlock()
	c.Closes++
	if c.closed {
		return net.ErrClosed
	}
	c.closed = true
	c.srv.mu.Lock()
	c.srv.Events = append(c.srv.Events, Event{Kind: "close"})
	c.srv.mu.Unlock()
	if c.raw != nil {
		_ = c.raw.Close()
	}
	return nil
}

func (c *ScriptConn) IsClosed() bool {
	c.mu.Lock()
	defer c.mu.Unlock()
	return c.closed
}

type fakeAddr string

func (a fakeAddr) Network() string { return "verif" }
func (a fakeAddr) String() string  { return string(a) }

func (c *ScriptConn) LocalAddr() net.Addr  { return fakeAddr("client") }
func (c *ScriptConn) RemoteAddr() net.Addr { return fakeAddr("server") }
func (c *ScriptConn) SetDeadline(t time.Time) error {
	c.mu.Lock()
	defer c.mu.Unlock()
	if c.closed {
		return net.ErrClosed
	}
	c.armed = !t.IsZero()
	c.wArmed = !t.IsZero()
	c.deadline = t
	if c.raw != nil {
		_ = c.raw.SetDeadline(t)
	}
	c.srv.mu.Lock()
	c.srv.Events = append(c.srv.Events, Event{Kind: "deadline"})
	c.srv.mu.Unlock()
	return nil
}
// crypto/tls sets a write deadline of its own when it sends close_notify; only SetDeadline is the
// client's own arming of the connection deadline
func (c *ScriptConn) SetReadDeadline(t time.Time) error {
	c.mu.Lock()
	defer c.mu.Unlock()
	c.armed = !t.IsZero()
	c.deadline = t
	if c.raw != nil {
		_ = c.raw.SetDeadline(t)
	}
	return nil
}
func (c *ScriptConn) SetWriteDeadline(t time.Time) error {
	c.mu.Lock()
	defer c.mu.Unlock()
	c.wArmed = !t.IsZero()
	return nil
}

// transportBuffer: how much a connection takes while the peer does not read (socket buffers)
const transportBuffer = 64 << 10

// serveTLS runs on its own goroutine once the client has been told to start TLS: it takes the
// handshake action from the script and then keeps feeding the decrypted bytes to the same state machine.
func (s *RefServer) serveTLS(end *pipeEnd) {
	defer func() {
		if s.tlsDone != nil {
			close(s.tlsDone)
		}
	}()
	s.mu.Lock()
	a := s.action("handshake")
	good, bad := s.TLSGood, s.TLSBad
	s.mu.Unlock()
	record := func(kind string) {
		s.mu.Lock()
		s.Events = append(s.Events, Event{Kind: kind})
		s.mu.Unlock()
	}
	switch a.Kind {
	case "drop":
		record("drop")
		s.mu.Lock()
		s.closed = true
		s.mu.Unlock()
		_ = end.Close()
		return
	case "stall":
		s.mu.Lock()
		s.stalled = true
		s.mu.Unlock()
		return
	case "garbage", "reply":
		// anything that is not a TLS handshake (an SMTP reply line is just as wrong here)
		_, _ = end.Write([]byte("\x15\x03\x01\x00\x02\x02\x28 this is not a TLS handshake\r\n"))
		record("tls-fail")
		time.Sleep(20 * time.Millisecond)
		_ = end.Close()
		return
	}
	cfg := good
	if a.Kind == "tlsbad" {
		cfg = bad
	}
	conn := tls.Server(end, cfg)
	_ = conn.SetDeadline(time.Now().Add(3 * time.Second))
	if err := conn.Handshake(); err != nil {
		record("tls-fail")
		_ = end.Close()
		return
	}
	_ = conn.SetDeadline(time.Time{})
	if a.Kind == "tlsbad" {
		// the client accepted a certificate it must reject
		record("tls-accepted-bad-cert")
	}
	record("tls-on")
	s.mu.Lock()
	s.tlsServing = true
	st := conn.ConnectionState()
	s.TLSState = &st
	s.mu.Unlock()
	buf := make([]byte, 8192)
	for {
		n, err := conn.Read(buf)
		if n > 0 {
			s.feed(buf[:n])
			s.mu.Lock()
			out := append([]byte(nil), s.out.Bytes()...)
			s.out.Reset()
			closed := s.closed
			s.mu.Unlock()
			if len(out) > 0 {
				if _, werr := conn.Write(out); werr != nil {
					return
				}
			}
			if closed {
				_ = conn.Close()
				return
			}
		}
		if err != nil {
			return
		}
	}
}
