package main

import (
	"os"
	"encoding/pem"
	"encoding/json"
	"bytes"
	"context"
	"crypto/hmac"
	"crypto/md5"
	"crypto/tls"
	"crypto/x509"
	"encoding/base64"
	"encoding/hex"
	"errors"
	"fmt"
	"net"
	"strings"
	"sync"
	"time"

	mail "github.com/wneessen/go-mail"
	maillog "github.com/wneessen/go-mail/log"
	"github.com/wneessen/go-mail/smtp"
)

// ---------------------------------------------------------------------------------------------
// Dial scenarios: Client.DialWithContext against the scripted server, with TLS policies, real TLS
// handshakes (good / wrong-name / untrusted certificates), every auth type, debug logging.

type DialScenario struct {
	Caps      []string          `json:"caps"`
	Script    map[int]SrvAction `json:"script"`
	Helo      string            `json:"helo,omitempty"`
	Host      string            `json:"host"`
	Policy    int               `json:"policy"` // 0 mandatory 1 opportunistic 2 none
	AuthType  string            `json:"auth_type"`
	User      string            `json:"user,omitempty"`
	Pass      string            `json:"pass,omitempty"`
	Debug     bool              `json:"debug,omitempty"`
	LogAuth   bool              `json:"log_auth,omitempty"`
	BadCert   string            `json:"bad_cert,omitempty"` // wrongname | untrusted: what a "tlsbad" handshake presents
	ThenReset bool              `json:"then_reset,omitempty"` // Client.Reset() after a successful dial
	// CustomAuth: the mechanism is handed over as ONE smtp.Auth value (WithSMTPAuthCustom / SetSMTPAuthCustom):
	// the same value serves every dial of the Client
	CustomAuth bool `json:"custom_auth,omitempty"`
	// FirstDialFails (with the opportunistic policy): the policy is given as a port policy (port 587, fallback
	// port 25) and the first connection attempt is refused; the dialogue then runs over the fallback port
	FirstDialFails bool `json:"first_dial_fails,omitempty"`
	// DefaultTLS: the Client is given no TLS configuration: go-mail's default one applies (server name = host)
	DefaultTLS bool `json:"default_tls,omitempty"`
	TLS12     bool              `json:"tls12,omitempty"`      // the server only speaks TLS 1.2
	// UseSSL: implicit TLS is switched on (WithSSL / SetSSL) although the connection comes from a custom dial
	// function, which here returns the scripted connection as it is (no TLS): the library skips STARTTLS and must
	// treat the connection as what it is - unencrypted
	UseSSL bool `json:"use_ssl,omitempty"`
	sasl      *saslServer
	Timeout   time.Duration     `json:"-"`
	dynamic   func(pos int, verb, line string) (SrvAction, bool)
	// Redial: a second DialWithContext on the SAME Client (after Close) against this server; only Caps,
	// Script and dynamic of it are used, the client configuration stays
	Redial *DialScenario `json:"redial,omitempty"`
	// Variant != 0: setters instead of options, chosen from this seed
	Variant uint64 `json:"variant,omitempty"`
	// CloseDuringAuth = k > 0 (RunAuthFirst only): while the server holds back its reply to the k-th line
	// of the AUTH dialogue, another goroutine calls Client.Close() (a watchdog, a shutdown)
	CloseDuringAuth int `json:"close_during_auth,omitempty"`
	// RedialNoClose: the second DialWithContext happens without a Close in between (the Client still holds the
	// first connection); OldQuit: what the FIRST server answers should the client send it a QUIT now
	RedialNoClose bool       `json:"redial_no_close,omitempty"`
	OldQuit       *SrvAction `json:"old_quit,omitempty"`
}

type DialRun struct {
	Events  []Event
	Applied []SrvAction
	Verbs   []string
	Err     error
	Open    bool
	Clear   []byte
	Logs    []string
	DialCtxProblems []string // dial attempts whose context carried no deadline, or one beyond the configured timeout
	LogsWhole []string
	Panic   interface{}
	Client  *mail.Client
	ScramNonce string
	ScramNonces []string
	ResetErr error
	StockText, StockJSON string
	TLSState *tls.ConnectionState
	Second   *DialRun // outcome of the Redial
}

// certificates for the scripted server
var (
	tlsOnce                         sync.Once
	tlsGoodCfg, tlsWrongName, tlsUntrusted map[string]*tls.Config
	tlsRoots                        *x509.CertPool
	tlsPrefix255                    map[string]*tls.Config // certificates valid for the first 255 characters of a longer host name only
)

// longHost: a configured server name of 300 characters (not a name the DNS could carry; a client may be handed one)
var longHost = strings.Repeat("mail-relay-host-name-label.", 11) + "example"

func tlsMaterial() {
	tlsOnce.Do(func() {
		tlsGoodCfg = map[string]*tls.Config{}
		tlsWrongName = map[string]*tls.Config{}
		tlsUntrusted = map[string]*tls.Config{}
		root, rootKey := mkCA("verif tls root")
		rogue, rogueKey := mkCA("rogue root")
		tlsRoots = x509.NewCertPool()
		tlsRoots.AddCert(root)
		// the root is also what the process trusts by default (clients that bring no TLS configuration of their own:
		// go-mail's default configuration then decides which name the certificate is checked against)
		if f, err := os.CreateTemp("", "gmverif-roots-*.pem"); err == nil {
			_ = pem.Encode(f, &pem.Block{Type: "CERTIFICATE", Bytes: root.Raw})
			_ = f.Close()
			_ = os.Setenv("SSL_CERT_FILE", f.Name())
			_ = os.Setenv("SSL_CERT_DIR", "/nonexistent-gmverif")
		}
		tlsPrefix255 = map[string]*tls.Config{}
		tlsPrefix255[longHost] = &tls.Config{Certificates: []tls.Certificate{mkLeaf(longHost[:255], root, rootKey)}}
		for _, host := range []string{"verif.example", "localhost", "127.0.0.1", "localhost.mail-relay.example", "LOCALHOST", longHost} {
			tlsGoodCfg[host] = &tls.Config{Certificates: []tls.Certificate{mkLeaf(host, root, rootKey)}}
			tlsWrongName[host] = &tls.Config{Certificates: []tls.Certificate{mkLeaf("other.example", root, rootKey)}}
			tlsUntrusted[host] = &tls.Config{Certificates: []tls.Certificate{mkLeaf(host, rogue, rogueKey)}}
		}
	})
}

// capturing logger
type capLogger struct {
	mu    sync.Mutex
	recs  []string
	whole []string // every record as a logger that keeps the complete value would see it (%+v and JSON)
}

func (l *capLogger) rec(lg maillog.Log) {
	l.mu.Lock()
	defer l.mu.Unlock()
	dir := "C "
	text := fmt.Sprintf(lg.Format, lg.Messages...)
	if lg.Direction == maillog.DirServerToClient {
		dir = "S "
	}
	l.recs = append(l.recs, dir+text)
	js, _ := json.Marshal(lg)
	l.whole = append(l.whole, fmt.Sprintf("%+v", lg)+" "+string(js))
}
func (l *capLogger) Debugf(lg maillog.Log) { l.rec(lg) }
func (l *capLogger) Infof(lg maillog.Log)  { l.rec(lg) }
func (l *capLogger) Warnf(lg maillog.Log)  { l.rec(lg) }
func (l *capLogger) Errorf(lg maillog.Log) { l.rec(lg) }

// newDialServer builds the scripted server of a dial scenario
func newDialServer(sc *DialScenario, host string) *RefServer {
	srv := NewRefServer(sc.Caps, sc.Script)
	srv.Dynamic = sc.dynamic
	srv.TLSGood = tlsGoodCfg[host]
	switch sc.BadCert {
	case "prefix255":
		srv.TLSBad = tlsPrefix255[host]
	case "untrusted":
		srv.TLSBad = tlsUntrusted[host]
	default:
		srv.TLSBad = tlsWrongName[host]
	}
	if sc.TLS12 && srv.TLSGood != nil {
		cfg := srv.TLSGood.Clone()
		cfg.MaxVersion = tls.VersionTLS12
		srv.TLSGood = cfg
	}
	if sc.sasl != nil {
		sc.sasl.tlsState = func() *tls.ConnectionState {
			// called from feed(), which already holds the server lock
			return srv.TLSState
		}
	}
	srv.tlsDone = make(chan struct{})
	return srv
}

// collectDial gathers what the server and the connection saw
func collectDial(run *DialRun, srv *RefServer, conn *ScriptConn, logger *capLogger, from int) {
	// let the TLS goroutine finish recording when the client closed the connection
	if conn != nil && conn.IsClosed() && srv.tlsStarted {
		select {
		case <-srv.tlsDone:
		case <-time.After(500 * time.Millisecond):
		}
	}
	srv.mu.Lock()
	run.Events = append([]Event(nil), srv.Events...)
	run.Applied = append([]SrvAction(nil), srv.Applied...)
	run.Verbs = append([]string(nil), srv.Verbs...)
	run.TLSState = srv.TLSState
	srv.mu.Unlock()
	if conn != nil {
		run.Open = !conn.IsClosed()
		run.Clear = append([]byte(nil), conn.Clear.Bytes()...)
	}
	logger.mu.Lock()
	run.Logs = append([]string(nil), logger.recs[from:]...)
	run.LogsWhole = append([]string(nil), logger.whole[from:]...)
	logger.mu.Unlock()
}

func RunDial(sc *DialScenario) *DialRun {
	tlsMaterial()
	run := &DialRun{}
	srv := newDialServer(sc, sc.Host)
	var conn *ScriptConn
	timeout := sc.Timeout
	if timeout == 0 {
		timeout = 5 * time.Second
	}
	dialCalls := 0
	failFirst := false
	dial := func(ctx context.Context, network, address string) (net.Conn, error) {
		dialCalls++
		if why := dialCtxProblem(ctx, timeout); why != "" {
			run.DialCtxProblems = append(run.DialCtxProblems, fmt.Sprintf("dial #%d of %s: %s", dialCalls, address, why))
		}
		if failFirst && dialCalls == 1 {
			// the port of the TLS policy is unreachable; the fallback port works
			return nil, fmt.Errorf("dial tcp %s: connect: connection refused", address)
		}
		conn = NewScriptConn(srv)
		return conn, nil
	}
	vr := NewRng(sc.Variant, "client-variant")
	pick := func() bool { return sc.Variant != 0 && vr.Intn(2) == 1 }
	var later []func(c *mail.Client)
	opts := []mail.Option{mail.WithDialContextFunc(dial), mail.WithTimeout(timeout)}
	tlsCfg := &tls.Config{ServerName: sc.Host, RootCAs: tlsRoots, MinVersion: tls.VersionTLS12}
	pol := mail.TLSPolicy(sc.Policy)
	other := mail.TLSPolicy((sc.Policy + 1) % 3)
	polForm := 0
	if sc.Variant != 0 {
		polForm = vr.Intn(5)
	}
	if sc.FirstDialFails && sc.Policy == 1 {
		polForm = 3
	}
	switch polForm {
	case 1:
		later = append(later, func(c *mail.Client) { c.SetTLSPolicy(pol) })
	case 2:
		// another policy and an explicit port first, then the port-policy setter: the policy is what was set last
		opts = append(opts, mail.WithPort(2525), mail.WithTLSPolicy(other))
		later = append(later, func(c *mail.Client) { c.SetTLSPortPolicy(pol) })
	case 3:
		opts = append(opts, mail.WithTLSPortPolicy(other))
		later = append(later, func(c *mail.Client) { c.SetTLSPortPolicy(pol) })
	case 4:
		opts = append(opts, mail.WithTLSPortPolicy(other), mail.WithTLSPortPolicy(pol))
	default:
		opts = append(opts, mail.WithTLSPolicy(pol))
	}
	if sc.UseSSL {
		if pick() {
			later = append(later, func(c *mail.Client) { c.SetSSL(true) })
		} else {
			opts = append(opts, mail.WithSSL())
		}
	}
	if sc.DefaultTLS {
		// nothing: the default configuration of NewClient
	} else if pick() {
		later = append(later, func(c *mail.Client) { _ = c.SetTLSConfig(tlsCfg) })
	} else {
		opts = append(opts, mail.WithTLSConfig(tlsCfg))
	}
	if sc.CustomAuth {
		a := directAuth(sc)
		if pick() {
			later = append(later, func(c *mail.Client) { c.SetSMTPAuthCustom(a) })
		} else {
			opts = append(opts, mail.WithSMTPAuthCustom(a))
		}
	} else if pick() {
		later = append(later, func(c *mail.Client) { c.SetSMTPAuth(mail.SMTPAuthType(sc.AuthType)) })
	} else {
		opts = append(opts, mail.WithSMTPAuth(mail.SMTPAuthType(sc.AuthType)))
	}
	if pick() {
		later = append(later, func(c *mail.Client) { c.SetUsername(sc.User) })
	} else {
		opts = append(opts, mail.WithUsername(sc.User))
	}
	if pick() {
		later = append(later, func(c *mail.Client) { c.SetPassword(sc.Pass) })
	} else {
		opts = append(opts, mail.WithPassword(sc.Pass))
	}
	if sc.Helo != "" {
		opts = append(opts, mail.WithHELO(sc.Helo))
	}
	logger := &capLogger{}
	if sc.Debug {
		if pick() {
			later = append(later, func(c *mail.Client) { c.SetLogger(logger); c.SetDebugLog(true) })
		} else {
			opts = append(opts, mail.WithDebugLog(), mail.WithLogger(logger))
		}
	}
	if sc.LogAuth {
		if pick() {
			later = append(later, func(c *mail.Client) { c.SetLogAuthData(true) })
		} else {
			opts = append(opts, mail.WithLogAuthData())
		}
	}
	client, err := mail.NewClient(sc.Host, opts...)
	if err != nil {
		run.Err = fmt.Errorf("config: %w", err)
		return run
	}
	for _, f := range later {
		f(client)
	}
	run.Client = client
	// with a port policy for opportunistic TLS there is a fallback port: every third such variant finds the
	// first port unreachable (the dialogue is the same; the second dial attempt must be as bounded as the first)
	failFirst = polForm >= 3 && sc.Policy == 1 && (sc.Variant%3 == 1 || sc.FirstDialFails)
	if !watchdog(60*time.Second, func() {
		defer func() {
			if r := recover(); r != nil {
				run.Panic = r
			}
		}()
		dctx := context.Background()
		if sc.Variant != 0 && sc.Variant%3 == 0 {
			// a context with a deadline of its own, far beyond the configured timeout
			var cancelD context.CancelFunc
			dctx, cancelD = context.WithTimeout(dctx, time.Hour)
			defer cancelD()
		}
		run.Err = client.DialWithContext(dctx)
		if run.Err == nil && sc.ThenReset {
			run.ResetErr = client.Reset()
		}
	}) {
		run.Panic = "the call did not return within 60 s of real time (all waits of the scripted peer are virtual or bounded by the configured timeout)"
		if conn != nil {
			_ = conn.Close()
		}
	}
	collectDial(run, srv, conn, logger, 0)
	if sc.Redial != nil && run.Panic == nil {
		// same Client, new connection to another server incarnation
		if run.Err == nil && !sc.RedialNoClose {
			_ = client.Close()
		}
		if sc.RedialNoClose && sc.OldQuit != nil {
			oldDyn := srv.Dynamic
			oq := *sc.OldQuit
			srv.Dynamic = func(pos int, verb, line string) (SrvAction, bool) {
				if verb == "QUIT" {
					return oq, true
				}
				if oldDyn != nil {
					return oldDyn(pos, verb, line)
				}
				return SrvAction{}, false
			}
		}
		logger.mu.Lock()
		from := len(logger.recs)
		logger.mu.Unlock()
		second := &DialRun{Client: client}
		srv = newDialServer(sc.Redial, sc.Host)
		conn = nil
		func() {
			defer func() {
				if r := recover(); r != nil {
					second.Panic = r
				}
			}()
			second.Err = client.DialWithContext(context.Background())
		}()
		collectDial(second, srv, conn, logger, from)
		run.Second = second
	}
	return run
}

func dialErrTag(err error) string {
	if err == nil {
		return "-"
	}
	msg := err.Error()
	switch {
	case strings.Contains(msg, "does not support STARTTLS"):
		return "nostarttls"
	case strings.Contains(msg, "server does not support SMTP AUTH type") || errors.Is(err, mail.ErrNoSupportedAuthDiscovered) || strings.Contains(msg, "unsupported SMTP AUTH type"):
		return "authunsupported"
	case strings.Contains(msg, "server does not support SMTP AUTH"):
		return "noauth"
	case errors.Is(err, smtp.ErrUnencrypted):
		return "mech1"
	case errors.Is(err, smtp.ErrWrongHostname):
		return "mech2"
	case errors.Is(err, smtp.ErrUnexpectedServerChallange):
		return "mech3"
	case errors.Is(err, smtp.ErrUnexpectedServerResponse):
		return "mech4"
	case errors.Is(err, smtp.ErrNonTLSConnection):
		return "tls"
	case strings.Contains(msg, "tls:") || strings.Contains(msg, "x509:") || strings.Contains(msg, "first record does not look like a TLS handshake") || strings.Contains(msg, "remote error"):
		return "tls"
	case strings.Contains(msg, "illegal base64"):
		return "proto"
	}
	t := errTag(err)
	if strings.HasPrefix(t, "other:") {
		// remaining mechanism errors of SCRAM are plain errors.New values
		if strings.Contains(msg, "SMTP AUTH failed") {
			return "mech5"
		}
	}
	return t
}

func (sc *DialScenario) modelLine(run *DialRun) string {
	n := len(run.Applied) + 6
	acts := make([]string, n)
	for i := range acts {
		acts[i] = "o"
		if i < len(run.Applied) {
			a := run.Applied[i]
			if a.Kind == "tlsbad" {
				acts[i] = "t"
			} else {
				acts[i] = encAct(a)
			}
		} else if a, ok := sc.Script[i]; ok {
			acts[i] = encAct(a)
			if a.Kind == "tlsbad" {
				acts[i] = "t"
			}
		}
	}
	// CRAM-MD5: digest for every 334 challenge in the script
	var hm []string
	for _, a := range run.Applied {
		if a.Kind == "reply" && a.Code == 334 {
			if ch, err := base64.StdEncoding.DecodeString(a.Text); err == nil {
				d := hmac.New(md5.New, []byte(sc.Pass))
				d.Write(ch)
				hm = append(hm, string(ch), hex.EncodeToString(d.Sum(nil)))
			}
		}
	}
	su, sp, crypto := scramInputs(sc, run)
	helo := sc.Helo
	if helo == "" {
		helo = defaultHelo()
	}
	toks := []string{"smtp", "dial", encLS(sc.Caps), encLS(acts), encS(helo), encS(sc.Host), encN(sc.Policy), "#0", encBool(sc.UseSSL),
		encS(sc.AuthType), encS(sc.User), encS(sc.Pass), encBool(sc.Debug), encBool(sc.LogAuth),
		su, sp, encLS(run.ScramNonces), encBool(run.TLSState != nil && run.TLSState.Version >= tls.VersionTLS13), cbTokens(run), encLS(crypto), encLS(hm), encBool(sc.ThenReset)}
	return strings.Join(toks, " ")
}

func (run *DialRun) wantLine() string {
	tr := traceStrings(run.Events)
	reset := "-"
	if run.ResetErr != nil {
		reset = errTag(unwrapAll(run.ResetErr))
	}
	return fmt.Sprintf("%s dial=%s open=%s logs=%s reset=%s", encLS(tr), dialErrTag(run.Err), encBool(run.Open), encLS(run.Logs), reset)
}

// secretForms: every encoding of the password a leak could take
func secretForms(user, pass string) [][]byte {
	if pass == "" {
		return nil
	}
	forms := [][]byte{[]byte(pass), []byte(base64.StdEncoding.EncodeToString([]byte(pass))), []byte(hex.EncodeToString([]byte(pass))),
		[]byte(base64.StdEncoding.EncodeToString([]byte("\x00" + user + "\x00" + pass))),
		[]byte(base64.StdEncoding.EncodeToString([]byte("user=" + user + "\x01auth=Bearer " + pass + "\x01\x01")))}
	// base64 of the password at the three possible alignments inside a longer base64 string
	for off := 0; off < 3; off++ {
		padded := append(bytes.Repeat([]byte{'x'}, off), []byte(pass)...)
		enc := base64.StdEncoding.EncodeToString(padded)
		// drop the characters that depend on the padding bytes
		start := (off*8 + 5) / 6
		end := len(enc) - 4
		if end > start+6 {
			forms = append(forms, []byte(enc[start:end]))
		}
	}
	return forms
}

func containsSecret(hay []byte, user, pass string) string {
	for _, f := range secretForms(user, pass) {
		if len(f) >= 6 && bytes.Contains(hay, f) {
			return string(f)
		}
	}
	return ""
}

func unwrapAll(err error) error {
	for {
		u := errors.Unwrap(err)
		if u == nil {
			return err
		}
		err = u
	}
}

// cbTokens: [tls-unique, exporter] of the established TLS connection as the model's channel binding inputs
func cbTokens(run *DialRun) string {
	if run.TLSState == nil {
		return "-"
	}
	uniq := run.TLSState.TLSUnique
	ekm, err := run.TLSState.ExportKeyingMaterial("EXPORTER-Channel-Binding", nil, 32)
	if err != nil {
		return encL([][]byte{uniq})
	}
	return encL([][]byte{uniq, ekm})
}

// RunAuthFirst drives the smtp package directly: smtp.NewClient on the scripted connection and then
// Client.Auth as the FIRST command (the implicit EHLO happens inside Auth). No TLS.
// directAuth: the smtp.Auth value for the scenario's mechanism and credentials
func directAuth(sc *DialScenario) smtp.Auth {
	switch sc.AuthType {
	case "PLAIN":
		return smtp.PlainAuth("", sc.User, sc.Pass, sc.Host, false)
	case "PLAIN-NOENC":
		return smtp.PlainAuth("", sc.User, sc.Pass, sc.Host, true)
	case "LOGIN":
		return smtp.LoginAuth(sc.User, sc.Pass, sc.Host, false)
	case "LOGIN-NOENC":
		return smtp.LoginAuth(sc.User, sc.Pass, sc.Host, true)
	case "CRAM-MD5":
		return smtp.CRAMMD5Auth(sc.User, sc.Pass)
	case "XOAUTH2":
		return smtp.XOAuth2Auth(sc.User, sc.Pass)
	case "SCRAM-SHA-1":
		return smtp.ScramSHA1Auth(sc.User, sc.Pass)
	case "SCRAM-SHA-1-PLUS":
		return smtp.ScramSHA1PlusAuth(sc.User, sc.Pass, &tls.ConnectionState{Version: tls.VersionTLS12, TLSUnique: []byte("tls-unique-of-the-callers-making")})
	case "SCRAM-SHA-256-PLUS":
		return smtp.ScramSHA256PlusAuth(sc.User, sc.Pass, &tls.ConnectionState{Version: tls.VersionTLS12, TLSUnique: []byte("tls-unique-of-the-callers-making")})
	}
	return smtp.ScramSHA256Auth(sc.User, sc.Pass)
}

// dialCtxProblem: the context a dial attempt is given must carry a deadline no later than the configured
// timeout from now (every network operation, the connection attempt included, is bounded by it)
func dialCtxProblem(ctx context.Context, timeout time.Duration) string {
	dl, ok := ctx.Deadline()
	if !ok {
		return "the context has no deadline"
	}
	if rem := time.Until(dl); rem > timeout+2*time.Second {
		return fmt.Sprintf("the context's deadline is %v away, the configured timeout is %v", rem.Round(time.Second), timeout)
	}
	return ""
}

func RunAuthFirst(sc *DialScenario) *DialRun {
	tlsMaterial()
	run := &DialRun{}
	srv := newDialServer(sc, sc.Host)
	conn := NewScriptConn(srv)
	logger := &capLogger{}
	if !watchdog(60*time.Second, func() {
		defer func() {
			if r := recover(); r != nil {
				run.Panic = r
			}
		}()
		_ = conn.SetDeadline(time.Now().Add(5 * time.Second))
		cl, err := smtp.NewClient(conn, sc.Host)
		if err != nil {
			run.Err = err
			_ = conn.Close()
			return
		}
		if sc.Debug {
			cl.SetDebugLog(true)
			cl.SetLogger(logger)
		}
		if sc.LogAuth {
			cl.SetLogAuthData()
		}
		if sc.CloseDuringAuth > 0 {
			orig := srv.Dynamic
			seen := 0
			srv.Dynamic = func(pos int, verb, line string) (SrvAction, bool) {
				if verb == "AUTH" || verb == "auth-step" {
					seen++
					if seen == sc.CloseDuringAuth {
						go func() { _ = cl.Close() }()
						time.Sleep(20 * time.Millisecond) // the closer is now waiting for the client's lock
					} else if seen > sc.CloseDuringAuth {
						// the closer has been overtaken once; while this command holds the lock it notices that it has
						// been waiting for long and claims the lock for the moment it is released (sync.Mutex starvation mode)
						time.Sleep(5 * time.Millisecond)
					}
				}
				if orig != nil {
					return orig(pos, verb, line)
				}
				return SrvAction{}, false
			}
		}
		a := directAuth(sc)
		if err := cl.Auth(a); err != nil {
			// same wrapping as mail.Client.auth, so that the error classification is shared
			run.Err = fmt.Errorf("SMTP AUTH failed: %w", err)
		}
	}) {
		run.Panic = "the call did not return within 60 s of real time"
		_ = conn.Close()
	}
	collectDial(run, srv, conn, logger, 0)
	return run
}
