package main

import (
	"bytes"
	"errors"
	"encoding/base64"
	"fmt"
	"io"
	"mime"
	"mime/multipart"
	"mime/quotedprintable"
	netmail "net/mail"
	"net/textproto"
	"strings"

	mail "github.com/wneessen/go-mail"
)

// ---------------------------------------------------------------------------------------------
// C10, the body logic of the EML parser against its Lean model (lean/GoMailModel/Eml/Body.lean).
//
// The model takes the standard library's VIEW of the input as a parameter. This file obtains that
// view with the very calls eml.go makes (net/mail.ReadMessage, mime.ParseMediaType,
// multipart.NewReader / NextPart, reading a part, quotedprintable.NewReader, base64.NewDecoder,
// base64.StdEncoding.DecodeString, mime.WordDecoder.DecodeHeader) and takes none of eml.go's
// decisions: it does not look at what kind of entity something is. The model's result (charset and
// encoding of the message; type, charset, encoding, content of every body part; name, bytes and
// Content-ID of every attachment and embed; or refusal) is compared with the Msg that
// EMLToMsgFromString returns.

type vEnt struct {
	ctypes, disps, ctes []string
	cid                 string
	mtStatus            int
	mtMedia             string
	mtCharset, mtBound  *string
	cd                  bool
	cdMedia             string
	cdFile, cdDecoded   *string
	body, qp, b64s, b64d []byte
	bodyOK, qpOK, b64sOK, b64dOK bool
	kids                []*vEnt
	endOK               bool
}

func viewOfEntity(header map[string][]string, body []byte, bodyOK bool, depth int) *vEnt {
	h := textproto.MIMEHeader(header)
	v := &vEnt{ctypes: header["Content-Type"], disps: header["Content-Disposition"], ctes: header["Content-Transfer-Encoding"],
		cid: h.Get("Content-ID"), body: body, bodyOK: bodyOK}
	mediatype, params, err := mime.ParseMediaType(h.Get("Content-Type"))
	switch {
	case err == nil:
		v.mtStatus, v.mtMedia = 0, mediatype
		if cs, ok := params["charset"]; ok {
			v.mtCharset = &cs
		}
		if b, ok := params["boundary"]; ok {
			v.mtBound = &b
		}
	case strings.EqualFold(err.Error(), "mime: no media type"):
		v.mtStatus = 1
	default:
		v.mtStatus = 2
	}
	if len(v.disps) > 0 {
		if mt, p, err := mime.ParseMediaType(v.disps[0]); err == nil {
			v.cd, v.cdMedia = true, mt
			if name, ok := p["filename"]; ok {
				v.cdFile = &name
				dec := mime.WordDecoder{}
				if d, derr := dec.DecodeHeader(name); derr == nil {
					v.cdDecoded = &d
				}
			}
		}
	}
	if !bodyOK {
		return v
	}
	if d, err := io.ReadAll(quotedprintable.NewReader(bytes.NewReader(body))); err == nil {
		v.qp, v.qpOK = d, true
	}
	if d, err := io.ReadAll(base64.NewDecoder(base64.StdEncoding, bytes.NewReader(body))); err == nil {
		v.b64s, v.b64sOK = d, true
	}
	if d, err := base64.StdEncoding.DecodeString(string(body)); err == nil {
		v.b64d, v.b64dOK = d, true
	}
	if v.mtStatus == 0 && v.mtBound != nil && strings.HasPrefix(v.mtMedia, "multipart/") && depth < 12 {
		mr := multipart.NewReader(bytes.NewReader(body), *v.mtBound)
		for {
			part, err := mr.NextPart()
			if err != nil {
				v.endOK = errors.Is(err, io.EOF)
				break
			}
			data, rerr := io.ReadAll(part)
			kid := viewOfEntity(part.Header, data, rerr == nil, depth+1)
			v.kids = append(v.kids, kid)
			if rerr != nil {
				break
			}
		}
	}
	return v
}

func encOptS(s *string) string {
	if s == nil {
		return "!"
	}
	return encS(*s)
}

func encOptB(b []byte, ok bool) string {
	if !ok {
		return "!"
	}
	return encB(b)
}

func (v *vEnt) tokens(out *[]string) {
	*out = append(*out, encLS(v.ctypes), encLS(v.disps), encLS(v.ctes), encS(v.cid), encN(v.mtStatus), encS(v.mtMedia), encOptS(v.mtCharset), encOptS(v.mtBound),
		encBool(v.cd), encS(v.cdMedia), encOptS(v.cdFile), encOptS(v.cdDecoded),
		encOptB(v.body, v.bodyOK), encOptB(v.qp, v.qpOK), encOptB(v.b64s, v.b64sOK), encOptB(v.b64d, v.b64dOK), encN(len(v.kids)), encBool(v.endOK))
	for _, k := range v.kids {
		k.tokens(out)
	}
}

func (v *vEnt) shape() string {
	if len(v.kids) == 0 {
		k := "leaf"
		if len(v.disps) > 0 {
			k = "file"
		}
		return k
	}
	var ks []string
	for _, k := range v.kids {
		ks = append(ks, k.shape())
	}
	return strings.TrimPrefix(v.mtMedia, "multipart/") + "[" + strings.Join(ks, ",") + "]"
}

// what EMLToMsgFromString stored, in the token form the driver prints
func msgBodyState(m *mail.Msg) (string, error) {
	toks := []string{"ok", encS(m.Charset()), encS(m.Encoding())}
	parts := m.GetParts()
	toks = append(toks, encN(len(parts)))
	for _, p := range parts {
		content, err := p.GetContent()
		if err != nil {
			return "", err
		}
		toks = append(toks, encS(string(p.GetContentType())), encS(string(p.GetCharset())), encS(string(p.GetEncoding())), encB(content))
	}
	files := func(fs []*mail.File) error {
		toks = append(toks, encN(len(fs)))
		for _, f := range fs {
			var buf bytes.Buffer
			if _, err := f.Writer(&buf); err != nil {
				return err
			}
			cid := "!"
			if v, ok := f.Header["Content-Id"]; ok && len(v) > 0 {
				cid = encS(v[0])
			}
			toks = append(toks, encS(f.Name), encB(buf.Bytes()), cid)
		}
		return nil
	}
	if err := files(m.GetAttachments()); err != nil {
		return "", err
	}
	if err := files(m.GetEmbeds()); err != nil {
		return "", err
	}
	return strings.Join(toks, " "), nil
}

var logicCTE = []string{"7bit", "8bit", "base64", "quoted-printable", "BASE64", "Quoted-Printable", "7BIT", "binary", "", "base64; x=y", "baſe64", "x-unknown", " base64", "8Bit"}
var logicDisp = []string{"attachment", "inline", "INLINE", "İnline", "İnline; filename=dotted.txt", "attachment; filename=\"a;b.txt\"", "attachment; filename=plain.txt", "inline; filename=\"x\"; filename=\"y\"",
	"form-data; name=x", "attachment; filename*=UTF-8''%e2%82%ac.txt", "attachment; filename=\"=?UTF-8?q?=C3=BCber.txt?=\"", "attachment; filename=\"=?UTF-8?q?broken\"", "", "attachment;", "attachment; filename=", "attachment; filename=\"",
	"Attachment; FileName=\"Upper.txt\"", "ATTACHMENT; broken", "Inline; filename", "İnline; broken", "attachment; filename=\"q.txt\"; broken", "inline; filename=un quoted.txt", "attachment; filename=\"sp ace.txt\"", "attachment ; filename=x.txt", "Kattachment"}
var logicCType = []string{"text/plain", "text/plain; charset=UTF-8", "text/html; charset=ISO-8859-1", "TEXT/PLAIN; CHARSET=utf-8", "text/plain; charset=a; charset=b", "application/octet-stream", "image/png; name=\"x.png\"",
	"multipart/related", "multipart/alternative; boundary=", "Multipart/Alternative; boundary=inner", "multipart/related ; boundary=inner", "multipart/mixed; boundary=inner", "multipart/related; boundary=inner",
	"multipart/alternative; boundary=\"inner\"", "text/plain; charset", "text/plain;", "", "text", "text/plain; charset=\"utf-8\"", "message/rfc822", "multipart/signed; boundary=inner", "text/plain ; charset=us-ascii"}
var logicCID = []string{"<x@y>", "x", "<a>; b", "", ";", "<" + strings.Repeat("i", 40) + ">"}

var logicCorpus = []string{
	// nested alternative inside related inside mixed, files of both kinds
	"From: a@b.c\r\nContent-Type: multipart/mixed; boundary=M\r\n\r\n--M\r\nContent-Type: multipart/related; boundary=R\r\n\r\n--R\r\nContent-Type: multipart/alternative; boundary=A\r\n\r\n--A\r\nContent-Type: text/plain; charset=UTF-8\r\nContent-Transfer-Encoding: quoted-printable\r\n\r\nhi=20there\r\n--A\r\nContent-Type: text/html; charset=UTF-8\r\nContent-Transfer-Encoding: base64\r\n\r\nPGI+aGk8L2I+\r\n--A--\r\n--R\r\nContent-Type: image/png\r\nContent-Disposition: inline; filename=\"p.png\"\r\nContent-ID: <p.png>\r\nContent-Transfer-Encoding: base64\r\n\r\nAAEC\r\n--R--\r\n--M\r\nContent-Type: text/plain\r\nContent-Disposition: attachment; filename=\"a.txt\"\r\nContent-Transfer-Encoding: base64\r\n\r\nZGF0YQ==\r\n--M--\r\n",
	// a nested multipart that also carries a disposition: read once, attached empty
	"From: a@b.c\r\nContent-Type: multipart/mixed; boundary=M\r\n\r\n--M\r\nContent-Type: multipart/alternative; boundary=A\r\nContent-Disposition: attachment; filename=n.bin\r\n\r\n--A\r\nContent-Type: text/plain\r\nContent-Transfer-Encoding: 7bit\r\n\r\nx\r\n--A--\r\n--M--\r\n",
	// two Content-Type fields in one part, the first one a multipart
	"From: a@b.c\r\nContent-Type: multipart/mixed; boundary=M\r\n\r\n--M\r\nContent-Type: multipart/related; boundary=A\r\nContent-Type: text/plain\r\n\r\nbody\r\n--M\r\nContent-Type: text/plain\r\nContent-Transfer-Encoding: 8bit\r\n\r\nsecond\r\n--M--\r\n",
	// no Content-Type at all; single-part base64; single-part QP
	"From: a@b.c\r\n\r\njust text\r\n",
	"From: a@b.c\r\nContent-Type: text/plain; charset=UTF-8\r\nContent-Transfer-Encoding: base64\r\n\r\naGVsbG8=\r\n",
	"From: a@b.c\r\nContent-Type: text/html; charset=ISO-8859-1\r\nContent-Transfer-Encoding: quoted-printable\r\n\r\n=FCber=\r\n all\r\n",
	"From: a@b.c\r\nContent-Type: text/plain\r\nContent-Transfer-Encoding: baſe64\r\n\r\naGVsbG8=\r\n",
	// part without Content-Type; part with unknown encoding; nested text/plain reached through a wrong multipart header
	"From: a@b.c\r\nContent-Type: multipart/mixed; boundary=M\r\n\r\n--M\r\nContent-Transfer-Encoding: 7bit\r\n\r\nx\r\n--M--\r\n",
	"From: a@b.c\r\nContent-Type: multipart/mixed; boundary=M\r\n\r\n--M\r\nContent-Type: text/plain\r\nContent-Transfer-Encoding: binary\r\n\r\nx\r\n--M--\r\n",
	"From: a@b.c\r\nContent-Type: multipart/mixed; boundary=M\r\n\r\n--M\r\nContent-Type: multipart/related; boundary=R; type=\"a;b\r\n\r\n--R\r\nContent-Type: text/plain\r\n\r\nx\r\n--R--\r\n--M--\r\n",
	"From: a@b.c\r\nContent-Type: multipart/mixed; boundary=M\r\n\r\n--M\r\nContent-Type: text/plain\r\nContent-Disposition: İnline; filename=d.txt\r\nContent-ID: <d>\r\n\r\nx\r\n--M--\r\n",
	// missing closing delimiter; boundary parameter missing
	"From: a@b.c\r\nContent-Type: multipart/mixed; boundary=M\r\n\r\n--M\r\nContent-Type: text/plain\r\nContent-Transfer-Encoding: 7bit\r\n\r\nx\r\n",
	"From: a@b.c\r\nContent-Type: multipart/mixed\r\n\r\n--M\r\nContent-Type: text/plain\r\n\r\nx\r\n--M--\r\n",
}

func headerLineIdx(lines []string, name string) []int {
	var out []int
	for i, l := range lines {
		if l == "" {
			// only the first header block would be too narrow: part headers follow boundaries, keep scanning
			continue
		}
		if len(l) > len(name) && strings.EqualFold(l[:len(name)+1], name+":") {
			out = append(out, i)
		}
	}
	return out
}

// logic-targeted mutations: the values of the four fields eml.go branches on, their presence and multiplicity
func mutateForLogic(r *Rng, eml []byte) []byte {
	lines := strings.Split(string(eml), "\r\n")
	nm := 1 + r.Intn(3)
	for k := 0; k < nm; k++ {
		field := []string{"Content-Transfer-Encoding", "Content-Disposition", "Content-Type", "Content-ID"}[r.Intn(4)]
		table := map[string][]string{"Content-Transfer-Encoding": logicCTE, "Content-Disposition": logicDisp, "Content-Type": logicCType, "Content-ID": logicCID}[field]
		idx := headerLineIdx(lines, field)
		switch {
		case len(idx) > 0 && r.Chance(70):
			i := idx[r.Intn(len(idx))]
			// drop continuation lines of the field
			j := i + 1
			for j < len(lines) && (strings.HasPrefix(lines[j], " ") || strings.HasPrefix(lines[j], "\t")) {
				j++
			}
			var repl []string
			switch r.Intn(10) {
			case 0: // delete the field
			case 1: // duplicate it with another value
				repl = append(append([]string{}, lines[i:j]...), field+": "+table[r.Intn(len(table))])
			default:
				v := table[r.Intn(len(table))]
				if field == "Content-Type" && strings.Contains(v, "boundary=inner") && r.Bool() {
					// keep the real boundary so that the nested parts are found
					old := strings.Join(lines[i:j], " ")
					if b := strings.Index(old, "boundary="); b >= 0 {
						v = strings.Replace(v, "boundary=inner", strings.TrimSpace(old[b:]), 1)
					}
				}
				repl = []string{field + ": " + v}
			}
			lines = append(lines[:i], append(repl, lines[j:]...)...)
		default:
			// insert the field after a boundary line (into a part header) or at the top
			var cand []int
			for i, l := range lines {
				if strings.HasPrefix(l, "--") && !strings.HasSuffix(l, "--") {
					cand = append(cand, i+1)
				}
			}
			cand = append(cand, 0)
			i := cand[r.Intn(len(cand))]
			lines = append(lines[:i], append([]string{field + ": " + table[r.Intn(len(table))]}, lines[i:]...)...)
		}
	}
	return []byte(strings.Join(lines, "\r\n"))
}

func emlLogicCase(c *Ctx, input []byte, kind string) {
	m, err, pan, to := parseGuarded(func() (*mail.Msg, error) { return parseEMLAny(len(input), input) })
	if pan != nil || to {
		// C09's business; nothing to compare
		c.rep.Branches["skipped: panic or timeout (reported by C09)"]++
		return
	}
	if err != nil && (strings.Contains(err.Error(), "failed to parse EML from reader") || strings.Contains(err.Error(), "failed to parse EML file") || strings.Contains(err.Error(), "failed to parse EML headers")) {
		c.rep.Branches["skipped: refused before the body logic"]++
		return
	}
	pm, rerr := netmail.ReadMessage(bytes.NewReader(input))
	if rerr != nil {
		c.rep.Branches["skipped: net/mail refuses"]++
		return
	}
	body, berr := io.ReadAll(pm.Body)
	if berr != nil {
		return
	}
	view := viewOfEntity(pm.Header, body, true, 0)
	toks := []string{"emlbody", encS("UTF-8"), encS("quoted-printable")}
	view.tokens(&toks)
	want := "err"
	if err == nil {
		s, serr := msgBodyState(m)
		if serr != nil {
			c.Note("reading the parsed message back failed: %v", serr)
			return
		}
		want = s
	}
	shape := view.shape()
	if len(shape) > 60 {
		shape = shape[:60]
	}
	outcome := "refused"
	if err == nil {
		outcome = "accepted"
	}
	desc := map[string]interface{}{"kind": kind, "eml": string(input), "error": fmt.Sprint(err)}
	c.AddCase(Case{Line: strings.Join(toks, " "), Want: want, Nontrivial: len(view.kids) > 0 || kind != "valid", Branch: kind + " " + outcome + " " + shape, Desc: desc, Key: string(input)})
}

func init() {
	register(Suite{Name: "c10-eml-logic", Property: "C10",
		Rule: "the body logic of the EML parser (parseEMLBodyParts / BodyPlain / Multipart / AttachmentEmbed, message encoding and charset) vs its Lean model: renderings of generated messages (single-part, every nesting, files), logic-targeted mutations (value, presence and multiplicity of Content-Type / Content-Transfer-Encoding / Content-Disposition / Content-ID of every entity incl. case variants, non-ASCII case folding, nested and unknown multiparts, missing boundaries), structural mutations and a hand-written corpus; the standard library's view of the input is obtained with the calls eml.go makes and passed to the model; compared: accepted or refused, charset and encoding of the message, (type, charset, encoding, content) of every part, (name, bytes, Content-ID) of every attachment and embed, in order; inputs that net/mail or the header logic refuses are skipped and counted",
		Run: func(c *Ctx) {
			for _, s := range logicCorpus {
				emlLogicCase(c, []byte(s), "corpus")
			}
			for _, s := range emlCorpus {
				emlLogicCase(c, []byte(s), "corpus")
			}
			n := c.N(2500, 150000)
			for i := 0; i < n; i++ {
				r := c.Rng
				spc := genSpec(r, genOpts{maxParts: 3, maxFiles: 3, noFails: true, smallContent: true})
				spc.Boundary = ""
				m, _, err := spc.Build()
				if err != nil {
					continue
				}
				var buf bytes.Buffer
				if _, err := m.WriteTo(&buf); err != nil {
					continue
				}
				eml := buf.Bytes()
				switch r.Intn(10) {
				case 0, 1:
					emlLogicCase(c, eml, "valid")
				case 2, 3:
					emlLogicCase(c, mutateEML(r, eml), "mutated")
				default:
					emlLogicCase(c, mutateForLogic(r, eml), "logic-mutated")
				}
			}
		}})
}

// ---------------------------------------------------------------------------------------------
// c10-eml-view: the claim the round-trip theorem rests on. For messages within the parser's feature
// set the model states what the standard library's view of the RENDERING looks like (Eml.matchTop, only
// the fields the body logic reads) and what parsing stores for it (Eml.effects). Both are evaluated by
// the driver on the real view of the real rendering: reply "#1 #1".

var viewCharsets = []string{"UTF-8", "ISO-8859-1", "US-ASCII", "utf-8", "windows-1252"}
var viewEncs = []string{"quoted-printable", "base64", "8bit", "7bit"}

func genViewSpec(r *Rng) *MsgSpec {
	spc := &MsgSpec{}
	if r.Chance(40) {
		spc.Encoding = viewEncs[r.Intn(3)]
	}
	if r.Chance(25) {
		// the message charset labels the encoded-words of file names; the strings are UTF-8, so only the
		// UTF-8 labels are within the feature set (body parts may carry any charset label)
		spc.Charset = []string{"UTF-8", "utf-8"}[r.Intn(2)]
	}
	spc.Gen = []GenOp{{Key: "Subject", Values: []string{c10Subjects[r.Intn(len(c10Subjects))]}}}
	np := 1 + r.Intn(3)
	for i := 0; i < np; i++ {
		p := PartSpec{CType: []string{"text/plain", "text/html"}[r.Intn(2)], Content: genBody(r, genLen(r, 300))}
		if r.Chance(50) {
			e := viewEncs[r.Intn(4)]
			p.Enc = &e
		}
		if r.Chance(30) {
			cs := viewCharsets[r.Intn(len(viewCharsets))]
			p.Charset = &cs
		}
		if r.Chance(15) {
			p.Desc = "Beschreibung äöü"
		}
		spc.Parts = append(spc.Parts, p)
	}
	nf := r.Intn(4)
	for i := 0; i < nf; i++ {
		f := FileSpec{Attach: r.Chance(60), Name: c10Names[r.Intn(len(c10Names))], Content: genBody(r, genLen(r, 300))}
		if r.Chance(30) {
			f.Enc = viewEncs[r.Intn(4)]
		}
		if r.Chance(20) {
			cid := []string{"<logo@example.com>", "image1", "<a.b>; x", "id with blank"}[r.Intn(4)]
			f.CID = &cid
		}
		if r.Chance(20) {
			f.CType = []string{"application/pdf", "image/png", "text/plain; charset=UTF-8", "text/html"}[r.Intn(4)]
		}
		spc.Files = append(spc.Files, f)
	}
	return spc
}

func init() {
	register(Suite{Name: "c10-eml-view", Property: "C10",
		Rule: "messages within the parser's feature set (1-3 text/plain / text/html parts with any of the four encodings and several charsets, 0-3 attachments / embeds with plain, blank, ';', '=' and non-ASCII names, own Content-IDs, every file encoding, arbitrary content bytes) are rendered; the standard library's view of the rendering is passed to the driver together with the builder operations; the driver evaluates (1) Eml.matchTop: the view has the form the round-trip theorem assumes, (2) the model of the EML body logic stores exactly Eml.effects for it; expected reply '#1 #1'; non-trivial = multipart; distinct by builder operations",
		Run: func(c *Ctx) {
			n := c.N(1500, 60000)
			for i := 0; i < n; i++ {
				spc := genViewSpec(c.Rng)
				m, ops, err := spc.Build()
				if err != nil {
					continue
				}
				var buf bytes.Buffer
				if _, err := m.WriteTo(&buf); err != nil {
					c.Note("render: %v", err)
					continue
				}
				pm, rerr := netmail.ReadMessage(bytes.NewReader(buf.Bytes()))
				if rerr != nil {
					c.Violate("c10-unreadable", "net/mail refuses a rendering: "+rerr.Error(), spc)
					continue
				}
				body, _ := io.ReadAll(pm.Body)
				view := viewOfEntity(pm.Header, body, true, 0)
				toks := append([]string{"msg"}, ops...)
				toks = append(toks, "isview")
				view.tokens(&toks)
				c.AddCase(Case{Line: strings.Join(toks, " "), Want: "#1 #1", Nontrivial: len(spc.Parts)+len(spc.Files) > 1, Branch: spc.shape(),
					Desc: map[string]interface{}{"spec": spc, "eml": buf.String()}})
			}
		}})
}
