package main

import (
	"sync/atomic"
	"time"
	"bufio"
	"bytes"
	"encoding/hex"
	"encoding/json"
	"fmt"
	"hash/fnv"
	"os"
	"os/exec"
	"sort"
	"strconv"
	"strings"
)

// ---------------------------------------------------------------------------------------------
// PRNG: splitmix64, every random choice of a run derives from VERIF_SEED and the suite name.

type Rng struct{ s uint64 }

func NewRng(seed uint64, name string) *Rng {
	h := fnv.New64a()
	h.Write([]byte(name))
	return &Rng{s: seed*0x9E3779B97F4A7C15 ^ h.Sum64()}
}

func (r *Rng) U64() uint64 {
	r.s += 0x9E3779B97F4A7C15
	z := r.s
	z = (z ^ (z >> 30)) * 0xBF58476D1CE4E5B9
	z = (z ^ (z >> 27)) * 0x94D049BB133111EB
	return z ^ (z >> 31)
}
func (r *Rng) Intn(n int) int {
	if n <= 0 {
		return 0
	}
	return int(r.U64() % uint64(n))
}
func (r *Rng) Bool() bool        { return r.U64()&1 == 1 }
func (r *Rng) Chance(p int) bool { return r.Intn(100) < p } // p percent
func (r *Rng) Pick(xs []string) string {
	return xs[r.Intn(len(xs))]
}
func (r *Rng) Fork(tag string) *Rng { return NewRng(r.U64(), tag) }

// ---------------------------------------------------------------------------------------------
// line protocol encoding (see lean/Driver/Proto.lean)

func encB(b []byte) string {
	if len(b) == 0 {
		return "."
	}
	return hex.EncodeToString(b)
}
func encS(s string) string { return encB([]byte(s)) }
func encL(l [][]byte) string {
	if len(l) == 0 {
		return "-"
	}
	parts := make([]string, len(l))
	for i, b := range l {
		parts[i] = encB(b)
	}
	return strings.Join(parts, ",")
}
func encLS(l []string) string {
	bl := make([][]byte, len(l))
	for i, s := range l {
		bl[i] = []byte(s)
	}
	return encL(bl)
}
func encN(n int) string { return "#" + strconv.Itoa(n) }
func encBool(b bool) string {
	if b {
		return "#1"
	}
	return "#0"
}

// ---------------------------------------------------------------------------------------------
// cases, violations, report

// Case is one correspondence case: the line sent to the model driver and the canonicalised
// output of the implementation on the same input. Want == "" means: model-only evaluation.
type Case struct {
	Line       string      // protocol line for the driver
	Want       string      // canonical implementation output (protocol tokens)
	Desc       interface{} // human readable description (goes into samples / replays)
	Nontrivial bool
	Key        string // distinctness key; defaults to Line
	Branch     string // branch label for the histogram
	// Post, if set, decides the comparison instead of string equality: it receives the model's reply
	// and returns "" when it corresponds to the implementation's behaviour, else what differs.
	Post func(modelReply string) string
}

// Violation is a property-level counterexample found by a direct oracle on the implementation.
type Violation struct {
	Class string      `json:"class"` // machine-checkable class, matched against KNOWN_FINDINGS.json
	What  string      `json:"what"`
	Input interface{} `json:"input"`
}

type Disagreement struct {
	Line  string      `json:"line"`
	Impl  string      `json:"impl"`
	Model string      `json:"model"`
	Desc  interface{} `json:"desc"`
}

type Report struct {
	Suite              string         `json:"suite"`
	Property           string         `json:"property"`
	Tier               string         `json:"tier"`
	Seed               uint64         `json:"seed"`
	Evaluations        int            `json:"evaluations"`
	DistinctNontrivial int            `json:"distinct_nontrivial"`
	Rule               string         `json:"rule"`
	Samples            []interface{}  `json:"samples"`
	Branches           map[string]int `json:"branches"`
	Exhaustive         bool           `json:"exhaustive"`
	ModelCompared      int            `json:"model_compared"`
	OracleChecked      int            `json:"oracle_checked"`
	Disagreements      []Disagreement `json:"disagreements"`
	Violations         []Violation    `json:"violations"`
	Notes              []string       `json:"notes"`
}

type Ctx struct {
	Tier     string
	Seed     uint64
	Rng      *Rng
	Driver   string
	cases    []Case
	rep      *Report
	distinct map[string]struct{}
	maxViol  int
}

func (c *Ctx) Thorough() bool { return c.Tier == "thorough" }

// N picks the case count for the tier.
func (c *Ctx) N(quick, thorough int) int {
	if c.Thorough() {
		return thorough
	}
	return quick
}

func (c *Ctx) Add(cs Case) {
	c.cases = append(c.cases, cs)
}

func (c *Ctx) Count(nontrivial bool, key string, branch string) {
	c.rep.Evaluations++
	if branch != "" {
		c.rep.Branches[branch]++
	}
	if nontrivial {
		h := fnv.New64a()
		h.Write([]byte(key))
		c.distinct[string(h.Sum(nil))] = struct{}{}
	}
}

func (c *Ctx) Sample(desc interface{}) {
	if len(c.rep.Samples) < 6 {
		c.rep.Samples = append(c.rep.Samples, desc)
	}
}

func (c *Ctx) Violate(class, what string, input interface{}) {
	if len(c.rep.Violations) < c.maxViol {
		c.rep.Violations = append(c.rep.Violations, Violation{class, what, input})
	}
}

func (c *Ctx) Note(format string, args ...interface{}) {
	c.rep.Notes = append(c.rep.Notes, fmt.Sprintf(format, args...))
}

// runDriver pipes all case lines through the model driver and compares.
func (c *Ctx) runDriver() error {
	if len(c.cases) == 0 {
		return nil
	}
	var in bytes.Buffer
	for _, cs := range c.cases {
		in.WriteString(cs.Line)
		in.WriteByte('\n')
	}
	if dump := os.Getenv("GMDUMP_LINES"); dump != "" {
		_ = os.WriteFile(dump, in.Bytes(), 0o644)
	}
	cmd := exec.Command(c.Driver)
	cmd.Stdin = &in
	var out bytes.Buffer
	cmd.Stdout = &out
	cmd.Stderr = os.Stderr
	if err := cmd.Run(); err != nil {
		return fmt.Errorf("model driver failed: %w", err)
	}
	sc := bufio.NewScanner(&out)
	sc.Buffer(make([]byte, 1<<20), 1<<28)
	i := 0
	for sc.Scan() {
		if i >= len(c.cases) {
			return fmt.Errorf("model driver produced too many lines")
		}
		got := sc.Text()
		cs := c.cases[i]
		i++
		if cs.Want == "" && cs.Post == nil {
			continue
		}
		c.rep.ModelCompared++
		differs := got != cs.Want
		want := cs.Want
		if cs.Post != nil {
			why := cs.Post(got)
			differs = why != ""
			want = "(post-check) " + why
		}
		if differs {
			if len(c.rep.Disagreements) < 20 {
				c.rep.Disagreements = append(c.rep.Disagreements, Disagreement{cs.Line, want, got, cs.Desc})
			} else {
				c.rep.Disagreements = append(c.rep.Disagreements[:20], Disagreement{"(more)", "", "", nil})
			}
		}
	}
	if i != len(c.cases) {
		return fmt.Errorf("model driver answered %d of %d lines", i, len(c.cases))
	}
	return nil
}

// AddCase registers a correspondence case and counts it.
func (c *Ctx) AddCase(cs Case) {
	key := cs.Key
	if key == "" {
		key = cs.Line
	}
	c.Count(cs.Nontrivial, key, cs.Branch)
	if cs.Desc != nil {
		c.Sample(cs.Desc)
	}
	if len(cs.Line) > maxModelLine {
		// the list-based Lean model is quadratic in places: inputs of this size are left to the oracles (counted)
		c.rep.Branches["model-skipped:input-beyond-"+fmt.Sprint(maxModelLine/2048)+"KiB"]++
		return
	}
	c.Add(cs)
}

// maxModelLine: protocol lines (hex, two characters per byte) beyond this length are not sent to the model
const maxModelLine = 400 * 1024

type Suite struct {
	Name     string
	Property string
	Rule     string
	Run      func(c *Ctx)
}

var suites []Suite

func register(s Suite) { suites = append(suites, s) }

func runSuite(s Suite, tier string, seed uint64, driver string) *Report {
	rep := &Report{Suite: s.Name, Property: s.Property, Tier: tier, Seed: seed, Rule: s.Rule,
		Branches: map[string]int{}, Samples: []interface{}{}, Disagreements: []Disagreement{}, Violations: []Violation{}, Notes: []string{}}
	c := &Ctx{Tier: tier, Seed: seed, Rng: NewRng(seed, s.Name), Driver: driver, rep: rep,
		distinct: map[string]struct{}{}, maxViol: 50}
	atomic.StoreInt32(&watchdogExpired, 0)
	func() {
		defer func() {
			if r := recover(); r != nil {
				if st, ok := r.(suiteStop); ok {
					c.Note("%s", st.why)
					return
				}
				c.Violate("harness-panic", fmt.Sprintf("suite panicked: %v", r), nil)
			}
		}()
		s.Run(c)
	}()
	if err := c.runDriver(); err != nil {
		rep.Disagreements = append(rep.Disagreements, Disagreement{"(driver)", "", err.Error(), nil})
	}
	rep.DistinctNontrivial = len(c.distinct)
	return rep
}

func sortedKeys(m map[string]int) []string {
	ks := make([]string, 0, len(m))
	for k := range m {
		ks = append(ks, k)
	}
	sort.Strings(ks)
	return ks
}

func writeJSON(path string, v interface{}) error {
	b, err := json.MarshalIndent(v, "", " ")
	if err != nil {
		return err
	}
	return os.WriteFile(path, b, 0o644)
}

// watchdog runs f on its own goroutine and reports whether it returned within d (real time). A call
// that does not return is a finding of its own ("hang"), never a reason for the harness to hang.
var watchdogExpired int32

type suiteStop struct{ why string }

func watchdog(d time.Duration, f func()) bool {
	// once three calls have not returned the run has its findings; further calls get less patience so
	// that a defect that makes everything hang does not make the check run for hours
	if atomic.LoadInt32(&watchdogExpired) >= 3 && d > 5*time.Second {
		d = 5 * time.Second
	}
	// ... and after twelve the suite stops: what it has found is reported, the rest of its cases is not run
	if atomic.LoadInt32(&watchdogExpired) >= 12 {
		panic(suiteStop{"twelve calls into the library did not return: the suite stops here (its findings so far are reported)"})
	}
	done := make(chan struct{})
	go func() {
		defer close(done)
		f()
	}()
	select {
	case <-done:
		return true
	case <-time.After(d):
		atomic.AddInt32(&watchdogExpired, 1)
		return false
	}
}
