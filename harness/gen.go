package main

import "strings"

// ---------------------------------------------------------------------------------------------
// generators: structured, mostly valid, with an adversarial alphabet

var bodyAlphabet = []string{
	"a", "b", "z", "A", "0", " ", " ", "\t", "=", ".", "-", "_", "?", "\r\n", "\r\n", "\n", "\r", "\r\n.", "\r\n..",
	"--", "\xc3\xa4", "\xe2\x82\xac", "\xf0\x9f\x98\x80", "\x00", "\x7f", "\xff", "\x80", "=3D", "=\r\n", " \r\n", "\t\n",
	"From ", "x", "y", "lorem ipsum ", "word",
}

// lengths cluster around the wrapping points
var lenClusters = []int{0, 1, 2, 3, 4, 56, 57, 58, 72, 73, 74, 75, 76, 77, 78, 79, 113, 114, 115, 151, 152, 153, 228, 300, 998, 1000}

func genLen(r *Rng, max int) int {
	switch r.Intn(4) {
	case 0:
		n := lenClusters[r.Intn(len(lenClusters))]
		if n > max {
			n = max
		}
		return n
	case 1:
		return r.Intn(8)
	default:
		return r.Intn(max + 1)
	}
}

// genBody returns content of roughly n bytes drawn from the adversarial alphabet
func genBody(r *Rng, n int) []byte {
	var sb strings.Builder
	mode := r.Intn(6)
	for sb.Len() < n {
		switch mode {
		case 5: // text lines of lengths around the wrapping points that begin like mbox / SMTP / MIME markers
			sb.WriteString([]string{"From ", "From ", ">From ", "From: ", ".", "--", "", "", "=46rom "}[r.Intn(9)])
			l := lenClusters[r.Intn(18)]
			for k := 0; k < l; k++ {
				if k%7 == 6 {
					sb.WriteByte(' ')
				} else {
					sb.WriteByte(byte('a' + r.Intn(26)))
				}
			}
			sb.WriteString([]string{"\r\n", "\r\n", "\n"}[r.Intn(3)])
		case 0: // plain text lines
			if r.Chance(8) {
				sb.WriteString("\r\n")
			} else if r.Chance(15) {
				sb.WriteByte(' ')
			} else {
				sb.WriteByte(byte('a' + r.Intn(26)))
			}
		case 1: // arbitrary binary
			sb.WriteByte(byte(r.Intn(256)))
		case 2: // one long token
			sb.WriteByte(byte('!' + r.Intn(94)))
		default:
			sb.WriteString(bodyAlphabet[r.Intn(len(bodyAlphabet))])
		}
	}
	s := sb.String()
	if len(s) > n && mode != 3 && mode != 4 && mode != 5 {
		s = s[:n]
	}
	return []byte(s)
}

// chunkings: 1-byte, primes, aligned and unaligned to 3/57/76, random
func genChunks(r *Rng, data []byte) [][]byte {
	if len(data) == 0 {
		switch r.Intn(3) {
		case 0:
			return nil
		case 1:
			return [][]byte{{}}
		default:
			return [][]byte{{}, {}}
		}
	}
	sizes := []int{1, 2, 3, 5, 7, 13, 56, 57, 58, 75, 76, 77, 152, 1024}
	mode := r.Intn(5)
	fixed := sizes[r.Intn(len(sizes))]
	var out [][]byte
	for len(data) > 0 {
		var k int
		switch mode {
		case 0:
			k = len(data)
		case 1:
			k = fixed
		case 2:
			k = 1 + r.Intn(4)
		case 3:
			k = sizes[r.Intn(len(sizes))]
		default:
			k = r.Intn(100) // may be 0: an empty Write
		}
		if k > len(data) {
			k = len(data)
		}
		out = append(out, data[:k])
		data = data[k:]
	}
	return out
}

func flatten(chunks [][]byte) []byte {
	var out []byte
	for _, c := range chunks {
		out = append(out, c...)
	}
	return out
}

var headerWords = []string{
	"a", "ab", "word", "another", "x", "", "", "=?UTF-8?q?abc?=", "=?UTF-8?b?w6Q=?=", "<addr@example.com>,",
	"\"Quoted Name\"", "verylongtokenwithoutanyblankverylongtokenwithoutanyblankverylongtokenwithoutanyblank12345",
	"semi;colon", "key=value", "tab\there", "ümlaut",
}

// genHeaderValue builds values with word lengths 0..300, multiple/leading/trailing blanks
// values that consist of nothing but well-formed encoded-words, separated by blanks, folds or bare line breaks
var encodedWordOnly = []string{"=?UTF-8?q?Quarterly_report?=", "=?UTF-8?q?one?= =?UTF-8?q?two?=", "=?UTF-8?q?one?=\r\n =?UTF-8?q?two?=",
	"=?UTF-8?q?one?=\r\n\r\n=?UTF-8?q?body?=", "=?UTF-8?q?one?=\r\n=?UTF-8?q?X-Injected:?= =?UTF-8?q?1?=", "=?utf-8?b?w6Q=?=\n=?utf-8?b?w7Y=?=",
	"=?ISO-8859-1?q?caf=E9?=\r=?us-ascii?q?x?=", "=?UTF-8?q?a?=\t=?UTF-8?q?b?=", "=?UTF-8?q?a?=\r\n\t=?UTF-8?q?b?="}

// genSetterValue: a value for a setter that encodes (SetGenHeader and friends)
func genSetterValue(r *Rng) string {
	if r.Chance(4) {
		return encodedWordOnly[r.Intn(len(encodedWordOnly))]
	}
	return genHeaderValue(r)
}

// genHeaderValue: a stored (already encoded, CR/LF-free) value as writeHeader receives it
func genHeaderValue(r *Rng) string {
	var sb strings.Builder
	n := r.Intn(12)
	if r.Chance(10) {
		sb.WriteString(" ")
	}
	for i := 0; i < n; i++ {
		switch r.Intn(6) {
		case 0:
			sb.WriteString(headerWords[r.Intn(len(headerWords))])
		case 1:
			sb.WriteString(strings.Repeat("w", genLen(r, 300)))
		case 2:
			sb.WriteString(strings.Repeat("x", 60+r.Intn(20)))
		default:
			l := 1 + r.Intn(12)
			for j := 0; j < l; j++ {
				sb.WriteByte(byte('a' + r.Intn(26)))
			}
		}
		if i < n-1 || r.Chance(10) {
			sb.WriteString(" ")
			if r.Chance(8) {
				sb.WriteString(" ")
			}
		}
	}
	return sb.String()
}

// genFoldEdge: printable-ASCII values whose words end right at, just before or just after the points
// where writeHeader folds, with leading / trailing / doubled blanks (empty words at a fold point)
func genFoldEdge(r *Rng) string {
	var sb strings.Builder
	nl := 1 + r.Intn(3)
	for i := 0; i < nl; i++ {
		// one line worth of text: a run that fills the budget up to a few characters around the limit
		total := 55 + r.Intn(26)
		for total > 0 {
			l := total
			if r.Chance(50) {
				l = 1 + r.Intn(total)
			}
			sb.WriteString(strings.Repeat(string(rune('a'+r.Intn(26))), l))
			total -= l
			if total > 0 {
				sb.WriteByte(' ')
				total--
			}
		}
		switch r.Intn(4) {
		case 0:
			sb.WriteString(" ")
		case 1:
			sb.WriteString("  ")
		case 2:
			if i < nl-1 {
				sb.WriteString(" ")
			}
		default:
			sb.WriteString(" ")
		}
	}
	if r.Chance(30) {
		return strings.TrimRight(sb.String(), " ")
	}
	return sb.String()
}

var headerKeys = []string{"Subject", "X-Custom-Header", "To", "Content-Type", "X", "X-A-Very-Long-Header-Name-That-Takes-A-Lot-Of-The-Line-Budget-Away-From-Values"}

// adversarial free text for setters: full byte range, CR/LF, NUL, control, non-ASCII
var textAtoms = []string{
	"a", "Hello", " ", "  ", "\r\n", "\n", "\r", "\x00", "\t", "ä", "€", "😀", "\xff", "\xc3", "=", "?", "_", "=?", "?=",
	"\"", "\\", "(", ")", "<", ">", ",", ";", ":", "@", ".", "/", "|", "\x7f", "\x1b", "Bcc: evil@example.com", "\r\nX-Injected: yes",
	"\r\n\r\nbody", "=?UTF-8?q?x?=", "name.txt", "a b", "%", "'", "*", "[", "]",
	"\u200c", "\u00ad", "\ufeff", "\u202e", "\u2028", "\u0085",
}

func genText(r *Rng, maxAtoms int) string {
	var sb strings.Builder
	n := r.Intn(maxAtoms + 1)
	mode := r.Intn(4)
	for i := 0; i < n; i++ {
		switch mode {
		case 0: // printable ascii words
			l := 1 + r.Intn(10)
			for j := 0; j < l; j++ {
				sb.WriteByte(byte('a' + r.Intn(26)))
			}
			if r.Chance(40) {
				sb.WriteByte(' ')
			}
		case 1: // arbitrary bytes
			sb.WriteByte(byte(r.Intn(256)))
		default:
			sb.WriteString(textAtoms[r.Intn(len(textAtoms))])
		}
	}
	return sb.String()
}
