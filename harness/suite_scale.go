package main

import (
	"bytes"
	"fmt"
	"strings"
	"time"

	mail "github.com/wneessen/go-mail"
)

// ---------------------------------------------------------------------------------------------
// Scale: the generated inputs of the other suites are small (that is what makes thousands of them
// affordable). These suites walk a FIXED grid of sizes and counts at and around the boundaries where
// small-typed counters wrap, fixed buffers end and chunked copies split: 127/128/129, 255/256/257, 512,
// 4095/4096/4097, 32 KiB, 64 KiB, and a few large values. One dimension is scaled at a time.

type scaleCase struct {
	label string
	spc   *MsgSpec
}

func scaleText(n int, seed int) []byte {
	var b strings.Builder
	k := seed
	for b.Len() < n {
		l := []int{0, 1, 20, 75, 76, 77, 200, 997, 998, 999, 1000, 5000}[k%12]
		k += 7
		for j := 0; j < l && b.Len() < n; j++ {
			if j%9 == 8 {
				b.WriteByte(' ')
			} else {
				b.WriteByte(byte('a' + (j+k)%26))
			}
		}
		b.WriteString("\r\n")
	}
	return []byte(b.String())
}

func scaleBinary(n int) []byte {
	out := make([]byte, n)
	x := uint32(2463534242)
	for i := range out {
		x ^= x << 13
		x ^= x >> 17
		x ^= x << 5
		out[i] = byte(x)
	}
	return out
}

func baseScaleSpec() *MsgSpec {
	spc := &MsgSpec{}
	spc.Addr = []AddrOp{{Kind: 0, Mode: "set", Values: []string{"sender@example.com"}}, {Kind: 2, Mode: "set", Values: []string{"rcpt@example.com"}}}
	spc.Gen = []GenOp{{Key: "Subject", Values: []string{"scale"}}}
	fixedEntropy(spc)
	return spc
}

// scaleCases: the grid. quick = the boundaries proper; thorough adds neighbours and large values.
func scaleCases(thorough bool) []scaleCase {
	var out []scaleCase
	add := func(label string, f func(spc *MsgSpec)) {
		spc := baseScaleSpec()
		f(spc)
		out = append(out, scaleCase{label, spc})
	}
	pick := func(quick, more []int) []int {
		if thorough {
			return append(append([]int{}, quick...), more...)
		}
		return quick
	}
	plain := func(spc *MsgSpec) { spc.Parts = []PartSpec{{CType: "text/plain", Content: []byte("body\r\n")}} }
	// number of body parts (alternatives), with and without an attachment
	for _, n := range pick([]int{128, 129, 256, 257}, []int{17, 64, 127, 255, 258, 513, 1000}) {
		for _, att := range []bool{false, true} {
			n, att := n, att
			add(fmt.Sprintf("parts=%d:attachment=%v", n, att), func(spc *MsgSpec) {
				for k := 0; k < n; k++ {
					ct := "text/plain"
					if k%2 == 1 {
						ct = "text/html"
					}
					spc.Parts = append(spc.Parts, PartSpec{CType: ct, Content: []byte(fmt.Sprintf("alternative %d\r\n", k))})
				}
				if att {
					spc.Files = append(spc.Files, FileSpec{Attach: true, Name: "a.txt", Content: []byte("attached\r\n")})
				}
			})
		}
	}
	// number of files
	for _, n := range pick([]int{128, 256, 257}, []int{17, 65, 127, 255, 1000}) {
		n := n
		add(fmt.Sprintf("files=%d", n), func(spc *MsgSpec) {
			plain(spc)
			for k := 0; k < n; k++ {
				spc.Files = append(spc.Files, FileSpec{Attach: k%4 != 0, Name: fmt.Sprintf("file-%04d.txt", k), Content: []byte(fmt.Sprintf("content of file %d\r\n", k))})
			}
		})
	}
	// size of one body part, every transfer encoding
	for _, n := range pick([]int{4096, 4097, 32768, 32769, 65536, 65537}, []int{511, 512, 513, 4095, 16384, 32767, 65535, 131072, 300000, 1 << 20}) {
		for _, enc := range []string{"quoted-printable", "base64", "8bit"} {
			n, enc := n, enc
			add(fmt.Sprintf("part-bytes=%d:%s", n, enc), func(spc *MsgSpec) {
				e := enc
				spc.Parts = []PartSpec{{CType: "text/plain", Enc: &e, Content: scaleText(n, n), ViaString: enc != "base64"}}
				if n%2 == 0 {
					spc.Files = append(spc.Files, FileSpec{Attach: true, Name: "a.txt", Content: []byte("attached\r\n")})
				}
			})
		}
	}
	// size of one file
	for _, n := range pick([]int{4096, 32768, 32769, 65536, 65537}, []int{4095, 4097, 57 * 1024, 131072, 1 << 20, 3 << 20}) {
		n := n
		add(fmt.Sprintf("file-bytes=%d", n), func(spc *MsgSpec) {
			plain(spc)
			spc.Files = append(spc.Files, FileSpec{Attach: n%2 == 0, Name: "big.bin", Content: scaleBinary(n)})
		})
	}
	// length of a file name
	for _, n := range pick([]int{255, 256, 257, 1000}, []int{64, 127, 128, 129, 512, 4096, 5000}) {
		for _, ascii := range []bool{true, false} {
			n, ascii := n, ascii
			add(fmt.Sprintf("file-name-bytes=%d:ascii=%v", n, ascii), func(spc *MsgSpec) {
				plain(spc)
				name := strings.Repeat("n", n-4) + ".txt"
				if !ascii {
					name = strings.Repeat("ü", (n-4)/2) + strings.Repeat("n", (n-4)%2) + ".txt"
				}
				spc.Files = append(spc.Files, FileSpec{Attach: true, Name: name, Content: []byte("x\r\n")}, FileSpec{Attach: false, Name: name, Content: []byte("y\r\n")})
			})
		}
	}
	// length of one header value: one long word, many short words, many values of one field
	for _, n := range pick([]int{998, 4096, 4097, 6000, 65536, 70000}, []int{76, 77, 78, 255, 256, 1000, 4095, 32768, 65535, 65537}) {
		n := n
		add(fmt.Sprintf("header-word-bytes=%d", n), func(spc *MsgSpec) {
			plain(spc)
			spc.Gen = append(spc.Gen, GenOp{Key: "X-Custom", Values: []string{strings.Repeat("w", n)}})
		})
		add(fmt.Sprintf("header-words-bytes=%d", n), func(spc *MsgSpec) {
			plain(spc)
			var ws []string
			for l := 0; l < n; l += 6 {
				ws = append(ws, fmt.Sprintf("w%04d", l/6))
			}
			spc.Gen = append(spc.Gen, GenOp{Key: "Subject", Values: []string{strings.Join(ws, " ")}})
		})
	}
	for _, n := range pick([]int{128, 256, 257}, []int{16, 17, 255, 1000}) {
		n := n
		add(fmt.Sprintf("header-values=%d", n), func(spc *MsgSpec) {
			plain(spc)
			var vs []string
			for k := 0; k < n; k++ {
				vs = append(vs, fmt.Sprintf("<id-%04d@example.com>", k))
			}
			spc.Gen = append(spc.Gen, GenOp{Key: "References", Values: vs})
		})
		add(fmt.Sprintf("header-fields=%d", n), func(spc *MsgSpec) {
			plain(spc)
			for k := 0; k < n; k++ {
				spc.Gen = append(spc.Gen, GenOp{Key: fmt.Sprintf("X-Field-%04d", k), Values: []string{fmt.Sprintf("value %d", k)}})
			}
		})
	}
	// number of recipients in one field (a folded field of more than 4096 bytes from about 133 on)
	for _, n := range pick([]int{100, 101, 133, 256, 257, 2048}, []int{64, 128, 255, 512, 1000}) {
		n := n
		add(fmt.Sprintf("recipients=%d", n), func(spc *MsgSpec) {
			plain(spc)
			a := AddrOp{Kind: 2 + n%2, Mode: "set"}
			for k := 0; k < n; k++ {
				a.Values = append(a.Values, fmt.Sprintf("Recipient Number %d <rcpt%04d@example.com>", k, k))
			}
			spc.Addr = append(spc.Addr, a)
		})
	}
	// length of a description
	for _, n := range pick([]int{998, 4097}, []int{256, 1000, 70000}) {
		n := n
		add(fmt.Sprintf("description-bytes=%d", n), func(spc *MsgSpec) {
			spc.Parts = []PartSpec{{CType: "text/plain", Content: []byte("body\r\n"), Desc: strings.TrimSpace(string(scaleText(n, 3)[:n]))}, {CType: "text/html", Content: []byte("<p>body</p>\r\n")}}
		})
	}
	return out
}

func runScale(c *Ctx, c01, c02, c18 bool) {
	for _, sc := range scaleCases(c.Thorough()) {
		outs, ok := renderCase(c, sc.spc, 1, "scale:"+strings.SplitN(sc.label, "=", 2)[0]+":")
		if !ok {
			continue
		}
		small := *sc.spc
		_ = small
		if c01 || c02 {
			oracleMessage(c, sc.spc, outs[0], c01, c02)
		}
		if c18 {
			oracleLines(c, sc.spc, outs[0])
		}
	}
}

func init() {
	register(Suite{Name: "c01-scale", Property: "C01",
		Rule: "a fixed grid of messages in which ONE dimension is large: 128 / 129 / 256 / 257 (thorough: 17 .. 1000) body parts with and without an attachment, 128 .. 257 (1000) files, one part or file of 4096 / 4097 / 32768 / 32769 / 65536 / 65537 bytes (thorough: 511 bytes .. 3 MiB) in every transfer encoding, file names of 255 / 256 / 257 / 1000 bytes, header values and recipient lists beyond 4096 bytes; rendered by Msg.WriteTo and by the Lean write-plan model, read back by the independent MIME reader (leaves, nesting, content)",
		Run:  func(c *Ctx) { c.rep.Exhaustive = true; runScale(c, true, false, false) }})
	register(Suite{Name: "c02-scale", Property: "C02",
		Rule: "the same grid as c01-scale, header oracle: exactly the fields that were set, every value (long words, hundreds of words, hundreds of values, hundreds of fields, file names of 255 .. 1000 bytes, descriptions of 998 .. 4097 bytes) decodes to what was set",
		Run:  func(c *Ctx) { c.rep.Exhaustive = true; runScale(c, false, true, false) }})
	register(Suite{Name: "c18-scale", Property: "C18",
		Rule: "the same grid as c01-scale, line oracle: CRLF only, encoded body lines of at most 76 characters, no header line with blanks beyond 78 characters, fields unfold to the value set - for fields and bodies far beyond every buffer size",
		Run:  func(c *Ctx) { c.rep.Exhaustive = true; runScale(c, false, false, true) }})
}

// ---------------------------------------------------------------------------------------------
// SMTP at scale: recipients by the hundred (and refusals of exactly 256 of them), batches of hundreds of
// messages on one connection, capability lists and reply texts of thousands of bytes, bodies beyond 64 KiB
// whose lines begin with dots.

type smtpScaleCase struct {
	label string
	sc    *SmtpScenario
}

func dottyBody(n int) string {
	var b strings.Builder
	k := 0
	for b.Len() < n {
		switch k % 7 {
		case 0:
			b.WriteString(".\r\n")
		case 1:
			b.WriteString("..two dots at the start of this line\r\n")
		case 2:
			b.WriteString(".one dot, then text that makes the line a little longer than the others are\r\n")
		default:
			b.WriteString(fmt.Sprintf("line %d of a body that is larger than the buffers on its way\r\n", k))
		}
		k++
	}
	return b.String()
}

func smtpScaleCases(thorough bool) []smtpScaleCase {
	var out []smtpScaleCase
	rcpts := func(n int) []string {
		var r []string
		for k := 0; k < n; k++ {
			r = append(r, fmt.Sprintf("rcpt%04d@example.com", k))
		}
		return r
	}
	base := func() *SmtpScenario {
		return &SmtpScenario{Caps: []string{"8BITMIME", "ENHANCEDSTATUSCODES", "DSN"}, Script: map[int]SrvAction{}}
	}
	// position of the k-th RCPT of the FIRST message: greeting 0, EHLO 1, NOOP 2, MAIL 3, RCPT 4+k
	refuse := func(sc *SmtpScenario, idx ...int) {
		for _, k := range idx {
			sc.Script[4+k] = SrvAction{Kind: "reply", Code: 550, Text: "5.1.1 no such user"}
		}
	}
	seq := func(a, b int) []int {
		var r []int
		for k := a; k < b; k++ {
			r = append(r, k)
		}
		return r
	}
	ns := []int{100, 101, 256, 257}
	if thorough {
		ns = append(ns, 64, 128, 255, 512, 1000)
	}
	for _, n := range ns {
		sc := base()
		sc.Msgs = []SmtpMsg{{From: "sender0@example.com", To: rcpts(n)}, {From: "sender1@example.com", To: []string{"second@example.com"}}}
		out = append(out, smtpScaleCase{fmt.Sprintf("recipients=%d", n), sc})
		// the last one is refused
		sc2 := base()
		sc2.Msgs = []SmtpMsg{{From: "sender0@example.com", To: rcpts(n)}, {From: "sender1@example.com", To: []string{"second@example.com"}}}
		refuse(sc2, n-1)
		out = append(out, smtpScaleCase{fmt.Sprintf("recipients=%d:last-refused", n), sc2})
	}
	for _, k := range []int{255, 256, 257, 512} {
		// exactly k refused, the others accepted
		sc := base()
		sc.Msgs = []SmtpMsg{{From: "sender0@example.com", To: rcpts(k + 44)}, {From: "sender1@example.com", To: []string{"second@example.com"}}}
		refuse(sc, seq(0, k)...)
		out = append(out, smtpScaleCase{fmt.Sprintf("refused=%d-of-%d", k, k+44), sc})
		// all of k refused
		sc2 := base()
		sc2.Msgs = []SmtpMsg{{From: "sender0@example.com", To: rcpts(k)}, {From: "sender1@example.com", To: []string{"second@example.com"}}}
		refuse(sc2, seq(0, k)...)
		out = append(out, smtpScaleCase{fmt.Sprintf("refused=all-%d", k), sc2})
	}
	ms := []int{128, 256, 257}
	if thorough {
		ms = append(ms, 65, 300, 1000)
	}
	for _, m := range ms {
		sc := base()
		for k := 0; k < m; k++ {
			sc.Msgs = append(sc.Msgs, SmtpMsg{From: fmt.Sprintf("sender%d@example.com", k), To: []string{fmt.Sprintf("rcpt%d@example.com", k)}})
		}
		out = append(out, smtpScaleCase{fmt.Sprintf("batch=%d", m), sc})
	}
	for _, n := range []int{300, 1000} {
		sc := base()
		for k := 0; k < n; k++ {
			sc.Caps = append(sc.Caps, fmt.Sprintf("X-EXTENSION-%04d with some parameters", k))
		}
		sc.Caps = append(sc.Caps, "SMTPUTF8")
		sc.Msgs = []SmtpMsg{{From: "jürgen@example.com", To: []string{"rcpt@example.com"}, EightBit: true}}
		out = append(out, smtpScaleCase{fmt.Sprintf("ehlo-lines=%d", n), sc})
	}
	for _, n := range []int{65536, 70000, 1 << 20} {
		for _, eight := range []bool{false, true} {
			sc := base()
			sc.Msgs = []SmtpMsg{{From: "sender0@example.com", To: []string{"rcpt@example.com"}, Body: dottyBody(n), EightBit: eight}, {From: "sender1@example.com", To: []string{"second@example.com"}}}
			out = append(out, smtpScaleCase{fmt.Sprintf("dotty-body=%d:8bit=%v", n, eight), sc})
		}
	}
	for _, n := range []int{600, 5000} {
		sc := base()
		sc.Msgs = []SmtpMsg{{From: "sender0@example.com", To: []string{"rcpt@example.com"}}, {From: "sender1@example.com", To: []string{"second@example.com"}}}
		sc.Script[3] = SrvAction{Kind: "reply", Code: 451, Text: "4.7.1 " + strings.Repeat("please try again later ", n/23)}
		out = append(out, smtpScaleCase{fmt.Sprintf("reply-bytes=%d", n), sc})
		sc2 := base()
		sc2.Msgs = []SmtpMsg{{From: "sender0@example.com", To: []string{"rcpt@example.com"}}, {From: "sender1@example.com", To: []string{"second@example.com"}}}
		var lines []string
		for k := 0; k < n/20; k++ {
			lines = append(lines, fmt.Sprintf("5.7.1 line %d of a refusal", k))
		}
		sc2.Script[4] = SrvAction{Kind: "reply", Code: 554, Text: strings.Join(lines, "\n")}
		out = append(out, smtpScaleCase{fmt.Sprintf("reply-lines=%d", n/20), sc2})
	}
	return out
}

func smtpScale(c *Ctx, oracle func(c *Ctx, sc *SmtpScenario, run *SmtpRun)) {
	c.rep.Exhaustive = true
	for _, sc := range smtpScaleCases(c.Thorough()) {
		run := runAndCompare(c, sc.sc, "scale:"+strings.SplitN(sc.label, "=", 2)[0])
		if run != nil && run.Panic == nil {
			oracle(c, sc.sc, run)
		}
	}
}

func init() {
	const grid = "a fixed grid of DialAndSend scenarios in which ONE dimension is large: 100 / 101 / 256 / 257 (thorough: 64 .. 1000) recipients, none or the last one refused; exactly 255 / 256 / 257 / 512 recipients refused (others accepted, or all); batches of 128 / 256 / 257 (thorough: .. 1000) messages on one connection; EHLO replies of 300 and 1000 lines; bodies of 64 KiB .. 1 MiB with lines that are or begin with a dot (quoted-printable and 8bit); reply texts of 600 and 5000 bytes and refusals of 30 and 250 lines; traces and results compared with the Lean session model; "
	register(Suite{Name: "c04-scale", Property: "C04", Rule: grid + "RFC 5321 judge on the transcript", Run: func(c *Ctx) { smtpScale(c, oracleLegal) }})
	register(Suite{Name: "c03-scale", Property: "C03", Rule: grid + "every committed payload is the complete rendering of one message, IsDelivered iff acknowledged", Run: func(c *Ctx) {
		smtpScale(c, func(c *Ctx, sc *SmtpScenario, run *SmtpRun) { oracleCommit(c, sc, run) })
	}})
	register(Suite{Name: "c20-scale", Property: "C20", Rule: grid + "SendError of every message against the replies the server sent", Run: func(c *Ctx) { smtpScale(c, oracleSendError) }})
}

// ---------------------------------------------------------------------------------------------
// The connection breaks WHILE the content is written: DATA is accepted, after n bytes of content the server
// resets the connection and every further write fails. Contents from 100 bytes to 1 MiB (what fits into the
// 4096-byte buffer of net/textproto fails at the flush of end-of-data, what does not fails inside the
// DATA writer). Not part of the Lean session model (its server drops connections at reply positions): oracles only.
func resetInData(c *Ctx, oracle func(c *Ctx, sc *SmtpScenario, run *SmtpRun)) {
	c.rep.Exhaustive = true
	for _, size := range []int{100, 3000, 3700, 3750, 4096, 8192, 70000, 1 << 20} {
		for _, after := range []int{0, 50, 4000, 5000, 65536, 500000} {
			if after > size {
				continue
			}
			for _, batch := range []int{1, 2} {
				sc := &SmtpScenario{Caps: []string{"8BITMIME"}, Script: map[int]SrvAction{5: {Kind: "reset-in-data", Code: after}}}
				sc.Msgs = []SmtpMsg{{From: "sender0@example.com", To: []string{"rcpt@example.com"}, Body: dottyBody(size)}}
				if batch == 2 {
					sc.Msgs = append(sc.Msgs, SmtpMsg{From: "sender1@example.com", To: []string{"second@example.com"}})
				}
				var run *SmtpRun
				if !watchdog(60*time.Second, func() { run, _ = RunScenario(sc) }) || run == nil {
					c.Violate("c17-blocks-forever", "the call did not return within 60 s of real time", sc)
					continue
				}
				c.Count(true, fmt.Sprint(size, after, batch), fmt.Sprintf("content=%d:reset-after=%d", size, after))
				if run.Panic != nil {
					c.Violate("smtp-panic", fmt.Sprintf("the client panicked: %v", run.Panic), sc)
					continue
				}
				oracle(c, sc, run)
			}
		}
	}
}

func init() {
	register(Suite{Name: "c19-reset-in-data", Property: "C19",
		Rule: "DialAndSend of one or two messages with contents of 100 bytes .. 1 MiB against a server that accepts DATA and resets the connection after 0 .. 500000 bytes of content (every later write fails); the call must return an error and the connection must be closed when it returns; oracle only",
		Run: func(c *Ctx) {
			resetInData(c, func(c *Ctx, sc *SmtpScenario, run *SmtpRun) {
				c.rep.OracleChecked++
				if run.Err == nil {
					c.Violate("c19-no-error", "the server reset the connection inside DATA but the call returned nil", sc)
				}
				oracleClosed(c, sc, run, true)
			})
		}})
	register(Suite{Name: "c03-reset-in-data", Property: "C03",
		Rule: "the same scenarios as c19-reset-in-data: nothing is committed, no message is reported delivered, the affected message carries an error; oracle only",
		Run: func(c *Ctx) {
			resetInData(c, func(c *Ctx, sc *SmtpScenario, run *SmtpRun) {
				oracleCommit(c, sc, run)
				c.rep.OracleChecked++
				if len(run.Msgs) > 0 && (run.Msgs[0].Delivered || !run.Msgs[0].HasErr) {
					c.Violate("c03-isdelivered", fmt.Sprintf("the connection was reset inside the content of message 0: delivered=%v error=%v", run.Msgs[0].Delivered, run.Msgs[0].HasErr), sc)
				}
			})
		}})
}

// ---------------------------------------------------------------------------------------------
// The grid for the other message properties.

func init() {
	register(Suite{Name: "c10-scale", Property: "C10",
		Rule: "EML round trip of messages in which one dimension is large: a text part of 64 KiB .. 1.5 MiB in every transfer encoding, an attachment of 766 KiB .. 3 MiB, 200 attachments of 8 KiB (together beyond 1 MiB), 150 recipients; rendered, parsed, compared field by field, rendered again and read by the independent reader",
		Run: func(c *Ctx) {
			c.rep.Exhaustive = true
			mk := func() *MsgSpec {
				spc := &MsgSpec{}
				spc.Gen = []GenOp{{Key: "Subject", Values: []string{"a large message"}}}
				spc.Addr = []AddrOp{{Kind: 0, Mode: "set", Values: []string{"alice@example.com"}}, {Kind: 2, Mode: "set", Values: []string{"Bob <bob@example.org>"}}}
				return spc
			}
			sizes := []int{65536, 1 << 20, 1500000}
			for _, n := range sizes {
				for _, enc := range []string{"quoted-printable", "base64", "8bit"} {
					spc := mk()
					e := enc
					spc.Parts = []PartSpec{{CType: "text/plain", Enc: &e, Content: scaleText(n, n)}}
					if n == 1<<20 {
						spc.Parts = append(spc.Parts, PartSpec{CType: "text/html", Content: []byte("<p>small</p>\r\n")})
					}
					roundtripCheck(c, spc, "a large message")
				}
			}
			for _, n := range []int{766 << 10, 1 << 20, 3 << 20} {
				spc := mk()
				spc.Parts = []PartSpec{{CType: "text/plain", Content: []byte("body\r\n")}}
				spc.Files = []FileSpec{{Attach: true, Name: "big.bin", Content: scaleBinary(n)}}
				roundtripCheck(c, spc, "a large message")
			}
			spc := mk()
			spc.Parts = []PartSpec{{CType: "text/plain", Content: []byte("body\r\n")}}
			for k := 0; k < 200; k++ {
				spc.Files = append(spc.Files, FileSpec{Attach: true, Name: fmt.Sprintf("file-%03d.bin", k), Content: scaleBinary(8192 + k)})
			}
			roundtripCheck(c, spc, "a large message")
			spc = mk()
			spc.Parts = []PartSpec{{CType: "text/plain", Content: []byte("body\r\n")}}
			var to []string
			for k := 0; k < 150; k++ {
				to = append(to, fmt.Sprintf("Recipient %d <rcpt%03d@example.com>", k, k))
			}
			spc.Addr[1].Values = to
			roundtripCheck(c, spc, "a large message")
		}})

	register(Suite{Name: "c11-scale", Property: "C11",
		Rule: "the grid of c01-scale rendered three times (WriteTo, NewReader, WriteTo): the outputs are byte-identical - for bodies, files and header fields beyond every buffer size",
		Run: func(c *Ctx) {
			c.rep.Exhaustive = true
			for _, sc := range scaleCases(c.Thorough()) {
				m, _, err := sc.spc.Build()
				if err != nil {
					continue
				}
				var shared *mail.Reader
				var first []byte
				for h, path := range []string{"WriteTo", "NewReader", "WriteTo"} {
					out, rerr, _ := renderVia(m, path, 0, &shared)
					c.rep.OracleChecked++
					in := map[string]interface{}{"case": sc.label, "render": h + 1, "via": path}
					if rerr != nil {
						c.Violate("c11-render-error", fmt.Sprintf("%s: render %d via %s failed: %v", sc.label, h+1, path, rerr), in)
						break
					}
					if first == nil {
						first = out
					} else if !bytes.Equal(first, out) {
						c.Violate("c11-output-differs", fmt.Sprintf("%s: output %d via %s differs from the first render (%d vs %d bytes)", sc.label, h+1, path, len(out), len(first)), in)
						break
					}
				}
				c.Count(true, sc.label, "scale:"+strings.SplitN(sc.label, "=", 2)[0])
			}
		}})

	register(Suite{Name: "c12-scale", Property: "C12",
		Rule: "the grid of c01-scale: WriteTo into an unlimited destination returns the length of the output; into a destination that fails (after a short write) at seven offsets spread over the output it returns an error and the number of bytes accepted",
		Run: func(c *Ctx) {
			c.rep.Exhaustive = true
			for _, sc := range scaleCases(c.Thorough()) {
				m, _, err := sc.spc.Build()
				if err != nil {
					continue
				}
				full := renderOnce(m, -1)
				in := map[string]interface{}{"case": sc.label}
				c.rep.OracleChecked++
				if full.panic != nil || full.err != nil {
					c.Violate("c12-full-render", fmt.Sprintf("%s: unlimited render failed: %v %v", sc.label, full.panic, full.err), in)
					continue
				}
				L := len(full.out)
				if int(full.n) != L {
					c.Violate("c12-count", fmt.Sprintf("%s: WriteTo returned %d, the output has %d bytes", sc.label, full.n, L), in)
				}
				for _, k := range []int{0, 1, L / 7, L / 3, L / 2, L - L/5, L - 1} {
					if k < 0 || k >= L {
						continue
					}
					mk, _, err := sc.spc.Build()
					if err != nil {
						break
					}
					res := renderOnce(mk, k)
					c.rep.OracleChecked++
					in := map[string]interface{}{"case": sc.label, "k": k, "output_length": L}
					switch {
					case res.panic != nil:
						c.Violate("c12-panic", fmt.Sprintf("%s: WriteTo panicked with the destination failing at offset %d: %v", sc.label, k, res.panic), in)
					case res.err == nil:
						c.Violate("c12-silent-success", fmt.Sprintf("%s: WriteTo returned nil although the destination failed at offset %d of %d", sc.label, k, L), in)
					case int(res.n) != len(res.out):
						c.Violate("c12-count", fmt.Sprintf("%s: WriteTo returned %d but the destination accepted %d bytes (limit %d, output %d bytes)", sc.label, res.n, len(res.out), k, L), in)
					}
				}
				c.Count(true, sc.label, "scale:"+strings.SplitN(sc.label, "=", 2)[0])
			}
		}})

	register(Suite{Name: "c08-scale", Property: "C08",
		Rule: "the grid of c01-scale (contents in canonical CRLF form), signed with an RSA and an ECDSA key, rendered twice: the CMS signature of every render verifies over the first body part as emitted (header words and fields beyond 4096 bytes, hundreds of parts and files, bodies beyond 64 KiB)",
		Run: func(c *Ctx) {
			c.rep.Exhaustive = true
			for i, sc := range scaleCases(c.Thorough()) {
				spc := sc.spc
				if len(spc.Parts)+len(spc.Files) == 0 {
					continue
				}
				for j := range spc.Parts {
					spc.Parts[j].Content = canonCRLF(spc.Parts[j].Content)
					spc.Parts[j].chunks = nil
				}
				spc.SMIME = []string{"rsa", "ecdsa"}[i%2]
				m, _, err := spc.Build()
				if err != nil {
					continue
				}
				for k := 0; k < 2; k++ {
					res := renderOnce(m, -1)
					if res.panic != nil || res.err != nil {
						c.Violate("c08-render", fmt.Sprintf("%s: render %d failed: %v %v", sc.label, k+1, res.panic, res.err), map[string]interface{}{"case": sc.label})
						break
					}
					oracleSMIME(c, spc, res.out, nil, k+1)
				}
				c.Count(true, sc.label, "scale:"+strings.SplitN(sc.label, "=", 2)[0])
			}
		}})
}

// ---------------------------------------------------------------------------------------------
// Pairs of features that meet in the writer: S/MIME signing with every file and part encoding (C18: the line
// discipline holds inside a signed entity too), and the wire view of the recipient list (C06).

func init() {
	register(Suite{Name: "c18-signed", Property: "C18",
		Rule: "S/MIME signed messages of generated shapes with every part and file encoding (8bit / 7bit files with long lines and LF line ends included): the whole rendering - signed entity and signature part - obeys the line rules: CRLF only in header sections and encoded bodies, encoded body lines of at most 76 characters, a body is encoded as its label says; oracle only",
		Run: func(c *Ctx) {
			n := c.N(120, 6000)
			for i := 0; i < n; i++ {
				r := c.Rng
				spc := genSpec(r, genOpts{maxParts: 2, maxFiles: 3, noFails: true})
				spc.Boundary = ""
				if len(spc.Parts)+len(spc.Files) == 0 {
					continue
				}
				for j := range spc.Parts {
					spc.Parts[j].Content = canonCRLF(spc.Parts[j].Content)
					spc.Parts[j].chunks = nil
				}
				for j := range spc.Files {
					if r.Chance(50) {
						spc.Files[j].Enc = []string{"8bit", "7bit", "quoted-printable", "base64"}[r.Intn(4)]
					}
				}
				spc.SMIME = []string{"rsa", "ecdsa"}[r.Intn(2)]
				m, _, err := spc.Build()
				if err != nil {
					continue
				}
				for k := 0; k < 2; k++ {
					res := renderOnce(m, -1)
					if res.panic != nil || res.err != nil {
						break // (C08 / C11 look at failing signed renders)
					}
					oracleLines(c, spc, res.out)
					oracleEncodedAsLabelled(c, spc, res.out)
				}
				c.Count(true, fmt.Sprint(i), spc.SMIME+":"+spc.shape())
			}
		}})
}

// oracleEncodedAsLabelled: a leaf whose Content-Transfer-Encoding says base64 carries nothing but the base64
// alphabet, one that says quoted-printable nothing but printable ASCII with valid escapes
func oracleEncodedAsLabelled(c *Ctx, spc *MsgSpec, out []byte) {
	ent, err := parseEntity(out, 0)
	if err != nil {
		return
	}
	c.rep.OracleChecked++
	for i, l := range ent.leaves() {
		cte, _ := l.Get("Content-Transfer-Encoding")
		switch strings.ToLower(strings.TrimSpace(cte)) {
		case "base64":
			for _, b := range l.Body {
				if !(b >= 'A' && b <= 'Z' || b >= 'a' && b <= 'z' || b >= '0' && b <= '9' || b == '+' || b == '/' || b == '=' || b == '\r' || b == '\n') {
					c.Violate("c18-body-not-as-labelled", fmt.Sprintf("leaf %d is labelled base64 but its body contains the byte 0x%02x", i, b), spc)
					return
				}
			}
		case "quoted-printable":
			for _, b := range l.Body {
				if b >= 0x80 || (b < 0x20 && b != '\r' && b != '\n' && b != '\t') {
					c.Violate("c18-body-not-as-labelled", fmt.Sprintf("leaf %d is labelled quoted-printable but its body contains the byte 0x%02x", i, b), spc)
					return
				}
			}
		}
	}
}
