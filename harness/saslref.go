package main

// scramInputs: SCRAM parameters of the model line; filled in by the SASL reference (saslref_scram.go)
func scramInputs(sc *DialScenario, run *DialRun) (su, sp string, crypto []string) {
	return scramModelInputs(sc, run)
}
