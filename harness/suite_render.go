package main

import (
	"fmt"
	"strings"
)

// ---------------------------------------------------------------------------------------------
// E1 render correspondence: Msg.WriteTo vs. the Lean write-plan model, byte for byte.

// renderCase builds the message, renders it `renders` times on an unlimited destination and adds the
// correspondence case. Returns the built pieces for the oracles.
var renderCaseCounter int

// rendersFor: one message in four has been rendered before (archived, previewed) when it is rendered for good
func rendersFor(r *Rng) int {
	if r.Chance(25) {
		return 2
	}
	return 1
}

func renderCase(c *Ctx, spc *MsgSpec, renders int, branch string) (outs [][]byte, ok bool) {
	ok = true
	// every third message is rendered right after ANOTHER message whose render failed half-way (destination
	// error inside a body): nothing of that one may show up in this one - not its content (C01), not a
	// header (C02), not an over-long or unterminated line (C18)
	renderCaseCounter++
	if renderCaseCounter%3 == 1 {
		failedRenderOfADecoy(c.Rng)
		c.rep.Branches["after-a-failed-render-of-another-message"]++
	}
	m, ops, err := spc.Build()
	if err != nil {
		c.Note("build failed: %v", err)
		return nil, false
	}
	var wants []string
	// results of the address operations come first in the reply (one token per set/add op)
	for _, a := range spc.Addr {
		if a.Mode == "ign" {
			continue
		}
		okAll := true
		oks, _, _ := parseAll(m, a)
		for _, o := range oks {
			if o == "0" {
				okAll = false
			}
		}
		wants = append(wants, encBool(okAll))
	}
	for i := 0; i < renders; i++ {
		res := renderOnce(m, -1)
		if res.panic != nil {
			c.Violate("c12-panic", fmt.Sprintf("WriteTo panicked: %v", res.panic), spc)
			return nil, false
		}
		ops = append(ops, res.line)
		wants = append(wants, res.want())
		outs = append(outs, res.out)
		if res.err != nil {
			ok = false // WriteTo reported an error (e.g. an invalid user boundary): nothing to read
			branch = "writeto-error:"
		}
	}
	c.AddCase(Case{Line: "msg " + strings.Join(ops, " "), Want: strings.Join(wants, " "), Nontrivial: len(spc.Parts)+len(spc.Files) > 1,
		Branch: branch + spc.shape(), Desc: spc})
	return outs, ok
}

func init() {
	register(Suite{Name: "c01-render", Property: "C01",
		Rule: "random builder-call sequences (0..3 body parts, 0..3 files, every transfer encoding, adversarial content) rendered by Msg.WriteTo and by the Lean write-plan model; non-trivial = more than one leaf; distinct by the full operation list",
		Run: func(c *Ctx) {
			n := c.N(1500, 60000)
			nScaled := 0
			for i := 0; i < n; i++ {
				spc := genSpec(c.Rng, genOpts{maxParts: 3, maxFiles: 3, noFails: true})
				scaled := ""
				if c.Rng.Chance(1) && nScaled < 60 {
					// (a bounded number: the list-based model needs seconds for each of these)
					nScaled++
					scaled = "scale:" + scaleUp(c.Rng, spc) + ":"
				}
				if outs, ok := renderCase(c, spc, rendersFor(c.Rng), scaled); ok {
					outs = outs[len(outs)-1:] // the render that is looked at is the last one
					oracleMessage(c, spc, outs[0], true, false)
				}
			}
		}})

	register(Suite{Name: "c18-render", Property: "C18",
		Rule: "complete renderings of generated messages with producers that write in adversarial chunkings; every header section and every quoted-printable / base64 body is checked for CRLF-only line ends and the line length bounds; non-trivial = a header folds or a body wraps; distinct by operation list",
		Run: func(c *Ctx) {
			n := c.N(800, 40000)
			nScaled := 0
			for i := 0; i < n; i++ {
				spc := genSpec(c.Rng, genOpts{maxParts: 3, maxFiles: 3, noFails: true})
				scaled := ""
				if c.Rng.Chance(1) && nScaled < 60 {
					// (a bounded number: the list-based model needs seconds for each of these)
					nScaled++
					scaled = "scale:" + scaleUp(c.Rng, spc) + ":"
				}
				if outs, ok := renderCase(c, spc, rendersFor(c.Rng), scaled); ok {
					outs = outs[len(outs)-1:] // the render that is looked at is the last one
					oracleLines(c, spc, outs[0])
				}
			}
		}})

	register(Suite{Name: "c02-render", Property: "C02",
		Rule: "messages whose subject, generic headers, descriptions, file names and content-ids come from an adversarial text generator (CR, LF, NUL, control, non-ASCII, encoded-word look-alikes, any length), Q and B header encoders, all shapes; rendered by the implementation and the model; strict field scanner on every header section; non-trivial = some text needs encoding; distinct by operation list",
		Run: func(c *Ctx) {
			n := c.N(1500, 60000)
			nScaled := 0
			for i := 0; i < n; i++ {
				spc := genSpec(c.Rng, genOpts{maxParts: 2, maxFiles: 2, noFails: true, textHeavy: true, smallContent: true})
				scaled := ""
				if c.Rng.Chance(1) && nScaled < 60 {
					// (a bounded number: the list-based model needs seconds for each of these)
					nScaled++
					scaled = "scale:" + scaleUp(c.Rng, spc) + ":"
				}
				if outs, ok := renderCase(c, spc, rendersFor(c.Rng), scaled); ok {
					outs = outs[len(outs)-1:] // the render that is looked at is the last one
					oracleMessage(c, spc, outs[0], false, true)
				}
			}
		}})
}

// failedRenderOfADecoy renders an unrelated message into a destination that fails somewhere in the
// middle (its own random stream, so the generated cases do not depend on it)
func failedRenderOfADecoy(r *Rng) {
	dr := &Rng{s: r.s ^ 0x9e3779b97f4a7c15}
	decoy := genSpec(dr, genOpts{maxParts: 2, maxFiles: 2, noFails: true})
	enc := []string{"quoted-printable", "base64", "8bit"}[dr.Intn(3)]
	decoy.Parts = append(decoy.Parts, PartSpec{CType: "text/plain", Enc: &enc, Content: []byte(strings.Repeat("DECOY-CONTENT-THAT-MUST-NOT-LEAK ", 40))})
	m, _, err := decoy.Build()
	if err != nil {
		return
	}
	full := renderOnce(m, -1)
	if full.err != nil || len(full.out) < 10 {
		return
	}
	m2, _, err := decoy.Build()
	if err != nil {
		return
	}
	_ = renderOnce(m2, len(full.out)/3+dr.Intn(len(full.out)/2))
}
