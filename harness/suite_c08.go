package main

import (
	mail "github.com/wneessen/go-mail"
	"bytes"
	"crypto/sha256"
	"encoding/asn1"
	"encoding/hex"
	"fmt"
	"strings"
)

// ---------------------------------------------------------------------------------------------
// C08: S/MIME signed messages of every shape verify, RSA and ECDSA, with/without intermediate,
// also when rendered again. The model predicts the octets handed to the signer and the full bytes.

func oracleSMIME(c *Ctx, spc *MsgSpec, out []byte, modelSigned []byte, render int) {
	c.rep.OracleChecked++
	in := map[string]interface{}{"spec": spc, "render": render}
	ent, err := parseEntity(out, 0)
	if err != nil {
		c.Violate("c08-unparseable", err.Error(), in)
		return
	}
	if ent.MediaType != "multipart/signed" {
		c.Violate("c08-not-signed", "top-level media type is "+ent.MediaType, in)
		return
	}
	if p := ent.Params["protocol"]; p != "application/pkcs7-signature" {
		c.Violate("c08-params", "protocol parameter is "+p, in)
	}
	if p := ent.Params["micalg"]; p != "sha-256" {
		c.Violate("c08-params", "micalg parameter is "+p, in)
	}
	if len(ent.Children) != 2 {
		c.Violate("c08-structure", fmt.Sprintf("multipart/signed has %d parts", len(ent.Children)), in)
		return
	}
	first := ent.Children[0].Raw
	sigPart := ent.Children[1]
	if sigPart.MediaType != "application/pkcs7-signature" {
		c.Violate("c08-structure", "second part is "+sigPart.MediaType, in)
		return
	}
	der, _, err := sigPart.decodedBody()
	if err != nil {
		c.Violate("c08-structure", "signature part does not decode: "+err.Error(), in)
		return
	}
	base := strings.TrimSuffix(spc.SMIME, "+ic")
	ch, _ := getChain(base)
	var ic = ch.intermediate
	if !strings.HasSuffix(spc.SMIME, "+ic") {
		ic = nil
	}
	if _, err := verifyCMS(der, first, ch.leaf, ic); err != nil {
		cls := "c08-verify"
		// a top-level header line of the signed entity that is folded by writeHeader in the pre-render but
		// written unfolded by multipart.CreatePart in the final render
		if modelSigned != nil && !bytes.Equal(modelSigned, first) && bytes.Equal(unfoldAll(modelSigned), unfoldAll(first)) {
			cls = "c08-depth0-folding"
		}
		c.Violate(cls, fmt.Sprintf("render %d (%s): %v", render, spc.SMIME, err), in)
		return
	}
	if c.Thorough() && c.Rng.Chance(5) {
		if ok, msg := opensslVerify(der, first); !ok {
			c.Violate("c08-openssl", "openssl cms -verify rejects what the own verifier accepts: "+msg, in)
		}
	}
}

func unfoldAll(b []byte) []byte {
	return bytes.ReplaceAll(bytes.ReplaceAll(b, []byte("\r\n "), []byte(" ")), []byte("\r\n\t"), []byte("\t"))
}

func init() {
	register(Suite{Name: "c08-smime", Property: "C08",
		Rule: "generated shapes (single part, alternatives, embeds, attachments, every combination; each transfer encoding; descriptions; empty / preformatted / multi-line headers; ignored-invalid address lists), content in canonical CRLF form, signed with RSA and ECDSA keys with/without intermediate; rendered twice; independent CMS verifier on each; model predicts signed octets and bytes; non-trivial = multipart inner entity or non-default encoding; distinct by operations",
		Run: func(c *Ctx) {
			n := c.N(300, 20000)
			kinds := []string{"rsa", "ecdsa", "rsa+ic", "ecdsa+ic", "ecdsa384", "ecdsa521+ic", "ecdsa384+ic", "ecdsa521"}
			for i := 0; i < n; i++ {
				r := c.Rng
				spc := genSpec(r, genOpts{maxParts: 3, maxFiles: 2, noFails: true, smallContent: true})
				spc.Boundary = ""
				if r.Chance(20) {
					// a boundary chosen by the caller (WithBoundary / SetBoundary): it belongs to ONE multipart
					spc.Boundary = []string{"user-boundary-123", "b", "=_caller_chosen_=", "0123456789012345678901234567890123456789012345678901234567890123456789"}[r.Intn(4)]
				}
				if len(spc.Parts)+len(spc.Files) == 0 {
					continue // nothing to sign
				}
				// "all content bytes in canonical CRLF form"
				for j := range spc.Parts {
					spc.Parts[j].Content = canonCRLF(spc.Parts[j].Content)
					spc.Parts[j].chunks = nil
				}
				spc.SMIME = kinds[r.Intn(len(kinds))]
				m, ops, err := spc.Build()
				if err != nil {
					c.Note("build: %v", err)
					continue
				}
				var wants []string
				for _, a := range spc.Addr {
					if a.Mode == "ign" {
						continue
					}
					okAll := true
					oks, _, _ := parseAll(m, a)
					for _, o := range oks {
						if o == "0" {
							okAll = false
						}
					}
					wants = append(wants, encBool(okAll))
				}
				okRender := true
				var digests [][]byte
				for k := 0; k < 2 && okRender; k++ {
					res := renderOnce(m, -1)
					if res.panic != nil || res.err != nil {
						c.Violate("c08-render", fmt.Sprintf("render %d failed: %v %v", k+1, res.panic, res.err), spc)
						okRender = false
						break
					}
					ops = append(ops, res.line, "signed")
					wants = append(wants, res.want())
					digests = append(digests, signedDigest(res.out))
					oracleSMIME(c, spc, res.out, nil, k+1)
				}
				if !okRender {
					continue
				}
				nAddr := len(wants) - 2
				wantRenders := wants[nAddr:]
				wantAddr := wants[:nAddr]
				post := func(reply string) string {
					toks := strings.Fields(reply)
					if len(toks) != nAddr+2*4 {
						return fmt.Sprintf("model reply has %d tokens", len(toks))
					}
					for i, w := range wantAddr {
						if toks[i] != w {
							return "address op result differs"
						}
					}
					for k := 0; k < 2; k++ {
						base := nAddr + 4*k
						if strings.Join(toks[base:base+3], " ") != wantRenders[k] {
							return fmt.Sprintf("render %d: bytes / count / error differ", k+1)
						}
						// the octets the model hands to the signer must be the octets the implementation digested
						octets, err := decTok(toks[base+3])
						if err != nil {
							return "model signed octets: " + err.Error()
						}
						sum := sha256.Sum256(octets)
						if !bytes.Equal(sum[:], digests[k]) {
							return fmt.Sprintf("render %d: SHA-256 of the model's signed octets is not the message-digest attribute of the implementation's signature", k+1)
						}
					}
					return ""
				}
				c.AddCase(Case{Line: "msg " + strings.Join(ops, " "), Post: post, Nontrivial: len(spc.Parts)+len(spc.Files) > 1,
					Branch: spc.SMIME + ":" + spc.shape(), Desc: spc})
				// a render that fails on the way out (the connection drops during DATA), then the retry: the retry
				// must verify like any other rendering (oracle only)
				if r.Chance(40) {
					full := renderOnce(m, -1)
					if full.err == nil && full.panic == nil && len(full.out) > 0 {
						failed := renderOnce(m, r.Intn(len(full.out)))
						if failed.panic != nil {
							c.Violate("c12-panic", fmt.Sprintf("WriteTo panicked: %v", failed.panic), spc)
						}
						retry := renderOnce(m, -1)
						if retry.err != nil || retry.panic != nil {
							c.Violate("c08-render", fmt.Sprintf("the render after a failed one failed: %v %v", retry.panic, retry.err), spc)
						} else {
							oracleSMIME(c, spc, retry.out, nil, 4)
						}
					}
				}
				// the message is changed AFTER it has been rendered (preview first, alternative added, then sent):
				// every later rendering must verify as well (oracle only)
				if r.Chance(50) && len(spc.Parts) > 0 {
					late := "<p>alternative added after the first renderings</p>\r\n"
					m.AddAlternativeString(mail.TypeTextHTML, late)
					ext := *spc
					ext.Parts = append(append([]PartSpec(nil), spc.Parts...), PartSpec{CType: "text/html", Content: []byte(late)})
					for k := 3; k <= 4; k++ {
						res := renderOnce(m, -1)
						if res.panic != nil || res.err != nil {
							c.Violate("c08-render", fmt.Sprintf("render %d (after AddAlternativeString) failed: %v %v", k, res.panic, res.err), &ext)
							break
						}
						c.rep.Branches["render after the message was extended"]++
						oracleSMIME(c, &ext, res.out, nil, k)
					}
				}
			}
		}})
}

func decTok(t string) ([]byte, error) {
	if t == "." {
		return nil, nil
	}
	if t == "!" {
		return nil, fmt.Errorf("model reports no signed octets")
	}
	return hex.DecodeString(t)
}

// signedDigest extracts the message-digest attribute from the signature part of a rendering
func signedDigest(out []byte) []byte {
	ent, err := parseEntity(out, 0)
	if err != nil || len(ent.Children) != 2 {
		return nil
	}
	der, _, err := ent.Children[1].decodedBody()
	if err != nil {
		return nil
	}
	var ci cmsContentInfo
	if _, err := asn1.Unmarshal(der, &ci); err != nil {
		return nil
	}
	var sd cmsSignedData
	if _, err := asn1.Unmarshal(ci.Content.Bytes, &sd); err != nil || len(sd.SignerInfos) != 1 {
		return nil
	}
	raw := append([]byte{}, sd.SignerInfos[0].SignedAttrs.FullBytes...)
	if len(raw) == 0 {
		return nil
	}
	raw[0] = 0x31
	var attrs []cmsAttribute
	if _, err := asn1.UnmarshalWithParams(raw, &attrs, "set"); err != nil {
		return nil
	}
	for _, a := range attrs {
		if a.Type.Equal(oidMessageDigest) {
			var d []byte
			if _, err := asn1.Unmarshal(a.Values.Bytes, &d); err == nil {
				return d
			}
		}
	}
	return nil
}
