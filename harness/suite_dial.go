package main

import (
	"encoding/base64"
	"fmt"
	"strings"
	"time"
)

// ---------------------------------------------------------------------------------------------
// Dial suites: C07 (TLS policy / credential confidentiality), C19 (no connection outlives a failed
// dial), C17 (every wait has a deadline), C16 (debug log redaction).

var allAuthTypes = []string{"NOAUTH", "AUTODISCOVER", "CRAM-MD5", "CUSTOM", "LOGIN", "LOGIN-NOENC", "PLAIN", "PLAIN-NOENC",
	"SCRAM-SHA-1", "SCRAM-SHA-1-PLUS", "SCRAM-SHA-256", "SCRAM-SHA-256-PLUS", "XOAUTH2"}

var authLists = []string{"", "PLAIN LOGIN", "CRAM-MD5 SCRAM-SHA-256 SCRAM-SHA-1", "LOGIN PLAIN CRAM-MD5 XOAUTH2 SCRAM-SHA-1 SCRAM-SHA-256 SCRAM-SHA-1-PLUS SCRAM-SHA-256-PLUS", "XOAUTH2 PLAIN-CLIENTTOKEN"}

type c07dims struct {
	policy, auth, host, adv, stReply, hs, authList int
	ssl int // 1: WithSSL on top of the custom dial function (which hands out a connection without TLS)
}

func (d c07dims) scenario() *DialScenario {
	hosts := []string{"verif.example", "localhost", "localhost.mail-relay.example", "LOCALHOST", longHost}
	sc := &DialScenario{Host: hosts[d.host], Policy: d.policy, AuthType: allAuthTypes[d.auth], User: "verif-user", Pass: "S3cr3t-Passw0rd!", Script: map[int]SrvAction{}}
	caps := []string{"8BITMIME", "ENHANCEDSTATUSCODES"}
	if d.adv == 1 {
		caps = append(caps, "STARTTLS")
	}
	if authLists[d.authList] != "" {
		caps = append(caps, "AUTH "+authLists[d.authList])
	}
	sc.Caps = caps
	sc.UseSSL = d.ssl == 1
	stReplies := []SrvAction{{Kind: "ok"}, {Kind: "reply", Code: 454, Text: "4.7.0 TLS not available"}, {Kind: "reply", Code: 554, Text: "5.7.0 no"}, {Kind: "garbage"}}
	hsKinds := []SrvAction{{Kind: "ok"}, {Kind: "tlsbad"}, {Kind: "tlsbad"}, {Kind: "garbage"}}
	if d.hs == 2 {
		sc.BadCert = "untrusted"
	} else {
		sc.BadCert = "wrongname"
	}
	if d.host == 4 {
		// the long host name: the client has no TLS configuration of its own; the wrong certificate is one that is
		// valid for the first 255 characters of the name
		sc.DefaultTLS = true
		if d.hs == 1 {
			sc.BadCert = "prefix255"
		}
	} else if (d.policy+d.auth+d.adv+d.authList)%4 == 3 {
		sc.DefaultTLS = true
	}
	loginSteps := -1 // -1: no LOGIN exchange is running
	sc.dynamic = func(pos int, verb, line string) (SrvAction, bool) {
		switch verb {
		case "STARTTLS":
			return stReplies[d.stReply], true
		case "handshake":
			return hsKinds[d.hs], true
		case "AUTH":
			// a server that plays LOGIN as it is specified: the password only travels if the client answers the prompts
			loginSteps = -1
			if strings.HasPrefix(strings.ToUpper(line), "AUTH LOGIN") {
				loginSteps = 0
				return SrvAction{Kind: "reply", Code: 334, Text: "VXNlcm5hbWU6"}, true
			}
		case "auth-step":
			if loginSteps == 0 {
				loginSteps++
				return SrvAction{Kind: "reply", Code: 334, Text: "UGFzc3dvcmQ6"}, true
			}
		}
		return SrvAction{}, false
	}
	if v := uint64(d.policy*7 + d.auth*31 + d.host*3 + d.adv*5 + d.stReply*11 + d.hs*13 + d.authList*17); v%2 == 1 {
		sc.Variant = v
	}
	return sc
}

func oracleC07(c *Ctx, sc *DialScenario, run *DialRun) {
	c.rep.OracleChecked++
	encrypted := false
	for _, e := range run.Events {
		switch e.Kind {
		case "tls-on":
			encrypted = true
		case "tls-accepted-bad-cert":
			c.Violate("c07-bad-cert-accepted", "the client completed a handshake with a certificate that is not valid for the configured host ("+sc.BadCert+")", sc)
		case "cmd":
			if encrypted {
				continue
			}
			v := verbOf(e.Line)
			if sc.Policy == 0 && !sc.UseSSL && v != "EHLO" && v != "HELO" && v != "STARTTLS" && v != "QUIT" {
				c.Violate("c07-cleartext-command", fmt.Sprintf("mandatory TLS: %q was sent before a TLS handshake completed", e.Line), sc)
			}
			if v == "AUTH" && sc.AuthType == "AUTODISCOVER" {
				mech := strings.SplitN(strings.TrimPrefix(e.Line, "AUTH "), " ", 2)[0]
				if mech == "PLAIN" || mech == "LOGIN" || mech == "XOAUTH2" {
					c.Violate("c07-autodiscover-cleartext-password", "auto-discovery selected "+mech+" on an unencrypted connection", sc)
				}
			}
		}
	}
	// the password must not appear in what was written before TLS
	switch sc.AuthType {
	case "PLAIN", "LOGIN", "AUTODISCOVER":
		if sc.Host != "localhost" {
			if f := containsSecret(run.Clear, sc.User, sc.Pass); f != "" {
				c.Violate("c07-password-in-clear", fmt.Sprintf("the password (form %q) was written to the connection before TLS with auth type %s", f, sc.AuthType), sc)
			}
		}
	}
}

func runDialCase(c *Ctx, sc *DialScenario, branch string, nontrivial bool) *DialRun {
	run := RunDial(sc)
	if run.Panic != nil {
		c.Violate("dial-panic", fmt.Sprintf("the client panicked: %v", run.Panic), sc)
		return nil
	}
	if run.Err != nil && strings.HasPrefix(run.Err.Error(), "config:") {
		c.Note("config: %v", run.Err)
		return nil
	}
	if c.rep.Property == "C17" {
		for _, p := range run.DialCtxProblems {
			c.Violate("c17-dial-unbounded", p, sc)
		}
		if len(run.DialCtxProblems) == 0 && run.Second == nil {
			c.rep.Branches["dial-contexts-bounded"]++
		}
	}
	c.AddCase(Case{Line: sc.modelLine(run), Want: run.wantLine(), Nontrivial: nontrivial, Branch: branch, Desc: sc})
	// leave nothing behind
	if run.Client != nil && run.Err == nil {
		_ = run.Client.Close()
	}
	return run
}

func init() {
	register(Suite{Name: "c07-redial", Property: "C07",
		Rule: "two dials on ONE Client (Close in between): same policy / auth type / host, the server of the second dial differs (STARTTLS advertised or stripped, STARTTLS reply, handshake, advertised AUTH list); both dials compared with the Lean dial model, which knows no state carried from one dial to the next; byte tap and mechanism oracle on both; non-trivial = the two servers differ in encryption outcome",
		Run: func(c *Ctx) {
			n := c.N(800, 40000)
			for i := 0; i < n; i++ {
				r := c.Rng
				d1 := c07dims{policy: r.Intn(3), auth: r.Intn(len(allAuthTypes)), host: r.Intn(4), adv: 1, authList: r.Intn(len(authLists))}
				if r.Chance(50) {
					d1.auth = 1 // auto-discovery
				}
				if r.Chance(15) {
					d1.adv = 0
				}
				if r.Chance(15) {
					d1.stReply = r.Intn(4)
				} else if r.Chance(15) {
					d1.hs = r.Intn(4)
				}
				d2 := d1
				d2.adv, d2.stReply, d2.hs = r.Intn(2), 0, 0
				if r.Chance(25) {
					d2.stReply = r.Intn(4)
				} else if r.Chance(25) {
					d2.hs = r.Intn(4)
				}
				if r.Chance(40) {
					d2.authList = r.Intn(len(authLists))
				}
				if r.Chance(8) {
					// the pair in which something remembered from the first dial hurts most: auto-discovery, opportunistic
					// TLS, a server that offers only mechanisms that reveal the password, encrypted first, clear text then
					d1 = c07dims{policy: 1, auth: 1, host: r.Intn(4), adv: 1, authList: 1}
					d2 = d1
					d2.adv = 0
				}
				sc := d1.scenario()
				sc.Redial = d2.scenario()
				run := RunDial(sc)
				if run.Panic != nil || (run.Second != nil && run.Second.Panic != nil) {
					c.Violate("dial-panic", fmt.Sprintf("the client panicked: %v", run.Panic), sc)
					continue
				}
				if run.Err != nil && strings.HasPrefix(run.Err.Error(), "config:") {
					continue
				}
				first := *sc
				first.Redial = nil
				c.AddCase(Case{Line: first.modelLine(run), Want: run.wantLine(), Nontrivial: true, Branch: "first", Desc: sc})
				oracleC07(c, &first, run)
				if run.Second == nil {
					continue
				}
				second := *sc.Redial
				second.Redial = nil
				c.AddCase(Case{Line: second.modelLine(run.Second), Want: run.Second.wantLine(), Nontrivial: d1.adv != d2.adv || d1.authList != d2.authList,
					Branch: fmt.Sprintf("second adv %d->%d", d1.adv, d2.adv), Desc: sc})
				oracleC07(c, &second, run.Second)
				if run.Second.Err == nil {
					_ = run.Client.Close()
				}
			}
		}})

	register(Suite{Name: "c07-policy", Property: "C07",
		Rule: "the finite table TLS policy {mandatory, opportunistic, none} x 13 auth types x host {other, localhost, a remote name that begins with \"localhost.\", LOCALHOST, a name of 300 characters (client without a TLS configuration of its own; wrong certificate = one for the first 255 characters)} x STARTTLS advertised or not x STARTTLS reply {220, 4yz, 5yz, garbage} x handshake {ok, wrong-name certificate, untrusted certificate, garbage} x 5 advertised AUTH lists, with real TLS handshakes in process; byte tap of everything written before TLS; event traces compared with the Lean dial model; quick tier samples the table, thorough enumerates it; non-trivial = TLS or AUTH attempted",
		Run: func(c *Ctx) {
			var all []c07dims
			for p := 0; p < 3; p++ {
				for a := range allAuthTypes {
					for h := 0; h < 5; h++ {
						for adv := 0; adv < 2; adv++ {
							for st := 0; st < 4; st++ {
								for hs := 0; hs < 4; hs++ {
									for al := range authLists {
										if adv == 0 && (st > 0 || hs > 0) && p != 0 {
											continue // STARTTLS is never attempted: the reply / handshake dimensions are irrelevant
										}
										if st > 0 && hs > 0 {
											continue // no handshake after a refused STARTTLS
										}
										all = append(all, c07dims{p, a, h, adv, st, hs, al, 0})
									}
								}
							}
						}
					}
				}
			}
			// WithSSL on top of the custom dial function: no STARTTLS dialogue, the connection is what the dial function
			// returned (clear text here): the password clauses apply unchanged
			for p := 0; p < 3; p++ {
				for a := range allAuthTypes {
					for h := 0; h < 4; h++ {
						for al := range authLists {
							all = append(all, c07dims{policy: p, auth: a, host: h, adv: 1, authList: al, ssl: 1})
						}
					}
				}
			}
			n := len(all)
			if !c.Thorough() {
				n = 1500
			}
			c.rep.Exhaustive = c.Thorough()
			// always: auto-discovery with WithSSL on the caller's own (clear text) transport, every host and AUTH list
			for p := 0; p < 3 && !c.Thorough(); p++ {
				for h := 0; h < 4; h++ {
					for al := range authLists {
						d := c07dims{policy: p, auth: 1, host: h, adv: 1, authList: al, ssl: 1}
						sc := d.scenario()
						if run := runDialCase(c, sc, fmt.Sprintf("policy=%d:hs=0:st=0:ssl=1", p), true); run != nil {
							oracleC07(c, sc, run)
						}
					}
				}
			}
			for i := 0; i < n; i++ {
				d := all[i%len(all)]
				if !c.Thorough() {
					d = all[c.Rng.Intn(len(all))]
				}
				if !c.Thorough() && i%8 == 7 {
					d = all[len(all)-1-c.Rng.Intn(3*len(allAuthTypes)*4*len(authLists))]
				}
				sc := d.scenario()
				run := runDialCase(c, sc, fmt.Sprintf("policy=%d:hs=%d:st=%d:ssl=%d", d.policy, d.hs, d.stReply, d.ssl), d.adv == 1 || d.authList > 0)
				if run != nil {
					oracleC07(c, sc, run)
				}
			}
		}})

	register(Suite{Name: "c19-redial", Property: "C19",
		Rule: "a second DialWithContext on a Client that still holds its first connection (no Close in between), the first server answering a QUIT - should it get one - with 221, 502, 421 or by hanging up; second server behaving well or failing at a random step; whenever the second call returns an error, the connection IT opened must be closed; oracle only (what happens to the first connection is not part of the property)",
		Run: func(c *Ctx) {
			n := c.N(300, 10000)
			for i := 0; i < n; i++ {
				r := c.Rng
				d1 := c07dims{policy: 2, auth: 0, host: 0, adv: 0, authList: 0}
				sc := d1.scenario()
				sc.Variant = 0
				d2 := d1
				sc.Redial = d2.scenario()
				sc.RedialNoClose = true
				oq := []SrvAction{{Kind: "ok"}, {Kind: "reply", Code: 502, Text: "5.5.1 not now"}, {Kind: "reply", Code: 421, Text: "4.3.0 busy"}, {Kind: "drop"}, {Kind: "garbage"}}[r.Intn(5)]
				sc.OldQuit = &oq
				if r.Chance(40) {
					sc.Redial.Script[r.Intn(3)] = genFailAction(r)
				}
				run := RunDial(sc)
				c.rep.OracleChecked++
				if run.Panic != nil {
					c.Violate("dial-panic", fmt.Sprintf("the client panicked / hung: %v", run.Panic), sc)
					continue
				}
				c.Count(true, fmt.Sprint(i), fmt.Sprintf("oldquit=%s second-err=%v", oq.Kind, run.Second != nil && run.Second.Err != nil))
				if run.Second != nil && run.Second.Err != nil && run.Second.Open {
					c.Violate("c19-open-after-error", fmt.Sprintf("the second DialWithContext returned %v but the connection it opened is still open", run.Second.Err), sc)
				}
			}
		}})

	register(Suite{Name: "c19-dial", Property: "C19",
		Rule: "DialWithContext with a failing reply (4yz, 5yz, garbage) or a disconnect at every step of the dial dialogue (greeting, EHLO, HELO fallback, STARTTLS, handshake, second EHLO, AUTH and every AUTH step), across TLS policies and auth types; the tracking connection must be closed whenever the call returns an error; traces compared with the model; distinct by scenario",
		Run: func(c *Ctx) {
			n := c.N(800, 30000)
			for i := 0; i < n; i++ {
				r := c.Rng
				d := c07dims{policy: r.Intn(3), auth: r.Intn(len(allAuthTypes)), host: r.Intn(4), adv: r.Intn(2), authList: r.Intn(len(authLists))}
				if r.Chance(15) {
					d.ssl = 1
				}
				sc := d.scenario()
				clean := RunDial(sc)
				if clean.Client != nil && clean.Err == nil {
					_ = clean.Client.Close()
				}
				npos := len(clean.Applied)
				base := sc.dynamic
				pos := r.Intn(npos + 1)
				act := genFailAction(r)
				sc.Script = map[int]SrvAction{pos: act}
				if r.Chance(20) {
					// a 334 challenge where none is expected / an extra challenge
					sc.Script[pos] = SrvAction{Kind: "reply", Code: 334, Text: base64.StdEncoding.EncodeToString([]byte("unexpected challenge"))}
				}
				sc.dynamic = base
				verb := "end"
				if pos < len(clean.Verbs) {
					verb = clean.Verbs[pos]
				}
				run := runDialCase(c, sc, "fault@"+verb+":"+sc.Script[pos].Kind, true)
				if run != nil {
					c.rep.OracleChecked++
					if run.Err != nil && run.Open {
						c.Violate("c19-open-after-error", fmt.Sprintf("DialWithContext returned %v but the connection is still open", run.Err), sc)
					}
				}
			}
		}})

	register(Suite{Name: "c17-dial-stall", Property: "C17",
		Rule: "the server falls silent at each position of the dial dialogue (before the greeting, after EHLO, at STARTTLS, in the TLS handshake, after the second EHLO, at AUTH and each AUTH step), for each TLS policy and auth class, connection held open; virtual time: a read on a silent server returns a timeout immediately when a deadline is armed and is recorded as 'blocks forever' otherwise; exhaustive over positions per configuration",
		Run: func(c *Ctx) {
			c.rep.Exhaustive = true
			for policy := 0; policy < 3; policy++ {
				for _, at := range []string{"NOAUTH", "PLAIN-NOENC", "LOGIN-NOENC", "CRAM-MD5", "SCRAM-SHA-256", "XOAUTH2"} {
					for adv := 0; adv < 2; adv++ {
						d := c07dims{policy: policy, host: 0, adv: adv, authList: 3}
						for i, n := range allAuthTypes {
							if n == at {
								d.auth = i
							}
						}
						sc := d.scenario()
						sc.Timeout = 300 * time.Millisecond
						if at == "CRAM-MD5" {
							// (LOGIN is played by the scenario's own server)
							base := sc.dynamic
							sc.dynamic = func(pos int, verb, line string) (SrvAction, bool) {
								if verb == "AUTH" {
									return SrvAction{Kind: "reply", Code: 334, Text: base64.StdEncoding.EncodeToString([]byte("<challenge@verif>"))}, true
								}
								return base(pos, verb, line)
							}
						}
						clean := RunDial(sc)
						if clean.Client != nil && clean.Err == nil {
							_ = clean.Client.Close()
						}
						for pos := 0; pos < len(clean.Applied); pos++ {
							sc2 := d.scenario()
							sc2.Timeout = 300 * time.Millisecond
							sc2.dynamic = sc.dynamic
							sc2.Script = map[int]SrvAction{pos: {Kind: "stall"}}
							// opportunistic TLS, every other position: the port of the policy is unreachable, the
							// dialogue (and the stall) happens on the fallback port
							sc2.FirstDialFails = policy == 1 && pos%2 == 1
							start := time.Now()
							run := runDialCase(c, sc2, "stall@"+clean.Verbs[pos], true)
							if run == nil {
								continue
							}
							oracleStalls(c, sc2, &SmtpRun{Events: run.Events})
							if el := time.Since(start); el > 6*time.Second {
								c.Violate("c17-slow", fmt.Sprintf("the call took %v with a 300ms timeout", el), sc2)
							}
							if run.Err == nil {
								c.Violate("c17-no-error", "the server stalled but DialWithContext returned nil", sc2)
							}
						}
					}
				}
			}
		}})
}
