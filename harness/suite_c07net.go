package main

import (
	"bufio"
	"context"
	"crypto/tls"
	"fmt"
	"net"
	"os"
	"strings"
	"sync"
	"syscall"
	"time"

	mail "github.com/wneessen/go-mail"
)

// ---------------------------------------------------------------------------------------------
// C07 with the DEFAULT dialer (no WithDialContextFunc): the port selection and fallback logic of
// DialToSMTPClientWithContext - implicit TLS on 465 with fallback to 25, STARTTLS policies on 587
// with fallback to 25 - against real TCP listeners on 127.0.0.1. The fallback ports are hard-wired in
// go-mail, so the listeners have to sit on 25 / 465 / 587; if they cannot be bound the suite notes it
// and checks nothing (it never reports a violation it did not observe).

type tcpSMTP struct {
	ln        net.Listener
	implicit  bool // TLS from the first byte
	starttls  bool // advertise and perform STARTTLS
	mu        sync.Mutex
	clearCmds []string // command lines received outside TLS
	tlsCmds   []string // command lines received inside TLS
	rawClear  int      // bytes received outside TLS that are not command lines (e.g. a ClientHello)
	conns     int
}

func startTCPSMTP(addr string, implicit, starttls bool) (*tcpSMTP, error) {
	ln, err := net.Listen("tcp", addr)
	if err != nil {
		return nil, err
	}
	s := &tcpSMTP{ln: ln, implicit: implicit, starttls: starttls}
	go func() {
		for {
			c, err := ln.Accept()
			if err != nil {
				return
			}
			s.mu.Lock()
			s.conns++
			s.mu.Unlock()
			go s.serve(c)
		}
	}()
	return s, nil
}

func (s *tcpSMTP) stop() { _ = s.ln.Close() }

func (s *tcpSMTP) serve(c net.Conn) {
	defer c.Close()
	_ = c.SetDeadline(time.Now().Add(5 * time.Second))
	inTLS := false
	if s.implicit {
		tc := tls.Server(c, tlsGoodCfg["localhost"])
		if err := tc.Handshake(); err != nil {
			return
		}
		c = tc
		inTLS = true
	}
	rd := bufio.NewReader(c)
	fmt.Fprintf(c, "220 localhost ESMTP\r\n")
	inData := false
	for {
		line, err := rd.ReadString('\n')
		if line != "" {
			l := strings.TrimRight(line, "\r\n")
			s.mu.Lock()
			switch {
			case inTLS:
				s.tlsCmds = append(s.tlsCmds, l)
			case verbOf(l) != "?" || inData:
				// an SMTP command (or message content behind an accepted DATA) in clear; the random bytes of a
				// TLS ClientHello that happen to contain a line break are not
				s.clearCmds = append(s.clearCmds, l)
			default:
				s.rawClear += len(line)
			}
			s.mu.Unlock()
			if inData {
				if l == "." {
					inData = false
					fmt.Fprintf(c, "250 2.0.0 queued\r\n")
				}
				continue
			}
			up := strings.ToUpper(l)
			switch {
			case strings.HasPrefix(up, "EHLO"):
				if s.starttls && !inTLS {
					fmt.Fprintf(c, "250-localhost\r\n250-STARTTLS\r\n250 8BITMIME\r\n")
				} else {
					fmt.Fprintf(c, "250-localhost\r\n250 8BITMIME\r\n")
				}
			case strings.HasPrefix(up, "HELO"):
				fmt.Fprintf(c, "250 localhost\r\n")
			case up == "STARTTLS" && s.starttls && !inTLS:
				fmt.Fprintf(c, "220 go ahead\r\n")
				tc := tls.Server(c, tlsGoodCfg["localhost"])
				if err := tc.Handshake(); err != nil {
					return
				}
				c = tc
				rd = bufio.NewReader(c)
				inTLS = true
			case strings.HasPrefix(up, "DATA"):
				inData = true
				fmt.Fprintf(c, "354 go\r\n")
			case strings.HasPrefix(up, "QUIT"):
				fmt.Fprintf(c, "221 bye\r\n")
				return
			default:
				fmt.Fprintf(c, "250 2.0.0 ok\r\n")
			}
		}
		if err != nil {
			return
		}
	}
}

func (s *tcpSMTP) snapshot() (clear, inTLS []string, raw int) {
	s.mu.Lock()
	defer s.mu.Unlock()
	return append([]string(nil), s.clearCmds...), append([]string(nil), s.tlsCmds...), s.rawClear
}

func init() {
	register(Suite{Name: "c07-default-dialer", Property: "C07",
		Rule: "the default dialer (no custom dial function) against real TCP listeners on 127.0.0.1:25 / 465 / 587: implicit TLS (WithSSLPort) with and without port fallback, the primary port open or closed, and the STARTTLS port policies with fallback 587 -> 25 with a server that does or does not offer STARTTLS; DialAndSend of one message; oracle: with implicit TLS no command line may reach any port outside TLS, with mandatory STARTTLS only EHLO / STARTTLS / QUIT may; oracle only (port selection and fallback are not part of the Lean dial model); skipped with a note when the ports cannot be bound",
		Run: func(c *Ctx) {
			tlsMaterial()
			lock, err := os.OpenFile("/tmp/gmverif-smtp-ports.lock", os.O_CREATE|os.O_RDWR, 0o600)
			if err == nil {
				defer lock.Close()
				_ = syscall.Flock(int(lock.Fd()), syscall.LOCK_EX)
				defer syscall.Flock(int(lock.Fd()), syscall.LOCK_UN)
			}
			type scen struct {
				name            string
				opts            []mail.Option
				open465, open587 bool
				starttls25      bool
				implicit        bool
				mandatory       bool
				customPort      bool                  // a plain-text server on a port of its own; WithPort(that port) comes first
				later           func(c *mail.Client) // setters called after NewClient
			}
			tlsCfg := &tls.Config{ServerName: "localhost", RootCAs: tlsRoots, MinVersion: tls.VersionTLS12}
			scens := []scen{
				{name: "ssl+fallback, 465 closed, plain server on 25", opts: []mail.Option{mail.WithSSLPort(true)}, implicit: true},
				{name: "ssl+fallback, 465 closed, STARTTLS server on 25", opts: []mail.Option{mail.WithSSLPort(true)}, implicit: true, starttls25: true},
				{name: "ssl+fallback, 465 open", opts: []mail.Option{mail.WithSSLPort(true)}, implicit: true, open465: true},
				{name: "ssl without fallback, 465 closed", opts: []mail.Option{mail.WithSSLPort(false)}, implicit: true},
				{name: "mandatory STARTTLS port policy, 587 closed, STARTTLS server on 25", opts: []mail.Option{mail.WithTLSPortPolicy(mail.TLSMandatory)}, mandatory: true, starttls25: true},
				{name: "mandatory STARTTLS port policy, 587 closed, plain server on 25", opts: []mail.Option{mail.WithTLSPortPolicy(mail.TLSMandatory)}, mandatory: true},
				{name: "mandatory STARTTLS port policy, 587 open", opts: []mail.Option{mail.WithTLSPortPolicy(mail.TLSMandatory)}, mandatory: true, open587: true},
				{name: "opportunistic port policy, 587 closed, plain server on 25", opts: []mail.Option{mail.WithTLSPortPolicy(mail.TLSOpportunistic)}},
				// implicit TLS asked for on a port of the caller's choosing: the port stays, the TLS must too
				{name: "custom port, then WithSSLPort(false), plain server there", opts: []mail.Option{mail.WithSSLPort(false)}, implicit: true, customPort: true},
				{name: "custom port, then WithSSLPort(true), plain server there", opts: []mail.Option{mail.WithSSLPort(true)}, implicit: true, customPort: true},
				{name: "custom port, then WithSSL, plain server there", opts: []mail.Option{mail.WithSSL()}, implicit: true, customPort: true},
				{name: "custom port, later SetSSLPort(true, false), plain server there", implicit: true, customPort: true, later: func(c *mail.Client) { c.SetSSLPort(true, false) }},
				{name: "custom port, later SetSSL(true), plain server there", implicit: true, customPort: true, later: func(c *mail.Client) { c.SetSSL(true) }},
				{name: "custom port, mandatory STARTTLS policy, plain server there", opts: []mail.Option{mail.WithTLSPolicy(mail.TLSMandatory)}, mandatory: true, customPort: true},
			}
			for _, sc := range scens {
				var servers []*tcpSMTP
				bindFailed := false
				start := func(addr string, implicit, starttls bool) *tcpSMTP {
					s, err := startTCPSMTP(addr, implicit, starttls)
					if err != nil {
						bindFailed = true
						c.Note("cannot bind %s: %v", addr, err)
						return nil
					}
					servers = append(servers, s)
					return s
				}
				s25 := start("127.0.0.1:25", false, sc.starttls25)
				if sc.open465 {
					start("127.0.0.1:465", true, false)
				}
				if sc.open587 {
					start("127.0.0.1:587", false, true)
				}
				if bindFailed || s25 == nil {
					for _, s := range servers {
						s.stop()
					}
					c.rep.Branches["skipped: ports not available"]++
					continue
				}
				opts := []mail.Option{mail.WithTLSConfig(tlsCfg), mail.WithTimeout(3 * time.Second)}
				if sc.customPort {
					own := start("127.0.0.1:0", false, false)
					if own == nil {
						continue
					}
					opts = append(opts, mail.WithPort(own.ln.Addr().(*net.TCPAddr).Port))
				}
				opts = append(opts, sc.opts...)
				client, err := mail.NewClient("127.0.0.1", opts...)
				if err != nil {
					c.Note("config: %v", err)
					continue
				}
				if sc.later != nil {
					sc.later(client)
				}
				m := mail.NewMsg()
				_ = m.From("sender@example.com")
				_ = m.To("rcpt@example.com")
				m.Subject("default dialer")
				m.SetBodyString(mail.TypeTextPlain, "secret body of the default dialer scenario")
				var sendErr error
				done := watchdog(20*time.Second, func() {
					sendErr = client.DialAndSendWithContext(context.Background(), m)
				})
				time.Sleep(50 * time.Millisecond)
				c.rep.OracleChecked++
				c.Count(true, sc.name, fmt.Sprintf("err=%v", sendErr != nil))
				desc := map[string]interface{}{"scenario": sc.name, "error": fmt.Sprint(sendErr)}
				if !done {
					c.Violate("c17-blocks-forever", "DialAndSend did not return within 20 s", desc)
				}
				for _, s := range servers {
					clear, _, _ := s.snapshot()
					desc["clear@"+s.ln.Addr().String()] = clear
					for _, l := range clear {
						v := verbOf(l)
						switch {
						case sc.implicit:
							c.Violate("c07-cleartext-command", fmt.Sprintf("implicit TLS configured, but %q reached %s outside TLS", l, s.ln.Addr()), desc)
						case sc.mandatory && v != "EHLO" && v != "HELO" && v != "STARTTLS" && v != "QUIT":
							c.Violate("c07-cleartext-command", fmt.Sprintf("mandatory TLS: %q was sent before a TLS handshake completed", l), desc)
						}
					}
					s.stop()
				}
				if (sc.implicit || sc.mandatory) && sendErr == nil {
					// success must mean the message travelled inside TLS
					inside := false
					for _, s := range servers {
						_, t, _ := s.snapshot()
						for _, l := range t {
							if strings.HasPrefix(strings.ToUpper(l), "MAIL FROM") {
								inside = true
							}
						}
					}
					if !inside {
						c.Violate("c07-cleartext-command", "the send succeeded but no MAIL command was seen inside TLS", desc)
					}
				}
			}
		}})
}

// c13-default-dialer: concurrent DialAndSend on ONE Client that has no dial function of its own - the library's
// net.Dialer / tls.Dialer path - against a real TCP listener. Under the race detector (the C13 check builds with
// -race) any unsynchronised write to the Client during a dial shows up; the oracle checks the deliveries.
func init() {
	register(Suite{Name: "c13-default-dialer", Property: "C13",
		Rule: "8 .. 24 goroutines call DialAndSend with distinct messages on one Client WITHOUT a custom dial function (the library's own dialer), against a real TCP listener on 127.0.0.1 with an ephemeral port; several rounds per Client, clear text and implicit TLS; every call must succeed and every message must arrive exactly once, complete (its marker line inside its own DATA section); the binary is built with the race detector: every unsynchronised access to the Client during a dial is reported as a schedule on which the property fails; oracle only",
		Run: func(c *Ctx) {
			tlsMaterial()
			rounds := c.N(6, 60)
			for round := 0; round < rounds; round++ {
				implicit := round%3 == 2
				srv, err := startTCPSMTP("127.0.0.1:0", implicit, false)
				if err != nil {
					c.Note("cannot listen on 127.0.0.1: %v", err)
					return
				}
				port := srv.ln.Addr().(*net.TCPAddr).Port
				opts := []mail.Option{mail.WithPort(port), mail.WithTimeout(5 * time.Second), mail.WithTLSPolicy(mail.NoTLS)}
				if implicit {
					opts = append(opts, mail.WithSSL(), mail.WithTLSConfig(&tls.Config{ServerName: "localhost", RootCAs: tlsRoots, MinVersion: tls.VersionTLS12}))
				}
				client, err := mail.NewClient("127.0.0.1", opts...)
				if err != nil {
					c.Note("config: %v", err)
					srv.stop()
					continue
				}
				workers := 8 + 4*(round%5)
				errs := make([]error, workers)
				var wg sync.WaitGroup
				for w := 0; w < workers; w++ {
					wg.Add(1)
					go func(w int) {
						defer wg.Done()
						m := mail.NewMsg()
						_ = m.From(fmt.Sprintf("sender%d@example.com", w))
						_ = m.To(fmt.Sprintf("rcpt%d@example.com", w))
						m.Subject(fmt.Sprintf("round %d worker %d", round, w))
						m.SetBodyString(mail.TypeTextPlain, fmt.Sprintf("marker-r%d-w%d-end", round, w))
						errs[w] = client.DialAndSendWithContext(context.Background(), m)
					}(w)
				}
				done := make(chan struct{})
				go func() { wg.Wait(); close(done) }()
				desc := map[string]interface{}{"round": round, "goroutines": workers, "implicit_tls": implicit}
				select {
				case <-done:
				case <-time.After(60 * time.Second):
					c.Violate("c13-deadlock", "concurrent DialAndSend calls did not return within 60 s", desc)
					srv.stop()
					continue
				}
				time.Sleep(30 * time.Millisecond)
				c.rep.OracleChecked++
				c.Count(true, fmt.Sprint(round), fmt.Sprintf("goroutines=%d:implicit=%v", workers, implicit))
				clear, inTLS, _ := srv.snapshot()
				lines := clear
				if implicit {
					lines = inTLS
					if len(clear) > 0 {
						c.Violate("c07-cleartext-command", fmt.Sprintf("implicit TLS, but %q arrived in clear", clear[0]), desc)
					}
				}
				all := strings.Join(lines, "\n")
				for w := 0; w < workers; w++ {
					if errs[w] != nil {
						c.Violate("c13-send-error", fmt.Sprintf("DialAndSend of worker %d failed: %v", w, errs[w]), desc)
						continue
					}
					if n := strings.Count(all, fmt.Sprintf("marker-r%d-w%d-end", round, w)); n != 1 {
						c.Violate("c13-not-exactly-once", fmt.Sprintf("the message of worker %d arrived %d times", w, n), desc)
					}
					if n := strings.Count(all, fmt.Sprintf("MAIL FROM:<sender%d@example.com>", w)); n != 1 {
						c.Violate("c13-not-exactly-once", fmt.Sprintf("the envelope of worker %d was seen %d times", w, n), desc)
					}
				}
				srv.stop()
			}
		}})
}
