package main

import (
	"bytes"
	"encoding/base64"
	"fmt"
	"mime"
	"strings"
)

// ---------------------------------------------------------------------------------------------
// The harness' own strict reader: RFC 5322 header field scanner, RFC 2045 parameters for the forms
// go-mail emits, RFC 2046 multipart splitter working on CRLF lines, QP / base64 decoders.
// It is independent of both the implementation and the Lean model.

type Field struct {
	Name  string
	Value string // unfolded, leading blank removed
	Raw   []string
}

type Entity struct {
	Fields    []Field
	Body      []byte
	MediaType string
	Params    map[string]string
	Children  []*Entity // multipart only
	Preamble  []byte
	Epilogue  []byte
	Raw       []byte // the entity exactly as it appeared (header section + body)
}

func (e *Entity) Get(name string) (string, int) {
	n, v := 0, ""
	for _, f := range e.Fields {
		if strings.EqualFold(f.Name, name) {
			if n == 0 {
				v = f.Value
			}
			n++
		}
	}
	return v, n
}

func splitLinesCRLF(b []byte) [][]byte { return bytes.Split(b, []byte("\r\n")) }

// scanHeader reads a header section: field lines `name ":" value`, continuation lines start with
// WSP, the section ends at the first empty line. Returns the rest (the body).
func scanHeader(b []byte) (fields []Field, body []byte, err error) {
	lines := splitLinesCRLF(b)
	i := 0
	offset := 0
	for ; i < len(lines); i++ {
		l := lines[i]
		if len(l) == 0 {
			offset += 2
			i++
			break
		}
		if bytes.ContainsAny(l, "\r\n") {
			return nil, nil, fmt.Errorf("bare CR or LF in header line %q", l)
		}
		if l[0] == ' ' || l[0] == '\t' {
			if len(fields) == 0 {
				return nil, nil, fmt.Errorf("continuation line without field: %q", l)
			}
			f := &fields[len(fields)-1]
			f.Value += string(l)
			f.Raw = append(f.Raw, string(l))
		} else {
			c := bytes.IndexByte(l, ':')
			if c <= 0 {
				return nil, nil, fmt.Errorf("header line without field name: %q", l)
			}
			name := l[:c]
			for _, ch := range name {
				if ch <= 32 || ch >= 127 {
					return nil, nil, fmt.Errorf("invalid character in field name %q", name)
				}
			}
			v := string(l[c+1:])
			fields = append(fields, Field{Name: string(name), Value: strings.TrimLeft(v, " "), Raw: []string{string(l)}})
		}
		offset += len(l) + 2
	}
	if offset > len(b) {
		offset = len(b)
	}
	if i == len(lines) && (len(lines) == 0 || len(lines[len(lines)-1]) != 0) {
		// no empty line: header only
		return fields, nil, nil
	}
	return fields, b[offset:], nil
}

// parseParams parses `type/subtype; k=v; k="v"` as go-mail writes it (quoted values may contain ';')
func parseParams(v string) (string, map[string]string, error) {
	params := map[string]string{}
	i := strings.IndexByte(v, ';')
	if i < 0 {
		return strings.ToLower(strings.TrimSpace(v)), params, nil
	}
	mt := strings.ToLower(strings.TrimSpace(v[:i]))
	rest := v[i+1:]
	for {
		rest = strings.TrimLeft(rest, " \t")
		if rest == "" {
			break
		}
		eq := strings.IndexByte(rest, '=')
		if eq < 0 {
			return mt, params, fmt.Errorf("parameter without '=': %q", rest)
		}
		key := strings.ToLower(strings.TrimSpace(rest[:eq]))
		rest = rest[eq+1:]
		var val string
		if strings.HasPrefix(rest, "\"") {
			j := 1
			var sb strings.Builder
			for j < len(rest) && rest[j] != '"' {
				if rest[j] == '\\' && j+1 < len(rest) {
					j++
				}
				sb.WriteByte(rest[j])
				j++
			}
			if j >= len(rest) {
				return mt, params, fmt.Errorf("unterminated quoted parameter")
			}
			val = sb.String()
			rest = rest[j+1:]
			rest = strings.TrimLeft(rest, " \t")
			if rest != "" && rest[0] != ';' {
				return mt, params, fmt.Errorf("garbage after quoted parameter: %q", rest)
			}
			if rest != "" {
				rest = rest[1:]
			}
		} else {
			j := strings.IndexByte(rest, ';')
			if j < 0 {
				val, rest = strings.TrimSpace(rest), ""
			} else {
				val, rest = strings.TrimSpace(rest[:j]), rest[j+1:]
			}
		}
		if _, dup := params[key]; dup {
			return mt, params, fmt.Errorf("duplicate parameter %q", key)
		}
		params[key] = val
	}
	return mt, params, nil
}

// parseEntity parses a header section + body, recursing into multiparts.
func parseEntity(b []byte, depth int) (*Entity, error) {
	if depth > 8 {
		return nil, fmt.Errorf("nesting too deep")
	}
	fields, body, err := scanHeader(b)
	if err != nil {
		return nil, err
	}
	e := &Entity{Fields: fields, Body: body, Params: map[string]string{}, Raw: b}
	ct, n := e.Get("Content-Type")
	if n > 1 {
		return nil, fmt.Errorf("duplicate Content-Type")
	}
	if n == 1 {
		e.MediaType, e.Params, err = parseParams(ct)
		if err != nil {
			return nil, fmt.Errorf("Content-Type %q: %v", ct, err)
		}
	}
	if strings.HasPrefix(e.MediaType, "multipart/") {
		bnd, ok := e.Params["boundary"]
		if !ok || bnd == "" {
			return nil, fmt.Errorf("multipart without boundary")
		}
		if err := e.splitMultipart(bnd, depth); err != nil {
			return nil, err
		}
	}
	return e, nil
}

// splitMultipart works on CRLF lines: delimiter lines are exactly "--b" / "--b--" (trailing WSP allowed)
func (e *Entity) splitMultipart(bnd string, depth int) error {
	lines := splitLinesCRLF(e.Body)
	delim := "--" + bnd
	var cur [][]byte
	state := 0 // 0 preamble, 1 in part, 2 epilogue
	flush := func() error {
		switch state {
		case 0:
			e.Preamble = bytes.Join(cur, []byte("\r\n"))
		case 1:
			child, err := parseEntity(bytes.Join(cur, []byte("\r\n")), depth+1)
			if err != nil {
				return err
			}
			e.Children = append(e.Children, child)
		}
		cur = nil
		return nil
	}
	for _, l := range lines {
		t := strings.TrimRight(string(l), " \t")
		if state < 2 && t == delim {
			if err := flush(); err != nil {
				return err
			}
			state = 1
			continue
		}
		if state < 2 && t == delim+"--" {
			if err := flush(); err != nil {
				return err
			}
			state = 2
			continue
		}
		cur = append(cur, l)
	}
	if state != 2 {
		return fmt.Errorf("multipart %q not closed", bnd)
	}
	e.Epilogue = bytes.Join(cur, []byte("\r\n"))
	return nil
}

// leaves in document order
func (e *Entity) leaves() []*Entity {
	if len(e.Children) == 0 && !strings.HasPrefix(e.MediaType, "multipart/") {
		return []*Entity{e}
	}
	var out []*Entity
	for _, c := range e.Children {
		out = append(out, c.leaves()...)
	}
	return out
}

// structure like mixed(related(alternative(l,l),l),l)
func (e *Entity) structure() string {
	if !strings.HasPrefix(e.MediaType, "multipart/") {
		return "l"
	}
	parts := make([]string, len(e.Children))
	for i, c := range e.Children {
		parts[i] = c.structure()
	}
	return strings.TrimPrefix(e.MediaType, "multipart/") + "(" + strings.Join(parts, ",") + ")"
}

func qpDecodeStrict(b []byte) ([]byte, error) {
	var out []byte
	for i := 0; i < len(b); i++ {
		c := b[i]
		if c != '=' {
			out = append(out, c)
			continue
		}
		if i+2 < len(b) && b[i+1] == '\r' && b[i+2] == '\n' {
			i += 2
			continue
		}
		if i+2 >= len(b) {
			return nil, fmt.Errorf("truncated escape")
		}
		h, ok1 := unhexU(b[i+1])
		l, ok2 := unhexU(b[i+2])
		if !ok1 || !ok2 {
			return nil, fmt.Errorf("bad escape %q", b[i:i+3])
		}
		out = append(out, h<<4|l)
		i += 2
	}
	return out, nil
}

func unhexU(c byte) (byte, bool) {
	switch {
	case c >= '0' && c <= '9':
		return c - '0', true
	case c >= 'A' && c <= 'F':
		return c - 'A' + 10, true
	}
	return 0, false
}

// decodedBody applies the leaf's Content-Transfer-Encoding
func (e *Entity) decodedBody() ([]byte, string, error) {
	cte, _ := e.Get("Content-Transfer-Encoding")
	cte = strings.ToLower(strings.TrimSpace(cte))
	switch cte {
	case "base64":
		raw := bytes.ReplaceAll(e.Body, []byte("\r\n"), nil)
		out, err := base64.StdEncoding.DecodeString(string(raw))
		return out, cte, err
	case "quoted-printable":
		out, err := qpDecodeStrict(e.Body)
		return out, cte, err
	default:
		return e.Body, cte, nil
	}
}

// canonical line breaks: CRLF, bare CR and bare LF all become CRLF (what a QP text body means)
func canonCRLF(b []byte) []byte {
	var out []byte
	for i := 0; i < len(b); i++ {
		switch b[i] {
		case '\r':
			out = append(out, '\r', '\n')
			if i+1 < len(b) && b[i+1] == '\n' {
				i++
			}
		case '\n':
			out = append(out, '\r', '\n')
		default:
			out = append(out, b[i])
		}
	}
	return out
}

var wordDecoder = mime.WordDecoder{}

func decode2047(s string) (string, error) { return wordDecoder.DecodeHeader(s) }

func normWS(s string) string { return strings.Join(strings.Fields(s), " ") }
