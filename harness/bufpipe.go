package main

import (
	"io"
	"net"
	"os"
	"sync"
	"time"
)

// bufPipe: an in-memory full-duplex connection, buffered in both directions like TCP (net.Pipe's
// rendezvous semantics deadlock when both ends write at the same time, e.g. during a TLS handshake).

type halfPipe struct {
	mu     sync.Mutex
	cond   *sync.Cond
	buf    []byte
	closed bool
}

func newHalf() *halfPipe {
	h := &halfPipe{}
	h.cond = sync.NewCond(&h.mu)
	return h
}

type pipeEnd struct {
	rd, wr   *halfPipe
	mu       sync.Mutex
	deadline time.Time
	tap      func([]byte) // called with every chunk written through this end
	onClose  func()
	closed   bool
}

func newBufPipe() (*pipeEnd, *pipeEnd) {
	a, b := newHalf(), newHalf()
	return &pipeEnd{rd: a, wr: b}, &pipeEnd{rd: b, wr: a}
}

func (p *pipeEnd) Read(b []byte) (int, error) {
	p.mu.Lock()
	dl := p.deadline
	p.mu.Unlock()
	h := p.rd
	h.mu.Lock()
	defer h.mu.Unlock()
	var timer *time.Timer
	expired := false
	if !dl.IsZero() {
		d := time.Until(dl)
		if d <= 0 {
			expired = true
		} else {
			timer = time.AfterFunc(d, func() {
				h.mu.Lock()
				expired = true
				h.mu.Unlock()
				h.cond.Broadcast()
			})
			defer timer.Stop()
		}
	}
	for len(h.buf) == 0 {
		if h.closed {
			return 0, io.EOF
		}
		if expired {
			return 0, os.ErrDeadlineExceeded
		}
		h.cond.Wait()
	}
	n := copy(b, h.buf)
	h.buf = h.buf[n:]
	return n, nil
}

func (p *pipeEnd) Write(b []byte) (int, error) {
	p.mu.Lock()
	closed := p.closed
	tap := p.tap
	p.mu.Unlock()
	if closed {
		return 0, net.ErrClosed
	}
	if tap != nil {
		tap(b)
	}
	h := p.wr
	h.mu.Lock()
	defer h.mu.Unlock()
	if h.closed {
		// like TCP: a write after the peer has closed is accepted by the local stack (the reset, if any,
		// only shows on a later operation); the bytes go nowhere
		return len(b), nil
	}
	h.buf = append(h.buf, b...)
	h.cond.Broadcast()
	return len(b), nil
}

func (p *pipeEnd) Close() error {
	p.mu.Lock()
	if p.closed {
		p.mu.Unlock()
		return net.ErrClosed
	}
	p.closed = true
	oc := p.onClose
	p.mu.Unlock()
	for _, h := range []*halfPipe{p.rd, p.wr} {
		h.mu.Lock()
		h.closed = true
		h.mu.Unlock()
		h.cond.Broadcast()
	}
	if oc != nil {
		oc()
	}
	return nil
}

func (p *pipeEnd) LocalAddr() net.Addr  { return fakeAddr("pipe") }
func (p *pipeEnd) RemoteAddr() net.Addr { return fakeAddr("pipe") }
func (p *pipeEnd) SetDeadline(t time.Time) error {
	p.mu.Lock()
	p.deadline = t
	p.mu.Unlock()
	return nil
}
func (p *pipeEnd) SetReadDeadline(t time.Time) error  { return p.SetDeadline(t) }
func (p *pipeEnd) SetWriteDeadline(t time.Time) error { return nil }
