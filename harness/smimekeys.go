package main

import (
	"crypto/tls"
	"crypto"
	"crypto/ecdsa"
	"crypto/elliptic"
	"crypto/rand"
	"crypto/rsa"
	"crypto/x509"
	"crypto/x509/pkix"
	"fmt"
	"math/big"
	"strings"
	"sync"
	"time"

	mail "github.com/wneessen/go-mail"
)

// test key material generated at start-up: root -> intermediate -> leaf, for RSA and ECDSA

type keyChain struct {
	key          crypto.PrivateKey
	leaf         *x509.Certificate
	intermediate *x509.Certificate
	root         *x509.Certificate
}

var (
	chainOnce sync.Once
	chains    map[string]*keyChain
	chainErr  error
)

func mkCert(tmpl, parent *x509.Certificate, pub crypto.PublicKey, signer crypto.PrivateKey) (*x509.Certificate, error) {
	der, err := x509.CreateCertificate(rand.Reader, tmpl, parent, pub, signer)
	if err != nil {
		return nil, err
	}
	return x509.ParseCertificate(der)
}

func genChain(kind string) (*keyChain, error) {
	newKey := func() (crypto.PrivateKey, crypto.PublicKey, error) {
		if kind == "rsa" {
			k, err := rsa.GenerateKey(rand.Reader, 2048)
			if err != nil {
				return nil, nil, err
			}
			return k, &k.PublicKey, nil
		}
		curve := elliptic.P256()
		switch kind {
		case "ecdsa384":
			curve = elliptic.P384()
		case "ecdsa521":
			curve = elliptic.P521()
		}
		k, err := ecdsa.GenerateKey(curve, rand.Reader)
		if err != nil {
			return nil, nil, err
		}
		return k, &k.PublicKey, nil
	}
	now := time.Now()
	tmpl := func(cn string, ca bool, serial int64) *x509.Certificate {
		return &x509.Certificate{SerialNumber: big.NewInt(serial), Subject: pkix.Name{CommonName: cn},
			NotBefore: now.Add(-time.Hour), NotAfter: now.Add(24 * time.Hour), IsCA: ca, BasicConstraintsValid: true,
			KeyUsage: x509.KeyUsageDigitalSignature | x509.KeyUsageCertSign, ExtKeyUsage: []x509.ExtKeyUsage{x509.ExtKeyUsageEmailProtection},
			EmailAddresses: []string{"signer@example.com"}}
	}
	rk, rp, err := newKey()
	if err != nil {
		return nil, err
	}
	rt := tmpl("verif root "+kind, true, 1)
	root, err := mkCert(rt, rt, rp, rk)
	if err != nil {
		return nil, err
	}
	ik, ip, err := newKey()
	if err != nil {
		return nil, err
	}
	inter, err := mkCert(tmpl("verif intermediate "+kind, true, 2), root, ip, rk)
	if err != nil {
		return nil, err
	}
	lk, lp, err := newKey()
	if err != nil {
		return nil, err
	}
	leaf, err := mkCert(tmpl("verif leaf "+kind, false, 3), inter, lp, ik)
	if err != nil {
		return nil, err
	}
	return &keyChain{key: lk, leaf: leaf, intermediate: inter, root: root}, nil
}

func getChain(kind string) (*keyChain, error) {
	chainOnce.Do(func() {
		chains = map[string]*keyChain{}
		for _, k := range []string{"rsa", "ecdsa", "ecdsa384", "ecdsa521"} {
			c, err := genChain(k)
			if err != nil {
				chainErr = err
				return
			}
			chains[k] = c
		}
	})
	if chainErr != nil {
		return nil, chainErr
	}
	return chains[kind], nil
}

// signWith configures S/MIME signing: kind is "rsa" or "ecdsa", with "+ic" to include the intermediate
func signWith(m *mail.Msg, kind string, viaTLSCertificate ...int) error {
	base := strings.TrimSuffix(kind, "+ic")
	c, err := getChain(base)
	if err != nil || c == nil {
		return fmt.Errorf("no key chain for %q: %v", kind, err)
	}
	var ic *x509.Certificate
	if strings.HasSuffix(kind, "+ic") {
		ic = c.intermediate
	}
	if len(viaTLSCertificate) > 0 && viaTLSCertificate[0] > 0 {
		// the tls.Certificate entry point: chain of raw certificates, Leaf parsed or not
		tc := &tls.Certificate{Certificate: [][]byte{c.leaf.Raw}, PrivateKey: c.key}
		if ic != nil {
			tc.Certificate = append(tc.Certificate, ic.Raw)
		}
		if viaTLSCertificate[0] == 2 {
			tc.Leaf = c.leaf
		}
		return m.SignWithTLSCertificate(tc)
	}
	return m.SignWithKeypair(c.key, c.leaf, ic)
}
