package main

import (
	"bytes"
	"fmt"
	netmail "net/mail"
	"strings"

	mail "github.com/wneessen/go-mail"
	"github.com/wneessen/go-mail/smtp"
)

func hasCtl(s string) bool {
	for i := 0; i < len(s); i++ {
		if s[i] < 32 || s[i] == 127 {
			return true
		}
	}
	return false
}

// ---------------------------------------------------------------------------------------------
// C05: envelope addresses and command lines cannot be smuggled. C06: recipients are To+Cc+Bcc, Bcc hidden.

// strict RFC 5321 §4.1.2 path parser: "<" Mailbox ">", Mailbox = Local-part "@" Domain,
// Local-part = Dot-string / Quoted-string. Returns the unquoted local part and the domain.
func parsePath5321(s string) (local, domain, rest string, err error) {
	if !strings.HasPrefix(s, "<") {
		return "", "", "", fmt.Errorf("path does not start with '<'")
	}
	i := 1
	var lb strings.Builder
	if i < len(s) && s[i] == '"' {
		i++
		for {
			if i >= len(s) {
				return "", "", "", fmt.Errorf("unterminated quoted local part")
			}
			c := s[i]
			if c == '"' {
				i++
				break
			}
			if c == '\\' {
				i++
				if i >= len(s) {
					return "", "", "", fmt.Errorf("dangling backslash")
				}
				c = s[i]
			} else if c < 32 || c == 127 {
				return "", "", "", fmt.Errorf("control character in quoted local part")
			}
			lb.WriteByte(c)
			i++
		}
	} else {
		start := i
		for i < len(s) && (isAtextByte(s[i]) || s[i] == '.') {
			i++
		}
		l := s[start:i]
		if l == "" || strings.HasPrefix(l, ".") || strings.HasSuffix(l, ".") || strings.Contains(l, "..") {
			return "", "", "", fmt.Errorf("local part %q is not a Dot-string", l)
		}
		lb.WriteString(l)
	}
	if i >= len(s) || s[i] != '@' {
		return "", "", "", fmt.Errorf("'@' expected after the local part at offset %d of %q", i, s)
	}
	i++
	start := i
	for i < len(s) && s[i] != '>' && s[i] != ' ' && s[i] != '<' && s[i] != '"' && s[i] > 32 {
		i++
	}
	domain = s[start:i]
	if domain == "" {
		return "", "", "", fmt.Errorf("empty domain")
	}
	if i >= len(s) || s[i] != '>' {
		return "", "", "", fmt.Errorf("'>' expected after the domain in %q", s)
	}
	return lb.String(), domain, s[i+1:], nil
}

func isAtextByte(c byte) bool {
	return c >= 'a' && c <= 'z' || c >= 'A' && c <= 'Z' || c >= '0' && c <= '9' || strings.IndexByte("!#$%&'*+-/=?^_`{|}~", c) >= 0 || c >= 0x80
}

// long values: what a check looks at must not stop before the value does
var longLocalTab = strings.Repeat("x", 520) + "\there"
var longLocalCRLF = strings.Repeat("y", 511) + "\r\nRCPT TO:<smuggled@example.net>"
var longLocalPlain = strings.Repeat("z", 600)

var trickyLocals = []string{longLocalTab, longLocalCRLF, longLocalPlain, strings.Repeat("ab ", 180), "plain", "dot.ted", "a b", "a b>c", "x<y", "semi;colon", "com,ma", "co:lon", "at@sign", "back\\slash", "quo\"te", "(paren)", "trailing.", ".leading", "dou..ble",
	"ümlaut", "日本", "عل\u200cرضا", "soft\u00adhyphen", "zw\u200bsp", "bom\ufeff", "rtl\u202eabc", "j\u200doin", "tab\there", "a>b c<d", "\"", "\\", " ", "MAIL FROM:<x@y>", "a> SIZE=1", "a@b>", "<>",
	"Ops@NOC", "First.Last@Dept", "UPPER", "Mixed.Case+Tag", "a@B@c", "bob%example.org", "100%.off+news", "sales%%eu", "%s", "%d%v", "a%!b", "pct %s in quotes", "%[1]s", "%"}

func quoteForHeader(local string) string {
	var b strings.Builder
	b.WriteByte('"')
	for i := 0; i < len(local); i++ {
		if local[i] == '"' || local[i] == '\\' {
			b.WriteByte('\\')
		}
		b.WriteByte(local[i])
	}
	b.WriteByte('"')
	return b.String()
}

func init() {
	register(Suite{Name: "c05-envelope-unit", Property: "C05",
		Rule: "envelopeAddress on addresses accepted by net/mail.ParseAddress with dot-atom and quoted local parts (space < > @ , ; : \\ \" UTF-8, command look-alikes): implementation vs model; the result between '<' '>' must parse with a strict RFC 5321 path parser to exactly the mailbox; non-trivial = local part needs quoting; distinct by address",
		Run: func(c *Ctx) {
			n := c.N(3000, 150000)
			for i := 0; i < n; i++ {
				r := c.Rng
				var local string
				if r.Chance(60) {
					local = trickyLocals[r.Intn(len(trickyLocals))]
					if r.Chance(30) {
						local += trickyLocals[r.Intn(len(trickyLocals))]
					}
				} else {
					local = genText(r, 3)
				}
				domain := []string{"example.com", "sub.example.co.uk", "[192.0.2.1]", "xn--bcher-kva.example"}[r.Intn(4)]
				in := quoteForHeader(local) + "@" + domain
				ad, err := netmail.ParseAddress(in)
				if err != nil {
					c.Count(false, in, "rejected-by-setter")
					continue // refused before anything is sent
				}
				out := mail.VerifEnvelopeAddress(ad.Address)
				if hasCtl(ad.Address) {
					// such an address is refused by smtp.Client.Mail/Rcpt (validateLine) before anything is sent
					c.rep.OracleChecked++
					if smtp.VerifValidateLine(out) == nil {
						c.Violate("c05-control-not-refused", "an envelope address with a control character passes validateLine", in)
					}
					c.AddCase(Case{Line: "envaddr " + encS(ad.Address), Want: encS(out), Nontrivial: true, Branch: "control-char"})
					continue
				}
				at := strings.LastIndex(ad.Address, "@")
				wantLocal, wantDomain := ad.Address[:at], ad.Address[at+1:]
				c.rep.OracleChecked++
				l, d, rest, perr := parsePath5321("<" + out + ">")
				switch {
				case strings.ContainsAny(out, "\r\n"):
					c.Violate("c05-crlf", "envelope address contains CR or LF", in)
				case perr != nil:
					c.Violate("c05-path-unparseable", fmt.Sprintf("<%s> is not a valid RFC 5321 path: %v", out, perr), in)
				case l != wantLocal || d != wantDomain || rest != "":
					c.Violate("c05-path-mailbox", fmt.Sprintf("<%s> denotes %q@%q (rest %q), the caller set %q@%q", out, l, d, rest, wantLocal, wantDomain), in)
				}
				c.AddCase(Case{Line: "envaddr " + encS(ad.Address), Want: encS(out), Nontrivial: out != ad.Address, Branch: fmt.Sprintf("quoted=%v", out != ad.Address),
					Desc: map[string]interface{}{"address": ad.Address}})
			}
		}})

	register(Suite{Name: "c05-lines", Property: "C05",
		Rule: "DialAndSend with tricky envelope addresses, HELO names, DSN option combinations against the scripted server; every command line the server received must be a single line whose MAIL/RCPT path parses (RFC 5321) to exactly the sender / recipient of the message and whose parameters are the configured ones; HELO values with blanks / controls must be refused by the option; compared with the session model",
		Run: func(c *Ctx) {
			n := c.N(500, 30000)
			for i := 0; i < n; i++ {
				r := c.Rng
				sc := genScenario(r, 2, 3)
				sc.Script = map[int]SrvAction{}
				for mi := range sc.Msgs {
					m := &sc.Msgs[mi]
					m.RenderFail, m.EightBit = false, false
					if len(m.To) > 1 {
						m.ToViaAdd = r.Bool()
					} else if r.Chance(50) {
						m.To = append(m.To, "second.rcpt@example.com")
						m.ToViaAdd = true
					}
					mk := func() string {
						return quoteForHeader(trickyLocals[r.Intn(len(trickyLocals))]) + "@example.com"
					}
					if r.Chance(60) {
						m.From = mk()
					}
					if r.Chance(25) {
						// an explicit envelope sender whose local part needs quoting as well
						m.EnvFrom = mk()
					}
					for k := range m.To {
						if r.Chance(60) {
							m.To[k] = mk()
						}
					}
					for k := range m.Bcc {
						if r.Chance(60) {
							m.Bcc[k] = mk()
						}
					}
				}
				if r.Chance(40) {
					sc.Helo = []string{"client.example", "[192.0.2.7]", "a b", "evil\r\nMAIL FROM:<x@y>", "tab\tname", "ok-host", "x y z", " lead",
						strings.Repeat("h", 600) + ".example", strings.Repeat("h", 520) + " smuggled", strings.Repeat("h", 515) + "\r\nMAIL FROM:<x@y>"}[r.Intn(11)]
				}
				// HELO values with blanks / controls: the option must refuse them
				if strings.ContainsAny(sc.Helo, " \t\r\n") {
					c.rep.OracleChecked++
					if _, err := mail.NewClient("verif.example", mail.WithHELO(sc.Helo)); err == nil {
						c.Violate("c05-helo-accepted", fmt.Sprintf("WithHELO accepted %q", sc.Helo), sc)
					}
					c.Count(true, sc.Helo, "helo-refused")
					continue
				}
				// DSN option values that are not the RFC 3461 keywords (padded, lower case, with line breaks):
				// the option refuses them, or every line on the wire is still a single well-formed command
				abused := false
				if r.Chance(25) {
					abused = true
					sc.DSN = true
					hasDSN := false
					for _, cp := range sc.Caps {
						if cp == "DSN" {
							hasDSN = true
						}
					}
					if !hasDSN {
						sc.Caps = append(sc.Caps, "DSN")
					}
					if r.Bool() {
						sc.DSNNotify = [][]string{{" FAILURE"}, {"SUCCESS", " FAILURE"}, {"FAILURE\r\n"}, {"success"}, {"\tSUCCESS"}, {"SUCCESS ", "DELAY"}, {"FAILURE\r\nRSET"}, {"NEVER "}, {"SUCCESS,FAILURE"}}[r.Intn(9)]
					} else {
						sc.DSNReturn = []string{"HDRS\r\n", " FULL", "hdrs", "FULL ", "HDRS\r\nRSET", "full"}[r.Intn(6)]
					}
				}
				run := runAndCompare(c, sc, "lines")
				if abused {
					c.Count(true, fmt.Sprint(sc.DSNNotify, sc.DSNReturn), fmt.Sprintf("dsn-abuse refused=%v", run == nil))
				}
				if run == nil || run.Panic != nil {
					continue
				}
				c.rep.OracleChecked++
				for _, p := range run.APIProblems {
					if strings.Contains(p, "GetSender") || strings.Contains(p, "GetRecipients") {
						c.Violate("c05-envelope-not-what-was-set", p, sc)
					}
				}
				mi := -1
				ri := 0
				for _, e := range run.Events {
					if e.Kind != "cmd" {
						continue
					}
					if verbOf(e.Line) == "?" {
						c.Violate("c05-stray-line", fmt.Sprintf("%q is not a command the client has any reason to send", e.Line), sc)
					}
					if strings.ContainsAny(e.Line, "\r\n") {
						c.Violate("c05-crlf", "a command line contains CR or LF", sc)
					}
					v := verbOf(e.Line)
					switch v {
					case "EHLO", "HELO":
						if f := strings.Fields(e.Line); len(f) != 2 {
							c.Violate("c05-helo-arguments", fmt.Sprintf("%q does not have exactly one argument", e.Line), sc)
						}
					case "MAIL":
						// find the message this MAIL belongs to: the next one that has a sender and recipients
						// (a sender with a control character is refused locally: no MAIL is sent for that message)
						for mi++; mi < len(run.Msgs) && (run.Msgs[mi].Sender == "" || len(run.Msgs[mi].AllRcpts) == 0 || hasCtl(run.Msgs[mi].Sender)); mi++ {
						}
						ri = 0
						if mi >= len(run.Msgs) {
							c.Violate("c05-extra-mail", "more MAIL commands than sendable messages", sc)
							continue
						}
						arg := strings.TrimPrefix(e.Line, "MAIL FROM:")
						l, d, rest, err := parsePath5321(arg)
						want := run.Msgs[mi].Sender
						if err != nil {
							c.Violate("c05-path-unparseable", fmt.Sprintf("%q: %v", e.Line, err), sc)
						} else if l+"@"+d != want {
							c.Violate("c05-path-mailbox", fmt.Sprintf("%q denotes %s@%s, the sender is %s", e.Line, l, d, want), sc)
						} else {
							checkParams(c, sc, "MAIL", rest)
						}
					case "RCPT":
						// recipients with a control character are refused locally
						for mi >= 0 && mi < len(run.Msgs) && ri < len(run.Msgs[mi].AllRcpts) && hasCtl(run.Msgs[mi].AllRcpts[ri]) {
							ri++
						}
						if mi < 0 || mi >= len(run.Msgs) || ri >= len(run.Msgs[mi].AllRcpts) {
							c.Violate("c05-extra-rcpt", "more RCPT commands than recipients", sc)
							continue
						}
						arg := strings.TrimPrefix(e.Line, "RCPT TO:")
						l, d, rest, err := parsePath5321(arg)
						want := run.Msgs[mi].AllRcpts[ri]
						ri++
						if err != nil {
							c.Violate("c05-path-unparseable", fmt.Sprintf("%q: %v", e.Line, err), sc)
						} else if l+"@"+d != want {
							c.Violate("c05-path-mailbox", fmt.Sprintf("%q denotes %s@%s, the recipient is %s", e.Line, l, d, want), sc)
						} else {
							checkParams(c, sc, "RCPT", rest)
						}
					}
				}
			}
		}})

	register(Suite{Name: "c06-addresses", Property: "C06",
		Rule: "random sequences (length <= 12) of address-setting calls (To/AddTo/ToIgnoreInvalid and the Cc/Bcc/From/EnvelopeFrom/ReplyTo equivalents, display names needing quoting or RFC 2047 encoding, invalid values) followed by render; envelope sender / recipients and rendered header compared with the model; oracle: Bcc never in the output, From/To/Cc/Reply-To at most once and parse back to what the getters hold; distinct by op sequence",
		Run: func(c *Ctx) {
			n := c.N(1200, 60000)
			for i := 0; i < n; i++ {
				r := c.Rng
				spc := &MsgSpec{}
				if r.Chance(50) {
					// the equivalent entry points of the API, a message that was used and Reset before, ...
					spc.Variant = r.U64() | 1
				}
				spc.Parts = []PartSpec{{CType: "text/plain", Content: []byte("body")}}
				nops := 1 + r.Intn(12)
				for k := 0; k < nops; k++ {
					a := AddrOp{Kind: r.Intn(6)}
					switch r.Intn(4) {
					case 0:
						a.Mode = "ign"
					case 1:
						if a.Kind >= 2 && a.Kind <= 4 {
							a.Mode = "add"
						} else {
							a.Mode = "set"
						}
					default:
						a.Mode = "set"
					}
					nv := 1 + r.Intn(3)
					if a.Mode == "add" || a.Kind == 5 || a.Kind == 1 {
						nv = 1
					}
					if r.Chance(6) && a.Mode != "add" {
						nv = 0
					}
					for j := 0; j < nv; j++ {
						v := genAddrValue(r)
						if a.Kind == 4 && r.Chance(70) {
							v = fmt.Sprintf("Hidden Bcc %d <bcc-secret-%d@hidden.example>", j, r.Intn(1000))
						}
						a.Values = append(a.Values, v)
					}
					spc.Addr = append(spc.Addr, a)
					if r.Chance(12) && a.Kind >= 2 && a.Kind <= 4 {
						// the list is emptied again (and possibly filled once more by a later operation)
						spc.Addr = append(spc.Addr, AddrOp{Kind: a.Kind, Mode: "set"})
					}
				}
				m, ops, err := spc.Build()
				if err != nil {
					continue
				}
				var wants []string
				for _, a := range spc.Addr {
					if a.Mode == "ign" {
						continue
					}
					okAll := true
					oks, _, _ := parseAll(m, a)
					for _, o := range oks {
						if o == "0" {
							okAll = false
						}
					}
					wants = append(wants, encBool(okAll))
				}
				// queries: envelope sender, recipients, then the rendering
				sender, serr := m.GetSender(false)
				rcpts, _ := m.GetRecipients()
				ops = append(ops, "sender", "rcpts")
				if serr != nil {
					wants = append(wants, "!")
				} else {
					wants = append(wants, encS(sender))
				}
				wants = append(wants, encLS(rcpts))
				if r.Chance(25) {
					// an earlier delivery attempt through a local sendmail that cannot be started (the usual reason
					// for falling back to SMTP): it renders nothing and must leave the message as it was
					if err := m.WriteToSendmailWithCommand("/nonexistent/gmverif/sendmail"); err == nil {
						c.Violate("c12-silent-success", "WriteToSendmailWithCommand reported success for a binary that does not exist", spc)
					}
				}
				res := renderOnce(m, -1)
				ops = append(ops, res.line)
				wants = append(wants, res.want())
				c.AddCase(Case{Line: "msg " + strings.Join(ops, " "), Want: strings.Join(wants, " "), Nontrivial: len(spc.Addr) > 2,
					Branch: fmt.Sprintf("ops=%d", min(len(spc.Addr)/3, 3)), Desc: spc})
				// oracle
				c.rep.OracleChecked++
				var wantRcpts []string
				for _, k := range []mail.AddrHeader{mail.HeaderTo, mail.HeaderCc, mail.HeaderBcc} {
					for _, a := range m.GetAddrHeader(k) {
						wantRcpts = append(wantRcpts, a.Address)
					}
				}
				if strings.Join(wantRcpts, "\x00") != strings.Join(rcpts, "\x00") {
					c.Violate("c06-recipients", fmt.Sprintf("GetRecipients()=%v, To+Cc+Bcc=%v", rcpts, wantRcpts), spc)
				}
				// what the accepted calls set, book-kept from the call sequence alone (a call that returned an
				// error sets nothing): the envelope must be exactly that
				led := addrLedger(m, spc.Addr)
				ledFull := addrLedgerOf(m, spc.Addr, true)
				var ledRcpts []string
				for _, k := range []int{2, 3, 4} {
					ledRcpts = append(ledRcpts, led[k]...)
				}
				if strings.Join(ledRcpts, "\x00") != strings.Join(rcpts, "\x00") {
					c.Violate("c06-not-what-was-set", fmt.Sprintf("envelope recipients %v, but the accepted calls set To+Cc+Bcc=%v", rcpts, ledRcpts), spc)
				}
				wantSender := ""
				if len(led[1]) > 0 {
					wantSender = led[1][0]
				} else if len(led[0]) > 0 {
					wantSender = led[0][0]
				}
				if serr == nil && sender != wantSender || serr != nil && wantSender != "" {
					c.Violate("c06-not-what-was-set", fmt.Sprintf("envelope sender %q (err %v), but the accepted calls set %q", sender, serr, wantSender), spc)
				}
				for _, a := range m.GetAddrHeader(mail.HeaderBcc) {
					if bytes.Contains(res.out, []byte(a.Address)) && !inOther(m, a.Address) {
						c.Violate("c06-bcc-leak", "a Bcc address appears in the rendered message: "+a.Address, spc)
					}
					if a.Name != "" && len(a.Name) > 6 && bytes.Contains(res.out, []byte(a.Name)) && !nameInOther(m, a.Name) {
						c.Violate("c06-bcc-leak", "a Bcc display name appears in the rendered message: "+a.Name, spc)
					}
				}
				if bytes.Contains(res.out, []byte("\r\nBcc:")) || bytes.HasPrefix(res.out, []byte("Bcc:")) {
					c.Violate("c06-bcc-leak", "the rendered message has a Bcc field", spc)
				}
				ent, err := parseEntity(res.out, 0)
				if err != nil {
					c.Violate("c06-unparseable", err.Error(), spc)
					continue
				}
				for _, hk := range []struct {
					name string
					kind mail.AddrHeader
				}{{"From", mail.HeaderFrom}, {"To", mail.HeaderTo}, {"Cc", mail.HeaderCc}, {"Reply-To", mail.HeaderReplyTo}} {
					v, cnt := ent.Get(hk.name)
					want := m.GetAddrHeader(hk.kind)
					if hk.name == "From" && len(want) == 0 {
						want = m.GetAddrHeader(mail.HeaderEnvelopeFrom)
					}
					if cnt > 1 {
						c.Violate("c06-duplicate-field", hk.name+" occurs more than once", spc)
						continue
					}
					if len(want) == 0 {
						if cnt != 0 && strings.TrimSpace(v) != "" {
							c.Violate("c06-unexpected-field", hk.name+" rendered although no address is set", spc)
						}
						continue
					}
					if cnt == 0 {
						c.Violate("c06-missing-field", hk.name+" is set but not rendered", spc)
						continue
					}
					names, addrs, perr := parsedNames(v)
					if perr != nil {
						c.Violate("c06-field-unparseable", fmt.Sprintf("%s: %q does not parse: %v", hk.name, v, perr), spc)
						continue
					}
					if len(addrs) != len(want) {
						c.Violate("c06-field-mismatch", fmt.Sprintf("%s has %d addresses, %d were set", hk.name, len(addrs), len(want)), spc)
						continue
					}
					// ... and exactly the names and addresses the accepted calls set, book-kept from the call
					// sequence and parsed by net/mail (not read back from the Msg)
					ledKind := map[string]int{"From": 0, "To": 2, "Cc": 3, "Reply-To": 5}[hk.name]
					ledVals := ledFull[ledKind]
					if hk.name == "From" && len(ledVals) == 0 {
						ledVals = ledFull[1]
					}
					if lnames, laddrs, lerr := parsedNames(strings.Join(ledVals, ", ")); lerr == nil && len(ledVals) > 0 {
						if strings.Join(laddrs, "\x00") != strings.Join(addrs, "\x00") || strings.Join(lnames, "\x00") != strings.Join(names, "\x00") {
							c.Violate("c06-not-what-was-set", fmt.Sprintf("%s renders as %q %q, the accepted calls set %q %q", hk.name, names, addrs, lnames, laddrs), spc)
						}
					}
					for k := range want {
						if addrs[k] != want[k].Address || names[k] != want[k].Name {
							c.Violate("c06-field-mismatch", fmt.Sprintf("%s[%d] parses to %q <%s>, set was %q <%s>", hk.name, k, names[k], addrs[k], want[k].Name, want[k].Address), spc)
						}
					}
				}
			}
		}})
}

func inOther(m *mail.Msg, addr string) bool {
	for _, k := range []mail.AddrHeader{mail.HeaderFrom, mail.HeaderTo, mail.HeaderCc, mail.HeaderReplyTo, mail.HeaderEnvelopeFrom} {
		for _, a := range m.GetAddrHeader(k) {
			if a.Address == addr {
				return true
			}
		}
	}
	return false
}

func nameInOther(m *mail.Msg, name string) bool {
	for _, k := range []mail.AddrHeader{mail.HeaderFrom, mail.HeaderTo, mail.HeaderCc, mail.HeaderReplyTo, mail.HeaderEnvelopeFrom} {
		for _, a := range m.GetAddrHeader(k) {
			if strings.Contains(a.Name, name) || strings.Contains(name, a.Name) && a.Name != "" {
				return true
			}
		}
	}
	return false
}

// checkParams: the ESMTP parameters after the path are exactly the configured ones
func checkParams(c *Ctx, sc *SmtpScenario, verb, rest string) {
	allowed := map[string]bool{}
	if verb == "MAIL" {
		allowed["BODY=8BITMIME"] = true
		allowed["SMTPUTF8"] = true
		allowed["RET=HDRS"] = true
		allowed["RET=FULL"] = true
	} else {
		dsn := "FAILURE,SUCCESS"
		if len(sc.DSNNotify) > 0 {
			dsn = strings.Join(sc.DSNNotify, ",")
		}
		exact := true
		for _, n := range sc.DSNNotify {
			if n != "NEVER" && n != "SUCCESS" && n != "FAILURE" && n != "DELAY" {
				exact = false // anything but an RFC 3461 keyword must have been refused by the option
			}
		}
		if exact {
			allowed["NOTIFY="+dsn] = true
		}
	}
	for _, p := range strings.Fields(rest) {
		if !allowed[p] {
			c.Violate("c05-extra-parameter", fmt.Sprintf("unexpected ESMTP parameter %q on %s", p, verb), sc)
		}
	}
	if rest != "" && !strings.HasPrefix(rest, " ") {
		c.Violate("c05-extra-parameter", fmt.Sprintf("garbage %q after the path", rest), sc)
	}
}

// addrLedger book-keeps, from the call sequence alone, the bare addresses each address header holds:
// a replacing call whose values all parse replaces the list (From keeps the first address only, and an
// empty From list changes nothing), a call with an unparseable value returns an error and changes
// nothing, the IgnoreInvalid variants keep the parseable values, Add* appends one address.
func addrLedger(m *mail.Msg, ops []AddrOp) map[int][]string {
	return addrLedgerOf(m, ops, false)
}

// addrLedgerOf: with full = true the ledger holds net/mail's own rendering of every accepted value
// (display name and address) instead of the bare address
func addrLedgerOf(m *mail.Msg, ops []AddrOp, full bool) map[int][]string {
	led := map[int][]string{}
	for _, a := range ops {
		oks, strs, bares := parseAll(m, a)
		if full {
			bares = strs
		}
		var good []string
		all := true
		for i, o := range oks {
			if o == "1" {
				good = append(good, bares[i])
			} else {
				all = false
			}
		}
		switch a.Mode {
		case "set":
			if !all {
				continue
			}
		case "add":
			if !all {
				continue
			}
			good = append(append([]string(nil), led[a.Kind]...), good...)
		}
		if a.Kind == 0 {
			if len(good) > 0 {
				led[0] = good[:1]
			}
			continue
		}
		led[a.Kind] = good
	}
	return led
}
