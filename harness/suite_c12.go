package main

import (
	"os"
	"bytes"
	"bufio"
	"fmt"
	"strings"
)

// ---------------------------------------------------------------------------------------------
// C12: Msg.WriteTo against a destination that starts failing at byte offset k, for EVERY k of each
// generated shape, and against content producers that fail before/after emitting data.

func fixedEntropy(spc *MsgSpec) {
	// Date and Message-ID set by the caller, so that every run of the shape has identical bytes
	spc.Gen = append(spc.Gen, GenOp{Key: "Date", Values: []string{"Mon, 02 Jan 2006 15:04:05 -0700"}},
		GenOp{Key: "Message-ID", Values: []string{"<fixed.message.id@verif.example>"}})
}

func init() {
	register(Suite{Name: "c12-sink-offsets", Property: "C12",
		Rule: "for each generated message shape the destination fails at every byte offset k in [0, len(output)) (exhaustive per shape, short write at the boundary); checks: no panic, err != nil, returned count == bytes accepted == k; the model sweeps the same offsets; non-trivial = shape has a multipart; distinct by shape operations",
		Run: func(c *Ctx) {
			shapes := c.N(60, 1500)
			for i := 0; i < shapes; i++ {
				spc := genSpec(c.Rng, genOpts{maxParts: 3, maxFiles: 2, noFails: true, smallContent: true})
				spc.Boundary = ""
				if c.Rng.Chance(30) {
					spc.Boundary = "user-boundary"
				}
				fixedEntropy(spc)
				m, ops, err := spc.Build()
				if err != nil {
					continue
				}
				full := renderOnce(m, -1)
				if full.panic != nil || full.err != nil {
					c.Violate("c12-full-render", fmt.Sprintf("unlimited render failed: %v %v", full.panic, full.err), spc)
					continue
				}
				// second render of the same Msg (boundaries cached: startMP now assigns mw.err = SetBoundary(..))
				rerender := c.Rng.Chance(50)
				L := len(full.out)
				var bad []string
				for k := 0; k <= L; k++ {
					mk, _, err := spc.Build()
					if err != nil {
						break
					}
					if rerender {
						_ = renderOnce(mk, -1)
					}
					r := renderOnce(mk, k)
					c.rep.OracleChecked++
					in := map[string]interface{}{"spec": spc, "k": k, "rerender": rerender}
					if r.panic != nil {
						c.Violate("c12-panic", fmt.Sprintf("WriteTo panicked with the destination failing at offset %d: %v", k, r.panic), in)
						bad = append(bad, fmt.Sprint(k))
						continue
					}
					okk := true
					if k < L {
						if r.err == nil {
							c.Violate("c12-silent-success", fmt.Sprintf("WriteTo returned nil although the destination failed at offset %d of %d", k, L), in)
							okk = false
						}
						if int(r.n) != len(r.out) {
							c.Violate("c12-count", fmt.Sprintf("WriteTo returned %d but the destination accepted %d bytes (limit %d)", r.n, len(r.out), k), in)
							okk = false
						}
						if len(r.out) != k {
							okk = false // destination accepted fewer bytes than it could: not a violation by itself, but the model says k
						}
					} else if r.err != nil || int(r.n) != L {
						c.Violate("c12-count", fmt.Sprintf("unlimited-size destination: n=%d err=%v, expected %d", r.n, r.err, L), in)
						okk = false
					}
					if !okk {
						bad = append(bad, fmt.Sprint(k))
					}
				}
				line := "msg " + strings.Join(ops, " ")
				if rerender {
					line += " " + full.line
				}
				line += " " + strings.Replace(strings.TrimSuffix(full.line, " -"), "writeto", "sweep", 1)
				want := ""
				// address-op result tokens first
				for _, a := range spc.Addr {
					if a.Mode == "ign" {
						continue
					}
					okAll := true
					oks, _, _ := parseAll(m, a)
					for _, o := range oks {
						if o == "0" {
							okAll = false
						}
					}
					want += encBool(okAll) + " "
				}
				if rerender {
					want += full.want() + " "
				}
				want += encN(L) + " " + encLS(bad)
				c.AddCase(Case{Line: line, Want: want, Nontrivial: len(spc.Parts)+len(spc.Files) > 1, Branch: fmt.Sprintf("rerender=%v:", rerender) + spc.shape(),
					Key: line, Desc: map[string]interface{}{"spec": spc, "offsets": L + 1, "rerender": rerender}})
				c.rep.Evaluations += L // every offset is an evaluation of its own
			}
			c.rep.Exhaustive = false
		}})

	register(Suite{Name: "c12-producers", Property: "C12",
		Rule: "each body part, embed and attachment producer of generated shapes fails before or after emitting its data; WriteTo must return an error and the exact count; compared with the model; distinct by (shape, failing producer, position)",
		Run: func(c *Ctx) {
			n := c.N(400, 20000)
			for i := 0; i < n; i++ {
				spc := genSpec(c.Rng, genOpts{maxParts: 3, maxFiles: 3, noFails: true, smallContent: true})
				total := len(spc.Parts) + len(spc.Files)
				if total == 0 {
					continue
				}
				idx := c.Rng.Intn(total)
				before := c.Rng.Bool()
				where := ""
				if idx < len(spc.Parts) {
					spc.Parts[idx].Fails = true
					spc.Parts[idx].Deleted = false // a deleted part's producer never runs
					if before {
						spc.Parts[idx].Content = nil
						spc.Parts[idx].chunks = nil
					}
					where = fmt.Sprintf("part%d", idx)
				} else {
					f := &spc.Files[idx-len(spc.Parts)]
					f.Fails = true
					if before {
						f.Content = nil
						// ... or a real file-system fault instead of a failing writer function
						if k := c.Rng.Intn(3); k > 0 {
							f.Source = []string{"", "fs-dir", "fs-gone"}[k]
						}
					}
					if !before && c.Rng.Chance(35) {
						// not a failing writer function but a real source: readable, not rewindable
						f.Source = "norewind"
					}
					where = fmt.Sprintf("file%d", idx-len(spc.Parts))
				}
				m, ops, err := spc.Build()
				if err != nil {
					continue
				}
				r := renderOnce(m, -1)
				c.rep.OracleChecked++
				if r.panic != nil {
					c.Violate("c12-panic", fmt.Sprintf("WriteTo panicked when producer %s failed: %v", where, r.panic), spc)
					continue
				}
				if r.err == nil {
					c.Violate("c12-silent-success", "WriteTo returned nil although producer "+where+" failed", spc)
				}
				if int(r.n) != len(r.out) {
					c.Violate("c12-count", fmt.Sprintf("WriteTo returned %d but the destination accepted %d bytes", r.n, len(r.out)), spc)
				}
				want := ""
				for _, a := range spc.Addr {
					if a.Mode == "ign" {
						continue
					}
					okAll := true
					oks, _, _ := parseAll(m, a)
					for _, o := range oks {
						if o == "0" {
							okAll = false
						}
					}
					want += encBool(okAll) + " "
				}
				c.AddCase(Case{Line: "msg " + strings.Join(ops, " ") + " " + r.line, Want: want + r.want(), Nontrivial: true,
					Branch: fmt.Sprintf("%s:before=%v", where[:4], before), Desc: map[string]interface{}{"spec": spc, "failing": where, "before_data": before}})
				// the same through destinations of other kinds: a buffered writer (it has a Flush method), a file,
				// Msg.Write; whatever the destination can do besides Write, the failure must be reported
				for _, kind := range []string{"bufio", "file", "Write"} {
					var err2 error
					func() {
						defer func() {
							if p := recover(); p != nil {
								c.Violate("c12-panic", fmt.Sprintf("render into a %s destination panicked when producer %s failed: %v", kind, where, p), spc)
								err2 = fmt.Errorf("panic")
							}
						}()
						switch kind {
						case "bufio":
							bw := bufio.NewWriter(&bytes.Buffer{})
							_, err2 = m.WriteTo(bw)
						case "file":
							f, ferr := os.CreateTemp("", "gmverif-c12-*.eml")
							if ferr != nil {
								err2 = ferr
								return
							}
							name := f.Name()
							_ = f.Close()
							defer os.Remove(name)
							err2 = m.WriteToFile(name)
						default:
							_, err2 = m.Write(&bytes.Buffer{})
						}
					}()
					if err2 == nil {
						c.Violate("c12-silent-success", fmt.Sprintf("render into a %s destination returned nil although producer %s failed", kind, where), spc)
					}
				}
			}
		}})
}

func init() {
	register(Suite{Name: "c12-large", Property: "C12",
		Rule: "generated shapes in which one body part or file carries 32 KiB .. 200 KiB (lengths around 32768 and 65536 included), every transfer encoding; the destination fails at sampled offsets (uniform, and within +-1 of every multiple of 4096 / 32768 / 65536 of the output) after a short write; checks: no panic, err != nil, returned count == bytes the destination accepted; the unlimited render returns the full length; oracle only (no model line: the sweep of the model is exhaustive on the small shapes); distinct by (shape, offset)",
		Run: func(c *Ctx) {
			shapes := c.N(12, 400)
			sizes := []int{32767, 32768, 32769, 40000, 49152, 65535, 65536, 65537, 100000, 200000}
			for i := 0; i < shapes; i++ {
				r := c.Rng
				spc := genSpec(r, genOpts{maxParts: 2, maxFiles: 2, noFails: true, smallContent: true})
				spc.Boundary = ""
				big := make([]byte, sizes[r.Intn(len(sizes))])
				switch r.Intn(3) {
				case 0:
					for j := range big {
						big[j] = byte(r.Intn(256))
					}
				case 1:
					for j := range big {
						big[j] = "abcdefghij klmnop\r\n=."[r.Intn(21)]
					}
				default:
					for j := range big {
						big[j] = byte('a' + j%26)
					}
				}
				where := "file"
				if len(spc.Files) > 0 && r.Chance(70) {
					spc.Files[r.Intn(len(spc.Files))].Content = big
				} else if len(spc.Parts) > 0 {
					spc.Parts[r.Intn(len(spc.Parts))].Content = big
					where = "part"
				} else {
					spc.Files = append(spc.Files, FileSpec{Attach: true, Name: "big.bin", Content: big})
				}
				fixedEntropy(spc)
				m, _, err := spc.Build()
				if err != nil {
					continue
				}
				full := renderOnce(m, -1)
				if full.panic != nil || full.err != nil {
					c.Violate("c12-full-render", fmt.Sprintf("unlimited render failed: %v %v", full.panic, full.err), map[string]interface{}{"shape": spc.shape(), "size": len(big)})
					continue
				}
				L := len(full.out)
				offs := map[int]bool{}
				for k := 0; k < 24; k++ {
					offs[r.Intn(L)] = true
				}
				for _, step := range []int{4096, 32768, 65536} {
					for base := step; base < L && len(offs) < 120; base += step {
						if step == 4096 && !r.Chance(10) {
							continue
						}
						for d := -1; d <= 1; d++ {
							if base+d >= 0 && base+d < L {
								offs[base+d] = true
							}
						}
					}
				}
				for k := range offs {
					mk, _, err := spc.Build()
					if err != nil {
						break
					}
					res := renderOnce(mk, k)
					c.rep.OracleChecked++
					in := map[string]interface{}{"shape": spc.shape(), "large": where, "size": len(big), "output_length": L, "k": k, "spec_without_content": specSummary(spc)}
					switch {
					case res.panic != nil:
						c.Violate("c12-panic", fmt.Sprintf("WriteTo panicked with the destination failing at offset %d: %v", k, res.panic), in)
					case res.err == nil:
						c.Violate("c12-silent-success", fmt.Sprintf("WriteTo returned nil although the destination failed at offset %d of %d", k, L), in)
					case int(res.n) != len(res.out):
						c.Violate("c12-count", fmt.Sprintf("WriteTo returned %d but the destination accepted %d bytes (limit %d, output %d bytes)", res.n, len(res.out), k, L), in)
					}
					c.Count(true, fmt.Sprintf("%d/%d/%s", i, k, spc.shape()), fmt.Sprintf("large-%s:%s", where, spc.shape()))
				}
			}
		}})
}

// specSummary: the spec with large contents replaced by their length (for replay files)
func specSummary(sp *MsgSpec) map[string]interface{} {
	var parts, files []string
	for _, p := range sp.Parts {
		enc := ""
		if p.Enc != nil {
			enc = *p.Enc
		}
		parts = append(parts, fmt.Sprintf("%s enc=%q %d bytes", p.CType, enc, len(p.Content)))
	}
	for _, f := range sp.Files {
		files = append(files, fmt.Sprintf("attach=%v %q enc=%q source=%q %d bytes", f.Attach, f.Name, f.Enc, f.Source, len(f.Content)))
	}
	return map[string]interface{}{"encoding": sp.Encoding, "charset": sp.Charset, "parts": parts, "files": files}
}
