package main

import (
	"os"
	"bytes"
	"context"
	"encoding/base64"
	"fmt"
	"strings"

	mail "github.com/wneessen/go-mail"
	maillog "github.com/wneessen/go-mail/log"
)

// ---------------------------------------------------------------------------------------------
// C14 (SASL interoperability), C15 (SCRAM authenticates the server), C16 (debug log redaction)

var credAtoms = []string{"user", "alice", "p@ss", "pässwörd", "ключ", "a,b", "x=y", "=2C", ",", "=", " ", "with space", "\t", "\x01", "\x7f", "Z", "0", "long-long-long-long-long-long-long-long-secret", "€uro", "😀"}

// credentials whose base64 form is an SMTP command word in some spelling ("AB-" encodes to "QUIt"), the
// lone "*" that cancels an exchange, and Latin-1 strings with a no-break space (PRECIS maps it to a blank)
var specialCreds = func() []string {
	out := []string{"*"}
	for _, w := range []string{"QUIT", "RSET", "NOOP", "DATA", "EHLO", "HELO", "MAIL", "RCPT", "AUTH"} {
		for mask := 0; mask < 16; mask++ {
			b := []byte(w)
			for i := range b {
				if mask&(1<<i) != 0 {
					b[i] |= 0x20
				}
			}
			if d, err := base64.StdEncoding.DecodeString(string(b)); err == nil {
				out = append(out, string(d))
			}
		}
	}
	return out
}()

func genCred(r *Rng, allowEmpty bool) string {
	n := 1 + r.Intn(3)
	if allowEmpty && r.Chance(5) {
		return ""
	}
	if r.Chance(5) {
		return specialCreds[r.Intn(len(specialCreds))]
	}
	if r.Chance(4) {
		// long secrets (tokens, pass phrases): command lines and log records beyond 512 and 4096 octets
		n := []int{300, 385, 400, 600, 1000, 5000}[r.Intn(6)]
		var sb strings.Builder
		for sb.Len() < n {
			sb.WriteString(credAtoms[r.Intn(len(credAtoms))])
			sb.WriteString("-long-secret-")
		}
		return sb.String()[:n]
	}
	if r.Chance(6) {
		// strings the PRECIS OpaqueString profile changes although they are plain Latin-1 / look harmless:
		// non-ASCII blanks become U+0020, compatibility forms stay, decomposed letters are composed
		return []string{"pass\u00a0word", "caf\u00e9\u00a0bar", "\u00a0", "user\u00a0", "a\u2003b", "e\u0301t\u00e9", "\u00c5ngstr\u00f6m\u00a0", "\u3000wide"}[r.Intn(8)]
	}
	var sb strings.Builder
	for i := 0; i < n; i++ {
		sb.WriteString(credAtoms[r.Intn(len(credAtoms))])
	}
	return sb.String()
}

type authCase struct {
	mech     string // auth type of the client
	tlsMode  int    // 0 none (policy NoTLS), 1 STARTTLS TLS1.3, 2 STARTTLS TLS1.2
	user     string
	pass     string
	srvPass  string // what the server expects (== pass when the credentials are right)
	salt     []byte
	iter     int
}

func (ac authCase) scenario() (*DialScenario, *saslServer) {
	ss := &saslServer{user: ac.user, pass: ac.srvPass, salt: ac.salt, iter: ac.iter}
	sc := &DialScenario{Host: "verif.example", Policy: 2, AuthType: ac.mech, User: ac.user, Pass: ac.pass, Script: map[int]SrvAction{}, sasl: ss}
	caps := []string{"8BITMIME", "AUTH PLAIN LOGIN CRAM-MD5 XOAUTH2 SCRAM-SHA-1 SCRAM-SHA-256 SCRAM-SHA-1-PLUS SCRAM-SHA-256-PLUS"}
	if ac.tlsMode > 0 {
		sc.Policy = 0
		caps = append(caps, "STARTTLS")
		sc.TLS12 = ac.tlsMode == 2
	}
	sc.Caps = caps
	sc.dynamic = func(pos int, verb, line string) (SrvAction, bool) {
		if verb == "AUTH" || verb == "auth-step" {
			return ss.handle(verb, line)
		}
		return SrvAction{}, false
	}
	if v := uint64(len(ac.user)*5 + len(ac.pass)*3 + ac.iter + ac.tlsMode); v%2 == 1 {
		sc.Variant = v
	}
	return sc, ss
}

var saslMechs = []string{"PLAIN-NOENC", "LOGIN-NOENC", "CRAM-MD5", "XOAUTH2", "SCRAM-SHA-1", "SCRAM-SHA-256", "PLAIN", "LOGIN", "SCRAM-SHA-1-PLUS", "SCRAM-SHA-256-PLUS"}

func genAuthCase(r *Rng) authCase {
	ac := authCase{mech: saslMechs[r.Intn(len(saslMechs))]}
	switch ac.mech {
	case "PLAIN", "LOGIN", "SCRAM-SHA-1-PLUS", "SCRAM-SHA-256-PLUS":
		ac.tlsMode = 1 + r.Intn(2)
	default:
		ac.tlsMode = r.Intn(3)
	}
	ac.user = genCred(r, true)
	ac.pass = genCred(r, true)
	ac.srvPass = ac.pass
	if r.Chance(25) {
		ac.srvPass = ac.pass + "x"
		if r.Bool() && len(ac.pass) > 0 {
			ac.srvPass = ac.pass[:len(ac.pass)-1]
		}
	}
	ac.salt = make([]byte, r.Intn(40))
	for i := range ac.salt {
		ac.salt[i] = byte(r.Intn(256))
	}
	ac.iter = []int{1, 2, 3, 10, 64, 4096, 1000, 20000}[r.Intn(8)]
	if r.Chance(85) && ac.iter > 5000 {
		ac.iter = 1 + r.Intn(200)
	}
	return ac
}

// usable: PLAIN needs NUL-free parts, precis may reject credentials (then the client refuses locally)
func nulFree(s string) bool { return !strings.Contains(s, "\x00") }

func init() {
	register(Suite{Name: "c14-sasl", Property: "C14",
		Rule: "full AUTH exchanges of the real mechanisms (through Client.DialWithContext; STARTTLS with in-process TLS 1.2 and 1.3 for PLAIN/LOGIN and the PLUS variants) against reference SASL servers written from the RFCs, for generated credentials (ASCII/Unicode, empty parts, ',' '=', controls), salts of any length, iteration counts, right and wrong passwords; the server must accept exactly when the credentials are right; the exchange is compared with the Lean mechanism models; SCRAM nonces of two attempts on one Auth object must differ; distinct by (mechanism, credentials, tls mode)",
		Run: func(c *Ctx) {
			n := c.N(600, 30000)
			seenNonce := map[string]bool{}
			// always: the iteration counts at and around the powers of two and the values servers really use
			var fixed []authCase
			for _, mech := range []string{"SCRAM-SHA-1", "SCRAM-SHA-256"} {
				for _, iter := range []int{4096, 10000, 16384, 16385, 20000, 32768, 65536, 65537, 100000} {
					fixed = append(fixed, authCase{mech: mech, user: "iter-user", pass: "iter-pass", srvPass: "iter-pass", salt: []byte("fixed-salt-16byt"), iter: iter})
				}
			}
			// ... and salts whose base64 form begins with each letter a careless trim of "s=" / "i=" / "r=" would eat,
			// of every padding length
			for _, mech := range []string{"SCRAM-SHA-1", "SCRAM-SHA-256"} {
				for _, first := range []byte{0xb0, 0xb2, 0x88, 0x8a, 0xac, 0xae, 0xf4, 0x00, 0xff} { // s, s, i, i, r, r, 9, A, /
					for _, l := range []int{1, 2, 3, 16} {
						salt := append([]byte{first}, bytes.Repeat([]byte{0x5a}, l-1)...)
						fixed = append(fixed, authCase{mech: mech, user: "salt-user", pass: "salt-pass", srvPass: "salt-pass", salt: salt, iter: 64})
					}
				}
			}
			for i := 0; i < n+len(fixed); i++ {
				var ac authCase
				if i < len(fixed) {
					ac = fixed[i]
				} else {
					ac = genAuthCase(c.Rng)
				}
				sc, ss := ac.scenario()
				if i >= len(fixed) && c.Rng.Chance(30) {
					// the SAME Client dials a second time (Close in between) against a fresh incarnation of the server: a
					// conforming verifier accepts exactly when the credentials are right, on every connection (the PLUS
					// variants: channel-binding data of THIS connection)
					c14Redial(c, ac, sc, ss)
					continue
				}
				run := runDialCase(c, sc, fmt.Sprintf("%s:tls=%d:right=%v", ac.mech, ac.tlsMode, ac.pass == ac.srvPass), true)
				if run == nil {
					continue
				}
				c.rep.OracleChecked++
				right := ac.pass == ac.srvPass
				// precis may refuse the credentials on the client side: then nothing reaches the server
				_, uok := scramNormUser(ac.user)
				_, pok := scramNormPass(ac.pass)
				if strings.HasPrefix(ac.mech, "SCRAM") && (!uok || !pok) {
					continue
				}
				switch {
				case right && run.Err != nil:
					c.Violate("c14-right-credentials-rejected", fmt.Sprintf("%s: correct credentials were not accepted: client error %v, server: %s", ac.mech, run.Err, ss.Rejected), sc)
				case right && !ss.Accepted:
					c.Violate("c14-success-without-server-accept", fmt.Sprintf("%s: the client reports success but the reference server never accepted", ac.mech), sc)
				case !right && run.Err == nil:
					c.Violate("c14-wrong-credentials-accepted", fmt.Sprintf("%s: dial succeeded with a wrong password", ac.mech), sc)
				case !right && ss.Accepted:
					c.Violate("c14-wrong-credentials-accepted", fmt.Sprintf("%s: the reference server accepted a wrong password", ac.mech), sc)
				}
				for _, nn := range run.ScramNonces {
					if seenNonce[nn] {
						c.Violate("c14-nonce-reuse", "a SCRAM client nonce was used twice", sc)
					}
					seenNonce[nn] = true
				}
			}
			// retry on the same Auth object: fresh nonce
			for _, mech := range []string{"SCRAM-SHA-1", "SCRAM-SHA-256"} {
				ac := authCase{mech: mech, user: "retry-user", pass: "retry-pass", srvPass: "other", salt: []byte("salt"), iter: 16}
				sc, _ := ac.scenario()
				r1 := RunDial(sc)
				_, _, _ = scramModelInputs(sc, r1)
				n1 := r1.ScramNonce
				// second dial on the same mail.Client re-creates the smtp.Auth; additionally drive one Auth object twice
				if r1.Client != nil {
					srv2 := &saslServer{user: ac.user, pass: "other", salt: ac.salt, iter: ac.iter}
					sc2 := *sc
					sc2.dynamic = func(pos int, verb, line string) (SrvAction, bool) {
						if verb == "AUTH" || verb == "auth-step" {
							return srv2.handle(verb, line)
						}
						return SrvAction{}, false
					}
					r2 := RunDial(&sc2)
					_, _, _ = scramModelInputs(&sc2, r2)
					c.rep.OracleChecked++
					if n1 != "" && n1 == r2.ScramNonce {
						c.Violate("c14-nonce-reuse", "two SCRAM attempts used the same client nonce", sc)
					}
				}
			}
		}})

	register(Suite{Name: "c14-scram-restarts", Property: "C14",
		Rule: "SCRAM exchanges that are restarted on ONE Auth object (second empty challenge), with a server that keeps its salt but changes its iteration count, and with replays of an abandoned exchange's signature: the client proof of every client-final is checked like an RFC 5802 verifier would (harness PBKDF2/HMAC) and the exchange is compared with the Lean SCRAM state machine; SCRAM-SHA-1 and SCRAM-SHA-256",
		Run: func(c *Ctx) {
			c.rep.Exhaustive = true
			for _, mech := range []string{"SCRAM-SHA-256", "SCRAM-SHA-1"} {
				for _, seq := range scramRestartSeqs {
					runScramSequence(c, mech, seq)
				}
			}
		}})

	register(Suite{Name: "c15-scram", Property: "C15",
		Rule: "every server message sequence up to length 5 over the alphabet {valid server-first, server-first with foreign nonce, with truncated nonce, malformed server-first, valid server-final, server-final for another key, server-final computed over empty state, empty challenge, junk, 235, 535} (exhaustive, quick: lengths up to 3) for SCRAM-SHA-1 and SCRAM-SHA-256; success of DialWithContext is compared with 'the valid server-final for this exchange was presented after a nonce-extending server-first'; traces compared with the Lean SCRAM state machine",
		Run: func(c *Ctx) {
			maxLen := 3
			if c.Thorough() {
				maxLen = 5
			}
			c.rep.Exhaustive = true
			alphabet := []string{"first", "first-foreign", "first-trunc", "first-malformed", "final", "final-otherkey", "final-empty", "final-blank", "final-trunc", "empty", "junk", "235", "535"}
			var seqs [][]string
			var gen func(prefix []string)
			gen = func(prefix []string) {
				if len(prefix) > 0 {
					seqs = append(seqs, append([]string(nil), prefix...))
				}
				if len(prefix) == maxLen {
					return
				}
				// a sequence ends at 235 / 535
				if len(prefix) > 0 && (prefix[len(prefix)-1] == "235" || prefix[len(prefix)-1] == "535") {
					return
				}
				for _, a := range alphabet {
					gen(append(prefix, a))
				}
			}
			gen(nil)
			// restarts on one Auth object (both tiers)
			seqs = append(seqs, scramRestartSeqs...)
			seqs = append(seqs, scramRedialSeqs...)
			seqs = append(seqs, scramLongSeqs()...)
			for _, mech := range []string{"SCRAM-SHA-256", "SCRAM-SHA-1"} {
				for _, seq := range seqs {
					if !c.Thorough() && mech == "SCRAM-SHA-1" && len(seq) == 3 {
						continue
					}
					runScramSequence(c, mech, seq)
				}
				// one smtp.Auth value (WithSMTPAuthCustom) for both connections
				for _, seq := range scramRedialSeqs {
					runScramSequenceWith(c, mech, seq, true)
				}
				// ... and a channel-bound one (the PLUS variants): second connections, restarts, the short sequences
				for _, seq := range scramRedialSeqs {
					runScramSequenceWith(c, mech+"-PLUS", seq, true)
				}
				for _, seq := range scramRestartSeqs {
					runScramSequenceWith(c, mech+"-PLUS", seq, true)
				}
				for _, seq := range seqs {
					if len(seq) <= 2 {
						runScramSequenceWith(c, mech+"-PLUS", seq, true)
					}
				}
			}
		}})

	register(Suite{Name: "c16-smtp-direct", Property: "C16",
		Rule: "the smtp package used directly: smtp.NewClient and then Client.Auth as the FIRST command (the implicit EHLO / HELO fallback happens inside Auth), debug logging on: mechanisms x generated credentials x server behaviour (success, 535, malformed challenge, disconnect, EHLO refused -> HELO); the records are compared with the model (authWith on a fresh connection) and scanned for the password and every SASL response",
		Run: func(c *Ctx) {
			n := c.N(300, 15000)
			for i := 0; i < n; i++ {
				r := c.Rng
				ac := genAuthCase(r)
				ac.tlsMode = 0
				ac.mech = []string{"PLAIN-NOENC", "LOGIN-NOENC", "CRAM-MD5", "XOAUTH2", "SCRAM-SHA-1", "SCRAM-SHA-256"}[r.Intn(6)]
				if r.Chance(70) {
					ac.srvPass = ac.pass
				}
				sc, _ := ac.scenario()
				sc.Debug = true
				sc.LogAuth = r.Chance(10)
				behaviour := r.Intn(5)
				base := sc.dynamic
				step := r.Intn(3)
				count := 0
				sc.dynamic = func(pos int, verb, line string) (SrvAction, bool) {
					if verb == "EHLO" && behaviour == 4 {
						return SrvAction{Kind: "reply", Code: 502, Text: "5.5.1 EHLO not implemented"}, true
					}
					if verb == "AUTH" || verb == "auth-step" {
						k := count
						count++
						a, ok := base(pos, verb, line)
						if k == step {
							switch behaviour {
							case 1:
								return SrvAction{Kind: "reply", Code: 535, Text: "5.7.8 no"}, true
							case 2:
								return SrvAction{Kind: "reply", Code: 334, Text: "!!!not-base64!!!"}, true
							case 3:
								return SrvAction{Kind: "drop"}, true
							}
						}
						return a, ok
					}
					return SrvAction{}, false
				}
				if r.Chance(25) {
					// aborted from the application side: Close() from another goroutine in the middle of the exchange.
					// What the client then sends depends on the schedule, so there is no model comparison: log oracle only
					sc.CloseDuringAuth = 1 + r.Intn(2)
					sc.LogAuth = false
					run := RunAuthFirst(sc)
					if run.Panic != nil {
						c.Violate("dial-panic", fmt.Sprintf("the client panicked / hung: %v", run.Panic), sc)
						continue
					}
					if os.Getenv("GMDEBUG") != "" {
						fmt.Fprintf(os.Stderr, "DEBUG %s k=%d err=%v logs=%q\n", ac.mech, sc.CloseDuringAuth, run.Err, run.Logs)
					}
					c.Count(true, fmt.Sprint(i), fmt.Sprintf("%s:closed-during-auth", ac.mech))
					oracleLogs(c, sc, run)
					continue
				}
				run := RunAuthFirst(sc)
				if run.Panic != nil {
					c.Violate("dial-panic", fmt.Sprintf("the client panicked / hung: %v", run.Panic), sc)
					continue
				}
				line := strings.Replace(sc.modelLine(run), "smtp dial ", "smtp authfirst ", 1)
				c.AddCase(Case{Line: line, Want: run.wantLine(), Nontrivial: true,
					Branch: fmt.Sprintf("%s:behaviour=%d:logauth=%v", ac.mech, behaviour, sc.LogAuth), Desc: sc})
				oracleLogs(c, sc, run)
			}
		}})

	register(Suite{Name: "c16-log", Property: "C16",
		Rule: "debug logging with a capturing logger and the stock text / JSON loggers, auth-data logging off (and on, as control): mechanisms x generated credentials x server behaviour (success, 535 at each step, malformed challenge, unexpected extra challenge, disconnect), followed by RSET after a successful dial; no record may contain the password, any SASL response the client sent or any 3xx challenge payload; traffic after the exchange must be logged verbatim; records compared with the model",
		Run: func(c *Ctx) {
			n := c.N(600, 30000)
			for i := 0; i < n; i++ {
				r := c.Rng
				ac := genAuthCase(r)
				ac.tlsMode = 0
				ac.mech = []string{"PLAIN-NOENC", "LOGIN-NOENC", "CRAM-MD5", "XOAUTH2", "SCRAM-SHA-1", "SCRAM-SHA-256"}[r.Intn(6)]
				if r.Chance(70) {
					ac.srvPass = ac.pass
				}
				sc, _ := ac.scenario()
				sc.Debug = true
				sc.LogAuth = r.Chance(10)
				sc.ThenReset = true
				// the mechanism handed over as an smtp.Auth value of the caller (the capturing logger is the caller's too)
				sc.CustomAuth = r.Chance(25)
				behaviour := r.Intn(6)
				base := sc.dynamic
				step := r.Intn(3)
				count := 0
				sc.dynamic = func(pos int, verb, line string) (SrvAction, bool) {
					if verb == "AUTH" || verb == "auth-step" {
						k := count
						count++
						a, ok := base(pos, verb, line)
						if k == step {
							switch behaviour {
							case 1:
								return SrvAction{Kind: "reply", Code: 535, Text: "5.7.8 no"}, true
							case 2:
								return SrvAction{Kind: "reply", Code: 334, Text: "!!!not-base64!!!"}, true
							case 3:
								return SrvAction{Kind: "drop"}, true
							case 4:
								if a.Code == 235 {
									return SrvAction{Kind: "reply", Code: 334, Text: base64.StdEncoding.EncodeToString([]byte("one more challenge"))}, true
								}
							}
						}
						return a, ok
					}
					return SrvAction{}, false
				}
				run := runDialCase(c, sc, fmt.Sprintf("%s:behaviour=%d:logauth=%v:custom=%v", ac.mech, behaviour, sc.LogAuth, sc.CustomAuth), true)
				if run == nil {
					continue
				}
				oracleLogs(c, sc, run)
			}
			// stock loggers: formatted output scanned for the secrets
			for _, mech := range []string{"PLAIN-NOENC", "LOGIN-NOENC", "XOAUTH2", "CRAM-MD5"} {
				for _, js := range []bool{false, true} {
					stockLoggerRun(c, mech, js, false)
					stockLoggerRun(c, mech, js, true)
				}
			}
		}})
}

// c14Redial: two dials of one Client, each against its own reference SASL server
func c14Redial(c *Ctx, ac authCase, sc *DialScenario, ss *saslServer) {
	sc2, ss2 := ac.scenario()
	sc2.Variant = 0
	sc.Redial = sc2
	run := RunDial(sc)
	if run.Panic != nil || (run.Second != nil && run.Second.Panic != nil) {
		c.Violate("dial-panic", fmt.Sprintf("the client panicked: %v", run.Panic), sc)
		return
	}
	if run.Err != nil && strings.HasPrefix(run.Err.Error(), "config:") {
		return
	}
	first := *sc
	first.Redial = nil
	branch := fmt.Sprintf("%s:tls=%d:right=%v:redial", ac.mech, ac.tlsMode, ac.pass == ac.srvPass)
	c.AddCase(Case{Line: first.modelLine(run), Want: run.wantLine(), Nontrivial: true, Branch: branch, Desc: sc})
	if run.Second != nil {
		c.AddCase(Case{Line: sc2.modelLine(run.Second), Want: run.Second.wantLine(), Nontrivial: true, Branch: branch + ":second", Desc: sc})
	}
	c.rep.OracleChecked++
	right := ac.pass == ac.srvPass
	_, uok := scramNormUser(ac.user)
	_, pok := scramNormPass(ac.pass)
	if strings.HasPrefix(ac.mech, "SCRAM") && (!uok || !pok) {
		return
	}
	for k, rr := range []*DialRun{run, run.Second} {
		if rr == nil {
			continue
		}
		srv := []*saslServer{ss, ss2}[k]
		which := []string{"first", "second"}[k]
		switch {
		case right && rr.Err != nil:
			c.Violate("c14-right-credentials-rejected", fmt.Sprintf("%s, %s connection of the Client: correct credentials were not accepted: client error %v, server: %s", ac.mech, which, rr.Err, srv.Rejected), sc)
		case right && !srv.Accepted:
			c.Violate("c14-success-without-server-accept", fmt.Sprintf("%s, %s connection: the client reports success but the reference server never accepted", ac.mech, which), sc)
		case !right && (rr.Err == nil || srv.Accepted):
			c.Violate("c14-wrong-credentials-accepted", fmt.Sprintf("%s, %s connection: a wrong password was accepted", ac.mech, which), sc)
		}
	}
	if run.Second != nil && run.Second.Err == nil {
		_ = run.Client.Close()
	}
}

// oracleLogs: with auth-data logging off, no record contains a secret, a client response or a 3xx payload
func oracleLogs(c *Ctx, sc *DialScenario, run *DialRun) {
	c.rep.OracleChecked++
	if sc.LogAuth {
		return
	}
	// what the records say when formatted, and everything else they carry (a custom logger sees the whole value)
	all := strings.Join(run.Logs, "\n") + "\n" + strings.Join(run.LogsWhole, "\n")
	if f := containsSecret([]byte(all), sc.User, sc.Pass); f != "" {
		c.Violate("c16-secret-logged", fmt.Sprintf("a log record contains the password (form %q)", f), sc)
	}
	inAuth := false
	for _, e := range run.Events {
		switch e.Kind {
		case "cmd":
			if strings.HasPrefix(e.Line, "AUTH ") {
				inAuth = true
				if f := strings.Fields(e.Line); len(f) >= 3 && len(f[2]) >= 8 && strings.Contains(all, f[2]) {
					c.Violate("c16-response-logged", "the initial SASL response appears in the log", sc)
				}
				continue
			}
			if inAuth && e.Line != "*" && e.Line != "QUIT" && len(e.Line) >= 8 && strings.Contains(all, e.Line) {
				c.Violate("c16-response-logged", "a SASL response line appears in the log", sc)
			}
		case "reply":
			if inAuth && e.Code >= 300 && e.Code < 400 && len(e.Line) >= 8 && strings.Contains(all, e.Line) {
				c.Violate("c16-challenge-logged", "a 3xx challenge payload appears in the log", sc)
			}
			if inAuth && e.Code != 334 {
				inAuth = false
			}
		}
	}
	// record by record: every line the client sends from the AUTH command to the end of the exchange (the
	// responses, a cancelling "*", the QUIT after a refusal) is logged as the placeholder and as nothing else -
	// whatever the line looks like (a response may spell a command word: base64("AB-") = "QUIt")
	var crecs []string
	for _, l := range run.Logs {
		if strings.HasPrefix(l, "C ") {
			crecs = append(crecs, l)
		}
	}
	ci := 0
	window, failed := false, false
	for _, e := range run.Events {
		switch e.Kind {
		case "cmd":
			if ci >= len(crecs) {
				break
			}
			rec := crecs[ci]
			ci++
			if strings.HasPrefix(e.Line, "AUTH ") {
				window = true
			}
			if (window || failed) && rec != "C <SMTP auth data redacted>" && e.Line != "RSET" && e.Line != "NOOP" {
				c.Violate("c16-response-logged", fmt.Sprintf("a client line of the AUTH exchange is logged as %q instead of the placeholder", rec), sc)
			}
		case "reply":
			if window && e.Code != 334 {
				window = false
				failed = e.Code >= 400
			}
		}
	}
	// the window closes: the RSET after a successful dial is logged verbatim
	if run.Err == nil && sc.ThenReset {
		if !strings.Contains(all, "C RSET") {
			c.Violate("c16-window-not-closed", "traffic after a finished AUTH exchange is not logged verbatim (RSET missing)", sc)
		}
	}
}

func stockLoggerRun(c *Ctx, mech string, json, custom bool) {
	ac := authCase{mech: mech, user: "stock-user", pass: "St0ck-Secr3t-V4lue", srvPass: "St0ck-Secr3t-V4lue"}
	sc, _ := ac.scenario()
	var buf bytes.Buffer
	var lg maillog.Logger
	if json {
		lg = maillog.NewJSON(&buf, maillog.LevelDebug)
	} else {
		lg = maillog.New(&buf, maillog.LevelDebug)
	}
	srv := NewRefServer(sc.Caps, sc.Script)
	srv.Dynamic = sc.dynamic
	authOpt := mail.WithSMTPAuth(mail.SMTPAuthType(mech))
	if custom {
		authOpt = mail.WithSMTPAuthCustom(directAuth(&DialScenario{AuthType: mech, User: ac.user, Pass: ac.pass, Host: sc.Host}))
	}
	client, err := mail.NewClient(sc.Host, mail.WithDialContextFunc(scriptedDialer(srv)), mail.WithTLSPolicy(mail.NoTLS),
		authOpt, mail.WithUsername(ac.user), mail.WithPassword(ac.pass), mail.WithDebugLog(), mail.WithLogger(lg))
	if err != nil {
		c.Note("stock logger config: %v", err)
		return
	}
	err = client.DialWithContext(context.Background())
	if err == nil {
		_ = client.Reset()
		_ = client.Close()
	}
	c.Count(true, fmt.Sprintf("stock:%s:%v:%v", mech, json, custom), "stock-logger")
	c.rep.OracleChecked++
	out := buf.Bytes()
	if f := containsSecret(out, ac.user, ac.pass); f != "" {
		c.Violate("c16-secret-logged", fmt.Sprintf("the stock logger output (json=%v, %s) contains the password (form %q)", json, mech, f), sc)
	}
	if err == nil && !bytes.Contains(out, []byte("RSET")) {
		c.Violate("c16-window-not-closed", "stock logger: RSET after AUTH is not logged verbatim", sc)
	}
}

// restarts on one Auth object (a second empty challenge): replays of an abandoned exchange's
// signature, and a server that changes its iteration count but not its salt
var scramRestartSeqs = [][]string{
	{"empty", "first", "empty", "final-stale"}, {"empty", "first", "empty", "final-stale", "235"},
	{"empty", "first", "final", "empty", "final-stale", "235"}, {"empty", "first", "final", "empty", "final", "235"},
	{"empty", "first", "empty", "first", "final", "235"}, {"empty", "first", "empty", "first-iter2", "final", "235"},
	{"empty", "first-iter2", "empty", "first", "final", "235"}, {"empty", "first", "final", "empty", "first-iter2", "final", "235"},
	{"empty", "first", "empty", "first-iter2", "final-stale", "235"}, {"empty", "first-iter2", "final", "235"},
	{"empty", "first", "first-iter2", "final", "235"}, {"empty", "first", "empty", "junk"}, {"empty", "first", "empty", "first", "final-stale"},
	{"empty", "first", "empty", "first-iter2", "empty", "first", "final", "235"},
	{"empty", "first-trunc", "final-bad", "235"}, {"empty", "first-foreign", "final-bad", "235"},
	{"empty", "first", "first-foreign", "final-bad", "235"}, {"empty", "first", "first-trunc", "final-bad", "235"},
	{"empty", "first", "final", "first-foreign", "final-bad", "235"},

	{"empty", "first", "empty", "first-trunc", "final-bad", "235"},
}

// long exchanges: a server that restarts the exchange again and again (empty challenges) and then refuses, sends
// junk or a forged signature; a loop bound in the client must not turn the end of its patience into success
func scramLongSeqs() [][]string {
	var out [][]string
	for _, n := range []int{15, 16, 17, 32, 100} {
		for _, tail := range [][]string{{"535"}, {"junk"}, {"final-empty", "235"}, {"first-foreign"}, {"first", "final", "235"}} {
			seq := make([]string, 0, n+len(tail))
			for k := 0; k < n; k++ {
				seq = append(seq, "empty")
			}
			out = append(out, append(seq, tail...))
		}
	}
	return out
}

// the same Client dials again ("|"): nothing of the finished exchange is good for the next connection (C15 only:
// a bare 235 on the second connection is the known finding of C15 again)
var scramRedialSeqs = [][]string{
	{"empty", "first", "final", "235", "|", "final-stale", "235"}, {"empty", "first", "final", "235", "|", "final-stale"},
	{"empty", "first", "final", "235", "|", "empty", "final-stale", "235"}, {"empty", "first", "final", "235", "|", "empty", "first", "final", "235"},
	{"empty", "first", "final", "235", "|", "235"}, {"empty", "first", "535", "|", "final-stale", "235"}, {"empty", "first", "final", "235", "|", "final-empty", "235"},
}
