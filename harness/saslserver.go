package main

import (
	"crypto/sha256"
	"bytes"
	"crypto/hmac"
	"crypto/md5"
	"crypto/rand"
	"crypto/tls"
	"encoding/base64"
	"encoding/hex"
	"fmt"
	"strings"
)

// ---------------------------------------------------------------------------------------------
// Reference SASL servers written from the RFCs (4616 PLAIN, draft LOGIN, 2195 CRAM-MD5, XOAUTH2,
// 5802/7677/9266 SCRAM with channel binding). Each accepts exactly the credentials it was given.
// They plug into the scripted SMTP server as its `Dynamic` action source.

type saslServer struct {
	mech      string // as in the AUTH command
	user      string // expected credentials
	pass      string
	step      int
	challenge string
	// SCRAM
	alg        string
	salt       []byte
	iter       int
	snonce     string
	clientBare string
	serverFirst string
	gs2        string
	authMsg    string
	tlsState   func() *tls.ConnectionState
	Accepted   bool
	Rejected   string // why
	Transcript []string
}

func b64(s string) string { return base64.StdEncoding.EncodeToString([]byte(s)) }

func (s *saslServer) reject(why string) (SrvAction, bool) {
	s.Rejected = why
	return SrvAction{Kind: "reply", Code: 535, Text: "5.7.8 Authentication credentials invalid"}, true
}

func (s *saslServer) accept() (SrvAction, bool) {
	s.Accepted = true
	return SrvAction{Kind: "reply", Code: 235, Text: "2.7.0 Authentication successful"}, true
}

func challenge(text string) (SrvAction, bool) {
	return SrvAction{Kind: "reply", Code: 334, Text: base64.StdEncoding.EncodeToString([]byte(text))}, true
}

// unescape SCRAM saslname: "=2C" -> ",", "=3D" -> "="; any other '=' is an error
func scramUnescape(s string) (string, bool) {
	var b strings.Builder
	for i := 0; i < len(s); i++ {
		if s[i] == ',' {
			return "", false
		}
		if s[i] != '=' {
			b.WriteByte(s[i])
			continue
		}
		if strings.HasPrefix(s[i:], "=2C") {
			b.WriteByte(',')
		} else if strings.HasPrefix(s[i:], "=3D") {
			b.WriteByte('=')
		} else {
			return "", false
		}
		i += 2
	}
	return b.String(), true
}

// handle is called for the AUTH command and for every continuation line
func (s *saslServer) handle(verb, line string) (SrvAction, bool) {
	s.Transcript = append(s.Transcript, line)
	if verb == "auth-abort" {
		return SrvAction{}, false
	}
	var payload []byte
	if verb == "AUTH" {
		f := strings.Fields(line)
		if len(f) < 2 {
			return s.reject("no mechanism")
		}
		s.mech = f[1]
		s.step = 0
		if len(f) >= 3 {
			p, err := base64.StdEncoding.DecodeString(f[2])
			if err != nil {
				return s.reject("bad base64")
			}
			payload = p
			s.step = 1 // initial response present
		} else {
			// no initial response
			switch {
			case s.mech == "LOGIN":
				return challenge("Username:")
			case s.mech == "CRAM-MD5":
				nb := make([]byte, 8)
				_, _ = rand.Read(nb)
				s.challenge = "<" + hex.EncodeToString(nb) + "@verif.example>"
				return challenge(s.challenge)
			default:
				return challenge("") // empty challenge asks for the initial response
			}
		}
	} else {
		p, err := base64.StdEncoding.DecodeString(line)
		if err != nil {
			return s.reject("bad base64")
		}
		payload = p
		s.step++
	}
	switch {
	case s.mech == "PLAIN":
		parts := bytes.Split(payload, []byte{0})
		if len(parts) != 3 {
			return s.reject("PLAIN message must have three NUL separated fields")
		}
		if string(parts[1]) == s.user && string(parts[2]) == s.pass && (len(parts[0]) == 0 || string(parts[0]) == s.user) {
			return s.accept()
		}
		return s.reject("wrong credentials")
	case s.mech == "LOGIN":
		if s.step == 1 {
			s.clientBare = string(payload)
			return challenge("Password:")
		}
		if s.clientBare == s.user && string(payload) == s.pass {
			return s.accept()
		}
		return s.reject("wrong credentials")
	case s.mech == "CRAM-MD5":
		i := bytes.LastIndexByte(payload, ' ')
		if i < 0 {
			return s.reject("malformed CRAM-MD5 response")
		}
		d := hmac.New(md5.New, []byte(s.pass))
		d.Write([]byte(s.challenge))
		if string(payload[:i]) == s.user && hmac.Equal(payload[i+1:], []byte(hex.EncodeToString(d.Sum(nil)))) {
			return s.accept()
		}
		return s.reject("wrong credentials")
	case s.mech == "XOAUTH2":
		want := "user=" + s.user + "\x01auth=Bearer " + s.pass + "\x01\x01"
		if string(payload) == want {
			return s.accept()
		}
		return s.reject("wrong credentials")
	case strings.HasPrefix(s.mech, "SCRAM-"):
		return s.scram(payload)
	}
	return s.reject("unknown mechanism")
}

func (s *saslServer) scram(payload []byte) (SrvAction, bool) {
	msg := string(payload)
	plus := strings.HasSuffix(s.mech, "-PLUS")
	switch {
	case s.clientBare == "":
		// client-first-message = gs2-header client-first-message-bare
		var gs2 string
		switch {
		case strings.HasPrefix(msg, "n,,"), strings.HasPrefix(msg, "y,,"):
			gs2 = msg[:3]
			if plus {
				return s.reject("PLUS mechanism without channel binding")
			}
		case strings.HasPrefix(msg, "p="):
			i := strings.Index(msg, ",,")
			if i < 0 {
				return s.reject("malformed gs2 header")
			}
			gs2 = msg[:i+2]
			if !plus {
				return s.reject("channel binding on a non-PLUS mechanism")
			}
		default:
			return s.reject("malformed client-first message")
		}
		bare := msg[len(gs2):]
		fields := strings.Split(bare, ",")
		if len(fields) < 2 || !strings.HasPrefix(fields[0], "n=") || !strings.HasPrefix(fields[1], "r=") {
			return s.reject("malformed client-first-message-bare")
		}
		name, ok := scramUnescape(fields[0][2:])
		if !ok {
			return s.reject("bad saslname escaping")
		}
		wantName, _ := scramNormUserPlain(s.user)
		if name != wantName {
			return s.reject("unknown user " + name)
		}
		if len(fields[1]) <= 2 {
			return s.reject("empty client nonce")
		}
		s.gs2 = gs2
		s.clientBare = bare
		// the server part of the nonce over the whole RFC 5802 "printable" range (%x21-2B / %x2D-7E),
		// derived from the account so that a run replays
		sum := sha256.Sum256([]byte(fmt.Sprintf("%s|%x|%d|%s", s.user, s.salt, s.iter, fields[1])))
		var nb []byte
		for _, b := range sum[:16] {
			ch := byte(0x21 + int(b)%(0x7e-0x21+1))
			if ch == ',' {
				ch = '~'
			}
			nb = append(nb, ch)
		}
		nb = append(nb, '~', '!', '}')
		s.snonce = string(nb)
		s.serverFirst = fmt.Sprintf("r=%s%s,s=%s,i=%d", fields[1][2:], s.snonce, base64.StdEncoding.EncodeToString(s.salt), s.iter)
		return challenge(s.serverFirst)
	case s.authMsg == "":
		// client-final-message = channel-binding "," nonce "," proof
		i := strings.LastIndex(msg, ",p=")
		if i < 0 {
			return s.reject("no proof")
		}
		woProof := msg[:i]
		proof := msg[i+3:]
		fields := strings.Split(woProof, ",")
		if len(fields) != 2 || !strings.HasPrefix(fields[0], "c=") || !strings.HasPrefix(fields[1], "r=") {
			return s.reject("malformed client-final message")
		}
		cnonce := strings.Split(s.clientBare, ",")[1][2:]
		if fields[1][2:] != cnonce+s.snonce {
			return s.reject("nonce mismatch")
		}
		cb, err := base64.StdEncoding.DecodeString(fields[0][2:])
		if err != nil {
			return s.reject("bad channel binding encoding")
		}
		wantCB := []byte(s.gs2)
		if strings.HasPrefix(s.gs2, "p=") {
			st := s.tlsState()
			if st == nil {
				return s.reject("channel binding without TLS")
			}
			typ := strings.TrimSuffix(strings.TrimPrefix(s.gs2, "p="), ",,")
			switch typ {
			case "tls-unique":
				if st.Version >= tls.VersionTLS13 {
					return s.reject("tls-unique on TLS 1.3")
				}
				wantCB = append(wantCB, st.TLSUnique...)
			case "tls-exporter":
				ekm, err := st.ExportKeyingMaterial("EXPORTER-Channel-Binding", nil, 32)
				if err != nil {
					return s.reject("exporter failed")
				}
				wantCB = append(wantCB, ekm...)
			default:
				return s.reject("unsupported channel binding type " + typ)
			}
		}
		if !bytes.Equal(cb, wantCB) {
			return s.reject("channel binding data mismatch")
		}
		s.authMsg = s.clientBare + "," + s.serverFirst + "," + woProof
		normPass, _ := scramNormPass(s.pass)
		wantProof, sig := refScram(s.mech, normPass, s.salt, s.iter, []byte(s.authMsg))
		if proof != wantProof {
			return s.reject("wrong proof")
		}
		return challenge("v=" + sig)
	default:
		if len(payload) != 0 {
			return s.reject("unexpected data after server-final")
		}
		return s.accept()
	}
}

// the server looks the user up by the unescaped, PRECIS-prepared name
func scramNormUserPlain(u string) (string, bool) {
	return scramNormPass(u)
}
