package main

import (
	"mime"
	"path/filepath"
	"bytes"
	"fmt"
	"io"
	"os"
	"strings"

	mail "github.com/wneessen/go-mail"
)

// ---------------------------------------------------------------------------------------------
// C11: histories of 2..5 render operations over every public output path, including a failed
// render in the middle, all file sources and file encodings. Every successful output must equal
// the first one; the model threads the Msg state through the same history.

var writeToFileCalls int

var renderPaths = []string{"WriteTo", "Write", "NewReader", "UpdateReader", "WriteToFile", "WriteToTempFile", "fail", "SkipMiddleware", "Sendmail", "SendmailMissing"}

func renderVia(m *mail.Msg, path string, failAt int, shared **mail.Reader) (out []byte, err error, line string) {
	switch path {
	case "fail":
		r := renderOnce(m, failAt)
		if r.panic != nil {
			return r.out, fmt.Errorf("panic: %v", r.panic), r.line
		}
		return r.out, r.err, r.line
	case "WriteTo":
		r := renderOnce(m, -1)
		if r.panic != nil {
			return r.out, fmt.Errorf("panic: %v", r.panic), r.line
		}
		return r.out, r.err, r.line
	}
	// the other paths go through WriteTo internally; the model op is the same unlimited writeto
	func() {
		defer func() {
			if r := recover(); r != nil {
				err = fmt.Errorf("panic: %v", r)
			}
		}()
		switch path {
		case "Write":
			var b bytes.Buffer
			_, err = m.Write(&b)
			out = b.Bytes()
		case "NewReader":
			rd := m.NewReader()
			*shared = rd
			out, err = io.ReadAll(rd)
			if err == nil {
				err = rd.Error()
			}
		case "UpdateReader":
			// ONE Reader per message is kept and refreshed, as an application holding on to its Reader does
			if *shared == nil {
				*shared = &mail.Reader{}
			}
			rd := *shared
			m.UpdateReader(rd)
			out, err = io.ReadAll(rd)
			if err == nil {
				err = rd.Error()
			}
		case "WriteToFile":
			f, e := os.CreateTemp("", "gmverif-out-*.eml")
			if e != nil {
				err = e
				return
			}
			name := f.Name()
			// every other time the name is that of an existing, longer file (a reused export file)
			writeToFileCalls++
			if writeToFileCalls%2 == 0 {
				_, _ = f.Write(bytes.Repeat([]byte("stale content of an earlier export\r\n"), 8192))
			}
			_ = f.Close()
			defer os.Remove(name)
			err = m.WriteToFile(name)
			if err == nil {
				out, err = os.ReadFile(name)
			}
		case "SkipMiddleware":
			// no middleware is configured: the same as WriteTo
			var b bytes.Buffer
			_, err = m.WriteToSkipMiddleware(&b, "no-such-middleware")
			out = b.Bytes()
		case "Sendmail":
			// a local "sendmail" that stores what it is given on standard input
			dir, e := os.MkdirTemp("", "gmverif-sendmail-")
			if e != nil {
				err = e
				return
			}
			defer os.RemoveAll(dir)
			script := filepath.Join(dir, "sendmail")
			target := filepath.Join(dir, "out.eml")
			if e := os.WriteFile(script, []byte("#!/bin/sh\ncat > "+target+"\n"), 0o700); e != nil {
				err = e
				return
			}
			err = m.WriteToSendmailWithCommand(script)
			if err == nil {
				out, err = os.ReadFile(target)
			}
		case "SendmailMissing":
			// the sendmail binary does not exist: the call fails before anything is rendered
			err = m.WriteToSendmailWithCommand("/nonexistent/gmverif/sendmail")
		case "WriteToTempFile":
			name, e := m.WriteToTempFile()
			if name != "" {
				defer os.Remove(name)
			}
			err = e
			if err == nil {
				out, err = os.ReadFile(name)
			}
		}
	}()
	// entropy line: read back from the message like renderOnce does (render to nowhere would change
	// nothing any more: everything is cached after the first render)
	probe := renderOnceProbe(m)
	return out, err, probe
}

// renderOnceProbe builds the `writeto` op for an unlimited render from the message's current caches
func renderOnceProbe(m *mail.Msg) string {
	date, msgid := "", ""
	if v := m.GetGenHeader(mail.HeaderDate); len(v) > 0 {
		date = v[0]
	}
	if v := m.GetGenHeader(mail.HeaderMessageID); len(v) > 0 {
		msgid = v[0]
	}
	bm, br, ba := mail.VerifBoundaries(m)
	return strings.Join([]string{"writeto", encS(date), encS(msgid), encS(bm), encS(br), encS(ba), ".", ".", "-"}, " ")
}

func init() {
	register(Suite{Name: "c11-histories", Property: "C11",
		Rule: "render histories of length 2..5 over WriteTo, Write, NewReader, UpdateReader, WriteToFile, WriteToTempFile and a failing WriteTo, on generated shapes with files from readers, read-seekers, the file system, fs.FS and templates and every file encoding; every successful output must equal the first; the model replays the history; non-trivial = history contains a failed render or a non-default file source/encoding; distinct by (operations, history)",
		Run: func(c *Ctx) {
			defer cleanupTemp()
			n := c.N(500, 20000)
			sources := []string{"", "seeker", "fs", "iofs", "tpl", "flaky", "htmltpl", "embedfs", "partly-read"}
			for i := 0; i < n; i++ {
				r := c.Rng
				spc := genSpec(r, genOpts{maxParts: 2, maxFiles: 3, noFails: true, smallContent: true})
				spc.Boundary = ""
				if r.Chance(15) {
					// a boundary chosen by the caller: it belongs to the outermost multipart of every render
					spc.Boundary = []string{"user-boundary-123", "b", "=_caller_chosen_=", "with space inside"}[r.Intn(4)]
				}
				nontrivial := false
				for j := range spc.Files {
					spc.Files[j].Source = sources[r.Intn(len(sources))]
					if spc.Files[j].Source == "tpl" || spc.Files[j].Source == "htmltpl" {
						// templates carry text: keep the content valid UTF-8 free of template actions
						spc.Files[j].Content = []byte(strings.ToValidUTF8(strings.ReplaceAll(string(spc.Files[j].Content), "{{", "{ {"), "?"))
					}
					if spc.Files[j].Source == "flaky" {
						if len(spc.Files[j].Content) == 0 {
							spc.Files[j].Source = "seeker"
						} else {
							spc.Files[j].FlakyAt = r.Intn(len(spc.Files[j].Content))
						}
					}
					if spc.Files[j].Source != "" || spc.Files[j].Enc != "" {
						nontrivial = true
					}
				}
				// sources that fail once: the first render fails (source error), every later one must be complete
				// (one such source per message: the render stops at the first failure, later sources are not read)
				flaky := false
				for j := range spc.Files {
					if spc.Files[j].Source == "flaky" {
						if flaky {
							spc.Files[j].Source = "seeker"
						}
						flaky = true
					}
				}
				m, ops, err := spc.Build()
				if err != nil {
					c.Note("build: %v", err)
					continue
				}
				var wants []string
				for _, a := range spc.Addr {
					if a.Mode == "ign" {
						continue
					}
					okAll := true
					oks, _, _ := parseAll(m, a)
					for _, o := range oks {
						if o == "0" {
							okAll = false
						}
					}
					wants = append(wants, encBool(okAll))
				}
				hlen := 2 + r.Intn(4)
				var history []string
				var first []byte
				var shared *mail.Reader
				flakyViaReader := flaky && r.Chance(50)
				changed := false
				for h := 0; h < hlen; h++ {
					path := renderPaths[r.Intn(len(renderPaths))]
					if h == 0 && path == "fail" && r.Chance(50) {
						path = "WriteTo"
					}
					if flaky && h == 0 {
						path = "WriteTo"
						if flakyViaReader {
							path = "NewReader" // the render that fails goes into a Reader the application keeps
						}
					}
					failAt := 0
					if path == "fail" {
						nontrivial = true
						if first != nil {
							failAt = r.Intn(len(first) + 1)
						} else {
							failAt = r.Intn(600)
						}
					}
					if flaky && h == 0 {
						// (decided above)
					} else if path == "SendmailMissing" {
						nontrivial = true
					}
					if h > 0 && !flaky && r.Chance(12) {
						// the message is changed between two renders (a preview, then an attachment is added): from here
						// on every render must equal the first render of the CHANGED message - and be a well-formed
						// message of the new shape (the boundaries cached by the earlier renders must still fit)
						f := FileSpec{Attach: r.Chance(70), Name: []string{"added-later.txt", "später.pdf", "x.bin"}[r.Intn(3)], Content: genBody(r, genLen(r, 60))}
						var ferr error
						if f.Attach {
							ferr = m.AttachReader(f.Name, bytes.NewReader(f.Content))
						} else {
							ferr = m.EmbedReader(f.Name, bytes.NewReader(f.Content))
						}
						if ferr == nil {
							ops = append(ops, "file", encBool(f.Attach), encS(f.Name), encS(""), encS(""), encS(""), "-", encS(mime.TypeByExtension(filepath.Ext(f.Name))), encB(f.Content), encBool(false))
							spc.Files = append(spc.Files, f)
							first = nil
							changed = true
							history = append(history, "add-file")
							nontrivial = true
						}
					}
					history = append(history, path)
					out, err, line := renderVia(m, path, failAt, &shared)
					c.rep.OracleChecked++
					in := map[string]interface{}{"spec": spc, "history": history, "fail_at": failAt}
					if path == "SendmailMissing" {
						// nothing was rendered: no model operation; the message must be what it was
						if err == nil {
							c.Violate("c12-silent-success", "WriteToSendmailWithCommand reported success for a binary that does not exist", in)
						}
						continue
					}
					if flaky && h == 0 {
						// the render during which the sources fail
						if !flakyViaReader {
							ops = append(ops, line)
							wants = append(wants, encB(out)+" "+encN(len(out))+" "+encBool(err != nil))
						}
						if err == nil {
							c.Violate("c12-silent-success", "a source failed while rendering but WriteTo returned no error", in)
						}
						// from now on the sources deliver everything
						na, ne := 0, 0
						for j := range spc.Files {
							f := &spc.Files[j]
							idx := ne
							if f.Attach {
								idx = na
								na++
							} else {
								ne++
							}
							if f.Source == "flaky" {
								ops = append(ops, "fileprod", encBool(f.Attach), encN(idx), encB(f.Content))
							}
						}
						continue
					}
					if path == "fail" {
						// model op with limit; compare accepted bytes / count / error
						ops = append(ops, line)
						// renderVia returned err (maybe nil if failAt >= len): n is len(out) by C12; keep the model comparison on bytes and err
						wants = append(wants, encB(out)+" "+encN(len(out))+" "+encBool(err != nil))
						if first != nil && !bytes.HasPrefix(first, out) {
							c.Violate("c11-failed-render-prefix", "the bytes accepted during a failed render are not a prefix of the first render", in)
						}
						if err == nil && first == nil {
							first = out
						}
						continue
					}
					if err != nil {
						c.Violate("c11-render-error", fmt.Sprintf("render via %s failed: %v", path, err), in)
						break
					}
					ops = append(ops, line)
					wants = append(wants, encB(out)+" "+encN(len(out))+" #0")
					if changed && first == nil {
						// first render of the changed message: the strict reader must find the new shape
						oracleMessage(c, spc, out, true, false)
					}
					if first == nil {
						first = out
					} else if !bytes.Equal(first, out) {
						k := 0
						for k < len(first) && k < len(out) && first[k] == out[k] {
							k++
						}
						c.Violate("c11-output-differs", fmt.Sprintf("output %d via %s differs from the first render at byte %d (%d vs %d bytes)", h+1, path, k, len(out), len(first)), in)
					}
				}
				c.AddCase(Case{Line: "msg " + strings.Join(ops, " "), Want: strings.Join(wants, " "), Nontrivial: nontrivial,
					Branch: strings.Join(history[:min(len(history), 2)], ">"), Desc: map[string]interface{}{"spec": spc, "history": history}})
			}
		}})
}

// signedEntityOf: the first body part of a multipart/signed rendering exactly as emitted, after checking that
// the detached CMS signature in the second part verifies over it
func signedEntityOf(spc *MsgSpec, out []byte) ([]byte, error) {
	ent, err := parseEntity(out, 0)
	if err != nil {
		return nil, err
	}
	if ent.MediaType != "multipart/signed" || len(ent.Children) != 2 {
		return nil, fmt.Errorf("not a multipart/signed entity of two parts (%s, %d parts)", ent.MediaType, len(ent.Children))
	}
	der, _, err := ent.Children[1].decodedBody()
	if err != nil {
		return nil, fmt.Errorf("signature part does not decode: %v", err)
	}
	base := strings.TrimSuffix(spc.SMIME, "+ic")
	ch, _ := getChain(base)
	ic := ch.intermediate
	if !strings.HasSuffix(spc.SMIME, "+ic") {
		ic = nil
	}
	if _, err := verifyCMS(der, ent.Children[0].Raw, ch.leaf, ic); err != nil {
		return ent.Children[0].Raw, err
	}
	return ent.Children[0].Raw, nil
}

func init() {
	register(Suite{Name: "c11-signed", Property: "C11",
		Rule: "S/MIME signed messages (generated shapes, RSA and ECDSA keys, with / without a caller boundary) rendered 2..4 times through a mix of WriteTo, Write, NewReader, UpdateReader, WriteToFile, WriteToTempFile: every render succeeds, its signature verifies over the first body part as emitted, and that signed entity is byte-identical to the one of the first render (signing time and ECDSA signatures may differ); oracle only - the model comparison of signed renders is part of c08-smime; distinct by (operations, history)",
		Run: func(c *Ctx) {
			defer cleanupTemp()
			n := c.N(80, 4000)
			kinds := []string{"rsa", "ecdsa", "rsa+ic", "ecdsa384"}
			paths := []string{"WriteTo", "Write", "NewReader", "UpdateReader", "WriteToFile", "WriteToTempFile"}
			for i := 0; i < n; i++ {
				r := c.Rng
				spc := genSpec(r, genOpts{maxParts: 2, maxFiles: 2, noFails: true, smallContent: true})
				spc.Boundary = ""
				if r.Chance(20) {
					spc.Boundary = []string{"user-boundary-123", "=_caller_chosen_="}[r.Intn(2)]
				}
				if len(spc.Parts)+len(spc.Files) == 0 {
					continue
				}
				for j := range spc.Parts {
					spc.Parts[j].Content = canonCRLF(spc.Parts[j].Content)
					spc.Parts[j].chunks = nil
				}
				spc.SMIME = kinds[r.Intn(len(kinds))]
				m, _, err := spc.Build()
				if err != nil {
					c.Note("build: %v", err)
					continue
				}
				hlen := 2 + r.Intn(3)
				var history []string
				var first []byte
				var shared *mail.Reader
				for h := 0; h < hlen; h++ {
					path := paths[r.Intn(len(paths))]
					history = append(history, path)
					out, rerr, _ := renderVia(m, path, 0, &shared)
					c.rep.OracleChecked++
					in := map[string]interface{}{"spec": spc, "history": history}
					if rerr != nil {
						c.Violate("c11-render-error", fmt.Sprintf("render %d of a signed message via %s failed: %v", h+1, path, rerr), in)
						break
					}
					signed, verr := signedEntityOf(spc, out)
					if verr != nil {
						c.Violate("c11-signed-render-invalid", fmt.Sprintf("render %d via %s (%s): %v", h+1, path, spc.SMIME, verr), in)
						break
					}
					if first == nil {
						first = signed
					} else if !bytes.Equal(first, signed) {
						c.Violate("c11-signed-entity-differs", fmt.Sprintf("the signed entity of render %d via %s differs from the one of the first render (%d vs %d bytes)", h+1, path, len(signed), len(first)), in)
					}
				}
				c.Count(true, fmt.Sprint(i, history, spc.SMIME), spc.SMIME+":"+strings.Join(history[:min(len(history), 2)], ">"))
			}
		}})
}
