package main

import (
	"encoding/json"
	"flag"
	"fmt"
	"os"
	"strings"
)

func main() {
	prop := flag.String("property", "", "property id (runs every suite registered for it)")
	only := flag.String("suite", "", "run only this suite")
	tier := flag.String("tier", "quick", "quick|thorough")
	seed := flag.Uint64("seed", 1, "seed")
	driver := flag.String("driver", "/verif/lean/.lake/build/bin/gmdriver", "model driver binary")
	out := flag.String("out", "", "report file (JSON list of suite reports)")
	replay := flag.String("replay", "", "replay file: re-run exactly that case")
	list := flag.Bool("list", false, "list suites")
	flag.Parse()
	if *list {
		for _, s := range suites {
			fmt.Println(s.Property, s.Name)
		}
		return
	}
	if *replay != "" {
		os.Exit(runReplay(*replay, *driver))
	}
	var reports []*Report
	for _, s := range suites {
		if *only != "" && s.Name != *only {
			continue
		}
		if *only == "" && *prop != "all" && !strings.EqualFold(s.Property, *prop) {
			continue
		}
		reports = append(reports, runSuite(s, *tier, *seed, *driver))
	}
	b, _ := json.MarshalIndent(reports, "", " ")
	if *out != "" {
		if err := os.WriteFile(*out, b, 0o644); err != nil {
			fmt.Fprintln(os.Stderr, err)
			os.Exit(2)
		}
	} else {
		os.Stdout.Write(b)
	}
}

// runReplay re-runs the case stored in a replay file written by vcheck.
func runReplay(path, driver string) int {
	raw, err := os.ReadFile(path)
	if err != nil {
		fmt.Fprintln(os.Stderr, err)
		return 2
	}
	var rp struct {
		Property string `json:"property"`
		Suite    string `json:"suite"`
		Tier     string `json:"tier"`
		Seed     uint64 `json:"seed"`
	}
	if err := json.Unmarshal(raw, &rp); err != nil {
		fmt.Fprintln(os.Stderr, err)
		return 2
	}
	bad := 0
	for _, s := range suites {
		if s.Name != rp.Suite {
			continue
		}
		rep := runSuite(s, rp.Tier, rp.Seed, driver)
		b, _ := json.MarshalIndent(rep, "", " ")
		os.Stdout.Write(b)
		bad += len(rep.Violations) + len(rep.Disagreements)
	}
	if bad > 0 {
		return 1
	}
	return 0
}
