package main

import (
	"bytes"
	"crypto"
	"crypto/ecdsa"
	"crypto/rsa"
	"crypto/sha256"
	"crypto/x509"
	"crypto/x509/pkix"
	"encoding/asn1"
	"fmt"
	"math/big"
	"os"
	"os/exec"
)

// ---------------------------------------------------------------------------------------------
// Own CMS SignedData verifier (RFC 5652) built on encoding/asn1 + crypto/x509 only; it does not use
// go-mail's internal/pkcs7. Cross-checked with `openssl cms -verify` in the thorough tier.

var (
	oidSignedData    = asn1.ObjectIdentifier{1, 2, 840, 113549, 1, 7, 2}
	oidData          = asn1.ObjectIdentifier{1, 2, 840, 113549, 1, 7, 1}
	oidContentType   = asn1.ObjectIdentifier{1, 2, 840, 113549, 1, 9, 3}
	oidMessageDigest = asn1.ObjectIdentifier{1, 2, 840, 113549, 1, 9, 4}
	oidSigningTime   = asn1.ObjectIdentifier{1, 2, 840, 113549, 1, 9, 5}
	oidSHA256        = asn1.ObjectIdentifier{2, 16, 840, 1, 101, 3, 4, 2, 1}
)

type cmsContentInfo struct {
	ContentType asn1.ObjectIdentifier
	Content     asn1.RawValue `asn1:"explicit,tag:0"`
}

type cmsEncapContent struct {
	ContentType asn1.ObjectIdentifier
	Content     asn1.RawValue `asn1:"explicit,optional,tag:0"`
}

type cmsSignedData struct {
	Version          int
	DigestAlgorithms []pkix.AlgorithmIdentifier `asn1:"set"`
	EncapContentInfo cmsEncapContent
	Certificates     asn1.RawValue   `asn1:"optional,tag:0"`
	CRLs             asn1.RawValue   `asn1:"optional,tag:1"`
	SignerInfos      []cmsSignerInfo `asn1:"set"`
}

type cmsIssuerAndSerial struct {
	Issuer asn1.RawValue
	Serial *big.Int
}

type cmsSignerInfo struct {
	Version            int
	SID                cmsIssuerAndSerial
	DigestAlgorithm    pkix.AlgorithmIdentifier
	SignedAttrs        asn1.RawValue `asn1:"optional,tag:0"`
	SignatureAlgorithm pkix.AlgorithmIdentifier
	Signature          []byte
	UnsignedAttrs      asn1.RawValue `asn1:"optional,tag:1"`
}

type cmsAttribute struct {
	Type   asn1.ObjectIdentifier
	Values asn1.RawValue `asn1:"set"`
}

type cmsResult struct {
	certSubjects []string
}

// verifyCMS checks a detached SignedData over `content`: digest attribute, signature over the signed
// attributes under the signer certificate carried in the structure, expected certificates present.
func verifyCMS(der []byte, content []byte, wantLeaf, wantIntermediate *x509.Certificate) (*cmsResult, error) {
	var ci cmsContentInfo
	rest, err := asn1.Unmarshal(der, &ci)
	if err != nil {
		return nil, fmt.Errorf("ContentInfo: %v", err)
	}
	if len(rest) != 0 {
		return nil, fmt.Errorf("trailing bytes after ContentInfo")
	}
	if !ci.ContentType.Equal(oidSignedData) {
		return nil, fmt.Errorf("content type is not signedData")
	}
	var sd cmsSignedData
	if _, err := asn1.Unmarshal(ci.Content.Bytes, &sd); err != nil {
		return nil, fmt.Errorf("SignedData: %v", err)
	}
	if !sd.EncapContentInfo.ContentType.Equal(oidData) {
		return nil, fmt.Errorf("encapsulated content type is not data")
	}
	if len(sd.EncapContentInfo.Content.Bytes) != 0 {
		return nil, fmt.Errorf("signature is not detached")
	}
	if len(sd.SignerInfos) != 1 {
		return nil, fmt.Errorf("%d signer infos", len(sd.SignerInfos))
	}
	certs, err := x509.ParseCertificates(sd.Certificates.Bytes)
	if err != nil {
		return nil, fmt.Errorf("certificates: %v", err)
	}
	res := &cmsResult{}
	for _, c := range certs {
		res.certSubjects = append(res.certSubjects, c.Subject.CommonName)
	}
	si := sd.SignerInfos[0]
	var signer *x509.Certificate
	for _, c := range certs {
		if c.SerialNumber.Cmp(si.SID.Serial) == 0 && bytes.Equal(c.RawIssuer, si.SID.Issuer.FullBytes) {
			signer = c
		}
	}
	if signer == nil {
		return res, fmt.Errorf("signer certificate not carried in the structure")
	}
	if wantLeaf != nil && !signer.Equal(wantLeaf) {
		return res, fmt.Errorf("signer certificate is not the configured one")
	}
	if wantIntermediate != nil {
		found := false
		for _, c := range certs {
			if c.Equal(wantIntermediate) {
				found = true
			}
		}
		if !found {
			return res, fmt.Errorf("intermediate certificate not included")
		}
	}
	if !si.DigestAlgorithm.Algorithm.Equal(oidSHA256) {
		return res, fmt.Errorf("digest algorithm is not SHA-256")
	}
	if len(si.SignedAttrs.Bytes) == 0 {
		return res, fmt.Errorf("no signed attributes")
	}
	// the signature is computed over the DER encoding of the attributes as SET OF (tag 0x31)
	signedAttrsDER := append([]byte{}, si.SignedAttrs.FullBytes...)
	signedAttrsDER[0] = 0x31
	var attrs []cmsAttribute
	if _, err := asn1.UnmarshalWithParams(signedAttrsDER, &attrs, "set"); err != nil {
		return res, fmt.Errorf("signed attributes: %v", err)
	}
	var haveCT, haveTime bool
	var digest []byte
	var prev []byte
	restAttrs := si.SignedAttrs.Bytes
	for len(restAttrs) > 0 {
		var raw asn1.RawValue
		r, err := asn1.Unmarshal(restAttrs, &raw)
		if err != nil {
			return res, fmt.Errorf("signed attributes: %v", err)
		}
		if prev != nil && bytes.Compare(prev, raw.FullBytes) > 0 {
			return res, fmt.Errorf("signed attributes are not in DER SET OF order")
		}
		prev = raw.FullBytes
		restAttrs = r
	}
	for _, a := range attrs {
		// RFC 5652 section 5.3: attrValues is a SET OF AttributeValue
		if a.Values.Class != asn1.ClassUniversal || a.Values.Tag != asn1.TagSet || !a.Values.IsCompound {
			return res, fmt.Errorf("the values of signed attribute %v are not encoded as a SET (class %d, tag %d)", a.Type, a.Values.Class, a.Values.Tag)
		}
		switch {
		case a.Type.Equal(oidContentType):
			var oid asn1.ObjectIdentifier
			if _, err := asn1.Unmarshal(a.Values.Bytes, &oid); err != nil || !oid.Equal(oidData) {
				return res, fmt.Errorf("content-type attribute is not data")
			}
			haveCT = true
		case a.Type.Equal(oidMessageDigest):
			if _, err := asn1.Unmarshal(a.Values.Bytes, &digest); err != nil {
				return res, fmt.Errorf("message-digest attribute: %v", err)
			}
		case a.Type.Equal(oidSigningTime):
			haveTime = true
		}
	}
	if !haveCT || !haveTime || digest == nil {
		return res, fmt.Errorf("missing signed attribute (content-type %v, signing-time %v, digest %v)", haveCT, haveTime, digest != nil)
	}
	sum := sha256.Sum256(content)
	if !bytes.Equal(sum[:], digest) {
		return res, fmt.Errorf("message-digest attribute does not match the SHA-256 of the first body part as emitted")
	}
	h := sha256.Sum256(signedAttrsDER)
	switch pub := signer.PublicKey.(type) {
	case *rsa.PublicKey:
		if err := rsa.VerifyPKCS1v15(pub, crypto.SHA256, h[:], si.Signature); err != nil {
			return res, fmt.Errorf("RSA signature over the signed attributes does not verify: %v", err)
		}
	case *ecdsa.PublicKey:
		if !ecdsa.VerifyASN1(pub, h[:], si.Signature) {
			return res, fmt.Errorf("ECDSA signature over the signed attributes does not verify")
		}
	default:
		return res, fmt.Errorf("unsupported key type %T", pub)
	}
	return res, nil
}

// opensslVerify cross-checks with the openssl CLI when present (thorough tier)
func opensslVerify(der, content []byte) (bool, string) {
	path, err := exec.LookPath("openssl")
	if err != nil {
		return true, "openssl not present"
	}
	dir, err := os.MkdirTemp("", "gmverif-cms-")
	if err != nil {
		return true, err.Error()
	}
	defer os.RemoveAll(dir)
	_ = os.WriteFile(dir+"/sig.der", der, 0o600)
	_ = os.WriteFile(dir+"/content.bin", content, 0o600)
	cmd := exec.Command(path, "cms", "-verify", "-noverify", "-binary", "-inform", "DER", "-in", dir+"/sig.der", "-content", dir+"/content.bin", "-out", os.DevNull)
	out, err := cmd.CombinedOutput()
	return err == nil, string(out)
}
