package main

import (
	"context"
	"encoding/base64"
	"fmt"
	"net"
	"strings"
)

func scriptedDialer(srv *RefServer) func(ctx context.Context, network, address string) (net.Conn, error) {
	return func(ctx context.Context, network, address string) (net.Conn, error) {
		return NewScriptConn(srv), nil
	}
}

// runScramSequence plays one adversarial server message sequence against a SCRAM client
func runScramSequence(c *Ctx, mech string, seq []string) { runScramSequenceWith(c, mech, seq, false) }

// custom: the mechanism is ONE smtp.Auth value handed to the Client (it serves every dial)
func runScramSequenceWith(c *Ctx, mech string, seq []string, custom bool) {
	const user, pass = "scram-user", "scram-correct-password"
	salt := []byte("0123456789abcdef")
	iter := 32
	sc := &DialScenario{Host: "verif.example", Policy: 2, AuthType: mech, User: user, Pass: pass, Script: map[int]SrvAction{},
		Caps: []string{"AUTH SCRAM-SHA-1 SCRAM-SHA-256"}, CustomAuth: custom}
	var clientFirstBare, cnonce, serverFirst, authMsg string
	var staleAuthMsg string // the auth message of an exchange the client has abandoned (restart)
	curIter, staleIter := iter, iter
	wrongProof := ""
	badFirst := ""       // the last server-first carried a nonce that does not extend the client's (and which)
	badFirstAuthMsg := "" // transcript of an exchange the client continued although it had to refuse
	answeredBadFirst := false
	firstValidFor := "" // the client-first-bare the last valid server-first answered
	idx := 0
	// "|" in the sequence: the same Client dials again; what follows is played on the second connection
	cur, second := seq, []string(nil)
	for i, l := range seq {
		if l == "|" {
			cur, second = seq[:i], seq[i+1:]
			break
		}
	}
	verified := false
	ackedInvalid := false
	lastFinalValid := false
	sentFinal := false
	lastLetter := ""   // what the server sent last
	invalidFinals := 0 // server-final messages presented that are not the valid one of the running exchange
	sc.dynamic = func(pos int, verb, line string) (SrvAction, bool) {
		if verb != "AUTH" && verb != "auth-step" {
			return SrvAction{}, false
		}
		if verb == "auth-step" {
			raw, err := base64.StdEncoding.DecodeString(line)
			if err == nil {
				s := string(raw)
				switch {
				case strings.HasPrefix(s, "n,,") || (strings.HasPrefix(s, "p=") && strings.Contains(s, ",,n=")):
					clientFirstBare = s[strings.Index(s, ",,")+2:]
					if j := strings.LastIndex(clientFirstBare, ",r="); j >= 0 {
						cnonce = clientFirstBare[j+3:]
					}
					if authMsg != "" {
						staleAuthMsg, staleIter = authMsg, curIter
					}
					firstValidFor, authMsg, verified = "", "", false
				case strings.HasPrefix(s, "c="):
					if k := strings.LastIndex(s, ",p="); k >= 0 && badFirst != "" {
						// the client sent its proof in reply to a server-first it must refuse
						answeredBadFirst = true
						badFirstAuthMsg = clientFirstBare + "," + badFirst + "," + s[:k]
					}
					if k := strings.LastIndex(s, ",p="); k >= 0 && firstValidFor != "" {
						authMsg = firstValidFor + "," + serverFirst + "," + s[:k]
						// what an RFC 5802 verifier would check: the proof for THIS exchange's salt and iteration count
						np, _ := scramNormPass(pass)
						if want, _ := refScram(mech, np, salt, curIter, []byte(authMsg)); want != s[k+3:] {
							wrongProof = fmt.Sprintf("client proof %s, an RFC 5802 verifier (iteration count %d) expects %s", s[k+3:], curIter, want)
						}
					}
				case s == "" && sentFinal:
					// the client acknowledged the last server-final
					if lastFinalValid {
						verified = true
					} else {
						ackedInvalid = true
					}
				}
			}
		}
		sentFinal = false
		if idx >= len(cur) {
			return SrvAction{Kind: "reply", Code: 535, Text: "5.7.8 sequence exhausted"}, true
		}
		letter := cur[idx]
		idx++
		lastLetter = letter
		ch := func(s string) (SrvAction, bool) {
			return SrvAction{Kind: "reply", Code: 334, Text: base64.StdEncoding.EncodeToString([]byte(s))}, true
		}
		normPass, _ := scramNormPass(pass)
		switch letter {
		case "empty":
			return ch("")
		case "first", "first-iter2":
			badFirst = ""
			curIter = iter
			if letter == "first-iter2" {
				curIter = 2 * iter // same salt, the server raised its iteration count
			}
			serverFirst = fmt.Sprintf("r=%sSRVNONCE%d,s=%s,i=%d", cnonce, idx, base64.StdEncoding.EncodeToString(salt), curIter)
			if clientFirstBare != "" {
				firstValidFor = clientFirstBare
			}
			authMsg = ""
			return ch(serverFirst)
		case "first-foreign":
			firstValidFor = ""
			// same shape and at least the length of a valid combined nonce, the client's part replaced
			badFirst = fmt.Sprintf("r=FOREIGN%sSRVNONCE%d,s=%s,i=%d", strings.Repeat("x", len(cnonce)), idx, base64.StdEncoding.EncodeToString(salt), iter)
			return ch(badFirst)
		case "first-trunc":
			firstValidFor = ""
			half := cnonce
			if len(half) > 4 {
				half = half[:len(half)/2]
			}
			badFirst = fmt.Sprintf("r=%s,s=%s,i=%d", half, base64.StdEncoding.EncodeToString(salt), iter)
			return ch(badFirst)
		case "final-bad":
			// a peer that knows the password plays along with the exchange the client must have refused
			sentFinal, lastFinalValid = true, false
			invalidFinals++
			_, sig := refScram(mech, normPass, salt, iter, []byte(badFirstAuthMsg))
			return ch("v=" + sig)
		case "first-malformed":
			firstValidFor = ""
			return ch("r=" + cnonce + "x,x=nosalt")
		case "final":
			sentFinal = true
			lastFinalValid = authMsg != ""
			if !lastFinalValid {
				invalidFinals++
			}
			_, sig := refScram(mech, normPass, salt, curIter, []byte(authMsg))
			return ch("v=" + sig)
		case "final-stale":
			// the valid ServerSignature of an exchange the client has abandoned: a replay
			sentFinal, lastFinalValid = true, false
			invalidFinals++
			_, sig := refScram(mech, normPass, salt, staleIter, []byte(staleAuthMsg))
			return ch("v=" + sig)
		case "final-otherkey":
			sentFinal, lastFinalValid = true, false
			invalidFinals++
			_, sig := refScram(mech, "another-password", salt, iter, []byte(authMsg))
			return ch("v=" + sig)
		case "final-empty":
			sentFinal, lastFinalValid = true, false
			invalidFinals++
			// computed over empty state: HMAC(HMAC("", "Server Key"), "") - what anybody can compute
			h := hashFor(mech)
			sig := refHMAC(h, refHMAC(h, nil, []byte("Server Key")), nil)
			return ch("v=" + base64.StdEncoding.EncodeToString(sig))
		case "final-blank":
			// a server-final with an empty verifier
			sentFinal, lastFinalValid = true, false
			invalidFinals++
			return ch("v=")
		case "final-trunc":
			// the valid ServerSignature of this exchange cut to its first three bytes
			sentFinal, lastFinalValid = true, false
			invalidFinals++
			_, sig := refScram(mech, normPass, salt, curIter, []byte(authMsg))
			raw, _ := base64.StdEncoding.DecodeString(sig)
			return ch("v=" + base64.StdEncoding.EncodeToString(raw[:3]))
		case "junk":
			return ch("x=this-is-junk")
		case "235":
			return SrvAction{Kind: "reply", Code: 235, Text: "2.7.0 ok"}, true
		default:
			return SrvAction{Kind: "reply", Code: 535, Text: "5.7.8 no"}, true
		}
	}
	if second != nil {
		// the second connection of the same Client: the exchange of the first one is history (its ServerSignature
		// is what "final-stale" replays)
		re := *sc
		first := sc.dynamic
		switched := false
		re.dynamic = func(pos int, verb, line string) (SrvAction, bool) {
			if !switched {
				switched = true
				if authMsg != "" {
					staleAuthMsg, staleIter = authMsg, curIter
				}
				cur, idx = second, 0
				clientFirstBare, cnonce, serverFirst, authMsg, firstValidFor = "", "", "", "", ""
				verified, sentFinal, lastFinalValid = false, false, false
				invalidFinals = 0
				lastLetter = ""
			}
			return first(pos, verb, line)
		}
		sc.Redial = &re
	}
	var run *DialRun
	if strings.HasSuffix(mech, "-PLUS") {
		// a channel-bound Auth value of the caller (built for a TLS connection state of the caller's making) on the
		// scripted connection: the built-in types would refuse without TLS, so there is no model line; oracle only
		run = RunDial(sc)
		if run.Panic != nil || (run.Err != nil && strings.HasPrefix(run.Err.Error(), "config:")) {
			c.Violate("dial-panic", fmt.Sprintf("the client panicked / was not configured: %v %v", run.Panic, run.Err), sc)
			return
		}
		c.Count(second == nil, mech+":"+strings.Join(seq, ","), fmt.Sprintf("plus:len=%d:%s", len(seq), seq[len(seq)-1]))
		_, _, _ = scramModelInputs(sc, run)
		if run.Second != nil {
			_, _, _ = scramModelInputs(sc, run.Second)
			if run.Second.Err == nil {
				_ = run.Client.Close()
			}
		} else if run.Err == nil {
			_ = run.Client.Close()
		}
	} else {
		run = runDialCase(c, sc, fmt.Sprintf("len=%d:%s", len(seq), seq[len(seq)-1]), second == nil)
	}
	if run == nil {
		return
	}
	if second != nil {
		if run.Second == nil {
			return
		}
		run = run.Second
	}
	c.rep.OracleChecked++
	in := map[string]interface{}{"mechanism": mech, "server_sequence": seq, "one_auth_value_for_every_dial": custom}
	// a retry on the same Auth object (second empty challenge) must use a fresh nonce
	seen := map[string]bool{}
	for _, nn := range run.ScramNonces {
		if seen[nn] {
			c.Violate("c14-nonce-reuse", "two client-first messages of one Auth object carry the same nonce", in)
		}
		seen[nn] = true
	}
	if answeredBadFirst {
		c.Violate("c15-proof-to-foreign-nonce", fmt.Sprintf("%s: the client answered a server-first whose nonce does not extend its own nonce with a client-final message (sequence %v)", mech, seq), in)
	}
	if wrongProof != "" {
		c.Violate("c14-wrong-client-proof", fmt.Sprintf("%s: %s (sequence %v)", mech, wrongProof, seq), in)
	}
	success := run.Err == nil
	if success && !verified && invalidFinals > 0 {
		// not the bare success reply (the known finding): the server DID present a server-final, a wrong one,
		// and the exchange went on to report success
		c.Violate("c15-success-after-invalid-final", fmt.Sprintf("%s: the server presented a server-final message that is not valid for the exchange, and authentication was reported successful (sequence %v)", mech, seq), in)
	} else if success && !verified && lastLetter != "235" {
		// not the bare success reply either: the last thing the server said was not a success reply at all
		c.Violate("c15-success-after-refusal", fmt.Sprintf("%s: authentication was reported successful although the server's last reply was %q, not 235 (sequence of %d replies ending in %v)", mech, lastLetter, len(seq), seq[max(0, len(seq)-3):]), in)
	} else if success && !verified {
		c.Violate("c15-success-without-server-signature", fmt.Sprintf("%s: authentication reported successful although the server never presented the valid ServerSignature of this exchange (sequence %v)", mech, seq), in)
	}
	if ackedInvalid {
		c.Violate("c15-ack-invalid-final", fmt.Sprintf("%s: the client acknowledged a server-final message that is not valid for the running exchange (sequence %v)", mech, seq), in)
	}
	if !success && verified && cur[len(cur)-1] == "235" && idx == len(cur) {
		c.Violate("c15-valid-exchange-rejected", fmt.Sprintf("%s: a complete valid exchange ending in 235 was reported as failure: %v", mech, run.Err), in)
	}
}
